import CkbVerif.Model.Alert
/-!
Helper lemmas for the alert model (`Model/Alert.lean`): `countDistinct` (the stateful
`filter … take(m).count()` of `verify_m_of_n`) against the list `fresh` of distinct configured keys
it lets through.
-/
namespace CkbVerif.Alert
open CkbVerif.Molecule
variable {K : Type} [DecidableEq K]

/-- the distinct configured keys among the recovered ones that are not in `used`, in order -/
def fresh (pks : List K) : List (Option K) → List K → List K
  | [], _ => []
  | none :: rest, used => fresh pks rest used
  | some k :: rest, used =>
    if k ∈ pks ∧ k ∉ used then k :: fresh pks rest (k :: used) else fresh pks rest used

theorem countDistinct_eq (pks : List K) (rec : List (Option K)) :
    ∀ (m : Nat) (used : List K), countDistinct pks m rec used = min m (fresh pks rec used).length := by
  induction rec with
  | nil => intro m used; cases m <;> simp [countDistinct, fresh]
  | cons r rest ih =>
    intro m used
    cases m with
    | zero => simp [countDistinct]
    | succ m =>
      cases r with
      | none => simp only [countDistinct, fresh]; exact ih (m + 1) used
      | some k =>
        simp only [countDistinct, fresh]
        split
        · rw [ih m (k :: used)]; simp only [List.length_cons]; omega
        · exact ih (m + 1) used

theorem fresh_mem (pks : List K) (rec : List (Option K)) :
    ∀ (used : List K) (k : K), k ∈ fresh pks rec used → k ∈ pks ∧ k ∉ used ∧ some k ∈ rec := by
  induction rec with
  | nil => intro used k h; simp [fresh] at h
  | cons r rest ih =>
    intro used k h
    cases r with
    | none =>
      simp only [fresh] at h
      obtain ⟨a, b, c⟩ := ih used k h
      exact ⟨a, b, List.mem_cons_of_mem _ c⟩
    | some k' =>
      simp only [fresh] at h
      split at h
      · rename_i hk
        rcases List.mem_cons.mp h with rfl | h
        · exact ⟨hk.1, hk.2, List.mem_cons_self⟩
        · obtain ⟨a, b, c⟩ := ih (k' :: used) k h
          exact ⟨a, fun hu => b (List.mem_cons_of_mem _ hu), List.mem_cons_of_mem _ c⟩
      · obtain ⟨a, b, c⟩ := ih used k h
        exact ⟨a, b, List.mem_cons_of_mem _ c⟩

theorem fresh_nodup (pks : List K) (rec : List (Option K)) :
    ∀ (used : List K), (fresh pks rec used).Nodup := by
  induction rec with
  | nil => intro used; simp [fresh]
  | cons r rest ih =>
    intro used
    cases r with
    | none => simp only [fresh]; exact ih used
    | some k =>
      simp only [fresh]
      split
      · refine List.nodup_cons.mpr ⟨fun hmem => ?_, ih (k :: used)⟩
        exact (fresh_mem pks rest (k :: used) k hmem).2.1 List.mem_cons_self
      · exact ih used

/-- every configured key that some counted signature recovers to and that is not in `used` is let
through -/
theorem mem_fresh (pks : List K) (rec : List (Option K)) :
    ∀ (used : List K) (k : K), k ∈ pks → k ∉ used → some k ∈ rec → k ∈ fresh pks rec used := by
  induction rec with
  | nil => intro used k _ _ h; simp at h
  | cons r rest ih =>
    intro used k hp hu hr
    cases r with
    | none =>
      simp only [fresh]
      rcases List.mem_cons.mp hr with h | h
      · cases h
      · exact ih used k hp hu h
    | some k' =>
      simp only [fresh]
      by_cases hkk : k = k'
      · subst hkk
        rw [if_pos ⟨hp, hu⟩]
        exact List.mem_cons_self
      · have hr' : some k ∈ rest := by
          rcases List.mem_cons.mp hr with h | h
          · exact absurd (Option.some.inj h) hkk
          · exact h
        split
        · exact List.mem_cons_of_mem _ (ih (k' :: used) k hp (by simp [hkk, hu]) hr')
        · exact ih used k hp hu hr'

/-- a duplicate-free list inside another list is not longer -/
theorem nodup_subset_length_le : ∀ (ks l : List K), ks.Nodup → (∀ k ∈ ks, k ∈ l) → ks.length ≤ l.length := by
  intro ks
  induction ks with
  | nil => intro l _ _; simp
  | cons k ks ih =>
    intro l hn hs
    have hk : k ∈ l := hs k List.mem_cons_self
    obtain ⟨hnk, hn'⟩ := List.nodup_cons.mp hn
    have hsub : ∀ x ∈ ks, x ∈ l.erase k := by
      intro x hx
      have hxl : x ∈ l := hs x (List.mem_cons_of_mem _ hx)
      have hne : x ≠ k := fun h => hnk (h ▸ hx)
      exact (List.mem_erase_of_ne hne).mpr hxl
    have := ih (l.erase k) hn' hsub
    have hl := List.length_erase_of_mem hk
    have hpos : 0 < l.length := List.length_pos_of_mem hk
    simp only [List.length_cons]
    omega

/-! ### UTF-8 -/

theorem utf8Step_shorter (bs r : Bytes) (h : utf8Step bs = some r) : r.length < bs.length := by
  unfold utf8Step at h
  split at h
  · simp at h
  · rename_i b0 rest
    simp only at h
    split at h
    · cases h; simp
    · split at h
      · split at h
        · split at h
          · cases h; simp only [List.length_cons]; omega
          · simp at h
        · simp at h
      · split at h
        · split at h
          · split at h
            · cases h; simp only [List.length_cons]; omega
            · simp at h
          · simp at h
        · split at h
          · split at h
            · split at h
              · cases h; simp only [List.length_cons]; omega
              · simp at h
            · simp at h
          · simp at h

/-- more fuel than bytes changes nothing -/
theorem utf8Fuel_mono : ∀ (n : Nat) (bs : Bytes), bs.length ≤ n → utf8Fuel n bs = utf8Fuel bs.length bs := by
  intro n
  induction n using Nat.strongRecOn with
  | _ n ih =>
    intro bs hl
    cases bs with
    | nil => cases n <;> simp [utf8Fuel]
    | cons b rest =>
      cases n with
      | zero => simp at hl
      | succ n =>
        simp only [List.length_cons, utf8Fuel]
        cases hs : utf8Step (b :: rest) with
        | none => rfl
        | some r =>
          have hr := utf8Step_shorter _ _ hs
          simp only [List.length_cons] at hr hl
          simp only
          rw [ih n (by omega) r (by omega), ih rest.length (by omega) r (by omega)]

theorem utf8Fuel_ascii : ∀ (bs : Bytes) (n : Nat), bs.length ≤ n → (∀ b ∈ bs, b.toNat < 128) → utf8Fuel n bs = true := by
  intro bs
  induction bs with
  | nil => intro n _ _; cases n <;> simp [utf8Fuel]
  | cons b rest ih =>
    intro n hl ha
    cases n with
    | zero => simp at hl
    | succ n =>
      have hb : b.toNat < 128 := ha b List.mem_cons_self
      simp only [utf8Fuel, utf8Step, hb, if_true]
      exact ih n (by simp only [List.length_cons] at hl; omega) (fun x hx => ha x (List.mem_cons_of_mem _ hx))

/-! ### the two LRU caches stay within their capacity; relay targets -/

theorem filter_not_lt_of_any {α : Type} (p : α → Bool) : ∀ (l : List α), l.any p = true →
    (l.filter (fun e => !p e)).length < l.length := by
  intro l
  induction l with
  | nil => intro h; simp at h
  | cons a t ih =>
    intro h
    simp only [List.any_cons, Bool.or_eq_true] at h
    simp only [List.filter_cons]
    by_cases ha : p a = true
    · simp only [ha, Bool.not_true, Bool.false_eq_true, if_false, List.length_cons]
      have := List.length_filter_le (fun e => !p e) t
      omega
    · have ht : t.any p = true := by
        rcases h with h | h
        · exact absurd h ha
        · exact h
      have := ih ht
      simp only [Bool.not_eq_true] at ha
      simp only [ha, Bool.not_false, if_true, List.length_cons]
      omega

theorem lruPut_length_le {κ ν : Type} [BEq κ] (cap : Nat) (hc : 0 < cap) (k : κ) (v : ν) (l : List (κ × ν))
    (hl : l.length ≤ cap) : (lruPut cap k v l).length ≤ cap := by
  unfold lruPut
  split
  · rename_i h
    have := filter_not_lt_of_any (fun e : κ × ν => e.1 == k) l h
    simp only [List.length_cons]
    omega
  · split
    · simp only [List.length_cons, List.length_dropLast]; omega
    · simp only [List.length_cons]; omega

theorem markKnown_length_le (known : List (Nat × List Nat)) (peer id : Nat)
    (hl : known.length ≤ CkbVerif.Gen.Codec.ALERT_KNOWN_LIST_SIZE) :
    (markKnown known peer id).1.length ≤ CkbVerif.Gen.Codec.ALERT_KNOWN_LIST_SIZE := by
  unfold markKnown
  split
  · rename_i ids hf
    have hany : known.any (fun e => e.1 == peer) = true := by
      have := List.find?_some hf
      exact List.any_eq_true.mpr ⟨_, List.mem_of_find?_eq_some hf, this⟩
    have := filter_not_lt_of_any (fun e : Nat × List Nat => e.1 == peer) known hany
    simp only [List.length_cons]
    omega
  · exact lruPut_length_le _ (by decide) _ _ _ hl

theorem selectPeers_spec (id : Nat) : ∀ (ps : List Nat) (known : List (Nat × List Nat)) (acc : List Nat),
    known.length ≤ CkbVerif.Gen.Codec.ALERT_KNOWN_LIST_SIZE →
    (selectPeers id ps known acc).1.length ≤ CkbVerif.Gen.Codec.ALERT_KNOWN_LIST_SIZE ∧
    ∃ sub, sub.Sublist ps ∧ (selectPeers id ps known acc).2 = acc.reverse ++ sub := by
  intro ps
  induction ps with
  | nil => intro known acc hl; exact ⟨hl, [], List.Sublist.refl _, by simp [selectPeers]⟩
  | cons p ps ih =>
    intro known acc hl
    unfold selectPeers
    have hk := markKnown_length_le known p id hl
    cases hm : markKnown known p id with
    | mk known' fresh =>
      rw [hm] at hk
      simp only
      cases fresh with
      | true =>
        obtain ⟨a, sub, hs, he⟩ := ih known' (p :: acc) hk
        refine ⟨a, p :: sub, List.Sublist.cons_cons _ hs, ?_⟩
        simp only [if_true] 
        rw [he]; simp
      | false =>
        obtain ⟨a, sub, hs, he⟩ := ih known' acc hk
        refine ⟨a, sub, List.Sublist.cons _ hs, ?_⟩
        simpa using he

end CkbVerif.Alert
