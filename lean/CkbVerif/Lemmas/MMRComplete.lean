import CkbVerif.Lemmas.MMRStoreTrees
/-!
# Completeness of `gen_proof` / `MerkleProof::verify`: the loops over the peaks
-/
namespace CkbVerif.MMR

variable {α : Type}

/-! ## every mountain of an MMR satisfies `Sub` -/

theorem szH_append (a b : List Nat) : szH (a ++ b) = szH a + szH b := by
  induction a with
  | nil => simp [szH]
  | cons x r ih => simp only [List.cons_append, szH, ih]; omega

theorem DescB_append_right {b : Nat} {a c : List Nat} (h : DescB b (a ++ c)) : ∃ b', DescB b' c := by
  induction a generalizing b with
  | nil => exact ⟨b, h⟩
  | cons x r ih => exact ih h.2

theorem Sub_mountain : ∀ (pre : List Nat) (b H : Nat), DescB b (pre ++ [H]) → Sub (szH pre) H := by
  intro pre
  induction pre with
  | nil => intro b H _; exact Sub_zero H
  | cons K r ih =>
    intro b H hd q hq
    have hd2 : DescB K (r ++ [H]) := hd.2
    have hb := szH_bound hd2 (j := 0) (by omega)
    rw [szH_append] at hb
    simp only [szH, Nat.add_zero] at hb
    have p0 := Nat.two_pow_pos K
    have e : szH (K :: r) + q = 2 ^ (K + 1) - 1 + (szH r + q) := by simp only [szH]; omega
    rw [e, posHeightInTree_right K (szH r + q) (by omega)]
    exact ih K H hd2 q hq

/-- `Sub` for every mountain of a list laid out from `off` -/
def SubAll : Nat → List Nat → Prop
  | _, [] => True
  | off, h :: r => Sub off h ∧ SubAll (off + (2 ^ (h + 1) - 1)) r

theorem SubAll_of_desc : ∀ (hs pre : List Nat) (b : Nat), DescB b (pre ++ hs) → SubAll (szH pre) hs := by
  intro hs
  induction hs with
  | nil => intro _ _ _; trivial
  | cons h r ih =>
    intro pre b hd
    refine ⟨?_, ?_⟩
    · have : pre ++ h :: r = (pre ++ [h]) ++ r := by simp
      rw [this] at hd
      -- a prefix of a strictly decreasing list is strictly decreasing
      have hpre : ∀ (l1 l2 : List Nat) (b : Nat), DescB b (l1 ++ l2) → DescB b l1 := by
        intro l1
        induction l1 with
        | nil => intro _ _ _; trivial
        | cons x xs ihx => intro l2 b h; exact ⟨h.1, ihx l2 x h.2⟩
      exact Sub_mountain pre b h (hpre _ _ _ hd)
    · have : pre ++ h :: r = (pre ++ [h]) ++ r := by simp
      rw [this] at hd
      have := ih (pre ++ [h]) b hd
      rw [szH_append] at this
      simpa [szH] using this

/-! ## list helpers -/

def KLt (x y : Nat × α) : Prop := x.1 < y.1

theorem dropWhile_ge {L : List (Nat × α)} (hs : L.Pairwise KLt) (b : Nat) :
    ∀ x ∈ L.dropWhile (fun l => decide (l.1 < b)), b ≤ x.1 := by
  induction L with
  | nil => intro x hx; simp at hx
  | cons y ys ih =>
    intro x hx
    rw [List.dropWhile_cons] at hx
    split at hx
    · exact ih (List.pairwise_cons.1 hs).2 x hx
    · rename_i hy
      simp only [decide_eq_true_eq] at hy
      simp only [List.mem_cons] at hx
      rcases hx with hx | hx
      · subst hx; omega
      · have : y.1 < x.1 := (List.pairwise_cons.1 hs).1 x hx
        omega

theorem dropWhile_all {β : Type} (p : β → Bool) (L : List β) (h : ∀ x ∈ L, p x = true) : L.dropWhile p = [] := by
  induction L with
  | nil => rfl
  | cons y ys ih =>
    rw [List.dropWhile_cons, if_pos (h y (by simp))]
    exact ih (fun x hx => h x (by simp [hx]))

theorem dropWhile_dropWhile_imp {β : Type} (p q : β → Bool) (himp : ∀ x, p x = true → q x = true) (L : List β) :
    (L.dropWhile p).dropWhile q = L.dropWhile q := by
  induction L with
  | nil => rfl
  | cons y ys ih =>
    by_cases hp : p y = true
    · rw [List.dropWhile_cons, if_pos hp, ih, List.dropWhile_cons, if_pos (himp y hp)]
    · rw [List.dropWhile_cons, if_neg hp]

theorem takeWhile_none {β : Type} (p : β → Bool) (L : List β) (h : ∀ x ∈ L.head?, p x = false) :
    L.takeWhile p = [] ∧ L.dropWhile p = L := by
  cases L with
  | nil => exact ⟨rfl, rfl⟩
  | cons y ys =>
    have := h y (by simp)
    simp [this]

theorem pairwise_dropWhile {L : List (Nat × α)} (hs : L.Pairwise KLt) (p : Nat × α → Bool) :
    (L.dropWhile p).Pairwise KLt :=
  hs.sublist (List.dropWhile_sublist p)

theorem pairwise_takeWhile {L : List (Nat × α)} (hs : L.Pairwise KLt) (p : Nat × α → Bool) :
    (L.takeWhile p).Pairwise KLt :=
  hs.sublist (List.takeWhile_sublist p)

theorem mem_takeWhile_imp {β : Type} (p : β → Bool) (L : List β) : ∀ x ∈ L.takeWhile p, p x = true ∧ x ∈ L := by
  induction L with
  | nil => intro x hx; simp at hx
  | cons y ys ih =>
    intro x hx
    rw [List.takeWhile_cons] at hx
    split at hx
    · rename_i hy
      simp only [List.mem_cons] at hx
      rcases hx with hx | hx
      · subst hx; exact ⟨hy, by simp⟩
      · exact ⟨(ih x hx).1, by simp [(ih x hx).2]⟩
    · simp at hx

/-! ## one mountain -/

/-- what is known about the claimed leaves still to be processed when the loop reaches `off` -/
structure LOK (st : Store α) (off : Nat) (L : List (Nat × α)) : Prop where
  sorted : L.Pairwise KLt
  ge : ∀ l ∈ L, off ≤ l.1
  h0 : ∀ l ∈ L, posHeightInTree l.1 = 0
  stored : ∀ l ∈ L, st l.1 = some l.2

theorem phi_leaves (H : Nat) (mine : List (Nat × α)) :
    phi H (mine.map fun l => ((l.1, l.2, 0) : QE α)) = mine.length * (H + 1) := by
  induction mine with
  | nil => simp [phi]
  | cons x xs ih =>
    simp only [List.map_cons, phi_cons, ih, List.length_cons]
    rw [Nat.add_mul]; omega

section pm
variable (merge : α → α → α) (st : Store α)

theorem peak_step (h : Nat) (t : Expr α) (off : Nat) (hl : Lay merge st off h t) (hs : Sub off h)
    (L : List (Nat × α)) (hL : LOK st off L) :
    ∃ X, (∀ proof, genProofForPeak st proof
            ((L.takeWhile (fun l => decide (l.1 ≤ rp off h))).map (·.1)) (rp off h) = some (proof ++ X)) ∧
      (∀ more pr acc, calcPeaksLoop merge (rp off h :: more) L (X ++ pr) acc =
          calcPeaksLoop merge more (L.dropWhile (fun l => decide (l.1 ≤ rp off h))) pr (acc ++ [t.eval merge])) ∧
      (L.takeWhile (fun l => decide (l.1 ≤ rp off h)) = [] → X = [t.eval merge]) := by
  have hmem := mem_takeWhile_imp (fun l : Nat × α => decide (l.1 ≤ rp off h)) L
  have hsorted := pairwise_takeWhile hL.sorted (fun l : Nat × α => decide (l.1 ≤ rp off h))
  -- every leaf claimed under this peak is a leaf of the stored tree
  have hnode : ∀ l ∈ L.takeWhile (fun l => decide (l.1 ≤ rp off h)), IsNode merge t h off l.1 0 l.2 := by
    intro l hlm
    obtain ⟨hp, hlL⟩ := hmem l hlm
    simp only [decide_eq_true_eq] at hp
    obtain ⟨v, hv⟩ := leaf_isNode (merge := merge) t h off l.1 hl hs (hL.ge l hlL) hp (hL.h0 l hlL)
    have := hv.stored hl
    rw [hL.stored l hlL] at this
    rw [Option.some.inj this]; exact hv
  cases hm : L.takeWhile (fun l => decide (l.1 ≤ rp off h)) with
  | nil =>
    refine ⟨[t.eval merge], ?_, ?_, fun _ => rfl⟩
    · intro proof
      simp [genProofForPeak, Lay_root hl]
    · intro more pr acc
      simp only [calcPeaksLoop, hm, List.singleton_append]
  | cons m1 mrest =>
    rw [hm] at hnode hsorted
    have hn1 := hnode m1 (by simp)
    cases h with
    | zero =>
      have hall : ∀ l ∈ m1 :: mrest, l.1 = rp off 0 := by
        intro l hlm
        have := (hnode l hlm).basic
        simp only [rp] at this ⊢; omega
      have hmr : mrest = [] := by
        cases mrest with
        | nil => rfl
        | cons m2 _ =>
          have h12 : m1.1 < m2.1 := (List.pairwise_cons.1 hsorted).1 m2 (by simp)
          have := hall m1 (by simp)
          have := hall m2 (by simp)
          omega
      subst hmr
      have hp1 := hall m1 (by simp)
      have hv1 : m1.2 = t.eval merge := (hn1.basic.2.2.2.1 hp1).2
      refine ⟨[], ?_, ?_, fun e => by simp at e⟩
      · intro proof
        simp [genProofForPeak, hp1]
      · intro more pr acc
        obtain ⟨p1, v1⟩ := m1
        simp only at hp1 hv1
        subst hv1
        simp only [calcPeaksLoop, hm, List.nil_append, if_pos hp1]
    | succ k =>
      have hne : ∀ l ∈ m1 :: mrest, l.1 ≠ rp off (k + 1) := by
        intro l hlm e
        have := ((hnode l hlm).basic.2.2.2.1 e).1
        omega
      have hq : QI merge t (k + 1) off 0 ((m1 :: mrest).map fun l => ((l.1, l.2, 0) : QE α)) [] := by
        refine ⟨?_, by simp, ?_, by simp, by simp⟩
        · intro e he
          obtain ⟨l, hlm, rfl⟩ := List.mem_map.1 he
          exact ⟨⟨hnode l hlm, hne l hlm⟩, rfl⟩
        · rw [List.pairwise_map]
          exact hsorted
      have hH : k + 1 + 1 < 2 ^ (k + 1 + 1) := Nat.lt_two_pow_self
      have hfuel : phi (k + 1) (((m1 :: mrest).map fun l => ((l.1, l.2, 0) : QE α)) ++ []) ≤
          peakFuel (rp off (k + 1)) (m1 :: mrest).length := by
        rw [List.append_nil, phi_leaves]
        simp only [peakFuel]
        have h1 : k + 1 + 1 ≤ rp off (k + 1) + 2 := by simp only [rp]; omega
        calc (m1 :: mrest).length * (k + 1 + 1) ≤ ((m1 :: mrest).length + 1) * (rp off (k + 1) + 2) :=
              Nat.mul_le_mul (by omega) h1
          _ = (rp off (k + 1) + 2) * ((m1 :: mrest).length + 1) := Nat.mul_comm _ _
      obtain ⟨ext, g1, c1⟩ := peak_loops hl hs _ 0 _ [] (by simp) hq hfuel
      have hgq : (((m1 :: mrest).map fun (l : Nat × α) => ((l.1, l.2, 0) : QE α)) ++ []).map QE.g =
          ((m1 :: mrest).map (·.1)).map fun p => (p, 0) := by
        simp [QE.g, Function.comp_def]
      refine ⟨ext, ?_, ?_, fun e => by simp at e⟩
      · intro proof
        have hne1 : ¬ ((m1 :: mrest).map (·.1) = [rp off (k + 1)]) := by
          intro e
          simp only [List.map_cons, List.cons.injEq] at e
          exact hne m1 (by simp) e.1
        have := g1 proof
        rw [hgq] at this
        simp only [genProofForPeak, hne1, if_false, List.length_map]
        simpa using this
      · intro more pr acc
        have := c1 pr
        rw [List.append_nil] at this
        cases mrest with
        | nil =>
          obtain ⟨p1, v1⟩ := m1
          have hp1 : p1 ≠ rp off (k + 1) := hne (p1, v1) (by simp)
          simp only [List.map_cons, List.map_nil, List.length_cons, List.length_nil] at this
          simp only [calcPeaksLoop, hm, hp1, if_false, this]
        | cons m2 mrest2 =>
          simp only [calcPeaksLoop, hm, this]

end pm

/-! ## all mountains of a group, with a continuation -/

def valsT (merge : α → α → α) (mts : List (Nat × Expr α)) : List α := mts.map fun m => m.2.eval merge

theorem takeWhile_fst (L : List (Nat × α)) (k : Nat) :
    (L.map (·.1)).takeWhile (fun p => decide (p ≤ k)) = (L.takeWhile (fun l => decide (l.1 ≤ k))).map (·.1) := by
  induction L with
  | nil => rfl
  | cons x xs ih =>
    simp only [List.map_cons, List.takeWhile_cons]
    split
    · simp only [List.map_cons, ih]
    · rfl

theorem dropWhile_fst (L : List (Nat × α)) (k : Nat) :
    (L.map (·.1)).dropWhile (fun p => decide (p ≤ k)) = (L.dropWhile (fun l => decide (l.1 ≤ k))).map (·.1) := by
  induction L with
  | nil => rfl
  | cons x xs ih =>
    simp only [List.map_cons, List.dropWhile_cons]
    split
    · exact ih
    · rfl

theorem LOK.drop {st : Store α} {off : Nat} {L : List (Nat × α)} (hL : LOK st off L) (b : Nat) :
    LOK st b (L.dropWhile (fun l => decide (l.1 < b))) := by
  have hsub := (List.dropWhile_sublist (fun l : Nat × α => decide (l.1 < b)) (l := L)).subset
  exact ⟨pairwise_dropWhile hL.sorted _, dropWhile_ge hL.sorted b, fun l hl => hL.h0 l (hsub hl),
    fun l hl => hL.stored l (hsub hl)⟩

section pms
variable (merge : α → α → α) (st : Store α)

theorem gen_peak_unfold (pk : Nat) (more : List Nat) (L : List (Nat × α)) (proof X : List α) (track : Nat)
    (h : genProofForPeak st proof ((L.takeWhile (fun l => decide (l.1 ≤ pk))).map (·.1)) pk = some (proof ++ X)) :
    genProofPeaks st (pk :: more) (L.map (·.1)) proof track =
      genProofPeaks st more ((L.dropWhile (fun l => decide (l.1 ≤ pk))).map (·.1)) (proof ++ X)
        (if (L.takeWhile (fun l => decide (l.1 ≤ pk))).isEmpty then track + 1 else 0) := by
  simp only [genProofPeaks, takeWhile_fst, dropWhile_fst, h, List.isEmpty_map]

theorem peaks_steps : ∀ (mts : List (Nat × Expr α)) (off : Nat) (L : List (Nat × α)),
    Trees merge st off mts → SubAll off (heights mts) → LOK st off L →
    ∃ X, (∀ more proof track, ∃ tr,
            genProofPeaks st (peaksAt off (heights mts) ++ more) (L.map (·.1)) proof track =
              genProofPeaks st more
                ((L.dropWhile (fun l => decide (l.1 < off + szH (heights mts)))).map (·.1)) (proof ++ X) tr ∧
            (L = [] → tr = track + mts.length)) ∧
      (∀ more pr acc,
          calcPeaksLoop merge (peaksAt off (heights mts) ++ more) L (X ++ pr) acc =
            calcPeaksLoop merge more (L.dropWhile (fun l => decide (l.1 < off + szH (heights mts)))) pr
              (acc ++ valsT merge mts)) ∧
      (L = [] → X = valsT merge mts) := by
  intro mts
  induction mts with
  | nil =>
    intro off L _ _ hL
    have hd : L.dropWhile (fun l => decide (l.1 < off + szH (heights ([] : List (Nat × Expr α))))) = L := by
      refine (takeWhile_none _ L ?_).2
      intro x hx
      have : x ∈ L := by cases L with
        | nil => simp at hx
        | cons y ys => simp at hx; subst hx; simp
      have := hL.ge x this
      simp [heights, szH]; omega
    refine ⟨[], ?_, ?_, fun _ => rfl⟩
    · intro more proof track
      exact ⟨track, by rw [hd]; simp [heights, peaksAt], fun _ => by simp⟩
    · intro more pr acc
      rw [hd]; simp [heights, peaksAt, valsT]
  | cons m r ih =>
    obtain ⟨h, t⟩ := m
    intro off L ht hsub hL
    have p0 := Nat.two_pow_pos h
    have p1 := two_pow_succ h
    obtain ⟨X1, g1, c1, e1⟩ := peak_step merge st h t off ht.1 hsub.1 L hL
    have hpred : (fun l : Nat × α => decide (l.1 ≤ rp off h)) =
        (fun l : Nat × α => decide (l.1 < off + (2 ^ (h + 1) - 1))) := by
      funext l
      have : (l.1 ≤ rp off h) ↔ (l.1 < off + (2 ^ (h + 1) - 1)) := by simp only [rp]; omega
      simp only [this]
    have hL1 : LOK st (off + (2 ^ (h + 1) - 1)) (L.dropWhile (fun l => decide (l.1 ≤ rp off h))) := by
      rw [hpred]; exact hL.drop _
    obtain ⟨X2, g2, c2, e2⟩ := ih (off + (2 ^ (h + 1) - 1)) _ ht.2 hsub.2 hL1
    have hend : off + (2 ^ (h + 1) - 1) + szH (heights r) = off + szH (heights ((h, t) :: r)) := by
      simp only [heights, List.map_cons, szH]; omega
    have hdd : (L.dropWhile (fun l => decide (l.1 ≤ rp off h))).dropWhile
          (fun l => decide (l.1 < off + (2 ^ (h + 1) - 1) + szH (heights r))) =
        L.dropWhile (fun l => decide (l.1 < off + szH (heights ((h, t) :: r)))) := by
      rw [hend]
      apply dropWhile_dropWhile_imp
      intro x hx
      have hx' : x.1 ≤ rp off h := by simpa using hx
      simp only [rp] at hx'
      simp only [decide_eq_true_eq]
      omega
    have hpk : peaksAt off (heights ((h, t) :: r)) = rp off h :: peaksAt (off + (2 ^ (h + 1) - 1)) (heights r) := rfl
    refine ⟨X1 ++ X2, ?_, ?_, ?_⟩
    · intro more proof track
      obtain ⟨tr, hg, htr⟩ := g2 more (proof ++ X1)
        (if (L.takeWhile (fun l => decide (l.1 ≤ rp off h))).isEmpty then track + 1 else 0)
      refine ⟨tr, ?_, ?_⟩
      · rw [hpk, List.cons_append, gen_peak_unfold st (rp off h) _ L proof X1 track (g1 proof), hg, hdd,
          List.append_assoc]
      · intro hLn
        subst hLn
        have := htr rfl
        simp only [List.takeWhile_nil, List.isEmpty_nil, if_true] at this
        simp only [List.length_cons]; omega
    · intro more pr acc
      rw [hpk, List.cons_append, List.append_assoc, c1, c2, hdd]
      simp [valsT]
    · intro hLn
      subst hLn
      rw [e1 rfl, e2 rfl]
      simp [valsT]

end pms

/-! ## helpers for the final assembly -/

theorem heights_append (a b : List (Nat × Expr α)) : heights (a ++ b) = heights a ++ heights b := by
  simp [heights]

theorem peaksAt_append (a b : List Nat) (off : Nat) :
    peaksAt off (a ++ b) = peaksAt off a ++ peaksAt (off + szH a) b := by
  induction a generalizing off with
  | nil => simp [peaksAt, szH]
  | cons x r ih =>
    simp only [List.cons_append, peaksAt, szH, ih]
    rw [Nat.add_assoc]

theorem Trees_append (merge : α → α → α) (st : Store α) (a b : List (Nat × Expr α)) (off : Nat) :
    Trees merge st off (a ++ b) ↔ Trees merge st off a ∧ Trees merge st (off + szH (heights a)) b := by
  induction a generalizing off with
  | nil => simp [Trees, heights, szH]
  | cons x r ih =>
    obtain ⟨h, t⟩ := x
    simp only [List.cons_append, Trees, ih, heights, List.map_cons, szH]
    rw [Nat.add_assoc, and_assoc]

theorem SubAll_append (a b : List Nat) (off : Nat) :
    SubAll off (a ++ b) ↔ SubAll off a ∧ SubAll (off + szH a) b := by
  induction a generalizing off with
  | nil => simp [SubAll, szH]
  | cons x r ih =>
    simp only [List.cons_append, SubAll, ih, szH]
    rw [Nat.add_assoc, and_assoc]

theorem split_at : ∀ (mts : List (Nat × Expr α)) (off p : Nat), off ≤ p → p < off + szH (heights mts) →
    ∃ F0 ml E, mts = F0 ++ ml :: E ∧ off + szH (heights F0) ≤ p ∧ p < off + szH (heights (F0 ++ [ml])) := by
  intro mts
  induction mts with
  | nil => intro off p h1 h2; simp [heights, szH] at h2; omega
  | cons m r ih =>
    obtain ⟨h, t⟩ := m
    intro off p h1 h2
    by_cases hp : p < off + (2 ^ (h + 1) - 1)
    · exact ⟨[], (h, t), r, rfl, by simpa [heights, szH] using h1, by simpa [heights, szH] using hp⟩
    · have e : szH (heights ((h, t) :: r)) = 2 ^ (h + 1) - 1 + szH (heights r) := rfl
      obtain ⟨F0, ml, E, he, ha, hb⟩ := ih (off + (2 ^ (h + 1) - 1)) p (by omega) (by omega)
      refine ⟨(h, t) :: F0, ml, E, by rw [he]; rfl, ?_, ?_⟩
      · have : szH (heights ((h, t) :: F0)) = 2 ^ (h + 1) - 1 + szH (heights F0) := rfl
        omega
      · have : szH (heights ((h, t) :: F0 ++ [ml])) = 2 ^ (h + 1) - 1 + szH (heights (F0 ++ [ml])) := rfl
        omega

theorem exists_max (L : List (Nat × α)) (hne : L ≠ []) : ∃ x ∈ L, ∀ y ∈ L, y.1 ≤ x.1 := by
  induction L with
  | nil => exact absurd rfl hne
  | cons a r ih =>
    cases r with
    | nil => exact ⟨a, by simp, by intro y hy; simp at hy; subst hy; exact Nat.le_refl _⟩
    | cons b r' =>
      obtain ⟨x, hx, hmax⟩ := ih (by simp)
      by_cases h : x.1 ≤ a.1
      · refine ⟨a, by simp, ?_⟩
        intro y hy
        simp only [List.mem_cons] at hy
        rcases hy with hy | hy
        · subst hy; exact Nat.le_refl _
        · have := hmax y (by simpa using hy); omega
      · refine ⟨x, List.mem_cons_of_mem _ hx, ?_⟩
        intro y hy
        simp only [List.mem_cons] at hy
        rcases hy with hy | hy
        · subst hy; omega
        · exact hmax y (by simpa using hy)

theorem mem_dropWhile_ge (L : List (Nat × α)) (b : Nat) (x : Nat × α) (hx : x ∈ L) (hb : b ≤ x.1) :
    x ∈ L.dropWhile (fun l => decide (l.1 < b)) := by
  induction L with
  | nil => simp at hx
  | cons y ys ih =>
    rw [List.dropWhile_cons]
    split
    · rename_i hy
      simp only [decide_eq_true_eq] at hy
      simp only [List.mem_cons] at hx
      rcases hx with hx | hx
      · subst hx; omega
      · exact ih hx
    · exact hx

theorem takeWhile_all {β : Type} (p : β → Bool) (L : List β) (h : ∀ x ∈ L, p x = true) : L.takeWhile p = L := by
  induction L with
  | nil => rfl
  | cons y ys ih =>
    rw [List.takeWhile_cons, if_pos (h y (by simp)), ih (fun x hx => h x (by simp [hx]))]

theorem sortNat_sorted (l : List Nat) (h : l.Pairwise (· < ·)) : sortNat l = l := by
  induction l with
  | nil => rfl
  | cons x xs ih =>
    have h' := List.pairwise_cons.1 h
    show insertSorted x (sortNat xs) = x :: xs
    rw [ih h'.2]
    cases xs with
    | nil => rfl
    | cons y ys =>
      have := h'.1 y (by simp)
      simp only [insertSorted]
      rw [if_pos (by omega)]

theorem dedupAdj_sorted (l : List Nat) (h : l.Pairwise (· < ·)) : dedupAdj l = l := by
  induction l with
  | nil => rfl
  | cons x xs ih =>
    have h' := List.pairwise_cons.1 h
    cases xs with
    | nil => rfl
    | cons y ys =>
      have := h'.1 y (by simp)
      simp only [dedupAdj]
      rw [if_neg (by omega), ih h'.2]

theorem sortLeaves_sorted (l : List (Nat × α)) (h : l.Pairwise KLt) : sortLeaves l = l := by
  induction l with
  | nil => rfl
  | cons x xs ih =>
    have h' := List.pairwise_cons.1 h
    show insertLeaf x (sortLeaves xs) = x :: xs
    rw [ih h'.2]
    cases xs with
    | nil => rfl
    | cons y ys =>
      have : x.1 < y.1 := h'.1 y (by simp)
      simp only [insertLeaf]
      rw [if_pos (by omega)]

theorem strictK_of_pairwise (l : List (Nat × α)) (h : l.Pairwise KLt) : StrictK l := by
  induction l with
  | nil => trivial
  | cons x xs ih =>
    have h' := List.pairwise_cons.1 h
    cases xs with
    | nil => trivial
    | cons y ys => exact ⟨h'.1 y (by simp), ih h'.2⟩

theorem bagRhsPeaks_snoc_bag (merge : α → α → α) (a e : List α) (b : α) (hb : bagRhsPeaks merge e = some b) :
    bagRhsPeaks merge (a ++ [b]) = bagRhsPeaks merge (a ++ e) := by
  induction a with
  | nil =>
    simp only [List.nil_append, hb]
    simp [bagRhsPeaks]
  | cons x xs ih =>
    simp only [List.cons_append, bagRhsPeaks_cons, ih]

theorem bagRhsPeaks_isSome (merge : α → α → α) (l : List α) (hne : l ≠ []) : ∃ b, bagRhsPeaks merge l = some b := by
  cases l with
  | nil => exact absurd rfl hne
  | cons x xs =>
    rw [bagRhsPeaks_cons]
    cases bagRhsPeaks merge xs with
    | none => exact ⟨_, rfl⟩
    | some b => exact ⟨_, rfl⟩

end CkbVerif.MMR
