import CkbVerif.Lemmas.EpochChain

/-! C07: the contextual `EpochVerifier` on the whole-chain view, and the reward invariant of a chain. -/
namespace CkbVerif.Epoch
open CkbVerif.Arith CkbVerif.Gen.Epoch

theorem chainStep_some {s s' : ChainSt} {ts u field compact : Nat} {head : Bool}
    (h : chainStep s ts u = some (s', field, compact, head)) :
    ∃ e, epochOfNext s = some (e, head) ∧ numberWithFraction e (s.tipNumber + 1) = some field ∧
      compact = e.compact ∧ s'.P = s.P ∧ s'.cur = e ∧ s'.tipNumber = s.tipNumber + 1 := by
  unfold chainStep at h
  simp only [Option.bind_eq_bind, Option.bind_eq_some_iff] at h
  obtain ⟨⟨e, hd⟩, he, fld, hf, hs⟩ := h
  injection hs with hs
  injection hs with hs1 hs2
  injection hs2 with hs2 hs3
  injection hs3 with hs3 hs4
  subst hs1 hs2 hs3 hs4
  exact ⟨e, he, hf, rfl, rfl, rfl, rfl⟩

theorem ctxEpochVerify_of_field {e : EpochExt} {n field : Nat} (hf : numberWithFraction e n = some field)
    (f c : Nat) :
    ctxEpochVerify e n f c =
      some (if f ≠ field then .numberMismatch else if e.compact ≠ c then .targetMismatch else .ok) := by
  unfold ctxEpochVerify
  rw [hf]
  simp only [Option.bind_eq_bind, Option.bind_some]
  split
  · rfl
  · split <;> rfl

theorem ctxEpochVerify_ok_iff (e : EpochExt) (n f c : Nat) :
    ctxEpochVerify e n f c = some .ok ↔
      e.start ≤ n ∧ f = enfPack e.number (n - e.start) e.length ∧ c = e.compact := by
  by_cases hs : e.start ≤ n
  · have hf : numberWithFraction e n = some (enfPack e.number (n - e.start) e.length) := by
      unfold numberWithFraction subChk; simp [hs]
    rw [ctxEpochVerify_of_field hf]
    by_cases h1 : f = enfPack e.number (n - e.start) e.length
    · by_cases h2 : e.compact = c
      · simp [h1, h2, hs]
      · have : ¬ (c = e.compact) := fun h => h2 h.symm
        simp [h1, h2, hs, this]
    · simp [h1, hs]
  · have : ctxEpochVerify e n f c = none := by
      unfold ctxEpochVerify numberWithFraction subChk; simp [hs]
    rw [this]; simp [hs]

/-- the chain's reward invariant: the epoch of the tip hands out the scheduled primary reward of its
number, with a remainder smaller than its length -/
def RewardInv (s : ChainSt) : Prop :=
  primaryReward s.cur = primaryEpochReward s.P s.cur.number ∧ s.cur.rem < s.cur.length

end CkbVerif.Epoch
