import CkbVerif.Model.Json
/-! Round-trip lemmas for the JSON scalar encodings. -/
namespace CkbVerif.Json

theorem hexVal_hexDigit : ∀ d, d < 16 → hexVal (hexDigit d) = some d := by decide +kernel

theorem hexDigit_ne_plus : ∀ d, d < 16 → hexDigit d ≠ '+' := by decide +kernel

theorem hexDigit_ne_zero : ∀ d, d < 16 → 1 ≤ d → hexDigit d ≠ '0' := by decide +kernel

theorem showHex_lt (n : Nat) (h : n < 16) : showHex n = [hexDigit n] := by
  rw [showHex]; simp [h]

theorem showHex_ge (n : Nat) (h : ¬ n < 16) : showHex n = showHex (n / 16) ++ [hexDigit (n % 16)] := by
  rw [showHex]; simp [h]

theorem parseDigits_snoc (ds : List Char) (c : Char) :
    parseDigits (ds ++ [c]) = digitStep (parseDigits ds) c := by
  simp only [parseDigits, List.foldl_append, List.foldl_cons, List.foldl_nil]

theorem parseDigits_showHex (n : Nat) : parseDigits (showHex n) = some n := by
  induction n using Nat.strongRecOn with
  | _ n ih =>
    by_cases h : n < 16
    · rw [showHex_lt n h]
      simp [parseDigits, digitStep, hexVal_hexDigit n h]
    · rw [showHex_ge n h, parseDigits_snoc, ih (n / 16) (by omega)]
      simp only [digitStep, hexVal_hexDigit (n % 16) (by omega), Option.some.injEq]
      omega

/-- shape of `{:x}`: non-empty, never starts with `+`, starts with `0` only for zero -/
theorem showHex_head (n : Nat) :
    ∃ c rest, showHex n = c :: rest ∧ c ≠ '+' ∧ (1 ≤ n → c ≠ '0') ∧ (n = 0 → rest = []) := by
  induction n using Nat.strongRecOn with
  | _ n ih =>
    by_cases h : n < 16
    · rw [showHex_lt n h]
      exact ⟨hexDigit n, [], rfl, hexDigit_ne_plus n h, hexDigit_ne_zero n h, fun _ => rfl⟩
    · rw [showHex_ge n h]
      obtain ⟨c, rest, he, h1, h2, _⟩ := ih (n / 16) (by omega)
      rw [he]
      exact ⟨c, rest ++ [hexDigit (n % 16)], rfl, h1, fun _ => h2 (by omega), fun h0 => by omega⟩

theorem parseUint_showUint (bits n : Nat) (h : n < 2 ^ bits) : parseUint bits (showUintChars n) = some n := by
  obtain ⟨c, rest, he, h1, h2, h3⟩ := showHex_head n
  have hp := parseDigits_showHex n
  rw [he] at hp
  simp only [showUintChars, he, parseUint]
  have hcond : ¬ (c = '0' ∧ ¬ rest.isEmpty = true) := by
    intro ⟨hc, hr⟩
    by_cases hn : n = 0
    · rw [h3 hn] at hr; simp at hr
    · exact h2 (by omega) hc
  rw [if_neg hcond]
  have hs : stripPlus (c :: rest) = c :: rest := by
    unfold stripPlus
    split
    · rename_i heq; simp at heq; exact absurd heq.1 h1
    · rfl
  simp [fromStrRadix16, hs, hp, h]

theorem parsePairs_show (bs : List UInt8) :
    parsePairs (bs.flatMap (fun b => [hexDigit (b.toNat / 16), hexDigit (b.toNat % 16)])) = some bs := by
  induction bs with
  | nil => simp [parsePairs]
  | cons b bs ih =>
    have hb := b.toNat_lt
    simp only [List.flatMap_cons, List.cons_append, List.nil_append, parsePairs]
    rw [hexVal_hexDigit _ (by omega), hexVal_hexDigit _ (by omega), ih]
    simp only [Option.some.injEq, List.cons.injEq, and_true]
    apply UInt8.toNat_inj.mp
    simp only [UInt8.toNat_ofNat']
    omega

theorem parseBytes_showBytes (bs : List UInt8) : parseBytes (showBytesChars bs) = some bs := by
  simp [parseBytes, showBytesChars, parsePairs_show]

end CkbVerif.Json
