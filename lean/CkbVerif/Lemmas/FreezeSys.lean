/-
Lemmas for `Model/FreezeSys.lean`: the accessors over rows + a freezer view refine those of
`Model/Freeze.lean`; reading the files of a freezer that holds `chain` is reading the list `chain`;
every step of the combined system is a run of micro-steps of the abstract model.
-/
import CkbVerif.Model.FreezeSys
import CkbVerif.Lemmas.Freeze
import CkbVerif.Lemmas.FreezeChain
import CkbVerif.Lemmas.FreezerTop
namespace CkbVerif.FreezeSys
open CkbVerif.Store CkbVerif.Freeze CkbVerif.Freezer
open CkbVerif.FreezerTop (TopInv Top)

/-- the abstract state of `Model/Freeze.lean`: the rows with the list of frozen blocks -/
def abs (r : FS) (chain : List Block) : FS := { r with frozen := chain }

/-! ### the generic accessors at the abstract freezer are the accessors of `Model/Freeze.lean` -/

/-- a freezer view that IS the abstract list -/
def IsList (z : Fz) (l : List Block) : Prop :=
  z.number = l.length + 1 ∧ ∀ n, z.item n = (match l[n - 1]? with | some b => Ans.some b | none => Ans.none)

theorem isList_fzOfList (l : List Block) : IsList (fzOfList l) l := ⟨rfl, fun _ => rfl⟩

theorem getFrozenG_isList (r : FS) (z : Fz) (hz : IsList z r.frozen) (id : Nat) :
    getFrozenG r z id = ofOpt (getFrozen r id) := by
  obtain ⟨num, item⟩ := z
  obtain ⟨hn, hi⟩ := hz
  simp only at hn hi
  subst hn
  unfold getFrozenG getFrozen
  cases r.hdr id
  · rfl
  · simp only [Bool.not_true, Bool.false_eq_true, if_false]
    cases r.v.r.bodies id with
    | none => rfl
    | some blk =>
      simp only
      by_cases hc : (decide (0 < blk.number) && decide (blk.number < r.frozen.length + 1)) = true
      · rw [if_pos hc, if_pos (show (decide (0 < blk.number) && decide (blk.number < frozenNumber r)) = true from hc), hi]
        cases r.frozen[blk.number - 1]? with
        | none => rfl
        | some fb => simp only; by_cases hf : fb.id = id <;> simp [hf, ofOpt]
      · rw [if_neg hc, if_neg (show ¬ (decide (0 < blk.number) && decide (blk.number < frozenNumber r)) = true from hc)]; rfl

theorem getFrozenG_list (r : FS) (id : Nat) :
    getFrozenG r (fzOfList r.frozen) id = ofOpt (getFrozen r id) :=
  getFrozenG_isList r _ (isList_fzOfList _) id

theorem getBlockG_list (r : FS) (id : Nat) :
    getBlockG r (fzOfList r.frozen) id = getBlock r id := by
  unfold getBlockG getBlock
  cases r.hdr id
  · rfl
  · simp only [Bool.not_true, Bool.false_eq_true, if_false]
    cases r.v.r.bodies id with
    | none => rfl
    | some blk =>
      simp only [getFrozenG_list]
      cases getFrozen r id <;> rfl

theorem getPartG_list (r : FS) (id : Nat) :
    getPartG r (fzOfList r.frozen) id = ofOpt (getPart r id) := by
  unfold getPartG getPart
  cases r.body id
  · simp [getFrozenG_list]
  · simp

theorem getPackedG_list (r : FS) (id : Nat) :
    getPackedG r (fzOfList r.frozen) id = ofOpt (getPacked r id) := by
  unfold getPackedG getPacked
  rw [getFrozenG_list]
  cases getFrozen r id with
  | some fb => rfl
  | none => simp only [ofOpt]; split <;> rfl

theorem getTxG_isList (r : FS) (z : Fz) (hz : IsList z r.frozen) (tx : Nat) :
    getTxG r z tx = ofOpt (getTx r tx) := by
  obtain ⟨num, item⟩ := z
  obtain ⟨hn, hi⟩ := hz
  simp only at hn hi
  subst hn
  unfold getTxG getTx
  cases r.v.m.txInfo tx with
  | none => rfl
  | some info =>
    simp only
    by_cases hc : (decide (0 < info.number) && decide (info.number < r.frozen.length + 1)) = true
    · rw [if_pos hc, if_pos (show (decide (0 < info.number) && decide (info.number < frozenNumber r)) = true from hc), hi]
      cases r.frozen[info.number - 1]? <;> rfl
    · rw [if_neg hc, if_neg (show ¬ (decide (0 < info.number) && decide (info.number < frozenNumber r)) = true from hc)]
      by_cases hb : r.body info.blockId = true
      · simp only [hb, if_true]
        cases r.v.r.bodies info.blockId <;> rfl
      · simp only [hb]; rfl

theorem getTxG_list (r : FS) (tx : Nat) :
    getTxG r (fzOfList r.frozen) tx = ofOpt (getTx r tx) :=
  getTxG_isList r _ (isList_fzOfList _) tx

/-! ### two freezer views that agree below `number` give the same answers -/

def Agree (z z' : Fz) : Prop :=
  z.number = z'.number ∧ ∀ n, 0 < n → n < z.number → z.item n = z'.item n

theorem getFrozenG_agree {z z' : Fz} (h : Agree z z') (r : FS) (id : Nat) :
    getFrozenG r z id = getFrozenG r z' id := by
  unfold getFrozenG
  cases r.hdr id
  · rfl
  · simp only [Bool.not_true, Bool.false_eq_true, if_false]
    cases r.v.r.bodies id with
    | none => rfl
    | some blk =>
      simp only [← h.1]
      by_cases hc : (decide (0 < blk.number) && decide (blk.number < z.number)) = true
      · simp only [hc, if_true]
        simp only [Bool.and_eq_true, decide_eq_true_eq] at hc
        rw [h.2 _ hc.1 hc.2]
      · simp only [hc]; rfl

theorem getBlockG_agree {z z' : Fz} (h : Agree z z') (r : FS) (id : Nat) :
    getBlockG r z id = getBlockG r z' id := by
  unfold getBlockG; rw [getFrozenG_agree h]

theorem getPartG_agree {z z' : Fz} (h : Agree z z') (r : FS) (id : Nat) :
    getPartG r z id = getPartG r z' id := by
  unfold getPartG; rw [getFrozenG_agree h]

theorem getPackedG_agree {z z' : Fz} (h : Agree z z') (r : FS) (id : Nat) :
    getPackedG r z id = getPackedG r z' id := by
  unfold getPackedG; rw [getFrozenG_agree h]

theorem getTxG_agree {z z' : Fz} (h : Agree z z') (r : FS) (tx : Nat) :
    getTxG r z tx = getTxG r z' tx := by
  unfold getTxG
  cases r.v.m.txInfo tx with
  | none => rfl
  | some info =>
    simp only [← h.1]
    by_cases hc : (decide (0 < info.number) && decide (info.number < z.number)) = true
    · simp only [hc, if_true]
      simp only [Bool.and_eq_true, decide_eq_true_eq] at hc
      rw [h.2 _ hc.1 hc.2]
    · simp only [hc]; rfl

/-! ### reading the files of a freezer that holds `chain` is reading the list `chain` -/

theorem up_map_length (k : Codec) (chain : List Block) : (chain.map (up k)).length = chain.length := by
  simp

theorem readFrozen_chain {k : Codec} (ok : k.Ok) {t : Top} {chain : List Block}
    (hi : TopInv k.cfg t (chain.map (up k))) (n : Nat) (hn : 0 < n) :
    readFrozen k t n = (match chain[n - 1]? with | some b => Ans.some b | none => Ans.none) := by
  unfold readFrozen FreezerTop.retrieveTop
  cases hb : chain[n - 1]? with
  | some b =>
    have hm : (chain.map (up k))[n - 1]? = some (up k b) := by rw [List.getElem?_map, hb]; rfl
    rw [FreezerTop.retrieveRaw_stored ok.cfg hi.good hi.handle n (up k b) hn hm]
    simp only [ok.cfg.codec, up, ok.body]
  | none =>
    have hlen : chain.length ≤ n - 1 := by
      rcases Nat.lt_or_ge (n - 1) chain.length with h | h
      · rw [List.getElem?_eq_getElem h] at hb; cases hb
      · exact h
    rw [FreezerTop.retrieveRaw_absent hi.good hi.handle n (Or.inr (by rw [up_map_length]; omega))]

theorem top_number {k : Codec} {t : Top} {chain : List Block}
    (hi : TopInv k.cfg t (chain.map (up k))) : t.number = chain.length + 1 := by
  have := hi.number
  rw [up_map_length] at this
  exact this

theorem agree_files {k : Codec} (ok : k.Ok) {t : Top} {chain : List Block}
    (hi : TopInv k.cfg t (chain.map (up k))) : Agree (fzOfTop k t) (fzOfList chain) :=
  ⟨top_number hi, fun n hn _ => readFrozen_chain ok hi n hn⟩

/-! ### the invariant of the combined state -/

/-- `chain` (ghost): the blocks the freezer files hold.  The files are a consistent C09 freezer
holding them; the rows satisfy the freezer invariant of `Model/Freeze.lean` both with all of
`chain` frozen and with only the durable part of it frozen (i.e. no row of a block at or above
`synced` has been deleted); `synced` is inside the files. -/
structure SysInv (k : Codec) (s : Sys) (chain : List Block) : Prop where
  files : TopInv k.cfg s.top (chain.map (up k))
  inv : Inv (abs s.rows chain)
  durable : Inv (abs s.rows (chain.take (s.synced - 1)))
  syncedPos : 1 ≤ s.synced
  syncedLe : s.synced ≤ chain.length + 1

theorem inv_prefix_between {r : FS} {chain : List Block} {m n : Nat}
    (h1 : Inv (abs r chain)) (h2 : Inv (abs r (chain.take m))) (hmn : m ≤ n) :
    Inv (abs r (chain.take n)) := by
  constructor
  · intro k fb hk
    have hk' : (chain.take n)[k]? = some fb := hk
    rw [List.getElem?_take] at hk'
    split at hk'
    · exact h1.frozenOk k fb hk'
    · cases hk'
  · intro id blk hm hc
    apply h2.bodyOk id blk hm
    rcases hc with hc | hc
    · exact Or.inl hc
    · right
      have e1 : frozenNumber (abs r (chain.take n)) = (chain.take n).length + 1 := rfl
      have e2 : frozenNumber (abs r (chain.take m)) = (chain.take m).length + 1 := rfl
      rw [e1] at hc
      rw [e2]
      simp only [List.length_take] at hc ⊢
      omega
  · exact h1.hdrOk
  · exact h1.idOk
  · exact h1.numOk

/-- witnesses for the elements of a mapped list -/
theorem lift_list (f : Block → FreezerTop.Block) :
    ∀ (l : List FreezerTop.Block) (P : Nat → Block → Prop),
      (∀ j tb, l[j]? = some tb → ∃ b, P j b ∧ f b = tb) →
      ∃ new : List Block, new.map f = l ∧ ∀ j b, new[j]? = some b → P j b
  | [], _, _ => ⟨[], rfl, by intro j b h; simp at h⟩
  | tb :: rest, P, h => by
    obtain ⟨b, hb, hfb⟩ := h 0 tb (by simp)
    obtain ⟨new, hn, hp⟩ := lift_list f rest (fun j b => P (j + 1) b)
      (fun j tb' hj => h (j + 1) tb' (by simpa using hj))
    refine ⟨b :: new, by simp [hfb, hn], ?_⟩
    intro j b' hj
    cases j with
    | zero => simp at hj; subst hj; exact hb
    | succ j => exact hp j b' (by simpa using hj)

/-- **`Freezer::freeze` on the files is a run of abstract append steps**: whatever the threshold and
the stop flag, the files afterwards hold `chain ++ new` where every new item is the block
`get_unfrozen_block` returned for its height -/
theorem stepFreeze_inv {k : Codec} {s : Sys} {chain : List Block} (h : SysInv k s chain)
    (thr : Nat) (stopped : Nat → Bool) :
    ∃ new, SysInv k (stepFreeze k s thr stopped).1 (chain ++ new) ∧
      (∀ j b, new[j]? = some b → getUnfrozen s.rows (chain.length + 1 + j) = some b) ∧
      Steps (abs s.rows chain) (abs s.rows (chain ++ new)) ∧
      new.length ≤ thr - (chain.length + 1) ∧
      (∀ ret, (stepFreeze k s thr stopped).2 = .ok ret →
        ret = FreezerTop.entries (chain.length + 1) (new.map (up k))) := by
  obtain ⟨hout, hinv'⟩ := FreezerTop.freeze_spec h.files thr (source k s.rows) stopped
  generalize hr : (FreezerTop.specRun (source k s.rows) stopped (thr - ((chain.map (up k)).length + 1))
    ((chain.map (up k)).length + 1) (FreezerTop.tipHash (chain.map (up k)))) = r at hinv'
  obtain ⟨new, hnew, hget⟩ := lift_list (up k) r.1
    (fun j b => getUnfrozen s.rows (chain.length + 1 + j) = some b) (by
      intro j tb hj
      have := FreezerTop.specRun_get (source k s.rows) stopped _ _ _ j tb (by rw [hr]; exact hj)
      rw [up_map_length] at this
      unfold source at this
      rw [Option.map_eq_some_iff] at this
      exact this)
  have hsteps : Steps (abs s.rows chain) (abs s.rows (chain ++ new)) :=
    steps_appends (abs s.rows chain) new (fun j b hj => hget j b hj)
  have hlen : new.length ≤ thr - (chain.length + 1) := by
    have h1 := FreezerTop.specRun_length_le (source k s.rows) stopped (thr - ((chain.map (up k)).length + 1))
      ((chain.map (up k)).length + 1) (FreezerTop.tipHash (chain.map (up k)))
    rw [hr, ← hnew, up_map_length] at h1
    simpa using h1
  refine ⟨new, ⟨?_, inv_steps h.inv hsteps, ?_, h.syncedPos, ?_⟩, hget, hsteps, hlen, ?_⟩
  rotate_left 3
  · intro ret hret
    have hout' : (FreezerTop.freeze k.cfg s.top thr (source k s.rows) stopped).2 = .ok ret := hret
    rw [hout, hr] at hout'
    split at hout'
    · rw [up_map_length, ← hnew] at hout'
      cases hout'; rfl
    · cases hout'
  · show TopInv k.cfg (FreezerTop.freeze k.cfg s.top thr (source k s.rows) stopped).1 _
    rw [List.map_append, hnew]
    exact hinv'
  · show Inv (abs s.rows ((chain ++ new).take (s.synced - 1)))
    rw [List.take_append_of_le_length (by have := h.syncedLe; omega)]
    exact h.durable
  · show s.synced ≤ (chain ++ new).length + 1
    have := h.syncedLe
    simp; omega

theorem stepSync_inv {k : Codec} {s : Sys} {chain : List Block} (h : SysInv k s chain) :
    SysInv k (stepSync s) chain := by
  have hn : s.top.number = chain.length + 1 := top_number h.files
  refine ⟨h.files, h.inv, ?_, ?_, ?_⟩
  · show Inv (abs s.rows (chain.take (s.top.number - 1)))
    rw [hn]
    simpa using h.inv
  · show 1 ≤ s.top.number
    omega
  · show s.top.number ≤ chain.length + 1
    omega

/-- the item the files return at a height is the ghost chain's block of that height -/
theorem readFrozen_some {k : Codec} (ok : k.Ok) {s : Sys} {chain : List Block} (h : SysInv k s chain)
    {n : Nat} {fb : Block} (hn : 0 < n) (hr : readFrozen k s.top n = .some fb) :
    chain[n - 1]? = some fb := by
  rw [readFrozen_chain ok h.files n hn] at hr
  cases hc : chain[n - 1]? with
  | none => rw [hc] at hr; cases hr
  | some b => rw [hc] at hr; cases hr; rfl

theorem stepWipeBody_inv {k : Codec} (ok : k.Ok) {s : Sys} {chain : List Block} (h : SysInv k s chain)
    (x n : Nat) (fb : Block) (hn : 0 < n) (hs : n < s.synced) (hr : readFrozen k s.top n = .some fb)
    (hx : fb.id = x) : SysInv k (stepWipeBody s x) chain := by
  have hc := readFrozen_some ok h hn hr
  refine ⟨h.files, ?_, ?_, h.syncedPos, h.syncedLe⟩
  · exact inv_wipeBody (abs s.rows chain) h.inv x ⟨n - 1, fb, hc, hx⟩
  · refine inv_wipeBody (abs s.rows (chain.take (s.synced - 1))) h.durable x ⟨n - 1, fb, ?_, hx⟩
    show (chain.take (s.synced - 1))[n - 1]? = some fb
    rw [List.getElem?_take, if_pos (by omega)]
    exact hc

theorem stepWipeSide_inv {k : Codec} {s : Sys} {chain : List Block} (h : SysInv k s chain)
    (x : Nat) (hx : ∀ blk, ¬ OnMain s.rows x blk) : SysInv k (stepWipeSide s x) chain :=
  ⟨h.files, inv_wipeSide (abs s.rows chain) h.inv x hx,
   inv_wipeSide (abs s.rows (chain.take (s.synced - 1))) h.durable x hx, h.syncedPos, h.syncedLe⟩

/-- **the write-order assumption**: a crash never cuts below what the last `sync_all` made durable —
the INDEX keeps the entries of the synced items and their data is in an older (complete) data file
or inside the surviving part of the head data file -/
def CutKeepsSynced (s : Sys) (il : Nat) (fl : Option Nat) : Prop :=
  INDEX_ENTRY_SIZE * s.synced ≤ il ∧
  ∀ i e, i + 2 ≤ s.synced → s.top.d.idx[i + 1]? = some e → (e.fid < s.top.h.headId ∨ e.off ≤ cutLen fl)

/-- **a crash at any cut that respects the write order, then `Freezer::open`**: the open succeeds,
the freezer holds a prefix of the chain that contains every synced item, and the combined invariant
holds again (with `synced` = what the re-opened freezer reports) -/
theorem stepCrash_inv {k : Codec} (ok : k.Ok) {s : Sys} {chain : List Block} (h : SysInv k s chain)
    (il : Nat) (fl : Option Nat) (hil : INDEX_ENTRY_SIZE ≤ il) (hcut : CutKeepsSynced s il fl) :
    ∃ t n, stepCrash k s il fl = some t ∧ s.synced - 1 ≤ n ∧ n ≤ chain.length ∧
      SysInv k t (chain.take n) ∧ t.rows = s.rows ∧ t.synced = n + 1 := by
  obtain ⟨t', n, ho, hn, hinv, hsurv⟩ := FreezerTop.crashOpen_spec ok.cfg h.files il fl hil
  rw [up_map_length] at hn
  rw [← List.map_take] at hinv
  have hge : s.synced - 1 ≤ n := by
    rcases Nat.lt_or_ge s.synced 2 with h2 | h2
    · omega
    · -- the last synced item, `i = synced - 2`, survives
      have hlen : s.top.d.idx.length = chain.length + 1 := by
        have := h.files.good.idx_length
        simpa using this
      have hsl := h.syncedLe
      have hi : s.synced - 2 + 1 < s.top.d.idx.length := by omega
      have := hsurv (s.synced - 2) (s.top.d.idx[s.synced - 2 + 1]) (by rw [up_map_length]; omega)
        (List.getElem?_eq_getElem hi)
        (by
          have h1 := hcut.1
          have : s.synced - 2 + 2 = s.synced := by omega
          rw [this]; exact h1)
        (hcut.2 (s.synced - 2) _ (by omega) (List.getElem?_eq_getElem hi))
      omega
  have hnum : t'.number = n + 1 := by
    have := top_number hinv
    rw [this]
    simp; omega
  refine ⟨{ s with top := t', synced := t'.number }, n, ?_, hge, hn, ⟨hinv, ?_, ?_, ?_, ?_⟩, rfl, hnum⟩
  · unfold stepCrash; rw [ho]
  · exact inv_prefix_between h.inv h.durable hge
  · show Inv (abs s.rows ((chain.take n).take (t'.number - 1)))
    rw [hnum]
    simp only [Nat.add_sub_cancel, List.take_take, Nat.min_self]
    exact inv_prefix_between h.inv h.durable hge
  · show 1 ≤ t'.number
    omega
  · show t'.number ≤ (chain.take n).length + 1
    rw [hnum]; simp; omega

/-! ### chain-service steps between (or during) passes -/

theorem chainOk_prefix {r : FS} {chain : List Block} {b : Block} {v' : View} (m : Nat)
    (ok : ChainOk (abs r chain) b v') : ChainOk (abs r (chain.take m)) b v' := by
  refine ⟨ok.bodies, ok.sameHash, ?_, ok.numOk, ok.rows, ok.idxStored⟩
  intro n h0 hn
  apply ok.keepFrozen n h0
  have e1 : frozenNumber (abs r (chain.take m)) = (chain.take m).length + 1 := rfl
  have e2 : frozenNumber (abs r chain) = chain.length + 1 := rfl
  rw [e1] at hn
  rw [e2]
  simp only [List.length_take] at hn
  omega

theorem stepChain_inv {k : Codec} {s : Sys} {chain : List Block} (h : SysInv k s chain)
    (b : Block) (v' : View) (ok : ChainOk (abs s.rows chain) b v') :
    SysInv k { s with rows := chainStore s.rows b v' } chain :=
  ⟨h.files, inv_chainStore (abs s.rows chain) h.inv b v' ok,
   inv_chainStore (abs s.rows (chain.take (s.synced - 1))) h.durable b v' (chainOk_prefix _ ok),
   h.syncedPos, h.syncedLe⟩

/-! ### the step relations -/

/-- what the freezer thread and a crash can do to the combined state -/
inductive FileStep (k : Codec) : Sys → Sys → Prop
  /-- `freezer.freeze(thr, get_unfrozen_block)` with any threshold and stop-flag behaviour -/
  | freeze (s : Sys) (thr : Nat) (stopped : Nat → Bool) : FileStep k s (stepFreeze k s thr stopped).1
  | sync (s : Sys) : FileStep k s (stepSync s)
  /-- deleting the body rows of a block that the files hold BELOW the synced mark -/
  | wipeBody (s : Sys) (x n : Nat) (fb : Block) : 0 < n → n < s.synced →
      readFrozen k s.top n = .some fb → fb.id = x → FileStep k s (stepWipeBody s x)
  | wipeSide (s : Sys) (x : Nat) : (∀ blk, ¬ OnMain s.rows x blk) → FileStep k s (stepWipeSide s x)
  /-- process death / power loss at any cut that respects the write order, then re-open -/
  | crash (s : Sys) (il : Nat) (fl : Option Nat) (t : Sys) : INDEX_ENTRY_SIZE ≤ il →
      CutKeepsSynced s il fl → stepCrash k s il fl = some t → FileStep k s t

inductive FileSteps (k : Codec) : Sys → Sys → Prop
  | refl (s : Sys) : FileSteps k s s
  | tail {s t u : Sys} : FileSteps k s t → FileStep k t u → FileSteps k s u

theorem FileSteps.trans {k : Codec} {s t u : Sys} (a : FileSteps k s t) (b : FileSteps k t u) :
    FileSteps k s u := by
  induction b with
  | refl => exact a
  | tail _ st ih => exact FileSteps.tail ih st

theorem FileSteps.single {k : Codec} {s t : Sys} (a : FileStep k s t) : FileSteps k s t :=
  FileSteps.tail (FileSteps.refl s) a

theorem fileStep_inv {k : Codec} (ok : k.Ok) {s t : Sys} {chain : List Block} (h : SysInv k s chain)
    (st : FileStep k s t) :
    ∃ chain', SysInv k t chain' ∧ t.rows.v = s.rows.v ∧ s.synced ≤ t.synced ∧
      chain'.take (s.synced - 1) = chain.take (s.synced - 1) := by
  cases st with
  | freeze thr stopped =>
    obtain ⟨new, hi, _, _, _, _⟩ := stepFreeze_inv h thr stopped
    refine ⟨chain ++ new, hi, rfl, Nat.le_refl _, ?_⟩
    rw [List.take_append_of_le_length (by have := h.syncedLe; omega)]
  | sync =>
    refine ⟨chain, stepSync_inv h, rfl, ?_, rfl⟩
    show s.synced ≤ s.top.number
    rw [top_number h.files]; exact h.syncedLe
  | wipeBody x n fb hn hs hr hx => exact ⟨chain, stepWipeBody_inv ok h x n fb hn hs hr hx, rfl, Nat.le_refl _, rfl⟩
  | wipeSide x hx => exact ⟨chain, stepWipeSide_inv h x hx, rfl, Nat.le_refl _, rfl⟩
  | crash il fl t hil hcut hc =>
    obtain ⟨t', n, ht, hge, hle, hi, hrows, hsy⟩ := stepCrash_inv ok h il fl hil hcut
    rw [hc] at ht
    cases ht
    refine ⟨chain.take n, hi, by rw [hrows], by omega, ?_⟩
    rw [List.take_take]
    congr 1
    omega

/-- main-chain membership does not depend on the freezer thread -/
theorem onMain_of_view {r r' : FS} (hv : r'.v = r.v) (id : Nat) (blk : Block) :
    OnMain r' id blk ↔ OnMain r id blk := by
  unfold OnMain; rw [hv]

theorem fileSteps_inv {k : Codec} (ok : k.Ok) {s t : Sys} {chain : List Block} (h : SysInv k s chain)
    (st : FileSteps k s t) :
    ∃ chain', SysInv k t chain' ∧ t.rows.v = s.rows.v ∧ s.synced ≤ t.synced ∧
      chain'.take (s.synced - 1) = chain.take (s.synced - 1) := by
  induction st with
  | refl => exact ⟨chain, h, rfl, Nat.le_refl _, rfl⟩
  | @tail t u _ step ih =>
    obtain ⟨c1, h1, hv1, hs1, hp1⟩ := ih
    obtain ⟨c2, h2, hv2, hs2, hp2⟩ := fileStep_inv ok h1 step
    refine ⟨c2, h2, by rw [hv2, hv1], by omega, ?_⟩
    have : (c2.take (t.synced - 1)).take (s.synced - 1) = (c1.take (t.synced - 1)).take (s.synced - 1) := by
      rw [hp2]
    rw [List.take_take, List.take_take] at this
    have hmin : min (s.synced - 1) (t.synced - 1) = s.synced - 1 := by omega
    rw [hmin] at this
    rw [this, hp1]

/-! ### every accessor of the combined state answers a main-chain block with the block -/

theorem answers_of_sysInv {k : Codec} (ok : k.Ok) {s : Sys} {chain : List Block} (h : SysInv k s chain)
    (id : Nat) (blk : Block) (hm : OnMain s.rows id blk) :
    getBlockS k s id = .some blk ∧ getPackedS k s id = .some blk ∧ getPartS k s id = .some blk ∧
    getHeaderS s id = some blk ∧ getAncestorS s blk.number = some blk := by
  have ha := agree_files ok h.files
  have hm' : OnMain (abs s.rows chain) id blk := hm
  refine ⟨?_, ?_, ?_, ?_, ?_⟩
  · unfold getBlockS Sys.fz
    rw [getBlockG_agree ha]
    have := getBlockG_list (abs s.rows chain) id
    rw [getBlock_main _ h.inv id blk hm'] at this
    exact this
  · unfold getPackedS Sys.fz
    rw [getPackedG_agree ha]
    have := getPackedG_list (abs s.rows chain) id
    rw [getPacked_main _ h.inv id blk hm'] at this
    exact this
  · unfold getPartS Sys.fz
    rw [getPartG_agree ha]
    have := getPartG_list (abs s.rows chain) id
    rw [getPart_main _ h.inv id blk hm'] at this
    exact this
  · exact getHeader_main (abs s.rows chain) h.inv id blk hm'
  · have hh : getHeader s.rows id = some blk := getHeader_main (abs s.rows chain) h.inv id blk hm'
    simp [getAncestorS, getAncestor, hm.2, hh]

theorem tx_of_sysInv {k : Codec} (ok : k.Ok) {s : Sys} {chain : List Block} (h : SysInv k s chain)
    (tx : Nat) (info : TxInfo) (blk : Block) (x : Tx) (hi : s.rows.v.m.txInfo tx = some info)
    (hm : OnMain s.rows info.blockId blk) (hn : info.number = blk.number)
    (hx : blk.txs[info.index]? = some x) : getTxS k s tx = .some (x, info) := by
  unfold getTxS Sys.fz
  rw [getTxG_agree (agree_files ok h.files)]
  have := getTxG_list (abs s.rows chain) tx
  rw [getTx_main (abs s.rows chain) h.inv tx info blk x hi hm hn hx] at this
  exact this

/-! ### the whole pass `pass` (the order of the Rust code) is a run of `FileStep`s -/

theorem entries_mem {n : Nat} {l : List FreezerTop.Block} {e : Nat × Nat × Nat}
    (he : e ∈ FreezerTop.entries n l) : ∃ j b, l[j]? = some b ∧ e = (b.hash, n + j, b.txs) := by
  obtain ⟨j, hj⟩ := List.getElem?_of_mem he
  rw [FreezerTop.entries_getElem?] at hj
  cases hb : l[j]? with
  | none => rw [hb] at hj; cases hj
  | some b => rw [hb] at hj; exact ⟨j, b, hb, by cases hj; rfl⟩

theorem fileSteps_wipeBodies (k : Codec) (ret : List (Nat × Nat × Nat)) : ∀ (s : Sys),
    (∀ e ∈ ret, ∃ fb, 0 < e.2.1 ∧ e.2.1 < s.synced ∧ readFrozen k s.top e.2.1 = .some fb ∧ fb.id = e.1) →
    FileSteps k s { s with rows := ret.foldl (fun r e => wipeBody r e.1) s.rows } := by
  induction ret with
  | nil => intro s _; exact FileSteps.refl s
  | cons e rest ih =>
    intro s h
    obtain ⟨fb, h1, h2, h3, h4⟩ := h e (by simp)
    have st : FileStep k s (stepWipeBody s e.1) := FileStep.wipeBody s e.1 e.2.1 fb h1 h2 h3 h4
    have := ih (stepWipeBody s e.1) (fun e' he' => h e' (List.mem_cons_of_mem _ he'))
    exact FileSteps.trans (FileSteps.single st) this

theorem fileSteps_wipeSides (k : Codec) (ids : List Nat) : ∀ (s : Sys),
    (∀ x ∈ ids, ∀ blk, ¬ OnMain s.rows x blk) →
    FileSteps k s { s with rows := ids.foldl wipeSide s.rows } := by
  induction ids with
  | nil => intro s _; exact FileSteps.refl s
  | cons x rest ih =>
    intro s h
    have st : FileStep k s (stepWipeSide s x) := FileStep.wipeSide s x (h x (by simp))
    have := ih (stepWipeSide s x) (fun y hy blk => h y (List.mem_cons_of_mem _ hy) blk)
    exact FileSteps.trans (FileSteps.single st) this

theorem onMain_foldl_wipeBodyRet (r : FS) (ret : List (Nat × Nat × Nat)) (id : Nat) (blk : Block) :
    OnMain (ret.foldl (fun r e => wipeBody r e.1) r) id blk ↔ OnMain r id blk := by
  induction ret generalizing r with
  | nil => exact Iff.rfl
  | cons e rest ih => simp only [List.foldl_cons]; exact (ih (wipeBody r e.1)).trans Iff.rfl

theorem numberOfId_foldl_wipeBodyRet (r : FS) (ret : List (Nat × Nat × Nat)) (id : Nat) :
    numberOfId (ret.foldl (fun r e => wipeBody r e.1) r) id = numberOfId r id := by
  induction ret generalizing r with
  | nil => rfl
  | cons e rest ih => simp only [List.foldl_cons]; rw [ih]; rfl

/-- **one whole pass of `Shared::freeze` on the combined state is a run of `FileStep`s** (append loop
on the files, `sync_all`, body batch, side batch — in this order), and it reports what it did:
the files afterwards hold `chain ++ new`, where `new` are the main-chain blocks of the heights
`freezer.number() ..` in order, below the threshold -/
theorem pass_is_fileSteps {k : Codec} (ok : k.Ok) {s : Sys} {chain : List Block} (h : SysInv k s chain)
    (stopped : Nat → Bool) :
    FileSteps k s (pass k s stopped).1 ∧
    ∀ thr, thresholdAt s.rows s.top.number = .at thr →
      ∃ new, SysInv k (stepFreeze k s thr stopped).1 (chain ++ new) ∧
        (pass k s stopped).1.top = (stepFreeze k s thr stopped).1.top ∧
        (∀ j b, new[j]? = some b → getUnfrozen s.rows (chain.length + 1 + j) = some b) ∧
        new.length ≤ thr - (chain.length + 1) ∧
        ((pass k s stopped).2 = .ok →
          (pass k s stopped).1.rows = wipeRet s.rows (FreezerTop.entries (chain.length + 1) (new.map (up k)))) := by
  unfold pass
  cases hthr : thresholdAt s.rows s.top.number with
  | idle => exact ⟨FileSteps.refl s, fun thr h => by cases h⟩
  | panic => exact ⟨FileSteps.refl s, fun thr h => by cases h⟩
  | «at» thr =>
    obtain ⟨new, hi, hget, _, hlen, hret⟩ := stepFreeze_inv h thr stopped
    have st1 : FileStep k s (stepFreeze k s thr stopped).1 := FileStep.freeze s thr stopped
    simp only
    cases hout : (stepFreeze k s thr stopped).2 with
    | err =>
      refine ⟨FileSteps.single st1, fun thr' h' => ?_⟩
      cases h'
      exact ⟨new, hi, rfl, hget, hlen, fun h => by cases h⟩
    | ok ret =>
      simp only
      have hret' := hret ret hout
      refine ⟨?_, fun thr' h' => ?_⟩
      rotate_left
      · cases h'
        exact ⟨new, hi, rfl, hget, hlen, fun _ => by rw [hret']; rfl⟩
      -- the state after `sync_all`
      let s1 := (stepFreeze k s thr stopped).1
      have hi2 : SysInv k (stepSync s1) (chain ++ new) := stepSync_inv hi
      have st2 : FileStep k s1 (stepSync s1) := FileStep.sync s1
      have hsy : (stepSync s1).synced = chain.length + new.length + 1 := by
        show s1.top.number = _
        rw [top_number hi.files]; simp
      -- body batch
      have hb : ∀ e ∈ ret, ∃ fb, 0 < e.2.1 ∧ e.2.1 < (stepSync s1).synced ∧
          readFrozen k (stepSync s1).top e.2.1 = .some fb ∧ fb.id = e.1 := by
        intro e he
        rw [hret'] at he
        obtain ⟨j, tb, hj, rfl⟩ := entries_mem he
        rw [List.getElem?_map] at hj
        cases hnj : new[j]? with
        | none => rw [hnj] at hj; cases hj
        | some b =>
          rw [hnj] at hj
          cases hj
          have hjl : j < new.length := (List.getElem?_eq_some_iff.mp hnj).1
          refine ⟨b, by show 0 < chain.length + 1 + j; omega, by rw [hsy]; show chain.length + 1 + j < _; omega, ?_, rfl⟩
          show readFrozen k s1.top (chain.length + 1 + j) = .some b
          rw [readFrozen_chain ok hi.files _ (by omega)]
          have : (chain ++ new)[chain.length + 1 + j - 1]? = some b := by
            rw [List.getElem?_append_right (by omega)]
            have : chain.length + 1 + j - 1 - chain.length = j := by omega
            rw [this]; exact hnj
          rw [this]
      have st3 := fileSteps_wipeBodies k ret (stepSync s1) hb
      -- side batch
      let s3 : Sys := { stepSync s1 with rows := ret.foldl (fun r e => wipeBody r e.1) (stepSync s1).rows }
      have hside : ∀ x ∈ sideOfRet s1.rows ret, ∀ blk, ¬ OnMain s3.rows x blk := by
        intro x hx blk hm
        have hm' : OnMain s.rows x blk := (onMain_foldl_wipeBodyRet _ ret x blk).mp hm
        simp only [sideOfRet, List.mem_filter, List.any_eq_true, Bool.and_eq_true, beq_iff_eq,
          bne_iff_ne] at hx
        obtain ⟨_, e, he, hnum, hne⟩ := hx
        rw [hret'] at he
        obtain ⟨j, tb, hj, rfl⟩ := entries_mem he
        rw [List.getElem?_map] at hj
        cases hnj : new[j]? with
        | none => rw [hnj] at hj; cases hj
        | some b =>
          rw [hnj] at hj
          cases hj
          obtain ⟨hidx, _, hbn⟩ := getUnfrozen_of_main (abs s.rows chain) h.inv _ b (hget j b hnj)
          have hxnum : numberOfId s1.rows x = blk.number := by
            show numberOf s.rows.v.r x = blk.number
            simp [numberOf, hm'.1]
          rw [hxnum] at hnum
          have h2 := hm'.2
          simp only at hnum
          rw [hnum, ← hbn] at h2
          have h3 : (abs s.rows chain).v.m.index b.number = some b.id := hidx
          have : s.rows.v.m.index b.number = some b.id := h3
          rw [this] at h2
          exact hne (Option.some.inj h2).symm
      have st4 := fileSteps_wipeSides k (sideOfRet s1.rows ret) s3 hside
      exact FileSteps.trans (FileSteps.single st1) (FileSteps.trans (FileSteps.single st2)
        (FileSteps.trans st3 st4))

/-! ### chain-service steps interleaved with the freezer thread, from a fresh node -/

/-- a step of the combined system: the freezer thread / a crash, or a chain-service step
(`insert_block` + the commit of `verify_block`) that is legal in the sense of `ChainOk` — stated for
the abstract state with any frozen list of the files' length, since `ChainOk` reads only its length
(the EXCLUSION `ChainOk.keepFrozen`: no reorg below `freezer.number()`, known finding F21) -/
inductive SysStep (k : Codec) : Sys → Sys → Prop
  | file {s t : Sys} : FileStep k s t → SysStep k s t
  | chain (s : Sys) (b : Block) (v' : View) :
      (∀ fr : List Block, fr.length + 1 = s.top.number → ChainOk { s.rows with frozen := fr } b v') →
      SysStep k s { s with rows := chainStore s.rows b v' }

theorem sysStep_inv {k : Codec} (ok : k.Ok) {s t : Sys} {chain : List Block} (h : SysInv k s chain)
    (st : SysStep k s t) : ∃ chain', SysInv k t chain' := by
  cases st with
  | file f =>
    obtain ⟨c, hc, _⟩ := fileStep_inv ok h f
    exact ⟨c, hc⟩
  | chain b v' hok =>
    exact ⟨chain, stepChain_inv h b v' (hok chain (top_number h.files).symm)⟩

/-- `threshold` of `Model/Freeze.lean` is `thresholdAt` at the abstract `freezer.number()` -/
theorem threshold_eq_thresholdAt (s : FS) : threshold s = thresholdAt s (frozenNumber s) := rfl

/-- what a threshold `.at thr` says: the epoch rows it was read from, and the two caps -/
theorem thresholdAt_bounds (r : FS) (fnum thr : Nat) (ht : thresholdAt r fnum = .at thr) :
    thr ≤ fnum + MAX_FREEZE_LIMIT ∧
    ∃ ce idx e ln, r.v.m.curEpoch = some ce ∧ THRESHOLD_EPOCH < ce.number ∧
      r.v.m.epochNum (ce.number + 1 - THRESHOLD_EPOCH) = some idx ∧ r.v.r.epochExt idx = some e ∧
      r.v.m.rindex e.key = some ln ∧ thr ≤ ln := by
  unfold thresholdAt at ht
  cases hce : r.v.m.curEpoch with
  | none => rw [hce] at ht; cases ht
  | some ce =>
    rw [hce] at ht
    simp only at ht
    by_cases hle : ce.number ≤ THRESHOLD_EPOCH
    · simp [hle] at ht
    · simp only [hle, if_false] at ht
      cases hidx : r.v.m.epochNum (ce.number + 1 - THRESHOLD_EPOCH) with
      | none => rw [hidx] at ht; cases ht
      | some idx =>
        rw [hidx] at ht
        simp only at ht
        cases he : r.v.r.epochExt idx with
        | none => rw [he] at ht; cases ht
        | some e =>
          rw [he] at ht
          simp only at ht
          cases hln : r.v.m.rindex e.key with
          | none => rw [hln] at ht; cases ht
          | some ln =>
            rw [hln] at ht
            simp only at ht
            have : min ln (fnum + MAX_FREEZE_LIMIT) = thr := by cases ht; rfl
            exact ⟨by omega, ce, idx, e, ln, rfl, by omega, hidx, he, hln, by omega⟩


end CkbVerif.FreezeSys
