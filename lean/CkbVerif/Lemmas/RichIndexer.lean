import CkbVerif.Model.RichIndexer

/-! Rich-indexer (relational model): a block's rows form a LAYER on top of the database, and
`rollback` removes exactly a layer (C18). -/
namespace CkbVerif.Rich
open CkbVerif.Indexer CkbVerif.Gen.RichIndexer

/-- what `spend_cell` did to an older output row whose id is in `M` -/
def markIf (M : List Nat) (o : ROut) : ROut :=
  if M.contains o.id then { o with spent := SPEND_SETS_IS_SPENT } else o

/-- `d` is `db` plus the rows of one block `B`: transaction rows `nt`, output rows `no` (possibly
already spent inside the block), input rows `ni`, script rows `ns`; `M` = ids of the older output
rows the block spent. Every clause is about foreign ids only — no hashes, no order of ids. -/
structure Layer (db : DB) (B : RBlock) (nt : List RTx) (no : List ROut) (ni : List RIn)
    (ns : List RScript) (M : List Nat) (d : DB) : Prop where
  blocks : d.blocks = db.blocks ++ [B]
  txs : d.txs = db.txs ++ nt
  outs : d.outs = db.outs.map (markIf M) ++ no
  ins : d.ins = db.ins ++ ni
  scripts : d.scripts = db.scripts ++ ns
  ntBlock : ∀ t ∈ nt, t.blockId = B.id
  oldBlock : ∀ t ∈ db.txs, t.blockId ≠ B.id
  ntFresh : ∀ t ∈ nt, ∀ t' ∈ db.txs, t'.id ≠ t.id
  noTx : ∀ o ∈ no, ∃ t ∈ nt, t.id = o.txId
  oldOutTx : ∀ o ∈ db.outs, ∀ t ∈ nt, t.id ≠ o.txId
  niTx : ∀ i ∈ ni, ∃ t ∈ nt, t.id = i.consumedTx
  oldInTx : ∀ i ∈ db.ins, ∀ t ∈ nt, t.id ≠ i.consumedTx
  /-- an older output the block spends was unspent (no double spend along the chain) -/
  markLive : ∀ o ∈ db.outs, o.id ∈ M → o.spent = RESET_SETS_IS_SPENT
  /-- the older outputs marked spent are exactly those an input row of the block refers to -/
  markIn : ∀ o ∈ db.outs, (o.id ∈ M ↔ ∃ i ∈ ni, i.outputId = o.id)
  /-- a new script row is referenced by an output of the block and by no older output -/
  nsNew : ∀ s ∈ ns, (∃ o ∈ no, o.lockId = some s.id ∨ o.typeId = some s.id) ∧
    (∀ o ∈ db.outs, o.lockId ≠ some s.id ∧ o.typeId ≠ some s.id)
  /-- every older script row is referenced by an older output (as lock OR as type script) -/
  oldUsed : ∀ s ∈ db.scripts, ∃ o ∈ db.outs, o.lockId = some s.id ∨ o.typeId = some s.id

theorem markIf_txId (M : List Nat) (o : ROut) : (markIf M o).txId = o.txId := by
  unfold markIf; split <;> rfl

theorem markIf_id (M : List Nat) (o : ROut) : (markIf M o).id = o.id := by
  unfold markIf; split <;> rfl

theorem markIf_lockId (M : List Nat) (o : ROut) : (markIf M o).lockId = o.lockId := by
  unfold markIf; split <;> rfl

theorem markIf_typeId (M : List Nat) (o : ROut) : (markIf M o).typeId = o.typeId := by
  unfold markIf; split <;> rfl

theorem scriptReferenced_iff (outs : List ROut) (sid : Nat) :
    scriptReferenced outs sid = true ↔ ∃ o ∈ outs, o.lockId = some sid ∨ o.typeId = some sid := by
  unfold scriptReferenced
  simp [List.any_eq_true]

theorem mem_scriptsToRemove (removed remaining : List ROut) (sid : Nat) :
    sid ∈ scriptsToRemove removed remaining ↔
      (∃ o ∈ removed, o.lockId = some sid ∨ o.typeId = some sid) ∧ scriptReferenced remaining sid = false := by
  unfold scriptsToRemove
  simp only [List.mem_flatMap, List.mem_append]
  constructor
  · rintro ⟨o, ho, h | h⟩
    · cases hl : o.lockId with
      | none => simp [hl] at h
      | some l =>
        simp only [hl] at h
        split at h
        · simp at h
        · simp only [List.mem_singleton] at h
          subst h
          exact ⟨⟨o, ho, Or.inl hl⟩, Bool.eq_false_iff.mpr ‹¬ _›⟩
    · cases ht : o.typeId with
      | none => simp [ht] at h
      | some t =>
        simp only [ht] at h
        split at h
        · simp at h
        · simp only [List.mem_singleton] at h
          subst h
          exact ⟨⟨o, ho, Or.inr ht⟩, Bool.eq_false_iff.mpr ‹¬ _›⟩
  · rintro ⟨⟨o, ho, h | h⟩, hr⟩
    · exact ⟨o, ho, Or.inl (by simp [h, hr])⟩
    · exact ⟨o, ho, Or.inr (by simp [h, hr])⟩

variable {db d : DB} {B : RBlock} {nt : List RTx} {no : List ROut} {ni : List RIn}
  {ns : List RScript} {M : List Nat}

theorem layer_txIds (L : Layer db B nt no ni ns M d) :
    (d.txs.filter fun t => t.blockId = B.id).map (·.id) = nt.map (·.id) := by
  rw [L.txs, List.filter_append]
  have h1 : db.txs.filter (fun t => decide (t.blockId = B.id)) = [] := by
    rw [List.filter_eq_nil_iff]
    intro t ht
    simpa using L.oldBlock t ht
  have h2 : nt.filter (fun t => decide (t.blockId = B.id)) = nt := by
    rw [List.filter_eq_self]
    intro t ht
    simpa using L.ntBlock t ht
  rw [h1, h2, List.nil_append]

theorem contains_ids_iff (nt : List RTx) (x : Nat) :
    (nt.map (·.id)).contains x = true ↔ ∃ t ∈ nt, t.id = x := by
  simp [List.contains_iff_mem]

theorem layer_removed (L : Layer db B nt no ni ns M d) :
    d.outs.filter (fun o => (nt.map (·.id)).contains o.txId) = no := by
  rw [L.outs, List.filter_append]
  have h1 : (db.outs.map (markIf M)).filter (fun o => (nt.map (·.id)).contains o.txId) = [] := by
    rw [List.filter_eq_nil_iff]
    intro o ho
    obtain ⟨o', ho', rfl⟩ := List.mem_map.mp ho
    rw [markIf_txId]
    intro hc
    obtain ⟨t, ht, he⟩ := (contains_ids_iff nt _).mp hc
    exact L.oldOutTx o' ho' t ht he
  have h2 : no.filter (fun o => (nt.map (·.id)).contains o.txId) = no := by
    rw [List.filter_eq_self]
    intro o ho
    exact (contains_ids_iff nt _).mpr (L.noTx o ho)
  rw [h1, h2, List.nil_append]

theorem layer_reset (L : Layer db B nt no ni ns M d) :
    (d.ins.filter fun i => (nt.map (·.id)).contains i.consumedTx).map (·.outputId) = ni.map (·.outputId) := by
  rw [L.ins, List.filter_append]
  have h1 : db.ins.filter (fun i => (nt.map (·.id)).contains i.consumedTx) = [] := by
    rw [List.filter_eq_nil_iff]
    intro i hi hc
    obtain ⟨t, ht, he⟩ := (contains_ids_iff nt _).mp hc
    exact L.oldInTx i hi t ht he
  have h2 : ni.filter (fun i => (nt.map (·.id)).contains i.consumedTx) = ni := by
    rw [List.filter_eq_self]
    intro i hi
    exact (contains_ids_iff nt _).mpr (L.niTx i hi)
  rw [h1, h2, List.nil_append]

theorem rout_with_spent (o : ROut) (x : Nat) (h : o.spent = x) : { o with spent := x } = o := by
  cases o
  simp at h
  simp [h]

/-- the outputs that remain after the reset and the deletion are exactly the older output rows -/
theorem layer_remaining (L : Layer db B nt no ni ns M d) :
    ((d.outs.map fun o => if (ni.map (·.outputId)).contains o.id then { o with spent := RESET_SETS_IS_SPENT } else o).filter
      fun o => !(nt.map (·.id)).contains o.txId) = db.outs := by
  rw [L.outs, List.map_append, List.filter_append]
  have h2 : ((no.map fun o => if (ni.map (·.outputId)).contains o.id then { o with spent := RESET_SETS_IS_SPENT } else o).filter
      fun o => !(nt.map (·.id)).contains o.txId) = [] := by
    rw [List.filter_eq_nil_iff]
    intro o ho
    obtain ⟨o', ho', rfl⟩ := List.mem_map.mp ho
    have : (if (ni.map (·.outputId)).contains o'.id then { o' with spent := RESET_SETS_IS_SPENT } else o').txId = o'.txId := by
      split <;> rfl
    rw [this]
    simpa using (contains_ids_iff nt _).mpr (L.noTx o' ho')
  rw [h2, List.append_nil, List.map_map]
  have h1 : ∀ o ∈ db.outs,
      ((fun o : ROut => if (ni.map (·.outputId)).contains o.id then { o with spent := RESET_SETS_IS_SPENT } else o) ∘ markIf M) o = o := by
    intro o ho
    simp only [Function.comp]
    rw [markIf_id]
    by_cases hm : o.id ∈ M
    · have hin : (ni.map (·.outputId)).contains o.id = true := by
        obtain ⟨i, hi, he⟩ := (L.markIn o ho).mp hm
        simp only [List.contains_iff_mem, List.mem_map]
        exact ⟨i, hi, he⟩
      rw [if_pos hin]
      have hs := L.markLive o ho hm
      unfold markIf
      rw [if_pos (by simpa [List.contains_iff_mem] using hm)]
      cases o
      simp at hs
      simp [hs]
    · have hin : (ni.map (·.outputId)).contains o.id = false := by
        apply Bool.eq_false_iff.mpr
        intro hc
        simp only [List.contains_iff_mem, List.mem_map] at hc
        obtain ⟨i, hi, he⟩ := hc
        exact hm ((L.markIn o ho).mpr ⟨i, hi, he⟩)
      have hm' : M.contains o.id = false := Bool.eq_false_iff.mpr (by simpa [List.contains_iff_mem] using hm)
      unfold markIf
      simp only [hm', Bool.false_eq_true, if_false, hin]
  have h3 : (db.outs.map ((fun o : ROut => if (ni.map (·.outputId)).contains o.id then { o with spent := RESET_SETS_IS_SPENT } else o) ∘ markIf M)) = db.outs := by
    conv => rhs; rw [← List.map_id db.outs]
    apply List.map_congr_left
    intro o ho
    rw [h1 o ho]; rfl
  rw [h3, List.filter_eq_self]
  intro o ho
  simp only [Bool.not_eq_true']
  apply Bool.eq_false_iff.mpr
  intro hc
  obtain ⟨t, ht, he⟩ := (contains_ids_iff nt _).mp hc
  exact L.oldOutTx o ho t ht he

theorem layer_scripts (L : Layer db B nt no ni ns M d) :
    d.scripts.filter (fun s => !(scriptsToRemove no db.outs).contains s.id) = db.scripts := by
  rw [L.scripts, List.filter_append]
  have h1 : db.scripts.filter (fun s => !(scriptsToRemove no db.outs).contains s.id) = db.scripts := by
    rw [List.filter_eq_self]
    intro s hs
    simp only [Bool.not_eq_true', List.contains_iff_mem]
    apply Bool.eq_false_iff.mpr
    intro hc
    have hm : s.id ∈ scriptsToRemove no db.outs := by simpa using hc
    have := ((mem_scriptsToRemove _ _ _).mp hm).2
    have hu := (scriptReferenced_iff db.outs s.id).mpr (L.oldUsed s hs)
    rw [hu] at this
    cases this
  have h2 : ns.filter (fun s => !(scriptsToRemove no db.outs).contains s.id) = [] := by
    rw [List.filter_eq_nil_iff]
    intro s hs
    obtain ⟨hnew, hold⟩ := L.nsNew s hs
    have hm : s.id ∈ scriptsToRemove no db.outs := by
      rw [mem_scriptsToRemove]
      refine ⟨hnew, ?_⟩
      apply Bool.eq_false_iff.mpr
      intro hr
      obtain ⟨o, ho, h⟩ := (scriptReferenced_iff _ _).mp hr
      rcases h with h | h
      · exact (hold o ho).1 h
      · exact (hold o ho).2 h
    simp [List.contains_iff_mem, hm]
  rw [h1, h2, List.append_nil]

/-- **`rollback` removes exactly a layer**: the whole database — every relation, row ids and
spent flags included — is the one below the layer. -/
theorem rollback_layer (L : Layer db B nt no ni ns M d) : rollback d = db := by
  have hlast : d.blocks.getLast? = some B := by rw [L.blocks]; simp
  unfold rollback
  rw [hlast]
  simp only
  rw [layer_txIds L, layer_removed L, layer_reset L, layer_remaining L, layer_scripts L]
  have hb : d.blocks.dropLast = db.blocks := by rw [L.blocks]; simp
  have ht : d.txs.filter (fun t => !(nt.map (·.id)).contains t.id) = db.txs := by
    rw [L.txs, List.filter_append]
    have h1 : db.txs.filter (fun t => !(nt.map (·.id)).contains t.id) = db.txs := by
      rw [List.filter_eq_self]
      intro t ht
      simp only [Bool.not_eq_true']
      apply Bool.eq_false_iff.mpr
      intro hc
      obtain ⟨t', ht', he⟩ := (contains_ids_iff nt _).mp hc
      exact L.ntFresh t' ht' t ht he.symm
    have h2 : nt.filter (fun t => !(nt.map (·.id)).contains t.id) = [] := by
      rw [List.filter_eq_nil_iff]
      intro t ht
      simpa using (contains_ids_iff nt _).mpr ⟨t, ht, rfl⟩
    rw [h1, h2, List.append_nil]
  have hi : d.ins.filter (fun i => !(nt.map (·.id)).contains i.consumedTx) = db.ins := by
    rw [L.ins, List.filter_append]
    have h1 : db.ins.filter (fun i => !(nt.map (·.id)).contains i.consumedTx) = db.ins := by
      rw [List.filter_eq_self]
      intro i hi
      simp only [Bool.not_eq_true']
      apply Bool.eq_false_iff.mpr
      intro hc
      obtain ⟨t, ht, he⟩ := (contains_ids_iff nt _).mp hc
      exact L.oldInTx i hi t ht he
    have h2 : ni.filter (fun i => !(nt.map (·.id)).contains i.consumedTx) = [] := by
      rw [List.filter_eq_nil_iff]
      intro i hi
      simpa using (contains_ids_iff nt _).mpr (L.niTx i hi)
    rw [h1, h2, List.append_nil]
  rw [hb, ht, hi]

/-! ## the decidable form of `Layer`, with the witnesses read off the two databases -/

def LayerP (db : DB) (B : RBlock) (nt : List RTx) (no : List ROut) (ni : List RIn)
    (ns : List RScript) (M : List Nat) (d : DB) : Prop :=
  d.blocks = db.blocks ++ [B] ∧ d.txs = db.txs ++ nt ∧ d.outs = db.outs.map (markIf M) ++ no ∧
  d.ins = db.ins ++ ni ∧ d.scripts = db.scripts ++ ns ∧
  (∀ t ∈ nt, t.blockId = B.id) ∧ (∀ t ∈ db.txs, t.blockId ≠ B.id) ∧
  (∀ t ∈ nt, ∀ t' ∈ db.txs, t'.id ≠ t.id) ∧
  (∀ o ∈ no, ∃ t ∈ nt, t.id = o.txId) ∧ (∀ o ∈ db.outs, ∀ t ∈ nt, t.id ≠ o.txId) ∧
  (∀ i ∈ ni, ∃ t ∈ nt, t.id = i.consumedTx) ∧ (∀ i ∈ db.ins, ∀ t ∈ nt, t.id ≠ i.consumedTx) ∧
  (∀ o ∈ db.outs, o.id ∈ M → o.spent = RESET_SETS_IS_SPENT) ∧
  (∀ o ∈ db.outs, (o.id ∈ M ↔ ∃ i ∈ ni, i.outputId = o.id)) ∧
  (∀ s ∈ ns, (∃ o ∈ no, o.lockId = some s.id ∨ o.typeId = some s.id) ∧
    (∀ o ∈ db.outs, o.lockId ≠ some s.id ∧ o.typeId ≠ some s.id)) ∧
  (∀ s ∈ db.scripts, ∃ o ∈ db.outs, o.lockId = some s.id ∨ o.typeId = some s.id)

instance (db : DB) (B : RBlock) (nt : List RTx) (no : List ROut) (ni : List RIn)
    (ns : List RScript) (M : List Nat) (d : DB) : Decidable (LayerP db B nt no ni ns M d) := by
  unfold LayerP; infer_instance

theorem layer_of_P {db : DB} {B : RBlock} {nt : List RTx} {no : List ROut} {ni : List RIn}
    {ns : List RScript} {M : List Nat} {d : DB} (h : LayerP db B nt no ni ns M d) :
    Layer db B nt no ni ns M d := by
  obtain ⟨h1, h2, h3, h4, h5, h6, h7, h8, h9, h10, h11, h12, h13, h14, h15, h16⟩ := h
  exact ⟨h1, h2, h3, h4, h5, h6, h7, h8, h9, h10, h11, h12, h13, h14, h15, h16⟩

/-- the ids of the older output rows that differ between `db` and `d` -/
def changedOuts (db d : DB) : List Nat :=
  (db.outs.zip d.outs).filterMap fun p => if p.1 = p.2 then none else some p.1.id

/-- `d` is `db` plus ONE layer (witnesses: the rows of `d` beyond the lengths of `db`'s relations) -/
def layerCheckB (db d : DB) : Bool :=
  match d.blocks.drop db.blocks.length with
  | [B] => decide (LayerP db B (d.txs.drop db.txs.length) (d.outs.drop db.outs.length)
      (d.ins.drop db.ins.length) (d.scripts.drop db.scripts.length) (changedOuts db d) d)
  | _ => false

theorem rollback_of_layerCheck {db d : DB} (h : layerCheckB db d = true) : rollback d = db := by
  unfold layerCheckB at h
  split at h
  · exact rollback_layer (layer_of_P (of_decide_eq_true h))
  · cases h

end CkbVerif.Rich
