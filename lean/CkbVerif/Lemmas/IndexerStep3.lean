import CkbVerif.Lemmas.IndexerStep2

/-! Rows after `append` WITH same-block spends, and the live-cell invariant (C18). -/
namespace CkbVerif.Indexer

variable {s : Store} {b : Block}

theorem get_appendCore_from0 (k : Key) (hk : ∀ bn h f, k ≠ .header bn h f) :
    get (appendCore s b) k = get (commit s (txsOpsFrom s b 0)) k := by
  rw [get_appendCore_nonheader s b k hk, txsOpsFrom_zero]

/-- A: created and not spent in the block ⇒ live -/
theorem outPoint_created2 (wf : WFAppend2 s b) (op : OutPoint) (c : Cell) (hc : Created b op c)
    (hns : ∀ c', ¬ Spent2 s b op c') : get (appendCore s b) (.outPoint op) = some (.cell c) := by
  rw [get_appendCore_from0 _ (by intro _ _ _ h; cases h)]
  have hcr := hc
  obtain ⟨i, tx, out, htx, hid, hout, rfl⟩ := hc
  apply get_commit_all_put
  · intro o ho hk
    rcases txsOpsFrom_shape wf 0 o ho with ⟨i', tx', ii, op', c', _, htx', hi', hop', hc', ho'⟩ |
      ⟨i', tx', out', oi', _, htx', hout', ho'⟩ | ⟨i', tx', _, htx', rfl⟩
    · rw [mem_consumeOps] at ho'
      rcases ho' with rfl | rfl | ⟨t, _, rfl | rfl⟩ | rfl | rfl <;> simp [BOp.key] at hk
      subst hk
      exact absurd ⟨i', tx', ii, htx', hi', hop', hc'⟩ (hns c')
    · rw [mem_createOps] at ho'
      rcases ho' with rfl | rfl | ⟨t, _, rfl | rfl⟩ | rfl <;> simp [BOp.key] at hk
      have hcr' : Created b op ⟨b.number, i', out'⟩ :=
        ⟨i', tx', out', htx', by rw [← hk], by rw [← hk]; exact hout', rfl⟩
      have := created_unique wf op _ _ hcr hcr'
      rw [← this]
      cases op
      simp_all
    · simp [BOp.key] at hk
  · refine ⟨.put (.outPoint op) (.cell ⟨b.number, i, out⟩), ?_, rfl⟩
    apply create_mem_from 0 i tx out op.idx (Nat.zero_le _) htx hout
    rw [mem_createOps]
    right; right; right
    cases op
    simp_all

/-- B: spent in the block (old or created earlier in the same block) ⇒ dead -/
theorem outPoint_spent2 (wf : WFAppend2 s b) (op : OutPoint) (c : Cell) (hs : Spent2 s b op c) :
    get (appendCore s b) (.outPoint op) = none := by
  rw [get_appendCore_nonheader s b _ (by intro _ _ _ h; cases h)]
  obtain ⟨i, tx, ii, htx, hi, hop, hc⟩ := hs
  rw [txsOps_split s b i]
  apply get_commit_suffix_del
  · intro o ho hk
    rcases txsOpsFrom_shape wf i o ho with ⟨i', tx', ii', op', c', _, htx', hi', hop', hc', ho'⟩ |
      ⟨i', tx', out', oi', hle, htx', hout', ho'⟩ | ⟨i', tx', _, htx', rfl⟩
    · rw [mem_consumeOps] at ho'
      rcases ho' with rfl | rfl | ⟨t, _, rfl | rfl⟩ | rfl | rfl <;> simp [BOp.key] at hk
      subst hk
      rfl
    · rw [mem_createOps] at ho'
      rcases ho' with rfl | rfl | ⟨t, _, rfl | rfl⟩ | rfl <;> simp [BOp.key] at hk
      have := wf.order i tx htx op (List.mem_of_getElem? hop) i' tx' htx' (by rw [← hk])
      omega
    · simp [BOp.key] at hk
  · refine ⟨.del (.outPoint op), ?_, rfl⟩
    apply consume_mem_from wf i i tx ii op c (Nat.le_refl _) htx hi hop hc
    rw [mem_consumeOps]
    right; right; right; left; rfl

/-- C: neither created nor spent ⇒ unchanged -/
theorem outPoint_other2 (wf : WFAppend2 s b) (op : OutPoint)
    (hnc : ∀ c, ¬ Created b op c) (hns : ∀ c, ¬ Spent2 s b op c) :
    get (appendCore s b) (.outPoint op) = get s (.outPoint op) := by
  rw [get_appendCore_from0 _ (by intro _ _ _ h; cases h)]
  apply get_commit_untouched
  intro o ho hk
  rcases txsOpsFrom_shape wf 0 o ho with ⟨i', tx', ii', op', c', _, htx', hi', hop', hc', ho'⟩ |
    ⟨i', tx', out', oi', _, htx', hout', ho'⟩ | ⟨i', tx', _, htx', rfl⟩
  · rw [mem_consumeOps] at ho'
    rcases ho' with rfl | rfl | ⟨t, _, rfl | rfl⟩ | rfl | rfl <;> simp [BOp.key] at hk
    subst hk
    exact hns c' ⟨i', tx', ii', htx', hi', hop', hc'⟩
  · rw [mem_createOps] at ho'
    rcases ho' with rfl | rfl | ⟨t, _, rfl | rfl⟩ | rfl <;> simp [BOp.key] at hk
    apply hnc ⟨b.number, i', out'⟩
    refine ⟨i', tx', out', htx', ?_, ?_, rfl⟩
    · rw [← hk]
    · rw [← hk]; exact hout'
  · simp [BOp.key] at hk

/-- a created cell resolved by an input has the creating position as its (bn, txIdx) -/
theorem res_bn (wf : WFAppend2 s b) (op : OutPoint) (c : Cell) (h : Res s b op c) (hb : c.bn = b.number) :
    Created b op c := by
  rcases h with h | h
  · exact absurd hb (wf.oldBn op c h)
  · exact h

/-- A': the CellLockScript row of a created, unspent cell -/
theorem cellLock_created2 (wf : WFAppend2 s b) (i : Nat) (tx : Tx) (oi : Nat) (out : Output)
    (htx : b.txs[i]? = some tx) (hout : tx.outputs[oi]? = some out)
    (hns : ∀ c', ¬ Spent2 s b ⟨tx.id, oi⟩ c') :
    get (appendCore s b) (.cellLock out.lock b.number i oi) = some (.tx tx.id) := by
  rw [get_appendCore_from0 _ (by intro _ _ _ h; cases h)]
  apply get_commit_all_put
  · intro o ho hk
    rcases txsOpsFrom_shape wf 0 o ho with ⟨i', tx', ii', op', c', _, htx', hi', hop', hc', ho'⟩ |
      ⟨i', tx', out', oi', _, htx', hout', ho'⟩ | ⟨i', tx', _, htx', rfl⟩
    · rw [mem_consumeOps] at ho'
      rcases ho' with rfl | rfl | ⟨t, _, rfl | rfl⟩ | rfl | rfl <;> simp [BOp.key] at hk
      exfalso
      obtain ⟨hl, hb, hti, hio⟩ := hk
      obtain ⟨j, txj, outj, htxj, hidj, houtj, hcj⟩ := res_bn wf op' c' hc' hb
      rw [hcj] at hti
      simp only at hti
      subst hti
      rw [htx] at htxj; cases htxj
      apply hns c'
      have : (⟨tx.id, oi⟩ : OutPoint) = op' := by cases op'; simp_all
      rw [this]
      exact ⟨i', tx', ii', htx', hi', hop', hc'⟩
    · rw [mem_createOps] at ho'
      rcases ho' with rfl | rfl | ⟨t, _, rfl | rfl⟩ | rfl <;> simp [BOp.key] at hk
      obtain ⟨hl, hi, hoi⟩ := hk
      subst hi; subst hoi
      rw [htx] at htx'
      cases htx'
      rw [hl]
    · simp [BOp.key] at hk
  · refine ⟨.put (.cellLock out.lock b.number i oi) (.tx tx.id), ?_, rfl⟩
    apply create_mem_from 0 i tx out oi (Nat.zero_le _) htx hout
    rw [mem_createOps]
    left; rfl

/-- B': the CellLockScript row of a spent cell is gone -/
theorem cellLock_spent2 (wf : WFAppend2 s b) (op : OutPoint) (c : Cell) (hs : Spent2 s b op c) :
    get (appendCore s b) (.cellLock c.out.lock c.bn c.txIdx op.idx) = none := by
  rw [get_appendCore_nonheader s b _ (by intro _ _ _ h; cases h)]
  obtain ⟨i, tx, ii, htx, hi, hop, hc⟩ := hs
  rw [txsOps_split s b i]
  apply get_commit_suffix_del
  · intro o ho hk
    rcases txsOpsFrom_shape wf i o ho with ⟨i', tx', ii', op', c', _, htx', hi', hop', hc', ho'⟩ |
      ⟨i', tx', out', oi', hle, htx', hout', ho'⟩ | ⟨i', tx', _, htx', rfl⟩
    · rw [mem_consumeOps] at ho'
      rcases ho' with rfl | rfl | ⟨t, _, rfl | rfl⟩ | rfl | rfl <;> simp [BOp.key] at hk
      simp [hk]
    · rw [mem_createOps] at ho'
      rcases ho' with rfl | rfl | ⟨t, _, rfl | rfl⟩ | rfl <;> simp [BOp.key] at hk
      exfalso
      obtain ⟨hl, hb, hti, hio⟩ := hk
      obtain ⟨j, txj, outj, htxj, hidj, houtj, hcj⟩ := res_bn wf op c hc hb.symm
      have hlt := wf.order i tx htx op (List.mem_of_getElem? hop) j txj htxj hidj
      rw [hcj] at hti
      simp only at hti
      omega
    · simp [BOp.key] at hk
  · refine ⟨.del (.cellLock c.out.lock c.bn c.txIdx op.idx), ?_, rfl⟩
    apply consume_mem_from wf i i tx ii op c (Nat.le_refl _) htx hi hop hc
    rw [mem_consumeOps]
    left; rfl

/-- C': every other CellLockScript row is untouched -/
theorem cellLock_other2 (wf : WFAppend2 s b) (sc : Script) (bn txi io : Nat)
    (hnc : ¬ ∃ (tx : Tx) (out : Output), b.txs[txi]? = some tx ∧ tx.outputs[io]? = some out ∧
      out.lock = sc ∧ bn = b.number)
    (hns : ¬ ∃ (op : OutPoint) (c : Cell), Spent2 s b op c ∧ c.out.lock = sc ∧ c.bn = bn ∧
      c.txIdx = txi ∧ op.idx = io) :
    get (appendCore s b) (.cellLock sc bn txi io) = get s (.cellLock sc bn txi io) := by
  rw [get_appendCore_from0 _ (by intro _ _ _ h; cases h)]
  apply get_commit_untouched
  intro o ho hk
  rcases txsOpsFrom_shape wf 0 o ho with ⟨i', tx', ii', op', c', _, htx', hi', hop', hc', ho'⟩ |
    ⟨i', tx', out', oi', _, htx', hout', ho'⟩ | ⟨i', tx', _, htx', rfl⟩
  · rw [mem_consumeOps] at ho'
    rcases ho' with rfl | rfl | ⟨t, _, rfl | rfl⟩ | rfl | rfl <;> simp [BOp.key] at hk
    exact hns ⟨op', c', ⟨i', tx', ii', htx', hi', hop', hc'⟩, hk.1, hk.2.1, hk.2.2.1, hk.2.2.2⟩
  · rw [mem_createOps] at ho'
    rcases ho' with rfl | rfl | ⟨t, _, rfl | rfl⟩ | rfl <;> simp [BOp.key] at hk
    obtain ⟨hl, hb, hi, hoi⟩ := hk
    subst hi; subst hoi
    exact hnc ⟨tx', out', htx', hout', hl, hb.symm⟩
  · simp [BOp.key] at hk

end CkbVerif.Indexer

namespace CkbVerif.Indexer

variable {s : Store} {b : Block}

/-- **the live-cell index stays exact under `append`, same-block spends included** -/
theorem lockInv_append2 (wf : WFAppend2 s b) (inv : LockInv s) : LockInv (appendCore s b) := by
  intro sc bn txi io t
  constructor
  · intro h
    by_cases hB : ∃ (op : OutPoint) (c : Cell), Spent2 s b op c ∧ c.out.lock = sc ∧ c.bn = bn ∧
        c.txIdx = txi ∧ op.idx = io
    · obtain ⟨op, c, hs, hl, hb, hti, hio⟩ := hB
      subst hl; subst hb; subst hti; subst hio
      rw [cellLock_spent2 wf op c hs] at h
      cases h
    · by_cases hA : ∃ (tx : Tx) (out : Output), b.txs[txi]? = some tx ∧ tx.outputs[io]? = some out ∧
          out.lock = sc ∧ bn = b.number
      · obtain ⟨tx, out, htx, hout, hl, hb⟩ := hA
        subst hl; subst hb
        have hcr : Created b ⟨tx.id, io⟩ ⟨b.number, txi, out⟩ := ⟨txi, tx, out, htx, rfl, hout, rfl⟩
        have hns : ∀ c', ¬ Spent2 s b ⟨tx.id, io⟩ c' := by
          intro c' hs'
          obtain ⟨i', tx', ii', htx', hi', hop', hc'⟩ := hs'
          have hc'' : Created b ⟨tx.id, io⟩ c' := by
            rcases hc' with hc' | hc'
            · rw [created_fresh2 wf _ _ hcr] at hc'; cases hc'
            · exact hc'
          have := created_unique wf _ _ _ hcr hc''
          subst this
          exact hB ⟨⟨tx.id, io⟩, _, ⟨i', tx', ii', htx', hi', hop', hc'⟩, rfl, rfl, rfl, rfl⟩
        rw [cellLock_created2 wf txi tx io out htx hout hns] at h
        have ht : tx.id = t := by simpa using h
        refine ⟨⟨b.number, txi, out⟩, ?_, rfl, rfl, rfl⟩
        rw [← ht]
        exact outPoint_created2 wf _ _ hcr hns
      · rw [cellLock_other2 wf sc bn txi io hA hB] at h
        obtain ⟨c, hc, hl, hb, hti⟩ := (inv sc bn txi io t).mp h
        refine ⟨c, ?_, hl, hb, hti⟩
        rw [outPoint_other2 wf ⟨t, io⟩]
        · exact hc
        · intro c0 hc0
          rw [created_fresh2 wf _ c0 hc0] at hc
          cases hc
        · intro c0 hs0
          have hs0' := hs0
          obtain ⟨_, _, _, _, _, _, hres⟩ := hs0
          have : c0 = c := res_unique wf _ _ _ hres (Or.inl hc)
          subst this
          exact hB ⟨⟨t, io⟩, c0, hs0', hl, hb, hti, rfl⟩
  · rintro ⟨c, hc, hl, hb, hti⟩
    by_cases hS : ∃ c0, Spent2 s b ⟨t, io⟩ c0
    · obtain ⟨c0, hs0⟩ := hS
      rw [outPoint_spent2 wf _ c0 hs0] at hc
      cases hc
    · have hS' : ∀ c0, ¬ Spent2 s b ⟨t, io⟩ c0 := fun c0 h => hS ⟨c0, h⟩
      by_cases hC : ∃ c0, Created b ⟨t, io⟩ c0
      · obtain ⟨c0, hc0⟩ := hC
        rw [outPoint_created2 wf _ c0 hc0 hS'] at hc
        have : c0 = c := by cases hc; rfl
        subst this
        obtain ⟨i, tx, out, htx, hid, hout, rfl⟩ := hc0
        simp only at hl hb hti hid hout
        subst hl; subst hb; subst hti
        have hns : ∀ c', ¬ Spent2 s b ⟨tx.id, io⟩ c' := by rw [hid]; exact hS'
        rw [cellLock_created2 wf i tx io out htx hout hns, hid]
      · rw [outPoint_other2 wf ⟨t, io⟩ (fun c0 h => hC ⟨c0, h⟩) hS'] at hc
        have hrow := (inv sc bn txi io t).mpr ⟨c, hc, hl, hb, hti⟩
        rw [cellLock_other2 wf sc bn txi io]
        · exact hrow
        · rintro ⟨tx, out, htx, hout, hl', hb'⟩
          exact wf.oldBn _ c hc (by rw [hb, hb'])
        · rintro ⟨op', c', hs', hl', hb', hti', hio'⟩
          have hs'' := hs'
          obtain ⟨_, _, _, _, _, _, hres'⟩ := hs'
          rcases hres' with hg' | hcr'
          · have hrow' := (inv c'.out.lock c'.bn c'.txIdx op'.idx op'.tx).mpr
              ⟨c', by cases op'; exact hg', rfl, rfl, rfl⟩
            rw [hl', hb', hti', hio', hrow] at hrow'
            have ht : t = op'.tx := by simpa using hrow'
            apply hS
            refine ⟨c', ?_⟩
            have : (⟨t, io⟩ : OutPoint) = op' := by cases op'; simp_all
            rw [this]
            exact hs''
          · obtain ⟨_, _, _, _, _, _, hc''⟩ := hcr'
            have : c'.bn = b.number := by rw [hc'']
            exact wf.oldBn _ c hc (by rw [hb, ← hb', this])

/-- a chain of blocks (same-block spends allowed), each well-formed for the store it meets -/
def ChainOK2 (keep interval : Nat) : Store → List Block → Prop
  | _, [] => True
  | s, b :: r => WFAppend2 s b ∧ ChainOK2 keep interval (append keep interval s b) r

theorem lockInv_chain2 (keep interval : Nat) (blocks : List Block) (s : Store) (inv : LockInv s)
    (ok : ChainOK2 keep interval s blocks) : LockInv (blocks.foldl (append keep interval) s) := by
  induction blocks generalizing s with
  | nil => exact inv
  | cons b r ih =>
    obtain ⟨wf, ok'⟩ := ok
    apply ih _ _ ok'
    have hcore := lockInv_append2 wf inv
    unfold append
    dsimp only
    split
    · intro sc bn txi io t
      rw [lockInv_append_prune.prune_answers rfl, lockInv_append_prune.prune_answers rfl]
      exact hcore sc bn txi io t
    · exact hcore

/-- a decidable sufficient condition for `WFAppend2` (for the examples) -/
def wfAppend2B (s : Store) (b : Block) : Bool :=
  decide ((b.txs.map (·.id)).Nodup) &&
  s.all (fun e => match e with
    | (.outPoint op, .cell c) => b.txs.all (fun tx => tx.id ≠ op.tx) && c.bn ≠ b.number
    | (.outPoint _, _) => false
    | _ => true) &&
  b.txs.zipIdx.all (fun p => p.1.inputs.all fun op =>
    b.txs.zipIdx.all fun q => q.1.id ≠ op.tx || q.2 < p.2)

theorem wfAppend2_of_B (s : Store) (b : Block) (h : wfAppend2B s b = true) : WFAppend2 s b := by
  simp only [wfAppend2B, Bool.and_eq_true, decide_eq_true_eq, List.all_eq_true] at h
  obtain ⟨⟨h1, h2⟩, h3⟩ := h
  have hrow : ∀ op v, get s (.outPoint op) = some v →
      ∃ c, v = .cell c ∧ (∀ tx ∈ b.txs, tx.id ≠ op.tx) ∧ c.bn ≠ b.number := by
    intro op v hg
    have := h2 _ (mem_of_get s _ v hg)
    cases v with
    | cell c =>
      simp only [Bool.and_eq_true, List.all_eq_true, decide_eq_true_eq, ne_eq] at this
      exact ⟨c, rfl, this.1, this.2⟩
    | tx _ => simp at this
    | inputs _ => simp at this
    | txs _ => simp at this
  refine ⟨?_, ?_, ?_, ?_, ?_⟩
  · intro i i' tx tx' hi hi' hid
    exact idInj_of_nodup b.txs h1 i i' tx tx' hi hi' hid
  · intro tx htx oi
    cases hg : get s (.outPoint ⟨tx.id, oi⟩) with
    | none => rfl
    | some v =>
      obtain ⟨c, _, hne, _⟩ := hrow _ v hg
      exact absurd rfl (hne tx htx)
  · intro op v hg
    obtain ⟨c, hc, _, _⟩ := hrow op v hg
    exact ⟨c, hc⟩
  · intro op c hg
    obtain ⟨c', hc', _, hbn⟩ := hrow op _ hg
    cases hc'
    exact hbn
  · intro i tx htx op hop j tx' htx' hid
    have := h3 (tx, i) (by rw [List.mem_zipIdx_iff_getElem?]; exact htx) op hop (tx', j)
      (by rw [List.mem_zipIdx_iff_getElem?]; exact htx')
    simp only [Bool.or_eq_true, decide_eq_true_eq, ne_eq] at this
    rcases this with h | h
    · exact absurd hid h
    · exact h

end CkbVerif.Indexer
