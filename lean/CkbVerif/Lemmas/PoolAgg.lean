/-
C11 helper lemmas, part 10: the aggregates clause.  For the repaired `remove_entry_and_descendants`
(`fixF2`) and on histories in which neither bad pattern occurred (`ghostBad = false`), every entry's
eight aggregates equal the recomputation from the current links.
-/
import CkbVerif.Lemmas.PoolSum
import CkbVerif.Lemmas.PoolGraph
import CkbVerif.Lemmas.PoolLimit
namespace CkbVerif.Pool

def ancL (L : LinkMap) (x : Nat) : List Nat := (calcAnc L x).filter (· ≠ x)
def descL (L : LinkMap) (x : Nat) : List Nat := (calcDesc L x).filter (· ≠ x)

/-- the aggregates clause: every entry's ancestors / descendants aggregate equals its own weight plus
    the weights of its other ancestors / descendants according to the current links -/
def AggOK (s : Pool) : Prop :=
  ∀ e ∈ s.entries, e.anc = e.tx.w.add (sumW s (ancL s.links e.tx.id)) ∧
    e.desc = e.tx.w.add (sumW s (descL s.links e.tx.id))

theorem aggOK_iff_recompute (s : Pool) :
    AggOK s ↔ ∀ e ∈ s.entries, e.anc = recomputeAnc s e ∧ e.desc = recomputeDesc s e := Iff.rfl

theorem nodup_ancL (L : LinkMap) (x : Nat) : (ancL L x).Nodup := List.Nodup.sublist List.filter_sublist (nodup_calcAnc L x)
theorem nodup_descL (L : LinkMap) (x : Nat) : (descL L x).Nodup := List.Nodup.sublist List.filter_sublist (nodup_calcDesc L x)

theorem mem_ancL {L : LinkMap} (h : LinkStruct L) (x y : Nat) : y ∈ ancL L x ↔ Anc L x y ∧ y ≠ x := by
  unfold ancL; rw [List.mem_filter, mem_calcAnc h]; simp

theorem mem_descL {L : LinkMap} (h : LinkStruct L) (x y : Nat) : y ∈ descL L x ↔ Desc L x y ∧ y ≠ x := by
  unfold descL; rw [List.mem_filter, mem_calcDesc h]; simp

theorem calcRelation_nil (g : Nat → List Nat) (ns : List Nat) : calcRelation g ns [] = [] := by
  unfold calcRelation
  generalize ns.length + ([] : List Nat).length + 1 = f
  have : dedup ([] : List Nat) = [] := rfl
  rw [this]
  cases f with
  | zero => rfl
  | succ n => unfold saturate; simp [expand, union, dedup]

theorem calcAnc_nil_of_not_key {L : LinkMap} {x : Nat} (h : x ∉ keys L) : calcAnc L x = [] := by
  unfold calcAnc; rw [parentsOf_nil_of_not_key h]; exact calcRelation_nil _ _

theorem calcDesc_nil_of_not_key {L : LinkMap} {x : Nat} (h : x ∉ keys L) : calcDesc L x = [] := by
  unfold calcDesc; rw [childrenOf_nil_of_not_key h]; exact calcRelation_nil _ _

/-! ### looking entries up by id only depends on the transactions -/

theorem getEntry_tx (s : Pool) (y : Nat) : (getEntry s y).map (·.tx) = (txs s).find? (·.id = y) := by
  unfold getEntry txs
  rw [List.find?_map]
  rfl

theorem wOf_of_txs {s s' : Pool} (y : Nat) (h : (txs s).find? (·.id = y) = (txs s').find? (·.id = y)) : wOf s y = wOf s' y :=
  wOf_congr y (by rw [getEntry_tx, getEntry_tx, h])

theorem find?_filter_ne (l : List Tx) (r y : Nat) (h : y ≠ r) :
    (l.filter (·.id ≠ r)).find? (·.id = y) = l.find? (·.id = y) := by
  induction l with
  | nil => rfl
  | cons a l ih =>
    rw [List.filter_cons]
    by_cases ha : a.id = r
    · have : decide (a.id ≠ r) = false := by simp [ha]
      rw [this]
      have hay : ¬ a.id = y := fun e => h (e ▸ ha)
      simp only [Bool.false_eq_true, if_false, List.find?_cons, hay, decide_false]
      exact ih
    · have : decide (a.id ≠ r) = true := by simp [ha]
      rw [this]
      simp only [if_true, List.find?_cons]
      rw [ih]

theorem find?_filter_notin (l : List Tx) (D : List Nat) (y : Nat) (h : y ∉ D) :
    (l.filter (·.id ∉ D)).find? (·.id = y) = l.find? (·.id = y) := by
  induction l with
  | nil => rfl
  | cons a l ih =>
    rw [List.filter_cons]
    by_cases ha : a.id ∈ D
    · have : decide (a.id ∉ D) = false := by simp [ha]
      rw [this]
      have hay : ¬ a.id = y := fun e => h (e ▸ ha)
      simp only [Bool.false_eq_true, if_false, List.find?_cons, hay, decide_false]
      exact ih
    · have : decide (a.id ∉ D) = true := by simp [ha]
      rw [this]
      simp only [if_true, List.find?_cons]
      rw [ih]

theorem find?_append_fresh (l : List Tx) (t : Tx) (y : Nat) (h : y ≠ t.id) :
    (l ++ [t]).find? (·.id = y) = l.find? (·.id = y) := by
  rw [List.find?_append]
  have : ¬ t.id = y := fun e => h e.symm
  cases l.find? (·.id = y) <;> simp [this]


/-! ### ancestors / descendants after the graph edits -/

theorem rt_succ_or_eq {g : Nat → List Nat} {x z : Nat} (h : RT g x z) : z = x ∨ ∃ a, z ∈ g a := by
  induction h with
  | refl => exact Or.inl rfl
  | @step a b c hb _ ih =>
    rcases ih with e | e
    · exact Or.inr ⟨a, e ▸ hb⟩
    · exact Or.inr e

theorem rt_iff_eq_or_anc (L : LinkMap) (p x : Nat) : RT (parentsOf L) p x ↔ x = p ∨ Anc L p x := by
  constructor
  · intro h
    cases h with
    | refl => exact Or.inl rfl
    | step hb hr => exact Or.inr ⟨_, hb, hr⟩
  · rintro (e | ⟨q, hq, hr⟩)
    · rw [e]; exact .refl _
    · exact .step hq hr

theorem mem_parentsOf_rm {L : LinkMap} (h : LinkStruct L) (r z w : Nat) :
    w ∈ parentsOf (removeEntryLinks L r) z ↔ z ≠ r ∧ w ∈ parentsOf L z ∧ w ≠ r := by
  rw [parentsOf_removeEntryLinks h]
  by_cases hz : z = r
  · simp [hz]
  · simp [hz, List.mem_filter]

theorem mem_childrenOf_rm {L : LinkMap} (h : LinkStruct L) (r z w : Nat) :
    w ∈ childrenOf (removeEntryLinks L r) z ↔ z ≠ r ∧ w ∈ childrenOf L z ∧ w ≠ r := by
  rw [childrenOf_removeEntryLinks h]
  by_cases hz : z = r
  · simp [hz]
  · simp [hz, List.mem_filter]

/-- `r` (not between) is unlinked: the other nodes keep their ancestors except `r` -/
theorem anc_after_rm {L : LinkMap} (h : LinkStruct L) {r x y : Nat}
    (hnb : parentsOf L r = [] ∨ childrenOf L r = []) (hx : x ≠ r) :
    Anc (removeEntryLinks L r) x y ↔ Anc L x y ∧ y ≠ r := by
  rcases hnb with hroot | hleaf
  · -- r has no parents: {r} is absorbing along parent links
    have habs : ∀ d ∈ [r], ∀ z ∈ parentsOf L d, z ∈ [r] := by
      intro d hd z hz
      have : d = r := by simpa using hd
      rw [this, hroot] at hz; cases hz
    have hg : ∀ z, z ∉ [r] → ∀ w, w ∈ parentsOf (removeEntryLinks L r) z ↔ w ∈ parentsOf L z ∧ w ∉ [r] := by
      intro z hz w
      have hz' : z ≠ r := by simpa using hz
      rw [mem_parentsOf_rm h]; simp [hz']
    constructor
    · rintro ⟨p, hp, hr⟩
      obtain ⟨_, hp1, hp2⟩ := (mem_parentsOf_rm h r x p).mp hp
      obtain ⟨a, b⟩ := (rt_remove habs hg (by simpa using hp2)).mp hr
      exact ⟨⟨p, hp1, a⟩, by simpa using b⟩
    · rintro ⟨⟨p, hp, hr⟩, hy⟩
      have hpr : p ≠ r := by
        intro e
        rw [e] at hr
        cases hr with
        | refl => exact hy rfl
        | step hb _ => rw [hroot] at hb; cases hb
      exact ⟨p, (mem_parentsOf_rm h r x p).mpr ⟨hx, hp, hpr⟩,
        (rt_remove habs hg (by simpa using hpr)).mpr ⟨hr, by simpa using hy⟩⟩
  · -- r has no children: nobody has r as a parent
    have hnp : ∀ z, r ∉ parentsOf L z := by
      intro z hz
      have := (h.sym r z).mp hz
      rw [hleaf] at this; cases this
    have hsame : ∀ p, p ≠ r → ∀ y, RT (parentsOf (removeEntryLinks L r)) p y ↔ RT (parentsOf L) p y := by
      intro p hp y
      apply rt_same
      intro z hz w
      have hzr : z ≠ r := by
        rcases rt_succ_or_eq hz with e | ⟨a, ha⟩
        · rw [e]; exact hp
        · exact fun e => hnp a (e ▸ ha)
      rw [mem_parentsOf_rm h]
      constructor
      · rintro ⟨_, a, _⟩; exact a
      · intro a; exact ⟨hzr, a, fun e => hnp z (e ▸ a)⟩
    constructor
    · rintro ⟨p, hp, hr⟩
      obtain ⟨_, hp1, hp2⟩ := (mem_parentsOf_rm h r x p).mp hp
      have hr' := (hsame p hp2 y).mp hr
      refine ⟨⟨p, hp1, hr'⟩, ?_⟩
      rcases rt_succ_or_eq hr' with e | ⟨a, ha⟩
      · rw [e]; exact hp2
      · exact fun e => hnp a (e ▸ ha)
    · rintro ⟨⟨p, hp, hr⟩, _⟩
      have hpr : p ≠ r := fun e => hnp x (e ▸ hp)
      exact ⟨p, (mem_parentsOf_rm h r x p).mpr ⟨hx, hp, hpr⟩, (hsame p hpr y).mpr hr⟩

theorem desc_after_rm {L : LinkMap} (h : LinkStruct L) {r x y : Nat}
    (hnb : parentsOf L r = [] ∨ childrenOf L r = []) (hx : x ≠ r) :
    Desc (removeEntryLinks L r) x y ↔ Desc L x y ∧ y ≠ r := by
  have h' := h.removeEntryLinks r
  rw [desc_iff_anc h', desc_iff_anc h]
  by_cases hy : y = r
  · subst hy
    constructor
    · rintro ⟨p, hp, _⟩
      exact absurd rfl ((mem_parentsOf_rm h y y p).mp hp).1
    · rintro ⟨_, hne⟩; exact absurd rfl hne
  · rw [anc_after_rm h hnb hy]
    constructor
    · rintro ⟨a, _⟩; exact ⟨a, hy⟩
    · rintro ⟨a, _⟩; exact ⟨a, hx⟩


/-! ### remove_entry (not between) keeps the aggregates right -/

theorem mem_modEntries_iff {ids : List Nat} {f : Entry → Entry} {es : List Entry} {x : Entry} :
    x ∈ modEntries ids f es ↔ ∃ e ∈ es, x = if e.tx.id ∈ ids then f e else e := by
  unfold modEntries
  rw [List.mem_map]
  constructor
  · rintro ⟨e, he, rfl⟩; exact ⟨e, he, rfl⟩
  · rintro ⟨e, he, rfl⟩; exact ⟨e, he, rfl⟩

theorem isBetween_false {L : LinkMap} {r : Nat} (h : isBetween L r = false) :
    parentsOf L r = [] ∨ childrenOf L r = [] := by
  unfold isBetween at h
  simp only [Bool.and_eq_false_iff, Bool.not_eq_eq_eq_not, Bool.not_false, List.isEmpty_iff] at h
  rcases h with h | h
  · left
    cases hp : parentsOf L r with
    | nil => rfl
    | cons a l =>
      have : a ∈ calcAnc L r := stage_sub_calcRelation _ _ _ a (by rw [hp]; exact List.mem_cons_self)
      rw [h] at this; cases this
  · right
    cases hp : childrenOf L r with
    | nil => rfl
    | cons a l =>
      have : a ∈ calcDesc L r := stage_sub_calcRelation _ _ _ a (by rw [hp]; exact List.mem_cons_self)
      rw [h] at this; cases this

/-- one of two sums over lists that differ by the single element `r` -/
theorem sum_minus_one (s s' : Pool) (base wr : W) {A A' : List Nat} {r : Nat} (hA : A.Nodup) (hA' : A'.Nodup)
    (hw : ∀ y ∈ A', wOf s' y = wOf s y) (hr : wOf s r = wr)
    (hm : ∀ y, y ∈ A' ↔ y ∈ A ∧ y ≠ r) :
    (if r ∈ A then (base.add (sumW s A)).sub wr else base.add (sumW s A)) = base.add (sumW s' A') := by
  have hc : sumW s' A' = sumW s A' := sumW_congr A' hw
  rw [hc]
  split
  · rename_i hin
    have hrA' : r ∉ A' := fun hx => ((hm r).mp hx).2 rfl
    have : sumW s A = (sumW s A').add (wOf s r) := by
      apply sumW_insert s hA' hA hrA'
      intro y
      rw [hm y]
      constructor
      · intro hy
        by_cases e : y = r
        · exact Or.inr e
        · exact Or.inl ⟨hy, e⟩
      · rintro (⟨a, _⟩ | e)
        · exact a
        · rw [e]; exact hin
    rw [this, hr, W.add_add_sub_cancel]
  · rename_i hnin
    congr 1
    apply sumW_ext s hA hA'
    intro y
    rw [hm y]
    constructor
    · intro hy; exact ⟨hy, fun e => hnin (e ▸ hy)⟩
    · rintro ⟨a, _⟩; exact a

theorem aggOK_rm {s : Pool} (hL : LinksOK s) (hA : AggOK s) {r : Nat} {er : Entry} (hg : getEntry s r = some er)
    (hb : isBetween s.links r = false) : AggOK (removeEntry s r).1 := by
  have hst := hL.struct
  have hst' := hst.removeEntryLinks r
  have hnb := isBetween_false hb
  obtain ⟨her, herid⟩ := getEntry_some hg
  have hwr : wOf s r = er.tx.w := by unfold wOf; rw [hg]
  have htxs := (removeEntry_txs s r er hg).1
  have hw : ∀ y, y ≠ r → wOf (removeEntry s r).1 y = wOf s y := by
    intro y hy
    apply wOf_of_txs
    rw [htxs]; exact find?_filter_ne _ _ _ hy
  intro e' he'
  rw [removeEntry_entries_plain s r er hg hb] at he'
  rw [removeEntry_links s r er hg]
  obtain ⟨e1, he1, rfl⟩ := mem_modEntries_iff.mp he'
  obtain ⟨e, he, rfl⟩ := mem_modEntries_iff.mp he1
  obtain ⟨hem, hne⟩ := List.mem_filter.mp he
  have hxr : e.tx.id ≠ r := by simpa using hne
  obtain ⟨hanc, hdesc⟩ := hA e hem
  -- membership of r in the old lists, in terms of what the code tests
  have hrA : r ∈ ancL s.links e.tx.id ↔ e.tx.id ∈ calcDesc s.links r := by
    rw [mem_ancL hst, mem_calcDesc hst, desc_iff_anc hst]
    exact ⟨fun a => a.1, fun a => ⟨a, fun e' => hxr e'.symm⟩⟩
  have hrD : r ∈ descL s.links e.tx.id ↔ e.tx.id ∈ calcAnc s.links r := by
    rw [mem_descL hst, mem_calcAnc hst, desc_iff_anc hst]
    exact ⟨fun a => a.1, fun a => ⟨a, fun e' => hxr e'.symm⟩⟩
  have hmA : ∀ y, y ∈ ancL (removeEntryLinks s.links r) e.tx.id ↔ y ∈ ancL s.links e.tx.id ∧ y ≠ r := by
    intro y
    rw [mem_ancL hst', mem_ancL hst, anc_after_rm hst hnb hxr]
    constructor
    · rintro ⟨⟨a, b⟩, c⟩; exact ⟨⟨a, c⟩, b⟩
    · rintro ⟨⟨a, c⟩, b⟩; exact ⟨⟨a, b⟩, c⟩
  have hmD : ∀ y, y ∈ descL (removeEntryLinks s.links r) e.tx.id ↔ y ∈ descL s.links e.tx.id ∧ y ≠ r := by
    intro y
    rw [mem_descL hst', mem_descL hst, desc_after_rm hst hnb hxr]
    constructor
    · rintro ⟨⟨a, b⟩, c⟩; exact ⟨⟨a, c⟩, b⟩
    · rintro ⟨⟨a, c⟩, b⟩; exact ⟨⟨a, b⟩, c⟩
  have sA := sum_minus_one s (removeEntry s r).1 e.tx.w er.tx.w (nodup_ancL _ _) (nodup_ancL _ _)
    (fun y hy => hw y ((hmA y).mp hy).2) hwr hmA
  have sD := sum_minus_one s (removeEntry s r).1 e.tx.w er.tx.w (nodup_descL _ _) (nodup_descL _ _)
    (fun y hy => hw y ((hmD y).mp hy).2) hwr hmD
  rw [← hanc] at sA
  rw [← hdesc] at sD
  -- now read the two fields of the twice-modified entry
  by_cases h1 : e.tx.id ∈ calcAnc s.links r <;> by_cases h2 : e.tx.id ∈ calcDesc s.links r
  all_goals simp only [h1, h2, if_true, if_false, subDesc, subAnc]
  all_goals (constructor)
  all_goals first
    | (rw [← sA]; simp only [hrA.mpr h2, if_true])
    | (rw [← sA]; simp only [mt hrA.mp h2, if_false])
    | (rw [← sD]; simp only [hrD.mpr h1, if_true])
    | (rw [← sD]; simp only [mt hrD.mp h1, if_false])


/-! ### remove_entry_and_descendants (repaired) -/

theorem mem_parentsOf_foldrm (D : List Nat) {L : LinkMap} (h : LinkStruct L) (z w : Nat) :
    w ∈ parentsOf (D.foldl removeEntryLinks L) z ↔ z ∉ D ∧ w ∈ parentsOf L z ∧ w ∉ D := by
  induction D generalizing L with
  | nil => simp
  | cons a l ih =>
    simp only [List.foldl_cons]
    rw [ih (h.removeEntryLinks a), mem_parentsOf_rm h]
    simp only [List.mem_cons, not_or]
    constructor
    · rintro ⟨a1, ⟨a2, a3, a4⟩, a5⟩; exact ⟨⟨a2, a1⟩, a3, a4, a5⟩
    · rintro ⟨⟨a2, a1⟩, a3, a4, a5⟩; exact ⟨a1, ⟨a2, a3, a4⟩, a5⟩

theorem mem_childrenOf_foldrm (D : List Nat) {L : LinkMap} (h : LinkStruct L) (z w : Nat) :
    w ∈ childrenOf (D.foldl removeEntryLinks L) z ↔ z ∉ D ∧ w ∈ childrenOf L z ∧ w ∉ D := by
  induction D generalizing L with
  | nil => simp
  | cons a l ih =>
    simp only [List.foldl_cons]
    rw [ih (h.removeEntryLinks a), mem_childrenOf_rm h]
    simp only [List.mem_cons, not_or]
    constructor
    · rintro ⟨a1, ⟨a2, a3, a4⟩, a5⟩; exact ⟨⟨a2, a1⟩, a3, a4, a5⟩
    · rintro ⟨⟨a2, a1⟩, a3, a4, a5⟩; exact ⟨a1, ⟨a2, a3, a4⟩, a5⟩

/-- `D` is closed under children -/
def DownClosed (L : LinkMap) (D : List Nat) : Prop := ∀ d ∈ D, ∀ c ∈ childrenOf L d, c ∈ D

theorem downClosed_rmdIds {L : LinkMap} (h : LinkStruct L) (id : Nat) :
    DownClosed L (id :: (calcDesc L id).filter (· ≠ id)) := by
  have hin : ∀ c, Desc L id c → c ∈ id :: (calcDesc L id).filter (· ≠ id) := by
    intro c hc
    by_cases e : c = id
    · rw [e]; exact List.mem_cons_self
    · exact List.mem_cons_of_mem _ (List.mem_filter.mpr ⟨(mem_calcDesc h id c).mpr hc, by simpa using e⟩)
  intro d hd c hc
  rcases List.mem_cons.mp hd with e | e
  · rw [e] at hc; exact hin c ⟨c, hc, .refl c⟩
  · have hdd := (mem_calcDesc h id d).mp (List.mem_filter.mp e).1
    obtain ⟨c0, hc0, hr⟩ := hdd
    exact hin c ⟨c0, hc0, hr.snoc hc⟩

/-- the parents of a survivor are survivors -/
theorem parent_not_in {L : LinkMap} (h : LinkStruct L) {D : List Nat} (hdc : DownClosed L D) {z w : Nat}
    (hz : z ∉ D) (hw : w ∈ parentsOf L z) : w ∉ D :=
  fun hwD => hz (hdc w hwD z ((h.sym w z).mp hw))

theorem anc_after_rmd {L : LinkMap} (h : LinkStruct L) {D : List Nat} (hdc : DownClosed L D) {x y : Nat} (hx : x ∉ D) :
    (Anc (D.foldl removeEntryLinks L) x y ↔ Anc L x y) ∧ (Anc L x y → y ∉ D) := by
  have hreach : ∀ p, p ∉ D → ∀ z, RT (parentsOf L) p z → z ∉ D := by
    intro p hp z hr
    induction hr with
    | refl => exact hp
    | @step a b c hb _ ih => exact ih (parent_not_in h hdc hp hb)
  have hsame : ∀ p, p ∉ D → ∀ y, RT (parentsOf (D.foldl removeEntryLinks L)) p y ↔ RT (parentsOf L) p y := by
    intro p hp y
    apply rt_same
    intro z hz w
    have hzD := hreach p hp z hz
    rw [mem_parentsOf_foldrm D h]
    constructor
    · rintro ⟨_, a, _⟩; exact a
    · intro a; exact ⟨hzD, a, parent_not_in h hdc hzD a⟩
  refine ⟨?_, ?_⟩
  · constructor
    · rintro ⟨p, hp, hr⟩
      obtain ⟨_, hp1, hp2⟩ := (mem_parentsOf_foldrm D h x p).mp hp
      exact ⟨p, hp1, (hsame p hp2 y).mp hr⟩
    · rintro ⟨p, hp, hr⟩
      have hpD := parent_not_in h hdc hx hp
      exact ⟨p, (mem_parentsOf_foldrm D h x p).mpr ⟨hx, hp, hpD⟩, (hsame p hpD y).mpr hr⟩
  · rintro ⟨p, hp, hr⟩
    exact hreach p (parent_not_in h hdc hx hp) y hr

theorem desc_after_rmd {L : LinkMap} (h : LinkStruct L) {D : List Nat} (hdc : DownClosed L D) {x y : Nat} (hx : x ∉ D) :
    Desc (D.foldl removeEntryLinks L) x y ↔ Desc L x y ∧ y ∉ D := by
  have hg : ∀ z, z ∉ D → ∀ w, w ∈ childrenOf (D.foldl removeEntryLinks L) z ↔ w ∈ childrenOf L z ∧ w ∉ D := by
    intro z hz w
    rw [mem_childrenOf_foldrm D h]
    constructor
    · rintro ⟨_, a, b⟩; exact ⟨a, b⟩
    · rintro ⟨a, b⟩; exact ⟨hz, a, b⟩
  constructor
  · rintro ⟨c, hc, hr⟩
    obtain ⟨hc1, hc2⟩ := (hg x hx c).mp hc
    obtain ⟨a, b⟩ := (rt_remove hdc hg hc2).mp hr
    exact ⟨⟨c, hc1, a⟩, b⟩
  · rintro ⟨⟨c, hc, hr⟩, hy⟩
    have hcD : c ∉ D := fun hd => hy (absorbing_rt hdc hd hr)
    exact ⟨c, (hg x hx c).mpr ⟨hc, hcD⟩, (rt_remove hdc hg hcD).mpr ⟨hr, hy⟩⟩

theorem modEntries_nil (f : Entry → Entry) (es : List Entry) : modEntries [] f es = es := by
  unfold modEntries
  conv => rhs; rw [← List.map_id es]
  apply List.map_congr_left; intro e _; simp

theorem isBetween_not_key {L : LinkMap} {r : Nat} (h : r ∉ keys L) : isBetween L r = false := by
  unfold isBetween; rw [calcAnc_nil_of_not_key h]; rfl

/-- removing entries whose link entries are already gone only filters the entry list -/
theorem foldRemove_isolated (D : List Nat) (c : Pool) (acc : List Entry) (hk : ∀ rid ∈ D, rid ∉ keys c.links) :
    let r := (D.foldl (fun (acc : Pool × List Entry) rid =>
      match removeEntry acc.1 rid with
      | (s', some e) => (s', acc.2 ++ [e])
      | (s', none) => (s', acc.2)) (c, acc)).1
    r.entries = c.entries.filter (·.tx.id ∉ D) ∧ r.links = c.links ∧ r.ghostBad = c.ghostBad ∧ r.cfg = c.cfg := by
  induction D generalizing c acc with
  | nil => exact ⟨(List.filter_eq_self.mpr (by simp)).symm, rfl, rfl, rfl⟩
  | cons a l ih =>
    simp only [List.foldl_cons]
    have ha : a ∉ keys c.links := hk a List.mem_cons_self
    have h1 : (removeEntry c a).1.entries = c.entries.filter (·.tx.id ≠ a) ∧ (removeEntry c a).1.links = c.links ∧
        (removeEntry c a).1.ghostBad = c.ghostBad ∧ (removeEntry c a).1.cfg = c.cfg := by
      cases hg : getEntry c a with
      | none =>
        rw [removeEntry_none c a hg]
        refine ⟨?_, rfl, rfl, rfl⟩
        symm
        apply List.filter_eq_self.mpr
        intro e he
        have := getEntry_none hg e.tx (List.mem_map.mpr ⟨e, he, rfl⟩)
        simpa using this
      | some e =>
        have hb := isBetween_not_key ha
        refine ⟨?_, ?_, ?_, removeEntry_cfg c a⟩
        · rw [removeEntry_entries_plain c a e hg hb, calcAnc_nil_of_not_key ha, calcDesc_nil_of_not_key ha,
            modEntries_nil, modEntries_nil]
        · rw [removeEntry_links c a e hg]; exact removeEntryLinks_not_key ha
        · rw [removeEntry_ghostBad c a e hg, hb]; simp
    obtain ⟨e1, e2, e3, e4⟩ := h1
    rcases hre : removeEntry c a with ⟨s', oe⟩
    rw [hre] at e1 e2 e3 e4
    have hk' : ∀ rid ∈ l, rid ∉ keys s'.links := by
      intro rid hr; rw [e2]; exact hk rid (List.mem_cons_of_mem _ hr)
    have key : ∀ acc', let r := (l.foldl (fun (acc : Pool × List Entry) rid =>
        match removeEntry acc.1 rid with
        | (s', some e) => (s', acc.2 ++ [e])
        | (s', none) => (s', acc.2)) (s', acc')).1
        r.entries = c.entries.filter (·.tx.id ∉ a :: l) ∧ r.links = c.links ∧ r.ghostBad = c.ghostBad ∧ r.cfg = c.cfg := by
      intro acc'
      obtain ⟨f1, f2, f3, f4⟩ := ih s' acc' hk'
      refine ⟨?_, f2.trans e2, f3.trans e3, f4.trans e4⟩
      rw [f1, e1, List.filter_filter]
      apply List.filter_congr
      intro x _
      by_cases h1 : x.tx.id ∈ l <;> by_cases h2 : x.tx.id = a <;> simp [h1, h2]
    cases oe with
    | none => exact key acc
    | some e => exact key (acc ++ [e])


/-- the state during the repaired pre-pass: `P` = removed ids already processed -/
def PreQ (s : Pool) (Dall P : List Nat) (cur : Pool) : Prop :=
  cur.links = s.links ∧ txs cur = txs s ∧ cur.ghostBad = s.ghostBad ∧ cur.cfg = s.cfg ∧
  ∀ e0 ∈ cur.entries, e0.tx.id ∉ Dall →
    e0.anc = e0.tx.w.add (sumW s (ancL s.links e0.tx.id)) ∧
    e0.desc = e0.tx.w.add (sumW s ((descL s.links e0.tx.id).filter (· ∉ P)))

theorem preSub_step {s : Pool} (hst : LinkStruct s.links) (Dall : List Nat) (D2 : List Nat) :
    ∀ (P : List Nat) (cur : Pool), D2.Nodup → (∀ rid ∈ D2, rid ∉ P ∧ rid ∈ Dall ∧ (getEntry s rid).isSome) →
      PreQ s Dall P cur → PreQ s Dall (P ++ D2) (preSubDescendants cur D2) := by
  induction D2 with
  | nil => intro P cur _ _ h; simpa [preSubDescendants] using h
  | cons rid D2 ih =>
    intro P cur hn hD hQ
    obtain ⟨hl, ht, hgb, hcfg, hent⟩ := hQ
    obtain ⟨hridP, hridD, hridE⟩ := hD rid List.mem_cons_self
    have hn' := (List.nodup_cons.mp hn)
    unfold preSubDescendants
    simp only [List.foldl_cons]
    -- the entry of rid exists in cur with the same transaction as in s
    have hfind : (getEntry cur rid).map (·.tx) = (getEntry s rid).map (·.tx) := by
      rw [getEntry_tx, getEntry_tx, ht]
    cases hgc : getEntry cur rid with
    | none =>
      rw [hgc] at hfind
      cases hgs : getEntry s rid with
      | none => rw [hgs] at hridE; simp at hridE
      | some x => rw [hgs] at hfind; simp at hfind
    | some er =>
      simp only
      have hwr : wOf s rid = er.tx.w := by
        have : wOf cur rid = wOf s rid := wOf_congr rid hfind
        rw [← this]; unfold wOf; rw [hgc]
      have hstep : PreQ s Dall (P ++ [rid])
          { cur with entries := modEntries (calcAnc cur.links rid) (subDesc er.tx.w) cur.entries } := by
        refine ⟨hl, ?_, hgb, hcfg, ?_⟩
        · rw [← ht]; simp only [txs]; exact modEntries_txs _ _ (by simp) _
        · intro e0' he0' hx'
          obtain ⟨e0, he0, rfl⟩ := mem_modEntries_iff.mp he0'
          have htx : (if e0.tx.id ∈ calcAnc cur.links rid then subDesc er.tx.w e0 else e0).tx = e0.tx := by
            split <;> rfl
          rw [htx] at hx' ⊢
          obtain ⟨ha, hd⟩ := hent e0 he0 hx'
          have hxr : rid ≠ e0.tx.id := fun e => hx' (e ▸ hridD)
          have hcond : rid ∈ (descL s.links e0.tx.id).filter (· ∉ P) ↔ e0.tx.id ∈ calcAnc cur.links rid := by
            rw [hl, List.mem_filter, mem_descL hst, mem_calcAnc hst, desc_iff_anc hst]
            constructor
            · rintro ⟨⟨a, _⟩, _⟩; exact a
            · intro a; exact ⟨⟨a, hxr⟩, by simpa using hridP⟩
          have hm : ∀ y, y ∈ (descL s.links e0.tx.id).filter (· ∉ P ++ [rid]) ↔
              y ∈ (descL s.links e0.tx.id).filter (· ∉ P) ∧ y ≠ rid := by
            intro y
            simp only [List.mem_filter, List.mem_append, List.mem_singleton, not_or, decide_eq_true_eq]
            constructor
            · rintro ⟨a, b, c⟩; exact ⟨⟨a, b⟩, c⟩
            · rintro ⟨⟨a, b⟩, c⟩; exact ⟨a, b, c⟩
          have sD := sum_minus_one s s e0.tx.w er.tx.w
            (List.Nodup.sublist List.filter_sublist (nodup_descL s.links e0.tx.id))
            (List.Nodup.sublist List.filter_sublist (nodup_descL s.links e0.tx.id))
            (fun _ _ => rfl) hwr hm
          rw [← hd] at sD
          by_cases hc : e0.tx.id ∈ calcAnc cur.links rid
          · simp only [hc, if_true, subDesc]
            refine ⟨ha, ?_⟩
            rw [← sD]; simp only [hcond.mpr hc, if_true]
          · simp only [hc, if_false]
            refine ⟨ha, ?_⟩
            rw [← sD]; simp only [mt hcond.mp hc, if_false]
      have := ih (P ++ [rid]) _ hn'.2 (fun r hr => by
        obtain ⟨a, b, c⟩ := hD r (List.mem_cons_of_mem _ hr)
        refine ⟨?_, b, c⟩
        intro hm
        rcases List.mem_append.mp hm with h1 | h1
        · exact a h1
        · have : r = rid := by simpa using h1
          exact hn'.1 (this ▸ hr)) hstep
      rw [List.append_assoc] at this
      exact this

theorem aggOK_rmd {s : Pool} (hL : LinksOK s) (hA : AggOK s) (hfix : s.cfg.fixF2 = true) (id : Nat) :
    AggOK (removeWithDesc s id).1 ∧ (removeWithDesc s id).1.ghostBad = s.ghostBad ∧ (removeWithDesc s id).1.cfg = s.cfg := by
  have hst := hL.struct
  have hkeys : ∀ x, x ∈ keys s.links ↔ ∃ t ∈ txs s, t.id = x := by
    intro x; rw [hL.keysEq x]; simp
  -- every removed id that is a key has an entry
  have hentry : ∀ x, x ∈ keys s.links → (getEntry s x).isSome := by
    intro x hx
    obtain ⟨t, ht, hid⟩ := (hkeys x).mp hx
    cases hg : getEntry s x with
    | some _ => rfl
    | none => exact absurd hid (getEntry_none hg t ht)
  unfold removeWithDesc
  simp only [hfix, if_true]
  generalize hD : (id :: (calcDesc s.links id).filter (· ≠ id)) = D
  have hDn : D.Nodup := by
    rw [← hD]
    refine List.nodup_cons.mpr ⟨?_, List.Nodup.sublist List.filter_sublist (nodup_calcDesc _ _)⟩
    intro hm; simpa using (List.mem_filter.mp hm).2
  have hdc : DownClosed s.links D := by rw [← hD]; exact downClosed_rmdIds hst id
  by_cases hid : id ∈ keys s.links
  · -- the normal case: every member of D is pooled
    have hDk : ∀ rid ∈ D, rid ∈ keys s.links := by
      intro rid hr
      rw [← hD] at hr
      rcases List.mem_cons.mp hr with e | e
      · rw [e]; exact hid
      · obtain ⟨c, hc, hrt⟩ := (mem_calcDesc hst id rid).mp (List.mem_filter.mp e).1
        rcases rt_succ_or_eq hrt with e1 | ⟨a, ha⟩
        · rw [e1]; exact (hst.parent_key ((hst.sym id c).mpr hc)).2
        · exact (hst.parent_key ((hst.sym a rid).mpr ha)).2
    have hQ0 : PreQ s D [] s := by
      refine ⟨rfl, rfl, rfl, rfl, fun e0 he0 _ => ?_⟩
      obtain ⟨a, b⟩ := hA e0 he0
      refine ⟨a, ?_⟩
      rw [b]; congr 2
      exact (List.filter_eq_self.mpr (by simp)).symm
    have hQ := preSub_step hst D D [] s hDn (fun rid hr => ⟨by simp, hr, hentry rid (hDk rid hr)⟩) hQ0
    rw [List.nil_append] at hQ
    obtain ⟨hl, ht, hgb, hcfg, hent⟩ := hQ
    have hiso := foldRemove_isolated D
      { preSubDescendants s D with links := D.foldl removeEntryLinks (preSubDescendants s D).links } []
      (by
        intro rid hr
        show rid ∉ keys (D.foldl removeEntryLinks (preSubDescendants s D).links)
        rw [hl, (foldUnlink D s.links hst).2]
        intro hm
        have := (List.mem_filter.mp hm).2
        simp only [decide_eq_true_eq] at this
        exact this hr)
    simp only at hiso
    obtain ⟨f1, f2, f3, f4⟩ := hiso
    have key : ∀ F : Pool, F.entries = (preSubDescendants s D).entries.filter (·.tx.id ∉ D) →
        F.links = D.foldl removeEntryLinks s.links → AggOK F := by
      intro F hFe hFl e he
      rw [hFe] at he
      obtain ⟨he0, hne⟩ := List.mem_filter.mp he
      have hxD : e.tx.id ∉ D := by simpa using hne
      obtain ⟨ha, hd⟩ := hent e he0 hxD
      have hst' := (foldUnlink D s.links hst).1
      have hFt : txs F = (txs s).filter (·.id ∉ D) := by
        rw [← ht]
        simp only [txs, hFe, List.filter_map]
        rfl
      have hw : ∀ y, y ∉ D → wOf F y = wOf s y := by
        intro y hy
        apply wOf_of_txs
        rw [hFt]; exact find?_filter_notin _ _ _ hy
      rw [hFl]
      constructor
      · rw [ha]; congr 1
        have hmem : ∀ y, y ∈ ancL s.links e.tx.id ↔ y ∈ ancL (D.foldl removeEntryLinks s.links) e.tx.id := by
          intro y
          rw [mem_ancL hst, mem_ancL hst', (anc_after_rmd hst hdc hxD).1]
        rw [sumW_ext s (nodup_ancL _ _) (nodup_ancL _ _) hmem]
        apply (sumW_congr _ _).symm
        intro y hy
        have hy' := ((mem_ancL hst' _ y).mp hy).1
        exact hw y ((anc_after_rmd hst hdc hxD).2 (((anc_after_rmd hst hdc hxD).1).mp hy'))
      · rw [hd]; congr 1
        have hmem : ∀ y, y ∈ (descL s.links e.tx.id).filter (· ∉ D) ↔ y ∈ descL (D.foldl removeEntryLinks s.links) e.tx.id := by
          intro y
          rw [List.mem_filter, mem_descL hst, mem_descL hst', desc_after_rmd hst hdc hxD]
          simp only [decide_eq_true_eq]
          constructor
          · rintro ⟨⟨a, b⟩, c⟩; exact ⟨⟨a, c⟩, b⟩
          · rintro ⟨⟨a, c⟩, b⟩; exact ⟨⟨a, b⟩, c⟩
        rw [sumW_ext s (List.Nodup.sublist List.filter_sublist (nodup_descL _ _)) (nodup_descL _ _) hmem]
        apply (sumW_congr _ _).symm
        intro y hy
        have hy' := ((mem_descL hst' _ y).mp hy).1
        exact hw y ((desc_after_rmd hst hdc hxD).mp hy').2
    have f2' := f2.trans (show D.foldl removeEntryLinks (preSubDescendants s D).links = D.foldl removeEntryLinks s.links by rw [hl])
    exact ⟨key _ f1 f2', f3.trans hgb, f4.trans hcfg⟩
  · -- id is not pooled: nothing happens
    have hDe : D = [id] := by rw [← hD, calcDesc_nil_of_not_key hid]; rfl
    have hnone : getEntry s id = none := by
      cases hg : getEntry s id with
      | none => rfl
      | some e =>
        obtain ⟨he, heid⟩ := getEntry_some hg
        exact absurd ((hkeys id).mpr ⟨e.tx, List.mem_map.mpr ⟨e, he, rfl⟩, heid⟩) hid
    subst hDe
    have h1 : preSubDescendants s [id] = s := by
      unfold preSubDescendants; simp only [List.foldl_cons, List.foldl_nil, hnone]
    rw [h1]
    have h2 : ([id].foldl removeEntryLinks s.links) = s.links := by
      simp only [List.foldl_cons, List.foldl_nil]; exact removeEntryLinks_not_key hid
    rw [h2]
    simp only [List.foldl_cons, List.foldl_nil]
    have hr : removeEntry s id = (s, none) := by unfold removeEntry; rw [hnone]
    show AggOK (match removeEntry s id with
        | (s', some e) => (s', [] ++ [e])
        | (s', none) => (s', ([] : List Entry))).1 ∧
      (match removeEntry s id with
        | (s', some e) => (s', [] ++ [e])
        | (s', none) => (s', ([] : List Entry))).1.ghostBad = s.ghostBad ∧
      (match removeEntry s id with
        | (s', some e) => (s', [] ++ [e])
        | (s', none) => (s', ([] : List Entry))).1.cfg = s.cfg
    rw [hr]
    exact ⟨hA, rfl, rfl⟩


/-! ### a new sink below existing parents (clean `add_entry`) -/

theorem mem_parentsOf_add (L : LinkMap) (E : Nat) (P : List Nat) (z w : Nat) :
    w ∈ parentsOf (addNodeLinks L E P) z ↔ (z = E ∧ w ∈ P) ∨ (z ≠ E ∧ w ∈ parentsOf L z) := by
  rw [parentsOf_addNodeLinks]
  by_cases hz : z = E <;> simp [hz]

theorem mem_childrenOf_add {L : LinkMap} {E : Nat} {P : List Nat} (hP : ∀ p ∈ P, p ∈ keys L) (z w : Nat) :
    w ∈ childrenOf (addNodeLinks L E P) z ↔ z ≠ E ∧ (w ∈ childrenOf L z ∨ (z ∈ P ∧ w = E)) := by
  rw [childrenOf_addNodeLinks]
  by_cases hz : z = E
  · simp [hz]
  · simp only [hz, if_false, ne_eq, not_false_eq_true, true_and]
    by_cases hp : z ∈ P
    · simp only [hp, if_true, true_and]
      have hk := (mem_keys_iff L z).mp (hP z hp)
      rw [childrenOf_eq]
      cases hl : linkOf L z with
      | none => rw [hl] at hk; simp at hk
      | some l => simp [mem_insertNew]
    · simp [hp]

section AddSink
variable {L : LinkMap} (h : LinkStruct L) {E : Nat} {P : List Nat} (hE : E ∉ keys L) (hP : ∀ p ∈ P, p ∈ keys L)
include h hE hP

theorem parent_ne_new {z w : Nat} (hw : w ∈ parentsOf L z) : w ≠ E ∧ z ≠ E :=
  ⟨fun e => hE (e ▸ (h.parent_key hw).1), fun e => hE (e ▸ (h.parent_key hw).2)⟩

theorem child_ne_new {z w : Nat} (hw : w ∈ childrenOf L z) : w ≠ E ∧ z ≠ E := by
  have := parent_ne_new h hE hP ((h.sym z w).mpr hw)
  exact ⟨this.2, this.1⟩

/-- reachability along parent links from an old node is unchanged -/
theorem rt_parents_add_old {p y : Nat} (hp : p ≠ E) :
    RT (parentsOf (addNodeLinks L E P)) p y ↔ RT (parentsOf L) p y := by
  apply rt_same
  intro z hz w
  have hzE : z ≠ E := by
    rcases rt_succ_or_eq hz with e | ⟨a, ha⟩
    · rw [e]; exact hp
    · exact (parent_ne_new h hE hP ha).1
  rw [mem_parentsOf_add]
  constructor
  · rintro (⟨a, _⟩ | ⟨_, a⟩)
    · exact absurd a hzE
    · exact a
  · intro a; exact Or.inr ⟨hzE, a⟩

theorem anc_add_old {x y : Nat} (hx : x ≠ E) : Anc (addNodeLinks L E P) x y ↔ Anc L x y := by
  constructor
  · rintro ⟨p, hp, hr⟩
    rcases (mem_parentsOf_add L E P x p).mp hp with ⟨a, _⟩ | ⟨_, a⟩
    · exact absurd a hx
    · exact ⟨p, a, (rt_parents_add_old h hE hP (parent_ne_new h hE hP a).1).mp hr⟩
  · rintro ⟨p, hp, hr⟩
    exact ⟨p, (mem_parentsOf_add L E P x p).mpr (Or.inr ⟨hx, hp⟩),
      (rt_parents_add_old h hE hP (parent_ne_new h hE hP hp).1).mpr hr⟩

theorem anc_add_new (y : Nat) : Anc (addNodeLinks L E P) E y ↔ ∃ p ∈ P, RT (parentsOf L) p y := by
  constructor
  · rintro ⟨p, hp, hr⟩
    rcases (mem_parentsOf_add L E P E p).mp hp with ⟨_, a⟩ | ⟨a, _⟩
    · exact ⟨p, a, (rt_parents_add_old h hE hP (fun e => hE (e ▸ hP p a))).mp hr⟩
    · exact absurd rfl a
  · rintro ⟨p, hp, hr⟩
    exact ⟨p, (mem_parentsOf_add L E P E p).mpr (Or.inl ⟨rfl, hp⟩),
      (rt_parents_add_old h hE hP (fun e => hE (e ▸ hP p hp))).mpr hr⟩

theorem new_not_reached {p y : Nat} (hp : p ∈ P) (hr : RT (parentsOf L) p y) : y ≠ E := by
  rcases rt_succ_or_eq hr with e | ⟨a, ha⟩
  · rw [e]; exact fun e' => hE (e' ▸ hP p hp)
  · exact (parent_ne_new h hE hP ha).1

theorem desc_add_old {x y : Nat} (hx : x ≠ E) :
    Desc (addNodeLinks L E P) x y ↔ Desc L x y ∨ (y = E ∧ ∃ p ∈ P, RT (parentsOf L) p x) := by
  have hEc : ∀ z w, w ∈ childrenOf L z → w ≠ E ∧ z ≠ E := fun z w hw => child_ne_new h hE hP hw
  have hg := mem_childrenOf_add (E := E) hP
  constructor
  · rintro ⟨c, hc, hr⟩
    obtain ⟨_, hc'⟩ := (hg x c).mp hc
    rcases hc' with hc1 | ⟨hxP, hcE⟩
    · rcases (rt_add_sink hEc hg (hEc x c hc1).1).mp hr with r | ⟨e, p, hp, r⟩
      · exact Or.inl ⟨c, hc1, r⟩
      · refine Or.inr ⟨e, p, hp, ?_⟩
        -- x -> c ->* p along children, so p ->* x along parents
        have : Desc L x p := ⟨c, hc1, r⟩
        exact (rt_iff_eq_or_anc L p x).mpr (Or.inr ((desc_iff_anc h x p).mp this))
    · rw [hcE] at hr
      have hyE : y = E := by
        cases hr with
        | refl => rfl
        | step hb _ => exact absurd rfl ((hg _ _).mp hb).1
      exact Or.inr ⟨hyE, x, hxP, .refl x⟩
  · rintro (⟨c, hc, hr⟩ | ⟨e, p, hp, hr⟩)
    · exact ⟨c, (hg x c).mpr ⟨hx, Or.inl hc⟩, (rt_add_sink hEc hg (hEc x c hc).1).mpr (Or.inl hr)⟩
    · rw [e]
      rcases (rt_iff_eq_or_anc L p x).mp hr with e1 | ha
      · rw [e1]; exact ⟨E, (hg p E).mpr ⟨fun e' => hE (e' ▸ hP p hp), Or.inr ⟨hp, rfl⟩⟩, .refl E⟩
      · obtain ⟨c, hc, hr'⟩ := (desc_iff_anc h x p).mpr ha
        exact ⟨c, (hg x c).mpr ⟨hx, Or.inl hc⟩,
          (rt_add_sink hEc hg (hEc x c hc).1).mpr (Or.inr ⟨rfl, p, hp, hr'⟩)⟩

end AddSink


theorem find?_append_new (l : List Tx) (t : Tx) (h : ∀ x ∈ l, x.id ≠ t.id) :
    (l ++ [t]).find? (·.id = t.id) = some t := by
  rw [List.find?_append]
  have : l.find? (·.id = t.id) = none := by
    apply List.find?_eq_none.mpr
    intro x hx; simpa using h x hx
  rw [this]; simp

theorem aggOK_push {s1 F : Pool} (hL : LinksOK s1) (hA : AggOK s1) {t : Tx} {P : List Nat} {e' : Entry}
    (hE : t.id ∉ keys s1.links) (hP : ∀ p ∈ P, p ∈ keys s1.links) (hn : P.Nodup)
    (hetx : e'.tx = t) (hedesc : e'.desc = t.w)
    (heanc : e'.anc = t.w.add (sumW s1 (calcRelation (parentsOf s1.links) (keys s1.links) P)))
    (hFl : F.links = addNodeLinks s1.links t.id P)
    (hFe : F.entries = modEntries (calcAnc F.links t.id) (addDesc t.w) (s1.entries ++ [e'])) : AggOK F := by
  have hst := hL.struct
  have hst' := hst.addNode hE hP hn
  have hfresh : ∀ x ∈ txs s1, x.id ≠ t.id := by
    intro x hx e
    exact hE ((hL.keysEq t.id).mpr ⟨⟨x, hx, e⟩, by simp⟩)
  have hFt : txs F = txs s1 ++ [t] := by
    simp only [txs, hFe]
    rw [modEntries_txs _ _ (by simp)]
    simp [hetx]
  have hwold : ∀ y, y ≠ t.id → wOf F y = wOf s1 y := by
    intro y hy
    apply wOf_of_txs
    rw [hFt]; exact find?_append_fresh _ _ _ hy
  have hwnew : wOf F t.id = t.w := by
    have h1 : (getEntry F t.id).map (·.tx) = some t := by
      rw [getEntry_tx, hFt]; exact find?_append_new _ _ hfresh
    unfold wOf
    cases hg : getEntry F t.id with
    | none => rw [hg] at h1; simp at h1
    | some x => rw [hg] at h1; simp at h1; show Tx.w x.tx = t.w; rw [h1]
  have hkeyne : ∀ {y}, y ∈ keys s1.links → y ≠ t.id := fun hy e => hE (e ▸ hy)
  have hcond : ∀ x, x ∈ calcAnc (addNodeLinks s1.links t.id P) t.id ↔ ∃ p ∈ P, RT (parentsOf s1.links) p x := by
    intro x; rw [mem_calcAnc hst', anc_add_new hst hE hP]
  rw [hFl] at hFe
  intro ef hef
  rw [hFe] at hef
  rw [hFl]
  obtain ⟨e, he, rfl⟩ := mem_modEntries_iff.mp hef
  rcases List.mem_append.mp he with hold | hnew
  · -- an entry that was there before
    have hx : e.tx.id ≠ t.id := hfresh e.tx (List.mem_map.mpr ⟨e, hold, rfl⟩)
    obtain ⟨ha, hd⟩ := hA e hold
    have htx : (if e.tx.id ∈ calcAnc (addNodeLinks s1.links t.id P) t.id then addDesc t.w e else e).tx = e.tx := by
      split <;> rfl
    have hanc : (if e.tx.id ∈ calcAnc (addNodeLinks s1.links t.id P) t.id then addDesc t.w e else e).anc = e.anc := by
      split <;> rfl
    rw [htx, hanc]
    constructor
    · rw [ha]; congr 1
      have hmem : ∀ y, y ∈ ancL s1.links e.tx.id ↔ y ∈ ancL (addNodeLinks s1.links t.id P) e.tx.id := by
        intro y; rw [mem_ancL hst, mem_ancL hst', anc_add_old hst hE hP hx]
      rw [sumW_ext s1 (nodup_ancL _ _) (nodup_ancL _ _) hmem]
      apply (sumW_congr _ _).symm
      intro y hy
      obtain ⟨⟨p, hp, hr⟩, _⟩ := (mem_ancL hst _ y).mp ((hmem y).mpr hy)
      apply hwold
      rcases rt_succ_or_eq hr with e1 | ⟨a, ha'⟩
      · rw [e1]; exact hkeyne (hst.parent_key hp).1
      · exact hkeyne (hst.parent_key ha').1
    · have hmem : ∀ y, y ∈ descL (addNodeLinks s1.links t.id P) e.tx.id ↔
          y ∈ descL s1.links e.tx.id ∨ (y = t.id ∧ e.tx.id ∈ calcAnc (addNodeLinks s1.links t.id P) t.id) := by
        intro y
        rw [mem_descL hst', mem_descL hst, desc_add_old hst hE hP hx, hcond]
        constructor
        · rintro ⟨a | ⟨a, b⟩, c⟩
          · exact Or.inl ⟨a, c⟩
          · exact Or.inr ⟨a, b⟩
        · rintro (⟨a, c⟩ | ⟨a, b⟩)
          · exact ⟨Or.inl a, c⟩
          · exact ⟨Or.inr ⟨a, b⟩, by rw [a]; exact fun e' => hx e'.symm⟩
      have hEnotin : t.id ∉ descL s1.links e.tx.id := by
        intro hm
        obtain ⟨⟨c, hc, hr⟩, _⟩ := (mem_descL hst _ _).mp hm
        rcases rt_succ_or_eq hr with e1 | ⟨a, ha'⟩
        · exact hkeyne (hst.parent_key ((hst.sym e.tx.id c).mpr hc)).2 e1.symm
        · exact hkeyne (hst.parent_key ((hst.sym a t.id).mpr ha')).2 rfl
      have hwd : ∀ y ∈ descL s1.links e.tx.id, wOf F y = wOf s1 y := by
        intro y hy
        apply hwold
        intro e1; exact hEnotin (e1 ▸ hy)
      by_cases hc : e.tx.id ∈ calcAnc (addNodeLinks s1.links t.id P) t.id
      · simp only [hc, if_true, addDesc]
        have : sumW F (descL (addNodeLinks s1.links t.id P) e.tx.id) = (sumW F (descL s1.links e.tx.id)).add (wOf F t.id) := by
          apply sumW_insert F (nodup_descL _ _) (nodup_descL _ _) hEnotin
          intro y; rw [hmem y]; simp [hc]
        rw [this, hwnew, sumW_congr _ hwd, hd, W.add_assoc]
      · simp only [hc, if_false]
        rw [hd]; congr 1
        rw [← sumW_congr _ hwd]
        apply sumW_ext F (nodup_descL _ _) (nodup_descL _ _)
        intro y; rw [hmem y]; simp [hc]
  · -- the new entry
    have hee : e = e' := by simpa using hnew
    subst hee
    have hnotin : e.tx.id ∉ calcAnc (addNodeLinks s1.links t.id P) t.id := by
      rw [hetx, hcond]
      rintro ⟨p, hp, hr⟩
      exact new_not_reached hst hE hP hp hr rfl
    simp only [hnotin, if_false]
    rw [hetx]
    constructor
    · rw [heanc]; congr 1
      have hmem : ∀ y, y ∈ calcRelation (parentsOf s1.links) (keys s1.links) P ↔ y ∈ ancL (addNodeLinks s1.links t.id P) t.id := by
        intro y
        rw [mem_calcRelation _ _ _ (fun _ _ hb => (hst.parent_key hb).1), mem_ancL hst', anc_add_new hst hE hP]
        constructor
        · rintro ⟨p, hp, hr⟩; exact ⟨⟨p, hp, hr⟩, new_not_reached hst hE hP hp hr⟩
        · rintro ⟨a, _⟩; exact a
      rw [sumW_ext s1 (nodup_calcRelation _ _ _) (nodup_ancL _ _) hmem]
      apply (sumW_congr _ _).symm
      intro y hy
      exact hwold y ((mem_ancL hst' _ y).mp hy).2
    · rw [hedesc]
      have : descL (addNodeLinks s1.links t.id P) t.id = [] := by
        unfold descL calcDesc
        have : childrenOf (addNodeLinks s1.links t.id P) t.id = [] := by
          rw [childrenOf_addNodeLinks]; simp
        rw [this, calcRelation_nil]; rfl
      rw [this, sumW_nil, W.add_zero]


/-! ### the invariant and its closure under the core operations -/

/-- links clause, and — for the repaired `remove_entry_and_descendants`, as long as neither bad pattern
    occurred — the aggregates clause -/
def AggInv (s : Pool) : Prop := LinksOK s ∧ (s.cfg.fixF2 = true → s.ghostBad = false → AggOK s)

theorem removeWithDesc_cfg (s : Pool) (id : Nat) : (removeWithDesc s id).1.cfg = s.cfg :=
  removeWithDesc_of (P := fun x => x.cfg = s.cfg)
    (fun x rid hx => (removeEntry_cfg x rid).trans hx)
    (fun x ids hx => (preSub_ghostBad x ids).2.1.trans hx)
    (fun _ _ hx => hx) s id rfl

theorem aggInv_rm (s : Pool) (id : Nat) (h : AggInv s) : AggInv (removeEntry s id).1 := by
  refine ⟨linksRel_rm h.1 id, ?_⟩
  cases hg : getEntry s id with
  | none => rw [removeEntry_none s id hg]; exact h.2
  | some e =>
    intro hfix hgb
    rw [removeEntry_cfg] at hfix
    rw [removeEntry_ghostBad s id e hg] at hgb
    simp only [Bool.or_eq_false_iff] at hgb
    exact aggOK_rm h.1 (h.2 hfix hgb.1) hg hgb.2

theorem removeWithDesc_ghostBad {s : Pool} (hL : LinksOK s) (id : Nat) :
    (removeWithDesc s id).1.ghostBad = s.ghostBad := by
  unfold removeWithDesc
  simp only
  generalize (id :: (calcDesc s.links id).filter (· ≠ id)) = D
  have h0 : (if s.cfg.fixF2 then preSubDescendants s D else s).ghostBad = s.ghostBad ∧
      (if s.cfg.fixF2 then preSubDescendants s D else s).links = s.links := by
    split
    · exact ⟨(preSub_ghostBad s D).1, (preSub_links s D).1⟩
    · exact ⟨rfl, rfl⟩
  generalize (if s.cfg.fixF2 then preSubDescendants s D else s) = s0 at h0
  obtain ⟨hg, hl⟩ := h0
  have hiso := foldRemove_isolated D { s0 with links := D.foldl removeEntryLinks s0.links } []
    (by
      intro rid hr
      show rid ∉ keys (D.foldl removeEntryLinks s0.links)
      rw [hl, (foldUnlink D s.links hL.struct).2]
      intro hm
      have := (List.mem_filter.mp hm).2
      simp only [decide_eq_true_eq] at this
      exact this hr)
  exact hiso.2.2.1.trans hg

theorem aggInv_rmd (s : Pool) (id : Nat) (h : AggInv s) : AggInv (removeWithDesc s id).1 := by
  refine ⟨linksOK_rmd s id h.1, ?_⟩
  intro hfix hgb
  rw [removeWithDesc_cfg] at hfix
  rw [removeWithDesc_ghostBad h.1] at hgb
  exact (aggOK_rmd h.1 (h.2 hfix hgb) hfix id).1

theorem foldAnc_sum (s : Pool) (l : List Nat) (e : Entry) :
    (l.foldl (fun e a => match getEntry s a with
      | some x => addAnc x.tx.w e
      | none => e) e).anc = e.anc.add (sumW s l) ∧
    (l.foldl (fun e a => match getEntry s a with
      | some x => addAnc x.tx.w e
      | none => e) e).desc = e.desc := by
  induction l generalizing e with
  | nil => exact ⟨(W.add_zero _).symm, rfl⟩
  | cons a l ih =>
    simp only [List.foldl_cons]
    obtain ⟨h1, h2⟩ := ih (match getEntry s a with
      | some x => addAnc x.tx.w e
      | none => e)
    rw [h1, h2, sumW_cons]
    unfold wOf
    cases getEntry s a with
    | none => exact ⟨by rw [W.zero_add], rfl⟩
    | some x => exact ⟨by simp only [addAnc]; rw [W.add_assoc], rfl⟩

/-- what `check_and_record_ancestors` guarantees for the aggregates clause -/
def AncGoodA (s : Pool) (e : Entry) : AncRes → Prop
  | .ok s' e' _ => ∃ s1 P, AggInv s1 ∧ Shrinks s1 s ∧ s' = { s1 with links := addNodeLinks s1.links e.tx.id P } ∧
      e'.tx = e.tx ∧ e'.desc = e.desc ∧
      e'.anc = e.anc.add (sumW s1 (calcRelation (parentsOf s1.links) (keys s1.links) P)) ∧
      P.Nodup ∧ ∀ p ∈ P, p ∈ keys s1.links
  | .panic s' => AggInv s'
  | .rejAfter s' => AggInv s'
  | .rej => True

theorem recordAncestors_goodA {s s0 : Pool} (h : AggInv s) (hs : Shrinks s s0) (e : Entry) (P ev : List Nat) (hn : P.Nodup) :
    AncGoodA s0 e (match recordAncestors s e (calcRelation (parentsOf s.links) (keys s.links) P) P with
      | some (s', e') => AncRes.ok s' e' ev
      | none => AncRes.panic s) := by
  have hk := recordAncestors_goodK h.1 hs e P ev hn
  cases hr : recordAncestors s e (calcRelation (parentsOf s.links) (keys s.links) P) P with
  | none => exact h
  | some r =>
    obtain ⟨s', e'⟩ := r
    rw [hr] at hk
    obtain ⟨s1, P1, _, _, _, hetx, _, _⟩ := hk
    unfold recordAncestors at hr
    split at hr
    · rename_i hall
      simp only [Option.some.injEq, Prod.mk.injEq] at hr
      obtain ⟨hs', he'⟩ := hr
      have hsum := foldAnc_sum s (calcRelation (parentsOf s.links) (keys s.links) P) e
      refine ⟨s, P, h, hs, hs'.symm, hetx, ?_, ?_, hn, ?_⟩
      · rw [← he']; exact hsum.2
      · rw [← he']; exact hsum.1
      · intro p hp
        have hp' := stage_sub_calcRelation (parentsOf s.links) (keys s.links) P p hp
        have := List.all_eq_true.mp hall p hp'
        cases hg : getEntry s p with
        | none => rw [hg] at this; simp at this
        | some x =>
          obtain ⟨hx, hid⟩ := getEntry_some hg
          exact (h.1.keysEq p).mpr ⟨⟨x.tx, List.mem_map.mpr ⟨x, hx, rfl⟩, hid⟩, by simp⟩
    · cases hr

theorem checkAnc_agg {s : Pool} (h : AggInv s) (e : Entry) : AncGoodA s e (checkAndRecordAncestors s e) := by
  unfold checkAndRecordAncestors
  simp only
  split
  · exact recordAncestors_goodA h (Shrinks.refl s) e _ _ (nodup_dedup _)
  · split
    · have hl := evictLoop_of (P := AggInv) aggInv_rmd
        (((byEvictKey s.entries).filter (·.tx.id ∈ (txAncestors s e.tx).2.2)).map (·.tx.id)) s
        ((txAncestors s e.tx).1.length + 1) (txAncestors s e.tx).2.1 [] h
      have hsh := evictLoop_shrinks
        (((byEvictKey s.entries).filter (·.tx.id ∈ (txAncestors s e.tx).2.2)).map (·.tx.id)) s
        ((txAncestors s e.tx).1.length + 1) (txAncestors s e.tx).2.1 []
      have hpn := evictLoop_parents
        (((byEvictKey s.entries).filter (·.tx.id ∈ (txAncestors s e.tx).2.2)).map (·.tx.id)) s
        ((txAncestors s e.tx).1.length + 1) (txAncestors s e.tx).2.1 [] (nodup_dedup _)
      split
      · exact hl
      · split
        · exact recordAncestors_goodA hl hsh e _ _ hpn
        · exact hl
    · trivial

theorem recordDescendants_clean (s : Pool) (e : Entry) (hgb : (recordDescendants s e).ghostBad = false) :
    s.ghostBad = false ∧ (recordDescendants s e).links = s.links ∧
    (recordDescendants s e).entries = modEntries (calcAnc s.links e.tx.id) (addDesc e.tx.w) s.entries := by
  by_cases hc : (findChildren s e.tx).isEmpty = true
  · have : recordDescendants s e =
        { s with entries := modEntries (calcAnc s.links e.tx.id) (addDesc e.tx.w) s.entries } := by
      unfold recordDescendants; simp only [hc, if_true]
    rw [this] at hgb ⊢
    exact ⟨hgb, rfl, rfl⟩
  · have : (recordDescendants s e).ghostBad = true := by
      unfold recordDescendants
      simp only [hc]
      split
      · rename_i hf; cases hf
      · split <;> rfl
    rw [this] at hgb; cases hgb

theorem recordDescendants_cfg (s : Pool) (e : Entry) : (recordDescendants s e).cfg = s.cfg := by
  unfold recordDescendants
  simp only
  split
  · rfl
  · split <;> rfl

theorem aggInv_add (s : Pool) (t : Tx) (st : Status) (ts : Nat) (h : AggInv s) : AggInv (addEntry s t st ts).1 := by
  refine ⟨linksOK_add s t st ts h.1, ?_⟩
  unfold addEntry
  split
  · exact h.2
  · rename_i hdup
    split
    · exact h.2
    · have hg := checkAnc_agg h (Entry.fresh t st ts)
      split
      · exact h.2
      · rename_i s' heq; rw [heq] at hg; exact hg.2
      · rename_i s' heq; rw [heq] at hg; exact hg.2
      · rename_i s2 e ev heq
        rw [heq] at hg
        obtain ⟨s1, P, h1, hsh, hs2, hetx, hedesc, heanc, hPn, hPk⟩ := hg
        have hetx : e.tx = t := hetx
        have hid : (Entry.fresh t st ts).tx.id = t.id := rfl
        rw [hid] at hs2
        simp only [Bool.not_eq_true, Option.isSome_eq_false_iff, Option.isNone_iff_eq_none] at hdup
        have hEk : t.id ∉ keys s1.links := by
          intro hk
          obtain ⟨⟨x, hx, hxid⟩, _⟩ := (h1.1.keysEq t.id).mp hk
          exact getEntry_none hdup x (hsh.2 x hx) hxid
        intro hfix hgb
        simp only [track_ghostBad, track_cfg] at hfix hgb
        rw [recordDescendants_cfg] at hfix
        obtain ⟨hgb3, hl3, he3⟩ := recordDescendants_clean _ e hgb
        subst hs2
        have hA1 : AggOK s1 := h1.2 hfix hgb3
        have hedesc' : e.desc = t.w := hedesc
        have heanc' : e.anc = t.w.add (sumW s1 (calcRelation (parentsOf s1.links) (keys s1.links) P)) := heanc
        refine aggOK_push h1.1 hA1 hEk hPk hPn hetx hedesc' heanc' ?_ ?_
        · simp only [track_links]; rw [hl3]; rfl
        · simp only [track_entries, track_links]
          rw [he3, hl3, hetx]
          rfl

theorem aggOK_congr {s s' : Pool} (he : s'.entries = s.entries) (hl : s'.links = s.links) (h : AggOK s) : AggOK s' := by
  intro e hm
  rw [he] at hm
  obtain ⟨a, b⟩ := h e hm
  have hw : ∀ l, sumW s' l = sumW s l := fun l => sumW_congr l (fun y _ => wOf_congr y (by unfold getEntry; rw [he]))
  rw [hl, hw, hw]; exact ⟨a, b⟩

theorem aggOK_map {s s' : Pool} (f : Entry → Entry)
    (hf : ∀ e, (f e).tx = e.tx ∧ (f e).anc = e.anc ∧ (f e).desc = e.desc)
    (he : s'.entries = s.entries.map f) (hl : s'.links = s.links) (h : AggOK s) : AggOK s' := by
  have htx : txs s' = txs s := by
    simp only [txs, he, List.map_map]
    apply List.map_congr_left; intro x _; exact (hf x).1
  have hw : ∀ l, sumW s' l = sumW s l := fun l => sumW_congr l (fun y _ => wOf_of_txs y (by rw [htx]))
  intro e' he'
  rw [he] at he'
  obtain ⟨e, hem, rfl⟩ := List.mem_map.mp he'
  obtain ⟨a, b⟩ := h e hem
  rw [hl, hw, hw, (hf e).1, (hf e).2.1, (hf e).2.2]
  exact ⟨a, b⟩

theorem aggInv_set (s : Pool) (id : Nat) (st : Status) (h : AggInv s) : AggInv (setEntry s id st) := by
  refine ⟨linksOK_set s id st h.1, ?_⟩
  unfold setEntry
  split
  · exact h.2
  · intro hfix hgb
    simp only [track_cfg, track_ghostBad] at hfix hgb
    refine aggOK_map (fun x => if x.tx.id = id then { x with status := st } else x) ?_ (by simp) (by simp) (h.2 hfix hgb)
    intro e; split <;> exact ⟨rfl, rfl, rfl⟩

theorem aggInv_closed : CoreClosed AggInv where
  rm := aggInv_rm
  rmd := aggInv_rmd
  add := aggInv_add
  set := aggInv_set
  stripIn := fun s i id h _ => aggInv_rmd _ id
    ⟨linksOK_stripIn s i h.1, fun hf hg => aggOK_congr rfl rfl (h.2 hf hg)⟩
  stripDep := fun s i acc h => foldRmd_of (P := AggInv) aggInv_rmd _ _ _
    ⟨linksOK_stripDep s i h.1, fun hf hg => aggOK_congr rfl rfl (h.2 hf hg)⟩


/-! ### the configuration never changes -/

def AncGoodC (c : Cfg) : AncRes → Prop
  | .ok s' _ _ => s'.cfg = c
  | .panic s' => s'.cfg = c
  | .rejAfter s' => s'.cfg = c
  | .rej => True

theorem recordAncestors_cfg {s : Pool} {c : Cfg} (h : s.cfg = c) (e : Entry) (a p ev : List Nat) :
    AncGoodC c (match recordAncestors s e a p with
      | some (s', e') => AncRes.ok s' e' ev
      | none => AncRes.panic s) := by
  cases hr : recordAncestors s e a p with
  | none => exact h
  | some r =>
    obtain ⟨s', e'⟩ := r
    unfold recordAncestors at hr
    split at hr
    · simp only [Option.some.injEq, Prod.mk.injEq] at hr
      rw [← hr.1]; exact h
    · cases hr

theorem cfg_closed (c : Cfg) : CoreClosed (fun s => s.cfg = c) where
  rm := fun s id h => (removeEntry_cfg s id).trans h
  rmd := fun s id h => (removeWithDesc_cfg s id).trans h
  add := by
    intro s t st ts h
    unfold addEntry
    split
    · exact h
    · split
      · exact h
      · have hg : AncGoodC c (checkAndRecordAncestors s (Entry.fresh t st ts)) := by
          unfold checkAndRecordAncestors
          simp only
          split
          · exact recordAncestors_cfg h _ _ _ _
          · split
            · have hl := evictLoop_of (P := fun x => x.cfg = c) (fun x id hx => (removeWithDesc_cfg x id).trans hx)
                (((byEvictKey s.entries).filter (·.tx.id ∈ (txAncestors s (Entry.fresh t st ts).tx).2.2)).map (·.tx.id)) s
                ((txAncestors s (Entry.fresh t st ts).tx).1.length + 1) (txAncestors s (Entry.fresh t st ts).tx).2.1 [] h
              split
              · exact hl
              · split
                · exact recordAncestors_cfg hl _ _ _ _
                · exact hl
            · trivial
        split
        · exact h
        · rename_i s' heq; rw [heq] at hg; exact hg
        · rename_i s' heq; rw [heq] at hg; exact hg
        · rename_i s2 e ev heq
          rw [heq] at hg
          simp only [track_cfg]
          rw [recordDescendants_cfg]
          exact hg
  set := by
    intro s id st h
    unfold setEntry
    split
    · exact h
    · simp only [track_cfg]; exact h
  stripIn := fun s i id h _ => (removeWithDesc_cfg _ id).trans h
  stripDep := fun s i acc h => foldRmd_of (P := fun x => x.cfg = c) (fun x id hx => (removeWithDesc_cfg x id).trans hx) _ _ _ h

end CkbVerif.Pool
