/-
C11 helper lemmas, part 10: the aggregates clause.  For the repaired `remove_entry_and_descendants`
(`fixF2`) and on histories in which neither bad pattern occurred (`ghostBad = false`), every entry's
eight aggregates equal the recomputation from the current links.
-/
import CkbVerif.Lemmas.PoolSum
import CkbVerif.Lemmas.PoolGraph
namespace CkbVerif.Pool

def ancL (L : LinkMap) (x : Nat) : List Nat := (calcAnc L x).filter (· ≠ x)
def descL (L : LinkMap) (x : Nat) : List Nat := (calcDesc L x).filter (· ≠ x)

/-- the aggregates clause: every entry's ancestors / descendants aggregate equals its own weight plus
    the weights of its other ancestors / descendants according to the current links -/
def AggOK (s : Pool) : Prop :=
  ∀ e ∈ s.entries, e.anc = e.tx.w.add (sumW s (ancL s.links e.tx.id)) ∧
    e.desc = e.tx.w.add (sumW s (descL s.links e.tx.id))

theorem aggOK_iff_recompute (s : Pool) :
    AggOK s ↔ ∀ e ∈ s.entries, e.anc = recomputeAnc s e ∧ e.desc = recomputeDesc s e := Iff.rfl

theorem nodup_ancL (L : LinkMap) (x : Nat) : (ancL L x).Nodup := List.Nodup.sublist List.filter_sublist (nodup_calcAnc L x)
theorem nodup_descL (L : LinkMap) (x : Nat) : (descL L x).Nodup := List.Nodup.sublist List.filter_sublist (nodup_calcDesc L x)

theorem mem_ancL {L : LinkMap} (h : LinkStruct L) (x y : Nat) : y ∈ ancL L x ↔ Anc L x y ∧ y ≠ x := by
  unfold ancL; rw [List.mem_filter, mem_calcAnc h]; simp

theorem mem_descL {L : LinkMap} (h : LinkStruct L) (x y : Nat) : y ∈ descL L x ↔ Desc L x y ∧ y ≠ x := by
  unfold descL; rw [List.mem_filter, mem_calcDesc h]; simp

theorem calcRelation_nil (g : Nat → List Nat) (ns : List Nat) : calcRelation g ns [] = [] := by
  unfold calcRelation
  generalize ns.length + ([] : List Nat).length + 1 = f
  have : dedup ([] : List Nat) = [] := rfl
  rw [this]
  cases f with
  | zero => rfl
  | succ n => unfold saturate; simp [expand, union, dedup]

theorem calcAnc_nil_of_not_key {L : LinkMap} {x : Nat} (h : x ∉ keys L) : calcAnc L x = [] := by
  unfold calcAnc; rw [parentsOf_nil_of_not_key h]; exact calcRelation_nil _ _

theorem calcDesc_nil_of_not_key {L : LinkMap} {x : Nat} (h : x ∉ keys L) : calcDesc L x = [] := by
  unfold calcDesc; rw [childrenOf_nil_of_not_key h]; exact calcRelation_nil _ _

/-! ### looking entries up by id only depends on the transactions -/

theorem getEntry_tx (s : Pool) (y : Nat) : (getEntry s y).map (·.tx) = (txs s).find? (·.id = y) := by
  unfold getEntry txs
  rw [List.find?_map]
  rfl

theorem wOf_of_txs {s s' : Pool} (y : Nat) (h : (txs s).find? (·.id = y) = (txs s').find? (·.id = y)) : wOf s y = wOf s' y :=
  wOf_congr y (by rw [getEntry_tx, getEntry_tx, h])

theorem find?_filter_ne (l : List Tx) (r y : Nat) (h : y ≠ r) :
    (l.filter (·.id ≠ r)).find? (·.id = y) = l.find? (·.id = y) := by
  induction l with
  | nil => rfl
  | cons a l ih =>
    rw [List.filter_cons]
    by_cases ha : a.id = r
    · have : decide (a.id ≠ r) = false := by simp [ha]
      rw [this]
      have hay : ¬ a.id = y := fun e => h (e ▸ ha)
      simp only [Bool.false_eq_true, if_false, List.find?_cons, hay, decide_false]
      exact ih
    · have : decide (a.id ≠ r) = true := by simp [ha]
      rw [this]
      simp only [if_true, List.find?_cons]
      rw [ih]

theorem find?_filter_notin (l : List Tx) (D : List Nat) (y : Nat) (h : y ∉ D) :
    (l.filter (·.id ∉ D)).find? (·.id = y) = l.find? (·.id = y) := by
  induction l with
  | nil => rfl
  | cons a l ih =>
    rw [List.filter_cons]
    by_cases ha : a.id ∈ D
    · have : decide (a.id ∉ D) = false := by simp [ha]
      rw [this]
      have hay : ¬ a.id = y := fun e => h (e ▸ ha)
      simp only [Bool.false_eq_true, if_false, List.find?_cons, hay, decide_false]
      exact ih
    · have : decide (a.id ∉ D) = true := by simp [ha]
      rw [this]
      simp only [if_true, List.find?_cons]
      rw [ih]

theorem find?_append_fresh (l : List Tx) (t : Tx) (y : Nat) (h : y ≠ t.id) :
    (l ++ [t]).find? (·.id = y) = l.find? (·.id = y) := by
  rw [List.find?_append]
  have : ¬ t.id = y := fun e => h e.symm
  cases l.find? (·.id = y) <;> simp [this]


/-! ### ancestors / descendants after the graph edits -/

theorem rt_succ_or_eq {g : Nat → List Nat} {x z : Nat} (h : RT g x z) : z = x ∨ ∃ a, z ∈ g a := by
  induction h with
  | refl => exact Or.inl rfl
  | @step a b c hb _ ih =>
    rcases ih with e | e
    · exact Or.inr ⟨a, e ▸ hb⟩
    · exact Or.inr e

theorem rt_iff_eq_or_anc (L : LinkMap) (p x : Nat) : RT (parentsOf L) p x ↔ x = p ∨ Anc L p x := by
  constructor
  · intro h
    cases h with
    | refl => exact Or.inl rfl
    | step hb hr => exact Or.inr ⟨_, hb, hr⟩
  · rintro (e | ⟨q, hq, hr⟩)
    · rw [e]; exact .refl _
    · exact .step hq hr

theorem mem_parentsOf_rm {L : LinkMap} (h : LinkStruct L) (r z w : Nat) :
    w ∈ parentsOf (removeEntryLinks L r) z ↔ z ≠ r ∧ w ∈ parentsOf L z ∧ w ≠ r := by
  rw [parentsOf_removeEntryLinks h]
  by_cases hz : z = r
  · simp [hz]
  · simp [hz, List.mem_filter]

theorem mem_childrenOf_rm {L : LinkMap} (h : LinkStruct L) (r z w : Nat) :
    w ∈ childrenOf (removeEntryLinks L r) z ↔ z ≠ r ∧ w ∈ childrenOf L z ∧ w ≠ r := by
  rw [childrenOf_removeEntryLinks h]
  by_cases hz : z = r
  · simp [hz]
  · simp [hz, List.mem_filter]

/-- `r` (not between) is unlinked: the other nodes keep their ancestors except `r` -/
theorem anc_after_rm {L : LinkMap} (h : LinkStruct L) {r x y : Nat}
    (hnb : parentsOf L r = [] ∨ childrenOf L r = []) (hx : x ≠ r) :
    Anc (removeEntryLinks L r) x y ↔ Anc L x y ∧ y ≠ r := by
  rcases hnb with hroot | hleaf
  · -- r has no parents: {r} is absorbing along parent links
    have habs : ∀ d ∈ [r], ∀ z ∈ parentsOf L d, z ∈ [r] := by
      intro d hd z hz
      have : d = r := by simpa using hd
      rw [this, hroot] at hz; cases hz
    have hg : ∀ z, z ∉ [r] → ∀ w, w ∈ parentsOf (removeEntryLinks L r) z ↔ w ∈ parentsOf L z ∧ w ∉ [r] := by
      intro z hz w
      have hz' : z ≠ r := by simpa using hz
      rw [mem_parentsOf_rm h]; simp [hz']
    constructor
    · rintro ⟨p, hp, hr⟩
      obtain ⟨_, hp1, hp2⟩ := (mem_parentsOf_rm h r x p).mp hp
      obtain ⟨a, b⟩ := (rt_remove habs hg (by simpa using hp2)).mp hr
      exact ⟨⟨p, hp1, a⟩, by simpa using b⟩
    · rintro ⟨⟨p, hp, hr⟩, hy⟩
      have hpr : p ≠ r := by
        intro e
        rw [e] at hr
        cases hr with
        | refl => exact hy rfl
        | step hb _ => rw [hroot] at hb; cases hb
      exact ⟨p, (mem_parentsOf_rm h r x p).mpr ⟨hx, hp, hpr⟩,
        (rt_remove habs hg (by simpa using hpr)).mpr ⟨hr, by simpa using hy⟩⟩
  · -- r has no children: nobody has r as a parent
    have hnp : ∀ z, r ∉ parentsOf L z := by
      intro z hz
      have := (h.sym r z).mp hz
      rw [hleaf] at this; cases this
    have hsame : ∀ p, p ≠ r → ∀ y, RT (parentsOf (removeEntryLinks L r)) p y ↔ RT (parentsOf L) p y := by
      intro p hp y
      apply rt_same
      intro z hz w
      have hzr : z ≠ r := by
        rcases rt_succ_or_eq hz with e | ⟨a, ha⟩
        · rw [e]; exact hp
        · exact fun e => hnp a (e ▸ ha)
      rw [mem_parentsOf_rm h]
      constructor
      · rintro ⟨_, a, _⟩; exact a
      · intro a; exact ⟨hzr, a, fun e => hnp z (e ▸ a)⟩
    constructor
    · rintro ⟨p, hp, hr⟩
      obtain ⟨_, hp1, hp2⟩ := (mem_parentsOf_rm h r x p).mp hp
      have hr' := (hsame p hp2 y).mp hr
      refine ⟨⟨p, hp1, hr'⟩, ?_⟩
      rcases rt_succ_or_eq hr' with e | ⟨a, ha⟩
      · rw [e]; exact hp2
      · exact fun e => hnp a (e ▸ ha)
    · rintro ⟨⟨p, hp, hr⟩, _⟩
      have hpr : p ≠ r := fun e => hnp x (e ▸ hp)
      exact ⟨p, (mem_parentsOf_rm h r x p).mpr ⟨hx, hp, hpr⟩, (hsame p hpr y).mpr hr⟩

theorem desc_after_rm {L : LinkMap} (h : LinkStruct L) {r x y : Nat}
    (hnb : parentsOf L r = [] ∨ childrenOf L r = []) (hx : x ≠ r) :
    Desc (removeEntryLinks L r) x y ↔ Desc L x y ∧ y ≠ r := by
  have h' := h.removeEntryLinks r
  rw [desc_iff_anc h', desc_iff_anc h]
  by_cases hy : y = r
  · subst hy
    constructor
    · rintro ⟨p, hp, _⟩
      exact absurd rfl ((mem_parentsOf_rm h y y p).mp hp).1
    · rintro ⟨_, hne⟩; exact absurd rfl hne
  · rw [anc_after_rm h hnb hy]
    constructor
    · rintro ⟨a, _⟩; exact ⟨a, hy⟩
    · rintro ⟨a, _⟩; exact ⟨a, hx⟩


/-! ### remove_entry (not between) keeps the aggregates right -/

theorem mem_modEntries_iff {ids : List Nat} {f : Entry → Entry} {es : List Entry} {x : Entry} :
    x ∈ modEntries ids f es ↔ ∃ e ∈ es, x = if e.tx.id ∈ ids then f e else e := by
  unfold modEntries
  rw [List.mem_map]
  constructor
  · rintro ⟨e, he, rfl⟩; exact ⟨e, he, rfl⟩
  · rintro ⟨e, he, rfl⟩; exact ⟨e, he, rfl⟩

theorem isBetween_false {L : LinkMap} {r : Nat} (h : isBetween L r = false) :
    parentsOf L r = [] ∨ childrenOf L r = [] := by
  unfold isBetween at h
  simp only [Bool.and_eq_false_iff, Bool.not_eq_eq_eq_not, Bool.not_false, List.isEmpty_iff] at h
  rcases h with h | h
  · left
    cases hp : parentsOf L r with
    | nil => rfl
    | cons a l =>
      have : a ∈ calcAnc L r := stage_sub_calcRelation _ _ _ a (by rw [hp]; exact List.mem_cons_self)
      rw [h] at this; cases this
  · right
    cases hp : childrenOf L r with
    | nil => rfl
    | cons a l =>
      have : a ∈ calcDesc L r := stage_sub_calcRelation _ _ _ a (by rw [hp]; exact List.mem_cons_self)
      rw [h] at this; cases this

/-- one of two sums over lists that differ by the single element `r` -/
theorem sum_minus_one (s s' : Pool) (base wr : W) {A A' : List Nat} {r : Nat} (hA : A.Nodup) (hA' : A'.Nodup)
    (hw : ∀ y ∈ A', wOf s' y = wOf s y) (hr : wOf s r = wr)
    (hm : ∀ y, y ∈ A' ↔ y ∈ A ∧ y ≠ r) :
    (if r ∈ A then (base.add (sumW s A)).sub wr else base.add (sumW s A)) = base.add (sumW s' A') := by
  have hc : sumW s' A' = sumW s A' := sumW_congr A' hw
  rw [hc]
  split
  · rename_i hin
    have hrA' : r ∉ A' := fun hx => ((hm r).mp hx).2 rfl
    have : sumW s A = (sumW s A').add (wOf s r) := by
      apply sumW_insert s hA' hA hrA'
      intro y
      rw [hm y]
      constructor
      · intro hy
        by_cases e : y = r
        · exact Or.inr e
        · exact Or.inl ⟨hy, e⟩
      · rintro (⟨a, _⟩ | e)
        · exact a
        · rw [e]; exact hin
    rw [this, hr, W.add_add_sub_cancel]
  · rename_i hnin
    congr 1
    apply sumW_ext s hA hA'
    intro y
    rw [hm y]
    constructor
    · intro hy; exact ⟨hy, fun e => hnin (e ▸ hy)⟩
    · rintro ⟨a, _⟩; exact a

theorem aggOK_rm {s : Pool} (hL : LinksOK s) (hA : AggOK s) {r : Nat} {er : Entry} (hg : getEntry s r = some er)
    (hb : isBetween s.links r = false) : AggOK (removeEntry s r).1 := by
  have hst := hL.struct
  have hst' := hst.removeEntryLinks r
  have hnb := isBetween_false hb
  obtain ⟨her, herid⟩ := getEntry_some hg
  have hwr : wOf s r = er.tx.w := by unfold wOf; rw [hg]
  have htxs := (removeEntry_txs s r er hg).1
  have hw : ∀ y, y ≠ r → wOf (removeEntry s r).1 y = wOf s y := by
    intro y hy
    apply wOf_of_txs
    rw [htxs]; exact find?_filter_ne _ _ _ hy
  intro e' he'
  rw [removeEntry_entries_plain s r er hg hb] at he'
  rw [removeEntry_links s r er hg]
  obtain ⟨e1, he1, rfl⟩ := mem_modEntries_iff.mp he'
  obtain ⟨e, he, rfl⟩ := mem_modEntries_iff.mp he1
  obtain ⟨hem, hne⟩ := List.mem_filter.mp he
  have hxr : e.tx.id ≠ r := by simpa using hne
  obtain ⟨hanc, hdesc⟩ := hA e hem
  -- membership of r in the old lists, in terms of what the code tests
  have hrA : r ∈ ancL s.links e.tx.id ↔ e.tx.id ∈ calcDesc s.links r := by
    rw [mem_ancL hst, mem_calcDesc hst, desc_iff_anc hst]
    exact ⟨fun a => a.1, fun a => ⟨a, fun e' => hxr e'.symm⟩⟩
  have hrD : r ∈ descL s.links e.tx.id ↔ e.tx.id ∈ calcAnc s.links r := by
    rw [mem_descL hst, mem_calcAnc hst, desc_iff_anc hst]
    exact ⟨fun a => a.1, fun a => ⟨a, fun e' => hxr e'.symm⟩⟩
  have hmA : ∀ y, y ∈ ancL (removeEntryLinks s.links r) e.tx.id ↔ y ∈ ancL s.links e.tx.id ∧ y ≠ r := by
    intro y
    rw [mem_ancL hst', mem_ancL hst, anc_after_rm hst hnb hxr]
    constructor
    · rintro ⟨⟨a, b⟩, c⟩; exact ⟨⟨a, c⟩, b⟩
    · rintro ⟨⟨a, c⟩, b⟩; exact ⟨⟨a, b⟩, c⟩
  have hmD : ∀ y, y ∈ descL (removeEntryLinks s.links r) e.tx.id ↔ y ∈ descL s.links e.tx.id ∧ y ≠ r := by
    intro y
    rw [mem_descL hst', mem_descL hst, desc_after_rm hst hnb hxr]
    constructor
    · rintro ⟨⟨a, b⟩, c⟩; exact ⟨⟨a, c⟩, b⟩
    · rintro ⟨⟨a, c⟩, b⟩; exact ⟨⟨a, b⟩, c⟩
  have sA := sum_minus_one s (removeEntry s r).1 e.tx.w er.tx.w (nodup_ancL _ _) (nodup_ancL _ _)
    (fun y hy => hw y ((hmA y).mp hy).2) hwr hmA
  have sD := sum_minus_one s (removeEntry s r).1 e.tx.w er.tx.w (nodup_descL _ _) (nodup_descL _ _)
    (fun y hy => hw y ((hmD y).mp hy).2) hwr hmD
  rw [← hanc] at sA
  rw [← hdesc] at sD
  -- now read the two fields of the twice-modified entry
  by_cases h1 : e.tx.id ∈ calcAnc s.links r <;> by_cases h2 : e.tx.id ∈ calcDesc s.links r
  all_goals simp only [h1, h2, if_true, if_false, subDesc, subAnc]
  all_goals (constructor)
  all_goals first
    | (rw [← sA]; simp only [hrA.mpr h2, if_true])
    | (rw [← sA]; simp only [mt hrA.mp h2, if_false])
    | (rw [← sD]; simp only [hrD.mpr h1, if_true])
    | (rw [← sD]; simp only [mt hrD.mp h1, if_false])

end CkbVerif.Pool
