import CkbVerif.Lemmas.SchedBook
namespace CkbVerif.SchedBook
open CkbVerif.Gen.Cycles

theorem mem_of_mget {α : Type} (l : List (Nat × α)) (a : Nat) (v : α) (h : mget a l = some v) : (a, v) ∈ l := by
  induction l with
  | nil => simp [mget] at h
  | cons q l ih =>
    obtain ⟨b, w⟩ := q
    by_cases e : a = b
    · subst e; simp [mget] at h; subst h; exact List.mem_cons_self
    · simp only [mget, e, if_false] at h; exact List.mem_cons_of_mem _ (ih h)

/-- every VM that waits for a write has the other end of its pipe open -/
def OkW (fds : List (Nat × Nat)) (o : Option VmState) : Prop :=
  ∀ fd c len, o = some (.waitWrite fd c len) → mhas (otherFd fd) fds = true

theorem OkW_insert (fds : List (Nat × Nat)) (l : List (Nat × VmState)) (k : Nat) (v : VmState)
    (hv : OkW fds (some v)) (x : Nat) (hx : OkW fds (mget x l)) : OkW fds (mget x (minsert k v l)) := by
  rw [mget_minsert]
  by_cases e : x = k
  · simp only [e, if_true]; exact hv
  · simp only [e, if_false]; exact hx

theorem OkW_runnable (fds : List (Nat × Nat)) : OkW fds (some .runnable) := by
  intro fd c len h; cases h

theorem serveClosed_okW : ∀ (l : List Nat) (s t : Sch), serveClosed l s = .ok t →
    t.fds = s.fds ∧ (∀ x, OkW s.fds (mget x s.states) → OkW s.fds (mget x t.states)) ∧
    (∀ x ∈ l, OkW s.fds (mget x t.states)) := by
  intro l
  induction l with
  | nil => intro s t h; simp [serveClosed] at h; subst h; exact ⟨rfl, fun _ h => h, by simp⟩
  | cons vm rest ih =>
    intro s t h
    unfold serveClosed at h
    have step : ∀ s1 : Sch, ensureInst [vm] s = .ok s1 →
        serveClosed rest { s1 with states := minsert vm .runnable s1.states } = .ok t →
        t.fds = s.fds ∧ (∀ x, OkW s.fds (mget x s.states) → OkW s.fds (mget x t.states)) ∧
          (∀ x ∈ vm :: rest, OkW s.fds (mget x t.states)) := by
      intro s1 he h'
      have hc := ensureInst_core he
      have hst : s1.states = s.states := hc.2.2.2.1
      have hfd : s1.fds = s.fds := hc.2.2.2.2.1
      obtain ⟨k0, k2, k3⟩ := ih _ t h'
      simp only [hfd] at k0 k2 k3
      refine ⟨k0, fun x hx => k2 x (by rw [hst]; exact OkW_insert _ _ _ _ (OkW_runnable _) x hx), ?_⟩
      intro x hx
      rcases List.mem_cons.mp hx with e | e
      · subst e
        apply k2
        rw [mget_minsert]; simp only [if_true]; exact OkW_runnable _
      · exact k3 x e
    split at h
    · split at h
      · cases h
      · rename_i s1 he; exact step s1 he h
    · split at h
      · cases h
      · rename_i s1 he; exact step s1 he h
    · rename_i hne1 hne2
      obtain ⟨k0, k2, k3⟩ := ih s t h
      refine ⟨k0, k2, ?_⟩
      intro x hx
      rcases List.mem_cons.mp hx with e | e
      · subst e
        apply k2
        intro fd c len hh
        exact absurd hh (hne2 fd c len)
      · exact k3 x e

theorem servePairs_okW : ∀ (l : List Pair) (s t : Sch), (∀ p ∈ l, mhas (otherFd p.wfd) s.fds = true) →
    servePairs l s = .ok t →
    t.fds = s.fds ∧ (∀ x, OkW s.fds (mget x s.states) → OkW s.fds (mget x t.states)) := by
  intro l
  induction l with
  | nil => intro s t _ h; simp [servePairs] at h; subst h; exact ⟨rfl, fun _ h => h⟩
  | cons p rest ih =>
    intro s t hp h
    unfold servePairs at h
    split at h
    · cases h
    · rename_i s1 he
      simp only at h
      have hc := ensureInst_core he
      have hst : s1.states = s.states := hc.2.2.2.1
      have hfd : s1.fds = s.fds := hc.2.2.2.2.1
      have hopen := hp p List.mem_cons_self
      have hrest : ∀ q ∈ rest, mhas (otherFd q.wfd) s.fds = true := fun q hq => hp q (List.mem_cons_of_mem _ hq)
      have hw : OkW s.fds (some (.waitWrite p.wfd (p.consumed + min p.rlen (p.wlen - p.consumed)) p.wlen)) := by
        intro fd c len hh; cases hh; exact hopen
      split at h
      · obtain ⟨k0, k2⟩ := ih _ t (by simp only [hfd]; exact hrest) h
        simp only [hfd] at k0 k2
        refine ⟨k0, fun x hx => k2 x ?_⟩
        apply OkW_insert _ _ _ _ (OkW_runnable _)
        rw [hst]
        exact OkW_insert _ _ _ _ (OkW_runnable _) x hx
      · obtain ⟨k0, k2⟩ := ih _ t (by simp only [hfd]; exact hrest) h
        simp only [hfd] at k0 k2
        refine ⟨k0, fun x hx => k2 x ?_⟩
        apply OkW_insert _ _ _ _ hw
        rw [hst]
        exact OkW_insert _ _ _ _ (OkW_runnable _) x hx

theorem ioPairs_open (s : Sch) : ∀ p ∈ ioPairs s, mhas (otherFd p.wfd) s.fds = true ∧
    (p.writer, VmState.waitWrite p.wfd p.consumed p.wlen) ∈ s.states := by
  intro p hp
  unfold ioPairs at hp
  obtain ⟨⟨x, st⟩, hm, hf⟩ := List.mem_filterMap.mp hp
  cases st with
  | waitWrite fd c len =>
    simp only at hf
    by_cases ho : mhas (otherFd fd) s.fds = true
    · simp only [ho, if_true] at hf
      split at hf
      · simp only [Option.some.injEq] at hf
        subst hf
        exact ⟨ho, hm⟩
      · cases hf
    · simp [ho] at hf
  | runnable => simp at hf
  | terminated => simp at hf
  | wait _ => simp at hf
  | waitRead _ _ => simp at hf

/-- after `process_io` no VM waits for a write on a pipe whose read end is closed -/
theorem processIo_no_closed_writer (s t : Sch) (hk : KS s.states) (h : processIo s = .ok t) :
    closedWriters t = [] := by
  have hio := processIo_ioStep s t h
  have hfd : t.fds = s.fds := hio.2.2.2.1
  unfold processIo at h
  simp only at h
  split at h
  · cases h
  · rename_i s1 he
    obtain ⟨a1, _, _⟩ := serveClosed_post _ _ s1 (show KS ({ s with log := Out.ioScan (closedReaders s ++ closedWriters s).length (ioPairs s).length :: s.log } : Sch).states from hk) he
    obtain ⟨b1, _⟩ := servePairs_post _ s1 t a1 h
    obtain ⟨c0, c1, c2⟩ := serveClosed_okW _ _ s1 he
    simp only at c0 c1 c2
    obtain ⟨d0, d1⟩ := servePairs_okW _ s1 t (by intro p hp; rw [c0]; exact (ioPairs_open s p hp).1) h
    rw [c0] at d1
    -- every VM is fine after the first loop
    have hall : ∀ x, OkW s.fds (mget x s1.states) := by
      intro x
      by_cases hx : OkW s.fds (mget x s.states)
      · exact c1 x hx
      · apply c2 x
        apply List.mem_append_right
        -- x waits for a write on a closed end in s
        have : ∃ fd c len, mget x s.states = some (.waitWrite fd c len) ∧ mhas (otherFd fd) s.fds ≠ true := by
          apply Classical.byContradiction
          intro hn
          apply hx
          intro fd c len hh
          apply Classical.byContradiction
          intro ho
          exact hn ⟨fd, c, len, hh, ho⟩
        obtain ⟨fd, c, len, hm, ho⟩ := this
        unfold closedWriters
        apply List.mem_filterMap.mpr
        refine ⟨(x, .waitWrite fd c len), mem_of_mget _ _ _ hm, ?_⟩
        simp [ho]
    apply List.eq_nil_iff_forall_not_mem.mpr
    intro vm hvm
    unfold closedWriters at hvm
    obtain ⟨⟨x, st⟩, hp, hf⟩ := List.mem_filterMap.mp hvm
    cases st with
    | waitWrite fd c len =>
      simp only at hf
      by_cases ho : mhas (otherFd fd) t.fds = true
      · simp [ho] at hf
      · have := d1 x (hall x) fd c len (mget_of_mem _ b1 x _ hp)
        rw [hfd] at ho
        exact ho this
    | runnable => simp at hf
    | terminated => simp at hf
    | wait _ => simp at hf
    | waitRead _ _ => simp at hf

end CkbVerif.SchedBook
