import CkbVerif.Lemmas.IndexerRbS1

/-! The rollback batch split by position in the Header row's transaction list (C18). -/
namespace CkbVerif.Indexer

variable {s : Store} {b : Block}

/-- transaction indices grow along the stored list -/
theorem hdrList_mono (s : Store) (b : Block) (p1 p2 : Nat) (e1 e2 : Nat × Nat × Option Nat)
    (h1 : (hdrList s b)[p1]? = some e1) (h2 : (hdrList s b)[p2]? = some e2) (hle : p1 ≤ p2) :
    e1.2.2.getD p1 ≤ e2.2.2.getD p2 := by
  unfold hdrList at h1 h2
  split at h1
  · rename_i hlen
    rw [if_pos hlen] at h2
    have hnone : ∀ (p : Nat) (e : Nat × Nat × Option Nat), ((matchedTxs s b).map fun (h, n, _) => (h, n, (none : Option Nat)))[p]? = some e →
        e.2.2 = none := by
      intro p e he
      rw [List.getElem?_map] at he
      cases hx : (matchedTxs s b)[p]? with
      | none => simp [hx] at he
      | some x => simp only [hx, Option.map_some, Option.some.injEq] at he; subst he; rfl
    rw [hnone p1 e1 h1, hnone p2 e2 h2]
    simpa using hle
  · rename_i hlen
    rw [if_neg hlen] at h2
    rw [matchedTxs_eq] at h1 h2
    rcases Nat.lt_or_ge p1 p2 with hlt | hge
    · have hpw : List.Pairwise (fun (a a' : Nat × Nat × Option Nat) => a.2.2.getD 0 < a'.2.2.getD 0)
          (b.txs.zipIdx.filterMap (fun x =>
            if txMatched s b x.2 x.1 then some (x.1.id, x.1.outputs.length, some x.2) else none)) := by
        apply List.Pairwise.filterMap (R := fun (a a' : Tx × Nat) => a.2 < a'.2)
        · intro a a' hlt' c hc c' hc'
          split at hc <;> split at hc' <;> simp at hc hc'
          subst hc; subst hc'
          simpa using hlt'
        · rw [List.pairwise_iff_getElem]
          intro i j hi hj hij
          simp only [List.getElem_zipIdx]
          omega
      rw [List.pairwise_iff_getElem] at hpw
      obtain ⟨hb1, hv1⟩ := List.getElem?_eq_some_iff.mp h1
      obtain ⟨hb2, hv2⟩ := List.getElem?_eq_some_iff.mp h2
      have := hpw p1 p2 hb1 hb2 hlt
      rw [hv1, hv2] at this
      -- entries of the filtered list carry `some i`
      have hsome : ∀ (p : Nat) (e : Nat × Nat × Option Nat), (b.txs.zipIdx.filterMap (fun x =>
            if txMatched s b x.2 x.1 then some (x.1.id, x.1.outputs.length, some x.2) else none))[p]? = some e →
          ∃ i, e.2.2 = some i := by
        intro p e he
        have hm := List.mem_of_getElem? he
        rw [List.mem_filterMap] at hm
        obtain ⟨x, _, hx⟩ := hm
        split at hx
        · cases hx; exact ⟨_, rfl⟩
        · cases hx
      obtain ⟨i1, hi1⟩ := hsome p1 e1 h1
      obtain ⟨i2, hi2⟩ := hsome p2 e2 h2
      rw [hi1, hi2] at this ⊢
      simp at this ⊢
      omega
    · have : p1 = p2 := by omega
      subst this
      rw [h1] at h2
      cases h2
      exact Nat.le_refl _

/-- the rollback entries of the list positions `< p` (they come LAST in the batch) -/
def RtxLo (s : Store) (b : Block) (p : Nat) : List BOp :=
  ((hdrList s b).zipIdx.take p).reverse.flatMap fun (e, pos) => rbTxOps (appendCore s b) b.number pos e

def RtxHi (s : Store) (b : Block) (p : Nat) : List BOp :=
  ((hdrList s b).zipIdx.drop p).reverse.flatMap fun (e, pos) => rbTxOps (appendCore s b) b.number pos e

theorem Rtx_split (s : Store) (b : Block) (p : Nat) : Rtx s b = RtxHi s b p ++ RtxLo s b p := by
  unfold Rtx RtxHi RtxLo
  rw [← List.flatMap_append, ← List.reverse_append, List.take_append_drop]

theorem mem_zipIdx_take {α : Type} (l : List α) (p : Nat) (a : α) (i : Nat) :
    (a, i) ∈ l.zipIdx.take p ↔ i < p ∧ l[i]? = some a := by
  rw [List.mem_iff_getElem?]
  constructor
  · rintro ⟨n, hn⟩
    rw [List.getElem?_take] at hn
    split at hn
    · rename_i hlt
      rw [List.getElem?_zipIdx] at hn
      cases h : l[n]? with
      | none => simp [h] at hn
      | some x =>
        simp only [h, Option.map_some, Option.some.injEq, Prod.mk.injEq] at hn
        obtain ⟨rfl, rfl⟩ := hn
        exact ⟨by omega, by simpa using h⟩
    · cases hn
  · rintro ⟨hlt, h⟩
    refine ⟨i, ?_⟩
    rw [List.getElem?_take, if_pos hlt, List.getElem?_zipIdx]
    simp [h]

/-- shapes of the entries of `RtxLo p`: they belong to transactions whose list position is `< p` -/
theorem mem_RtxLo (wf : WFRollback2 s b) (p : Nat) (o : BOp) :
    o ∈ RtxLo s b p ↔ ∃ (pos : Nat) (e : Nat × Nat × Option Nat) (i : Nat) (tx : Tx),
      pos < p ∧ (hdrList s b)[pos]? = some e ∧ e.2.2.getD pos = i ∧
      b.txs[i]? = some tx ∧ txMatched s b i tx = true ∧
      ((∃ (oi : Nat) (out : Output), tx.outputs[oi]? = some out ∧ o ∈ uncreateOps b.number i tx.id oi out) ∨
       (i ≠ 0 ∧ ∃ (ii : Nat) (op : OutPoint) (c : Cell), tx.inputs[ii]? = some op ∧
          Res s b op c ∧ o ∈ unconsumeOps b.number i ii op c) ∨
       o = .del (.txHash tx.id)) := by
  unfold RtxLo
  simp only [List.mem_flatMap]
  constructor
  · rintro ⟨⟨e, pos⟩, hmem, ho⟩
    rw [List.mem_reverse, mem_zipIdx_take] at hmem
    obtain ⟨hlt, hpos⟩ := hmem
    obtain ⟨i, tx, htx, hm, h1, h2, h3⟩ := hdrList_sound s b pos e hpos
    simp only at ho
    rw [rbTxOps_eq, h1, h2, h3] at ho
    exact ⟨pos, e, i, tx, hlt, hpos, h3, htx, hm, (mem_rbTxOpsCore2 wf i tx htx hm o).mp ho⟩
  · rintro ⟨pos, e, i, tx, hlt, hpos, h3, htx, hm, ho⟩
    obtain ⟨i', tx', htx', hm', h1', h2', h3'⟩ := hdrList_sound s b pos e hpos
    have : i' = i := by rw [← h3, ← h3']
    subst this
    rw [htx] at htx'; cases htx'
    refine ⟨(e, pos), by rw [List.mem_reverse, mem_zipIdx_take]; exact ⟨hlt, hpos⟩, ?_⟩
    simp only
    rw [rbTxOps_eq, h1', h2', h3']
    exact (mem_rbTxOpsCore2 wf i' tx htx hm o).mpr ho

theorem mem_Rtx2 (wf : WFRollback2 s b) (o : BOp) :
    o ∈ Rtx s b ↔ ∃ (i : Nat) (tx : Tx), b.txs[i]? = some tx ∧ txMatched s b i tx = true ∧
      ((∃ (oi : Nat) (out : Output), tx.outputs[oi]? = some out ∧ o ∈ uncreateOps b.number i tx.id oi out) ∨
       (i ≠ 0 ∧ ∃ (ii : Nat) (op : OutPoint) (c : Cell), tx.inputs[ii]? = some op ∧
          Res s b op c ∧ o ∈ unconsumeOps b.number i ii op c) ∨
       o = .del (.txHash tx.id)) := by
  unfold Rtx
  simp only [List.mem_flatMap]
  constructor
  · rintro ⟨⟨e, pos⟩, hmem, ho⟩
    rw [List.mem_reverse, List.mem_zipIdx_iff_getElem?] at hmem
    obtain ⟨i, tx, htx, hm, h1, h2, h3⟩ := hdrList_sound s b pos e hmem
    simp only at ho
    rw [rbTxOps_eq, h1, h2, h3] at ho
    exact ⟨i, tx, htx, hm, (mem_rbTxOpsCore2 wf i tx htx hm o).mp ho⟩
  · rintro ⟨i, tx, htx, hm, ho⟩
    obtain ⟨pos, e, hpos, h1, h2, h3⟩ := hdrList_complete s b i tx htx hm
    refine ⟨(e, pos), by rw [List.mem_reverse, List.mem_zipIdx_iff_getElem?]; exact hpos, ?_⟩
    simp only
    rw [rbTxOps_eq, h1, h2, h3]
    exact (mem_rbTxOpsCore2 wf i tx htx hm o).mpr ho

end CkbVerif.Indexer
