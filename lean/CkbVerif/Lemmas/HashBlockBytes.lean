import CkbVerif.Lemmas.HashLayout
import CkbVerif.Lemmas.MoleculeVerify
import CkbVerif.Model.Hash
/-!
# `bodyOfBlock` reads back exactly what the `Block` / `BlockV1` builders wrote (C15)

Connects the abstract `Body` of `Model/Hash.lean` with the byte level: for every well-formed block
value, the body read from its encoding consists of the encodings of its parts.
-/
namespace CkbVerif.Hash
open CkbVerif.Molecule CkbVerif.Gen.Schemas

theorem dynItems_encode_dynvec (it : Schema) (vs : List Val) (hv : wfv (.dynvec it) (.seq vs) = true) :
    dynItems (encode (.dynvec it) (.seq vs)) = some (vs.map (encode it)) := by
  simp only [wfv, Bool.and_eq_true, decide_eq_true_eq] at hv
  simp only [encode]
  cases vs with
  | nil => simp only [List.map_nil]; decide
  | cons v vs =>
    have hne : (v :: vs).map (encode it) ≠ [] := by simp
    have hsz : 4 * (((v :: vs).map (encode it)).length + 1) + ((v :: vs).map (encode it)).flatten.length < 4294967296 := by
      simpa using hv.2
    unfold dynItems
    rw [isEmptyDyn_encDyn _ hne]
    simp only [Bool.false_eq_true, if_false]
    rw [dynHeader_encDyn _ hne hsz, Option.map_some, slices_encDyn _ hne]

/-- items of an encoded fixvec of fixed-size items, as `chunk` reads them -/
theorem chunk_encode_fixvec (it : Schema) (hf : fixed it = true) (vs : List Val)
    (hv : wfv (.fixvec it) (.seq vs) = true) :
    chunk (size it) (num (encode (.fixvec it) (.seq vs))) ((encode (.fixvec it) (.seq vs)).drop 4) = vs.map (encode it) := by
  simp only [wfv, Bool.and_eq_true, decide_eq_true_eq] at hv
  simp only [encode, encFixvec, List.length_map]
  rw [num_le32 _ _ hv.1, drop4_le32]
  have hl : ∀ x ∈ vs.map (encode it), x.length = size it := by
    intro x hx
    obtain ⟨v, hvm, rfl⟩ := List.mem_map.mp hx
    exact encode_length_fixed it v hf (all_mem hv.2 v hvm)
  have := chunk_flatten (size it) (vs.map (encode it)) [] hl
  simpa using this

/-- field 0 of an encoded two-field table -/
theorem tableField0_encode (f0 f1 : Schema) (a b : Val) (hv : wfv (.table [f0, f1]) (.seq [a, b]) = true) :
    tableFieldBytes (encode (.table [f0, f1]) (.seq [a, b])) 0 = some (encode f0 a) := by
  simp only [wfv, wfvL, Bool.and_eq_true, decide_eq_true_eq, Bool.and_true] at hv
  have hne : encodeL [f0, f1] [a, b] ≠ [] := by simp [encodeL]
  have hsz : 4 * ((encodeL [f0, f1] [a, b]).length + 1) + (encodeL [f0, f1] [a, b]).flatten.length < 4294967296 := by
    simpa [encodeL] using hv.2
  simp only [encode, tableFieldBytes, dynHeader_encDyn _ hne hsz, slices_encDyn _ hne]
  simp [encodeL]

/-- an uncle value `(header, proposals)` -/
def uncleVal (u : Val × Val) : Val := Val.seq [u.1, u.2]

/-- the table items the `Block` / `BlockV1` builders write: four declared fields, then `extra` -/
def blockItems (h : Val) (us : List (Val × Val)) (ts ps : List Val) (extra : List Bytes) : List Bytes :=
  encode S.Header h :: encode (.dynvec S.UncleBlock) (.seq (us.map uncleVal)) ::
    encode (.dynvec S.Transaction) (.seq ts) :: encode (.fixvec S.ProposalShortId) (.seq ps) :: extra

/-- what `bodyOfBlock` returns for the bytes the block builders write -/
theorem bodyOfBlock_encDyn (h : Val) (us : List (Val × Val)) (ts ps : List Val) (extra : List Bytes)
    (hus : wfv (.dynvec S.UncleBlock) (.seq (us.map uncleVal)) = true)
    (hts : wfv (.dynvec S.Transaction) (.seq ts) = true)
    (hps : wfv (.fixvec S.ProposalShortId) (.seq ps) = true)
    (hsz : 4 * ((blockItems h us ts ps extra).length + 1) + (blockItems h us ts ps extra).flatten.length < 4294967296) :
    bodyOfBlock (encDyn (blockItems h us ts ps extra)) =
      some (encode S.Header h,
        { txs := ts.map (encode S.Transaction)
          proposals := ps.map (encode S.ProposalShortId)
          uncles := us.map (fun u => encode S.Header u.1)
          extension := extensionOfExtra extra }) := by
  have hne : blockItems h us ts ps extra ≠ [] := by simp [blockItems]
  unfold bodyOfBlock
  simp only [dynHeader_encDyn _ hne hsz, slices_encDyn _ hne]
  simp only [blockItems]
  rw [dynItems_encode_dynvec S.UncleBlock _ hus, dynItems_encode_dynvec S.Transaction ts hts]
  have e3 := chunk_encode_fixvec S.ProposalShortId (by decide +kernel) ps hps
  have hsz10 : size S.ProposalShortId = 10 := by decide +kernel
  rw [hsz10] at e3
  simp only [e3]
  -- uncle header = field 0 of each uncle table
  have hu : (List.map (encode S.UncleBlock) (us.map uncleVal)).map (fun u => (tableFieldBytes u 0).getD [])
      = us.map (fun u => encode S.Header u.1) := by
    simp only [List.map_map]
    apply List.map_congr_left
    intro u hu
    have hw : wfv S.UncleBlock (uncleVal u) = true := by
      simp only [wfv, Bool.and_eq_true] at hus
      exact all_mem hus.1 _ (List.mem_map.mpr ⟨u, hu, rfl⟩)
    have := tableField0_encode S.Header S.ProposalShortIdVec u.1 u.2 (by simpa [S.UncleBlock, uncleVal] using hw)
    simp only [Function.comp, uncleVal]
    show (tableFieldBytes (encode (.table [S.Header, S.ProposalShortIdVec]) (Val.seq [u.1, u.2])) 0).getD [] = _
    rw [this]; rfl
  rw [hu]

/-- `BlockV1` builder then `bodyOfBlock` (read as a compatible `Block`): the extension is present,
its raw data are the bytes of the `Bytes` value — also when they are empty -/
theorem bodyOfBlock_encode_BlockV1 (h : Val) (us : List (Val × Val)) (ts ps : List Val) (ext : Val)
    (hv : wfv S.BlockV1 (.seq [h, .seq (us.map uncleVal), .seq ts, .seq ps, ext]) = true) :
    bodyOfBlock (encode S.BlockV1 (.seq [h, .seq (us.map uncleVal), .seq ts, .seq ps, ext])) =
      some (encode S.Header h,
        { txs := ts.map (encode S.Transaction)
          proposals := ps.map (encode S.ProposalShortId)
          uncles := us.map (fun u => encode S.Header u.1)
          extension := some ((encode S.Bytes ext).drop 4) }) := by
  have hv' := hv
  simp only [S.BlockV1, S.UncleBlockVec, S.TransactionVec, S.ProposalShortIdVec, wfv, wfvL, Bool.and_eq_true, Bool.and_true,
    decide_eq_true_eq] at hv'
  obtain ⟨⟨_, hus, hts, hps, hext⟩, hsz⟩ := hv'
  have henc : encode S.BlockV1 (.seq [h, .seq (us.map uncleVal), .seq ts, .seq ps, ext]) =
      encDyn (blockItems h us ts ps [encode S.Bytes ext]) := by
    simp only [S.BlockV1, S.UncleBlockVec, S.TransactionVec, S.ProposalShortIdVec, encode, encodeL, blockItems]
  rw [henc, bodyOfBlock_encDyn h us ts ps _ (by simpa [wfv] using hus) (by simpa [wfv] using hts) (by simpa [wfv] using hps)
    (by simpa [blockItems, encodeL, S.UncleBlockVec, S.TransactionVec, S.ProposalShortIdVec] using hsz)]
  have hver : verify false (.fixvec .byte) (encode S.Bytes ext) = true := by
    have hd := decode_encode false S.Bytes ext (by decide) hext
    simp only [S.Bytes] at hd ⊢
    rw [verify_eq_decode false (.fixvec .byte) _ (by decide), hd]; rfl
  simp only [extensionOfExtra, hver, if_true]

/-- `Block` builder (no extension field) then `bodyOfBlock`: the extension is absent -/
theorem bodyOfBlock_encode_Block (h : Val) (us : List (Val × Val)) (ts ps : List Val)
    (hv : wfv S.Block (.seq [h, .seq (us.map uncleVal), .seq ts, .seq ps]) = true) :
    bodyOfBlock (encode S.Block (.seq [h, .seq (us.map uncleVal), .seq ts, .seq ps])) =
      some (encode S.Header h,
        { txs := ts.map (encode S.Transaction)
          proposals := ps.map (encode S.ProposalShortId)
          uncles := us.map (fun u => encode S.Header u.1)
          extension := none }) := by
  have hv' := hv
  simp only [S.Block, S.UncleBlockVec, S.TransactionVec, S.ProposalShortIdVec, wfv, wfvL, Bool.and_eq_true, Bool.and_true,
    decide_eq_true_eq] at hv'
  obtain ⟨⟨_, hus, hts, hps⟩, hsz⟩ := hv'
  have henc : encode S.Block (.seq [h, .seq (us.map uncleVal), .seq ts, .seq ps]) =
      encDyn (blockItems h us ts ps []) := by
    simp only [S.Block, S.UncleBlockVec, S.TransactionVec, S.ProposalShortIdVec, encode, encodeL, blockItems]
  rw [henc, bodyOfBlock_encDyn h us ts ps _ (by simpa [wfv] using hus) (by simpa [wfv] using hts) (by simpa [wfv] using hps)
    (by simpa [blockItems, encodeL, S.UncleBlockVec, S.TransactionVec, S.ProposalShortIdVec] using hsz)]
  rfl

end CkbVerif.Hash
