import CkbVerif.Lemmas.MoleculeDyn
/-! Schema-recursive lemmas: sizes, non-emptiness, round trip, canonicity, verify ↔ decode. -/
namespace CkbVerif.Molecule

theorem flatten_map_length_const {α : Type} (f : α → Bytes) (xs : List α) (sz : Nat)
    (h : ∀ x ∈ xs, (f x).length = sz) : ((xs.map f).flatten).length = sz * xs.length := by
  induction xs with
  | nil => simp
  | cons x xs ih =>
    simp only [List.map_cons, List.flatten_cons, List.length_append, List.length_cons]
    rw [h x (by simp), ih (fun y hy => h y (by simp [hy])), Nat.mul_succ]
    omega

/-! ### (A) fixed-size types encode to exactly `size` bytes -/
mutual
theorem encode_length_fixed : ∀ (s : Schema) (v : Val), fixed s = true → wfv s v = true → (encode s v).length = size s
  | .byte, v, _, hv => by
      cases v <;> simp [wfv] at hv
      simp [encode, size]
  | .array it n, v, hf, hv => by
      cases v <;> simp [wfv] at hv
      rename_i vs
      simp only [fixed] at hf
      simp only [encode, size]
      rw [flatten_map_length_const (encode it) vs (size it) (fun x hx => encode_length_fixed it x hf (hv.2 x hx)), hv.1]
  | .struct fs, v, hf, hv => by
      cases v <;> simp [wfv] at hv
      rename_i vs
      simp only [fixed] at hf
      simp only [encode, size]
      exact encodeL_length_fixed fs vs hf hv
  | .fixvec _, _, hf, _ => by simp [fixed] at hf
  | .dynvec _, _, hf, _ => by simp [fixed] at hf
  | .table _, _, hf, _ => by simp [fixed] at hf
  | .option _, _, hf, _ => by simp [fixed] at hf
  | .union _ _, _, hf, _ => by simp [fixed] at hf
theorem encodeL_length_fixed : ∀ (fs : List Schema) (vs : List Val), fixedL fs = true → wfvL fs vs = true →
    ((encodeL fs vs).flatten).length = sizeL fs
  | [], vs, _, hv => by
      cases vs <;> simp [wfvL] at hv
      simp [encodeL, sizeL]
  | f :: fs, vs, hf, hv => by
      cases vs with
      | nil => simp [wfvL] at hv
      | cons v vs =>
        simp only [wfvL, Bool.and_eq_true] at hv
        simp only [fixedL, Bool.and_eq_true] at hf
        simp only [encodeL, sizeL, List.flatten_cons, List.length_append]
        rw [encode_length_fixed f v hf.1 hv.1, encodeL_length_fixed fs vs hf.2 hv.2]
end

theorem encodeL_length : ∀ (fs : List Schema) (vs : List Val), wfvL fs vs = true → (encodeL fs vs).length = fs.length
  | [], vs, hv => by
      cases vs <;> simp [wfvL] at hv
      simp [encodeL]
  | f :: fs, vs, hv => by
      cases vs with
      | nil => simp [wfvL] at hv
      | cons v vs =>
        simp only [wfvL, Bool.and_eq_true] at hv
        simp [encodeL, encodeL_length fs vs hv.2]

theorem encDyn_ne_nil (items : List Bytes) : encDyn items ≠ [] := by
  cases items <;> simp [encDyn, le32]

/-! ### (C) types allowed under `option` never encode to the empty string -/
mutual
theorem encode_ne_nil : ∀ (s : Schema) (v : Val), nonEmpty s = true → wfv s v = true → encode s v ≠ []
  | .byte, v, _, hv => by
      cases v <;> simp [wfv] at hv
      simp [encode]
  | .array it n, v, hn, hv => by
      cases v <;> simp [wfv] at hv
      rename_i vs
      simp only [nonEmpty, Bool.and_eq_true, decide_eq_true_eq] at hn
      cases vs with
      | nil => simp at hv; omega
      | cons x xs =>
        have := encode_ne_nil it x hn.2 (hv.2 x (by simp))
        simp [encode, this]
  | .struct fs, v, hn, hv => by
      cases v <;> simp [wfv] at hv
      rename_i vs
      simp only [nonEmpty] at hn
      simp only [encode]
      exact encodeL_ne_nil fs vs hn hv
  | .fixvec _, v, _, hv => by
      cases v <;> simp [wfv] at hv
      simp [encode, encFixvec, le32]
  | .dynvec _, v, _, hv => by
      cases v <;> simp [wfv] at hv
      simp only [encode]
      exact encDyn_ne_nil _
  | .table _, v, _, hv => by
      cases v <;> simp [wfv] at hv
      simp only [encode]
      exact encDyn_ne_nil _
  | .option _, _, hn, _ => by simp [nonEmpty] at hn
  | .union _ _, v, _, hv => by
      cases v <;> simp [wfv] at hv
      simp [encode, le32]
theorem encodeL_ne_nil : ∀ (fs : List Schema) (vs : List Val), nonEmptyL fs = true → wfvL fs vs = true →
    (encodeL fs vs).flatten ≠ []
  | [], _, hn, _ => by simp [nonEmptyL] at hn
  | f :: fs, vs, hn, hv => by
      cases vs with
      | nil => simp [wfvL] at hv
      | cons v vs =>
        simp only [wfvL, Bool.and_eq_true] at hv
        simp only [nonEmptyL, Bool.or_eq_true] at hn
        simp only [encodeL, List.flatten_cons]
        cases hn with
        | inl h =>
          have := encode_ne_nil f v h hv.1
          simp [this]
        | inr h =>
          have := encodeL_ne_nil fs vs h hv.2
          intro hc
          simp only [List.append_eq_nil_iff] at hc
          exact this hc.2
end

end CkbVerif.Molecule
