import CkbVerif.Lemmas.IndexerAppend

/-! Order-free reasoning about a write batch: when every entry that mentions a key agrees (C18). -/
namespace CkbVerif.Indexer

theorem get_applyOp_put (s : Store) (k : Key) (v : Val) : get (applyOp s (.put k v)) k = some v :=
  get_put_same s k v

theorem get_applyOp_del (s : Store) (k : Key) : get (applyOp s (.del k)) k = none :=
  get_del_same s k

/-- all entries that mention `k` are the same `put k v`, and there is one: the result is `v` -/
theorem get_commit_all_put (ops : List BOp) (s : Store) (k : Key) (v : Val)
    (h1 : ∀ o ∈ ops, o.key = k → o = .put k v) (h2 : ∃ o ∈ ops, o.key = k) :
    get (commit s ops) k = some v := by
  induction ops generalizing s with
  | nil => obtain ⟨o, ho, _⟩ := h2; cases ho
  | cons o r ih =>
    show get (commit (applyOp s o) r) k = some v
    by_cases hr : ∃ o' ∈ r, o'.key = k
    · exact ih _ (fun o' ho' => h1 o' (by simp [ho'])) hr
    · have hr' : ∀ o' ∈ r, o'.key ≠ k := fun o' ho' hk => hr ⟨o', ho', hk⟩
      rw [get_commit_untouched r _ k hr']
      obtain ⟨o', ho', hk'⟩ := h2
      rcases List.mem_cons.mp ho' with rfl | ho'
      · rw [h1 o' (by simp) hk']; exact get_applyOp_put s k v
      · exact absurd hk' (hr' o' ho')

/-- all entries that mention `k` delete it, and there is one: the key is absent -/
theorem get_commit_all_del (ops : List BOp) (s : Store) (k : Key)
    (h1 : ∀ o ∈ ops, o.key = k → o = .del k) (h2 : ∃ o ∈ ops, o.key = k) :
    get (commit s ops) k = none := by
  induction ops generalizing s with
  | nil => obtain ⟨o, ho, _⟩ := h2; cases ho
  | cons o r ih =>
    show get (commit (applyOp s o) r) k = none
    by_cases hr : ∃ o' ∈ r, o'.key = k
    · exact ih _ (fun o' ho' => h1 o' (by simp [ho'])) hr
    · have hr' : ∀ o' ∈ r, o'.key ≠ k := fun o' ho' hk => hr ⟨o', ho', hk⟩
      rw [get_commit_untouched r _ k hr']
      obtain ⟨o', ho', hk'⟩ := h2
      rcases List.mem_cons.mp ho' with rfl | ho'
      · rw [h1 o' (by simp) hk']; exact get_applyOp_del s k
      · exact absurd hk' (hr' o' ho')

/-- order-free summary: if all entries mentioning `k` are `put k v`, the result is `v` or the old value -/
theorem get_commit_puts (ops : List BOp) (s : Store) (k : Key) (v : Val)
    (h1 : ∀ o ∈ ops, o.key = k → o = .put k v) :
    get (commit s ops) k = if (∃ o ∈ ops, o.key = k) then some v else get s k := by
  by_cases h : ∃ o ∈ ops, o.key = k
  · rw [if_pos h]; exact get_commit_all_put ops s k v h1 h
  · rw [if_neg h]; exact get_commit_untouched ops s k (fun o ho hk => h ⟨o, ho, hk⟩)

theorem get_commit_dels (ops : List BOp) (s : Store) (k : Key)
    (h1 : ∀ o ∈ ops, o.key = k → o = .del k) :
    get (commit s ops) k = if (∃ o ∈ ops, o.key = k) then none else get s k := by
  by_cases h : ∃ o ∈ ops, o.key = k
  · rw [if_pos h]; exact get_commit_all_del ops s k h1 h
  · rw [if_neg h]; exact get_commit_untouched ops s k (fun o ho hk => h ⟨o, ho, hk⟩)

end CkbVerif.Indexer
