import CkbVerif.Lemmas.Since

/-!
Spec vocabulary for the C04 since theorems (decoded RFC-17 fields, exact fractions) and the small
lemmas connecting it to the model's bit tests.
-/
namespace CkbVerif.C04
open CkbVerif.Since CkbVerif.Gen.Tx

/-- the RFC-17 bit fields of a since value -/
structure Fields where
  relative : Bool
  metric : Nat
  reserved : Nat
  value : Nat
  deriving Repr, DecidableEq

def decode (s : Nat) : Fields :=
  ⟨decide (s / 2 ^ 63 % 2 = 1), s / 2 ^ 61 % 4, s / 2 ^ 56 % 32, s % 2 ^ 56⟩

/-- exact order and sum of fractions given as (numerator, denominator) with positive denominators -/
def fracLe (a b : Nat × Nat) : Prop := a.1 * b.2 ≤ b.1 * a.2
def fracAdd (a b : Nat × Nat) : Nat × Nat := (a.1 * b.2 + b.1 * a.2, a.2 * b.2)

/-- the base of a relative lock / 0 for an absolute one -/
def baseNumber (f : Fields) (info : Option TxInfo) : Nat :=
  if f.relative then (info.map (·.blockNumber)).getD 0 else 0

/-- the base epoch of a relative lock as an exact fraction / 0 for an absolute one -/
def baseEpoch (f : Fields) (info : Option TxInfo) : Nat × Nat :=
  if f.relative then (match info with | some x => epFrac x.blockEpoch | none => (0, 1)) else (0, 1)

theorem abs_of_decode {s : Nat} : (decode s).relative = false ↔ isAbsolute s = true := by
  rw [isAbsolute_iff]
  unfold decode
  simp only [decide_eq_false_iff_not]
  omega

theorem rel_of_decode {s : Nat} (h : ¬ isAbsolute s = true) : (decode s).relative = true := by
  rcases hr : (decode s).relative with _ | _
  · exact absurd (abs_of_decode.1 hr) h
  · rfl

theorem flagsValid_of {s : Nat} (hfl : (decode s).reserved = 0) (hm : (decode s).metric ≠ 3) :
    flagsValid s = true := (flagsValid_iff s).2 ⟨hfl, hm⟩

theorem sat_cmp (now base v : Nat) (h : now < Since.U64 - 1) :
    now < satAdd base (satMul v TIMESTAMP_SCALE) ↔ now < base + v * 1000 := by
  unfold satAdd satMul TIMESTAMP_SCALE Since.U64 at *
  split <;> split <;> omega


end CkbVerif.C04
