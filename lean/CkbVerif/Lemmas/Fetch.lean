import CkbVerif.Model.Fetch
import CkbVerif.Lemmas.Locate
import CkbVerif.Lemmas.Inflight
/-! Helper lemmas and the requests-side induction for `BlockFetcher::fetch` (C17). -/
namespace CkbVerif.Fetch
open CkbVerif.Skip CkbVerif.Inflight CkbVerif.Gen.Sync

/-- `get_ancestor(..).number_and_hash()` as `fetch` hands it to `update_last_common_header` -/
def envAncNH (e : Env) : Nat → Nat → Option NH := fun b n => (e.anc b n).map (fun h => ((h.number, h.id) : NH))

/-- `fetch.sort_by_key(|header| header.number())` -/
def sortFetched (fetched : List Hdr) : List Hdr := fetched.mergeSort (fun a b => decide (a.number ≤ b.number))

/-- the `should_mark` decision of `fetch` -/
def shouldMark (e : Env) (sorted : List Hdr) : Bool :=
  match sorted.getLast? with
  | some h => decide (h.number - MAX_BLOCKS_IN_TRANSIT_PER_PEER * CHECK_POINT_WINDOW_FACTOR > e.unverifiedTip)
  | none => false

/-- where `fetch` starts and ends its window -/
def fetchStart (e : Env) (lc : NH) : Nat := if e.ibd then e.unverifiedTip + 1 else lc.1 + 1
def fetchEndN (e : Env) (lc : NH) (bk : HIdx) (fetchEnd : Nat) : Nat :=
  min fetchEnd (min bk.number (fetchStart e lc + BLOCK_DOWNLOAD_WINDOW))

/-- Inversion: when `fetch` answers `Some`, it went through every guard, ran the loop to its end, and
the answer / table / peers are exactly the loop's result sorted, chunked and (perhaps) slow-marked. -/
theorem fetch_some_inv (e : Env) (infl : Inflight) (ps : PeersSt) (peer fetchEnd : Nat)
    (cs : List (List Nat)) (infl' : Inflight) (ps' : PeersSt)
    (h : fetch e infl ps peer fetchEnd = (some cs, infl', ps')) :
    ∃ bk ps1 lc infl2 fetched endN2,
      (ps.get peer).bind (·.best) = some bk ∧ bk.td > e.totalDifficulty ∧ peerCanFetch infl peer ≠ 0 ∧
      updateLastCommonHeader (envAncNH e) e.mainHash e.tipNumber ps peer (bk.number, bk.hash) = (ps1, some lc) ∧
      lc ≠ (bk.number, bk.hash) ∧
      fetchLoop e peer (bk.number, bk.hash)
        (min (fetchEndN e lc bk fetchEnd - fetchStart e lc + 1) (peerCanFetch infl peer)) (bk.number + 2)
        (fetchStart e lc) (infl, [], ps1, fetchEndN e lc bk fetchEnd) = (true, (infl2, fetched, ps', endN2)) ∧
      cs = chunks INIT_BLOCKS_IN_TRANSIT_PER_PEER ((sortFetched fetched).length + 1) ((sortFetched fetched).map (·.id)) ∧
      infl' = (if shouldMark e (sortFetched fetched) then markSlow infl2 e.now e.unverifiedTip else infl2) := by
  unfold fetch at h
  split at h
  · simp at h
  split at h
  · simp at h
  rename_i hcan
  split at h
  · simp at h
  rename_i bk hbk
  simp only [] at h
  split at h
  · simp at h
  rename_i htd
  split at h
  · simp at h
  rename_i ps1 lc hup
  split at h
  · simp at h
  rename_i hne
  split at h
  · simp at h
  split at h
  · simp at h
  rename_i infl2 fetched ps2 endN2 hloop
  simp only [Prod.mk.injEq, Option.some.injEq] at h
  obtain ⟨hcs, hinfl, hps⟩ := h
  subst hps
  refine ⟨bk, ps1, lc, infl2, fetched, endN2, hbk, by simpa using htd, by simpa using hcan, hup, hne, hloop, hcs.symm, hinfl.symm⟩
/-- the entry `InflightBlocks::insert` records for a request of header `h` from `peer` -/
def reqEntry (e : Env) (peer : Nat) (h : Hdr) : Blk × Req := (⟨h.number, h.id⟩, { peer := peer, ts := e.now })

/-- the fields of the in-flight table that `fetch`'s inserts never touch -/
def FrameEq (a b : Inflight) : Prop :=
  a.restartNumber = b.restartNumber ∧ a.analyzer = b.analyzer ∧ a.adjustment = b.adjustment ∧
    a.protectNum = b.protectNum

theorem FrameEq.rfl' (a : Inflight) : FrameEq a a := ⟨rfl, rfl, rfl, rfl⟩
theorem FrameEq.trans' {a b c : Inflight} (h1 : FrameEq a b) (h2 : FrameEq b c) : FrameEq a c :=
  ⟨h1.1.trans h2.1, h1.2.1.trans h2.2.1, h1.2.2.1.trans h2.2.2.1, h1.2.2.2.trans h2.2.2.2⟩

/-- `InflightBlocks::insert` on a consistent table: it answers `true` exactly for a block that is not in
flight, and then records exactly the new request; otherwise nothing changes. -/
theorem insert_step {s : Inflight} (hinv : Inflight.Inv s) (now peer : Nat) (b : Blk) :
    ((Inflight.insert s now peer b).2 = true →
      hasState s b = false ∧ (Inflight.insert s now peer b).1.states = (b, { peer := peer, ts := now }) :: s.states) ∧
    ((Inflight.insert s now peer b).2 = false → (Inflight.insert s now peer b).1 = s) ∧
    FrameEq (Inflight.insert s now peer b).1 s := by
  unfold Inflight.insert
  cases hs : hasState s b with
  | true => simp [FrameEq]
  | false =>
    simp only [Bool.false_eq_true, if_false]
    cases hf : s.scheds.find? (fun e => e.1 == peer) with
    | none => simp [FrameEq]
    | some e =>
      obtain ⟨p', sc⟩ := e
      have hmem : (p', sc) ∈ s.scheds := List.mem_of_find?_eq_some hf
      have hnot : sc.hashes.contains b = false := by
        cases hc : sc.hashes.contains b with
        | false => rfl
        | true =>
          have hb : b ∈ sc.hashes := by simpa using hc
          obtain ⟨st, hst, _⟩ := hinv.listed p' sc b hmem hb
          have : b ∈ s.states.map (·.1) := List.mem_map.mpr ⟨(b, st), hst, rfl⟩
          exact absurd this (Inflight.hasState_false hs)
      have hnm : b ∉ sc.hashes := by simpa using hnot
      simp [hnm, FrameEq]

/-- One span of the scan, requests side: the fetched list grows by the headers `new`, each an unstored,
unreceived header reached from the span's top by parent links; the in-flight states grow by exactly their
entries (for `peer`, at `now`), in order; the table stays consistent and its other fields untouched. -/
theorem scanSpan_requests (e : Env) (peer bestN : Nat) : ∀ (k : Nat) (header : Hdr) (infl : Inflight)
    (fetched : List Hdr) (ps : PeersSt) (endN : Nat), Inflight.Inv infl →
    ∃ new, (scanSpan e peer bestN k header (infl, fetched, ps, endN)).2.2.1 = fetched ++ new ∧
      (scanSpan e peer bestN k header (infl, fetched, ps, endN)).2.1.states =
        new.reverse.map (reqEntry e peer) ++ infl.states ∧
      Inflight.Inv (scanSpan e peer bestN k header (infl, fetched, ps, endN)).2.1 ∧
      FrameEq (scanSpan e peer bestN k header (infl, fetched, ps, endN)).2.1 infl ∧
      ∀ h ∈ new, e.stored h.id = false ∧ e.received h.id = false ∧ ∃ j, j < k ∧ walk e.hdr j header = some h := by
  intro k
  induction k with
  | zero =>
    intro header infl fetched ps endN hinv
    exact ⟨[], by simp [scanSpan], by simp [scanSpan], by simpa [scanSpan] using hinv, by simp [scanSpan, FrameEq],
      by intro h hh; cases hh⟩
  | succ k ih =>
    intro header infl fetched ps endN hinv
    unfold scanSpan
    by_cases hs : e.stored header.id = true
    · simp only [hs, if_true]
      exact ⟨[], by simp, by simp, hinv, FrameEq.rfl' _, by intro h hh; cases hh⟩
    · simp only [hs, Bool.false_eq_true, if_false]
      have hs' : e.stored header.id = false := by simpa using hs
      -- the step at `header`
      have step : ∃ new0 : List Hdr,
          (if e.received header.id = true then (infl, fetched)
            else if (Inflight.insert infl e.now peer ⟨header.number, header.id⟩).2 = true then
              ((Inflight.insert infl e.now peer ⟨header.number, header.id⟩).1, fetched ++ [header])
            else ((Inflight.insert infl e.now peer ⟨header.number, header.id⟩).1, fetched)).2 = fetched ++ new0 ∧
          (if e.received header.id = true then (infl, fetched)
            else if (Inflight.insert infl e.now peer ⟨header.number, header.id⟩).2 = true then
              ((Inflight.insert infl e.now peer ⟨header.number, header.id⟩).1, fetched ++ [header])
            else ((Inflight.insert infl e.now peer ⟨header.number, header.id⟩).1, fetched)).1.states =
              new0.reverse.map (reqEntry e peer) ++ infl.states ∧
          Inflight.Inv (if e.received header.id = true then (infl, fetched)
            else if (Inflight.insert infl e.now peer ⟨header.number, header.id⟩).2 = true then
              ((Inflight.insert infl e.now peer ⟨header.number, header.id⟩).1, fetched ++ [header])
            else ((Inflight.insert infl e.now peer ⟨header.number, header.id⟩).1, fetched)).1 ∧
          FrameEq (if e.received header.id = true then (infl, fetched)
            else if (Inflight.insert infl e.now peer ⟨header.number, header.id⟩).2 = true then
              ((Inflight.insert infl e.now peer ⟨header.number, header.id⟩).1, fetched ++ [header])
            else ((Inflight.insert infl e.now peer ⟨header.number, header.id⟩).1, fetched)).1 infl ∧
          ∀ h ∈ new0, h = header ∧ e.received header.id = false := by
        obtain ⟨i1, i2, i3⟩ := insert_step hinv e.now peer ⟨header.number, header.id⟩
        by_cases hr : e.received header.id = true
        · simp only [hr, if_true]
          exact ⟨[], by simp, by simp, hinv, FrameEq.rfl' _, by intro h hh; cases hh⟩
        · simp only [hr, Bool.false_eq_true, if_false]
          by_cases hi : (Inflight.insert infl e.now peer ⟨header.number, header.id⟩).2 = true
          · simp only [hi, if_true]
            refine ⟨[header], rfl, ?_, Inflight.Inv.insert hinv _ _ _, i3, ?_⟩
            · rw [(i1 hi).2]; simp [reqEntry]
            · intro h hh
              have : h = header := by simpa using hh
              exact ⟨this, by simpa using hr⟩
          · simp only [hi, Bool.false_eq_true, if_false]
            have hi' : (Inflight.insert infl e.now peer ⟨header.number, header.id⟩).2 = false := by simpa using hi
            rw [i2 hi']
            exact ⟨[], by simp, by simp, hinv, FrameEq.rfl' _, by intro h hh; cases hh⟩
      generalize (if e.received header.id = true then (infl, fetched)
            else if (Inflight.insert infl e.now peer ⟨header.number, header.id⟩).2 = true then
              ((Inflight.insert infl e.now peer ⟨header.number, header.id⟩).1, fetched ++ [header])
            else ((Inflight.insert infl e.now peer ⟨header.number, header.id⟩).1, fetched)) = r at step
      obtain ⟨new0, s1, s2, s3, s4, s5⟩ := step
      have hnew0 : ∀ h ∈ new0, e.stored h.id = false ∧ e.received h.id = false ∧
          ∃ j, j < k + 1 ∧ walk e.hdr j header = some h := by
        intro h hh
        obtain ⟨rfl, hr⟩ := s5 h hh
        exact ⟨hs', hr, 0, by omega, by simp [walk]⟩
      cases hp : e.hdr header.parent with
      | none =>
        simp only
        exact ⟨new0, s1, s2, s3, s4, hnew0⟩
      | some p =>
        simp only
        obtain ⟨new1, t1, t2, t3, t4, t5⟩ := ih p r.1 r.2 ps endN s3
        refine ⟨new0 ++ new1, ?_, ?_, t3, FrameEq.trans' t4 s4, ?_⟩
        · rw [t1, s1, List.append_assoc]
        · rw [t2, s2, List.reverse_append, List.map_append, List.append_assoc]
        · intro h hh
          rcases List.mem_append.mp hh with h0 | h1
          · exact hnew0 h h0
          · obtain ⟨a, b, j, hj, hw⟩ := t5 h h1
            exact ⟨a, b, j + 1, by omega, by simp [walk, hp, hw]⟩

/-- The whole scan, requests side (every number of spans, every `end` recomputation). -/
theorem fetchLoop_requests (e : Env) (peer : Nat) (best : NH) (nFetch : Nat) : ∀ (fuel start : Nat)
    (infl : Inflight) (fetched : List Hdr) (ps : PeersSt) (endN : Nat), Inflight.Inv infl →
    ∃ new, (fetchLoop e peer best nFetch fuel start (infl, fetched, ps, endN)).2.2.1 = fetched ++ new ∧
      (fetchLoop e peer best nFetch fuel start (infl, fetched, ps, endN)).2.1.states =
        new.reverse.map (reqEntry e peer) ++ infl.states ∧
      Inflight.Inv (fetchLoop e peer best nFetch fuel start (infl, fetched, ps, endN)).2.1 ∧
      FrameEq (fetchLoop e peer best nFetch fuel start (infl, fetched, ps, endN)).2.1 infl ∧
      ∀ h ∈ new, e.stored h.id = false ∧ e.received h.id = false ∧
        ∃ n top j, e.anc best.2 n = some top ∧ walk e.hdr j top = some h := by
  intro fuel
  induction fuel with
  | zero =>
    intro start infl fetched ps endN hinv
    exact ⟨[], by simp [fetchLoop], by simp [fetchLoop], by simpa [fetchLoop] using hinv, by simp [fetchLoop, FrameEq],
      by intro h hh; cases hh⟩
  | succ fuel ih =>
    intro start infl fetched ps endN hinv
    unfold fetchLoop
    simp only []
    split
    · generalize min (endN - start + 1) (nFetch - fetched.length) = span
      cases ha : e.anc best.2 (start + span - 1) with
      | none =>
        simp only
        exact ⟨[], by simp, by simp, hinv, FrameEq.rfl' _, by intro h hh; cases hh⟩
      | some header =>
        simp only
        obtain ⟨new0, s1, s2, s3, s4, s5⟩ := scanSpan_requests e peer best.1 span header infl fetched ps endN hinv
        have hnew0 : ∀ h ∈ new0, e.stored h.id = false ∧ e.received h.id = false ∧
            ∃ n top j, e.anc best.2 n = some top ∧ walk e.hdr j top = some h := by
          intro h hh
          obtain ⟨a, b, j, _, hw⟩ := s5 h hh
          exact ⟨a, b, _, header, j, ha, hw⟩
        generalize scanSpan e peer best.1 span header (infl, fetched, ps, endN) = r at s1 s2 s3 s4
        obtain ⟨ok, infl1, fetched1, ps1, end1⟩ := r
        simp only at s1 s2 s3 s4
        cases ok
        · simp only
          exact ⟨new0, s1, s2, s3, s4, hnew0⟩
        · simp only
          obtain ⟨new1, t1, t2, t3, t4, t5⟩ := ih (start + span) infl1 fetched1 ps1 end1 s3
          refine ⟨new0 ++ new1, ?_, ?_, t3, FrameEq.trans' t4 s4, ?_⟩
          · rw [t1, s1, List.append_assoc]
          · rw [t2, s2, List.reverse_append, List.map_append, List.append_assoc]
          · intro h hh
            rcases List.mem_append.mp hh with h0 | h1
            · exact hnew0 h h0
            · exact t5 h h1
    · exact ⟨[], by simp, by simp, hinv, FrameEq.rfl' _, by intro h hh; cases hh⟩

/-- `slice::chunks` loses nothing: the chunks concatenate to the list -/
theorem chunks_flatten (n : Nat) (hn : 0 < n) : ∀ (fuel : Nat) (l : List Nat), l.length < fuel →
    (chunks n fuel l).flatten = l := by
  intro fuel
  induction fuel with
  | zero => intro l h; omega
  | succ fuel ih =>
    intro l h
    unfold chunks
    cases l with
    | nil => simp
    | cons a t =>
      simp only [List.isEmpty_cons, Bool.false_eq_true, if_false, List.flatten_cons]
      rw [ih _ (by simp only [List.length_drop, List.length_cons] at h ⊢; omega)]
      exact List.take_append_drop n (a :: t)

theorem markSlow_states (s : Inflight) (now tip : Nat) :
    (markSlow s now tip).states = s.states ∧ FrameEq (markSlow s now tip) s ∧
      (markSlow s now tip).scheds = s.scheds := by
  simp [markSlow, FrameEq]

end CkbVerif.Fetch
