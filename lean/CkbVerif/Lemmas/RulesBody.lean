import CkbVerif.Model.RulesBody
import CkbVerif.Lemmas.Rules

/-! Helper lemmas for the structural body model of C03 (`Model/RulesBody.lean`). -/
namespace CkbVerif.Rules
open CkbVerif.Gen.RulesBody

theorem withTxs_number (b : Blk) (txs : List Tx) : (b.withTxs txs).number = b.number := rfl

/-- a transaction that passes `is_cellbase` has exactly one input, and it is the null out-point -/
theorem isCellbase_iff (t : Tx) :
    t.isCellbase = true ↔ ∃ s, t.inputs = [⟨true, s⟩] ∧ t.nWitnesses = 1 := by
  unfold Tx.isCellbase
  cases hi : t.inputs with
  | nil => simp
  | cons i rest =>
    cases rest with
    | nil =>
      obtain ⟨p, s⟩ := i
      cases p <;> simp
    | cons j rest' => simp

/-- the feature-level check of `Model/Rules.lean` on the derived features IS the structural check -/
theorem cellbaseCheck_withTxs (b : Blk) (txs : List Tx) :
    cellbaseCheck (b.withTxs txs) = cellbaseCheckBody b.number txs := by
  unfold cellbaseCheck cellbaseCheckBody
  by_cases h0 : b.number = 0
  · simp [withTxs_number, h0]
  · simp only [withTxs_number, beq_iff_eq, h0, if_false]
    cases txs with
    | nil => simp [Blk.withTxs]
    | cons cb rest =>
      simp only [Blk.withTxs, List.head?_cons, Option.map_some, Option.getD_some, Option.bind_some]
      by_cases hq : (List.filter Tx.isCellbase (cb :: rest)).length = 1
      · simp only [hq, bne_self_eq_false, Bool.false_eq_true, if_false]
        by_cases hc : cb.isCellbase = true
        · obtain ⟨s, hin, _⟩ := (isCellbase_iff cb).mp hc
          simp only [hc, Bool.not_true, Bool.false_eq_true, if_false, hin, List.head?_cons]
          have : (some (⟨true, s⟩ : TxIn) != some ⟨true, b.number⟩) = (s != b.number) := by
            rw [Bool.eq_iff_iff]; simp [bne_iff_ne]
          rw [this]
          simp only [Bool.not_not]
          rfl
        · simp [hc]
      · have : ((List.filter Tx.isCellbase (cb :: rest)).length != 1) = true := by simpa using hq
        simp [this]

/-- exactly one cellbase in the list and it is the first ⇔ the first is one and no other is -/
theorem one_cellbase_first_iff (cb : Tx) (rest : List Tx) :
    ((List.filter Tx.isCellbase (cb :: rest)).length = 1 ∧ cb.isCellbase = true) ↔
      (cb.isCellbase = true ∧ ∀ t ∈ rest, t.isCellbase = false) := by
  constructor
  · rintro ⟨hl, hc⟩
    refine ⟨hc, ?_⟩
    simp only [List.filter_cons, hc, if_true, List.length_cons] at hl
    have h0 : (List.filter Tx.isCellbase rest).length = 0 := by omega
    have hn : List.filter Tx.isCellbase rest = [] := List.eq_nil_of_length_eq_zero h0
    intro t ht
    cases hb : t.isCellbase with
    | false => rfl
    | true =>
      have : t ∈ List.filter Tx.isCellbase rest := List.mem_filter.mpr ⟨ht, hb⟩
      rw [hn] at this; cases this
  · rintro ⟨hc, hr⟩
    refine ⟨?_, hc⟩
    have hn : List.filter Tx.isCellbase rest = [] := by
      apply List.filter_eq_nil_iff.mpr
      intro t ht; simp [hr t ht]
    simp [hc, hn]

theorem hasDup_false_iff_nodup (l : List Nat) : hasDup l = false ↔ l.Nodup := by
  induction l with
  | nil => simp [hasDup]
  | cons x xs ih =>
    simp only [hasDup, Bool.or_eq_false_iff, List.nodup_cons, ih]
    constructor
    · rintro ⟨h1, h2⟩; exact ⟨by simpa using h1, h2⟩
    · rintro ⟨h1, h2⟩; exact ⟨by simpa using h1, h2⟩

end CkbVerif.Rules
