import CkbVerif.Model.Dao

/-! Helper lemmas for `Model/Dao.lean` (C06). Core Lean only. -/
namespace CkbVerif.Dao
open CkbVerif.Arith

theorem ovf_ok {o : Option Nat} {v : Nat} : ovf o = .ok v ↔ o = some v := by
  cases o <;> simp [ovf]

theorem pnc_ok {o : Option Nat} {v : Nat} : pnc o = .ok v ↔ o = some v := by
  cases o <;> simp [pnc]

theorem bind_ok {α β : Type} {x : R α} {f : α → R β} {b : β} :
    (x >>= f) = .ok b ↔ ∃ a, x = .ok a ∧ f a = .ok b := by
  cases x <;> simp [bind, Except.bind]

theorem pure_ok {α : Type} {a b : α} : (pure a : R α) = .ok b ↔ a = b := by
  simp [pure, Except.pure]

theorem chk64_some {x y : Nat} : chk64 x = some y ↔ x < U64 ∧ y = x := chk_eq_some

theorem safeAdd_some {a b y : Nat} : safeAdd a b = some y ↔ a + b < U64 ∧ y = a + b := chk_eq_some

theorem safeSub_some {a b y : Nat} : safeSub a b = some y ↔ b ≤ a ∧ y = a - b := subChk_eq_some

theorem minerIssuance_ok {g2 u c m : Nat} :
    minerIssuance g2 u c = .ok m ↔ c ≠ 0 ∧ g2 * u / c < U64 ∧ m = g2 * u / c := by
  unfold minerIssuance
  simp only [bind_ok, pnc_ok, ovf_ok, divChk_eq_some, chk64_some]
  constructor
  · rintro ⟨q, ⟨h1, rfl⟩, h2, rfl⟩; exact ⟨h1, h2, rfl⟩
  · rintro ⟨h1, h2, rfl⟩; exact ⟨_, ⟨h1, rfl⟩, h2, rfl⟩

/-- complete characterisation of a successful `daoUpdate` -/
theorem daoUpdate_ok {p d : DaoField} {primary g2 added freed interests : Nat} :
    daoUpdate p primary g2 added freed interests = .ok d ↔
      p.c ≠ 0 ∧ primary + g2 < U64 ∧ g2 * p.u / p.c ≤ g2 ∧
      p.c + (primary + g2) < U64 ∧ p.u + added < U64 ∧ freed ≤ p.u + added ∧
      p.s + (g2 - g2 * p.u / p.c) < U64 ∧ interests ≤ p.s + (g2 - g2 * p.u / p.c) ∧
      p.ar * g2 / p.c < U64 ∧ p.ar + p.ar * g2 / p.c < U64 ∧ g2 * p.u / p.c < U64 ∧
      d = { ar := p.ar + p.ar * g2 / p.c, c := p.c + (primary + g2),
            s := p.s + (g2 - g2 * p.u / p.c) - interests, u := p.u + added - freed } := by
  unfold daoUpdate
  simp only [bind_ok, pnc_ok, ovf_ok, divChk_eq_some, chk64_some, safeAdd_some, safeSub_some,
    minerIssuance_ok, pure_ok]
  constructor
  · rintro ⟨g, ⟨h1, rfl⟩, m, ⟨hc, hm, rfl⟩, nd, ⟨h2, rfl⟩, c', ⟨h3, rfl⟩, u1, ⟨h4, rfl⟩, u', ⟨h5, rfl⟩,
      s1, ⟨h6, rfl⟩, s', ⟨h7, rfl⟩, i128, ⟨_, rfl⟩, inc, ⟨h8, rfl⟩, ar', ⟨h9, rfl⟩, rfl⟩
    exact ⟨hc, h1, h2, h3, h4, h5, h6, h7, h8, h9, hm, rfl⟩
  · rintro ⟨hc, h1, h2, h3, h4, h5, h6, h7, h8, h9, hm, rfl⟩
    exact ⟨_, ⟨h1, rfl⟩, _, ⟨hc, hm, rfl⟩, _, ⟨h2, rfl⟩, _, ⟨h3, rfl⟩, _, ⟨h4, rfl⟩, _, ⟨h5, rfl⟩,
      _, ⟨h6, rfl⟩, _, ⟨h7, rfl⟩, _, ⟨hc, rfl⟩, _, ⟨h8, rfl⟩, _, ⟨h9, rfl⟩, rfl⟩

/-! ### little-endian bytes -/

theorem leBytes_length (k n : Nat) : (leBytes k n).length = k := by
  induction k generalizing n with
  | zero => rfl
  | succ k ih => simp [leBytes, ih]

theorem leVal_leBytes (k n : Nat) : leVal (leBytes k n) = n % 256 ^ k := by
  induction k generalizing n with
  | zero => simp [leBytes, leVal, Nat.mod_one]
  | succ k ih =>
    simp only [leBytes, leVal, ih]
    rw [Nat.pow_succ, Nat.mul_comm (256 ^ k) 256, Nat.mod_mul]

theorem leBytes_leVal (bs : List Nat) (h : ∀ b ∈ bs, b < 256) :
    leBytes bs.length (leVal bs) = bs := by
  induction bs with
  | nil => rfl
  | cons b bs ih =>
    have hb : b < 256 := h b (by simp)
    have ih' := ih (fun x hx => h x (by simp [hx]))
    simp only [List.length_cons, leBytes, leVal]
    have h1 : (b + 256 * leVal bs) % 256 = b := by omega
    have h2 : (b + 256 * leVal bs) / 256 = leVal bs := by omega
    rw [h1, h2, ih']

theorem leBytes_lt (k n : Nat) : ∀ b ∈ leBytes k n, b < 256 := by
  induction k generalizing n with
  | zero => simp [leBytes]
  | succ k ih =>
    intro b hb
    simp only [leBytes, List.mem_cons] at hb
    rcases hb with rfl | hb
    · omega
    · exact ih _ b hb


theorem four_blocks (a b c d : List Nat) (ha : a.length = 8) (hb : b.length = 8)
    (hc : c.length = 8) (hd : d.length = 8) :
    ((a ++ b ++ c ++ d).drop 0).take 8 = a ∧ ((a ++ b ++ c ++ d).drop 8).take 8 = b ∧
    ((a ++ b ++ c ++ d).drop 16).take 8 = c ∧ ((a ++ b ++ c ++ d).drop 24).take 8 = d := by
  refine ⟨?_, ?_, ?_, ?_⟩
  · simp [List.append_assoc, ha]
  · rw [List.append_assoc, List.append_assoc, ← ha, List.drop_left, ha, ← hb, List.take_left]
  · have : (a ++ b).length = 16 := by simp [ha, hb]
    rw [List.append_assoc (a ++ b), ← this, List.drop_left, ← hc, List.take_left]
  · have : (a ++ b ++ c).length = 24 := by simp [ha, hb, hc]
    rw [← this, List.drop_left, ← hd, List.take_length]

theorem extract_pack (d : DaoField) (har : d.ar < U64) (hc : d.c < U64) (hs : d.s < U64)
    (hu : d.u < U64) : extract (pack d) = d := by
  obtain ⟨h1, h2, h3, h4⟩ := four_blocks (leBytes 8 d.c) (leBytes 8 d.ar) (leBytes 8 d.s)
    (leBytes 8 d.u) (leBytes_length _ _) (leBytes_length _ _) (leBytes_length _ _) (leBytes_length _ _)
  have e : (256 : Nat) ^ 8 = U64 := by decide
  unfold extract pack
  rw [h1, h2, h3, h4, leVal_leBytes, leVal_leBytes, leVal_leBytes, leVal_leBytes, e,
    Nat.mod_eq_of_lt har, Nat.mod_eq_of_lt hc, Nat.mod_eq_of_lt hs, Nat.mod_eq_of_lt hu]

theorem pack_length (d : DaoField) : (pack d).length = 32 := by
  simp [pack, leBytes_length]

theorem take_drop_split (bs : List Nat) (h : bs.length = 32) :
    bs = (bs.drop 0).take 8 ++ (bs.drop 8).take 8 ++ (bs.drop 16).take 8 ++ (bs.drop 24).take 8 := by
  have h3 : (bs.drop 24).take 8 = bs.drop 24 := by
    apply List.take_of_length_le; simp [h]
  have e1 : (bs.drop 8).take 8 ++ bs.drop 16 = bs.drop 8 := by
    have := List.take_append_drop 8 (bs.drop 8); simpa [List.drop_drop] using this
  have e2 : (bs.drop 16).take 8 ++ bs.drop 24 = bs.drop 16 := by
    have := List.take_append_drop 8 (bs.drop 16); simpa [List.drop_drop] using this
  rw [h3, List.append_assoc, List.append_assoc, e2, e1]
  simp

theorem pack_extract (bs : List Nat) (hl : bs.length = 32) (hb : ∀ b ∈ bs, b < 256) :
    pack (extract bs) = bs := by
  have len : ∀ k, k + 8 ≤ 32 → ((bs.drop k).take 8).length = 8 := by
    intro k hk; simp [hl]; omega
  have lt : ∀ k, ∀ b ∈ (bs.drop k).take 8, b < 256 := by
    intro k b hm; exact hb b (List.mem_of_mem_drop (List.mem_of_mem_take hm))
  have r : ∀ k, k + 8 ≤ 32 → leBytes 8 (leVal ((bs.drop k).take 8)) = (bs.drop k).take 8 := by
    intro k hk
    have := leBytes_leVal ((bs.drop k).take 8) (lt k)
    rwa [len k hk] at this
  unfold pack extract
  simp only
  rw [r 0 (by omega), r 8 (by omega), r 16 (by omega), r 24 (by omega)]
  exact (take_drop_split bs hl).symm

theorem maxWithdrawWith_ok {c : Cell} {dataCap dn da wn wa w : Nat} :
    maxWithdrawWith c dataCap dn da wn wa = .ok w ↔
      dn < wn ∧ ∃ occ, occupiedWith c dataCap = .ok occ ∧ occ ≤ c.cap ∧ da ≠ 0 ∧
        ((c.cap - occ) * wa / da) % U64 + occ < U64 ∧
        w = ((c.cap - occ) * wa / da) % U64 + occ := by
  unfold maxWithdrawWith
  by_cases h : dn ≥ wn
  · simp [h, bind, Except.bind, throw, throwThe, MonadExceptOf.throw]
    omega
  · simp only [h, if_false, bind_ok, pnc_ok, ovf_ok, divChk_eq_some, safeAdd_some, safeSub_some]
    constructor
    · rintro ⟨occ, ho, counted, ⟨h1, rfl⟩, q, ⟨h2, rfl⟩, h3, rfl⟩
      exact ⟨by omega, occ, ho, h1, h2, h3, rfl⟩
    · rintro ⟨_, occ, ho, h1, h2, h3, rfl⟩
      exact ⟨occ, ho, _, ⟨h1, rfl⟩, _, ⟨h2, rfl⟩, h3, rfl⟩


/-! ### the rule iterated along a chain (spec-level helper for the accounting theorems) -/

/-- the per-block inputs of the rule -/
structure BlockTotals where
  primary : Nat
  g2 : Nat
  added : Nat
  freed : Nat
  interests : Nat
deriving Repr

/-- the header fields of a chain segment: each block's field is the rule applied to its parent's -/
def daoChain (p : DaoField) : List BlockTotals → R DaoField
  | [] => pure p
  | b :: bs => do
    let d ← daoUpdate p b.primary b.g2 b.added b.freed b.interests
    daoChain d bs

def sumOf (f : BlockTotals → Nat) : List BlockTotals → Nat
  | [] => 0
  | b :: bs => f b + sumOf f bs

theorem daoChain_ok {p d : DaoField} {bs : List BlockTotals} (h : daoChain p bs = .ok d) :
    d.c = p.c + sumOf (fun b => b.primary + b.g2) bs ∧
    d.u + sumOf (·.freed) bs = p.u + sumOf (·.added) bs ∧
    p.ar ≤ d.ar ∧
    d.s + sumOf (·.interests) bs ≤ p.s + sumOf (·.g2) bs := by
  induction bs generalizing p with
  | nil =>
    simp only [daoChain, pure_ok] at h
    subst h; simp [sumOf]
  | cons b bs ih =>
    simp only [daoChain, bind_ok] at h
    obtain ⟨d1, h1, h2⟩ := h
    obtain ⟨i1, i2, i3, i4⟩ := ih h2
    obtain ⟨h0, _, hm, _, _, _, _, _, _, _, _, rfl⟩ := daoUpdate_ok.1 h1
    simp only [sumOf] at *
    generalize b.g2 * p.u / p.c = m at *
    generalize p.ar * b.g2 / p.c = inc at *
    refine ⟨by omega, by omega, by omega, by omega⟩

/-- the miners' secondary rewards along a chain segment: block `i` adds `⌊g2_i·U_{i-1}/C_{i-1}⌋`
(`secondary_block_reward` of that block, paid when it is finalised), computed from the running
parent field -/
def minerSum (p : DaoField) : List BlockTotals → Nat
  | [] => 0
  | b :: bs =>
    b.g2 * p.u / p.c +
      (match daoUpdate p b.primary b.g2 b.added b.freed b.interests with
       | .ok d => minerSum d bs
       | .error _ => 0)

/-- exact split of the issuance along a chain segment -/
theorem daoChain_split {p d : DaoField} {bs : List BlockTotals} (h : daoChain p bs = .ok d) :
    d.s + sumOf (·.interests) bs + minerSum p bs = p.s + sumOf (·.g2) bs ∧
    minerSum p bs ≤ sumOf (·.g2) bs := by
  induction bs generalizing p with
  | nil =>
    simp only [daoChain, pure_ok] at h
    subst h; simp [sumOf, minerSum]
  | cons b bs ih =>
    simp only [daoChain, bind_ok] at h
    obtain ⟨d1, h1, h2⟩ := h
    obtain ⟨i1, i2⟩ := ih h2
    obtain ⟨h0, _, hm, _, _, _, _, hi, _, _, _, hd⟩ := daoUpdate_ok.1 h1
    have hs : d1.s = p.s + (b.g2 - b.g2 * p.u / p.c) - b.interests := by rw [hd]
    simp only [sumOf, minerSum, h1]
    generalize b.g2 * p.u / p.c = m at *
    constructor <;> omega

end CkbVerif.Dao
