/-
Lemmas for `Props/C10Cont.lean`: the data-file limit is invisible to the combined invariant, a clean
restart keeps everything, and runs of whole passes / crashes / restarts / chain-service steps
(`ContRun`) keep the combined invariant.
-/
import CkbVerif.Model.FreezeCont
import CkbVerif.Lemmas.FreezeSys
import CkbVerif.Lemmas.FreezerOpen
namespace CkbVerif.FreezeSys
open CkbVerif.Store CkbVerif.Freeze CkbVerif.Freezer
open CkbVerif.FreezerTop (TopInv Top)

/-- the parameter hypotheses do not mention the limit -/
theorem Codec.Ok.withMax {k : Codec} (ok : k.Ok) (m : Nat) : (k.withMax m).Ok :=
  ⟨⟨ok.cfg.snappy, ok.cfg.codec⟩, ok.body⟩

/-- neither does the combined invariant: `max_size` is read by `append`'s rollover test only -/
theorem sysInv_withMax {k : Codec} {s : Sys} {chain : List Block} (m : Nat) :
    SysInv (k.withMax m) s chain ↔ SysInv k s chain :=
  ⟨fun h => ⟨⟨h.files.good, h.files.handle, h.files.linked, h.files.tip⟩, h.inv, h.durable,
      h.syncedPos, h.syncedLe⟩,
   fun h => ⟨⟨h.files.good, h.files.handle, h.files.linked, h.files.tip⟩, h.inv, h.durable,
      h.syncedPos, h.syncedLe⟩⟩

/-- inside the head's data file offsets only grow: an older entry lies in an older file or ends at or
before the newest entry's end -/
theorem rchain_off_le {files : Nat → Bytes} : ∀ {rev : List Entry} {its : List Bytes} {e : Entry}
    {rest : List Entry}, rev = e :: rest → RChain files rev its →
    ∀ q ∈ rest, q.fid < e.fid ∨ q.off ≤ e.off
  | _, [], e, rest, hr, h => by
    subst hr
    cases rest with
    | nil => intro q hq; cases hq
    | cons p r => simp [RChain] at h
  | _, it :: its, e, rest, hr, h => by
    subst hr
    cases rest with
    | nil => simp [RChain] at h
    | cons p r =>
      intro q hq
      rcases List.mem_cons.mp hq with rfl | hq
      · rcases h.1 with h1 | h1
        · right; omega
        · left; omega
      · have ih := rchain_off_le rfl h.2 q hq
        have hf := RChain.fid_le rfl h.2 q hq
        rcases h.1 with h1 | h1
        · rcases ih with ih | ih
          · left; omega
          · right; omega
        · left; omega

/-- **a clean restart** (`Freezer::open` on the files as they are) succeeds and keeps every item -/
theorem stepReopen_inv {k : Codec} (ok : k.Ok) {s : Sys} {chain : List Block} (h : SysInv k s chain) :
    ∃ t, stepReopen k s = some t ∧ SysInv k t chain ∧ t.rows = s.rows ∧
      t.top.number = s.top.number := by
  have hlen : s.top.d.idx.length = chain.length + 1 := by
    have := h.files.good.idx_length
    simpa using this
  obtain ⟨hd, rest, hrev⟩ := h.files.good.rev_ne_nil
  have hhead := h.files.handle.2 hd rest hrev
  have hhl := h.files.good.headLen hd rest hrev
  have hil : INDEX_ENTRY_SIZE ≤ s.top.d.idxSize := by
    unfold Disk.idxSize
    have : INDEX_ENTRY_SIZE * 1 ≤ INDEX_ENTRY_SIZE * s.top.d.idx.length :=
      Nat.mul_le_mul_left _ (by omega)
    omega
  obtain ⟨t', n, ho, hn, hinv, hsurv⟩ := FreezerTop.crashOpen_spec ok.cfg h.files s.top.d.idxSize
    (some (s.top.d.files s.top.h.headId).length) hil
  rw [up_map_length] at hn
  have hnn : n = chain.length := by
    rcases Nat.eq_zero_or_pos chain.length with h0 | hpos
    · omega
    · have hi : chain.length - 1 + 1 < s.top.d.idx.length := by omega
      have hmem : s.top.d.idx[chain.length - 1 + 1] ∈ s.top.d.idx.reverse :=
        List.mem_reverse.mpr (List.getElem_mem hi)
      have hsv := hsurv (chain.length - 1) (s.top.d.idx[chain.length - 1 + 1])
        (by rw [up_map_length]; omega) (List.getElem?_eq_getElem hi)
        (by
          unfold Disk.idxSize
          have : INDEX_ENTRY_SIZE * (chain.length - 1 + 2) ≤ INDEX_ENTRY_SIZE * s.top.d.idx.length :=
            Nat.mul_le_mul_left _ (by omega)
          omega)
        (by
          rw [hrev] at hmem
          simp only [cutLen]
          rw [hhead.1, hhl]
          rcases List.mem_cons.mp hmem with he | he
          · right; rw [he]; exact Nat.le_refl _
          · exact rchain_off_le hrev h.files.good.chain _ he)
      omega
  subst hnn
  have hinv' : TopInv k.cfg t' (chain.map (up k)) := by
    have e : List.take chain.length (List.map (up k) chain) = List.map (up k) chain :=
      List.take_of_length_le (by simp)
    rw [e] at hinv
    exact hinv
  have hnum : t'.number = chain.length + 1 := top_number hinv'
  refine ⟨{ s with top := t', synced := t'.number }, ?_, ⟨hinv', h.inv, ?_, ?_, ?_⟩, rfl, ?_⟩
  · unfold stepReopen stepCrash; rw [ho]
  · show Inv (abs s.rows (chain.take (t'.number - 1)))
    rw [hnum]
    simpa using h.inv
  · show 1 ≤ t'.number
    omega
  · show t'.number ≤ chain.length + 1
    omega
  · show t'.number = s.top.number
    rw [hnum, top_number h.files]

/-- runs of a node with a freezer, seen from outside: whole passes of `Shared::freeze` under ANY
data-file limit and stop-flag behaviour, crashes at any cut that respects the write order followed by
`Freezer::open`, clean restarts, and the steps of `SysStep` (legal chain-service commits between —
or during — passes, and the micro-steps of a pass) — any number of each, in any order -/
inductive ContRun (k : Codec) : Sys → Sys → Prop
  | refl (s : Sys) : ContRun k s s
  | pass {s t : Sys} (m : Nat) (stopped : Nat → Bool) : ContRun k s t →
      ContRun k s (pass (k.withMax m) t stopped).1
  | crash {s t : Sys} (il : Nat) (fl : Option Nat) (u : Sys) : ContRun k s t →
      INDEX_ENTRY_SIZE ≤ il → CutKeepsSynced t il fl → stepCrash k t il fl = some u → ContRun k s u
  | reopen {s t : Sys} (u : Sys) : ContRun k s t → stepReopen k t = some u → ContRun k s u
  | sys {s t u : Sys} : ContRun k s t → SysStep k t u → ContRun k s u

/-- only the freezer thread, crashes and restarts (no chain-service step): the chain view stays -/
inductive FreezerRun (k : Codec) : Sys → Sys → Prop
  | refl (s : Sys) : FreezerRun k s s
  | pass {s t : Sys} (m : Nat) (stopped : Nat → Bool) : FreezerRun k s t →
      FreezerRun k s (pass (k.withMax m) t stopped).1
  | crash {s t : Sys} (il : Nat) (fl : Option Nat) (u : Sys) : FreezerRun k s t →
      INDEX_ENTRY_SIZE ≤ il → CutKeepsSynced t il fl → stepCrash k t il fl = some u → FreezerRun k s u
  | reopen {s t : Sys} (u : Sys) : FreezerRun k s t → stepReopen k t = some u → FreezerRun k s u

theorem FreezerRun.toCont {k : Codec} {s t : Sys} (r : FreezerRun k s t) : ContRun k s t := by
  induction r with
  | refl => exact ContRun.refl _
  | pass m st _ ih => exact ContRun.pass m st ih
  | crash il fl u _ h1 h2 h3 ih => exact ContRun.crash il fl u ih h1 h2 h3
  | reopen u _ h1 ih => exact ContRun.reopen u ih h1

/-- one whole pass under any limit keeps the invariant, the chain view and the synced mark's order -/
theorem pass_withMax_inv {k : Codec} (ok : k.Ok) {s : Sys} {chain : List Block} (h : SysInv k s chain)
    (m : Nat) (stopped : Nat → Bool) :
    ∃ chain', SysInv k (pass (k.withMax m) s stopped).1 chain' ∧
      (pass (k.withMax m) s stopped).1.rows.v = s.rows.v := by
  have h' := (sysInv_withMax m).mpr h
  obtain ⟨c, hc, hv, _, _⟩ := fileSteps_inv (ok.withMax m) h' (pass_is_fileSteps (ok.withMax m) h' stopped).1
  exact ⟨c, (sysInv_withMax m).mp hc, hv⟩

theorem contRun_inv {k : Codec} (ok : k.Ok) {s t : Sys} {chain : List Block} (h : SysInv k s chain)
    (r : ContRun k s t) : ∃ chain', SysInv k t chain' := by
  induction r with
  | refl => exact ⟨chain, h⟩
  | pass m st _ ih =>
    obtain ⟨c, hc⟩ := ih
    obtain ⟨c', hc', _⟩ := pass_withMax_inv ok hc m st
    exact ⟨c', hc'⟩
  | crash il fl u _ hil hcut hs ih =>
    obtain ⟨c, hc⟩ := ih
    obtain ⟨t', n, ht, _, _, hi, _, _⟩ := stepCrash_inv ok hc il fl hil hcut
    rw [hs] at ht
    cases ht
    exact ⟨_, hi⟩
  | reopen u _ hs ih =>
    obtain ⟨c, hc⟩ := ih
    obtain ⟨t', ht, hi, _, _⟩ := stepReopen_inv ok hc
    rw [hs] at ht
    cases ht
    exact ⟨c, hi⟩
  | sys _ st ih =>
    obtain ⟨c, hc⟩ := ih
    exact sysStep_inv ok hc st

theorem freezerRun_view {k : Codec} (ok : k.Ok) {s t : Sys} {chain : List Block} (h : SysInv k s chain)
    (r : FreezerRun k s t) : t.rows.v = s.rows.v := by
  induction r with
  | refl => rfl
  | @pass t' m st r' ih =>
    obtain ⟨c, hc⟩ := contRun_inv ok h r'.toCont
    obtain ⟨_, _, hv⟩ := pass_withMax_inv ok hc m st
    rw [hv, ih]
  | @crash t' il fl u r' hil hcut hs ih =>
    obtain ⟨c, hc⟩ := contRun_inv ok h r'.toCont
    obtain ⟨t'', n, ht, _, _, _, hrows, _⟩ := stepCrash_inv ok hc il fl hil hcut
    rw [hs] at ht
    cases ht
    rw [hrows, ih]
  | @reopen t' u r' hs ih =>
    obtain ⟨c, hc⟩ := contRun_inv ok h r'.toCont
    obtain ⟨t'', ht, _, hrows, _⟩ := stepReopen_inv ok hc
    rw [hs] at ht
    cases ht
    rw [hrows, ih]

end CkbVerif.FreezeSys
