import CkbVerif.Lemmas.MoleculeCodec
import CkbVerif.Gen.Schemas
/-!
# Encoded-length facts used as the *length separation* of ckb's hashing (C15)

`minLen s` is a lower bound of the length of every encoding of schema `s`; for the generated
schemas: a `Transaction` encoding has at least 68 bytes (so it is never a 64-byte CBMT inner-node
pre-image), a `Header` has exactly 208 bytes (not a multiple of 32), a `ProposalShortId` 10 bytes.
-/
namespace CkbVerif.Molecule

mutual
/-- a lower bound of the encoded length -/
def minLen : Schema → Nat
  | .byte => 1
  | .array it n => if fixed it then size it * n else 0
  | .struct fs => if fixedL fs then sizeL fs else 0
  | .fixvec _ => 4
  | .dynvec _ => 4
  | .table fs => if fs.isEmpty then 4 else 4 * (fs.length + 1) + minLenL fs
  | .option _ => 0
  | .union _ _ => 4
def minLenL : List Schema → Nat
  | [] => 0
  | f :: fs => minLen f + minLenL fs
end

theorem encDyn_length_ge4 (items : List Bytes) : 4 ≤ (encDyn items).length := by
  cases items with
  | nil => simp [encDyn, le32_length]
  | cons x xs => rw [encDyn_length _ (by simp)]; simp only [List.length_cons]; omega

mutual
theorem minLen_le : ∀ (s : Schema) (v : Val), wfv s v = true → minLen s ≤ (encode s v).length
  | .byte, v, hv => by
      cases v <;> simp [wfv] at hv
      simp [encode, minLen]
  | .array it n, v, hv => by
      simp only [minLen]
      split
      · rename_i hf
        have := encode_length_fixed (.array it n) v (by simpa [fixed] using hf) hv
        rw [this]; simp [size]
      · omega
  | .struct fs, v, hv => by
      simp only [minLen]
      split
      · rename_i hf
        have := encode_length_fixed (.struct fs) v (by simpa [fixed] using hf) hv
        rw [this]; simp [size]
      · omega
  | .fixvec it, v, hv => by
      cases v <;> simp [wfv] at hv
      simp only [encode, encFixvec, minLen, List.length_append, le32_length]; omega
  | .dynvec it, v, hv => by
      cases v <;> simp [wfv] at hv
      simp only [encode, minLen]; exact encDyn_length_ge4 _
  | .table fs, v, hv => by
      cases v <;> simp [wfv] at hv
      rename_i vs
      simp only [encode, minLen]
      split
      · exact encDyn_length_ge4 _
      · rename_i hne
        have hl := encodeL_length fs vs hv.1
        have hne' : encodeL fs vs ≠ [] := by
          intro hc; rw [hc] at hl
          cases fs with
          | nil => simp at hne
          | cons => simp at hl
        rw [encDyn_length _ hne', hl]
        have := minLenL_le fs vs hv.1
        omega
  | .option _, _, _ => by simp [minLen]
  | .union ids its, v, hv => by
      cases v <;> simp [wfv] at hv
      simp only [encode, minLen, List.length_append, le32_length]; omega
theorem minLenL_le : ∀ (fs : List Schema) (vs : List Val), wfvL fs vs = true →
    minLenL fs ≤ ((encodeL fs vs).flatten).length
  | [], vs, hv => by simp [minLenL]
  | f :: fs, vs, hv => by
      cases vs with
      | nil => simp [wfvL] at hv
      | cons v vs =>
        simp only [wfvL, Bool.and_eq_true] at hv
        simp only [encodeL, minLenL, List.flatten_cons, List.length_append]
        have := minLen_le f v hv.1
        have := minLenL_le fs vs hv.2
        omega
end

open CkbVerif.Gen.Schemas

theorem transaction_length_ge_68 (v : Val) (hv : wfv S.Transaction v = true) : 68 ≤ (encode S.Transaction v).length := by
  have := minLen_le S.Transaction v hv
  have e : minLen S.Transaction = 68 := by decide +kernel
  omega

theorem header_length_208 (v : Val) (hv : wfv S.Header v = true) : (encode S.Header v).length = 208 := by
  have := encode_length_fixed S.Header v (by decide +kernel) hv
  have e : size S.Header = 208 := by decide +kernel
  omega

theorem proposal_short_id_length_10 (v : Val) (hv : wfv S.ProposalShortId v = true) : (encode S.ProposalShortId v).length = 10 := by
  have := encode_length_fixed S.ProposalShortId v (by decide +kernel) hv
  have e : size S.ProposalShortId = 10 := by decide +kernel
  omega

end CkbVerif.Molecule
