import CkbVerif.Lemmas.Window
import CkbVerif.Model.WindowBlocks

/-! Lemmas for blocks with embedded uncles (C20): the gathering loops agree on membership, and the
window predicates depend on the per-block id lists only through membership. -/
namespace CkbVerif.Window

theorem mem_foldl_append {us : List Ids} {acc : Ids} {x : Nat} :
    x ∈ us.foldl (fun acc u => acc ++ u) acc ↔ x ∈ acc ∨ ∃ u ∈ us, x ∈ u := by
  induction us generalizing acc with
  | nil => simp
  | cons a us ih =>
    rw [List.foldl_cons, ih, List.mem_append]
    constructor
    · rintro ((h | h) | ⟨u, hu, hx⟩)
      · exact Or.inl h
      · exact Or.inr ⟨a, List.mem_cons_self, h⟩
      · exact Or.inr ⟨u, List.mem_cons_of_mem _ hu, hx⟩
    · rintro (h | ⟨u, hu, hx⟩)
      · exact Or.inl (Or.inl h)
      · rcases List.mem_cons.mp hu with rfl | hu
        · exact Or.inl (Or.inr hx)
        · exact Or.inr ⟨u, hu, hx⟩

theorem Blk.mem_unionIds {b : Blk} {x : Nat} : x ∈ b.unionIds ↔ x ∈ b.own ∨ ∃ u ∈ b.uncles, x ∈ u := by
  simp [Blk.unionIds]

theorem Blk.mem_gatherIds {b : Blk} {x : Nat} : x ∈ b.gatherIds ↔ x ∈ b.own ∨ ∃ u ∈ b.uncles, x ∈ u := by
  simp [Blk.gatherIds, mem_foldl_append]

/-- pointwise equal membership of the per-block id lists -/
def SameIds (c1 c2 : List Ids) : Prop :=
  c1.length = c2.length ∧ ∀ n x, x ∈ idsAt c1 n ↔ x ∈ idsAt c2 n

theorem sameIds_gather_union (bc : List Blk) :
    SameIds (bc.map Blk.gatherIds) (bc.map Blk.unionIds) := by
  refine ⟨by simp, ?_⟩
  intro n x
  simp only [idsAt, List.getD_eq_getElem?_getD, List.getElem?_map]
  cases h : bc[n]? with
  | none => simp
  | some b => simp [Blk.mem_gatherIds, Blk.mem_unionIds]

theorem InSet.congr {w : Win} {c1 c2 : List Ids} (h : SameIds c1 c2) {x : Nat} :
    InSet w c1 x ↔ InSet w c2 x := by
  simp only [InSet, h.1, h.2]

theorem InGap.congr {w : Win} {c1 c2 : List Ids} (h : SameIds c1 c2) {x : Nat} :
    InGap w c1 x ↔ InGap w c2 x := by
  simp only [InGap, h.1, h.2]

theorem ChainOk.congr {c1 c2 : List Ids} (h : SameIds c1 c2) (hc : ChainOk c2) : ChainOk c1 := by
  refine ⟨by rw [h.1]; exact hc.pos, ?_⟩
  have := h.2 0
  rw [hc.genesis] at this
  apply List.eq_nil_iff_forall_not_mem.mpr
  intro x hx
  exact absurd ((this x).mp hx) (by simp)

end CkbVerif.Window
