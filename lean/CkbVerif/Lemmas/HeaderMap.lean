import CkbVerif.Model.HeaderMap

/-! Helper lemmas for the header-map part of C17. -/
namespace CkbVerif.HeaderMap

/-- first-some -/
def orE (a b : Option Nat) : Option Nat :=
  match a with
  | some v => some v
  | none => b

/-- the plain map a two-tier state stands for: memory first, then backend -/
def abs (s : HM) : Plain := fun k => orE (lk s.memory k) (lk s.backend k)

theorem lk_append (a b : Assoc) (x : Nat) : lk (a ++ b) x = orE (lk a x) (lk b x) := by
  induction a with
  | nil => simp [lk, orE]
  | cons e a ih =>
    obtain ⟨k, v⟩ := e
    simp only [List.cons_append, lk]
    split
    · simp [orE]
    · exact ih

theorem lk_del (l : Assoc) (k x : Nat) : lk (del l k) x = if x = k then none else lk l x := by
  induction l with
  | nil => simp [del, lk]
  | cons e l ih =>
    obtain ⟨k', v⟩ := e
    simp only [del, List.filter_cons] at ih ⊢
    by_cases hk : k' = k
    · subst hk
      simp only [bne_self_eq_false, Bool.false_eq_true, if_false]
      rw [ih]
      by_cases hx : x = k'
      · simp [hx]
      · have : ¬ k' = x := fun h => hx h.symm
        simp [hx, lk, this]
    · have : (k' != k) = true := by simpa using hk
      simp only [this, if_true, lk]
      by_cases hx : k' = x
      · subst hx; simp [hk]
      · simp only [hx, if_false]; exact ih

theorem lk_put (l : Assoc) (k v x : Nat) : lk (put l k v) x = if x = k then some v else lk l x := by
  simp only [put, lk_append, lk_del, lk]
  by_cases hx : x = k
  · subst hx; simp [orE]
  · have : ¬ k = x := fun h => hx h.symm
    simp only [hx, this, if_false]
    cases lk l x <;> rfl

theorem lk_none_iff (l : Assoc) (x : Nat) : lk l x = none ↔ x ∉ l.map (·.1) := by
  induction l with
  | nil => simp [lk]
  | cons e l ih =>
    obtain ⟨k, v⟩ := e
    simp only [lk, List.map_cons, List.mem_cons, not_or]
    by_cases hk : k = x
    · subst hk; simp
    · have : ¬ x = k := fun h => hk h.symm
      simp [hk, this, ih]

theorem keys_del (l : Assoc) (k : Nat) : (del l k).map (·.1) = (l.map (·.1)).filter (fun x => x != k) := by
  induction l with
  | nil => rfl
  | cons e l ih =>
    simp only [del, List.filter_cons, List.map_cons] at ih ⊢
    split <;> simp_all

theorem nodup_del {l : Assoc} (h : (l.map (·.1)).Nodup) (k : Nat) : ((del l k).map (·.1)).Nodup := by
  rw [keys_del]
  exact List.Nodup.sublist List.filter_sublist h

theorem nodup_put {l : Assoc} (h : (l.map (·.1)).Nodup) (k v : Nat) : ((put l k v).map (·.1)).Nodup := by
  simp only [put, List.map_append, List.map_cons, List.map_nil]
  rw [List.nodup_append]
  refine ⟨nodup_del h k, by simp, ?_⟩
  intro a ha b hb
  have hb' : b = k := by simpa using hb
  subst hb'
  rw [keys_del] at ha
  have := (List.mem_filter.mp ha).2
  simpa using this

theorem lk_isEmpty {l : Assoc} (h : l.isEmpty = true) (x : Nat) : lk l x = none := by
  cases l with
  | nil => rfl
  | cons _ _ => cases h

theorem lk_insertBatch (vs : Assoc) : ∀ (b : Assoc), (vs.map (·.1)).Nodup → ∀ x,
    lk (insertBatch b vs) x = orE (lk vs x) (lk b x) := by
  induction vs with
  | nil => intro b _ x; simp [insertBatch, lk, orE]
  | cons e vs ih =>
    obtain ⟨k, v⟩ := e
    intro b hnd x
    simp only [List.map_cons, List.nodup_cons] at hnd
    simp only [insertBatch]
    rw [ih _ hnd.2 x, lk_put]
    simp only [lk]
    by_cases hx : x = k
    · subst hx
      have : lk vs x = none := (lk_none_iff vs x).mpr hnd.1
      simp [this, orE]
    · have : ¬ k = x := fun h => hx h.symm
      simp [hx, this]

theorem nodup_take_drop {l : Assoc} (h : (l.map (·.1)).Nodup) (n : Nat) :
    ((l.take n).map (·.1)).Nodup ∧ ((l.drop n).map (·.1)).Nodup ∧
    ∀ x, x ∈ (l.take n).map (·.1) → x ∉ (l.drop n).map (·.1) := by
  have : l.map (·.1) = (l.take n).map (·.1) ++ (l.drop n).map (·.1) := by
    rw [← List.map_append, List.take_append_drop]
  rw [this, List.nodup_append] at h
  refine ⟨h.1, h.2.1, ?_⟩
  intro x hx hd
  exact h.2.2 x hx x hd rfl

/-- memory keys are distinct (it is a map) -/
def Inv (s : HM) : Prop := (s.memory.map (·.1)).Nodup

theorem orE_none (b : Option Nat) : orE none b = b := rfl

/-- one operation (or a spill) refines the plain map: same answer, same abstract map afterwards -/
theorem step_refines {s : HM} (h : Inv s) (op : Op) :
    (step s op).2 = (specStep (abs s) op).2 ∧ abs (step s op).1 = (specStep (abs s) op).1 ∧
      Inv (step s op).1 := by
  cases op with
  | insert k v =>
    refine ⟨rfl, ?_, nodup_put h k v⟩
    funext x
    simp only [step, specStep, abs, lk_put]
    by_cases hx : x = k <;> simp [hx, orE]
  | get k =>
    simp only [step]
    cases hm : lk s.memory k with
    | some v =>
      refine ⟨by simp [specStep, abs, hm, orE], ?_, nodup_put h k v⟩
      funext x
      simp only [specStep, abs, lk_put]
      by_cases hx : x = k
      · subst hx; simp [hm, orE]
      · simp [hx]
    | none =>
      simp only []
      split
      · rename_i he
        refine ⟨by simp [specStep, abs, hm, orE, lk_isEmpty he], rfl, h⟩
      · cases hb : lk s.backend k with
        | none => exact ⟨by simp [specStep, abs, hm, hb, orE], rfl, h⟩
        | some v =>
          refine ⟨by simp [specStep, abs, hm, hb, orE], ?_, nodup_put h k v⟩
          funext x
          simp only [specStep, abs, lk_put, lk_del]
          by_cases hx : x = k
          · subst hx; simp [hm, hb, orE]
          · simp [hx]
  | contains k =>
    simp only [step]
    cases hm : lk s.memory k with
    | some v => exact ⟨by simp [specStep, abs, hm, orE], rfl, h⟩
    | none =>
      simp only [Option.isSome_none, Bool.false_eq_true, if_false]
      split
      · rename_i he
        exact ⟨by simp [specStep, abs, hm, orE, lk_isEmpty he], rfl, h⟩
      · exact ⟨by simp [specStep, abs, hm, orE], rfl, h⟩
  | remove k =>
    simp only [step]
    split
    · rename_i he
      refine ⟨rfl, ?_, nodup_del h k⟩
      funext x
      simp only [specStep, abs, lk_del, lk_isEmpty he]
      by_cases hx : x = k <;> simp [hx, orE]
    · refine ⟨rfl, ?_, nodup_del h k⟩
      funext x
      simp only [specStep, abs, lk_del]
      by_cases hx : x = k <;> simp [hx, orE]
  | spill =>
    simp only [step]
    split
    · obtain ⟨n1, n2, n3⟩ := nodup_take_drop h (s.memory.length - s.limit)
      refine ⟨rfl, ?_, n2⟩
      funext x
      simp only [specStep, abs]
      rw [lk_insertBatch _ _ n1]
      have hsplit : lk s.memory x =
          orE (lk (s.memory.take (s.memory.length - s.limit)) x)
              (lk (s.memory.drop (s.memory.length - s.limit)) x) := by
        rw [← lk_append, List.take_append_drop]
      rw [hsplit]
      cases ht : lk (s.memory.take (s.memory.length - s.limit)) x with
      | none => simp [orE]
      | some v =>
        have hin : x ∈ (s.memory.take (s.memory.length - s.limit)).map (·.1) := by
          apply Classical.byContradiction
          intro hn
          rw [(lk_none_iff _ x).mpr hn] at ht
          cases ht
        have := (lk_none_iff _ x).mpr (n3 x hin)
        simp [this, orE]
    · exact ⟨rfl, rfl, h⟩

end CkbVerif.HeaderMap
