import CkbVerif.Lemmas.HashProofTop
/-!
# CBMT proofs (C15): the fuel of the two queue loops is never the reason for an answer

The Rust loops have no bound; the model's `buildLoop` / `rootLoop` recurse on a fuel.  Every iteration removes the
front entry and adds at most one entry with a strictly smaller index, so `Σ (index + 1)` strictly decreases: with
fuel above that sum the result does not depend on the fuel (`qFuel` / `pFuel` are that sum + 1).
-/
namespace CkbVerif.Hash

section
variable {α : Type}

def pSum (q : List (Nat × α)) : Nat := (q.map (·.1 + 1)).sum

theorem pSum_cons (e : Nat × α) (q : List (Nat × α)) : pSum (e :: q) = e.1 + 1 + pSum q := by simp [pSum]
theorem pSum_append (a b : List (Nat × α)) : pSum (a ++ b) = pSum a + pSum b := by simp [pSum]
theorem pFuel_eq (q : List (Nat × α)) : pFuel q = pSum q + 1 := rfl

theorem takeSibling_sum (index : Nat) (q : List (Nat × α)) (lem : List α) (sib : α) (q1 : List (Nat × α)) (lem1 : List α)
    (h : takeSibling index q lem = some (sib, q1, lem1)) : pSum q1 ≤ pSum q := by
  unfold takeSibling at h
  split at h
  · rename_i front s q'
    split at h
    · cases h; rw [pSum_cons]; omega
    · split at h
      · cases h; exact Nat.le_refl _
      · cases h
  · split at h
    · cases h; exact Nat.le_refl _
    · cases h

theorem rootLoop_fuel (merge : α → α → α) : ∀ (f1 f2 : Nat) (q : List (Nat × α)) (lem : List α),
    pSum q < f1 → pSum q < f2 → rootLoop merge f1 q lem = rootLoop merge f2 q lem
  | 0, _, _, _, h, _ => by omega
  | _, 0, _, _, _, h => by omega
  | f1 + 1, f2 + 1, [], _, _, _ => by simp [rootLoop]
  | f1 + 1, f2 + 1, (index, node) :: q, lem, h1, h2 => by
    rw [pSum_cons] at h1 h2
    simp only [rootLoop]
    split
    · rfl
    · rename_i h0
      have hp : tParent index + 1 ≤ index := by rw [tParent_eq]; omega
      cases hts : takeSibling index q lem with
      | none =>
        simp only []
        exact rootLoop_fuel merge f1 f2 q lem (by simp only [] at h1; omega) (by simp only [] at h2; omega)
      | some r =>
        obtain ⟨sib, q1, lem1⟩ := r
        simp only []
        have := takeSibling_sum index q lem sib q1 lem1 hts
        apply rootLoop_fuel merge f1 f2
        · rw [pSum_append, pSum_cons]; simp only [pSum, List.map_nil, List.sum_nil] at *; omega
        · rw [pSum_append, pSum_cons]; simp only [pSum, List.map_nil, List.sum_nil] at *; omega

/-- `MerkleProof::root` as modelled (`proofRoot`, fuel `pFuel`) is the unbounded loop: more fuel changes nothing -/
theorem rootLoop_fuel_irrelevant (merge : α → α → α) (q : List (Nat × α)) (lem : List α) (f : Nat) (hf : pFuel q ≤ f) :
    rootLoop merge f q lem = rootLoop merge (pFuel q) q lem := by
  rw [pFuel_eq] at hf ⊢
  exact rootLoop_fuel merge f _ q lem (by omega) (by omega)

theorem pushParent_sum (h : Nat) (r : List Nat) (h0 : h ≠ 0) : qSum (pushParent (tParent h) r) ≤ qSum r + h := by
  unfold pushParent
  have : tParent h + 1 ≤ h := by rw [tParent_eq]; omega
  split
  · omega
  · rw [qSum_append, qSum_single]; omega

theorem buildLoop_fuel (zero : α) (nodes : List α) : ∀ (f1 f2 : Nat) (q : List Nat),
    qSum q < f1 → qSum q < f2 → buildLoop zero nodes f1 q = buildLoop zero nodes f2 q
  | 0, _, _, h, _ => by omega
  | _, 0, _, _, h => by omega
  | f1 + 1, f2 + 1, [], _, _ => by simp [buildLoop]
  | f1 + 1, f2 + 1, h :: rest, h1, h2 => by
    rw [qSum_cons] at h1 h2
    simp only [buildLoop]
    split
    · rfl
    · rename_i h0
      split
      · have hs := pushParent_sum h rest.tail h0
        have ht : qSum rest.tail ≤ qSum rest := by
          cases rest with
          | nil => simp
          | cons a r => simp only [List.tail_cons]; rw [qSum_cons]; omega
        exact buildLoop_fuel zero nodes f1 f2 _ (by omega) (by omega)
      · have hs := pushParent_sum h rest h0
        rw [buildLoop_fuel zero nodes f1 f2 _ (by omega) (by omega)]

/-- `MerkleTree::build_proof` as modelled (fuel `qFuel`) is the unbounded loop -/
theorem buildLoop_fuel_irrelevant (zero : α) (nodes : List α) (q : List Nat) (f : Nat) (hf : qFuel q ≤ f) :
    buildLoop zero nodes f q = buildLoop zero nodes (qFuel q) q := by
  rw [qFuel_eq] at hf ⊢
  exact buildLoop_fuel zero nodes f _ q (by omega) (by omega)

end

end CkbVerif.Hash

namespace CkbVerif.Hash

section decisions
variable {α : Type}

/-- the first element of a list sorted by `Reverse` is its maximum -/
theorem sortBy_leRev_head_max (l : List Nat) : ∀ a ∈ l, a ≤ (sortBy leRev id l).headD 0 := by
  intro a ha
  have hs := sortBy_pairwise leRev id leRev_tot leRev_trans l
  have hm : a ∈ sortBy leRev id l := (mem_sortBy leRev id).mpr ha
  cases hq : sortBy leRev id l with
  | nil => rw [hq] at hm; cases hm
  | cons x xs =>
    rw [hq] at hs hm
    simp only [List.headD_cons]
    rcases List.mem_cons.mp hm with rfl | hm
    · exact Nat.le_refl _
    · have := (List.pairwise_cons.mp hs).1 a hm
      simpa [leRev, Nat.ble_eq] using this

theorem sortBy_leRev_head_mem (l : List Nat) (hne : l ≠ []) : (sortBy leRev id l).headD 0 ∈ l := by
  cases hq : sortBy leRev id l with
  | nil =>
    have := sortBy_length leRev id l
    rw [hq] at this
    exact absurd (List.length_eq_zero_iff.mp this.symm) hne
  | cons x xs =>
    simp only [List.headD_cons]
    exact (mem_sortBy leRev id).mp (by rw [hq]; simp)

/-- **when `build_merkle_proof` answers `None`** (exact): no leaves, no indices, or some index is not a leaf position -/
theorem buildMerkleProof_none_iff (le : α → α → Bool) (merge : α → α → α) (zero : α) (leaves : List α) (idx : List Nat) :
    buildMerkleProof le merge zero leaves idx = .none ↔ (leaves = [] ∨ idx = [] ∨ ∃ i ∈ idx, leaves.length ≤ i) := by
  unfold buildMerkleProof buildProof
  by_cases hl : leaves = []
  · subst hl; simp [buildTree]
  by_cases hi : idx = []
  · subst hi; simp
  have hn : 0 < leaves.length := List.length_pos_iff.mpr hl
  have hlen := buildTree_length merge zero leaves hl
  have e1 : (buildTree merge zero leaves).isEmpty = false := by
    rw [List.isEmpty_eq_false_iff]; intro h; rw [h] at hlen; simp at hlen; omega
  have e2 : idx.isEmpty = false := by rw [List.isEmpty_eq_false_iff]; exact hi
  simp only [e1, e2, Bool.or_self, Bool.false_eq_true, if_false]
  have hlc : ((buildTree merge zero leaves).length >>> 1) + 1 = leaves.length := by rw [hlen, shr_one]; omega
  rw [hlc, shl_one]
  have hmapne : idx.map (fun i => leaves.length + i - 1) ≠ [] := by simpa using hi
  constructor
  · intro h
    right; right
    split at h
    · rename_i hge
      have hm := sortBy_leRev_head_mem _ hmapne
      rw [List.mem_map] at hm
      obtain ⟨i, hi', he⟩ := hm
      exact ⟨i, hi', by omega⟩
    · split at h <;> cases h
  · intro h
    rcases h with h | h | ⟨i, hi', hge⟩
    · exact absurd h hl
    · exact absurd h hi
    · have := sortBy_leRev_head_max (idx.map (fun i => leaves.length + i - 1)) (leaves.length + i - 1)
        (List.mem_map.mpr ⟨i, hi', rfl⟩)
      rw [if_pos (by omega)]

/-- **when `retrieve_leaves` answers `None`** (exact) -/
theorem retrieveLeaves_none_iff (zero : α) (leaves : List α) (p : MProof α) :
    retrieveLeaves zero leaves p = none ↔
      (leaves = [] ∨ p.indices = [] ∨ ∃ i ∈ p.indices, i < leaves.length - 1 ∨ 2 * leaves.length - 1 ≤ i) := by
  unfold retrieveLeaves
  by_cases hl : leaves = []
  · subst hl; simp
  by_cases hi : p.indices = []
  · simp [hi]
  have e1 : leaves.isEmpty = false := by rw [List.isEmpty_eq_false_iff]; exact hl
  have e2 : p.indices.isEmpty = false := by rw [List.isEmpty_eq_false_iff]; exact hi
  simp only [e1, e2, Bool.or_self, Bool.false_eq_true, if_false, shl_one]
  constructor
  · intro h
    right; right
    split at h
    · cases h
    · rename_i hall
      simp only [List.all_eq_true, Bool.and_eq_true, Nat.ble_eq, Nat.blt_eq] at hall
      apply Classical.byContradiction
      intro hno
      apply hall
      intro x hx
      have : ¬ (x < leaves.length - 1 ∨ 2 * leaves.length - 1 ≤ x) := fun hb => hno ⟨x, hx, hb⟩
      omega
  · intro h
    rcases h with h | h | ⟨i, hi', hbad⟩
    · exact absurd h hl
    · exact absurd h hi
    · rw [if_neg]
      simp only [List.all_eq_true, Bool.and_eq_true, Nat.ble_eq, Nat.blt_eq]
      intro hall'
      have := hall' i hi'
      omega

end decisions

end CkbVerif.Hash
