import CkbVerif.Lemmas.HashProofTop
/-!
# CBMT proofs (C15): the fuel of the two queue loops is never the reason for an answer

The Rust loops have no bound; the model's `buildLoop` / `rootLoop` recurse on a fuel.  Every iteration removes the
front entry and adds at most one entry with a strictly smaller index, so `Σ (index + 1)` strictly decreases: with
fuel above that sum the result does not depend on the fuel (`qFuel` / `pFuel` are that sum + 1).
-/
namespace CkbVerif.Hash

section
variable {α : Type}

def pSum (q : List (Nat × α)) : Nat := (q.map (·.1 + 1)).sum

theorem pSum_cons (e : Nat × α) (q : List (Nat × α)) : pSum (e :: q) = e.1 + 1 + pSum q := by simp [pSum]
theorem pSum_append (a b : List (Nat × α)) : pSum (a ++ b) = pSum a + pSum b := by simp [pSum]
theorem pFuel_eq (q : List (Nat × α)) : pFuel q = pSum q + 1 := rfl

theorem takeSibling_sum (index : Nat) (q : List (Nat × α)) (lem : List α) (sib : α) (q1 : List (Nat × α)) (lem1 : List α)
    (h : takeSibling index q lem = some (sib, q1, lem1)) : pSum q1 ≤ pSum q := by
  unfold takeSibling at h
  split at h
  · rename_i front s q'
    split at h
    · cases h; rw [pSum_cons]; omega
    · split at h
      · cases h; exact Nat.le_refl _
      · cases h
  · split at h
    · cases h; exact Nat.le_refl _
    · cases h

theorem rootLoop_fuel (merge : α → α → α) : ∀ (f1 f2 : Nat) (q : List (Nat × α)) (lem : List α),
    pSum q < f1 → pSum q < f2 → rootLoop merge f1 q lem = rootLoop merge f2 q lem
  | 0, _, _, _, h, _ => by omega
  | _, 0, _, _, _, h => by omega
  | f1 + 1, f2 + 1, [], _, _, _ => by simp [rootLoop]
  | f1 + 1, f2 + 1, (index, node) :: q, lem, h1, h2 => by
    rw [pSum_cons] at h1 h2
    simp only [rootLoop]
    split
    · rfl
    · rename_i h0
      have hp : tParent index + 1 ≤ index := by rw [tParent_eq]; omega
      cases hts : takeSibling index q lem with
      | none =>
        simp only []
        exact rootLoop_fuel merge f1 f2 q lem (by simp only [] at h1; omega) (by simp only [] at h2; omega)
      | some r =>
        obtain ⟨sib, q1, lem1⟩ := r
        simp only []
        have := takeSibling_sum index q lem sib q1 lem1 hts
        apply rootLoop_fuel merge f1 f2
        · rw [pSum_append, pSum_cons]; simp only [pSum, List.map_nil, List.sum_nil] at *; omega
        · rw [pSum_append, pSum_cons]; simp only [pSum, List.map_nil, List.sum_nil] at *; omega

/-- `MerkleProof::root` as modelled (`proofRoot`, fuel `pFuel`) is the unbounded loop: more fuel changes nothing -/
theorem rootLoop_fuel_irrelevant (merge : α → α → α) (q : List (Nat × α)) (lem : List α) (f : Nat) (hf : pFuel q ≤ f) :
    rootLoop merge f q lem = rootLoop merge (pFuel q) q lem := by
  rw [pFuel_eq] at hf ⊢
  exact rootLoop_fuel merge f _ q lem (by omega) (by omega)

theorem pushParent_sum (h : Nat) (r : List Nat) (h0 : h ≠ 0) : qSum (pushParent (tParent h) r) ≤ qSum r + h := by
  unfold pushParent
  have : tParent h + 1 ≤ h := by rw [tParent_eq]; omega
  split
  · omega
  · rw [qSum_append, qSum_single]; omega

theorem buildLoop_fuel (zero : α) (nodes : List α) : ∀ (f1 f2 : Nat) (q : List Nat),
    qSum q < f1 → qSum q < f2 → buildLoop zero nodes f1 q = buildLoop zero nodes f2 q
  | 0, _, _, h, _ => by omega
  | _, 0, _, _, h => by omega
  | f1 + 1, f2 + 1, [], _, _ => by simp [buildLoop]
  | f1 + 1, f2 + 1, h :: rest, h1, h2 => by
    rw [qSum_cons] at h1 h2
    simp only [buildLoop]
    split
    · rfl
    · rename_i h0
      split
      · have hs := pushParent_sum h rest.tail h0
        have ht : qSum rest.tail ≤ qSum rest := by
          cases rest with
          | nil => simp
          | cons a r => simp only [List.tail_cons]; rw [qSum_cons]; omega
        exact buildLoop_fuel zero nodes f1 f2 _ (by omega) (by omega)
      · have hs := pushParent_sum h rest h0
        rw [buildLoop_fuel zero nodes f1 f2 _ (by omega) (by omega)]

/-- `MerkleTree::build_proof` as modelled (fuel `qFuel`) is the unbounded loop -/
theorem buildLoop_fuel_irrelevant (zero : α) (nodes : List α) (q : List Nat) (f : Nat) (hf : qFuel q ≤ f) :
    buildLoop zero nodes f q = buildLoop zero nodes (qFuel q) q := by
  rw [qFuel_eq] at hf ⊢
  exact buildLoop_fuel zero nodes f _ q (by omega) (by omega)

end

end CkbVerif.Hash
