import CkbVerif.Lemmas.IndexerRbPrune

/-! The pure replay specification of the live-cell set, and the store's OutPoint rows equal it (C18). -/
namespace CkbVerif.Indexer

/-- the cell the block creates at `op` (by the transaction with that id), if any -/
def createdBy (b : Block) (op : OutPoint) : Option Cell :=
  match b.txs.zipIdx.find? (fun p => p.1.id = op.tx) with
  | some (tx, i) => (tx.outputs[op.idx]?).map fun o => ⟨b.number, i, o⟩
  | none => none

/-- `op` is an input of a non-cellbase transaction of the block -/
def spentBy (b : Block) (op : OutPoint) : Bool :=
  b.txs.zipIdx.any fun p => p.2 ≠ 0 && decide (op ∈ p.1.inputs)

/-- one step of the direct replay of the chain: out-points spent by a non-cellbase input die (live
before, or created earlier in the same block), outputs of the block become live with
(block number, tx index), everything else keeps its state -/
def replayStep (L : OutPoint → Option Cell) (b : Block) : OutPoint → Option Cell := fun op =>
  if spentBy b op then none else
  match createdBy b op with
  | some c => some c
  | none => L op

/-- **the live-cell set of a chain, by direct replay** (no store, no index) -/
def replayLive (blocks : List Block) : OutPoint → Option Cell :=
  blocks.foldl replayStep (fun _ => none)

variable {s : Store} {b : Block}

theorem createdBy_iff (wf : WFAppend2 s b) (op : OutPoint) (c : Cell) :
    createdBy b op = some c ↔ Created b op c := by
  unfold createdBy
  constructor
  · intro h
    cases hf : b.txs.zipIdx.find? (fun p => p.1.id = op.tx) with
    | none => simp [hf] at h
    | some p =>
      obtain ⟨tx', j⟩ := p
      simp only [hf] at h
      have hmem := List.mem_of_find?_eq_some hf
      rw [List.mem_zipIdx_iff_getElem?] at hmem
      have hid := List.find?_some hf
      simp only [decide_eq_true_eq] at hid
      cases ho : tx'.outputs[op.idx]? with
      | none => simp [ho] at h
      | some o =>
        simp only [ho, Option.map_some, Option.some.injEq] at h
        exact ⟨j, tx', o, hmem, hid, ho, h.symm⟩
  · rintro ⟨i, tx, out, htx, hid, hout, rfl⟩
    cases hf : b.txs.zipIdx.find? (fun p => p.1.id = op.tx) with
    | none =>
      rw [List.find?_eq_none] at hf
      have := hf (tx, i) (by rw [List.mem_zipIdx_iff_getElem?]; exact htx)
      simp [hid] at this
    | some p =>
      obtain ⟨tx', j⟩ := p
      have hmem := List.mem_of_find?_eq_some hf
      rw [List.mem_zipIdx_iff_getElem?] at hmem
      have hid' := List.find?_some hf
      simp only [decide_eq_true_eq] at hid'
      have := wf.idInj j i tx' tx hmem htx (by rw [hid', hid])
      subst this
      rw [htx] at hmem; cases hmem
      simp [hout]

theorem spentBy_iff (b : Block) (op : OutPoint) :
    spentBy b op = true ↔ ∃ (i : Nat) (tx : Tx) (ii : Nat), b.txs[i]? = some tx ∧ i ≠ 0 ∧ tx.inputs[ii]? = some op := by
  unfold spentBy
  rw [List.any_eq_true]
  constructor
  · rintro ⟨⟨tx, i⟩, hmem, h⟩
    rw [List.mem_zipIdx_iff_getElem?] at hmem
    simp only [Bool.and_eq_true, decide_eq_true_eq, ne_eq] at h
    obtain ⟨ii, hii⟩ := List.mem_iff_getElem?.mp h.2
    exact ⟨i, tx, ii, hmem, by simpa using h.1, hii⟩
  · rintro ⟨i, tx, ii, htx, hi, hop⟩
    refine ⟨(tx, i), by rw [List.mem_zipIdx_iff_getElem?]; exact htx, ?_⟩
    simp only [Bool.and_eq_true, decide_eq_true_eq, ne_eq]
    exact ⟨by simpa using hi, List.mem_of_getElem? hop⟩

/-- one append moves the OutPoint rows exactly as one replay step moves the live set -/
theorem outPoint_replayStep (wf : WFAppend2 s b) (L : OutPoint → Option Cell)
    (hL : ∀ op, get s (.outPoint op) = (L op).map Val.cell) (op : OutPoint) :
    get (appendCore s b) (.outPoint op) = (replayStep L b op).map Val.cell := by
  unfold replayStep
  by_cases hsp : spentBy b op = true
  · simp only [hsp, if_true, Option.map_none]
    obtain ⟨i, tx, ii, htx, hi, hop⟩ := (spentBy_iff b op).mp hsp
    by_cases hres : ∃ c, Res s b op c
    · obtain ⟨c, hc⟩ := hres
      exact outPoint_spent2 wf op c ⟨i, tx, ii, htx, hi, hop, hc⟩
    · have hnc : ∀ c, ¬ Created b op c := fun c h => hres ⟨c, Or.inr h⟩
      have hns : ∀ c, ¬ Spent2 s b op c := by
        rintro c ⟨_, _, _, _, _, _, h⟩; exact hres ⟨c, h⟩
      rw [outPoint_other2 wf op hnc hns]
      cases hg : get s (.outPoint op) with
      | none => rfl
      | some v =>
        obtain ⟨c, rfl⟩ := wf.cellVal op v hg
        exact absurd ⟨c, Or.inl hg⟩ hres
  · have hsp' : spentBy b op = false := by simpa using hsp
    simp only [hsp', Bool.false_eq_true, if_false]
    have hns : ∀ c, ¬ Spent2 s b op c := by
      rintro c ⟨i, tx, ii, htx, hi, hop, _⟩
      exact hsp ((spentBy_iff b op).mpr ⟨i, tx, ii, htx, hi, hop⟩)
    cases hc : createdBy b op with
    | some c =>
      simp only [Option.map_some]
      exact outPoint_created2 wf op c ((createdBy_iff wf op c).mp hc) hns
    | none =>
      simp only
      have hnc : ∀ c, ¬ Created b op c := by
        intro c h
        rw [(createdBy_iff wf op c).mpr h] at hc
        cases hc
      rw [outPoint_other2 wf op hnc hns]
      exact hL op

/-- **the store's OutPoint rows are the replayed live-cell set**, along any well-formed chain
(same-block spends and the automatic prune included) -/
theorem outPoint_eq_replay_from (keep interval : Nat) (blocks : List Block) (s : Store)
    (L : OutPoint → Option Cell) (hL : ∀ op, get s (.outPoint op) = (L op).map Val.cell)
    (ok : ChainOK2 keep interval s blocks) (op : OutPoint) :
    get (blocks.foldl (append keep interval) s) (.outPoint op) = (blocks.foldl replayStep L op).map Val.cell := by
  induction blocks generalizing s L with
  | nil => exact hL op
  | cons b r ih =>
    obtain ⟨wf, ok'⟩ := ok
    simp only [List.foldl_cons]
    apply ih _ _ _ ok'
    intro op'
    have : get (append keep interval s b) (.outPoint op') = get (appendCore s b) (.outPoint op') := by
      unfold append
      dsimp only
      split
      · exact lockInv_append_prune.prune_answers rfl
      · rfl
    rw [this]
    exact outPoint_replayStep wf L hL op'

theorem outPoint_eq_replay (keep interval : Nat) (blocks : List Block)
    (ok : ChainOK2 keep interval [] blocks) (op : OutPoint) :
    get (blocks.foldl (append keep interval) []) (.outPoint op) = (replayLive blocks op).map Val.cell :=
  outPoint_eq_replay_from keep interval blocks [] (fun _ => none) (fun _ => rfl) ok op

end CkbVerif.Indexer
