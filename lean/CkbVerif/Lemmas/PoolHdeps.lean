/-
C11 helper lemmas: the header-deps map (`edges.header_deps`) inside the proved invariant.

`HdepOK s`: the map's keys are duplicate-free, every row `(id, hs)` belongs to a pooled transaction with
exactly those (non-empty) header deps, and every pooled transaction with header deps has its row.  It is
closed under the core operations (`CoreClosed`), hence under every operation of the model; and
`resolve_conflict_header_dep` leaves no pooled transaction that depends on one of the given headers.
-/
import CkbVerif.Lemmas.PoolLinks
import CkbVerif.Lemmas.PoolDerived
namespace CkbVerif.Pool

structure HdepOK (s : Pool) : Prop where
  keys : (s.hdeps.map (·.1)).Nodup
  own : ∀ kv ∈ s.hdeps, ∃ t ∈ txs s, t.id = kv.1 ∧ t.hdeps = kv.2 ∧ kv.2 ≠ []
  recd : ∀ t ∈ txs s, t.hdeps ≠ [] → (t.id, t.hdeps) ∈ s.hdeps

theorem removeEntry_hdeps (s : Pool) (id : Nat) (e : Entry) (h : getEntry s id = some e) :
    (removeEntry s id).1.hdeps = s.hdeps.filter (·.1 ≠ e.tx.id) := by
  by_cases hc : (isBetween s.links id && s.cfg.fixMid) = true <;> simp [removeEntry, h, hc, removeEdges]

theorem hdepOK_rm (s : Pool) (id : Nat) (h : HdepOK s) : HdepOK (removeEntry s id).1 := by
  cases hg : getEntry s id with
  | none => rw [removeEntry_none s id hg]; exact h
  | some e =>
    obtain ⟨ht, _⟩ := removeEntry_txs s id e hg
    obtain ⟨_, hid⟩ := getEntry_some hg
    have hh := removeEntry_hdeps s id e hg
    rw [hid] at hh
    have hmem : ∀ t, t ∈ txs (removeEntry s id).1 ↔ t ∈ txs s ∧ t.id ≠ id := by
      intro t; rw [ht]; simp [List.mem_filter]
    constructor
    · rw [hh]; exact List.Nodup.sublist (List.Sublist.map _ List.filter_sublist) h.keys
    · intro kv hkv
      rw [hh] at hkv
      obtain ⟨hk, hne⟩ := List.mem_filter.mp hkv
      simp only [ne_eq, decide_eq_true_eq] at hne
      obtain ⟨t, ht', a, b, c⟩ := h.own kv hk
      exact ⟨t, (hmem t).mpr ⟨ht', by rw [a]; exact hne⟩, a, b, c⟩
    · intro t ht' hne
      obtain ⟨a, b⟩ := (hmem t).mp ht'
      rw [hh]
      exact List.mem_filter.mpr ⟨h.recd t a hne, by simpa using b⟩

theorem preSub_hdeps (s : Pool) (ids : List Nat) : (preSubDescendants s ids).hdeps = s.hdeps := by
  unfold preSubDescendants
  induction ids generalizing s with
  | nil => rfl
  | cons a l ih =>
    simp only [List.foldl_cons]
    cases hg : getEntry s a with
    | none => exact ih s
    | some e => simp only; rw [ih]

theorem hdepOK_rmd (s : Pool) (id : Nat) (h : HdepOK s) : HdepOK (removeWithDesc s id).1 := by
  refine removeWithDesc_of (P := HdepOK) hdepOK_rm ?_ ?_ s id h
  · intro s ids hs
    have h1 := (preSub_txs s ids).1
    have h2 := preSub_hdeps s ids
    exact ⟨by rw [h2]; exact hs.keys, by rw [h1, h2]; exact hs.own, by rw [h1, h2]; exact hs.recd⟩
  · intro s L hs; exact ⟨hs.keys, hs.own, hs.recd⟩

theorem recordAncestors_hdeps {s s' : Pool} {e e' : Entry} {a p : List Nat}
    (h : recordAncestors s e a p = some (s', e')) : s'.hdeps = s.hdeps := by
  unfold recordAncestors at h
  split at h
  · simp only [Option.some.injEq, Prod.mk.injEq] at h
    obtain ⟨hs, _⟩ := h
    subst hs; rfl
  · cases h

/-- what `check_and_record_ancestors` guarantees for the header-deps clause -/
def AncGoodH (s : Pool) (e : Entry) : AncRes → Prop
  | .ok s' e' _ => HdepOK s' ∧ Shrinks s' s ∧ e'.tx = e.tx
  | .panic s' => HdepOK s'
  | .rejAfter s' => HdepOK s'
  | .rej => True

theorem recordAncestors_goodH {s s0 : Pool} (hs : HdepOK s) (hsh : Shrinks s s0) (e : Entry) (a p ev : List Nat) :
    AncGoodH s0 e (match recordAncestors s e a p with
      | some (s', e') => AncRes.ok s' e' ev
      | none => AncRes.panic s) := by
  cases hr : recordAncestors s e a p with
  | none => exact hs
  | some r =>
    obtain ⟨s', e'⟩ := r
    obtain ⟨h1, h2, h3⟩ := recordAncestors_txs hr
    have h4 := recordAncestors_hdeps hr
    refine ⟨⟨by rw [h4]; exact hs.keys, by rw [h1, h4]; exact hs.own, by rw [h1, h4]; exact hs.recd⟩, ?_, h3⟩
    exact ⟨fun q hq => hsh.1 q (by rw [← h2]; exact hq), fun t ht => hsh.2 t (by rw [← h1]; exact ht)⟩

theorem checkAnc_hdep {s : Pool} (h : HdepOK s) (e : Entry) : AncGoodH s e (checkAndRecordAncestors s e) := by
  unfold checkAndRecordAncestors
  simp only
  split
  · exact recordAncestors_goodH h (Shrinks.refl s) e _ _ _
  · split
    · have hl := evictLoop_of (P := HdepOK) hdepOK_rmd
        (((byEvictKey s.entries).filter (·.tx.id ∈ (txAncestors s e.tx).2.2)).map (·.tx.id)) s
        ((txAncestors s e.tx).1.length + 1) (txAncestors s e.tx).2.1 [] h
      have hsh := evictLoop_shrinks
        (((byEvictKey s.entries).filter (·.tx.id ∈ (txAncestors s e.tx).2.2)).map (·.tx.id)) s
        ((txAncestors s e.tx).1.length + 1) (txAncestors s e.tx).2.1 []
      split
      · exact hl
      · split
        · exact recordAncestors_goodH hl hsh e _ _ _
        · exact hl
    · trivial

theorem recordDescendants_hdeps (s : Pool) (e : Entry) : (recordDescendants s e).hdeps = s.hdeps := by
  unfold recordDescendants
  simp only
  split
  · rfl
  · split <;> rfl

theorem hdepOK_add (s : Pool) (t : Tx) (st : Status) (ts : Nat) (h : HdepOK s) : HdepOK (addEntry s t st ts).1 := by
  unfold addEntry
  split
  · exact h
  · rename_i hdup
    split
    · exact h
    · have hg := checkAnc_hdep h (Entry.fresh t st ts)
      split
      · exact h
      · rename_i s' heq; rw [heq] at hg; exact hg
      · rename_i s' heq; rw [heq] at hg; exact hg
      · rename_i s1 e ev heq
        rw [heq] at hg
        obtain ⟨h1, hsh, hetx⟩ := hg
        have hetx' : e.tx = t := hetx
        simp only [Bool.not_eq_true, Option.isSome_eq_false_iff, Option.isNone_iff_eq_none] at hdup
        have hfresh : ∀ x ∈ txs s1, x.id ≠ t.id := fun x hx => getEntry_none hdup x (hsh.2 x hx)
        -- the final state: its transactions and its header-deps map
        have htx : txs ({ track (recordDescendants ({ recordEdges s1 t with entries := (recordEdges s1 t).entries ++ [e] }) e) none (some st) with
            totalSize := (track (recordDescendants ({ recordEdges s1 t with entries := (recordEdges s1 t).entries ++ [e] }) e) none (some st)).totalSize + t.size,
            totalCycles := (track (recordDescendants ({ recordEdges s1 t with entries := (recordEdges s1 t).entries ++ [e] }) e) none (some st)).totalCycles + t.cycles })
            = txs s1 ++ [t] := by
          show List.map _ (track _ _ _).entries = _
          rw [track_entries]
          have := (recordDescendants_txs ({ recordEdges s1 t with entries := (recordEdges s1 t).entries ++ [e] }) e).1
          simp only [txs] at this ⊢
          rw [this]
          simp [recordEdges, hetx']
        have hhd : ({ track (recordDescendants ({ recordEdges s1 t with entries := (recordEdges s1 t).entries ++ [e] }) e) none (some st) with
            totalSize := (track (recordDescendants ({ recordEdges s1 t with entries := (recordEdges s1 t).entries ++ [e] }) e) none (some st)).totalSize + t.size,
            totalCycles := (track (recordDescendants ({ recordEdges s1 t with entries := (recordEdges s1 t).entries ++ [e] }) e) none (some st)).totalCycles + t.cycles }).hdeps
            = if t.hdeps.isEmpty then s1.hdeps else (s1.hdeps.filter (·.1 ≠ t.id)) ++ [(t.id, t.hdeps)] := by
          show (track _ _ _).hdeps = _
          rw [track_hdeps, recordDescendants_hdeps]
          rfl
        constructor
        · rw [hhd]
          split
          · exact h1.keys
          · rw [List.map_append]
            refine List.nodup_append.mpr ⟨List.Nodup.sublist (List.Sublist.map _ List.filter_sublist) h1.keys, by simp, ?_⟩
            intro a ha b hb hab
            obtain ⟨kv, hkv, rfl⟩ := List.mem_map.mp ha
            have hb' : b = t.id := by simpa using hb
            have := (List.mem_filter.mp hkv).2
            simp only [ne_eq, decide_eq_true_eq] at this
            exact this (hab.trans hb')
        · intro kv hkv
          rw [htx]
          rw [hhd] at hkv
          split at hkv
          · obtain ⟨x, hx, a, b, c⟩ := h1.own kv hkv
            exact ⟨x, List.mem_append.mpr (Or.inl hx), a, b, c⟩
          · rename_i hne
            rcases List.mem_append.mp hkv with hk | hk
            · obtain ⟨x, hx, a, b, c⟩ := h1.own kv (List.mem_filter.mp hk).1
              exact ⟨x, List.mem_append.mpr (Or.inl hx), a, b, c⟩
            · have : kv = (t.id, t.hdeps) := by simpa using hk
              subst this
              refine ⟨t, List.mem_append.mpr (Or.inr (by simp)), rfl, rfl, ?_⟩
              intro he; exact hne (List.isEmpty_iff.mpr he)
        · intro x hx hne
          rw [htx] at hx
          rw [hhd]
          rcases List.mem_append.mp hx with hx | hx
          · have hr := h1.recd x hx hne
            split
            · exact hr
            · refine List.mem_append.mpr (Or.inl (List.mem_filter.mpr ⟨hr, ?_⟩))
              simpa using hfresh x hx
          · have : x = t := by simpa using hx
            subst this
            split
            · rename_i hem
              exact absurd (List.isEmpty_iff.mp hem) hne
            · exact List.mem_append.mpr (Or.inr (by simp))

theorem setEntry_txs_hdeps (s : Pool) (id : Nat) (st : Status) :
    txs (setEntry s id st) = txs s ∧ (setEntry s id st).hdeps = s.hdeps := by
  unfold setEntry
  split
  · exact ⟨rfl, rfl⟩
  · refine ⟨?_, by rw [track_hdeps]⟩
    show List.map _ (track _ _ _).entries = _
    rw [track_entries]
    simp only [txs, List.map_map]
    apply List.map_congr_left; intro x _; simp only [Function.comp]; split <;> rfl

theorem hdepOK_set (s : Pool) (id : Nat) (st : Status) (h : HdepOK s) : HdepOK (setEntry s id st) := by
  obtain ⟨h1, h2⟩ := setEntry_txs_hdeps s id st
  exact ⟨by rw [h2]; exact h.keys, by rw [h1, h2]; exact h.own, by rw [h1, h2]; exact h.recd⟩

theorem hdepOK_closed : CoreClosed HdepOK where
  rm := hdepOK_rm
  rmd := hdepOK_rmd
  add := hdepOK_add
  set := hdepOK_set
  stripIn := fun _ _ id h _ => hdepOK_rmd _ id ⟨h.keys, h.own, h.recd⟩
  stripDep := fun _ _ _ h => foldRmd_of (P := HdepOK) hdepOK_rmd _ _ _ ⟨h.keys, h.own, h.recd⟩

/-- the row of a pooled transaction is determined: the map is a function of the pooled transactions -/
theorem HdepOK.row_iff {s : Pool} (h : HdepOK s) (id : Nat) (hs : List Nat) :
    (id, hs) ∈ s.hdeps ↔ ∃ t ∈ txs s, t.id = id ∧ t.hdeps = hs ∧ hs ≠ [] := by
  constructor
  · intro hm; exact h.own (id, hs) hm
  · rintro ⟨t, ht, rfl, rfl, hne⟩; exact h.recd t ht hne

/-- `resolve_conflict_header_dep(hs)`: afterwards no pooled transaction has a header dep among `hs` -/
theorem resolveHeaders_clears {s : Pool} (h : HdepOK s) (hL : LinksOK s) (hs : List Nat) :
    ∀ t ∈ txs (resolveHeaders s hs).1, ∀ x ∈ t.hdeps, x ∉ hs := by
  intro t ht x hx hxs
  unfold resolveHeaders at ht
  obtain ⟨h1, h2⟩ := foldRmd_gone ((s.hdeps.filter fun kv => kv.2.any (· ∈ hs)).map (·.1)) s [] hL
  have hts := h1 t ht
  have hne : t.hdeps ≠ [] := fun e => by rw [e] at hx; cases hx
  have hrow := h.recd t hts hne
  apply h2 t ht
  refine List.mem_map.mpr ⟨(t.id, t.hdeps), List.mem_filter.mpr ⟨hrow, ?_⟩, rfl⟩
  exact List.any_eq_true.mpr ⟨x, hx, by simpa using hxs⟩

/-- `resolve_conflict_header_dep(hs)` removes only users of `hs` and their descendants: a pooled transaction
    that survives is untouched, and one that is removed … is stated on the edge level (`Shrinks`) -/
theorem resolveHeaders_shrinks {s : Pool} (hL : LinksOK s) (hs : List Nat) :
    ∀ t ∈ txs (resolveHeaders s hs).1, t ∈ txs s := by
  intro t ht
  unfold resolveHeaders at ht
  exact (foldRmd_gone _ s [] hL).1 t ht

end CkbVerif.Pool
