import CkbVerif.Lemmas.IndexerRollback

/-! `rollback (appendCore s b)` restores every row of `s`, family by family (C18). -/
namespace CkbVerif.Indexer

variable {s : Store} {b : Block}

/-- OutPoint rows (the live-cell set) are restored -/
theorem rb_outPoint (wf : WFRollback s b) (op : OutPoint) :
    get (rollback (appendCore s b)) (.outPoint op) = get s (.outPoint op) := by
  rw [get_rollback_nonheader wf _ (by intro _ _ _ h; cases h)]
  by_cases hC : ∃ c0, Created b op c0
  · obtain ⟨c0, hc0⟩ := hC
    rw [created_fresh s b wf.toWFAppend op c0 hc0]
    have hfresh := created_fresh s b wf.toWFAppend op c0 hc0
    apply get_commit_all_del
    · intro o ho hk
      obtain ⟨i, tx, htx, hm, ho⟩ := (mem_Rtx wf o).mp ho
      rcases ho with ⟨oi, out, hout, ho⟩ | ⟨hi, ii, op', c', hop', hc', ho⟩ | rfl
      · rw [mem_uncreateOps] at ho
        rcases ho with rfl | rfl | ⟨t, _, rfl | rfl⟩ | rfl <;> simp [BOp.key] at hk
        simp [hk]
      · rw [mem_unconsumeOps] at ho
        rcases ho with rfl | rfl | ⟨t, _, rfl | rfl⟩ | rfl <;> simp [BOp.key] at hk
        subst hk
        rw [hfresh] at hc'
        cases hc'
      · simp [BOp.key] at hk
    · obtain ⟨i, tx, out, htx, hid, hout, _⟩ := hc0
      refine ⟨.del (.outPoint op), ?_, rfl⟩
      apply uncreate_mem_Rtx wf i tx op.idx out htx hout
      rw [mem_uncreateOps]
      right; right; right
      cases op
      simp_all
  · by_cases hS : ∃ c0, SpentIn s b op c0
    · obtain ⟨c0, hs0⟩ := hS
      obtain ⟨i, tx, ii, htx, hi, hop, hc⟩ := hs0
      rw [hc]
      apply get_commit_all_put
      · intro o ho hk
        obtain ⟨i', tx', htx', hm', ho⟩ := (mem_Rtx wf o).mp ho
        rcases ho with ⟨oi, out, hout, ho⟩ | ⟨hi', ii', op', c', hop', hc', ho⟩ | rfl
        · rw [mem_uncreateOps] at ho
          rcases ho with rfl | rfl | ⟨t, _, rfl | rfl⟩ | rfl <;> simp [BOp.key] at hk
          exfalso
          apply hC
          refine ⟨⟨b.number, i', out⟩, i', tx', out, htx', ?_, ?_, rfl⟩
          · rw [← hk]
          · rw [← hk]; exact hout
        · rw [mem_unconsumeOps] at ho
          rcases ho with rfl | rfl | ⟨t, _, rfl | rfl⟩ | rfl <;> simp [BOp.key] at hk
          subst hk
          rw [hc] at hc'
          cases hc'
          rfl
        · simp [BOp.key] at hk
      · refine ⟨.put (.outPoint op) (.cell c0), ?_, rfl⟩
        apply unconsume_mem_Rtx wf i tx ii op c0 htx hi hop hc
        rw [mem_unconsumeOps]
        right; right; right; rfl
    · rw [← outPoint_other s b wf.toWFAppend op (fun c h => hC ⟨c, h⟩) (fun c h => hS ⟨c, h⟩)]
      apply get_commit_untouched
      intro o ho hk
      obtain ⟨i', tx', htx', hm', ho⟩ := (mem_Rtx wf o).mp ho
      rcases ho with ⟨oi, out, hout, ho⟩ | ⟨hi', ii', op', c', hop', hc', ho⟩ | rfl
      · rw [mem_uncreateOps] at ho
        rcases ho with rfl | rfl | ⟨t, _, rfl | rfl⟩ | rfl <;> simp [BOp.key] at hk
        apply hC
        refine ⟨⟨b.number, i', out⟩, i', tx', out, htx', ?_, ?_, rfl⟩
        · rw [← hk]
        · rw [← hk]; exact hout
      · rw [mem_unconsumeOps] at ho
        rcases ho with rfl | rfl | ⟨t, _, rfl | rfl⟩ | rfl <;> simp [BOp.key] at hk
        subst hk
        exact hS ⟨c', i', tx', ii', htx', hi', hop', hc'⟩
      · simp [BOp.key] at hk

/-- CellLockScript rows (live cells by lock script) are restored -/
theorem rb_cellLock (wf : WFRollback s b) (sc : Script) (bn txi io : Nat) :
    get (rollback (appendCore s b)) (.cellLock sc bn txi io) = get s (.cellLock sc bn txi io) := by
  rw [get_rollback_nonheader wf _ (by intro _ _ _ h; cases h)]
  by_cases hA : ∃ (tx : Tx) (out : Output), b.txs[txi]? = some tx ∧ tx.outputs[io]? = some out ∧
      out.lock = sc ∧ bn = b.number
  · obtain ⟨tx, out, htx, hout, hl, hb⟩ := hA
    subst hl; subst hb
    rw [wf.freshLock]
    apply get_commit_all_del
    · intro o ho hk
      obtain ⟨i', tx', htx', hm', ho⟩ := (mem_Rtx wf o).mp ho
      rcases ho with ⟨oi, out', hout', ho⟩ | ⟨hi', ii', op', c', hop', hc', ho⟩ | rfl
      · rw [mem_uncreateOps] at ho
        rcases ho with rfl | rfl | ⟨t, _, rfl | rfl⟩ | rfl <;> simp [BOp.key] at hk
        simp [hk]
      · rw [mem_unconsumeOps] at ho
        rcases ho with rfl | rfl | ⟨t, _, rfl | rfl⟩ | rfl <;> simp [BOp.key] at hk
        exact absurd hk.2.1 (wf.oldBn op' c' hc')
      · simp [BOp.key] at hk
    · refine ⟨.del (.cellLock out.lock b.number txi io), ?_, rfl⟩
      apply uncreate_mem_Rtx wf txi tx io out htx hout
      rw [mem_uncreateOps]
      left; rfl
  · by_cases hB : ∃ (op : OutPoint) (c : Cell), SpentIn s b op c ∧ c.out.lock = sc ∧ c.bn = bn ∧
        c.txIdx = txi ∧ op.idx = io
    · obtain ⟨op, c, hs, hl, hb, hti, hio⟩ := hB
      subst hl; subst hb; subst hti; subst hio
      have hg : get s (.outPoint op) = some (.cell c) := by
        obtain ⟨_, _, _, _, _, _, hg⟩ := hs; exact hg
      have hrow : get s (.cellLock c.out.lock c.bn c.txIdx op.idx) = some (.tx op.tx) :=
        (wf.lockInv c.out.lock c.bn c.txIdx op.idx op.tx).mpr ⟨c, by cases op; exact hg, rfl, rfl, rfl⟩
      rw [hrow]
      obtain ⟨i, tx, ii, htx, hi, hop, _⟩ := hs
      apply get_commit_all_put
      · intro o ho hk
        obtain ⟨i', tx', htx', hm', ho⟩ := (mem_Rtx wf o).mp ho
        rcases ho with ⟨oi, out', hout', ho⟩ | ⟨hi', ii', op', c', hop', hc', ho⟩ | rfl
        · rw [mem_uncreateOps] at ho
          rcases ho with rfl | rfl | ⟨t, _, rfl | rfl⟩ | rfl <;> simp [BOp.key] at hk
          exact absurd hk.2.1.symm (wf.oldBn op c hg)
        · rw [mem_unconsumeOps] at ho
          rcases ho with rfl | rfl | ⟨t, _, rfl | rfl⟩ | rfl <;> simp [BOp.key] at hk
          have hrow' : get s (.cellLock c'.out.lock c'.bn c'.txIdx op'.idx) = some (.tx op'.tx) :=
            (wf.lockInv c'.out.lock c'.bn c'.txIdx op'.idx op'.tx).mpr ⟨c', by cases op'; exact hc', rfl, rfl, rfl⟩
          obtain ⟨h1, h2, h3, h4⟩ := hk
          rw [h1, h2, h3, h4, hrow] at hrow'
          have : op.tx = op'.tx := by simpa using hrow'
          simp [h1, h2, h3, h4, this]
        · simp [BOp.key] at hk
      · refine ⟨.put (.cellLock c.out.lock c.bn c.txIdx op.idx) (.tx op.tx), ?_, rfl⟩
        apply unconsume_mem_Rtx wf i tx ii op c htx hi hop hg
        rw [mem_unconsumeOps]
        left; rfl
    · rw [← cellLock_other s b wf.toWFAppend sc bn txi io hA hB]
      apply get_commit_untouched
      intro o ho hk
      obtain ⟨i', tx', htx', hm', ho⟩ := (mem_Rtx wf o).mp ho
      rcases ho with ⟨oi, out', hout', ho⟩ | ⟨hi', ii', op', c', hop', hc', ho⟩ | rfl
      · rw [mem_uncreateOps] at ho
        rcases ho with rfl | rfl | ⟨t, _, rfl | rfl⟩ | rfl <;> simp [BOp.key] at hk
        obtain ⟨hl, hb, hi, hoi⟩ := hk
        subst hi; subst hoi
        exact hA ⟨tx', out', htx', hout', hl, hb.symm⟩
      · rw [mem_unconsumeOps] at ho
        rcases ho with rfl | rfl | ⟨t, _, rfl | rfl⟩ | rfl <;> simp [BOp.key] at hk
        exact hB ⟨op', c', ⟨i', tx', ii', htx', hi', hop', hc'⟩, hk.1, hk.2.1, hk.2.2.1, hk.2.2.2⟩
      · simp [BOp.key] at hk

end CkbVerif.Indexer

namespace CkbVerif.Indexer

variable {s : Store} {b : Block}

/-- TxLockScript rows (transaction history by lock script) are restored -/
theorem rb_txLock (wf : WFRollback s b) (sc : Script) (bn txi io : Nat) (t : IoType) :
    get (rollback (appendCore s b)) (.txLock sc bn txi io t) = get s (.txLock sc bn txi io t) := by
  rw [get_rollback_nonheader wf _ (by intro _ _ _ h; cases h)]
  have hdels : ∀ o ∈ Rtx s b, o.key = .txLock sc bn txi io t → o = .del (.txLock sc bn txi io t) ∧ bn = b.number := by
    intro o ho hk
    obtain ⟨i', tx', htx', hm', ho⟩ := (mem_Rtx wf o).mp ho
    rcases ho with ⟨oi, out', hout', ho⟩ | ⟨hi', ii', op', c', hop', hc', ho⟩ | rfl
    · rw [mem_uncreateOps] at ho
      rcases ho with rfl | rfl | ⟨t', _, rfl | rfl⟩ | rfl <;> simp [BOp.key] at hk
      simp [hk]
    · rw [mem_unconsumeOps] at ho
      rcases ho with rfl | rfl | ⟨t', _, rfl | rfl⟩ | rfl <;> simp [BOp.key] at hk
      simp [hk]
    · simp [BOp.key] at hk
  rw [get_commit_dels _ _ _ (fun o ho hk => (hdels o ho hk).1)]
  split
  · rename_i htouched
    obtain ⟨o, ho, hk⟩ := htouched
    have hb := (hdels o ho hk).2
    subst hb
    rw [wf.freshTxLock]
  · rename_i hnot
    rw [get_appendCore_nonheader s b _ (by intro _ _ _ h; cases h)]
    apply get_commit_untouched
    intro o ho hk
    apply hnot
    rcases txsOps_shape s b wf.toWFAppend o ho with ⟨i', tx', ii', op', c', htx', hi', hop', hc', ho'⟩ |
      ⟨i', tx', out', oi', htx', hout', ho'⟩ | ⟨i', tx', htx', rfl⟩
    · rw [mem_consumeOps] at ho'
      rcases ho' with rfl | rfl | ⟨t', _, rfl | rfl⟩ | rfl | rfl <;> simp [BOp.key] at hk
      refine ⟨.del (.txLock c'.out.lock b.number i' ii' .input), ?_, by simp [BOp.key, hk]⟩
      apply unconsume_mem_Rtx wf i' tx' ii' op' c' htx' hi' hop' hc'
      rw [mem_unconsumeOps]
      right; left; rfl
    · rw [mem_createOps] at ho'
      rcases ho' with rfl | rfl | ⟨t', _, rfl | rfl⟩ | rfl <;> simp [BOp.key] at hk
      refine ⟨.del (.txLock out'.lock b.number i' oi' .output), ?_, by simp [BOp.key, hk]⟩
      apply uncreate_mem_Rtx wf i' tx' oi' out' htx' hout'
      rw [mem_uncreateOps]
      right; left; rfl
    · simp [BOp.key] at hk

/-- TxHash rows are restored -/
theorem rb_txHash (wf : WFRollback s b) (id : Nat) :
    get (rollback (appendCore s b)) (.txHash id) = get s (.txHash id) := by
  rw [get_rollback_nonheader wf _ (by intro _ _ _ h; cases h)]
  have hdels : ∀ o ∈ Rtx s b, o.key = .txHash id → o = .del (.txHash id) ∧ ∃ tx ∈ b.txs, tx.id = id := by
    intro o ho hk
    obtain ⟨i', tx', htx', hm', ho⟩ := (mem_Rtx wf o).mp ho
    rcases ho with ⟨oi, out', hout', ho⟩ | ⟨hi', ii', op', c', hop', hc', ho⟩ | rfl
    · rw [mem_uncreateOps] at ho
      rcases ho with rfl | rfl | ⟨t', _, rfl | rfl⟩ | rfl <;> simp [BOp.key] at hk
    · rw [mem_unconsumeOps] at ho
      rcases ho with rfl | rfl | ⟨t', _, rfl | rfl⟩ | rfl <;> simp [BOp.key] at hk
    · simp only [BOp.key, Key.txHash.injEq] at hk
      subst hk
      exact ⟨rfl, tx', List.mem_of_getElem? htx', rfl⟩
  rw [get_commit_dels _ _ _ (fun o ho hk => (hdels o ho hk).1)]
  split
  · rename_i htouched
    obtain ⟨o, ho, hk⟩ := htouched
    obtain ⟨_, tx, htx, hid⟩ := hdels o ho hk
    subst hid
    rw [wf.freshTx tx htx]
  · rename_i hnot
    rw [get_appendCore_nonheader s b _ (by intro _ _ _ h; cases h)]
    apply get_commit_untouched
    intro o ho hk
    apply hnot
    rw [mem_txsOps] at ho
    obtain ⟨tx, i, htx, ho⟩ := ho
    rcases ho with ho | ho | ⟨hm, rfl⟩
    · rw [mem_inputsOps] at ho
      obtain ⟨_, op, ii, c, _, _, ho⟩ := ho
      rw [mem_consumeOps] at ho
      rcases ho with rfl | rfl | ⟨t', _, rfl | rfl⟩ | rfl | rfl <;> simp [BOp.key] at hk
    · rw [mem_outputsOps] at ho
      obtain ⟨out, oi, _, ho⟩ := ho
      rw [mem_createOps] at ho
      rcases ho with rfl | rfl | ⟨t', _, rfl | rfl⟩ | rfl <;> simp [BOp.key] at hk
    · simp only [BOp.key, Key.txHash.injEq] at hk
      refine ⟨.del (.txHash tx.id), ?_, by simp [BOp.key, hk]⟩
      exact (mem_Rtx wf _).mpr ⟨i, tx, htx, hm, Or.inr (Or.inr rfl)⟩

/-- Header rows are restored: the appended block's row disappears, all others are untouched -/
theorem rb_header (wf : WFRollback s b) (bn h : Nat) (f : Bool) :
    get (rollback (appendCore s b)) (.header bn h f) = get s (.header bn h f) := by
  have hRtx : ∀ o ∈ Rtx s b, o.key ≠ .header bn h f := by
    intro o ho hk
    obtain ⟨i', tx', htx', hm', ho⟩ := (mem_Rtx wf o).mp ho
    rcases ho with ⟨oi, out', hout', ho⟩ | ⟨hi', ii', op', c', hop', hc', ho⟩ | rfl
    · rw [mem_uncreateOps] at ho
      rcases ho with rfl | rfl | ⟨t', _, rfl | rfl⟩ | rfl <;> simp [BOp.key] at hk
    · rw [mem_unconsumeOps] at ho
      rcases ho with rfl | rfl | ⟨t', _, rfl | rfl⟩ | rfl <;> simp [BOp.key] at hk
    · simp [BOp.key] at hk
  have hs_none : ∀ f', get s (.header b.number b.hash f') = none := by
    intro f'
    apply get_none_of
    intro e he heq
    have := wf.hdrBelow e he _ _ _ heq
    omega
  have hA : ∀ k', (∃ bn' h' f', k' = Key.header bn' h' f') → get (commit s (txsOps s b)) k' = get s k' := by
    rintro k' ⟨bn', h', f', rfl⟩
    apply get_commit_untouched
    intro o ho hk
    have := txsOps_ok s b o ho
    rw [hk] at this
    simp [appendKeyOk] at this
  unfold rollback
  rw [rollbackOps_append wf, commit_append]
  by_cases hk : Key.header b.number b.hash (hdrFlag s b) = Key.header bn h f
  · rw [← hk]
    show get (applyOp _ (.del _)) _ = _
    rw [get_applyOp_del, hs_none]
  · show get (applyOp (commit (appendCore s b) (Rtx s b)) (.del (.header b.number b.hash (hdrFlag s b)))) _ = _
    rw [get_applyOp_other _ _ _ (by simpa [BOp.key] using hk), get_commit_untouched _ _ _ hRtx,
      appendCore_eq', get_cons]
    simp only [hk, if_false]
    rw [get_del_other _ _ _ hk]
    exact hA _ ⟨_, _, _, rfl⟩

end CkbVerif.Indexer
