/-
Lemmas for `Model/FreezeCache.lean`: under the freezer invariant the cached accessors answer a
main-chain block like the uncached ones, whatever the caches hold.
-/
import CkbVerif.Model.FreezeCache
import CkbVerif.Lemmas.Freeze
namespace CkbVerif.FreezeCache
open CkbVerif.Store CkbVerif.Freeze

theorem hdrC_main (s : FS) (h : Inv s) (c : Caches) (id : Nat) (blk : Block) (hm : OnMain s id blk) :
    (hdrC s c id).1 = some blk := by
  unfold hdrC
  by_cases hc : c.hdr.contains id = true
  · simp only [hc, if_true]; exact hm.1
  · simp only [hc, h.hdrOk id blk hm, hm.1, if_true]
    rfl

theorem frozenByHeader_eq (s : FS) (id : Nat) (blk : Block) (h1 : s.hdr id = true)
    (h2 : s.v.r.bodies id = some blk) : getFrozen s id = frozenByHeader s id blk := by
  unfold getFrozen frozenByHeader
  simp only [h1, h2, Bool.not_true, Bool.false_eq_true, if_false]
  rfl

theorem frozenC_main (s : FS) (h : Inv s) (c : Caches) (id : Nat) (blk : Block) (hm : OnMain s id blk) :
    (frozenC s c id).1 = getFrozen s id := by
  unfold frozenC
  have := hdrC_main s h c id blk hm
  cases hr : hdrC s c id with
  | mk o c1 =>
    rw [hr] at this
    simp only at this
    subst this
    simp only
    exact (frozenByHeader_eq s id blk (h.hdrOk id blk hm) hm.1).symm

theorem getFrozen_of_nobody (s : FS) (h : Inv s) (id : Nat) (blk : Block) (hm : OnMain s id blk)
    (hb : s.body id = false) : getFrozen s id = some blk := by
  have := getPart_main s h id blk hm
  unfold getPart at this
  simpa [hb] using this

theorem getFrozen_main_cases (s : FS) (h : Inv s) (id : Nat) (blk : Block) (hm : OnMain s id blk) :
    getFrozen s id = some blk ∨ (getFrozen s id = none ∧ s.body id = true) := by
  rw [getFrozen_main s h id blk hm]
  by_cases hc : 0 < blk.number ∧ blk.number < frozenNumber s
  · left; simp [hc]
  · right
    refine ⟨by simp [hc], ?_⟩
    cases hb : s.body id with
    | true => rfl
    | false =>
      have := getFrozen_of_nobody s h id blk hm hb
      rw [getFrozen_main s h id blk hm] at this
      simp [hc] at this

theorem rowOrFrozen_main (s : FS) (h : Inv s) (c : Caches) (id : Nat) (blk : Block) (hm : OnMain s id blk) :
    (rowOrFrozen s c id).1 = some blk := by
  unfold rowOrFrozen
  cases hb : s.body id with
  | true => simp only [if_true]; exact hm.1
  | false =>
    simp only [Bool.false_eq_true, if_false]
    rw [frozenC_main s h c id blk hm]
    exact getFrozen_of_nobody s h id blk hm hb

theorem unclesC_main (s : FS) (h : Inv s) (c : Caches) (id : Nat) (blk : Block) (hm : OnMain s id blk) :
    (unclesC s c id).1 = some blk := by
  unfold unclesC
  by_cases hc : c.unc.contains id = true
  · simp only [hc, if_true]; exact hm.1
  · simp only [hc]
    have := rowOrFrozen_main s h c id blk hm
    cases hr : rowOrFrozen s c id with
    | mk o c1 => rw [hr] at this; simp only at this; subst this; rfl

theorem proposalsC_main (s : FS) (h : Inv s) (c : Caches) (id : Nat) (blk : Block) (hm : OnMain s id blk) :
    (proposalsC s c id).1 = some blk := by
  unfold proposalsC
  by_cases hc : c.prop.contains id = true
  · simp only [hc, if_true]; exact hm.1
  · simp only [hc]
    have := rowOrFrozen_main s h c id blk hm
    cases hr : rowOrFrozen s c id with
    | mk o c1 => rw [hr] at this; simp only at this; subst this; rfl

theorem extC_main (s : FS) (h : Inv s) (c : Caches) (id : Nat) (blk : Block) (hm : OnMain s id blk) :
    (extC s c id).1 = some blk := by
  unfold extC
  by_cases hc : c.ext.contains id = true
  · simp only [hc, if_true]; exact hm.1
  · simp only [hc]
    have := rowOrFrozen_main s h c id blk hm
    cases hr : rowOrFrozen s c id with
    | mk o c1 => rw [hr] at this; simp only at this; subst this; rfl

theorem bodyRows_main (s : FS) (id : Nat) (blk : Block) (hm : OnMain s id blk) :
    bodyRows s id = if s.body id then blk.txs else [] := by
  unfold bodyRows
  simp [hm.1]

theorem bodyC_main (s : FS) (h : Inv s) (c : Caches) (id : Nat) (blk : Block) (hm : OnMain s id blk) :
    (bodyC s c id).1 = blk.txs := by
  unfold bodyC
  simp only
  have hf := frozenC_main s h c id blk hm
  rw [bodyRows_main s id blk hm]
  by_cases he : (if s.body id = true then blk.txs else []).isEmpty = true
  · simp only [he, if_true]
    cases hr : frozenC s c id with
    | mk o c1 =>
      rw [hr] at hf
      simp only at hf
      rcases getFrozen_main_cases s h id blk hm with hg | ⟨hg, hb⟩
      · rw [hg] at hf; subst hf; rfl
      · rw [hg] at hf; subst hf
        simp only [hb, if_true] at he ⊢
  · simp only [he]
    cases hb : s.body id with
    | true => simp
    | false => simp [hb] at he

theorem txhC_main (s : FS) (h : Inv s) (c : Caches) (id : Nat) (blk : Block) (hm : OnMain s id blk) :
    (txhC s c id).1 = blk.txs.map (·.id) := by
  unfold txhC
  by_cases hc : c.txh.contains id = true
  · simp only [hc, if_true, hm.1]; rfl
  · simp only [hc]
    rw [bodyC_main s h c id blk hm]
    rfl

theorem cellbaseC_main (s : FS) (h : Inv s) (c : Caches) (id : Nat) (blk : Block) (hm : OnMain s id blk) :
    (cellbaseC s c id).1 = blk.txs.head? := by
  unfold cellbaseC
  rw [bodyRows_main s id blk hm]
  have hf := frozenC_main s h c id blk hm
  cases hh : (if s.body id = true then blk.txs else []).head? with
  | some t =>
    simp only
    cases hb : s.body id with
    | true => simp [hb] at hh; exact hh.symm
    | false => simp [hb] at hh
  | none =>
    simp only
    cases hr : frozenC s c id with
    | mk o c1 =>
      rw [hr] at hf
      simp only at hf
      rcases getFrozen_main_cases s h id blk hm with hg | ⟨hg, hb⟩
      · rw [hg] at hf; subst hf; rfl
      · rw [hg] at hf; subst hf
        simp only [hb, if_true] at hh
        simp only
        exact hh.symm

theorem blockC_main (s : FS) (h : Inv s) (c : Caches) (id : Nat) (blk : Block) (hm : OnMain s id blk) :
    (blockC s c id).1 = .some ⟨blk, blk.txs, true⟩ := by
  unfold blockC
  have hh := hdrC_main s h c id blk hm
  cases hr : hdrC s c id with
  | mk o c1 =>
    rw [hr] at hh
    simp only at hh
    subst hh
    simp only
    rw [← frozenByHeader_eq s id blk (h.hdrOk id blk hm) hm.1]
    rcases getFrozen_main_cases s h id blk hm with hg | ⟨hg, _⟩
    · rw [hg]
    · rw [hg]
      simp only
      have hb := bodyC_main s h c1 id blk hm
      have hu := unclesC_main s h (bodyC s c1 id).2 id blk hm
      cases hru : unclesC s (bodyC s c1 id).2 id with
      | mk ou c3 =>
        rw [hru] at hu
        simp only at hu
        subst hu
        simp only
        have hp := proposalsC_main s h c3 id blk hm
        cases hrp : proposalsC s c3 id with
        | mk op c4 =>
          rw [hrp] at hp
          simp only at hp
          subst hp
          simp only
          rw [hb, extC_main s h c4 id blk hm]
          rfl

theorem packedC_main (s : FS) (h : Inv s) (c : Caches) (id : Nat) (blk : Block) (hm : OnMain s id blk) :
    (packedC s c id).1 = some ⟨blk, blk.txs, true⟩ := by
  unfold packedC
  have hf := frozenC_main s h c id blk hm
  cases hr : frozenC s c id with
  | mk o c1 =>
    rw [hr] at hf
    simp only at hf
    rcases getFrozen_main_cases s h id blk hm with hg | ⟨hg, hbody⟩
    · rw [hg] at hf; subst hf; rfl
    · rw [hg] at hf; subst hf
      simp only [h.hdrOk id blk hm, hm.1, Bool.not_true, Bool.false_eq_true, if_false]
      have hu := unclesC_main s h c1 id blk hm
      cases hru : unclesC s c1 id with
      | mk ou c2 =>
        rw [hru] at hu
        simp only at hu
        subst hu
        simp only
        have hp := proposalsC_main s h c2 id blk hm
        cases hrp : proposalsC s c2 id with
        | mk op c3 =>
          rw [hrp] at hp
          simp only at hp
          subst hp
          simp only
          rw [extC_main s h c3 id blk hm, bodyRows_main s id blk hm, hbody]
          rfl

/-! ### a side block whose rows were wiped (`delete_block`), asked while caches still hold it -/

/-- the block is gone from the kv store and is not the freezer's item of its height -/
structure Wiped (s : FS) (id : Nat) (blk : Block) : Prop where
  known : s.v.r.bodies id = some blk
  noHdr : s.hdr id = false
  noBody : s.body id = false
  notFrozen : frozenByHeader s id blk = none

theorem hdrC_wiped {s : FS} {id : Nat} {blk : Block} (w : Wiped s id blk) (c : Caches) :
    hdrC s c id = (if c.hdr.contains id then some blk else none, c) := by
  unfold hdrC
  by_cases hc : id ∈ c.hdr <;> simp [hc, w.known, w.noHdr]

theorem frozenC_wiped {s : FS} {id : Nat} {blk : Block} (w : Wiped s id blk) (c : Caches) :
    frozenC s c id = (none, c) := by
  unfold frozenC
  rw [hdrC_wiped w]
  by_cases hc : id ∈ c.hdr <;> simp [hc, w.notFrozen]

theorem bodyC_wiped {s : FS} {id : Nat} {blk : Block} (w : Wiped s id blk) (c : Caches) :
    bodyC s c id = ([], c) := by
  unfold bodyC bodyRows
  simp [w.noBody, frozenC_wiped w]

theorem rowOrFrozen_wiped {s : FS} {id : Nat} {blk : Block} (w : Wiped s id blk) (c : Caches) :
    rowOrFrozen s c id = (none, c) := by
  unfold rowOrFrozen
  simp [w.noBody, frozenC_wiped w]

theorem unclesC_wiped {s : FS} {id : Nat} {blk : Block} (w : Wiped s id blk) (c : Caches) :
    unclesC s c id = (if c.unc.contains id then some blk else none, c) := by
  unfold unclesC
  by_cases hc : id ∈ c.unc <;> simp [hc, w.known, rowOrFrozen_wiped w]

theorem proposalsC_wiped {s : FS} {id : Nat} {blk : Block} (w : Wiped s id blk) (c : Caches) :
    proposalsC s c id = (if c.prop.contains id then some blk else none, c) := by
  unfold proposalsC
  by_cases hc : id ∈ c.prop <;> simp [hc, w.known, rowOrFrozen_wiped w]

theorem extC_wiped {s : FS} {id : Nat} {blk : Block} (w : Wiped s id blk) (c : Caches) :
    extC s c id = (if c.ext.contains id then some blk else none, c) := by
  unfold extC
  by_cases hc : id ∈ c.ext <;> simp [hc, w.known, rowOrFrozen_wiped w]

/-- the exact decision table of `get_block(hash)` for a wiped side block: it is a function of which
caches still hold the block, and the caches are left as they were -/
theorem blockC_wiped {s : FS} {id : Nat} {blk : Block} (w : Wiped s id blk) (c : Caches) :
    blockC s c id =
      (if !c.hdr.contains id then .none
       else if c.unc.contains id && c.prop.contains id then .some ⟨blk, [], c.ext.contains id⟩
       else .panic, c) := by
  unfold blockC
  rw [hdrC_wiped w]
  by_cases hh : id ∈ c.hdr
  · by_cases hu : id ∈ c.unc
    · by_cases hp : id ∈ c.prop
      · by_cases he : id ∈ c.ext <;>
          simp [hh, hu, hp, he, w.notFrozen, bodyC_wiped w, unclesC_wiped w, proposalsC_wiped w, extC_wiped w]
      · simp [hh, hu, hp, w.notFrozen, bodyC_wiped w, unclesC_wiped w, proposalsC_wiped w]
    · simp [hh, hu, w.notFrozen, bodyC_wiped w, unclesC_wiped w]
  · simp [hh]

end CkbVerif.FreezeCache
