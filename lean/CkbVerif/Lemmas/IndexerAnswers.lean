import CkbVerif.Lemmas.IndexerPage
import CkbVerif.Lemmas.IndexerCellsT
import CkbVerif.Lemmas.IndexerHistReplayT

/-! Facts about the answers of `get_cells` / `get_cells_capacity` on a chain store: the scanned rows,
numeric order of the keys, unlimited answers in both directions (C18). -/
namespace CkbVerif.Indexer
open CkbVerif.Gen.Indexer

/-! ## the scan is not longer than the store -/

theorem length_insertRow (r : Key × Val) (l : List (Key × Val)) : (insertRow r l).length = l.length + 1 := by
  induction l with
  | nil => rfl
  | cons x xs ih =>
    unfold insertRow
    split
    · rfl
    · simp [ih]

theorem length_sortRows (l : List (Key × Val)) : (sortRows l).length = l.length := by
  induction l with
  | nil => rfl
  | cons a t ih =>
    show (insertRow a (sortRows t)).length = _
    rw [length_insertRow, ih]; rfl

theorem length_scan_le (s : Store) (pre : List Nat) : (scan s pre).length ≤ s.length := by
  unfold scan
  rw [length_sortRows]
  exact List.length_filter_le _ _

/-! ## the rows a `get_cells` scan meets on a chain store -/

/-- lock search (ANY mode): every scanned row is the CellLockScript row of a live cell -/
theorem scan_lock_rows (keep interval : Nat) (blocks : List Block) (ok : ChainOK2 keep interval [] blocks)
    (q : Script) :
    ∀ e ∈ scan (blocks.foldl (append keep interval) []) (cellPrefix true q),
      ∃ sc bn txi io t c, e = (Key.cellLock sc bn txi io, Val.tx t) ∧
        get (blocks.foldl (append keep interval) []) (.outPoint ⟨t, io⟩) = some (.cell c) ∧
        c.out.lock = sc ∧ c.bn = bn ∧ c.txIdx = txi := by
  have hnd := nodup_chain keep interval blocks [] trivial
  have hinv := lockInv_chain2 keep interval blocks [] lockInv_empty ok
  have hty := lockTyped_chain keep interval blocks [] (by intro e he; cases he)
  generalize blocks.foldl (append keep interval) [] = S at *
  intro e he
  rw [mem_scan] at he
  obtain ⟨hes, hp⟩ := he
  obtain ⟨sc, bn, txi, io, hk⟩ := key_of_lock_prefix e.1 _ (by simpa [cellPrefix] using hp)
  obtain ⟨t, ht⟩ := hty e hes sc bn txi io hk
  have he' : e = (Key.cellLock sc bn txi io, Val.tx t) := by cases e; simp_all
  subst he'
  have hg := (mem_iff_get S hnd _ _).mp hes
  obtain ⟨c, hc, h1, h2, h3⟩ := (hinv sc bn txi io t).mp hg
  exact ⟨sc, bn, txi, io, t, c, rfl, hc, h1, h2, h3⟩

/-- type search (ANY mode): every scanned row is the CellTypeScript row of a live cell -/
theorem scan_type_rows (keep interval : Nat) (blocks : List Block) (ok : ChainOK2 keep interval [] blocks)
    (q : Script) :
    ∀ e ∈ scan (blocks.foldl (append keep interval) []) (cellPrefix false q),
      ∃ sc bn txi io t c, e = (Key.cellType sc bn txi io, Val.tx t) ∧
        get (blocks.foldl (append keep interval) []) (.outPoint ⟨t, io⟩) = some (.cell c) ∧
        c.out.type = some sc ∧ c.bn = bn ∧ c.txIdx = txi := by
  have hnd := nodup_chain keep interval blocks [] trivial
  have hinv := typeInv_chain2 keep interval blocks [] typeInv_empty ok
  have hty := typeTyped_chain keep interval blocks [] (by intro e he; cases he)
  generalize blocks.foldl (append keep interval) [] = S at *
  intro e he
  rw [mem_scan] at he
  obtain ⟨hes, hp⟩ := he
  obtain ⟨sc, bn, txi, io, hk⟩ := key_of_type_prefix e.1 _ (by simpa [cellPrefix] using hp)
  obtain ⟨t, ht⟩ := hty e hes sc bn txi io hk
  have he' : e = (Key.cellType sc bn txi io, Val.tx t) := by cases e; simp_all
  subst he'
  have hg := (mem_iff_get S hnd _ _).mp hes
  obtain ⟨c, hc, h1, h2, h3⟩ := (hinv sc bn txi io t).mp hg
  exact ⟨sc, bn, txi, io, t, c, rfl, hc, h1, h2, h3⟩

/-- `get_cells` never hits `expect("stored OutPoint")` on a chain store: lock or type search, prefix
or exact mode -/
theorem cellsResolvable_chain (keep interval : Nat) (blocks : List Block)
    (ok : ChainOK2 keep interval [] blocks) (lockSearch : Bool) (q : Script) (exact : Bool) :
    CellsResolvable (blocks.foldl (append keep interval) []) lockSearch q exact := by
  intro e he _
  cases lockSearch with
  | true =>
    obtain ⟨sc, bn, txi, io, t, c, rfl, hc, _⟩ := scan_lock_rows keep interval blocks ok q e he
    exact ⟨c, hc⟩
  | false =>
    obtain ⟨sc, bn, txi, io, t, c, rfl, hc, _⟩ := scan_type_rows keep interval blocks ok q e he
    exact ⟨c, hc⟩

theorem cellPrefix_fam (lockSearch : Bool) (q : Script) :
    ∃ fam, cellPrefix lockSearch q = fam :: scriptRaw q ∧
      (fam = KP_CELL_LOCK_SCRIPT ∨ fam = KP_CELL_TYPE_SCRIPT ∨ fam = KP_TX_LOCK_SCRIPT ∨ fam = KP_TX_TYPE_SCRIPT) := by
  cases lockSearch
  · exact ⟨KP_CELL_TYPE_SCRIPT, rfl, Or.inr (Or.inl rfl)⟩
  · exact ⟨KP_CELL_LOCK_SCRIPT, rfl, Or.inl rfl⟩

theorem txPrefix_fam (lockSearch : Bool) (q : Script) :
    ∃ fam, txPrefix lockSearch q = fam :: scriptRaw q ∧
      (fam = KP_CELL_LOCK_SCRIPT ∨ fam = KP_CELL_TYPE_SCRIPT ∨ fam = KP_TX_LOCK_SCRIPT ∨ fam = KP_TX_TYPE_SCRIPT) := by
  cases lockSearch
  · exact ⟨KP_TX_TYPE_SCRIPT, rfl, Or.inr (Or.inr (Or.inr rfl))⟩
  · exact ⟨KP_TX_LOCK_SCRIPT, rfl, Or.inr (Or.inr (Or.inl rfl))⟩

/-- on a chain of in-range blocks every script-indexed scan is strictly ascending in key bytes -/
theorem scan_strict_chain (keep interval : Nat) (blocks : List Block) (hb : ∀ b ∈ blocks, BlockBounded b)
    (fam : Nat) (rest : List Nat)
    (hf : fam = KP_CELL_LOCK_SCRIPT ∨ fam = KP_CELL_TYPE_SCRIPT ∨ fam = KP_TX_LOCK_SCRIPT ∨ fam = KP_TX_TYPE_SCRIPT) :
    (scan (blocks.foldl (append keep interval) []) (fam :: rest)).Pairwise rowLt :=
  scan_strict _ (nodup_chain keep interval blocks [] trivial)
    (keysBounded_chain keep interval blocks [] (by intro e he; cases he) hb) fam rest hf

/-! ## numeric order of the keys -/

/-- lexicographic `<` on (block number, tx index, cell index) -/
def lex3Lt (a b : Nat × Nat × Nat) : Prop :=
  a.1 < b.1 ∨ (a.1 = b.1 ∧ (a.2.1 < b.2.1 ∨ (a.2.1 = b.2.1 ∧ a.2.2 < b.2.2)))

/-- lexicographic `<` on (block number, tx index, cell index, io type: input before output) -/
def lex4Lt (a b : Nat × Nat × Nat × Nat) : Prop :=
  a.1 < b.1 ∨ (a.1 = b.1 ∧ (a.2.1 < b.2.1 ∨ (a.2.1 = b.2.1 ∧
    (a.2.2.1 < b.2.2.1 ∨ (a.2.2.1 = b.2.2.1 ∧ a.2.2.2 < b.2.2.2)))))

theorem tail3_lt (p : List Nat) (bn1 tx1 io1 bn2 tx2 io2 : Nat)
    (hb1 : bn1 < 256 ^ 8) (hb2 : bn2 < 256 ^ 8) (ht1 : tx1 < 256 ^ 4) (ht2 : tx2 < 256 ^ 4)
    (hi1 : io1 < 256 ^ 4) (hi2 : io2 < 256 ^ 4)
    (h : bytesLt (p ++ (be bn1 8 ++ (be tx1 4 ++ (be io1 4 ++ []))))
      (p ++ (be bn2 8 ++ (be tx2 4 ++ (be io2 4 ++ [])))) = true) :
    lex3Lt (bn1, tx1, io1) (bn2, tx2, io2) := by
  rw [bytesLt_append_left, bytesLt_be 8 _ _ _ _ hb1 hb2, bytesLt_be 4 _ _ _ _ ht1 ht2,
    bytesLt_be 4 _ _ _ _ hi1 hi2] at h
  unfold lex3Lt
  simp only
  by_cases h1 : bn1 < bn2
  · exact Or.inl h1
  · by_cases h2 : bn2 < bn1
    · simp [h1, h2] at h
    · have e1 : bn1 = bn2 := by omega
      simp only [h1, h2, if_false] at h
      by_cases h3 : tx1 < tx2
      · exact Or.inr ⟨e1, Or.inl h3⟩
      · by_cases h4 : tx2 < tx1
        · simp [h3, h4] at h
        · have e2 : tx1 = tx2 := by omega
          simp only [h3, h4, if_false] at h
          by_cases h5 : io1 < io2
          · exact Or.inr ⟨e1, Or.inr ⟨e2, h5⟩⟩
          · by_cases h6 : io2 < io1
            · simp [h5, h6] at h
            · simp [h5, h6, bytesLt] at h

theorem cellLockKey_lt (q : Script) (bn1 tx1 io1 bn2 tx2 io2 : Nat)
    (h1 : (Key.cellLock q bn1 tx1 io1).bounded = true) (h2 : (Key.cellLock q bn2 tx2 io2).bounded = true)
    (h : bytesLt (Key.cellLock q bn1 tx1 io1).bytes (Key.cellLock q bn2 tx2 io2).bytes = true) :
    lex3Lt (bn1, tx1, io1) (bn2, tx2, io2) := by
  simp only [Key.bounded, Bool.and_eq_true, decide_eq_true_eq] at h1 h2
  apply tail3_lt ([KP_CELL_LOCK_SCRIPT] ++ scriptRaw q) _ _ _ _ _ _ h1.1.1 h2.1.1 h1.1.2 h2.1.2 h1.2 h2.2
  simpa [Key.bytes, List.append_assoc] using h

theorem cellTypeKey_lt (q : Script) (bn1 tx1 io1 bn2 tx2 io2 : Nat)
    (h1 : (Key.cellType q bn1 tx1 io1).bounded = true) (h2 : (Key.cellType q bn2 tx2 io2).bounded = true)
    (h : bytesLt (Key.cellType q bn1 tx1 io1).bytes (Key.cellType q bn2 tx2 io2).bytes = true) :
    lex3Lt (bn1, tx1, io1) (bn2, tx2, io2) := by
  simp only [Key.bounded, Bool.and_eq_true, decide_eq_true_eq] at h1 h2
  apply tail3_lt ([KP_CELL_TYPE_SCRIPT] ++ scriptRaw q) _ _ _ _ _ _ h1.1.1 h2.1.1 h1.1.2 h2.1.2 h1.2 h2.2
  simpa [Key.bytes, List.append_assoc] using h

theorem tail4_lt (p : List Nat) (bn1 tx1 io1 bn2 tx2 io2 : Nat) (t1 t2 : IoType)
    (hb1 : bn1 < 256 ^ 8) (hb2 : bn2 < 256 ^ 8) (ht1 : tx1 < 256 ^ 4) (ht2 : tx2 < 256 ^ 4)
    (hi1 : io1 < 256 ^ 4) (hi2 : io2 < 256 ^ 4)
    (h : bytesLt (p ++ (be bn1 8 ++ (be tx1 4 ++ (be io1 4 ++ [ioByte t1]))))
      (p ++ (be bn2 8 ++ (be tx2 4 ++ (be io2 4 ++ [ioByte t2])))) = true) :
    lex4Lt (bn1, tx1, io1, ioByte t1) (bn2, tx2, io2, ioByte t2) := by
  rw [bytesLt_append_left, bytesLt_be 8 _ _ _ _ hb1 hb2, bytesLt_be 4 _ _ _ _ ht1 ht2,
    bytesLt_be 4 _ _ _ _ hi1 hi2] at h
  unfold lex4Lt
  simp only
  by_cases h1 : bn1 < bn2
  · exact Or.inl h1
  · by_cases h2 : bn2 < bn1
    · simp [h1, h2] at h
    · have e1 : bn1 = bn2 := by omega
      simp only [h1, h2, if_false] at h
      by_cases h3 : tx1 < tx2
      · exact Or.inr ⟨e1, Or.inl h3⟩
      · by_cases h4 : tx2 < tx1
        · simp [h3, h4] at h
        · have e2 : tx1 = tx2 := by omega
          simp only [h3, h4, if_false] at h
          by_cases h5 : io1 < io2
          · exact Or.inr ⟨e1, Or.inr ⟨e2, Or.inl h5⟩⟩
          · by_cases h6 : io2 < io1
            · simp [h5, h6] at h
            · have e3 : io1 = io2 := by omega
              simp only [h5, h6, if_false] at h
              refine Or.inr ⟨e1, Or.inr ⟨e2, Or.inr ⟨e3, ?_⟩⟩⟩
              cases t1 <;> cases t2 <;> simp [ioByte, bytesLt] at h ⊢

theorem txLockKey_lt (q : Script) (bn1 tx1 io1 bn2 tx2 io2 : Nat) (t1 t2 : IoType)
    (h1 : (Key.txLock q bn1 tx1 io1 t1).bounded = true) (h2 : (Key.txLock q bn2 tx2 io2 t2).bounded = true)
    (h : bytesLt (Key.txLock q bn1 tx1 io1 t1).bytes (Key.txLock q bn2 tx2 io2 t2).bytes = true) :
    lex4Lt (bn1, tx1, io1, ioByte t1) (bn2, tx2, io2, ioByte t2) := by
  simp only [Key.bounded, Bool.and_eq_true, decide_eq_true_eq] at h1 h2
  apply tail4_lt ([KP_TX_LOCK_SCRIPT] ++ scriptRaw q) _ _ _ _ _ _ _ _ h1.1.1 h2.1.1 h1.1.2 h2.1.2 h1.2 h2.2
  simpa [Key.bytes, List.append_assoc] using h

theorem txTypeKey_lt (q : Script) (bn1 tx1 io1 bn2 tx2 io2 : Nat) (t1 t2 : IoType)
    (h1 : (Key.txType q bn1 tx1 io1 t1).bounded = true) (h2 : (Key.txType q bn2 tx2 io2 t2).bounded = true)
    (h : bytesLt (Key.txType q bn1 tx1 io1 t1).bytes (Key.txType q bn2 tx2 io2 t2).bytes = true) :
    lex4Lt (bn1, tx1, io1, ioByte t1) (bn2, tx2, io2, ioByte t2) := by
  simp only [Key.bounded, Bool.and_eq_true, decide_eq_true_eq] at h1 h2
  apply tail4_lt ([KP_TX_TYPE_SCRIPT] ++ scriptRaw q) _ _ _ _ _ _ _ _ h1.1.1 h2.1.1 h1.1.2 h2.1.2 h1.2 h2.2
  simpa [Key.bytes, List.append_assoc] using h

/-! ## descending = reverse; unlimited page -/

theorem filterMap_dirRows {α : Type} (g : Key × Val → Option α) (rows : List (Key × Val)) (desc : Bool) :
    (dirRows rows desc).filterMap g = if desc then (rows.filterMap g).reverse else rows.filterMap g := by
  cases desc with
  | false => rfl
  | true => simp [dirRows, List.filterMap_reverse]

/-! ## `get_cells_capacity` -/

/-- without a `script_len_range` filter the inclusive/exclusive variant of its test is irrelevant -/
theorem cellPasses_lenIncl (f : Filter) (hf : f.scriptLenRange = none) (ls li : Bool) (c : Cell) :
    cellPasses f ls li c = cellPasses f ls false c := by
  unfold cellPasses
  simp [hf]

theorem cellRows_lenIncl (s : Store) (ls : Bool) (q : Script) (exact : Bool) (f : Filter)
    (hf : f.scriptLenRange = none) (rows : List (Key × Val)) :
    cellRows s ls q exact f true rows = cellRows s ls q exact f false rows := by
  unfold cellRows
  simp only [cellPasses_lenIncl f hf]

end CkbVerif.Indexer
