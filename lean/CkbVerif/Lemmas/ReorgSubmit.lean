import CkbVerif.Model.ReorgSubmit
import CkbVerif.Lemmas.ReorgReadd

/-! Helper lemmas for `Props/C12.lean`, part 5: `submit_entry` after the tip moved (`Model/ReorgSubmit.lean`). -/
namespace CkbVerif.Reorg

theorem submitEntry_stale_eq (a : Args) (live : List Nat) (preTip tip preStage : Nat) (q : Pool) (t : CTx)
    (hne : preTip ≠ tip) :
    submitEntry a live preTip tip preStage q t =
      if t.spent.any (spentInPool q) then (q, false)
      else if resolves q a live t then addEntry a.maxAnc a.evictPref q (entryOf a t) else (q, false) := by
  unfold submitEntry
  have : (preTip != tip) = true := by simpa using hne
  simp [this]

/-- a stale submission keeps "every input and cell dep is live or created in the pool" -/
theorem resolvable_submitEntry_stale {P : Nat → Prop} (a : Args) (live : List Nat) (preTip tip preStage : Nat) (q : Pool) (t : CTx)
    (hne : preTip ≠ tip) (hP : ∀ o ∈ live, P o) (hu : UniqueIds q) (hr : Resolvable P q) :
    Resolvable P (submitEntry a live preTip tip preStage q t).1 ∧ UniqueIds (submitEntry a live preTip tip preStage q t).1 := by
  rw [submitEntry_stale_eq a live preTip tip preStage q t hne]
  split
  · exact ⟨hr, hu⟩
  · split
    · rename_i hres
      refine ⟨resolvable_addEntry _ _ q (entryOf a t) hu hr ?_, uniqueIds_addEntry _ _ q _ hu⟩
      intro o ho
      obtain ⟨_, h2⟩ := cellLive_cases (resolves_cells hres o ho)
      rcases h2 with h2 | h2
      · exact Or.inr h2
      · exact Or.inl (hP o h2)
    · exact ⟨hr, hu⟩

/-- everything pooled after a stale submission is an old entry or the transaction itself, which then resolved
    against the pool + the CURRENT chain and sits at the stage of the CURRENT window -/
theorem submitEntry_stale_prov (a : Args) (live : List Nat) (preTip tip preStage : Nat) (q : Pool) (t : CTx)
    (hne : preTip ≠ tip) {e' : PEnt} (h : e' ∈ (submitEntry a live preTip tip preStage q t).1) :
    e' ∈ q ∨ (resolves q a live t = true ∧ e' = entryOf a t) := by
  rw [submitEntry_stale_eq a live preTip tip preStage q t hne] at h
  split at h
  · exact Or.inl h
  · split at h
    · rename_i hres
      rcases addEntry_mem _ _ _ _ h with h | h
      · exact Or.inl h
      · exact Or.inr ⟨hres, h⟩
    · exact Or.inl h

/-- a stale submission is refused, and the pool untouched, when it does not resolve against pool + current chain -/
theorem submitEntry_stale_refused (a : Args) (live : List Nat) (preTip tip preStage : Nat) (q : Pool) (t : CTx)
    (hne : preTip ≠ tip) (h : resolves q a live t = false) : submitEntry a live preTip tip preStage q t = (q, false) := by
  rw [submitEntry_stale_eq a live preTip tip preStage q t hne]
  simp [h]

theorem submitAll_cons (a : Args) (live : List Nat) (tip : Nat) (q : Pool) (x : CTx × Nat × Nat) (l : List (CTx × Nat × Nat)) :
    submitAll a live tip q (x :: l) = submitAll a live tip (submitEntry a live x.2.1 tip x.2.2 q x.1).1 l := rfl

theorem resolvable_submitAll {P : Nat → Prop} (a : Args) (live : List Nat) (tip : Nat) (l : List (CTx × Nat × Nat)) (q : Pool)
    (hne : ∀ x ∈ l, x.2.1 ≠ tip) (hP : ∀ o ∈ live, P o) (hu : UniqueIds q) (hr : Resolvable P q) :
    Resolvable P (submitAll a live tip q l) ∧ UniqueIds (submitAll a live tip q l) := by
  induction l generalizing q with
  | nil => exact ⟨hr, hu⟩
  | cons x l ih =>
    rw [submitAll_cons]
    have h1 := resolvable_submitEntry_stale a live x.2.1 tip x.2.2 q x.1 (hne x (List.mem_cons_self ..)) hP hu hr
    exact ih _ (fun y hy => hne y (List.mem_cons_of_mem _ hy)) h1.2 h1.1

end CkbVerif.Reorg
