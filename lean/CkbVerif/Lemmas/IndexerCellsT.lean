import CkbVerif.Lemmas.IndexerCells

/-! `get_cells` by TYPE script (exact mode, all cell filters, before order/limit/cursor) over a chain
store — the clone of `IndexerCells.lean` for the CellTypeScript family (C18). -/
namespace CkbVerif.Indexer
open CkbVerif.Gen.Indexer

/-- a key whose bytes start with the CellTypeScript prefix byte is a CellTypeScript key -/
theorem cellPrefix_false (q : Script) : cellPrefix false q = KP_CELL_TYPE_SCRIPT :: scriptRaw q := by
  simp [cellPrefix]

theorem key_of_type_prefix (k : Key) (rest : List Nat)
    (h : isPrefix (KP_CELL_TYPE_SCRIPT :: rest) k.bytes = true) :
    ∃ sc bn tx io, k = .cellType sc bn tx io := by
  cases k <;> simp [Key.bytes, isPrefix, KP_CELL_LOCK_SCRIPT, KP_OUT_POINT, KP_CONSUMED_OUT_POINT,
    KP_CELL_TYPE_SCRIPT, KP_TX_LOCK_SCRIPT, KP_TX_TYPE_SCRIPT, KP_TX_HASH, KP_HEADER] at h
  exact ⟨_, _, _, _, rfl⟩

/-- CellTypeScript rows carry transaction ids -/
def TypeTyped (s : Store) : Prop :=
  ∀ e ∈ s, ∀ (sc : Script) (bn txi io : Nat), e.1 = .cellType sc bn txi io → ∃ t, e.2 = .tx t

def typeValOk : BOp → Bool
  | .put (.cellType ..) (.tx _) => true
  | .put (.cellType ..) _ => false
  | _ => true

theorem consumeOps_tv (n txi ii id : Nat) (op : OutPoint) (c : Cell) :
    (consumeOps n txi ii id op c).all typeValOk = true := by
  unfold consumeOps
  cases c.out.type <;> simp [typeValOk]

theorem createOps_tv (n txi id oi : Nat) (o : Output) : (createOps n txi id oi o).all typeValOk = true := by
  unfold createOps
  cases o.type <;> simp [typeValOk]

theorem txOps_tv (s : Store) (b : Block) (i : Nat) (tx : Tx) : (txOps s b i tx).all typeValOk = true := by
  unfold txOps inputsOps outputsOps
  simp only [List.all_append, Bool.and_eq_true]
  refine ⟨⟨?_, ?_⟩, ?_⟩
  · split
    · rfl
    · rw [List.all_flatMap, List.all_eq_true]
      intro p _
      split
      · exact consumeOps_tv ..
      · rfl
  · rw [List.all_flatMap, List.all_eq_true]
    intro p _
    exact createOps_tv ..
  · split <;> simp [typeValOk]

theorem typeTyped_commit (ops : List BOp) (s : Store) (h : TypeTyped s)
    (hops : ∀ o ∈ ops, typeValOk o = true) : TypeTyped (commit s ops) := by
  intro e he sc bn txi io hk
  rcases mem_commit ops s e he with h1 | h1
  · exact h e h1 sc bn txi io hk
  · have := hops _ h1
    rw [hk] at this
    cases hv : e.2 with
    | tx t => exact ⟨t, rfl⟩
    | cell _ => rw [hv] at this; simp [typeValOk] at this
    | inputs _ => rw [hv] at this; simp [typeValOk] at this
    | txs _ => rw [hv] at this; simp [typeValOk] at this

theorem typeTyped_append (keep interval : Nat) (s : Store) (b : Block) (h : TypeTyped s) :
    TypeTyped (append keep interval s b) := by
  have hcore : TypeTyped (appendCore s b) := by
    apply typeTyped_commit _ _ h
    intro o ho
    unfold appendOps at ho
    rw [List.mem_append] at ho
    rcases ho with ho | ho
    · rw [List.mem_flatMap] at ho
      obtain ⟨p, _, hp⟩ := ho
      exact (List.all_eq_true.mp (txOps_tv s b p.2 p.1)) o hp
    · simp only [List.mem_singleton] at ho
      obtain ⟨f, l, hh⟩ := headerOp_eq s b
      rw [ho, hh]
      rfl
  unfold append
  dsimp only
  split
  · apply typeTyped_commit _ _ hcore
    intro o ho
    obtain ⟨k, hk, _⟩ := pruneOps_dels _ keep o ho
    rw [hk]
    rfl
  · exact hcore

theorem typeTyped_chain (keep interval : Nat) (blocks : List Block) (s : Store) (h : TypeTyped s) :
    TypeTyped (blocks.foldl (append keep interval) s) := by
  induction blocks generalizing s with
  | nil => exact h
  | cons b r ih => exact ih _ (typeTyped_append keep interval s b h)

/-- **`get_cells` by TYPE script, exact mode, ANY cell filter, before order / limit / cursor**: on the
store reached by any well-formed chain the iteration never hits `expect("stored OutPoint")`, and its
answers are exactly the cells of the REPLAYED live set whose type script is `q` and that pass the
filter (script / script_len_range / output_data / data length / capacity / block range), each with
its out-point, creation block number, tx index and key (= cursor). -/
theorem getCellsType_exact_eq_replay (keep interval : Nat) (blocks : List Block)
    (ok : ChainOK2 keep interval [] blocks) (q : Script) (f : Filter) :
    ∃ l, cellRows (blocks.foldl (append keep interval) []) false q true f false
        (scan (blocks.foldl (append keep interval) []) (cellPrefix false q)) = some l ∧
      ∀ a : CellAns, a ∈ l ↔
        ∃ c : Cell, replayLive blocks a.op = some c ∧ c.out.type = some q ∧ cellPasses f false false c = true ∧
          a.cell = c ∧ a.key = (Key.cellType q c.bn c.txIdx a.op.idx).bytes := by
  have hnd := nodup_chain keep interval blocks [] trivial
  have hinv := typeInv_chain2 keep interval blocks [] typeInv_empty ok
  have hty := typeTyped_chain keep interval blocks [] (by intro e he; cases he)
  have hrep := outPoint_eq_replay keep interval blocks ok
  generalize hS : blocks.foldl (append keep interval) [] = S at *
  -- every scanned row is a CellTypeScript row of a live cell
  have hrow : ∀ e ∈ scan S (cellPrefix false q), ∃ sc bn txi io t c, e = (Key.cellType sc bn txi io, Val.tx t) ∧
      get S (.outPoint ⟨t, io⟩) = some (.cell c) ∧ c.out.type = some sc ∧ c.bn = bn ∧ c.txIdx = txi := by
    intro e he
    rw [mem_scan] at he
    obtain ⟨hes, hp⟩ := he
    obtain ⟨sc, bn, txi, io, hk⟩ := key_of_type_prefix e.1 _ (by simpa [cellPrefix] using hp)
    obtain ⟨t, ht⟩ := hty e hes sc bn txi io hk
    have he' : e = (Key.cellType sc bn txi io, Val.tx t) := by cases e; simp_all
    subst he'
    have hg := (mem_iff_get S hnd _ _).mp hes
    obtain ⟨c, hc, h1, h2, h3⟩ := (hinv sc bn txi io t).mp hg
    exact ⟨sc, bn, txi, io, t, c, rfl, hc, h1, h2, h3⟩
  refine ⟨_, cellRows_eq_filterMap S false q true f false _ ?_, ?_⟩
  · intro e he _
    obtain ⟨sc, bn, txi, io, t, c, rfl, hc, _⟩ := hrow e he
    exact ⟨c, hc⟩
  · intro a
    rw [List.mem_filterMap]
    constructor
    · rintro ⟨e, he, ha⟩
      obtain ⟨sc, bn, txi, io, t, c, rfl, hc, h1, h2, h3⟩ := hrow e he
      unfold cellAnsOf at ha
      simp only [valTx, Key.io, hc] at ha
      split at ha
      · cases ha
      · rename_i hex
        split at ha
        · rename_i hp
          cases ha
          have hlen : (Key.cellType sc bn txi io).bytes.length = (cellPrefix false q).length + 16 := by
            simpa using hex
          have hsc : sc = q := by
            have hp' := ((mem_scan S _ _).mp he).2
            rw [cellPrefix_false] at hp' hlen
            exact (exact_cellType q sc bn txi io).mp ⟨hp', hlen⟩
          subst hsc
          have hr := hrep ⟨t, io⟩
          rw [hc] at hr
          refine ⟨c, ?_, h1, hp, rfl, ?_⟩
          · cases h : replayLive blocks ⟨t, io⟩ with
            | none => simp [h] at hr
            | some c' => simp [h] at hr; rw [hr]
          · simp only
            rw [h2, h3]
        · cases ha
    · rintro ⟨c, hc, hl, hp, hcell, hkey⟩
      have hg : get S (.outPoint a.op) = some (.cell c) := by rw [hrep, hc]; rfl
      have hrowS : (Key.cellType q c.bn c.txIdx a.op.idx, Val.tx a.op.tx) ∈ S := by
        rw [mem_iff_get S hnd]
        exact (hinv q c.bn c.txIdx a.op.idx a.op.tx).mpr ⟨c, by cases a; cases ‹OutPoint›; exact hg, hl, rfl, rfl⟩
      have hex := (exact_cellType q q c.bn c.txIdx a.op.idx).mpr rfl
      rw [← cellPrefix_false] at hex
      have hsc : (Key.cellType q c.bn c.txIdx a.op.idx, Val.tx a.op.tx) ∈ scan S (cellPrefix false q) ∧
          (Key.cellType q c.bn c.txIdx a.op.idx).bytes.length = (cellPrefix false q).length + 16 :=
        ⟨(mem_scan S _ _).mpr ⟨hrowS, hex.1⟩, hex.2⟩
      refine ⟨_, hsc.1, ?_⟩
      unfold cellAnsOf
      have hg' : get S (.outPoint ⟨a.op.tx, a.op.idx⟩) = some (.cell c) := by
        cases a; cases ‹OutPoint›; exact hg
      simp only [valTx, Key.io, hg', hp, if_true]
      have hlen := hsc.2
      simp only [hlen, ne_eq, not_true_eq_false, decide_false, Bool.and_false, Bool.false_eq_true, if_false]
      cases a
      cases ‹OutPoint›
      simp_all



end CkbVerif.Indexer
