import CkbVerif.Lemmas.MMRSize
/-!
# The chain root commits to the leaf list (for injective `merge`)
-/
namespace CkbVerif.MMR

variable {α : Type}

def Injective2 (merge : α → α → α) : Prop :=
  ∀ a b c d, merge a b = merge c d → a = c ∧ b = d

theorem mergePeaks_inj {merge : α → α → α} (hinj : Injective2 merge) :
    ∀ a b c d, mergePeaks merge a b = mergePeaks merge c d → a = c ∧ b = d := by
  intro a b c d h
  unfold mergePeaks at h
  split at h
  · have := hinj _ _ _ _ h; exact ⟨this.2, this.1⟩
  · exact hinj _ _ _ _ h

/-- same shape, same top value ⇒ same mountains and same leaf -/
theorem topR_inj {merge : α → α → α} (hinj : Injective2 merge) :
    ∀ (ms ms' : List (Nat × α)) (b : Nat) (x x' : α), heights ms = heights ms' → DescB b (heights ms) →
      ms.length = b → topR merge ms x = topR merge ms' x' → ms = ms' ∧ x = x' := by
  intro ms
  induction ms with
  | nil =>
    intro ms' b x x' hh _ _ ht
    cases ms' with
    | nil => exact ⟨rfl, by simpa [topR] using ht⟩
    | cons _ _ => simp [heights] at hh
  | cons m r ih =>
    intro ms' b x x' hh hd hl ht
    cases ms' with
    | nil => simp [heights] at hh
    | cons m' r' =>
      obtain ⟨h, v⟩ := m
      obtain ⟨h', v'⟩ := m'
      simp only [heights, List.map, List.cons.injEq] at hh
      obtain ⟨hh1, hh2⟩ := hh
      subst hh1
      have hlen : r.length = r'.length := by
        have := congrArg List.length hh2; simpa using this
      have hd2 : DescB h (heights r) := hd.2
      have hrl := DescB_len hd2
      have hlt : h < b := hd.1
      simp [heights] at hrl
      simp at hl
      have hf : h = r.length := by omega
      have hf' : h = r'.length := by omega
      have t1 : topR merge ((h, v) :: r) x = merge v (topR merge r x) := by simp [topR, hf]
      have t2 : topR merge ((h, v') :: r') x' = merge v' (topR merge r' x') := by simp [topR, hf']
      rw [t1, t2] at ht
      obtain ⟨e1, e2⟩ := hinj _ _ _ _ ht
      obtain ⟨e3, e4⟩ := ih r' h x x' hh2 hd2 (by omega) e2
      subst e1 e3
      exact ⟨rfl, e4⟩

theorem pushD_inj {merge : α → α → α} (hinj : Injective2 merge) :
    ∀ (ms ms' : List (Nat × α)) (b : Nat) (x x' : α), heights ms = heights ms' → DescB b (heights ms) →
      pushD merge ms x = pushD merge ms' x' → ms = ms' ∧ x = x' := by
  intro ms
  induction ms with
  | nil =>
    intro ms' b x x' hh _ hp
    cases ms' with
    | nil => simp [pushD] at hp; exact ⟨rfl, hp⟩
    | cons _ _ => simp [heights] at hh
  | cons m r ih =>
    intro ms' b x x' hh hd hp
    cases ms' with
    | nil => simp [heights] at hh
    | cons m' r' =>
      obtain ⟨h, v⟩ := m
      obtain ⟨h', v'⟩ := m'
      simp only [heights, List.map, List.cons.injEq] at hh
      obtain ⟨hh1, hh2⟩ := hh
      subst hh1
      have hlen : r.length = r'.length := by
        have := congrArg List.length hh2; simpa using this
      have hd2 : DescB h (heights r) := hd.2
      by_cases hf : h = r.length
      · have hf' : h = r'.length := by omega
        simp only [pushD, hf, if_true] at hp
        rw [← hf] at hp
        simp only [← hf', if_true, List.cons.injEq, Prod.mk.injEq, true_and, and_true] at hp
        obtain ⟨e1, e2⟩ := hinj _ _ _ _ hp
        obtain ⟨e3, e4⟩ := topR_inj hinj r r' h x x' hh2 hd2 (by omega) e2
        subst e1 e3
        exact ⟨rfl, e4⟩
      · have hf' : ¬ h = r'.length := by omega
        simp only [pushD, hf, hf', if_false, List.cons.injEq, Prod.mk.injEq, true_and] at hp
        obtain ⟨e1, e2⟩ := hp
        obtain ⟨e3, e4⟩ := ih r' h x x' hh2 hd2 e2
        subst e1 e3
        exact ⟨rfl, e4⟩

theorem bagD_inj {merge : α → α → α} (hinj : Injective2 merge) :
    ∀ (ms ms' : List (Nat × α)), heights ms = heights ms' → bagD merge ms = bagD merge ms' → ms = ms' := by
  intro ms
  induction ms with
  | nil =>
    intro ms' hh _
    cases ms' with
    | nil => rfl
    | cons _ _ => simp [heights] at hh
  | cons m r ih =>
    intro ms' hh hb
    cases ms' with
    | nil => simp [heights] at hh
    | cons m' r' =>
      obtain ⟨h, v⟩ := m
      obtain ⟨h', v'⟩ := m'
      simp only [heights, List.map, List.cons.injEq] at hh
      obtain ⟨hh1, hh2⟩ := hh
      subst hh1
      simp only [bagD] at hb
      cases r with
      | nil =>
        cases r' with
        | nil => simp [bagD] at hb; subst hb; rfl
        | cons _ _ => simp [heights] at hh2
      | cons a t =>
        cases r' with
        | nil => simp [heights] at hh2
        | cons a' t' =>
          -- both tails are non-empty, so both bags are `some`
          have hs : ∀ (l : List (Nat × α)) (y : Nat × α), ∃ z, bagD merge (y :: l) = some z := by
            intro l y; simp only [bagD]; cases bagD merge l <;> exact ⟨_, rfl⟩
          obtain ⟨z, hz⟩ := hs t a
          obtain ⟨z', hz'⟩ := hs t' a'
          rw [hz, hz'] at hb
          simp only [Option.some.injEq] at hb
          obtain ⟨e1, e2⟩ := mergePeaks_inj hinj _ _ _ _ hb
          subst e1 e2
          have := ih (a' :: t') hh2 (by rw [hz, hz'])
          rw [this]

theorem specD_snoc (merge : α → α → α) (l : List α) (x : α) :
    specD merge (l ++ [x]) = pushD merge (specD merge l) x := by
  simp [specD, List.foldl_append]

theorem heights_specD_len (merge : α → α → α) :
    ∀ (n : Nat) (l l' : List α), l.length = n → l'.length = n →
      heights (specD merge l.reverse) = heights (specD merge l'.reverse) := by
  intro n
  induction n with
  | zero =>
    intro l l' h h'
    have : l = [] := List.eq_nil_of_length_eq_zero h
    have : l' = [] := List.eq_nil_of_length_eq_zero h'
    subst_vars; rfl
  | succ n ih =>
    intro l l' h h'
    cases l with
    | nil => simp at h
    | cons x xs =>
      cases l' with
      | nil => simp at h'
      | cons x' xs' =>
        simp only [List.reverse_cons, specD_snoc, heights_pushD]
        rw [ih xs xs' (by simpa using h) (by simpa using h')]

theorem specD_inj_rev {merge : α → α → α} (hinj : Injective2 merge) :
    ∀ (l l' : List α), l.length = l'.length →
      specD merge l.reverse = specD merge l'.reverse → l = l' := by
  intro l
  induction l with
  | nil =>
    intro l' hl _
    cases l' with
    | nil => rfl
    | cons _ _ => simp at hl
  | cons x xs ih =>
    intro l' hl hs
    cases l' with
    | nil => simp at hl
    | cons x' xs' =>
      simp only [List.reverse_cons, specD_snoc] at hs
      have hlen : xs.length = xs'.length := by simpa using hl
      have hh := heights_specD_len merge xs.length xs xs' rfl hlen.symm
      obtain ⟨b, hd⟩ := (leafCount_specD merge xs.reverse).1
      obtain ⟨e1, e2⟩ := pushD_inj hinj _ _ b x x' hh hd hs
      rw [ih xs' hlen e1, e2]

end CkbVerif.MMR
