import CkbVerif.Lemmas.HashCbmt
/-!
# Body commitment lemmas (C15): proposals hash, uncles hash, extra hash, transactions root,
`reset_header` fields and the block hash are injective under `CollisionFree`.
-/
namespace CkbVerif.Hash
open CkbVerif.Molecule

/-- concatenation of equally long chunks is uniquely splittable -/
theorem flatten_inj_of_length (k : Nat) (hk : 0 < k) : ∀ (l1 l2 : List Bytes),
    (∀ x ∈ l1, x.length = k) → (∀ x ∈ l2, x.length = k) → l1.flatten = l2.flatten → l1 = l2
  | [], [], _, _, _ => rfl
  | [], y :: ys, _, h2, h => by
    have hy := h2 y (by simp)
    have := congrArg List.length h
    simp only [List.flatten_nil, List.length_nil, List.flatten_cons, List.length_append] at this
    omega
  | x :: xs, [], h1, _, h => by
    have hx := h1 x (by simp)
    have := congrArg List.length h
    simp only [List.flatten_nil, List.length_nil, List.flatten_cons, List.length_append] at this
    omega
  | x :: xs, y :: ys, h1, h2, h => by
    simp only [List.flatten_cons] at h
    have hx := h1 x (by simp)
    have hy := h2 y (by simp)
    have := List.append_inj h (by rw [hx, hy])
    have ih := flatten_inj_of_length k hk xs ys (fun z hz => h1 z (by simp [hz])) (fun z hz => h2 z (by simp [hz])) this.2
    rw [this.1, ih]

section
variable {D : Type} {A : HashAlg D} (cf : CollisionFree A)
include cf

theorem merge_inj2 : Injective2 (merge A) := by
  intro a b c d h
  have := cf.hd_inj _ _ h
  simp only [List.cons.injEq, and_true] at this
  exact this

theorem merge_ne_zero (a b : D) : merge A a b ≠ A.zero := cf.hd_ne_zero _

/-- a data hash whose pre-image is not 64 bytes long is not a CBMT inner node -/
theorem hb_ne_merge (x : Bytes) (hx : x.length ≠ 64) (a b : D) : A.hb x ≠ merge A a b :=
  cf.hb_ne_hd x [a, b] (by simpa using hx)

theorem proposalsHash_inj (p1 p2 : List Bytes) (h1 : ∀ p ∈ p1, p.length = 10) (h2 : ∀ p ∈ p2, p.length = 10)
    (h : proposalsHash A p1 = proposalsHash A p2) : p1 = p2 := by
  unfold proposalsHash at h
  cases p1 with
  | nil =>
    cases p2 with
    | nil => rfl
    | cons y ys =>
      simp only [List.isEmpty_nil, if_true, List.isEmpty_cons, Bool.false_eq_true, if_false] at h
      exact absurd h.symm (cf.hb_ne_zero _)
  | cons x xs =>
    cases p2 with
    | nil =>
      simp only [List.isEmpty_nil, if_true, List.isEmpty_cons, Bool.false_eq_true, if_false] at h
      exact absurd h (cf.hb_ne_zero _)
    | cons y ys =>
      simp only [List.isEmpty_cons, Bool.false_eq_true, if_false] at h
      exact flatten_inj_of_length 10 (by omega) _ _ h1 h2 (cf.hb_inj _ _ h)

theorem map_hb_inj (u1 u2 : List Bytes) (h : u1.map A.hb = u2.map A.hb) : u1 = u2 :=
  (List.map_inj_right (fun x y hxy => cf.hb_inj x y hxy)).mp h

theorem unclesHash_inj (u1 u2 : List Bytes) (h : unclesHash A u1 = unclesHash A u2) : u1 = u2 := by
  unfold unclesHash at h
  cases u1 with
  | nil =>
    cases u2 with
    | nil => rfl
    | cons y ys =>
      simp only [List.isEmpty_nil, if_true, List.isEmpty_cons, Bool.false_eq_true, if_false] at h
      exact absurd h.symm (cf.hd_ne_zero _)
  | cons x xs =>
    cases u2 with
    | nil =>
      simp only [List.isEmpty_nil, if_true, List.isEmpty_cons, Bool.false_eq_true, if_false] at h
      exact absurd h (cf.hd_ne_zero _)
    | cons y ys =>
      simp only [List.isEmpty_cons, Bool.false_eq_true, if_false] at h
      exact map_hb_inj cf _ _ (cf.hd_inj _ _ h)

/-- a header hash (pre-image 208 bytes) is never an uncles hash -/
theorem hb_header_ne_unclesHash (x : Bytes) (hx : x.length = 208) (us : List Bytes) :
    A.hb x ≠ unclesHash A us := by
  unfold unclesHash
  cases us with
  | nil => simpa using cf.hb_ne_zero x
  | cons y ys =>
    simp only [List.isEmpty_cons, Bool.false_eq_true, if_false]
    exact cf.hb_ne_hd x _ (by rw [hx]; omega)

/-- `extra_hash` without an extension (= the uncles hash) never equals an `extra_hash` with one -/
theorem extraHash_none_ne_some (u1 u2 : List Bytes) (h1 : ∀ u ∈ u1, u.length = 208) (e : Bytes) :
    extraHash A (unclesHash A u1) (extensionHash A none) ≠ extraHash A (unclesHash A u2) (extensionHash A (some e)) := by
  intro h
  simp only [extraHash, extensionHash, Option.map_none, Option.map_some] at h
  unfold unclesHash at h
  cases u1 with
  | nil =>
    simp only [List.isEmpty_nil, if_true] at h
    exact cf.hd_ne_zero _ h.symm
  | cons x xs =>
    simp only [List.isEmpty_cons, Bool.false_eq_true, if_false] at h
    have hl := cf.hd_inj _ _ h
    -- the first uncle's header hash would be the other block's uncles hash
    simp only [List.map_cons, List.cons.injEq] at hl
    have hx : x.length = 208 := h1 x (by simp)
    have := hb_header_ne_unclesHash cf x hx u2
    unfold unclesHash at this
    exact this hl.1

theorem extraHash_inj (u1 u2 : List Bytes) (h1 : ∀ u ∈ u1, u.length = 208) (h2 : ∀ u ∈ u2, u.length = 208)
    (e1 e2 : Option Bytes)
    (h : extraHash A (unclesHash A u1) (extensionHash A e1) = extraHash A (unclesHash A u2) (extensionHash A e2)) :
    u1 = u2 ∧ e1 = e2 := by
  cases e1 with
  | none =>
    cases e2 with
    | none =>
      simp only [extraHash, extensionHash, Option.map_none] at h
      exact ⟨unclesHash_inj cf _ _ h, rfl⟩
    | some b => exact absurd h (extraHash_none_ne_some cf u1 u2 h1 b)
  | some a =>
    cases e2 with
    | none => exact absurd h.symm (extraHash_none_ne_some cf u2 u1 h2 a)
    | some b =>
      simp only [extraHash, extensionHash, Option.map_some] at h
      have hl := cf.hd_inj _ _ h
      simp only [List.cons.injEq, and_true] at hl
      exact ⟨unclesHash_inj cf _ _ hl.1, by rw [cf.hb_inj _ _ hl.2]⟩

omit cf in
theorem merkleRoot_pair (a b : D) : merkleRoot A [a, b] = merge A a b := rfl

theorem witnessesRoot_inj (t1 t2 : List Bytes) (h1 : ∀ t ∈ t1, t.length ≠ 64) (h2 : ∀ t ∈ t2, t.length ≠ 64)
    (h : witnessesRoot A t1 = witnessesRoot A t2) : t1 = t2 := by
  unfold witnessesRoot merkleRoot at h
  have leaf : ∀ (ts : List Bytes), (∀ t ∈ ts, t.length ≠ 64) →
      ∀ x ∈ ts.map (witnessHash A), x ≠ A.zero ∧ ∀ a b, x ≠ merge A a b := by
    intro ts hts x hx
    obtain ⟨t, ht, rfl⟩ := List.mem_map.mp hx
    exact ⟨cf.hb_ne_zero t, hb_ne_merge cf t (hts t ht)⟩
  have := cbmtRoot_inj_any_length (merge A) (merge_inj2 cf) A.zero (merge_ne_zero cf) _ _ (leaf t1 h1) (leaf t2 h2) h
  exact map_hb_inj cf _ _ this

theorem transactionsRoot_inj (t1 t2 : List Bytes) (h1 : ∀ t ∈ t1, t.length ≠ 64) (h2 : ∀ t ∈ t2, t.length ≠ 64)
    (h : transactionsRoot A t1 = transactionsRoot A t2) : t1 = t2 := by
  unfold transactionsRoot at h
  rw [merkleRoot_pair, merkleRoot_pair] at h
  exact witnessesRoot_inj cf t1 t2 h1 h2 (merge_inj2 cf _ _ _ _ h).2

theorem resetFields_inj (b1 b2 : Body) (w1 : b1.WF) (w2 : b2.WF)
    (htr : (resetFields A b1).transactionsRoot = (resetFields A b2).transactionsRoot)
    (hph : (resetFields A b1).proposalsHash = (resetFields A b2).proposalsHash)
    (hxh : (resetFields A b1).extraHash = (resetFields A b2).extraHash) : b1 = b2 := by
  obtain ⟨t1, p1, u1, e1⟩ := b1
  obtain ⟨t2, p2, u2, e2⟩ := b2
  simp only [resetFields] at htr hph hxh
  have ht := transactionsRoot_inj cf t1 t2 w1.1 w2.1 htr
  have hp := proposalsHash_inj cf p1 p2 w1.2.1 w2.2.1 hph
  have hx := extraHash_inj cf u1 u2 w1.2.2 w2.2.2 e1 e2 hxh
  rw [ht, hp, hx.1, hx.2]

end

/-! ## the free term algebra satisfies the hypotheses -/

theorem termAlg_collisionFree : CollisionFree termAlg where
  hb_inj := by intro x y h; exact Dg.hb.inj h
  hd_inj := by intro x y h; exact Dg.hd.inj h
  hm_inj := by intro l ds l' ds' h; exact Dg.hm.inj h
  hb_ne_zero := by intro x h; cases h
  hd_ne_zero := by intro x h; cases h
  hb_ne_hd := by intro x ds _ h; cases h

end CkbVerif.Hash
