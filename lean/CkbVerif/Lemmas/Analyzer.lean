import CkbVerif.Model.Inflight

/-! Helper lemmas on `TimeAnalyzer::push_time`'s threshold update (C17): the saturating average and
the order statistics of the sorted window. Core Lean only. -/
namespace CkbVerif.Inflight
open CkbVerif.Gen.Sync

/-- the window sorted as `push_time` sorts it (`sort_unstable` on `u64`: any sort gives the same list) -/
def sortedWin (l : List Nat) : List Nat := l.mergeSort (fun x y => decide (x ≤ y))

theorem satAvg_le_max (a b : Nat) : satAdd64 a b / 2 ≤ max a b := by
  unfold satAdd64
  have : min (a + b) U64_MAX ≤ a + b := Nat.min_le_left _ _
  omega

theorem satAvg_ge_min {a b : Nat} (h : a + b ≤ U64_MAX) : min a b ≤ satAdd64 a b / 2 := by
  unfold satAdd64
  rw [Nat.min_eq_left h]
  omega

theorem satAvg_mono {a a' b b' : Nat} (ha : a ≤ a') (hb : b ≤ b') :
    satAdd64 a b / 2 ≤ satAdd64 a' b' / 2 := by
  unfold satAdd64
  apply Nat.div_le_div_right
  omega

theorem sortedWin_pairwise (l : List Nat) : (sortedWin l).Pairwise (fun x y => x ≤ y) := by
  have hp := List.pairwise_mergeSort (le := fun (x y : Nat) => decide (x ≤ y))
    (by intro a b c h1 h2; simp only [decide_eq_true_eq] at h1 h2 ⊢; omega)
    (by intro a b; simp only [Bool.or_eq_true, decide_eq_true_eq]; omega) l
  exact hp.imp (by intro a b h; simpa using h)

theorem sortedWin_perm (l : List Nat) : (sortedWin l).Perm l := List.mergeSort_perm l _

theorem sortedWin_length (l : List Nat) : (sortedWin l).length = l.length := List.length_mergeSort l

/-- order statistics of an ascending list by counting: the `i`-th entry is `≤ v` exactly when more
than `i` entries are `≤ v` -/
theorem pairwise_getD_le_iff : ∀ (s : List Nat), s.Pairwise (fun x y => x ≤ y) → ∀ (i v : Nat),
    i < s.length → (s.getD i 0 ≤ v ↔ i < s.countP (fun x => decide (x ≤ v))) := by
  intro s
  induction s with
  | nil => intro _ i v h; simp at h
  | cons x t ih =>
    intro hp i v hi
    have hx : ∀ y ∈ t, x ≤ y := (List.pairwise_cons.mp hp).1
    have ht := (List.pairwise_cons.mp hp).2
    by_cases hxv : x ≤ v
    · have hc : (x :: t).countP (fun x => decide (x ≤ v)) = t.countP (fun x => decide (x ≤ v)) + 1 := by
        simp [hxv]
      rw [hc]
      cases i with
      | zero => simp [hxv]
      | succ j =>
        have := ih ht j v (by simpa using hi)
        simp only [List.getD_cons_succ]
        rw [this]; omega
    · have hzero : t.countP (fun x => decide (x ≤ v)) = 0 := by
        rw [List.countP_eq_zero]
        intro y hy
        have := hx y hy
        simp only [decide_eq_true_eq]; omega
      have hc : (x :: t).countP (fun x => decide (x ≤ v)) = 0 := by
        simp [hxv, hzero]
      rw [hc]
      cases i with
      | zero => simp [hxv]
      | succ j =>
        have := ih ht j v (by simpa using hi)
        simp only [List.getD_cons_succ]
        rw [this, hzero]; omega

/-- two windows of the same size, the second pointwise at least the first -/
inductive PointwiseLe : List Nat → List Nat → Prop
  | nil : PointwiseLe [] []
  | cons {a b : Nat} {l l' : List Nat} : a ≤ b → PointwiseLe l l' → PointwiseLe (a :: l) (b :: l')

theorem countP_le_of_forall₂ (v : Nat) : ∀ {w w' : List Nat}, PointwiseLe w w' →
    w'.countP (fun x => decide (x ≤ v)) ≤ w.countP (fun x => decide (x ≤ v)) := by
  intro w w' h
  induction h with
  | nil => exact Nat.le_refl _
  | @cons a b l l' hab _ ih =>
    simp only [List.countP_cons]
    by_cases hb : b ≤ v
    · have ha : a ≤ v := by omega
      simp only [hb, ha, decide_true, if_true]; omega
    · simp only [hb, decide_false]
      by_cases ha : a ≤ v
      · simp only [ha, decide_true, if_true]; simp; omega
      · simp only [ha, decide_false]; simpa using ih

theorem forall₂_length {w w' : List Nat} (h : PointwiseLe w w') :
    w.length = w'.length := by
  induction h with
  | nil => rfl
  | cons _ _ ih => simp [ih]

/-- every order statistic of the window is monotone in the samples: raising samples (pointwise, in
place) never lowers the `i`-th smallest -/
theorem sortedWin_getD_mono {w w' : List Nat} (h : PointwiseLe w w') (i : Nat)
    (hi : i < w.length) : (sortedWin w).getD i 0 ≤ (sortedWin w').getD i 0 := by
  have hl := forall₂_length h
  have h1 := (pairwise_getD_le_iff (sortedWin w') (sortedWin_pairwise w') i ((sortedWin w').getD i 0)
    (by rw [sortedWin_length]; omega)).mp (Nat.le_refl _)
  rw [(sortedWin_perm w').countP_eq] at h1
  have h2 := countP_le_of_forall₂ ((sortedWin w').getD i 0) h
  apply (pairwise_getD_le_iff (sortedWin w) (sortedWin_pairwise w) i _
    (by rw [sortedWin_length]; exact hi)).mpr
  rw [(sortedWin_perm w).countP_eq]
  omega

/-- an order statistic of the window is one of its samples -/
theorem sortedWin_getD_mem (w : List Nat) (i : Nat) (hi : i < w.length) : (sortedWin w).getD i 0 ∈ w := by
  have hi' : i < (sortedWin w).length := by rw [sortedWin_length]; exact hi
  have : (sortedWin w).getD i 0 = (sortedWin w)[i] := by
    simp [List.getD_eq_getElem?_getD, List.getElem?_eq_getElem hi']
  rw [this]
  exact (sortedWin_perm w).mem_iff.mp (List.getElem_mem hi')

/-- the thresholds after `push_time`: unchanged while the window fills, and on the roll-over (index =
TIME_TRACE_SIZE) each the saturating average of the old threshold and its order statistic -/
theorem pushTime_thresholds (a : Analyzer) (t : Nat) :
    (a.index < TIME_TRACE_SIZE →
      (a.pushTime t).1.fast = a.fast ∧ (a.pushTime t).1.normal = a.normal ∧ (a.pushTime t).1.low = a.low) ∧
    (¬ a.index < TIME_TRACE_SIZE →
      (a.pushTime t).1.fast = satAdd64 a.fast ((sortedWin a.trace).getD FAST_INDEX 0) / 2 ∧
      (a.pushTime t).1.normal = satAdd64 a.normal ((sortedWin a.trace).getD NORMAL_INDEX 0) / 2 ∧
      (a.pushTime t).1.low = satAdd64 a.low ((sortedWin a.trace).getD LOW_INDEX 0) / 2) := by
  constructor
  · intro h
    simp [Analyzer.pushTime, h]
  · intro h
    simp [Analyzer.pushTime, h, sortedWin]

end CkbVerif.Inflight
