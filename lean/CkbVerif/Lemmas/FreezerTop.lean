import CkbVerif.Lemmas.Freezer
import CkbVerif.Model.FreezerTop

/-! Helper lemmas for the `Freezer` layer of C09 (`Model/FreezerTop.lean`): the invariant `TopInv`,
the pure specification `specRun` of what one `freeze` call appends, and the refinement of every
operation to it. -/
namespace CkbVerif.FreezerTop
open CkbVerif.Freezer

/-! ### parent-linked lists -/

/-- every block's parent hash is the hash of the block before it -/
def Linked (l : List Block) : Prop :=
  ∀ i a b, l[i]? = some a → l[i + 1]? = some b → b.parent = a.hash

theorem Linked.nil : Linked [] := by intro i a b h; simp at h

theorem Linked.take {l : List Block} (h : Linked l) (n : Nat) : Linked (l.take n) := by
  intro i a b ha hb
  rw [List.getElem?_take] at ha hb
  split at ha
  · split at hb
    · exact h i a b ha hb
    · cases hb
  · cases ha

theorem getLast?_eq_getElem? (l : List Block) : l.getLast? = l[l.length - 1]? := by
  rw [List.getLast?_eq_getElem?]

/-- appending a block whose parent is the last block (any block when the list is empty) -/
theorem Linked.snoc {l : List Block} {b : Block} (h : Linked l)
    (hb : ∀ t, l.getLast? = some t → b.parent = t.hash) : Linked (l ++ [b]) := by
  intro i x y hx hy
  by_cases h1 : i + 1 < l.length
  · rw [List.getElem?_append_left (by omega)] at hx
    rw [List.getElem?_append_left h1] at hy
    exact h i x y hx hy
  · by_cases h2 : i + 1 = l.length
    · rw [List.getElem?_append_left (by omega)] at hx
      rw [List.getElem?_append_right (by omega)] at hy
      have : i + 1 - l.length = 0 := by omega
      rw [this] at hy
      simp at hy
      subst hy
      apply hb
      rw [getLast?_eq_getElem?]
      have : l.length - 1 = i := by omega
      rw [this]; exact hx
    · rw [List.getElem?_append_right (by omega)] at hy
      have : i + 1 - l.length = (i - l.length) + 1 := by omega
      rw [this] at hy
      simp at hy

theorem Linked.append_cons {l : List Block} {b : Block} {r : List Block}
    (h : Linked (l ++ b :: r)) : Linked (l ++ [b]) := by
  have : l ++ [b] = (l ++ b :: r).take (l.length + 1) := by
    simp [List.take_append, List.take_of_length_le]
  rw [this]; exact h.take _

/-! ### the invariant -/

/-- the freezer `s` holds exactly the blocks `chain` (heights `1 ..`), they form one parent-linked
    chain, the in-memory handle agrees with the disk and `tip` is the last of them -/
structure TopInv (c : Cfg) (s : Top) (chain : List Block) : Prop where
  good : Good s.d (chain.map (stored c))
  handle : HandleOk s.h s.d
  linked : Linked chain
  tip : s.tip = chain.getLast?

theorem TopInv.number {c : Cfg} {s : Top} {chain : List Block} (hi : TopInv c s chain) :
    s.h.number = chain.length + 1 := by
  rw [hi.handle.1, hi.good.idx_length]; simp

/-- byte-exact retrieval of a stored block, through the compression pair -/
theorem retrieveRaw_stored {c : Cfg} (ok : c.Ok) {h : Handle} {d : Disk} {chain : List Block}
    (g : Good d (chain.map (stored c))) (hk : HandleOk h d) (i : Nat) (b : Block) (hi : 1 ≤ i)
    (hb : chain[i - 1]? = some b) : retrieveRaw c h d i = .some (c.enc b) := by
  have : retrieve h d i = .some (stored c b) :=
    retrieve_good_aux g hk i (stored c b) hi (by rw [List.getElem?_map, hb]; rfl)
  unfold retrieveRaw
  rw [this]
  simp only [stored, ok.snappy]

theorem retrieveRaw_absent {c : Cfg} {h : Handle} {d : Disk} {chain : List Block}
    (g : Good d (chain.map (stored c))) (hk : HandleOk h d) (i : Nat)
    (hi : i = 0 ∨ chain.length < i) : retrieveRaw c h d i = .none := by
  have : retrieve h d i = .none := retrieve_none_aux g hk i (by simpa using hi)
  unfold retrieveRaw
  rw [this]

theorem readBlock_stored {c : Cfg} (ok : c.Ok) {h : Handle} {d : Disk} {chain : List Block}
    (g : Good d (chain.map (stored c))) (hk : HandleOk h d) (i : Nat) (b : Block) (hi : 1 ≤ i)
    (hb : chain[i - 1]? = some b) : readBlock c h d i = some b := by
  unfold readBlock
  rw [retrieveRaw_stored ok g hk i b hi hb]
  exact ok.codec b

/-! ### open -/

/-- `Freezer::open` on top of a files-layer open that produced a consistent disk -/
theorem openTop_of_open {c : Cfg} (ok : c.Ok) {d d' : Disk} {h : Handle} {chain : List Block}
    (ho : «open» d = some (h, d')) (g : Good d' (chain.map (stored c))) (hk : HandleOk h d')
    (hl : Linked chain) :
    ∃ s, openTop c d = some s ∧ TopInv c s chain ∧ s.h = h ∧ s.d = d' := by
  have hnum : h.number = chain.length + 1 := by rw [hk.1, g.idx_length]; simp
  unfold openTop
  rw [ho]
  simp only
  by_cases h1 : h.number > 1
  · rw [if_pos h1]
    obtain ⟨b, hb⟩ : ∃ b, chain[chain.length - 1]? = some b :=
      ⟨chain[chain.length - 1]'(by omega), List.getElem?_eq_getElem _⟩
    have hr : readBlock c h d' (h.number - 1) = some b :=
      readBlock_stored ok g hk _ b (by omega) (by rw [hnum]; simpa using hb)
    rw [hr]
    exact ⟨_, rfl, ⟨g, hk, hl, by rw [getLast?_eq_getElem?, hb]⟩, rfl, rfl⟩
  · rw [if_neg h1]
    have : chain = [] := List.eq_nil_of_length_eq_zero (by omega)
    subst this
    exact ⟨_, rfl, ⟨g, hk, hl, rfl⟩, rfl, rfl⟩

/-! ### the pure specification of one `freeze` call -/

/-- the blocks one `freeze` appends and whether it returns `Ok`: `fuel` iterations from height `n`,
    `tip` = hash of the stored tip (`none` = no tip) -/
def specRun (get : Nat → Option Block) (stopped : Nat → Bool) :
    (fuel : Nat) → (n : Nat) → (tip : Option Nat) → List Block × Bool
  | 0, _, _ => ([], true)
  | fuel + 1, n, tip =>
    if stopped n then ([], true)
    else
      match get n with
      | none => ([], true)
      | some b =>
        if mismatch tip b then ([], false)
        else ((b :: (specRun get stopped fuel (n + 1) (some b.hash)).1),
              (specRun get stopped fuel (n + 1) (some b.hash)).2)

/-- the returned map: (hash, height, tx count) of consecutive heights from `n` -/
def entries : Nat → List Block → List (Nat × Nat × Nat)
  | _, [] => []
  | n, b :: r => (b.hash, n, b.txs) :: entries (n + 1) r

theorem entries_length (n : Nat) (l : List Block) : (entries n l).length = l.length := by
  induction l generalizing n with
  | nil => rfl
  | cons b r ih => simp [entries, ih]

theorem entries_getElem? (n : Nat) (l : List Block) (j : Nat) :
    (entries n l)[j]? = (l[j]?).map fun b => (b.hash, n + j, b.txs) := by
  induction l generalizing n j with
  | nil => simp [entries]
  | cons b r ih =>
    cases j with
    | zero => simp [entries]
    | succ j => simp only [entries, List.getElem?_cons_succ, ih]; congr; funext b; congr 2; omega

def tipHash (l : List Block) : Option Nat := l.getLast?.map (·.hash)

theorem specRun_length_le (get stopped) : ∀ (fuel n : Nat) (tip : Option Nat),
    (specRun get stopped fuel n tip).1.length ≤ fuel
  | 0, _, _ => by simp [specRun]
  | fuel + 1, n, tip => by
    unfold specRun
    split
    · simp
    · split
      · simp
      · split
        · simp
        · have := specRun_length_le get stopped fuel (n + 1) (some ‹Block›.hash)
          simp; omega

/-- every appended block is the one the source returned for its height: no height is skipped or
    reordered -/
theorem specRun_get (get stopped) : ∀ (fuel n : Nat) (tip : Option Nat) (j : Nat) (b : Block),
    (specRun get stopped fuel n tip).1[j]? = some b → get (n + j) = some b
  | 0, _, _, j, b, h => by simp [specRun] at h
  | fuel + 1, n, tip, j, b, h => by
    unfold specRun at h
    split at h
    · simp at h
    · split at h
      · simp at h
      · rename_i b0 hg
        split at h
        · simp at h
        · cases j with
          | zero => simp at h; subst h; simpa using hg
          | succ j =>
            simp only [List.getElem?_cons_succ] at h
            have := specRun_get get stopped fuel (n + 1) _ j b h
            rw [← this]; congr 1; omega

/-- why the run ended: an `Err` is a parent mismatch at the next height; an `Ok` short of the
    threshold is the stop flag or a missing block at the next height -/
theorem specRun_stop (get stopped) : ∀ (fuel n : Nat) (tip : Option Nat),
    let r := specRun get stopped fuel n tip
    let last := match r.1.getLast? with | some b => some b.hash | none => tip
    (r.2 = false → ∃ b t, get (n + r.1.length) = some b ∧ last = some t ∧ t ≠ b.parent ∧
        r.1.length < fuel) ∧
    (r.2 = true → r.1.length < fuel →
        stopped (n + r.1.length) = true ∨ get (n + r.1.length) = none)
  | 0, _, _ => by simp [specRun]
  | fuel + 1, n, tip => by
    unfold specRun
    split
    · rename_i hs; simp [hs]
    · split
      · rename_i hg; simp [hg]
      · rename_i b0 hg
        split
        · rename_i hm
          simp only [List.length_nil, Nat.add_zero, List.getLast?_nil]
          refine ⟨fun _ => ?_, fun h => by simp at h⟩
          cases tip with
          | none => simp [mismatch] at hm
          | some t => exact ⟨b0, t, hg, rfl, by simpa [mismatch] using hm, by omega⟩
        · have ih := specRun_stop get stopped fuel (n + 1) (some b0.hash)
          simp only at ih
          simp only [List.length_cons]
          have hlast : (match (b0 :: (specRun get stopped fuel (n + 1) (some b0.hash)).1).getLast? with
              | some b => some b.hash | none => tip) =
              (match (specRun get stopped fuel (n + 1) (some b0.hash)).1.getLast? with
              | some b => some b.hash | none => some b0.hash) := by
            cases hr : (specRun get stopped fuel (n + 1) (some b0.hash)).1 with
            | nil => simp
            | cons x xs =>
              rw [List.getLast?_cons_cons]
              cases hl : (x :: xs).getLast? with
              | none => simp at hl
              | some y => rfl
          rw [hlast]
          have hn : n + ((specRun get stopped fuel (n + 1) (some b0.hash)).1.length + 1) =
              n + 1 + (specRun get stopped fuel (n + 1) (some b0.hash)).1.length := by omega
          rw [hn]
          refine ⟨fun h => ?_, fun h hl => ?_⟩
          · obtain ⟨b, t, h1, h2, h3, h4⟩ := ih.1 h
            exact ⟨b, t, h1, h2, h3, by omega⟩
          · exact ih.2 h (by omega)

/-! ### freeze refines the specification -/

theorem tipHash_snoc (l : List Block) (b : Block) : tipHash (l ++ [b]) = some b.hash := by
  simp [tipHash]

/-- **Refinement of the freeze loop**: from a state holding `chain`, the loop appends exactly
    `specRun …` — and the state it ends in holds `chain ++` those blocks. -/
theorem freezeLoop_spec {c : Cfg} (get : Nat → Option Block) (stopped : Nat → Bool) :
    ∀ (fuel n : Nat) (s : Top) (acc : List (Nat × Nat × Nat)) (chain : List Block),
    TopInv c s chain → n = chain.length + 1 →
    ∃ s', freezeLoop c get stopped fuel n s acc =
        (s', if (specRun get stopped fuel n (tipHash chain)).2
             then .ok (acc ++ entries n (specRun get stopped fuel n (tipHash chain)).1) else .err) ∧
      TopInv c s' (chain ++ (specRun get stopped fuel n (tipHash chain)).1)
  | 0, n, s, acc, chain, hi, _ => by
    refine ⟨s, ?_, ?_⟩
    · simp [freezeLoop, specRun, entries]
    · simpa [specRun] using hi
  | fuel + 1, n, s, acc, chain, hi, hn => by
    unfold freezeLoop specRun
    by_cases hs : stopped n = true
    · simp only [hs, if_true]
      exact ⟨s, by simp [entries], by simpa using hi⟩
    · simp only [hs, Bool.false_eq_true, if_false]
      cases hg : get n with
      | none =>
        simp only
        exact ⟨s, by simp [entries], by simpa using hi⟩
      | some b =>
        simp only
        have htip : s.tip.map (·.hash) = tipHash chain := by rw [hi.tip]; rfl
        rw [htip]
        by_cases hm : mismatch (tipHash chain) b = true
        · rw [if_pos hm, if_pos hm]
          exact ⟨s, by simp, by simpa using hi⟩
        · rw [if_neg hm, if_neg hm]
          have hnum : ¬ s.h.number ≠ n := by rw [hi.number, hn]; simp
          rw [if_neg hnum]
          -- the state after the append holds `chain ++ [b]`
          obtain ⟨hg', hk'⟩ := append_good_aux (max := c.max) (stored c b) hi.good hi.handle
          have hinv : TopInv c ⟨(append c.max s.h s.d (stored c b)).1,
              (append c.max s.h s.d (stored c b)).2, some b⟩ (chain ++ [b]) := by
            refine ⟨by simpa using hg', hk', ?_, by simp⟩
            apply hi.linked.snoc
            intro t ht
            have : tipHash chain = some t.hash := by simp [tipHash, ht]
            rw [this] at hm
            exact (by simpa [mismatch] using hm : t.hash = b.parent).symm
          obtain ⟨s', hrun, hinv'⟩ := freezeLoop_spec get stopped fuel (n + 1) _
            (acc ++ [(b.hash, n, b.txs)]) (chain ++ [b]) hinv (by simp [hn])
          rw [tipHash_snoc] at hrun hinv'
          refine ⟨s', ?_, by simpa using hinv'⟩
          rw [hrun]
          simp only [entries, List.append_assoc, List.singleton_append]

/-- `freeze` from a state holding `chain` -/
theorem freeze_spec {c : Cfg} {s : Top} {chain : List Block} (hi : TopInv c s chain)
    (thr : Nat) (get : Nat → Option Block) (stopped : Nat → Bool) :
    let r := specRun get stopped (thr - (chain.length + 1)) (chain.length + 1) (tipHash chain)
    (freeze c s thr get stopped).2 =
        (if r.2 then .ok (entries (chain.length + 1) r.1) else .err) ∧
      TopInv c (freeze c s thr get stopped).1 (chain ++ r.1) := by
  obtain ⟨s', h1, h2⟩ := freezeLoop_spec (c := c) get stopped (thr - (chain.length + 1))
    (chain.length + 1) s [] chain hi rfl
  unfold freeze
  rw [hi.number, h1]
  exact ⟨by simp, h2⟩

/-! ### truncate -/

theorem truncateTop_spec {c : Cfg} (ok : c.Ok) {s : Top} {chain : List Block}
    (hi : TopInv c s chain) (k : Nat) :
    (1 ≤ k ∧ k < chain.length → ∃ s', truncateTop c s k = some s' ∧ TopInv c s' (chain.take k)) ∧
    (¬ (1 ≤ k ∧ k < chain.length) → truncateTop c s k = some s) := by
  have hnum := hi.number
  constructor
  · intro ⟨h1, h2⟩
    have hg : k > 0 ∧ k + 1 < s.h.number := by omega
    obtain ⟨g', hk'⟩ := truncate_good_aux hi.good hi.handle k h1 (by simpa using h2)
    rw [← List.map_take] at g'
    obtain ⟨b, hb⟩ : ∃ b, chain[k - 1]? = some b :=
      ⟨chain[k - 1]'(by omega), List.getElem?_eq_getElem _⟩
    have hb' : (chain.take k)[k - 1]? = some b := by
      rw [List.getElem?_take]; simp [hb]; omega
    have hr := readBlock_stored ok g' hk' k b h1 hb'
    unfold truncateTop
    rw [if_pos hg]
    simp only [hr]
    refine ⟨_, rfl, g', hk', hi.linked.take k, ?_⟩
    rw [getLast?_eq_getElem?]
    have : (chain.take k).length - 1 = k - 1 := by simp; omega
    rw [this, hb']
  · intro hn
    have hg : ¬ (k > 0 ∧ k + 1 < s.h.number) := by omega
    unfold truncateTop
    rw [if_neg hg]

/-! ### crash -/

/-- a crash at any cut followed by `Freezer::open`: the freezer holds a prefix of the chain, with
    every block whose index entry and data survived (see `crash_any_cut`) -/
theorem crashOpen_spec {c : Cfg} (ok : c.Ok) {s : Top} {chain : List Block}
    (hi : TopInv c s chain) (il : Nat) (fl : Option Nat) (hil : INDEX_ENTRY_SIZE ≤ il) :
    ∃ s' n, crashOpen c s il fl = some s' ∧ n ≤ chain.length ∧ TopInv c s' (chain.take n) ∧
      (∀ i e, i < chain.length → s.d.idx[i + 1]? = some e → INDEX_ENTRY_SIZE * (i + 2) ≤ il →
        (e.fid < s.h.headId ∨ e.off ≤ cutLen fl) → i < n) := by
  obtain ⟨h2, d2, n, ho, hh, hn, hg, hs⟩ := crash_any_cut_aux hi.good hi.handle il fl hil
  rw [← List.map_take] at hg
  obtain ⟨s', ho', hinv, _, _⟩ := openTop_of_open ok ho hg hh (hi.linked.take n)
  refine ⟨s', n, ho', by simpa using hn, hinv, ?_⟩
  intro i e h1 h2' h3 h4
  exact hs i e (by simpa using h1) h2' h3 h4

/-! ### resuming a run from any prefix -/

def noStop : Nat → Bool := fun _ => false

theorem tipHash_take_succ {T : List Block} {k : Nat} {b : Block} (hb : T[k]? = some b) :
    tipHash (T.take (k + 1)) = some b.hash := by
  unfold tipHash
  rw [getLast?_eq_getElem?]
  have hk : k < T.length := by
    rcases Nat.lt_or_ge k T.length with h | h
    · exact h
    · rw [List.getElem?_eq_none h] at hb; cases hb
  have : (T.take (k + 1)).length - 1 = k := by simp; omega
  rw [this, List.getElem?_take]
  simp [hb]

/-- If the source returns `T[i]` for every height `i + 1` and `T` is parent-linked, then an
    unstopped run started from ANY prefix `T.take k` first re-appends the rest of `T` and then goes
    on exactly as a run started from `T`. -/
theorem specRun_resume (get : Nat → Option Block) (T : List Block) (k0 : Nat)
    (hfed : ∀ i b, k0 ≤ i → T[i]? = some b → get (i + 1) = some b) (hl : Linked T) :
    ∀ (dlt k fuel : Nat), T.length - k = dlt → k0 ≤ k → k ≤ T.length → dlt ≤ fuel →
      specRun get noStop fuel (k + 1) (tipHash (T.take k)) =
        (T.drop k ++ (specRun get noStop (fuel - dlt) (T.length + 1) (tipHash T)).1,
         (specRun get noStop (fuel - dlt) (T.length + 1) (tipHash T)).2)
  | 0, k, fuel, hd, _, hk, _ => by
    have : k = T.length := by omega
    subst this
    simp
  | dlt + 1, k, fuel, hd, hk0, hk, hf => by
    obtain ⟨f, rfl⟩ : ∃ f, fuel = f + 1 := ⟨fuel - 1, by omega⟩
    have hkl : k < T.length := by omega
    obtain ⟨b, hb⟩ : ∃ b, T[k]? = some b := ⟨T[k]'hkl, List.getElem?_eq_getElem _⟩
    have hgk := hfed k b hk0 hb
    rw [specRun]
    simp only [noStop, Bool.false_eq_true, if_false, hgk]
    -- the parent test passes: the stored tip is `T[k-1]` (or there is none)
    have hpass : ¬ mismatch (tipHash (T.take k)) b = true := by
      cases k with
      | zero => simp [tipHash, mismatch]
      | succ k' =>
        obtain ⟨a, ha⟩ : ∃ a, T[k']? = some a := ⟨T[k']'(by omega), List.getElem?_eq_getElem _⟩
        rw [tipHash_take_succ ha]
        have := hl k' a b ha hb
        simp [mismatch, this]
    rw [if_neg hpass]
    have ih := specRun_resume get T k0 hfed hl dlt (k + 1) f (by omega) (by omega) (by omega) (by omega)
    rw [tipHash_take_succ hb] at ih
    have hnoStop : (fun _ : Nat => false) = noStop := rfl
    simp only [hnoStop] at *
    rw [ih]
    have hdrop : T.drop k = b :: T.drop (k + 1) := by
      rw [List.drop_eq_getElem_cons hkl]
      congr 1
      have := List.getElem?_eq_getElem hkl
      rw [hb] at this; exact (Option.some.inj this).symm
    have hfu : f + 1 - (dlt + 1) = f - dlt := by omega
    rw [hdrop, hfu]
    simp

/-- the stored tip after a run: the last appended block, or the old tip when nothing was appended -/
theorem tipHash_append (l r : List Block) :
    tipHash (l ++ r) = (match r.getLast? with | some b => some b.hash | none => tipHash l) := by
  unfold tipHash
  cases r with
  | nil => simp
  | cons x xs =>
    rw [List.getLast?_append]
    cases h : (x :: xs).getLast? with
    | none => simp at h
    | some y => simp

/-! ### stale pre-lock reads of `number` (round 6) -/

theorem freeze_eq_freezeFrom (c : Cfg) (s : Top) (thr : Nat) (get : Nat → Option Block)
    (stopped : Nat → Bool) : freeze c s thr get stopped = freezeFrom c s s.h.number thr get stopped := rfl

theorem truncateTop_eq_truncateFrom (c : Cfg) (s : Top) (item : Nat) :
    truncateTop c s item = truncateFrom c s s.h.number item := rfl

/-- a `freeze` that starts from a stale `n0 ≠ number` changes nothing: its first iteration ends the
    call — `Ok` with an empty map (loop empty, stop flag, block missing) or `Err` (the parent-hash
    test, else `append`'s "unexpected number" test) -/
theorem freezeFrom_stale (c : Cfg) (s : Top) (n0 thr : Nat) (get : Nat → Option Block)
    (stopped : Nat → Bool) (hne : n0 ≠ s.h.number) :
    (freezeFrom c s n0 thr get stopped).1 = s ∧
    ((freezeFrom c s n0 thr get stopped).2 = .err ↔
      n0 < thr ∧ stopped n0 = false ∧ (get n0).isSome = true) ∧
    ((freezeFrom c s n0 thr get stopped).2 ≠ .err → (freezeFrom c s n0 thr get stopped).2 = .ok []) := by
  unfold freezeFrom
  cases hf : thr - n0 with
  | zero =>
    simp only [freezeLoop]
    refine ⟨trivial, ?_, fun _ => trivial⟩
    constructor
    · intro h; cases h
    · intro h; omega
  | succ fuel =>
    have hlt : n0 < thr := by omega
    unfold freezeLoop
    by_cases hs : stopped n0 = true
    · simp [hs]
    · have hs' : stopped n0 = false := by simpa using hs
      simp only [hs', Bool.false_eq_true, if_false]
      cases hg : get n0 with
      | none => simp
      | some b =>
        simp only
        by_cases hm : mismatch (Option.map (fun x => x.hash) s.tip) b = true
        · simp [hm, hlt]
        · have hn : s.h.number ≠ n0 := fun h => hne h.symm
          simp [hm, hn, hlt]

/-- `truncate` whose guard read a stale `n0 ≤ number` (only freezes ran in between — `number` never
    shrinks under a freeze): it never fails, and either truncates exactly as an un-raced call or
    (guard false on the stale value) does nothing -/
theorem truncateFrom_stale_low (c : Cfg) (s : Top) (n0 k : Nat) (hle : n0 ≤ s.h.number) :
    (truncateFrom c s n0 k = truncateTop c s k) ∨ (truncateFrom c s n0 k = some s) := by
  unfold truncateFrom truncateTop
  by_cases hg : k > 0 ∧ k + 1 < n0
  · left
    have hg' : k > 0 ∧ k + 1 < s.h.number := by omega
    rw [if_pos hg, if_pos hg']
  · right
    rw [if_neg hg]

/-! ### the exact-LRU versions (round 6, second increment): same specification -/

/-- replacing the cached ids does not touch the invariant -/
theorem TopInv.withCache {c : Cfg} {s : Top} {chain : List Block} (hi : TopInv c s chain)
    (x : List Nat) : TopInv c ⟨withCache s.h x, s.d, s.tip⟩ chain :=
  ⟨hi.good, ⟨hi.handle.1, hi.handle.2⟩, hi.linked, hi.tip⟩

/-- **Refinement of the freeze loop with the exact LRU**: same appended blocks, same outcome -/
theorem freezeLoopL_spec (cap : Nat) {c : Cfg} (get : Nat → Option Block) (stopped : Nat → Bool) :
    ∀ (fuel n : Nat) (s : Top) (acc : List (Nat × Nat × Nat)) (chain : List Block),
    TopInv c s chain → n = chain.length + 1 →
    ∃ s', freezeLoopL cap c get stopped fuel n s acc =
        (s', if (specRun get stopped fuel n (tipHash chain)).2
             then .ok (acc ++ entries n (specRun get stopped fuel n (tipHash chain)).1) else .err) ∧
      TopInv c s' (chain ++ (specRun get stopped fuel n (tipHash chain)).1)
  | 0, n, s, acc, chain, hi, _ => by
    refine ⟨s, ?_, ?_⟩
    · simp [freezeLoopL, specRun, entries]
    · simpa [specRun] using hi
  | fuel + 1, n, s, acc, chain, hi, hn => by
    unfold freezeLoopL specRun
    by_cases hs : stopped n = true
    · simp only [hs, if_true]
      exact ⟨s, by simp [entries], by simpa using hi⟩
    · simp only [hs, Bool.false_eq_true, if_false]
      cases hg : get n with
      | none =>
        simp only
        exact ⟨s, by simp [entries], by simpa using hi⟩
      | some b =>
        simp only
        have htip : s.tip.map (·.hash) = tipHash chain := by rw [hi.tip]; rfl
        rw [htip]
        by_cases hm : mismatch (tipHash chain) b = true
        · rw [if_pos hm, if_pos hm]
          exact ⟨s, by simp, by simpa using hi⟩
        · rw [if_neg hm, if_neg hm]
          have hnum : ¬ s.h.number ≠ n := by rw [hi.number, hn]; simp
          rw [if_neg hnum]
          -- the state after the append holds `chain ++ [b]`
          obtain ⟨hg', hk'⟩ := append_good_aux (max := c.max) (stored c b) hi.good hi.handle
          have hinv : TopInv c ⟨(appendL cap c.max s.h s.d (stored c b)).1,
              (appendL cap c.max s.h s.d (stored c b)).2, some b⟩ (chain ++ [b]) := by
            have hg2 : Good (appendL cap c.max s.h s.d (stored c b)).2
                (List.map (stored c) chain ++ [stored c b]) := hg'
            refine ⟨by simpa using hg2, ⟨hk'.1, hk'.2⟩, ?_, by simp⟩
            apply hi.linked.snoc
            intro t ht
            have : tipHash chain = some t.hash := by simp [tipHash, ht]
            rw [this] at hm
            exact (by simpa [mismatch] using hm : t.hash = b.parent).symm
          obtain ⟨s', hrun, hinv'⟩ := freezeLoopL_spec cap get stopped fuel (n + 1) _
            (acc ++ [(b.hash, n, b.txs)]) (chain ++ [b]) hinv (by simp [hn])
          rw [tipHash_snoc] at hrun hinv'
          refine ⟨s', ?_, by simpa using hinv'⟩
          rw [hrun]
          simp only [entries, List.append_assoc, List.singleton_append]


/-- `Freezer::freeze` with the exact LRU, for ANY pre-lock read that is current -/
theorem freezeL_spec (cap : Nat) {c : Cfg} {s : Top} {chain : List Block} (hi : TopInv c s chain)
    (thr : Nat) (get : Nat → Option Block) (stopped : Nat → Bool) :
    let r := specRun get stopped (thr - (chain.length + 1)) (chain.length + 1) (tipHash chain)
    (freezeL cap c s thr get stopped).2 =
        (if r.2 then .ok (entries (chain.length + 1) r.1) else .err) ∧
      TopInv c (freezeL cap c s thr get stopped).1 (chain ++ r.1) := by
  obtain ⟨s', h1, h2⟩ := freezeLoopL_spec cap (c := c) get stopped (thr - (chain.length + 1))
    (chain.length + 1) s [] chain hi rfl
  unfold freezeL freezeFromL
  rw [hi.number, h1]
  exact ⟨by simp, h2⟩


end CkbVerif.FreezerTop
