import CkbVerif.Model.TxRules
import CkbVerif.Lemmas.TxCapacity

/-!
Helper lemmas for the C04 theorems about `Model/TxRules.lean`.
-/
namespace CkbVerif.C04
open CkbVerif.TxRules CkbVerif.Tx CkbVerif.Gen.Tx

theorem firstDup_none_iff {α : Type} [DecidableEq α] (l seen : List α) :
    firstDup seen l = none ↔ l.Nodup ∧ ∀ x ∈ l, x ∉ seen := by
  induction l generalizing seen with
  | nil => simp [firstDup]
  | cons a rest ih =>
    unfold firstDup
    by_cases h : a ∈ seen
    · simp only [h, if_true]
      constructor
      · intro x; cases x
      · rintro ⟨_, h2⟩; exact absurd h (h2 a (by simp))
    · simp only [h, if_false]
      rw [ih]
      constructor
      · rintro ⟨h1, h2⟩
        refine ⟨List.nodup_cons.2 ⟨fun hin => h2 a hin (by simp), h1⟩, ?_⟩
        intro x hx
        rcases List.mem_cons.1 hx with rfl | hx
        · exact h
        · intro hs; exact h2 x hx (List.mem_cons_of_mem _ hs)
      · rintro ⟨h1, h2⟩
        have hn := List.nodup_cons.1 h1
        refine ⟨hn.2, ?_⟩
        intro x hx hs
        rcases List.mem_cons.1 hs with rfl | hs
        · exact hn.1 hx
        · exact h2 x (List.mem_cons_of_mem _ hx) hs

/-- the first duplicate really is a duplicate -/
theorem firstDup_some {α : Type} [DecidableEq α] (l seen : List α) (d : α) (h : firstDup seen l = some d) :
    d ∈ l ∧ (d ∈ seen ∨ 1 < l.count d) := by
  induction l generalizing seen with
  | nil => simp [firstDup] at h
  | cons a rest ih =>
    unfold firstDup at h
    by_cases hs : a ∈ seen
    · simp only [hs, if_true, Option.some.injEq] at h
      subst h
      exact ⟨by simp, Or.inl hs⟩
    · simp only [hs, if_false] at h
      obtain ⟨h1, h2⟩ := ih _ h
      refine ⟨List.mem_cons_of_mem _ h1, ?_⟩
      rcases h2 with h2 | h2
      · rcases List.mem_cons.1 h2 with rfl | h2
        · right
          have : 0 < rest.count d := List.count_pos_iff.2 h1
          simp only [List.count_cons_self]; omega
        · left; exact h2
      · right
        have := List.count_le_count_cons (a := d) (b := a) (l := rest)
        omega

theorem enabled_known (v : Nat) (h : hashTypeEnabled v = true) : hashTypeKnown v = true := by
  unfold hashTypeEnabled HASH_TYPE_DATA HASH_TYPE_TYPE HASH_TYPE_DATA1 HASH_TYPE_DATA2 at h
  unfold hashTypeKnown
  simp only [Bool.or_eq_true, beq_iff_eq] at h ⊢
  omega

theorem checkHashTypes_ok_iff (l : List Nat) :
    checkHashTypes l = .ok ↔ ∀ v ∈ l, hashTypeEnabled v = true := by
  induction l with
  | nil => simp [checkHashTypes]
  | cons v rest ih =>
    unfold checkHashTypes
    by_cases he : hashTypeEnabled v = true
    · simp only [enabled_known v he, he, if_true, ih, List.mem_cons, forall_eq_or_imp, true_and]
    · have he' : hashTypeEnabled v = false := by cases h : hashTypeEnabled v <;> simp_all
      constructor
      · intro h
        by_cases hk : hashTypeKnown v = true
        · simp [hk, he'] at h
        · have hk' : hashTypeKnown v = false := by cases h2 : hashTypeKnown v <;> simp_all
          simp [hk'] at h
      · intro h; exact absurd (h v (by simp)) he

theorem daoScriptSize_none_iff (s : Nat) (l : List DaoPair) (i : Nat) :
    daoScriptSize s i l = none ↔ ∀ p ∈ l, daoPairMismatch s p = false := by
  induction l generalizing i with
  | nil => simp [daoScriptSize]
  | cons p rest ih =>
    unfold daoScriptSize
    by_cases h : daoPairMismatch s p = true
    · simp [h]
    · have h' : daoPairMismatch s p = false := by cases h2 : daoPairMismatch s p <;> simp_all
      simp [h', ih]

theorem maximumWithdraw_plain (caps : List Nat) (acc : Nat) (h : acc < Tx.U64) :
    maximumWithdraw acc (caps.map .plain) =
      if acc + caps.sum < Tx.U64 then some (acc + caps.sum) else none := by
  induction caps generalizing acc with
  | nil => simp [maximumWithdraw, h]
  | cons c rest ih =>
    rw [List.map_cons, List.sum_cons]
    simp only [maximumWithdraw]
    unfold safeAdd
    by_cases h1 : c + acc < Tx.U64
    · rw [if_pos h1]
      simp only
      rw [ih _ h1]
      have e : c + acc + rest.sum = acc + (c + rest.sum) := by omega
      by_cases h2 : acc + (c + rest.sum) < Tx.U64
      · rw [if_pos (by omega), if_pos h2, e]
      · rw [if_neg (by omega), if_neg h2]
    · rw [if_neg h1]
      have : ¬ acc + (c + rest.sum) < Tx.U64 := by omega
      simp [this]

end CkbVerif.C04
