import CkbVerif.Lemmas.IndexerTxAnswersT

/-! ORDER of the `get_cells` answers on a chain store (exact mode): strictly ascending in
(block number, tx index, output index); any mode: strictly ascending in key bytes (C18). -/
namespace CkbVerif.Indexer
open CkbVerif.Gen.Indexer

/-- the unlimited ascending answer of `get_cells` as a filterMap over the scan -/
def cellAnswers (s : Store) (ls : Bool) (q : Script) (exact : Bool) (f : Filter) : List CellAns :=
  (scan s (cellPrefix ls q)).filterMap (cellAnsOf s (cellPrefix ls q) exact f ls false)

theorem cellRows_chain (keep interval : Nat) (blocks : List Block) (ok : ChainOK2 keep interval [] blocks)
    (ls : Bool) (q : Script) (exact : Bool) (f : Filter) :
    cellRows (blocks.foldl (append keep interval) []) ls q exact f false
        (scan (blocks.foldl (append keep interval) []) (cellPrefix ls q)) =
      some (cellAnswers (blocks.foldl (append keep interval) []) ls q exact f) :=
  cellRows_eq_filterMap _ ls q exact f false _ (cellsResolvable_chain keep interval blocks ok ls q exact)

/-- any mode: the answers are strictly ascending in their keys (= cursors) -/
theorem cellAnswers_sorted_key (keep interval : Nat) (blocks : List Block)
    (hb : ∀ b ∈ blocks, BlockBounded b) (ls : Bool) (q : Script) (exact : Bool) (f : Filter) :
    (cellAnswers (blocks.foldl (append keep interval) []) ls q exact f).Pairwise
      (fun a b => bytesLt a.key b.key = true) := by
  obtain ⟨fam, hfam, hf⟩ := cellPrefix_fam ls q
  have hstrict := scan_strict_chain keep interval blocks hb fam (scriptRaw q) hf
  rw [← hfam] at hstrict
  unfold cellAnswers
  apply List.Pairwise.filterMap _ _ hstrict
  intro x y hxy a ha b hb'
  rw [cellAnsOf_key _ _ _ _ _ _ _ _ ha, cellAnsOf_key _ _ _ _ _ _ _ _ hb']
  exact hxy

/-- exact mode: the key of an answer is the key of the searched script at the cell's creation
position -/
theorem cellAns_decode (keep interval : Nat) (blocks : List Block) (ok : ChainOK2 keep interval [] blocks)
    (ls : Bool) (q : Script) (f : Filter) :
    ∀ e ∈ scan (blocks.foldl (append keep interval) []) (cellPrefix ls q), ∀ a,
      cellAnsOf (blocks.foldl (append keep interval) []) (cellPrefix ls q) true f ls false e = some a →
      e.1 = (if ls then Key.cellLock q a.cell.bn a.cell.txIdx a.op.idx
             else Key.cellType q a.cell.bn a.cell.txIdx a.op.idx) := by
  intro e he a ha
  cases ls with
  | true =>
    obtain ⟨sc, bn, txi, io, t, c, rfl, hc, h1, h2, h3⟩ := scan_lock_rows keep interval blocks ok q e he
    have hp := ((mem_scan _ _ _).mp he).2
    unfold cellAnsOf at ha
    simp only [valTx, Key.io, hc] at ha
    split at ha
    · cases ha
    · rename_i hex
      split at ha
      · cases ha
        have hlen : (Key.cellLock sc bn txi io).bytes.length = (cellPrefix true q).length + 16 := by
          simpa using hex
        rw [cellPrefix_true] at hp hlen
        have hsc : sc = q := (exact_cellLock q sc bn txi io).mp ⟨hp, hlen⟩
        subst hsc
        simp [h2, h3]
      · cases ha
  | false =>
    obtain ⟨sc, bn, txi, io, t, c, rfl, hc, h1, h2, h3⟩ := scan_type_rows keep interval blocks ok q e he
    have hp := ((mem_scan _ _ _).mp he).2
    unfold cellAnsOf at ha
    simp only [valTx, Key.io, hc] at ha
    split at ha
    · cases ha
    · rename_i hex
      split at ha
      · cases ha
        have hlen : (Key.cellType sc bn txi io).bytes.length = (cellPrefix false q).length + 16 := by
          simpa using hex
        rw [cellPrefix_false] at hp hlen
        have hsc : sc = q := (exact_cellType q sc bn txi io).mp ⟨hp, hlen⟩
        subst hsc
        simp [h2, h3]
      · cases ha

/-- **exact mode: ascending answers are STRICTLY sorted by (block_number, tx_index, output_index)** -/
theorem cellAnswers_sorted (keep interval : Nat) (blocks : List Block) (ok : ChainOK2 keep interval [] blocks)
    (hb : ∀ b ∈ blocks, BlockBounded b) (ls : Bool) (q : Script) (f : Filter) :
    (cellAnswers (blocks.foldl (append keep interval) []) ls q true f).Pairwise
      (fun a b => lex3Lt (a.cell.bn, a.cell.txIdx, a.op.idx) (b.cell.bn, b.cell.txIdx, b.op.idx)) := by
  have hkb := keysBounded_chain keep interval blocks [] (by intro e he; cases he) hb
  obtain ⟨fam, hfam, hf⟩ := cellPrefix_fam ls q
  have hstrict := scan_strict_chain keep interval blocks hb fam (scriptRaw q) hf
  rw [← hfam] at hstrict
  have hdec := cellAns_decode keep interval blocks ok ls q f
  generalize blocks.foldl (append keep interval) [] = S at *
  have h2 := hstrict.imp_of_mem
    (S := fun x y => rowLt x y ∧ x ∈ scan S (cellPrefix ls q) ∧ y ∈ scan S (cellPrefix ls q))
    (fun hx hy hxy => ⟨hxy, hx, hy⟩)
  unfold cellAnswers
  apply List.Pairwise.filterMap _ _ h2
  intro x y ⟨hxy, hx, hy⟩ a ha b hb'
  have k1 := hdec x hx a ha
  have k2 := hdec y hy b hb'
  have b1 := hkb x ((mem_scan _ _ _).mp hx).1
  have b2 := hkb y ((mem_scan _ _ _).mp hy).1
  unfold rowLt at hxy
  rw [k1, k2] at hxy
  rw [k1] at b1
  rw [k2] at b2
  cases ls with
  | true => exact cellLockKey_lt q _ _ _ _ _ _ b1 b2 hxy
  | false => exact cellTypeKey_lt q _ _ _ _ _ _ b1 b2 hxy

/-! ## unlimited pages -/

/-- the unlimited ascending answer of ungrouped `get_transactions` as a filterMap over the scan -/
def txAnswers (s : Store) (ls : Bool) (q : Script) (exact : Bool) (fs : Option Script)
    (br : Option (Nat × Nat)) : List TxRow :=
  (scan s (txPrefix ls q)).filterMap (txAnsOf s ls q exact fs br)

/-- the list in iteration direction -/
def dirList {α : Type} (l : List α) (desc : Bool) : List α := if desc then l.reverse else l

theorem getTxs_unlimited (s : Store) (ls : Bool) (q : Script) (exact : Bool) (fs : Option Script)
    (br : Option (Nat × Nat)) (desc : Bool) (limit : Nat)
    (h : (txAnswers s ls q exact fs br).length ≤ limit) :
    (getTxs s ls q exact fs br desc limit none).1 = dirList (txAnswers s ls q exact fs br) desc := by
  rw [getTxs_eq]
  simp only [afterCursor_none, filterMap_dirRows]
  unfold dirList txAnswers at *
  cases desc with
  | false => exact List.take_of_length_le h
  | true => exact List.take_of_length_le (by simpa using h)

theorem getCells_unlimited (s : Store) (ls : Bool) (q : Script) (exact : Bool) (f : Filter)
    (H : CellsResolvable s ls q exact) (desc : Bool) (limit : Nat)
    (h : (cellAnswers s ls q exact f).length ≤ limit) :
    (getCells s ls q exact f desc limit none).map (·.1) = some (dirList (cellAnswers s ls q exact f) desc) := by
  rw [getCells_eq s ls q exact f H]
  simp only [afterCursor_none, filterMap_dirRows, Option.map_some, Option.some.injEq]
  unfold dirList cellAnswers at *
  cases desc with
  | false => exact List.take_of_length_le h
  | true => exact List.take_of_length_le (by simpa using h)

/-- the page walk of `get_cells` on a store whose scan is strictly ascending -/
theorem getCellsPages_concat (s : Store) (ls : Bool) (q : Script) (exact : Bool) (f : Filter)
    (H : CellsResolvable s ls q exact) (hs : (scan s (cellPrefix ls q)).Pairwise rowLt)
    (desc : Bool) (limit : Nat) (hl : 1 ≤ limit) (fuel : Nat) (hf : s.length < fuel) :
    ∃ pages, getCellsPages s ls q exact f desc limit fuel none = some pages ∧
      pages.flatten = dirList (cellAnswers s ls q exact f) desc ∧ pages.getLast? = some [] := by
  refine ⟨_, getCellsPages_eq_walk s ls q exact f H desc limit fuel none, ?_⟩
  have := walk_flatten_start (cellAnsOf s (cellPrefix ls q) exact f ls false) (·.key)
    (fun e a h => cellAnsOf_key _ _ _ _ _ _ e a h) (scan s (cellPrefix ls q)) desc hs limit hl fuel
    (Nat.lt_of_le_of_lt (length_scan_le _ _) hf)
  rw [filterMap_dirRows] at this
  exact this

theorem getTxsPages_concat (s : Store) (ls : Bool) (q : Script) (exact : Bool) (fs : Option Script)
    (br : Option (Nat × Nat)) (hs : (scan s (txPrefix ls q)).Pairwise rowLt)
    (desc : Bool) (limit : Nat) (hl : 1 ≤ limit) (fuel : Nat) (hf : s.length < fuel) :
    (getTxsPages s ls q exact fs br desc limit fuel none).flatten = dirList (txAnswers s ls q exact fs br) desc ∧
      (getTxsPages s ls q exact fs br desc limit fuel none).getLast? = some [] := by
  rw [getTxsPages_eq_walk]
  have := walk_flatten_start (txAnsOf s ls q exact fs br) (·.key)
    (fun e a h => txAnsOf_key _ _ _ _ _ _ e a h) (scan s (txPrefix ls q)) desc hs limit hl fuel
    (Nat.lt_of_le_of_lt (length_scan_le _ _) hf)
  rw [filterMap_dirRows] at this
  exact this

end CkbVerif.Indexer
