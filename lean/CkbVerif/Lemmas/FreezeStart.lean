/-
The freezer invariant of `Lemmas/Freeze.lean` holds for the start state (nothing frozen, every row
present) over any replayed well-formed chain of the C02 model: `Inv` need not be assumed there.
-/
import CkbVerif.Lemmas.Freeze
import CkbVerif.Lemmas.StoreInv
namespace CkbVerif.Freeze
open CkbVerif.Store

/-- bodies are stored under their own id, and every main-chain index row names a stored block of
that number -/
structure StoreOk (v : View) : Prop where
  idOk : ∀ id blk, v.r.bodies id = some blk → blk.id = id
  numOk : ∀ n id, v.m.index n = some id → ∃ blk, v.r.bodies id = some blk ∧ blk.number = n

theorem storeOk_empty : StoreOk View.empty :=
  ⟨fun _ _ h => by simp [View.empty, Recs.empty] at h, fun _ _ h => by simp [View.empty, Main.empty] at h⟩

theorem attachOneM_index (m : Main) (b : Block) :
    (attachOneM m b).index = upd m.index b.number (some b.id) := by
  show (attachCell (attach m (headEpoch b) b) b).index = _
  rw [attachCell_index]; rfl

theorem storeOk_attachOne {v : View} {b : Block} (h : StoreOk v) (hv : Valid v.m v.r b) :
    StoreOk (attachOne v b) := by
  constructor
  · intro id blk hb
    have hb' : (attachOneR v.r b).bodies id = some blk := hb
    rw [attachOneR_bodies] at hb'
    by_cases hid : id = b.id
    · subst hid; simp [upd] at hb'; subst hb'; rfl
    · simp [upd, hid] at hb'; exact h.idOk id blk hb'
  · intro n id hi
    have hi' : (attachOneM v.m b).index n = some id := hi
    rw [attachOneM_index] at hi'
    by_cases hn : n = b.number
    · subst hn
      simp [upd] at hi'; subst hi'
      exact ⟨b, by show (attachOneR v.r b).bodies b.id = some b; rw [attachOneR_bodies]; simp [upd], rfl⟩
    · simp [upd, hn] at hi'
      obtain ⟨blk, h1, h2⟩ := h.numOk n id hi'
      exact ⟨blk, bodies_mono_attachOne v.r b hv.body id blk h1, h2⟩

theorem storeOk_attachAll {v : View} {bs : List Block} (h : StoreOk v) (hv : ValidChain v bs) :
    StoreOk (attachAll v bs) := by
  induction hv with
  | nil v => exact h
  | cons hb _ ih => exact ih (storeOk_attachOne h hb)

theorem storeOk_init (g : Block) (hg : Valid Main.empty Recs.empty g) : StoreOk (init g) := by
  have := storeOk_attachOne storeOk_empty (b := g) hg
  exact ⟨this.idOk, this.numOk⟩

/-- the freezer state of a node that has never frozen anything -/
def startState (v : View) (stored : List Nat) : FS :=
  { v := v, hdr := fun _ => true, body := fun _ => true, stored := stored, frozen := [] }

theorem inv_start (v : View) (stored : List Nat) (h : StoreOk v) : Inv (startState v stored) := by
  constructor
  · intro k fb hk; simp [startState] at hk
  · intro _ _ _ _; rfl
  · intro _ _ _; rfl
  · exact h.idOk
  · intro n id blk hi hb
    obtain ⟨blk', h1, h2⟩ := h.numOk n id hi
    have : (startState v stored).v.r.bodies id = some blk' := h1
    rw [hb] at this
    cases this; exact h2

end CkbVerif.Freeze

namespace CkbVerif.Freeze
open CkbVerif.Store

/-- `get_frozen_block` only ever answers with the block asked for (the hash test of the F17 repair) -/
theorem getFrozen_sound (s : FS) (id : Nat) (b : Block) (h : getFrozen s id = some b) : b.id = id := by
  unfold getFrozen at h
  split at h
  · cases h
  · split at h
    · cases h
    · split at h
      · split at h
        · split at h
          · rename_i hfb; cases h; exact hfb
          · cases h
        · cases h
      · cases h

/-- `get_block` as /repo has it never answers with another block (it did before ea444a5) -/
theorem getBlock_sound (s : FS) (hid : ∀ id blk, s.v.r.bodies id = some blk → blk.id = id)
    (id : Nat) (b : Block) (h : getBlock s id = .some b) : b.id = id := by
  unfold getBlock at h
  split at h
  · cases h
  · split at h
    · cases h
    · rename_i blk hb
      split at h
      · rename_i fb hfb
        cases h
        exact getFrozen_sound s id _ hfb
      · split at h
        · cases h; exact hid id _ hb
        · cases h

/-- neither do the part accessors and `get_packed_block` -/
theorem getPart_sound (s : FS) (hid : ∀ id blk, s.v.r.bodies id = some blk → blk.id = id)
    (id : Nat) (b : Block) (h : getPart s id = some b) : b.id = id := by
  unfold getPart at h
  split at h
  · exact hid id b h
  · exact getFrozen_sound s id b h

theorem getPacked_sound (s : FS) (hid : ∀ id blk, s.v.r.bodies id = some blk → blk.id = id)
    (id : Nat) (b : Block) (h : getPacked s id = some b) : b.id = id := by
  unfold getPacked at h
  split at h
  · rename_i fb hfb; cases h; exact getFrozen_sound s id _ hfb
  · split at h
    · exact hid id b h
    · cases h

end CkbVerif.Freeze
