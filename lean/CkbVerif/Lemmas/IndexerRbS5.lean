import CkbVerif.Lemmas.IndexerRbS4

/-! CellTypeScript rows and the combined `rollback ∘ append` theorem, same-block spends included (C18). -/
namespace CkbVerif.Indexer

variable {s : Store} {b : Block}

theorem rb_cellType2 (wf : WFRollback2 s b) (sc : Script) (bn txi io : Nat) :
    get (rollback (appendCore s b)) (.cellType sc bn txi io) = get s (.cellType sc bn txi io) := by
  rw [get_rollback_nonheader2 wf _ (by intro _ _ _ h; cases h)]
  by_cases hA : ∃ (tx : Tx) (out : Output), b.txs[txi]? = some tx ∧ tx.outputs[io]? = some out ∧
      out.type = some sc ∧ bn = b.number
  · obtain ⟨tx, out, htx, hout, hl, hb⟩ := hA
    subst hb
    rw [wf.freshType]
    have hmj : txMatched s b txi tx = true := matched_of_output txi tx io out hout
    obtain ⟨pos, e, hpos, h1, h2, h3⟩ := hdrList_complete s b txi tx htx hmj
    rw [Rtx_split s b (pos + 1)]
    apply get_commit_suffix_del
    · intro o ho hk
      obtain ⟨pos', e', i', tx', hlt, hpos', hidx, htx', hm', ho⟩ := (mem_RtxLo wf (pos + 1) o).mp ho
      have hle : i' ≤ txi := lo_index_le wf txi tx pos e hpos h3 pos' e' i' hlt hpos' hidx
      rcases ho with ⟨oi, out', hout', ho⟩ | ⟨hi', ii', op', c', hop', hc', ho⟩ | rfl
      · rw [mem_uncreateOps] at ho
        rcases ho with rfl | rfl | ⟨t, _, rfl | rfl⟩ | rfl <;> simp [BOp.key] at hk
        simp [hk]
      · rw [mem_unconsumeOps] at ho
        rcases ho with rfl | rfl | ⟨t, _, rfl | rfl⟩ | rfl <;> simp [BOp.key] at hk
        exfalso
        obtain ⟨hl', hb', hti', hio'⟩ := hk
        obtain ⟨j, txj, outj, htxj, hidj, houtj, hcj⟩ := res_bn wf.toWFAppend2 op' c' hc' hb'
        have hlt' := wf.order i' tx' htx' op' (List.mem_of_getElem? hop') j txj htxj hidj
        rw [hcj] at hti'
        simp only at hti'
        omega
      · simp [BOp.key] at hk
    · refine ⟨.del (.cellType sc b.number txi io), ?_, rfl⟩
      apply (mem_RtxLo wf (pos + 1) _).mpr
      refine ⟨pos, e, txi, tx, by omega, hpos, h3, htx, hmj, Or.inl ⟨io, out, hout, ?_⟩⟩
      rw [mem_uncreateOps]
      right; right; left
      exact ⟨sc, hl, Or.inl rfl⟩
  · by_cases hB : ∃ (op : OutPoint) (c : Cell), Spent2 s b op c ∧ c.out.type = some sc ∧ c.bn = bn ∧
        c.txIdx = txi ∧ op.idx = io
    · obtain ⟨op, c, hs, hl, hb, hti, hio⟩ := hB
      subst hb; subst hti; subst hio
      obtain ⟨i, tx, ii, htx, hi, hop, hc⟩ := hs
      have hg : get s (.outPoint op) = some (.cell c) := by
        rcases hc with hc | hc
        · exact hc
        · exfalso
          obtain ⟨j, txj, outj, htxj, hidj, houtj, hcj⟩ := hc
          apply hA
          subst hcj
          exact ⟨txj, outj, htxj, houtj, hl, rfl⟩
      have hrow : get s (.cellType sc c.bn c.txIdx op.idx) = some (.tx op.tx) :=
        (wf.typeInv sc c.bn c.txIdx op.idx op.tx).mpr ⟨c, by cases op; exact hg, hl, rfl, rfl⟩
      rw [hrow]
      apply get_commit_all_put
      · intro o ho hk
        obtain ⟨i', tx', htx', hm', ho⟩ := (mem_Rtx2 wf o).mp ho
        rcases ho with ⟨oi, out', hout', ho⟩ | ⟨hi', ii', op', c', hop', hc', ho⟩ | rfl
        · rw [mem_uncreateOps] at ho
          rcases ho with rfl | rfl | ⟨t, _, rfl | rfl⟩ | rfl <;> simp [BOp.key] at hk
          exact absurd hk.2.1.symm (wf.oldBn op c hg)
        · rw [mem_unconsumeOps] at ho
          rcases ho with rfl | rfl | ⟨t, ht, rfl | rfl⟩ | rfl <;> simp [BOp.key] at hk
          obtain ⟨h1, h2, h3, h4⟩ := hk
          have hg' : get s (.outPoint op') = some (.cell c') := by
            rcases hc' with hc' | hc'
            · exact hc'
            · exfalso
              obtain ⟨_, _, _, _, _, _, hcj⟩ := hc'
              have : c'.bn = b.number := by rw [hcj]
              exact wf.oldBn op c hg (by rw [← h2, this])
          have hrow' : get s (.cellType t c'.bn c'.txIdx op'.idx) = some (.tx op'.tx) :=
            (wf.typeInv t c'.bn c'.txIdx op'.idx op'.tx).mpr ⟨c', by cases op'; exact hg', ht, rfl, rfl⟩
          rw [h1, h2, h3, h4, hrow] at hrow'
          have : op.tx = op'.tx := by simpa using hrow'
          simp [h1, h2, h3, h4, this]
        · simp [BOp.key] at hk
      · refine ⟨.put (.cellType sc c.bn c.txIdx op.idx) (.tx op.tx), ?_, rfl⟩
        apply unconsume_mem_Rtx2 wf i tx ii op c htx hi hop hc
        rw [mem_unconsumeOps]
        right; right; left
        exact ⟨sc, hl, Or.inl rfl⟩
    · rw [← cellType_other2 wf.toWFAppend2 sc bn txi io hA hB]
      apply get_commit_untouched
      intro o ho hk
      obtain ⟨i', tx', htx', hm', ho⟩ := (mem_Rtx2 wf o).mp ho
      rcases ho with ⟨oi, out', hout', ho⟩ | ⟨hi', ii', op', c', hop', hc', ho⟩ | rfl
      · rw [mem_uncreateOps] at ho
        rcases ho with rfl | rfl | ⟨t, ht, rfl | rfl⟩ | rfl <;> simp [BOp.key] at hk
        obtain ⟨hl, hb, hi, hoi⟩ := hk
        subst hi; subst hoi
        exact hA ⟨tx', out', htx', hout', by rw [ht, hl], hb.symm⟩
      · rw [mem_unconsumeOps] at ho
        rcases ho with rfl | rfl | ⟨t, ht, rfl | rfl⟩ | rfl <;> simp [BOp.key] at hk
        exact hB ⟨op', c', ⟨i', tx', ii', htx', hi', hop', hc'⟩, by rw [ht, hk.1], hk.2.1, hk.2.2.1, hk.2.2.2⟩
      · simp [BOp.key] at hk

/-- **rollback ∘ append restores every row except ConsumedOutPoint residue — same-block spends included** -/
theorem rollback_append_get2 (wf : WFRollback2 s b) (k : Key) (hk : ∀ bn op, k ≠ .consumed bn op) :
    get (rollback (appendCore s b)) k = get s k := by
  cases k with
  | outPoint op => exact rb_outPoint2 wf op
  | consumed bn op => exact absurd rfl (hk bn op)
  | cellLock sc bn tx io => exact rb_cellLock2 wf sc bn tx io
  | cellType sc bn tx io => exact rb_cellType2 wf sc bn tx io
  | txLock sc bn tx io t => exact rb_txLock2 wf sc bn tx io t
  | txType sc bn tx io t => exact rb_txType2 wf sc bn tx io t
  | txHash id => exact rb_txHash2 wf id
  | header bn h f => exact rb_header2 wf bn h f

theorem rollback_append_tip2 (wf : WFRollback2 s b) (hnd : NodupKeys s) :
    tip (rollback (appendCore s b)) = tip s := by
  apply tip_congr
  intro r
  have hndF : NodupKeys (rollback (appendCore s b)) := nodup_commit _ _ (nodup_commit _ _ hnd)
  rw [mem_headerRows_iff, mem_headerRows_iff, mem_iff_get _ hndF, mem_iff_get _ hnd,
    rollback_append_get2 wf _ (by intro _ _ h; cases h)]

theorem wfRollback2_of (s : Store) (b : Block) (h1 : wfAppend2B s b = true) (h2 : freshB s b = true)
    (li : LockInv s) (ti : TypeInv s) : WFRollback2 s b := by
  have hall := List.all_eq_true.mp h2
  have wfa := wfAppend2_of_B s b h1
  have fresh : ∀ k : Key, (match k with
      | .cellLock _ bn _ _ | .cellType _ bn _ _ | .txLock _ bn _ _ _ | .txType _ bn _ _ _
      | .consumed bn _ => bn = b.number
      | _ => False) → get s k = none := by
    intro k hk
    apply get_none_of
    intro e he heq
    have := hall e he
    rw [heq] at this
    cases k <;> simp_all
  have hTx : ∀ tx ∈ b.txs, get s (.txHash tx.id) = none := by
    intro tx htx
    apply get_none_of
    intro e he heq
    have := hall e he
    rw [heq] at this
    simp only [List.all_eq_true, decide_eq_true_eq, ne_eq] at this
    exact this tx htx rfl
  have hHdr : HdrBelow s b.number := by
    intro e he bn h f hk
    have := hall e he
    rw [hk] at this
    simpa using this
  exact
    { toWFAppend2 := wfa
      freshLock := fun sc txi io => fresh (.cellLock sc b.number txi io) rfl
      freshTxLock := fun sc txi io t => fresh (.txLock sc b.number txi io t) rfl
      freshConsumed := fun _ _ op _ _ _ _ => fresh (.consumed b.number op) rfl
      freshTx := hTx
      hdrBelow := hHdr
      lockInv := li
      freshType := fun sc txi io => fresh (.cellType sc b.number txi io) rfl
      freshTxType := fun sc txi io t => fresh (.txType sc b.number txi io t) rfl
      typeInv := ti }

end CkbVerif.Indexer
