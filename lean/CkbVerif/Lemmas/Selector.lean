import CkbVerif.Model.Selector

/-! Helper lemmas for `Props/C13.lean` (selector invariants). Core Lean only. -/
namespace CkbVerif.Selector

/-! ### sums, filters, insertion sort -/

theorem sum_map_insertBy {α} (lt : α → α → Bool) (f : α → Nat) (x : α) (l : List α) :
    ((insertBy lt x l).map f).sum = f x + (l.map f).sum := by
  induction l with
  | nil => simp [insertBy]
  | cons y ys ih =>
    unfold insertBy
    split
    · simp
    · simp [ih]; omega

theorem sum_map_sortBy {α} (lt : α → α → Bool) (f : α → Nat) (l : List α) :
    ((sortBy lt l).map f).sum = (l.map f).sum := by
  induction l with
  | nil => simp [sortBy]
  | cons y ys ih =>
    have : sortBy lt (y :: ys) = insertBy lt y (sortBy lt ys) := rfl
    rw [this, sum_map_insertBy]
    simp; exact ih

theorem mem_insertBy {α} (lt : α → α → Bool) (x y : α) (l : List α) :
    y ∈ insertBy lt x l ↔ y = x ∨ y ∈ l := by
  induction l with
  | nil => simp [insertBy]
  | cons z zs ih =>
    unfold insertBy
    split
    · simp
    · simp [ih]; constructor
      · rintro (h | h | h) <;> simp [h]
      · rintro (h | h | h) <;> simp [h]

theorem mem_sortBy {α} (lt : α → α → Bool) (y : α) (l : List α) :
    y ∈ sortBy lt l ↔ y ∈ l := by
  induction l with
  | nil => simp [sortBy]
  | cons z zs ih =>
    have : sortBy lt (z :: zs) = insertBy lt z (sortBy lt zs) := rfl
    rw [this, mem_insertBy, ih]; simp

theorem sum_map_filter_le {α} (p : α → Bool) (f : α → Nat) (l : List α) :
    ((l.filter p).map f).sum ≤ (l.map f).sum := by
  induction l with
  | nil => simp
  | cons y ys ih =>
    simp only [List.filter_cons]
    split <;> simp <;> omega

/-- ids of an insertion-sorted list are a permutation: Nodup is preserved -/
theorem nodup_map_insertBy {α} (lt : α → α → Bool) (g : α → Nat) (x : α) (l : List α)
    (hx : g x ∉ l.map g) (hl : (l.map g).Nodup) : ((insertBy lt x l).map g).Nodup := by
  induction l with
  | nil => simp [insertBy]
  | cons y ys ih =>
    unfold insertBy
    split
    · simp only [List.map_cons, List.nodup_cons]
      simp only [List.map_cons, List.nodup_cons] at hl
      exact ⟨by simpa using hx, hl⟩
    · simp only [List.map_cons, List.nodup_cons] at hl ⊢
      simp only [List.map_cons, List.mem_cons, not_or] at hx
      refine ⟨?_, ih hx.2 hl.2⟩
      intro hmem
      rw [List.mem_map] at hmem
      obtain ⟨z, hz, hgz⟩ := hmem
      rw [mem_insertBy] at hz
      rcases hz with rfl | hz
      · exact hx.1 hgz
      · exact hl.1 (hgz ▸ List.mem_map_of_mem hz)

theorem nodup_map_sortBy {α} (lt : α → α → Bool) (g : α → Nat) (l : List α)
    (hl : (l.map g).Nodup) : ((sortBy lt l).map g).Nodup := by
  induction l with
  | nil => simp [sortBy]
  | cons y ys ih =>
    have : sortBy lt (y :: ys) = insertBy lt y (sortBy lt ys) := rfl
    rw [this]
    simp only [List.map_cons, List.nodup_cons] at hl
    apply nodup_map_insertBy
    · intro hmem
      rw [List.mem_map] at hmem
      obtain ⟨z, hz, hgz⟩ := hmem
      rw [mem_sortBy] at hz
      exact hl.1 (hgz ▸ List.mem_map_of_mem hz)
    · exact ih hl.2

/-! ### sums over the ancestors not yet fetched -/

/-- `Σ f a` over the `a ∈ l` that are not in `X` -/
def restSum (f : Nat → Nat) (X : List Nat) (l : List Nat) : Nat :=
  sumBy f (l.filter fun a => !X.contains a)

theorem restSum_le_sumBy (f : Nat → Nat) (X l : List Nat) : restSum f X l ≤ sumBy f l := by
  unfold restSum sumBy; exact sum_map_filter_le _ _ _

theorem restSum_mono (f : Nat → Nat) (X Y l : List Nat) (h : ∀ a ∈ l, a ∈ X → a ∈ Y) :
    restSum f Y l ≤ restSum f X l := by
  induction l with
  | nil => simp [restSum, sumBy]
  | cons a as ih =>
    have ih' := ih (fun b hb => h b (List.mem_cons_of_mem _ hb))
    unfold restSum sumBy at *
    by_cases hY : a ∈ Y
    · by_cases hX : a ∈ X
      · simpa [List.filter_cons, hY, hX] using ih'
      · simp [List.filter_cons, hY, hX]
        simp at ih'
        omega
    · have hX : a ∉ X := fun hX => hY (h a List.mem_cons_self hX)
      simp [List.filter_cons, hY, hX]
      simp at ih'
      omega

/-- taking one unfetched member `p` of a duplicate-free list into the fetched set lowers the rest sum by `f p` -/
theorem restSum_cons_mem (f : Nat → Nat) (X l : List Nat) (p : Nat)
    (hl : l.Nodup) (hp : p ∈ l) (hX : p ∉ X) :
    restSum f X l = f p + restSum f (p :: X) l := by
  induction l with
  | nil => simp at hp
  | cons a as ih =>
    simp only [List.nodup_cons] at hl
    unfold restSum sumBy at *
    by_cases hap : a = p
    · subst hap
      have hrest : (as.filter fun b => !(a :: X).contains b) = as.filter fun b => !X.contains b := by
        apply List.filter_congr
        intro b hb
        have : b ≠ a := fun h => hl.1 (h ▸ hb)
        simp [List.contains_cons, this]
      simp only [List.filter_cons, hrest]
      simp [hX]
    · have hp' : p ∈ as := by
        rcases List.mem_cons.mp hp with h | h
        · exact absurd h.symm hap
        · exact h
      have ih' := ih hl.2 hp'
      by_cases hXa : a ∈ X
      · simp [List.filter_cons, hap, hXa]
        simp at ih'
        exact ih'
      · simp [List.filter_cons, hap, hXa]
        simp at ih'
        omega


/-! ### view lookups -/

theorem get_id {v : View} {id : Nat} {pe : PEntry} (h : v.get id = some pe) : pe.e.id = id := by
  have := List.find?_some h
  simpa using this

theorem get_mem {v : View} {id : Nat} {pe : PEntry} (h : v.get id = some pe) : pe ∈ v.ents :=
  List.mem_of_find?_eq_some h

theorem getProposed_some {v : View} {id : Nat} {e : Entry} (h : v.getProposed id = some e) :
    ∃ pe, v.get id = some pe ∧ pe.proposed = true ∧ pe.e = e := by
  unfold View.getProposed at h
  split at h
  · rename_i p hp
    split at h
    · rename_i hprop
      exact ⟨p, hp, hprop, by simpa using h⟩
    · simp at h
  · simp at h

theorem hasProposed_iff {v : View} {id : Nat} :
    v.hasProposed id = true ↔ ∃ pe, v.get id = some pe ∧ pe.proposed = true := by
  unfold View.hasProposed
  constructor
  · intro h
    rw [Option.isSome_iff_exists] at h
    obtain ⟨e, he⟩ := h
    obtain ⟨pe, h1, h2, _⟩ := getProposed_some he
    exact ⟨pe, h1, h2⟩
  · rintro ⟨pe, h1, h2⟩
    simp [View.getProposed, h1, h2]

theorem hasProposed_mem_ids {v : View} {id : Nat} (h : v.hasProposed id = true) : id ∈ v.ids := by
  obtain ⟨pe, h1, _⟩ := hasProposed_iff.mp h
  have := get_id h1
  unfold View.ids
  exact List.mem_map.mpr ⟨pe, get_mem h1, this⟩

theorem find_of_mem (l : List PEntry) (pe : PEntry) (hnd : (l.map (·.e.id)).Nodup) (hpe : pe ∈ l) :
    l.find? (·.e.id == pe.e.id) = some pe := by
  induction l with
  | nil => simp at hpe
  | cons q qs ih =>
    simp only [List.map_cons, List.nodup_cons] at hnd
    rcases List.mem_cons.mp hpe with rfl | h
    · simp
    · have hne : q.e.id ≠ pe.e.id := by
        intro heq
        exact hnd.1 (heq ▸ List.mem_map_of_mem h)
      simp [List.find?_cons, hne, ih hnd.2 h]

theorem get_of_mem {v : View} (hnd : v.ids.Nodup) {pe : PEntry} (hpe : pe ∈ v.ents) :
    v.get pe.e.id = some pe := find_of_mem v.ents pe hnd hpe

/-! ### goodness of entry copies -/

/-- a faithful copy (id, own size, own cycles) of a proposed pool entry -/
def Good (v : View) (e : Entry) : Prop :=
  v.hasProposed e.id = true ∧ e.size = v.sizeOf e.id ∧ e.cycles = v.cyclesOf e.id

/-- the maintained aggregates of `e` cover the part of its package that is not in `X` -/
def Covers (v : View) (X : List Nat) (e : Entry) : Prop :=
  e.size + restSum v.sizeOf X (v.anc e.id) ≤ e.ancSize ∧
  e.cycles + restSum v.cyclesOf X (v.anc e.id) ≤ e.ancCycles

theorem Covers.mono {v : View} {X Y : List Nat} {e : Entry} (h : Covers v X e)
    (hXY : ∀ a, a ∈ X → a ∈ Y) : Covers v Y e := by
  obtain ⟨h1, h2⟩ := h
  have a1 := restSum_mono v.sizeOf X Y (v.anc e.id) (fun a _ => hXY a)
  have a2 := restSum_mono v.cyclesOf X Y (v.anc e.id) (fun a _ => hXY a)
  exact ⟨by omega, by omega⟩

theorem restSum_nil (f : Nat → Nat) (l : List Nat) : restSum f [] l = sumBy f l := by
  unfold restSum
  have : (l.filter fun a => !([] : List Nat).contains a) = l := by
    apply List.filter_eq_self.mpr; intro a _; simp
  rw [this]

theorem good_of_pool {v : View} (hnd : v.ids.Nodup) {pe : PEntry} (hpe : pe ∈ v.ents)
    (hp : pe.proposed = true) : Good v pe.e := by
  have hg := get_of_mem hnd hpe
  refine ⟨hasProposed_iff.mpr ⟨pe, hg, hp⟩, ?_, ?_⟩
  · simp [View.sizeOf, hg]
  · simp [View.cyclesOf, hg]

theorem covers_of_pool {v : View} (hagg : AggGe v) {pe : PEntry} (hpe : pe ∈ v.ents) :
    Covers v [] pe.e := by
  have := hagg pe hpe
  simpa [Covers, restSum_nil] using this

theorem good_of_get {v : View} {d : Nat} {pe : PEntry} (hg : v.get d = some pe)
    (hp : v.hasProposed d = true) : Good v pe.e := by
  have hid := get_id hg
  refine ⟨by rw [hid]; exact hp, ?_, ?_⟩
  · rw [hid]; simp [View.sizeOf, hg]
  · rw [hid]; simp [View.cyclesOf, hg]

theorem Good.subAnc {v : View} {e p : Entry} (h : Good v e) : Good v (e.subAnc p) := h

/-! ### `modified_entries` -/

theorem Mod.best_mem {tie : Nat → Nat} {m : Mod} {b : Entry} (h : Mod.best tie m = some b) : b ∈ m := by
  induction m generalizing b with
  | nil => simp [Mod.best] at h
  | cons e m ih =>
    unfold Mod.best at h
    split at h
    · simp at h; subst h; exact List.mem_cons_self
    · rename_i b' hb'
      split at h
      · simp at h; subst h; exact List.mem_cons_self
      · simp at h; subst h; exact List.mem_cons_of_mem _ (ih hb')

theorem Mod.get_some {m : Mod} {id : Nat} {e : Entry} (h : Mod.get m id = some e) : e ∈ m ∧ e.id = id := by
  unfold Mod.get at h
  exact ⟨List.mem_of_find?_eq_some h, by simpa using List.find?_some h⟩

theorem Mod.get_none {m : Mod} {id : Nat} (h : Mod.get m id = none) : ∀ e ∈ m, e.id ≠ id := by
  unfold Mod.get at h
  intro e he
  have := List.find?_eq_none.mp h e he
  simpa using this

theorem Mod.mem_remove {m : Mod} {id : Nat} {e : Entry} : e ∈ Mod.remove m id ↔ e ∈ m ∧ e.id ≠ id := by
  unfold Mod.remove; simp

theorem mem_foldl_remove {pkg : List Entry} {m : Mod} {e : Entry}
    (h : e ∈ pkg.foldl (fun m x => Mod.remove m x.id) m) : e ∈ m ∧ e.id ∉ pkg.map (·.id) := by
  induction pkg generalizing m with
  | nil => simpa using h
  | cons x xs ih =>
    simp only [List.foldl_cons] at h
    obtain ⟨h1, h2⟩ := ih h
    obtain ⟨h3, h4⟩ := Mod.mem_remove.mp h1
    refine ⟨h3, ?_⟩
    simp only [List.map_cons, List.mem_cons, not_or]
    exact ⟨h4, h2⟩

/-! ### `retrieve_entry` -/

theorem retrieve_some {v : View} {m : Mod} {id : Nat} {e : Entry} (h : retrieve v m id = some e) :
    e.id = id ∧ ((e ∈ m) ∨ (∃ pe, v.get id = some pe ∧ pe.proposed = true ∧ pe.e = e)) := by
  unfold retrieve at h
  split at h
  · rename_i e' he'
    simp at h; subst h
    obtain ⟨h1, h2⟩ := Mod.get_some he'
    exact ⟨h2, Or.inl h1⟩
  · obtain ⟨pe, h1, h2, h3⟩ := getProposed_some h
    exact ⟨h3 ▸ get_id h1, Or.inr ⟨pe, h1, h2, h3⟩⟩

theorem retrieve_isSome {v : View} {m : Mod} {id : Nat} (h : v.hasProposed id = true) :
    ∃ e, retrieve v m id = some e := by
  unfold retrieve
  split
  · exact ⟨_, rfl⟩
  · unfold View.hasProposed at h
    exact Option.isSome_iff_exists.mp h


/-! ### the push loop in closed form -/

theorem foldl_push_eq (pkg : List Entry) (s : St)
    (hnew : ∀ x ∈ pkg, x.id ∉ s.fetched) (hnd : (pkg.map (·.id)).Nodup) :
    pkg.foldl push s =
      { s with fetched := (pkg.map (·.id)).reverse ++ s.fetched,
               size := s.size + (pkg.map (·.size)).sum,
               cycles := s.cycles + (pkg.map (·.cycles)).sum,
               out := s.out ++ pkg,
               mod := pkg.foldl (fun m x => Mod.remove m x.id) s.mod } := by
  induction pkg generalizing s with
  | nil => simp
  | cons x xs ih =>
    simp only [List.map_cons, List.nodup_cons] at hnd
    have hx : x.id ∉ s.fetched := hnew x List.mem_cons_self
    have hpush : push s x = ({ s with fetched := x.id :: s.fetched, cycles := s.cycles + x.cycles, size := s.size + x.size, out := s.out ++ [x], mod := Mod.remove s.mod x.id } : St) := by
      unfold push; simp [hx]
    simp only [List.foldl_cons, hpush]
    rw [ih]
    · simp [Nat.add_assoc]
    · intro y hy
      simp only [List.mem_cons, not_or]
      refine ⟨?_, hnew y (List.mem_cons_of_mem _ hy)⟩
      intro heq
      exact hnd.1 (heq ▸ List.mem_map_of_mem hy)
    · exact hnd.2

/-! ### the package -/

section pkg
variable {v : View} {s : St} {tx : Entry}

/-- the unfetched, retrievable ancestors -/
def ancEntries (v : View) (s : St) (tx : Entry) : List Entry :=
  (v.anc tx.id).filterMap fun id => if s.fetched.contains id then none else retrieve v s.mod id

theorem package_eq : package v s tx =
    ((sortBy (countBefore v.tie) (ancEntries v s tx)).filter (·.id != tx.id)) ++ [tx] := rfl

theorem ancEntries_mem {e : Entry} (h : e ∈ ancEntries v s tx) :
    e.id ∈ v.anc tx.id ∧ e.id ∉ s.fetched ∧ retrieve v s.mod e.id = some e := by
  unfold ancEntries at h
  rw [List.mem_filterMap] at h
  obtain ⟨a, ha, hg⟩ := h
  split at hg
  · simp at hg
  · rename_i hc
    have hid := (retrieve_some hg).1
    subst hid
    exact ⟨ha, by simpa using hc, hg⟩

theorem filterMap_ids_nodup (g : Nat → Option Entry) (hg : ∀ a e, g a = some e → e.id = a) (l : List Nat)
    (hl : l.Nodup) : ((l.filterMap g).map (·.id)).Nodup ∧ ∀ y ∈ (l.filterMap g).map (·.id), y ∈ l := by
  induction l with
  | nil => simp
  | cons a as ih =>
    simp only [List.nodup_cons] at hl
    obtain ⟨ih1, ih2⟩ := ih hl.2
    cases hga : g a with
    | none =>
      simp only [List.filterMap_cons, hga]
      exact ⟨ih1, fun y hy => List.mem_cons_of_mem _ (ih2 y hy)⟩
    | some e =>
      have hid := hg a e hga
      simp only [List.filterMap_cons, hga, List.map_cons, List.nodup_cons]
      refine ⟨⟨?_, ih1⟩, ?_⟩
      · intro hmem
        exact hl.1 (hid ▸ ih2 _ hmem)
      · intro y hy
        rcases List.mem_cons.mp hy with rfl | hy
        · rw [hid]; exact List.mem_cons_self
        · exact List.mem_cons_of_mem _ (ih2 y hy)

theorem ancEntries_nodup (hl : (v.anc tx.id).Nodup) : ((ancEntries v s tx).map (·.id)).Nodup := by
  unfold ancEntries
  apply (filterMap_ids_nodup _ _ _ hl).1
  intro a e h
  split at h
  · simp at h
  · exact (retrieve_some h).1

theorem package_nodup (hl : (v.anc tx.id).Nodup) : ((package v s tx).map (·.id)).Nodup := by
  rw [package_eq, List.map_append, List.nodup_append]
  refine ⟨?_, by simp, ?_⟩
  · have h1 := nodup_map_sortBy (countBefore v.tie) (·.id) (ancEntries v s tx) (ancEntries_nodup hl)
    exact List.Nodup.sublist (List.Sublist.map _ List.filter_sublist) h1
  · intro a ha b hb
    simp only [List.map_cons, List.map_nil, List.mem_singleton] at hb
    subst hb
    rw [List.mem_map] at ha
    obtain ⟨e, he, rfl⟩ := ha
    have := (List.mem_filter.mp he).2
    simpa using this

theorem package_mem {x : Entry} (h : x ∈ package v s tx) : x = tx ∨ x ∈ ancEntries v s tx := by
  rw [package_eq, List.mem_append] at h
  rcases h with h | h
  · right
    exact (mem_sortBy _ _ _).mp (List.mem_filter.mp h).1
  · left; simpa using h

theorem package_covers_anc (hall : ∀ a ∈ v.anc tx.id, v.hasProposed a = true) :
    ∀ a ∈ v.anc tx.id, a ∈ s.fetched ∨ a ∈ (package v s tx).map (·.id) := by
  intro a ha
  by_cases hf : a ∈ s.fetched
  · exact Or.inl hf
  · right
    obtain ⟨e, he⟩ := retrieve_isSome (m := s.mod) (hall a ha)
    have hid := (retrieve_some he).1
    have hmem : e ∈ ancEntries v s tx := by
      unfold ancEntries
      rw [List.mem_filterMap]
      refine ⟨a, ha, ?_⟩
      simp [hf, he]
    rw [package_eq, List.map_append, List.mem_append]
    by_cases htx : a = tx.id
    · right; simp [htx]
    · left
      rw [List.mem_map]
      refine ⟨e, List.mem_filter.mpr ⟨(mem_sortBy _ _ _).mpr hmem, ?_⟩, hid⟩
      simp [hid, htx]

theorem sum_filterMap_le (f : Nat → Nat) (fe : Entry → Nat) (X : List Nat) (g : Nat → Option Entry)
    (hg : ∀ a e, g a = some e → fe e = f a) (l : List Nat) :
    ((l.filterMap fun a => if X.contains a then none else g a).map fe).sum ≤ restSum f X l := by
  induction l with
  | nil => simp [restSum, sumBy]
  | cons a as ih =>
    unfold restSum sumBy at *
    by_cases hX : a ∈ X
    · simp [List.filterMap_cons, hX]
      simpa using ih
    · cases hga : g a with
      | none =>
        simp [List.filterMap_cons, hX, hga]
        simp at ih; omega
      | some e =>
        have := hg a e hga
        simp [List.filterMap_cons, hX, hga]
        simp at ih; omega

end pkg

end CkbVerif.Selector
