import CkbVerif.Model.Selector

/-! Helper lemmas for `Props/C13.lean` (selector invariants). Core Lean only. -/
namespace CkbVerif.Selector

/-! ### sums, filters, insertion sort -/

theorem sum_map_insertBy {α} (lt : α → α → Bool) (f : α → Nat) (x : α) (l : List α) :
    ((insertBy lt x l).map f).sum = f x + (l.map f).sum := by
  induction l with
  | nil => simp [insertBy]
  | cons y ys ih =>
    unfold insertBy
    split
    · simp
    · simp [ih]; omega

theorem sum_map_sortBy {α} (lt : α → α → Bool) (f : α → Nat) (l : List α) :
    ((sortBy lt l).map f).sum = (l.map f).sum := by
  induction l with
  | nil => simp [sortBy]
  | cons y ys ih =>
    have : sortBy lt (y :: ys) = insertBy lt y (sortBy lt ys) := rfl
    rw [this, sum_map_insertBy]
    simp; exact ih

theorem mem_insertBy {α} (lt : α → α → Bool) (x y : α) (l : List α) :
    y ∈ insertBy lt x l ↔ y = x ∨ y ∈ l := by
  induction l with
  | nil => simp [insertBy]
  | cons z zs ih =>
    unfold insertBy
    split
    · simp
    · simp [ih]; constructor
      · rintro (h | h | h) <;> simp [h]
      · rintro (h | h | h) <;> simp [h]

theorem mem_sortBy {α} (lt : α → α → Bool) (y : α) (l : List α) :
    y ∈ sortBy lt l ↔ y ∈ l := by
  induction l with
  | nil => simp [sortBy]
  | cons z zs ih =>
    have : sortBy lt (z :: zs) = insertBy lt z (sortBy lt zs) := rfl
    rw [this, mem_insertBy, ih]; simp

theorem sum_map_filter_le {α} (p : α → Bool) (f : α → Nat) (l : List α) :
    ((l.filter p).map f).sum ≤ (l.map f).sum := by
  induction l with
  | nil => simp
  | cons y ys ih =>
    simp only [List.filter_cons]
    split <;> simp <;> omega

/-- ids of an insertion-sorted list are a permutation: Nodup is preserved -/
theorem nodup_map_insertBy {α} (lt : α → α → Bool) (g : α → Nat) (x : α) (l : List α)
    (hx : g x ∉ l.map g) (hl : (l.map g).Nodup) : ((insertBy lt x l).map g).Nodup := by
  induction l with
  | nil => simp [insertBy]
  | cons y ys ih =>
    unfold insertBy
    split
    · simp only [List.map_cons, List.nodup_cons]
      simp only [List.map_cons, List.nodup_cons] at hl
      exact ⟨by simpa using hx, hl⟩
    · simp only [List.map_cons, List.nodup_cons] at hl ⊢
      simp only [List.map_cons, List.mem_cons, not_or] at hx
      refine ⟨?_, ih hx.2 hl.2⟩
      intro hmem
      rw [List.mem_map] at hmem
      obtain ⟨z, hz, hgz⟩ := hmem
      rw [mem_insertBy] at hz
      rcases hz with rfl | hz
      · exact hx.1 hgz
      · exact hl.1 (hgz ▸ List.mem_map_of_mem hz)

theorem nodup_map_sortBy {α} (lt : α → α → Bool) (g : α → Nat) (l : List α)
    (hl : (l.map g).Nodup) : ((sortBy lt l).map g).Nodup := by
  induction l with
  | nil => simp [sortBy]
  | cons y ys ih =>
    have : sortBy lt (y :: ys) = insertBy lt y (sortBy lt ys) := rfl
    rw [this]
    simp only [List.map_cons, List.nodup_cons] at hl
    apply nodup_map_insertBy
    · intro hmem
      rw [List.mem_map] at hmem
      obtain ⟨z, hz, hgz⟩ := hmem
      rw [mem_sortBy] at hz
      exact hl.1 (hgz ▸ List.mem_map_of_mem hz)
    · exact ih hl.2

/-! ### sums over the ancestors not yet fetched -/

/-- `Σ f a` over the `a ∈ l` that are not in `X` -/
def restSum (f : Nat → Nat) (X : List Nat) (l : List Nat) : Nat :=
  sumBy f (l.filter fun a => !X.contains a)

theorem restSum_le_sumBy (f : Nat → Nat) (X l : List Nat) : restSum f X l ≤ sumBy f l := by
  unfold restSum sumBy; exact sum_map_filter_le _ _ _

theorem restSum_mono (f : Nat → Nat) (X Y l : List Nat) (h : ∀ a ∈ l, a ∈ X → a ∈ Y) :
    restSum f Y l ≤ restSum f X l := by
  induction l with
  | nil => simp [restSum, sumBy]
  | cons a as ih =>
    have ih' := ih (fun b hb => h b (List.mem_cons_of_mem _ hb))
    unfold restSum sumBy at *
    by_cases hY : a ∈ Y
    · by_cases hX : a ∈ X
      · simpa [List.filter_cons, hY, hX] using ih'
      · simp [List.filter_cons, hY, hX]
        simp at ih'
        omega
    · have hX : a ∉ X := fun hX => hY (h a List.mem_cons_self hX)
      simp [List.filter_cons, hY, hX]
      simp at ih'
      omega

/-- taking one unfetched member `p` of a duplicate-free list into the fetched set lowers the rest sum by `f p` -/
theorem restSum_cons_mem (f : Nat → Nat) (X l : List Nat) (p : Nat)
    (hl : l.Nodup) (hp : p ∈ l) (hX : p ∉ X) :
    restSum f X l = f p + restSum f (p :: X) l := by
  induction l with
  | nil => simp at hp
  | cons a as ih =>
    simp only [List.nodup_cons] at hl
    unfold restSum sumBy at *
    by_cases hap : a = p
    · subst hap
      have hrest : (as.filter fun b => !(a :: X).contains b) = as.filter fun b => !X.contains b := by
        apply List.filter_congr
        intro b hb
        have : b ≠ a := fun h => hl.1 (h ▸ hb)
        simp [List.contains_cons, this]
      simp only [List.filter_cons, hrest]
      simp [hX]
    · have hp' : p ∈ as := by
        rcases List.mem_cons.mp hp with h | h
        · exact absurd h.symm hap
        · exact h
      have ih' := ih hl.2 hp'
      by_cases hXa : a ∈ X
      · simp [List.filter_cons, hap, hXa]
        simp at ih'
        exact ih'
      · simp [List.filter_cons, hap, hXa]
        simp at ih'
        omega


/-! ### view lookups -/

theorem get_id {v : View} {id : Nat} {pe : PEntry} (h : v.get id = some pe) : pe.e.id = id := by
  have := List.find?_some h
  simpa using this

theorem get_mem {v : View} {id : Nat} {pe : PEntry} (h : v.get id = some pe) : pe ∈ v.ents :=
  List.mem_of_find?_eq_some h

theorem getProposed_some {v : View} {id : Nat} {e : Entry} (h : v.getProposed id = some e) :
    ∃ pe, v.get id = some pe ∧ pe.proposed = true ∧ pe.e = e := by
  unfold View.getProposed at h
  split at h
  · rename_i p hp
    split at h
    · rename_i hprop
      exact ⟨p, hp, hprop, by simpa using h⟩
    · simp at h
  · simp at h

theorem hasProposed_iff {v : View} {id : Nat} :
    v.hasProposed id = true ↔ ∃ pe, v.get id = some pe ∧ pe.proposed = true := by
  unfold View.hasProposed
  constructor
  · intro h
    rw [Option.isSome_iff_exists] at h
    obtain ⟨e, he⟩ := h
    obtain ⟨pe, h1, h2, _⟩ := getProposed_some he
    exact ⟨pe, h1, h2⟩
  · rintro ⟨pe, h1, h2⟩
    simp [View.getProposed, h1, h2]

theorem hasProposed_mem_ids {v : View} {id : Nat} (h : v.hasProposed id = true) : id ∈ v.ids := by
  obtain ⟨pe, h1, _⟩ := hasProposed_iff.mp h
  have := get_id h1
  unfold View.ids
  exact List.mem_map.mpr ⟨pe, get_mem h1, this⟩

theorem find_of_mem (l : List PEntry) (pe : PEntry) (hnd : (l.map (·.e.id)).Nodup) (hpe : pe ∈ l) :
    l.find? (·.e.id == pe.e.id) = some pe := by
  induction l with
  | nil => simp at hpe
  | cons q qs ih =>
    simp only [List.map_cons, List.nodup_cons] at hnd
    rcases List.mem_cons.mp hpe with rfl | h
    · simp
    · have hne : q.e.id ≠ pe.e.id := by
        intro heq
        exact hnd.1 (heq ▸ List.mem_map_of_mem h)
      simp [List.find?_cons, hne, ih hnd.2 h]

theorem get_of_mem {v : View} (hnd : v.ids.Nodup) {pe : PEntry} (hpe : pe ∈ v.ents) :
    v.get pe.e.id = some pe := find_of_mem v.ents pe hnd hpe

/-! ### goodness of entry copies -/

/-- a faithful copy (id, own size, own cycles) of a proposed pool entry -/
def Good (v : View) (e : Entry) : Prop :=
  v.hasProposed e.id = true ∧ e.size = v.sizeOf e.id ∧ e.cycles = v.cyclesOf e.id

/-- the maintained aggregates of `e` cover the part of its package that is not in `X` -/
def Covers (v : View) (X : List Nat) (e : Entry) : Prop :=
  e.size + restSum v.sizeOf X (v.anc e.id) ≤ e.ancSize ∧
  e.cycles + restSum v.cyclesOf X (v.anc e.id) ≤ e.ancCycles

theorem Covers.mono {v : View} {X Y : List Nat} {e : Entry} (h : Covers v X e)
    (hXY : ∀ a, a ∈ X → a ∈ Y) : Covers v Y e := by
  obtain ⟨h1, h2⟩ := h
  have a1 := restSum_mono v.sizeOf X Y (v.anc e.id) (fun a _ => hXY a)
  have a2 := restSum_mono v.cyclesOf X Y (v.anc e.id) (fun a _ => hXY a)
  exact ⟨by omega, by omega⟩

theorem restSum_nil (f : Nat → Nat) (l : List Nat) : restSum f [] l = sumBy f l := by
  unfold restSum
  have : (l.filter fun a => !([] : List Nat).contains a) = l := by
    apply List.filter_eq_self.mpr; intro a _; simp
  rw [this]

theorem good_of_pool {v : View} (hnd : v.ids.Nodup) {pe : PEntry} (hpe : pe ∈ v.ents)
    (hp : pe.proposed = true) : Good v pe.e := by
  have hg := get_of_mem hnd hpe
  refine ⟨hasProposed_iff.mpr ⟨pe, hg, hp⟩, ?_, ?_⟩
  · simp [View.sizeOf, hg]
  · simp [View.cyclesOf, hg]

theorem covers_of_pool {v : View} (hagg : AggGe v) {pe : PEntry} (hpe : pe ∈ v.ents) :
    Covers v [] pe.e := by
  have := hagg pe hpe
  simpa [Covers, restSum_nil] using this

theorem good_of_get {v : View} {d : Nat} {pe : PEntry} (hg : v.get d = some pe)
    (hp : v.hasProposed d = true) : Good v pe.e := by
  have hid := get_id hg
  refine ⟨by rw [hid]; exact hp, ?_, ?_⟩
  · rw [hid]; simp [View.sizeOf, hg]
  · rw [hid]; simp [View.cyclesOf, hg]

theorem Good.subAnc {v : View} {e p : Entry} (h : Good v e) : Good v (e.subAnc p) := h

/-! ### `modified_entries` -/

theorem Mod.best_mem {tie : Nat → Nat} {m : Mod} {b : Entry} (h : Mod.best tie m = some b) : b ∈ m := by
  induction m generalizing b with
  | nil => simp [Mod.best] at h
  | cons e m ih =>
    unfold Mod.best at h
    split at h
    · simp at h; subst h; exact List.mem_cons_self
    · rename_i b' hb'
      split at h
      · simp at h; subst h; exact List.mem_cons_self
      · simp at h; subst h; exact List.mem_cons_of_mem _ (ih hb')

theorem Mod.get_some {m : Mod} {id : Nat} {e : Entry} (h : Mod.get m id = some e) : e ∈ m ∧ e.id = id := by
  unfold Mod.get at h
  exact ⟨List.mem_of_find?_eq_some h, by simpa using List.find?_some h⟩

theorem Mod.get_none {m : Mod} {id : Nat} (h : Mod.get m id = none) : ∀ e ∈ m, e.id ≠ id := by
  unfold Mod.get at h
  intro e he
  have := List.find?_eq_none.mp h e he
  simpa using this

theorem Mod.mem_remove {m : Mod} {id : Nat} {e : Entry} : e ∈ Mod.remove m id ↔ e ∈ m ∧ e.id ≠ id := by
  unfold Mod.remove; simp

theorem mem_foldl_remove {pkg : List Entry} {m : Mod} {e : Entry}
    (h : e ∈ pkg.foldl (fun m x => Mod.remove m x.id) m) : e ∈ m ∧ e.id ∉ pkg.map (·.id) := by
  induction pkg generalizing m with
  | nil => simpa using h
  | cons x xs ih =>
    simp only [List.foldl_cons] at h
    obtain ⟨h1, h2⟩ := ih h
    obtain ⟨h3, h4⟩ := Mod.mem_remove.mp h1
    refine ⟨h3, ?_⟩
    simp only [List.map_cons, List.mem_cons, not_or]
    exact ⟨h4, h2⟩

/-! ### `retrieve_entry` -/

theorem retrieve_some {v : View} {m : Mod} {id : Nat} {e : Entry} (h : retrieve v m id = some e) :
    e.id = id ∧ ((e ∈ m) ∨ (∃ pe, v.get id = some pe ∧ pe.proposed = true ∧ pe.e = e)) := by
  unfold retrieve at h
  split at h
  · rename_i e' he'
    simp at h; subst h
    obtain ⟨h1, h2⟩ := Mod.get_some he'
    exact ⟨h2, Or.inl h1⟩
  · obtain ⟨pe, h1, h2, h3⟩ := getProposed_some h
    exact ⟨h3 ▸ get_id h1, Or.inr ⟨pe, h1, h2, h3⟩⟩

theorem retrieve_isSome {v : View} {m : Mod} {id : Nat} (h : v.hasProposed id = true) :
    ∃ e, retrieve v m id = some e := by
  unfold retrieve
  split
  · exact ⟨_, rfl⟩
  · unfold View.hasProposed at h
    exact Option.isSome_iff_exists.mp h


/-! ### the push loop in closed form -/

theorem foldl_push_eq (pkg : List Entry) (s : St)
    (hnew : ∀ x ∈ pkg, x.id ∉ s.fetched) (hnd : (pkg.map (·.id)).Nodup) :
    pkg.foldl push s =
      { s with fetched := (pkg.map (·.id)).reverse ++ s.fetched,
               size := s.size + (pkg.map (·.size)).sum,
               cycles := s.cycles + (pkg.map (·.cycles)).sum,
               out := s.out ++ pkg,
               mod := pkg.foldl (fun m x => Mod.remove m x.id) s.mod } := by
  induction pkg generalizing s with
  | nil => simp
  | cons x xs ih =>
    simp only [List.map_cons, List.nodup_cons] at hnd
    have hx : x.id ∉ s.fetched := hnew x List.mem_cons_self
    have hpush : push s x = ({ s with fetched := x.id :: s.fetched, cycles := s.cycles + x.cycles, size := s.size + x.size, out := s.out ++ [x], mod := Mod.remove s.mod x.id } : St) := by
      unfold push; simp [hx]
    simp only [List.foldl_cons, hpush]
    rw [ih]
    · simp [Nat.add_assoc]
    · intro y hy
      simp only [List.mem_cons, not_or]
      refine ⟨?_, hnew y (List.mem_cons_of_mem _ hy)⟩
      intro heq
      exact hnd.1 (heq ▸ List.mem_map_of_mem hy)
    · exact hnd.2

/-! ### the package -/

section pkg
variable {v : View} {s : St} {tx : Entry}

/-- the unfetched, retrievable ancestors -/
def ancEntries (v : View) (s : St) (tx : Entry) : List Entry :=
  (v.anc tx.id).filterMap fun id => if s.fetched.contains id then none else retrieve v s.mod id

theorem package_eq : package v s tx =
    ((sortBy (countBefore v.tie) (ancEntries v s tx)).filter (·.id != tx.id)) ++ [tx] := rfl

theorem ancEntries_mem {e : Entry} (h : e ∈ ancEntries v s tx) :
    e.id ∈ v.anc tx.id ∧ e.id ∉ s.fetched ∧ retrieve v s.mod e.id = some e := by
  unfold ancEntries at h
  rw [List.mem_filterMap] at h
  obtain ⟨a, ha, hg⟩ := h
  split at hg
  · simp at hg
  · rename_i hc
    have hid := (retrieve_some hg).1
    subst hid
    exact ⟨ha, by simpa using hc, hg⟩

theorem filterMap_ids_nodup (g : Nat → Option Entry) (hg : ∀ a e, g a = some e → e.id = a) (l : List Nat)
    (hl : l.Nodup) : ((l.filterMap g).map (·.id)).Nodup ∧ ∀ y ∈ (l.filterMap g).map (·.id), y ∈ l := by
  induction l with
  | nil => simp
  | cons a as ih =>
    simp only [List.nodup_cons] at hl
    obtain ⟨ih1, ih2⟩ := ih hl.2
    cases hga : g a with
    | none =>
      simp only [List.filterMap_cons, hga]
      exact ⟨ih1, fun y hy => List.mem_cons_of_mem _ (ih2 y hy)⟩
    | some e =>
      have hid := hg a e hga
      simp only [List.filterMap_cons, hga, List.map_cons, List.nodup_cons]
      refine ⟨⟨?_, ih1⟩, ?_⟩
      · intro hmem
        exact hl.1 (hid ▸ ih2 _ hmem)
      · intro y hy
        rcases List.mem_cons.mp hy with rfl | hy
        · rw [hid]; exact List.mem_cons_self
        · exact List.mem_cons_of_mem _ (ih2 y hy)

theorem ancEntries_nodup (hl : (v.anc tx.id).Nodup) : ((ancEntries v s tx).map (·.id)).Nodup := by
  unfold ancEntries
  apply (filterMap_ids_nodup _ _ _ hl).1
  intro a e h
  split at h
  · simp at h
  · exact (retrieve_some h).1

theorem package_nodup (hl : (v.anc tx.id).Nodup) : ((package v s tx).map (·.id)).Nodup := by
  rw [package_eq, List.map_append, List.nodup_append]
  refine ⟨?_, by simp, ?_⟩
  · have h1 := nodup_map_sortBy (countBefore v.tie) (·.id) (ancEntries v s tx) (ancEntries_nodup hl)
    exact List.Nodup.sublist (List.Sublist.map _ List.filter_sublist) h1
  · intro a ha b hb
    simp only [List.map_cons, List.map_nil, List.mem_singleton] at hb
    subst hb
    rw [List.mem_map] at ha
    obtain ⟨e, he, rfl⟩ := ha
    have := (List.mem_filter.mp he).2
    simpa using this

theorem package_mem {x : Entry} (h : x ∈ package v s tx) : x = tx ∨ x ∈ ancEntries v s tx := by
  rw [package_eq, List.mem_append] at h
  rcases h with h | h
  · right
    exact (mem_sortBy _ _ _).mp (List.mem_filter.mp h).1
  · left; simpa using h

theorem package_covers_anc (hall : ∀ a ∈ v.anc tx.id, v.hasProposed a = true) :
    ∀ a ∈ v.anc tx.id, a ∈ s.fetched ∨ a ∈ (package v s tx).map (·.id) := by
  intro a ha
  by_cases hf : a ∈ s.fetched
  · exact Or.inl hf
  · right
    obtain ⟨e, he⟩ := retrieve_isSome (m := s.mod) (hall a ha)
    have hid := (retrieve_some he).1
    have hmem : e ∈ ancEntries v s tx := by
      unfold ancEntries
      rw [List.mem_filterMap]
      refine ⟨a, ha, ?_⟩
      simp [hf, he]
    rw [package_eq, List.map_append, List.mem_append]
    by_cases htx : a = tx.id
    · right; simp [htx]
    · left
      rw [List.mem_map]
      refine ⟨e, List.mem_filter.mpr ⟨(mem_sortBy _ _ _).mpr hmem, ?_⟩, hid⟩
      simp [hid, htx]

theorem sum_filterMap_le (f : Nat → Nat) (fe : Entry → Nat) (X : List Nat) (g : Nat → Option Entry)
    (hg : ∀ a e, g a = some e → fe e = f a) (l : List Nat) :
    ((l.filterMap fun a => if X.contains a then none else g a).map fe).sum ≤ restSum f X l := by
  induction l with
  | nil => simp [restSum, sumBy]
  | cons a as ih =>
    unfold restSum sumBy at *
    by_cases hX : a ∈ X
    · simp [List.filterMap_cons, hX]
      simpa using ih
    · cases hga : g a with
      | none =>
        simp [List.filterMap_cons, hX, hga]
        simp at ih; omega
      | some e =>
        have := hg a e hga
        simp [List.filterMap_cons, hX, hga]
        simp at ih; omega

end pkg


/-! ### `update_modified_entries` -/

section upd
variable {v : View}

def Closed (v : View) (F : List Nat) : Prop := ∀ id ∈ F, ∀ a ∈ v.anc id, a ∈ F

/-- occupants of `modified_entries` while the package is folded in: `F` = fetched before the
    package, `F'` = fetched after it, `G` = package ids already processed -/
def ModOk (v : View) (F F' G : List Nat) (m : Mod) : Prop :=
  ∀ e ∈ m, Good v e ∧ e.id ∉ F' ∧ (AggGe v → Covers v (G ++ F) e)

theorem covers_subAnc {X : List Nat} {e p : Entry} (hnd : (v.anc e.id).Nodup)
    (hp : p.id ∈ v.anc e.id) (hX : p.id ∉ X) (hpg : Good v p) (hc : Covers v X e) :
    Covers v (p.id :: X) (e.subAnc p) := by
  obtain ⟨h1, h2⟩ := hc
  rw [restSum_cons_mem v.sizeOf X _ p.id hnd hp hX] at h1
  rw [restSum_cons_mem v.cyclesOf X _ p.id hnd hp hX] at h2
  obtain ⟨_, hs, hcy⟩ := hpg
  show e.size + restSum v.sizeOf (p.id :: X) (v.anc e.id) ≤ e.ancSize - p.size ∧
       e.cycles + restSum v.cyclesOf (p.id :: X) (v.anc e.id) ≤ e.ancCycles - p.cycles
  omega

def updStep (v : View) (keys : List Nat) (p : Entry) (m : Mod) (d : Nat) : Mod :=
  if keys.contains d || !v.hasProposed d then m else
    match m.get d with
    | some old => (m.remove d).insert (old.subAnc p)
    | none =>
      match v.get d with
      | some pe => m.insert (pe.e.subAnc p)
      | none => m

theorem updateOne_eq (keys : List Nat) (m : Mod) (p : Entry) :
    updateOne v keys m p = (v.desc p.id).foldl (updStep v keys p) m := rfl

theorem updStep_fold (hL : LinksOk v) (F F' G K : List Nat) (p : Entry)
    (hpGood : Good v p) (hpF : p.id ∉ G ++ F) (hclosed : Closed v F)
    (hF' : ∀ a, a ∈ F' → a ∈ K ∨ a ∈ F)
    (ds : List Nat) (hds : ds.Nodup) (hsub : ∀ d ∈ ds, d ∈ v.desc p.id) (m : Mod)
    (hm : ∀ e ∈ m, Good v e ∧ e.id ∉ F' ∧
      (AggGe v → (e.id ∈ ds → Covers v (G ++ F) e) ∧ (e.id ∉ ds → Covers v (p.id :: (G ++ F)) e))) :
    ModOk v F F' (p.id :: G) (ds.foldl (updStep v K p) m) := by
  obtain ⟨_, hancnd, _, _, hdescanc, _⟩ := hL
  have hpid : p.id ∈ v.ids := hasProposed_mem_ids hpGood.1
  induction ds generalizing m with
  | nil =>
    intro e he
    obtain ⟨h1, h2, h3⟩ := hm e he
    exact ⟨h1, h2, fun hagg => ((h3 hagg).2 (by simp))⟩
  | cons d ds ih =>
    simp only [List.nodup_cons] at hds
    simp only [List.foldl_cons]
    apply ih hds.2 (fun x hx => hsub x (List.mem_cons_of_mem _ hx))
    -- the invariant after processing `d`
    have hkeep : ∀ e ∈ m, e.id ≠ d ∨ True → Good v e ∧ e.id ∉ F' ∧
        (AggGe v → (e.id ∈ ds → Covers v (G ++ F) e) ∧ (e.id ∉ ds → e.id ≠ d → Covers v (p.id :: (G ++ F)) e)) := by
      intro e he _
      obtain ⟨h1, h2, h3⟩ := hm e he
      refine ⟨h1, h2, fun hagg => ⟨fun hin => (h3 hagg).1 (List.mem_cons_of_mem _ hin), fun hnin hne => (h3 hagg).2 ?_⟩⟩
      simp only [List.mem_cons, not_or]; exact ⟨hne, hnin⟩
    have hcov_d : ∀ e ∈ m, e.id = d → AggGe v → Covers v (G ++ F) e := by
      intro e he hid hagg
      exact ((hm e he).2.2 hagg).1 (by simp [hid])
    have hpanc : p.id ∈ v.anc d := hdescanc p.id hpid d (hsub d List.mem_cons_self)
    unfold updStep
    split
    · -- skipped: unchanged
      intro e he
      obtain ⟨h1, h2, h3⟩ := hkeep e he (Or.inr trivial)
      refine ⟨h1, h2, fun hagg => ⟨(h3 hagg).1, fun hnin => ?_⟩⟩
      by_cases hed : e.id = d
      · exact (hcov_d e he hed hagg).mono (fun a ha => List.mem_cons_of_mem _ ha)
      · exact (h3 hagg).2 hnin hed
    · rename_i hcond
      have hdK : d ∉ K := by
        intro h; apply hcond; simp [h]
      have hdprop : v.hasProposed d = true := by
        cases hh : v.hasProposed d with
        | true => rfl
        | false => exact absurd (by simp [hh]) hcond
      have hdid : d ∈ v.ids := hasProposed_mem_ids hdprop
      split
      · -- an occupant is replaced
        rename_i old hold
        obtain ⟨holdm, holdid⟩ := Mod.get_some hold
        intro e he
        rcases List.mem_cons.mp he with rfl | he
        · obtain ⟨g1, g2, _⟩ := hm old holdm
          refine ⟨g1.subAnc, g2, fun hagg => ⟨fun hin => ?_, fun _ => ?_⟩⟩
          · exact absurd (show d ∈ ds from holdid ▸ hin) hds.1
          · have hc := hcov_d old holdm holdid hagg
            exact covers_subAnc (by rw [holdid]; exact hancnd d hdid) (by rw [holdid]; exact hpanc) hpF hpGood hc
        · obtain ⟨hem, hne⟩ := Mod.mem_remove.mp he
          obtain ⟨h1, h2, h3⟩ := hkeep e hem (Or.inr trivial)
          exact ⟨h1, h2, fun hagg => ⟨(h3 hagg).1, fun hnin => (h3 hagg).2 hnin hne⟩⟩
      · rename_i hnone
        have hnoocc := Mod.get_none hnone
        split
        · -- a fresh copy of the pool entry enters
          rename_i pe hpe
          have hpeid := get_id hpe
          intro e he
          rcases List.mem_cons.mp he with rfl | he
          · have hgood : Good v pe.e := good_of_get hpe hdprop
            refine ⟨hgood.subAnc, ?_, fun hagg => ⟨fun hin => ?_, fun _ => ?_⟩⟩
            · show pe.e.id ∉ F'
              rw [hpeid]
              intro hin
              rcases hF' d hin with h | h
              · exact hdK h
              · exact hpF (List.mem_append_right _ (hclosed d h p.id hpanc))
            · exact absurd (show d ∈ ds from hpeid ▸ hin) hds.1
            · have hc : Covers v (G ++ F) pe.e := (covers_of_pool hagg (get_mem hpe)).mono (by simp)
              exact covers_subAnc (by rw [hpeid]; exact hancnd d hdid) (by rw [hpeid]; exact hpanc) hpF hpGood hc
          · obtain ⟨h1, h2, h3⟩ := hkeep e he (Or.inr trivial)
            exact ⟨h1, h2, fun hagg => ⟨(h3 hagg).1, fun hnin => (h3 hagg).2 hnin (hnoocc e he)⟩⟩
        · intro e he
          obtain ⟨h1, h2, h3⟩ := hkeep e he (Or.inr trivial)
          exact ⟨h1, h2, fun hagg => ⟨(h3 hagg).1, fun hnin => (h3 hagg).2 hnin (hnoocc e he)⟩⟩

theorem updateModified_ok (hL : LinksOk v) (F F' K : List Nat) (hclosed : Closed v F)
    (hF' : ∀ a, a ∈ F' → a ∈ K ∨ a ∈ F)
    (ps : List Entry) (G : List Nat) (hnd : (ps.map (·.id)).Nodup)
    (hps : ∀ p ∈ ps, Good v p ∧ p.id ∉ G ∧ p.id ∉ F) (m : Mod) (hm : ModOk v F F' G m) :
    ModOk v F F' ((ps.map (·.id)).reverse ++ G) (ps.foldl (updateOne v K) m) := by
  induction ps generalizing G m with
  | nil => simpa using hm
  | cons p ps ih =>
    simp only [List.map_cons, List.nodup_cons] at hnd
    obtain ⟨hg, hpG, hpF⟩ := hps p List.mem_cons_self
    have hpid : p.id ∈ v.ids := hasProposed_mem_ids hg.1
    have hstep : ModOk v F F' (p.id :: G) (updateOne v K m p) := by
      rw [updateOne_eq]
      apply updStep_fold hL F F' G K p hg (by simp [hpG, hpF]) hclosed hF' _ (hL.2.2.2.2.2 p.id hpid) (fun d hd => hd)
      intro e he
      obtain ⟨h1, h2, h3⟩ := hm e he
      exact ⟨h1, h2, fun hagg => ⟨fun _ => h3 hagg, fun _ => (h3 hagg).mono (fun a ha => List.mem_cons_of_mem _ ha)⟩⟩
    have := ih (p.id :: G) hnd.2 (fun q hq => by
      obtain ⟨q1, q2, q3⟩ := hps q (List.mem_cons_of_mem _ hq)
      refine ⟨q1, ?_, q3⟩
      simp only [List.mem_cons, not_or]
      refine ⟨?_, q2⟩
      intro heq
      exact hnd.1 (heq ▸ List.mem_map_of_mem hq)) (updateOne v K m p) hstep
    simpa using this

end upd


/-! ### the loop invariant -/

structure Inv (v : View) (sl cl : Nat) (s : St) : Prop where
  sizeEq : s.size = (s.out.map (·.size)).sum
  cyclesEq : s.cycles = (s.out.map (·.cycles)).sum
  outFetched : ∀ e ∈ s.out, e.id ∈ s.fetched
  fetchedOut : ∀ id ∈ s.fetched, id ∈ s.out.map (·.id)
  nodup : (s.out.map (·.id)).Nodup
  outGood : ∀ e ∈ s.out, Good v e
  closed : Closed v s.fetched
  iterGood : ∀ e ∈ s.iter, Good v e ∧ (AggGe v → Covers v [] e)
  modGood : ∀ e ∈ s.mod, Good v e ∧ e.id ∉ s.fetched ∧ (AggGe v → Covers v s.fetched e)
  limits : AggGe v → s.size ≤ sl ∧ s.cycles ≤ cl

section step
variable {v : View} {sl cl : Nat}

theorem Inv.fail {s : St} (h : Inv v sl cl s) (iter' : List Entry) (hsub : ∀ e ∈ iter', e ∈ s.iter)
    (tx : Entry) (u : Bool) : Inv v sl cl (fail s iter' tx u).1 := by
  unfold Selector.fail
  cases u with
  | false =>
    exact { h with iterGood := fun e he => h.iterGood e (hsub e he) }
  | true =>
    exact { h with iterGood := fun e he => h.iterGood e (hsub e he),
                   modGood := fun e he => h.modGood e (Mod.mem_remove.mp he).1 }

theorem Inv.body (hL : LinksOk v) {s : St} (h : Inv v sl cl s) (tx : Entry) (u : Bool) (iter' : List Entry)
    (hsub : ∀ e ∈ iter', e ∈ s.iter) (htxG : Good v tx) (htxF : tx.id ∉ s.fetched)
    (htxC : AggGe v → Covers v s.fetched tx) :
    Inv v sl cl (step.body v sl cl s tx u iter').1 := by
  unfold step.body
  split
  · exact h.fail iter' hsub tx u
  · rename_i hadm
    split
    · exact h.fail iter' hsub tx u
    · rename_i hallp
      have hall : ∀ a ∈ v.anc tx.id, v.hasProposed a = true := by
        intro a ha
        cases hh : v.hasProposed a with
        | true => rfl
        | false =>
          exfalso; apply hallp
          rw [List.any_eq_true]
          exact ⟨a, ha, by simp [hh]⟩
      obtain ⟨hidnd, hancnd, hancids, htrans, hdescanc, hdescnd⟩ := hL
      have htxid : tx.id ∈ v.ids := hasProposed_mem_ids htxG.1
      have hnd := package_nodup (s := s) (hancnd tx.id htxid)
      -- facts about the members of the package
      have hmem : ∀ x ∈ package v s tx, Good v x ∧ x.id ∉ s.fetched ∧ (x.id = tx.id ∨ x.id ∈ v.anc tx.id) := by
        intro x hx
        rcases package_mem hx with rfl | hx
        · exact ⟨htxG, htxF, Or.inl rfl⟩
        · obtain ⟨h1, h2, h3⟩ := ancEntries_mem hx
          refine ⟨?_, h2, Or.inr h1⟩
          rcases (retrieve_some h3).2 with hm | ⟨pe, hg, hp, rfl⟩
          · exact (h.modGood x hm).1
          · exact good_of_get hg (hall _ h1)
      have hnew : ∀ x ∈ package v s tx, x.id ∉ ({ s with iter := iter' } : St).fetched :=
        fun x hx => (hmem x hx).2.1
      simp only []
      rw [foldl_push_eq _ _ hnew hnd]
      simp only []
      -- names
      let pkg := package v s tx
      let K := pkg.map (·.id)
      have hF' : ∀ a, a ∈ K.reverse ++ s.fetched → a ∈ K ∨ a ∈ s.fetched := by
        intro a ha
        rcases List.mem_append.mp ha with h1 | h1
        · exact Or.inl (List.mem_reverse.mp h1)
        · exact Or.inr h1
      have hm0 : ModOk v s.fetched (K.reverse ++ s.fetched) []
          (pkg.foldl (fun m x => Mod.remove m x.id) s.mod) := by
        intro e he
        obtain ⟨h1, h2⟩ := mem_foldl_remove he
        obtain ⟨g1, g2, g3⟩ := h.modGood e h1
        refine ⟨g1, ?_, fun hagg => by simpa using g3 hagg⟩
        intro hin
        rcases hF' _ hin with h3 | h3
        · exact h2 h3
        · exact g2 h3
      have hupd := updateModified_ok ⟨hidnd, hancnd, hancids, htrans, hdescanc, hdescnd⟩
        s.fetched (K.reverse ++ s.fetched) K h.closed hF' pkg [] hnd
        (fun p hp => ⟨(hmem p hp).1, by simp, (hmem p hp).2.1⟩) _ hm0
      have hsumS : AggGe v → (pkg.map (·.size)).sum ≤ tx.ancSize ∧ (pkg.map (·.cycles)).sum ≤ tx.ancCycles := by
        intro hagg
        obtain ⟨c1, c2⟩ := htxC hagg
        have hret : ∀ a e, retrieve v s.mod a = some e → e.size = v.sizeOf a ∧ e.cycles = v.cyclesOf a := by
          intro a e he
          obtain ⟨hid, hcase⟩ := retrieve_some he
          rcases hcase with hm | ⟨pe, hg, hp, rfl⟩
          · have := (h.modGood e hm).1
            rw [← hid]; exact ⟨this.2.1, this.2.2⟩
          · simp [View.sizeOf, View.cyclesOf, hg]
        have s1 := sum_filterMap_le v.sizeOf (·.size) s.fetched (retrieve v s.mod)
          (fun a e he => (hret a e he).1) (v.anc tx.id)
        have s2 := sum_filterMap_le v.cyclesOf (·.cycles) s.fetched (retrieve v s.mod)
          (fun a e he => (hret a e he).2) (v.anc tx.id)
        have e1 : (pkg.map (·.size)).sum ≤ ((ancEntries v s tx).map (·.size)).sum + tx.size := by
          show ((package v s tx).map (·.size)).sum ≤ _
          rw [package_eq, List.map_append, List.sum_append]
          have := sum_map_filter_le (fun e : Entry => e.id != tx.id) (·.size) (sortBy (countBefore v.tie) (ancEntries v s tx))
          rw [sum_map_sortBy] at this
          simp; omega
        have e2 : (pkg.map (·.cycles)).sum ≤ ((ancEntries v s tx).map (·.cycles)).sum + tx.cycles := by
          show ((package v s tx).map (·.cycles)).sum ≤ _
          rw [package_eq, List.map_append, List.sum_append]
          have := sum_map_filter_le (fun e : Entry => e.id != tx.id) (·.cycles) (sortBy (countBefore v.tie) (ancEntries v s tx))
          rw [sum_map_sortBy] at this
          simp; omega
        unfold ancEntries at e1 e2
        constructor <;> omega
      refine
        { sizeEq := by simp [h.sizeEq, pkg]
          cyclesEq := by simp [h.cyclesEq, pkg]
          outFetched := ?_
          fetchedOut := ?_
          nodup := ?_
          outGood := ?_
          closed := ?_
          iterGood := fun e he => h.iterGood e (hsub e he)
          modGood := ?_
          limits := ?_ }
      · intro e he
        rcases List.mem_append.mp he with h1 | h1
        · exact List.mem_append_right _ (h.outFetched e h1)
        · exact List.mem_append_left _ (List.mem_reverse.mpr (List.mem_map_of_mem h1))
      · intro id hid
        rw [List.map_append, List.mem_append]
        rcases List.mem_append.mp hid with h1 | h1
        · exact Or.inr (List.mem_reverse.mp h1)
        · exact Or.inl (h.fetchedOut id h1)
      · rw [List.map_append, List.nodup_append]
        refine ⟨h.nodup, hnd, ?_⟩
        intro a ha b hb hab
        subst hab
        obtain ⟨e, he, rfl⟩ := List.mem_map.mp ha
        obtain ⟨x, hx, hxe⟩ := List.mem_map.mp hb
        exact (hmem x hx).2.1 (hxe ▸ h.outFetched e he)
      · intro e he
        rcases List.mem_append.mp he with h1 | h1
        · exact h.outGood e h1
        · exact (hmem e h1).1
      · intro id hid a ha
        rcases List.mem_append.mp hid with h1 | h1
        · have h1 := List.mem_reverse.mp h1
          obtain ⟨x, hx, rfl⟩ := List.mem_map.mp h1
          have hanc : a ∈ v.anc tx.id := by
            rcases (hmem x hx).2.2 with heq | hin
            · rw [← heq]; exact ha
            · exact htrans tx.id htxid x.id hin a ha
          rcases package_covers_anc (s := s) hall a hanc with h2 | h2
          · exact List.mem_append_right _ h2
          · exact List.mem_append_left _ (List.mem_reverse.mpr h2)
        · exact List.mem_append_right _ (h.closed id h1 a ha)
      · intro e he
        obtain ⟨g1, g2, g3⟩ := hupd e he
        exact ⟨g1, g2, fun hagg => by simpa using g3 hagg⟩
      · intro hagg
        obtain ⟨l1, l2⟩ := h.limits hagg
        obtain ⟨a1, a2⟩ := hsumS hagg
        simp only [Bool.or_eq_true, decide_eq_true_eq, not_or, Nat.not_lt] at hadm
        show s.size + (pkg.map (·.size)).sum ≤ sl ∧ s.cycles + (pkg.map (·.cycles)).sum ≤ cl
        constructor <;> omega

theorem Inv.step (hL : LinksOk v) {s : St} (h : Inv v sl cl s) : Inv v sl cl (step v sl cl s).1 := by
  unfold Selector.step
  split
  · rename_i e rest hit
    split
    · exact { h with iterGood := fun x hx => h.iterGood x (by rw [hit]; exact List.mem_cons_of_mem _ hx) }
    · rename_i hskip
      have heF : e.id ∉ s.fetched := by
        intro hin; apply hskip; simp [St.skip, hin]
      obtain ⟨heG, heC⟩ := h.iterGood e (by rw [hit]; exact List.mem_cons_self)
      have hsub_rest : ∀ x ∈ rest, x ∈ s.iter := fun x hx => by rw [hit]; exact List.mem_cons_of_mem _ hx
      have he_body := h.body hL e false rest hsub_rest heG heF (fun hagg => (heC hagg).mono (by simp))
      cases hbm : Mod.best v.tie s.mod with
      | none =>
        simp only []
        exact he_body
      | some bm =>
        obtain ⟨g1, g2, g3⟩ := h.modGood bm (Mod.best_mem hbm)
        by_cases hgt : (Key.cmp bm.key e.key == Ordering.gt) = true
        · simp only [hgt, if_true]
          exact h.body hL bm true s.iter (fun x hx => hx) g1 g2 g3
        · simp only [hgt]
          exact he_body
  · rename_i hit
    cases hbm : Mod.best v.tie s.mod with
    | none => exact h
    | some bm =>
      obtain ⟨g1, g2, g3⟩ := h.modGood bm (Mod.best_mem hbm)
      exact h.body hL bm true [] (fun x hx => by simp at hx) g1 g2 g3

theorem Inv.run (hL : LinksOk v) (fuel : Nat) {s : St} (h : Inv v sl cl s) : Inv v sl cl (run v sl cl fuel s) := by
  induction fuel generalizing s with
  | zero => exact h
  | succ n ih =>
    unfold Selector.run
    have hs := h.step hL
    split
    · rename_i s' heq
      rw [heq] at hs
      exact ih hs
    · rename_i s' heq
      rw [heq] at hs
      exact hs

theorem mem_sortedProposed {e : Entry} (h : e ∈ v.sortedProposed sl cl) :
    ∃ pe ∈ v.ents, pe.proposed = true ∧ pe.e = e := by
  unfold View.sortedProposed at h
  obtain ⟨p, hp, rfl⟩ := List.mem_map.mp h
  obtain ⟨hp1, hp2⟩ := List.mem_filter.mp hp
  rw [mem_sortBy] at hp1
  have hmem : p.1 ∈ v.ents := by
    have := List.mem_zipIdx (x := p.1) (i := p.2) (k := 0) hp1
    obtain ⟨_, hlt, heq⟩ := this
    rw [heq]; exact List.getElem_mem _
  simp only [Bool.and_eq_true] at hp2
  exact ⟨p.1, hmem, hp2.1, rfl⟩

theorem Inv.init (hL : LinksOk v) : Inv v sl cl (initSt v sl cl) := by
  refine
    { sizeEq := by simp [initSt], cyclesEq := by simp [initSt]
      outFetched := by simp [initSt], fetchedOut := by simp [initSt]
      nodup := by simp [initSt], outGood := by simp [initSt]
      closed := by intro id hid; simp [initSt] at hid
      iterGood := ?_, modGood := by simp [initSt]
      limits := by intro _; simp [initSt] }
  intro e he
  obtain ⟨pe, hpe, hp, rfl⟩ := mem_sortedProposed he
  exact ⟨good_of_pool hL.1 hpe hp, fun hagg => covers_of_pool hagg hpe⟩

theorem Inv.final (hL : LinksOk v) : Inv v sl cl (txsToCommit v sl cl) := (Inv.init hL).run hL _

end step

end CkbVerif.Selector
