import CkbVerif.Lemmas.WindowConsumers
import CkbVerif.Model.WindowPool

/-! Lemmas for the whole-pool stage transition (C20): the per-entry move characterised for every
stage, membership in `poolSubmit` / `poolReorg`, distinct ids. -/
namespace CkbVerif.Window

/-! ## the per-entry move, every outcome -/

/-- Gap afterwards: not committable, and either in the new gap part or it was Gap before without
having been committable (the second alternative is the stale-Gap case of the code as written). -/
theorem stageAfter_gap_iff {removed : Ids} {old v : View} {st : Stage} {x : Nat}
    (hrem : x ∈ removed ↔ x ∈ old.set ∧ x ∉ v.set) (hst : st = .proposed → x ∈ old.set) :
    stageAfter removed v st x = .gap ↔ x ∉ v.set ∧ (x ∈ v.gap ∨ (st = .gap ∧ x ∉ old.set)) := by
  unfold stageAfter
  by_cases hs : x ∈ v.set <;> by_cases hr : x ∈ removed <;> by_cases hg : x ∈ v.gap <;>
    by_cases ho : x ∈ old.set <;> cases st <;> simp_all

theorem stageAfter_pending_iff {removed : Ids} {old v : View} {st : Stage} {x : Nat}
    (hrem : x ∈ removed ↔ x ∈ old.set ∧ x ∉ v.set) (hst : st = .proposed → x ∈ old.set) :
    stageAfter removed v st x = .pending ↔ x ∉ v.set ∧ x ∉ v.gap ∧ (st = .gap → x ∈ old.set) := by
  unfold stageAfter
  by_cases hs : x ∈ v.set <;> by_cases hr : x ∈ removed <;> by_cases hg : x ∈ v.gap <;>
    by_cases ho : x ∈ old.set <;> cases st <;> simp_all

/-- the stage `_submit_entry` files an id with -/
theorem submit_stage_proposed_iff {v : View} {x : Nat} : (txStatus v x).stage = .proposed ↔ x ∈ v.set := by
  rw [← txStatus_proposed_iff]
  cases txStatus v x <;> simp [TxStatus.stage]

theorem submit_stage_gap_iff {v : View} {x : Nat} : (txStatus v x).stage = .gap ↔ x ∈ v.gap ∧ x ∉ v.set := by
  rw [← txStatus_gap_iff]
  cases txStatus v x <;> simp [TxStatus.stage]

theorem submit_stage_pending_iff {v : View} {x : Nat} : (txStatus v x).stage = .pending ↔ x ∉ v.set ∧ x ∉ v.gap := by
  rw [← txStatus_fresh_iff]
  cases txStatus v x <;> simp [TxStatus.stage]

/-! ## membership -/

theorem PoolSt.has_iff {p : PoolSt} {x : Nat} : p.has x = true ↔ ∃ st, (x, st) ∈ p := by
  simp only [PoolSt.has, List.any_eq_true, beq_iff_eq]
  constructor
  · rintro ⟨⟨y, st⟩, hm, rfl⟩; exact ⟨st, hm⟩
  · rintro ⟨st, hm⟩; exact ⟨(x, st), hm, rfl⟩

theorem mem_poolSubmit {v : View} {p : PoolSt} {x : Nat} {e : Nat × Stage} :
    e ∈ poolSubmit v p x ↔ e ∈ p ∨ (p.has x = false ∧ e = (x, (txStatus v x).stage)) := by
  unfold poolSubmit
  by_cases h : p.has x = true
  · simp [h]
  · simp only [h, Bool.false_eq_true, if_false, List.mem_append, List.mem_singleton]
    simp at h
    simp

theorem mem_foldl_poolSubmit {v : View} {xs : Ids} {p : PoolSt} {e : Nat × Stage}
    (h : e ∈ xs.foldl (poolSubmit v) p) : e ∈ p ∨ ∃ x ∈ xs, e = (x, (txStatus v x).stage) := by
  induction xs generalizing p with
  | nil => exact Or.inl h
  | cons a xs ih =>
    rcases ih h with h1 | ⟨x, hx, he⟩
    · rcases mem_poolSubmit.mp h1 with h2 | ⟨_, h2⟩
      · exact Or.inl h2
      · exact Or.inr ⟨a, List.mem_cons_self, h2⟩
    · exact Or.inr ⟨x, List.mem_cons_of_mem _ hx, he⟩

theorem mem_foldl_poolSubmit_of_mem {v : View} {xs : Ids} {p : PoolSt} {e : Nat × Stage}
    (h : e ∈ p) : e ∈ xs.foldl (poolSubmit v) p := by
  induction xs generalizing p with
  | nil => exact h
  | cons a xs ih => exact ih (mem_poolSubmit.mpr (Or.inl h))

theorem has_foldl_poolSubmit {v : View} {xs : Ids} {p : PoolSt} {x : Nat} :
    (xs.foldl (poolSubmit v) p).has x = true ↔ p.has x = true ∨ x ∈ xs := by
  induction xs generalizing p with
  | nil => simp
  | cons a xs ih =>
    rw [List.foldl_cons, ih, List.mem_cons]
    have : (poolSubmit v p a).has x = true ↔ p.has x = true ∨ x = a := by
      rw [PoolSt.has_iff]
      constructor
      · rintro ⟨st, hm⟩
        rcases mem_poolSubmit.mp hm with h | ⟨_, h⟩
        · exact Or.inl (PoolSt.has_iff.mpr ⟨st, h⟩)
        · exact Or.inr (Prod.mk.inj h).1
      · rintro (h | h)
        · obtain ⟨st, hm⟩ := PoolSt.has_iff.mp h
          exact ⟨st, mem_poolSubmit.mpr (Or.inl hm)⟩
        · subst h
          by_cases hh : p.has x = true
          · obtain ⟨st, hm⟩ := PoolSt.has_iff.mp hh
            exact ⟨st, mem_poolSubmit.mpr (Or.inl hm)⟩
          · exact ⟨_, mem_poolSubmit.mpr (Or.inr ⟨by simpa using hh, rfl⟩)⟩
    rw [this]
    constructor
    · rintro ((h | h) | h)
      · exact Or.inl h
      · exact Or.inr (Or.inl h)
      · exact Or.inr (Or.inr h)
    · rintro (h | h | h)
      · exact Or.inl (Or.inl h)
      · exact Or.inl (Or.inr h)
      · exact Or.inr h

/-- every entry of the pool after `update_tx_pool_for_reorg` is an old entry that was not committed,
moved by `stageAfter`, or a re-admitted transaction filed by `get_tx_status` on the new view -/
theorem mem_poolReorg {removed : Ids} {v : View} {att det : Ids} {p : PoolSt} {e : Nat × Stage}
    (h : e ∈ poolReorg removed v att det p) :
    (∃ st, (e.1, st) ∈ p ∧ e.1 ∉ att ∧ e.2 = stageAfter removed v st e.1) ∨
    (e.1 ∈ det ∧ e.1 ∉ att ∧ e.2 = (txStatus v e.1).stage) := by
  unfold poolReorg at h
  rcases mem_foldl_poolSubmit h with h1 | ⟨x, hx, he⟩
  · left
    simp only [List.mem_map, List.mem_filter, Bool.not_eq_true', List.contains_eq_mem,
      decide_eq_false_iff_not] at h1
    obtain ⟨⟨y, st⟩, ⟨hm, hna⟩, rfl⟩ := h1
    exact ⟨st, hm, hna, rfl⟩
  · right
    simp only [List.mem_filter, Bool.not_eq_true', List.contains_eq_mem,
      decide_eq_false_iff_not] at hx
    subst he
    exact ⟨hx.1, hx.2, rfl⟩

/-- the pooled ids after the reorganisation: the old ones that were not committed by the attached
blocks, and the transactions of detached blocks that the attached blocks do not commit again -/
theorem has_poolReorg {removed : Ids} {v : View} {att det : Ids} {p : PoolSt} {x : Nat} :
    (poolReorg removed v att det p).has x = true ↔ x ∉ att ∧ (p.has x = true ∨ x ∈ det) := by
  unfold poolReorg
  rw [has_foldl_poolSubmit]
  have h2 : PoolSt.has ((p.filter (fun e => !att.contains e.1)).map
      (fun e => (e.1, stageAfter removed v e.2 e.1))) x = true ↔ x ∉ att ∧ p.has x = true := by
    rw [PoolSt.has_iff, PoolSt.has_iff]
    simp only [List.mem_map, List.mem_filter, Bool.not_eq_true', List.contains_eq_mem,
      decide_eq_false_iff_not, Prod.mk.injEq]
    constructor
    · rintro ⟨st, ⟨y, st'⟩, ⟨hm, hna⟩, rfl, _⟩
      exact ⟨hna, st', hm⟩
    · rintro ⟨hna, st, hm⟩
      exact ⟨_, (x, st), ⟨hm, hna⟩, rfl, rfl⟩
  rw [h2]
  simp only [List.mem_filter, Bool.not_eq_true', List.contains_eq_mem, decide_eq_false_iff_not]
  constructor
  · rintro (⟨a, b⟩ | ⟨a, b⟩)
    · exact ⟨a, Or.inl b⟩
    · exact ⟨b, Or.inr a⟩
  · rintro ⟨a, b | b⟩
    · exact Or.inl ⟨a, b⟩
    · exact Or.inr ⟨b, a⟩

/-! ## distinct ids -/

def PoolSt.ids (p : PoolSt) : Ids := p.map (·.1)

theorem PoolSt.has_iff_mem_ids {p : PoolSt} {x : Nat} : p.has x = true ↔ x ∈ p.ids := by
  rw [PoolSt.has_iff]
  simp only [PoolSt.ids, List.mem_map]
  constructor
  · rintro ⟨st, hm⟩; exact ⟨(x, st), hm, rfl⟩
  · rintro ⟨⟨y, st⟩, hm, rfl⟩; exact ⟨st, hm⟩

theorem nodup_poolSubmit {v : View} {p : PoolSt} {x : Nat} (h : p.ids.Nodup) :
    (poolSubmit v p x).ids.Nodup := by
  unfold poolSubmit
  by_cases hh : p.has x = true
  · simpa [hh] using h
  · simp only [hh, Bool.false_eq_true, if_false, PoolSt.ids, List.map_append, List.map_cons, List.map_nil]
    have hx : x ∉ p.ids := fun hm => hh (PoolSt.has_iff_mem_ids.mpr hm)
    rw [List.nodup_append]
    refine ⟨h, by simp, ?_⟩
    intro a ha b hb
    simp only [List.mem_singleton] at hb
    subst hb
    intro hab; subst hab
    exact hx ha

theorem nodup_foldl_poolSubmit {v : View} {xs : Ids} {p : PoolSt} (h : p.ids.Nodup) :
    (xs.foldl (poolSubmit v) p).ids.Nodup := by
  induction xs generalizing p with
  | nil => exact h
  | cons a xs ih => exact ih (nodup_poolSubmit h)

theorem nodup_poolReorg {removed : Ids} {v : View} {att det : Ids} {p : PoolSt} (h : p.ids.Nodup) :
    (poolReorg removed v att det p).ids.Nodup := by
  unfold poolReorg
  apply nodup_foldl_poolSubmit
  simp only [PoolSt.ids, List.map_map]
  have : ((fun e : Nat × Stage => e.1) ∘ fun e : Nat × Stage => (e.1, stageAfter removed v e.2 e.1)) =
      (fun e : Nat × Stage => e.1) := by
    funext e; rfl
  rw [this]
  exact List.Nodup.sublist (List.Sublist.map _ List.filter_sublist) h

end CkbVerif.Window
