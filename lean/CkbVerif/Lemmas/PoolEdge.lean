/-
C11 helper lemmas, part 2: the *edge-level* abstraction of the pool.

`edge s` forgets links and aggregates and keeps what the clauses "no double spend", "edges match
entries" and "counts / totals match" talk about: the (tx, status, timestamp) cores of the entries,
`edges.inputs`, and the five counters.  On that projection every pool operation is a sequence of three
tiny abstract operations (`rmV`, `pushV`, `setV`) — `EReach` — and the invariant `EdgeOK` is proved
once for those.  `commit` (resolve_conflict) strips an input edge *before* it removes the entry; the
two-phase argument is `rmV_strip_comm` + `strip_absent`: removals commute with the strip, and after the
owner is gone the strip is the identity.
-/
import CkbVerif.Lemmas.Pool
import CkbVerif.Lemmas.PoolLift
namespace CkbVerif.Pool

abbrev Core := Tx × Status × Nat
def Entry.core (e : Entry) : Core := (e.tx, e.status, e.ts)

@[ext] structure EdgeV where
  cores : List Core
  inputs : List (OutPt × Nat)
  pending : Nat
  gap : Nat
  proposed : Nat
  totalSize : Nat
  totalCycles : Nat

def edge (s : Pool) : EdgeV :=
  ⟨s.entries.map Entry.core, s.inputs, s.pending, s.gap, s.proposed, s.totalSize, s.totalCycles⟩

def decSt (v : EdgeV) : Status → EdgeV
  | .pending => { v with pending := v.pending - 1 }
  | .gap => { v with gap := v.gap - 1 }
  | .proposed => { v with proposed := v.proposed - 1 }

def incSt (v : EdgeV) : Status → EdgeV
  | .pending => { v with pending := v.pending + 1 }
  | .gap => { v with gap := v.gap + 1 }
  | .proposed => { v with proposed := v.proposed + 1 }

def findCore (v : EdgeV) (id : Nat) : Option Core := v.cores.find? (·.1.id = id)

/-- the edge-level effect of `remove_entry` -/
def rmV (v : EdgeV) (id : Nat) : EdgeV :=
  match findCore v id with
  | none => v
  | some c =>
    decSt { v with
      cores := v.cores.filter (·.1.id ≠ id)
      inputs := v.inputs.filter (fun kv => kv.1 ∉ c.1.inputs)
      totalSize := v.totalSize - c.1.size
      totalCycles := v.totalCycles - c.1.cycles } c.2.1

/-- the edge-level effect of a successful `add_entry` (after its evictions) -/
def pushV (v : EdgeV) (t : Tx) (st : Status) (ts : Nat) : EdgeV :=
  incSt { v with
    cores := v.cores ++ [(t, st, ts)]
    inputs := v.inputs ++ t.inputs.map (·, t.id)
    totalSize := v.totalSize + t.size
    totalCycles := v.totalCycles + t.cycles } st

/-- the edge-level effect of `set_entry` -/
def setV (v : EdgeV) (id : Nat) (st : Status) : EdgeV :=
  match findCore v id with
  | none => v
  | some c => incSt (decSt { v with cores := v.cores.map fun x => if x.1.id = id then (x.1, st, x.2.2) else x } c.2.1) st

/-- `edges.remove_input(i)` on its own (first half of `resolve_conflict`) -/
def stripV (v : EdgeV) (i : OutPt) : EdgeV := { v with inputs := v.inputs.filter (·.1 ≠ i) }

/-- the new transaction is new: its id is not pooled, none of its inputs is spent in the pool, and it
    does not list an input twice (what `add_entry`'s callers and `record_entry_edges` check) -/
def FreshV (v : EdgeV) (t : Tx) : Prop :=
  (∀ c ∈ v.cores, c.1.id ≠ t.id) ∧ (∀ o ∈ t.inputs, ∀ p ∈ v.inputs, p.1 ≠ o) ∧ t.inputs.Nodup

/-- sequences of abstract operations -/
inductive EReach : EdgeV → EdgeV → Prop
  | refl (v) : EReach v v
  | rm {v w} (id) : EReach v w → EReach v (rmV w id)
  | push {v w} (t st ts) : EReach v w → FreshV w t → EReach v (pushV w t st ts)
  | set {v w} (id st) : EReach v w → EReach v (setV w id st)

theorem EReach.trans {a b c : EdgeV} (h1 : EReach a b) (h2 : EReach b c) : EReach a c := by
  induction h2 with
  | refl => exact h1
  | rm id _ ih => exact .rm id ih
  | push t st ts _ hf ih => exact .push t st ts ih hf
  | set id st _ ih => exact .set id st ih

/-! ## the invariant on the abstraction -/

def cntSt (st : Status) (l : List Core) : Nat := (l.map fun c => if c.2.1 = st then 1 else 0).sum

structure EdgeOK (v : EdgeV) : Prop where
  recd : ∀ c ∈ v.cores, ∀ o ∈ c.1.inputs, (o, c.1.id) ∈ v.inputs
  own : ∀ p ∈ v.inputs, ∃ c ∈ v.cores, c.1.id = p.2 ∧ p.1 ∈ c.1.inputs
  keys : (v.inputs.map (·.1)).Nodup
  ids : (v.cores.map (·.1.id)).Nodup
  cP : v.pending = cntSt .pending v.cores
  cG : v.gap = cntSt .gap v.cores
  cR : v.proposed = cntSt .proposed v.cores
  size : v.totalSize = (v.cores.map (·.1.size)).sum
  cycles : v.totalCycles = (v.cores.map (·.1.cycles)).sum

theorem core_ids_unique (l : List Core) (h : (l.map (·.1.id)).Nodup) {a b : Core}
    (ha : a ∈ l) (hb : b ∈ l) (e : a.1.id = b.1.id) : a = b := by
  induction l with
  | nil => cases ha
  | cons x l ih =>
    simp only [List.map_cons, List.nodup_cons] at h
    rcases List.mem_cons.mp ha with ha | ha <;> rcases List.mem_cons.mp hb with hb | hb
    · rw [ha, hb]
    · exact absurd (List.mem_map.mpr ⟨b, hb, by rw [← e, ha]⟩) h.1
    · exact absurd (List.mem_map.mpr ⟨a, ha, by rw [e, hb]⟩) h.1
    · exact ih h.2 ha hb

theorem findCore_some {v : EdgeV} {id : Nat} {c : Core} (h : findCore v id = some c) :
    c ∈ v.cores ∧ c.1.id = id :=
  ⟨List.mem_of_find?_eq_some h, by simpa using List.find?_some h⟩

theorem findCore_none {v : EdgeV} {id : Nat} (h : findCore v id = none) : ∀ c ∈ v.cores, c.1.id ≠ id := by
  intro c hc
  have := List.find?_eq_none.mp h c hc
  simpa using this

/-- removing the (unique) element with a given id from a sum -/
theorem sum_remove (f : Core → Nat) (l : List Core) (h : (l.map (·.1.id)).Nodup) (c : Core) (hc : c ∈ l) :
    ((l.filter (·.1.id ≠ c.1.id)).map f).sum + f c = (l.map f).sum := by
  induction l with
  | nil => cases hc
  | cons x l ih =>
    simp only [List.map_cons, List.nodup_cons] at h
    rw [List.filter_cons]
    by_cases hx : x.1.id = c.1.id
    · have hxc : x = c := by
        rcases List.mem_cons.mp hc with e | e
        · exact e.symm
        · exact absurd (List.mem_map.mpr ⟨c, e, hx.symm⟩) h.1
      subst hxc
      have hl : l.filter (·.1.id ≠ x.1.id) = l := by
        apply List.filter_eq_self.mpr
        intro a ha
        have : a.1.id ≠ x.1.id := fun e => h.1 (List.mem_map.mpr ⟨a, ha, e⟩)
        simpa using this
      have hd : decide (x.1.id ≠ x.1.id) = false := by simp
      rw [hd]
      simp only [Bool.false_eq_true, if_false, List.map_cons, List.sum_cons]
      rw [hl]; omega
    · have hcl : c ∈ l := by
        rcases List.mem_cons.mp hc with e | e
        · exact absurd (by rw [e]) hx
        · exact e
      have hd : decide (x.1.id ≠ c.1.id) = true := by simpa using hx
      rw [hd]
      simp only [if_true, List.map_cons, List.sum_cons]
      have := ih h.2 hcl
      omega

theorem EdgeOK.no_double_spend {v : EdgeV} (h : EdgeOK v) {a b : Core} (ha : a ∈ v.cores) (hb : b ∈ v.cores)
    {o : OutPt} (oa : o ∈ a.1.inputs) (ob : o ∈ b.1.inputs) : a = b :=
  core_ids_unique _ h.ids ha hb (nodup_keys_unique _ h.keys (h.recd a ha o oa) (h.recd b hb o ob))

@[simp] theorem decSt_cores (v : EdgeV) (st : Status) : (decSt v st).cores = v.cores := by cases st <;> rfl
@[simp] theorem decSt_inputs (v : EdgeV) (st : Status) : (decSt v st).inputs = v.inputs := by cases st <;> rfl
@[simp] theorem decSt_size (v : EdgeV) (st : Status) : (decSt v st).totalSize = v.totalSize := by cases st <;> rfl
@[simp] theorem decSt_cycles (v : EdgeV) (st : Status) : (decSt v st).totalCycles = v.totalCycles := by cases st <;> rfl
@[simp] theorem incSt_cores (v : EdgeV) (st : Status) : (incSt v st).cores = v.cores := by cases st <;> rfl
@[simp] theorem incSt_inputs (v : EdgeV) (st : Status) : (incSt v st).inputs = v.inputs := by cases st <;> rfl
@[simp] theorem incSt_size (v : EdgeV) (st : Status) : (incSt v st).totalSize = v.totalSize := by cases st <;> rfl
@[simp] theorem incSt_cycles (v : EdgeV) (st : Status) : (incSt v st).totalCycles = v.totalCycles := by cases st <;> rfl

theorem EdgeOK.rmV {v : EdgeV} (h : EdgeOK v) (id : Nat) : EdgeOK (rmV v id) := by
  unfold Pool.rmV
  cases hf : findCore v id with
  | none => exact h
  | some c =>
    obtain ⟨hc, hid⟩ := findCore_some hf
    simp only
    have hfilt : ∀ x, x ∈ v.cores.filter (·.1.id ≠ id) ↔ x ∈ v.cores ∧ x.1.id ≠ id := by
      intro x; simp [List.mem_filter]
    have hP : cntSt .pending (v.cores.filter (·.1.id ≠ id)) + (if c.2.1 = .pending then 1 else 0) = cntSt .pending v.cores := by
      rw [← hid]; exact sum_remove (fun c => if c.2.1 = .pending then 1 else 0) v.cores h.ids c hc
    have hG : cntSt .gap (v.cores.filter (·.1.id ≠ id)) + (if c.2.1 = .gap then 1 else 0) = cntSt .gap v.cores := by
      rw [← hid]; exact sum_remove (fun c => if c.2.1 = .gap then 1 else 0) v.cores h.ids c hc
    have hR : cntSt .proposed (v.cores.filter (·.1.id ≠ id)) + (if c.2.1 = .proposed then 1 else 0) = cntSt .proposed v.cores := by
      rw [← hid]; exact sum_remove (fun c => if c.2.1 = .proposed then 1 else 0) v.cores h.ids c hc
    have hS := sum_remove (fun c => c.1.size) v.cores h.ids c hc
    have hC := sum_remove (fun c => c.1.cycles) v.cores h.ids c hc
    rw [hid] at hS hC
    have e1 := h.cP; have e2 := h.cG; have e3 := h.cR
    constructor
    · intro x hx o ho
      simp only [decSt_cores, decSt_inputs] at hx ⊢
      obtain ⟨hxm, hne⟩ := (hfilt x).mp hx
      refine List.mem_filter.mpr ⟨h.recd x hxm o ho, ?_⟩
      simp only [decide_eq_true_eq]
      intro hoe
      exact hne ((h.no_double_spend hxm hc ho hoe) ▸ hid)
    · intro p hp
      simp only [decSt_cores, decSt_inputs] at hp ⊢
      obtain ⟨hpm, hpn⟩ := List.mem_filter.mp hp
      simp only [decide_eq_true_eq] at hpn
      obtain ⟨x, hxm, hxid, hxo⟩ := h.own p hpm
      refine ⟨x, (hfilt x).mpr ⟨hxm, ?_⟩, hxid, hxo⟩
      intro hxe
      have : x = c := core_ids_unique _ h.ids hxm hc (by rw [hxe, hid])
      exact hpn (this ▸ hxo)
    · simp only [decSt_inputs]
      exact List.Nodup.sublist (List.Sublist.map _ List.filter_sublist) h.keys
    · simp only [decSt_cores]
      exact List.Nodup.sublist (List.Sublist.map _ List.filter_sublist) h.ids
    · cases hst : c.2.1 <;> rw [hst] at hP hG hR <;> simp only [reduceCtorEq, ↓reduceIte] at hP hG hR <;> simp only [decSt] <;> omega
    · cases hst : c.2.1 <;> rw [hst] at hP hG hR <;> simp only [reduceCtorEq, ↓reduceIte] at hP hG hR <;> simp only [decSt] <;> omega
    · cases hst : c.2.1 <;> rw [hst] at hP hG hR <;> simp only [reduceCtorEq, ↓reduceIte] at hP hG hR <;> simp only [decSt] <;> omega
    · have := h.size
      simp only [decSt_size, decSt_cores]; omega
    · have := h.cycles
      simp only [decSt_cycles, decSt_cores]; omega


theorem cntSt_append (st : Status) (l : List Core) (c : Core) :
    cntSt st (l ++ [c]) = cntSt st l + (if c.2.1 = st then 1 else 0) := by
  simp [cntSt]

theorem EdgeOK.pushV {v : EdgeV} (h : EdgeOK v) {t : Tx} (hf : FreshV v t) (st : Status) (ts : Nat) :
    EdgeOK (pushV v t st ts) := by
  obtain ⟨hid, hc, hn⟩ := hf
  unfold Pool.pushV
  constructor
  · intro x hx o ho
    simp only [incSt_cores, incSt_inputs] at hx ⊢
    rcases List.mem_append.mp hx with hx | hx
    · exact List.mem_append.mpr (Or.inl (h.recd x hx o ho))
    · have : x = (t, st, ts) := by simpa using hx
      subst this
      exact List.mem_append.mpr (Or.inr (List.mem_map.mpr ⟨o, ho, rfl⟩))
  · intro p hp
    simp only [incSt_cores, incSt_inputs] at hp ⊢
    rcases List.mem_append.mp hp with hp | hp
    · obtain ⟨x, hx, a, b⟩ := h.own p hp
      exact ⟨x, List.mem_append.mpr (Or.inl hx), a, b⟩
    · obtain ⟨o, ho, rfl⟩ := List.mem_map.mp hp
      exact ⟨(t, st, ts), List.mem_append.mpr (Or.inr (by simp)), rfl, ho⟩
  · simp only [incSt_inputs]
    rw [List.map_append, List.map_map]
    have e2 : List.map ((fun x : OutPt × Nat => x.1) ∘ fun x => (x, t.id)) t.inputs = t.inputs := by
      show List.map (fun x => x) t.inputs = t.inputs
      simp
    rw [e2]
    refine List.nodup_append.mpr ⟨h.keys, hn, ?_⟩
    intro a ha b hb hab
    obtain ⟨p, hp, rfl⟩ := List.mem_map.mp ha
    exact hc b hb p hp hab
  · simp only [incSt_cores]
    rw [List.map_append]
    refine List.nodup_append.mpr ⟨h.ids, by simp, ?_⟩
    intro a ha b hb hab
    obtain ⟨x, hx, rfl⟩ := List.mem_map.mp ha
    have : b = t.id := by simpa using hb
    exact hid x hx (hab.trans this)
  · have := h.cP; have := h.cG; have := h.cR
    cases st <;> simp only [incSt, cntSt_append, reduceCtorEq, ↓reduceIte] <;> omega
  · have := h.cP; have := h.cG; have := h.cR
    cases st <;> simp only [incSt, cntSt_append, reduceCtorEq, ↓reduceIte] <;> omega
  · have := h.cP; have := h.cG; have := h.cR
    cases st <;> simp only [incSt, cntSt_append, reduceCtorEq, ↓reduceIte] <;> omega
  · have := h.size
    simp only [incSt_size, incSt_cores, List.map_append, List.sum_append, List.map_cons, List.map_nil, List.sum_cons,
      List.sum_nil]
    omega
  · have := h.cycles
    simp only [incSt_cycles, incSt_cores, List.map_append, List.sum_append, List.map_cons, List.map_nil, List.sum_cons,
      List.sum_nil]
    omega

theorem le_sum_of_mem (f : Core → Nat) (l : List Core) (c : Core) (hc : c ∈ l) : f c ≤ (l.map f).sum := by
  induction l with
  | nil => cases hc
  | cons x l ih =>
    simp only [List.map_cons, List.sum_cons]
    rcases List.mem_cons.mp hc with e | e
    · rw [e]; omega
    · have := ih e; omega

/-- changing the status of the (unique) element with a given id, inside a sum -/
theorem sum_set (f : Core → Nat) (l : List Core) (h : (l.map (·.1.id)).Nodup) (c : Core) (hc : c ∈ l) (st : Status) :
    ((l.map fun x => if x.1.id = c.1.id then (x.1, st, x.2.2) else x).map f).sum + f c
      = (l.map f).sum + f (c.1, st, c.2.2) := by
  induction l with
  | nil => cases hc
  | cons x l ih =>
    simp only [List.map_cons, List.nodup_cons] at h
    simp only [List.map_cons, List.sum_cons]
    by_cases hx : x.1.id = c.1.id
    · have hxc : x = c := by
        rcases List.mem_cons.mp hc with e | e
        · exact e.symm
        · exact absurd (List.mem_map.mpr ⟨c, e, hx.symm⟩) h.1
      subst hxc
      have hl : (l.map fun y => if y.1.id = x.1.id then (y.1, st, y.2.2) else y) = l := by
        conv => rhs; rw [← List.map_id l]
        apply List.map_congr_left
        intro a ha
        have : a.1.id ≠ x.1.id := fun e => h.1 (List.mem_map.mpr ⟨a, ha, e⟩)
        simp [this]
      rw [hl]; simp only [if_true]; omega
    · have hcl : c ∈ l := by
        rcases List.mem_cons.mp hc with e | e
        · exact absurd (by rw [e]) hx
        · exact e
      have := ih h.2 hcl
      simp only [hx, if_false]; omega

theorem EdgeOK.setV {v : EdgeV} (h : EdgeOK v) (id : Nat) (st : Status) : EdgeOK (setV v id st) := by
  unfold Pool.setV
  cases hf : findCore v id with
  | none => exact h
  | some c =>
    obtain ⟨hc, hid⟩ := findCore_some hf
    simp only
    have hmem : ∀ y, y ∈ (v.cores.map fun x => if x.1.id = id then (x.1, st, x.2.2) else x) →
        ∃ x ∈ v.cores, y.1 = x.1 := by
      intro y hy
      obtain ⟨x, hx, rfl⟩ := List.mem_map.mp hy
      refine ⟨x, hx, ?_⟩
      split <;> rfl
    have hmap1 : (v.cores.map fun x => if x.1.id = id then (x.1, st, x.2.2) else x).map (·.1.id) = v.cores.map (·.1.id) := by
      rw [List.map_map]; apply List.map_congr_left; intro a _; simp only [Function.comp]; split <;> rfl
    have hS (f : Core → Nat) := sum_set f v.cores h.ids c hc st
    rw [hid] at hS
    have e1 := h.cP; have e2 := h.cG; have e3 := h.cR
    have hP : cntSt .pending (v.cores.map fun x => if x.1.id = id then (x.1, st, x.2.2) else x) + (if c.2.1 = .pending then 1 else 0)
        = cntSt .pending v.cores + (if st = .pending then 1 else 0) := hS _
    have hG : cntSt .gap (v.cores.map fun x => if x.1.id = id then (x.1, st, x.2.2) else x) + (if c.2.1 = .gap then 1 else 0)
        = cntSt .gap v.cores + (if st = .gap then 1 else 0) := hS _
    have hR : cntSt .proposed (v.cores.map fun x => if x.1.id = id then (x.1, st, x.2.2) else x) + (if c.2.1 = .proposed then 1 else 0)
        = cntSt .proposed v.cores + (if st = .proposed then 1 else 0) := hS _
    have hSz := hS (fun c => c.1.size)
    have hCy := hS (fun c => c.1.cycles)
    have lP : (if c.2.1 = .pending then 1 else 0) ≤ cntSt .pending v.cores := le_sum_of_mem (fun c => if c.2.1 = .pending then 1 else 0) v.cores c hc
    have lG : (if c.2.1 = .gap then 1 else 0) ≤ cntSt .gap v.cores := le_sum_of_mem (fun c => if c.2.1 = .gap then 1 else 0) v.cores c hc
    have lR : (if c.2.1 = .proposed then 1 else 0) ≤ cntSt .proposed v.cores := le_sum_of_mem (fun c => if c.2.1 = .proposed then 1 else 0) v.cores c hc
    dsimp only at hSz hCy
    constructor
    · intro y hy o ho
      simp only [incSt_cores, decSt_cores, incSt_inputs, decSt_inputs] at hy ⊢
      obtain ⟨x, hx, e⟩ := hmem y hy
      rw [e] at ho ⊢
      exact h.recd x hx o ho
    · intro p hp
      simp only [incSt_cores, decSt_cores, incSt_inputs, decSt_inputs] at hp ⊢
      obtain ⟨x, hx, a, b⟩ := h.own p hp
      refine ⟨_, List.mem_map.mpr ⟨x, hx, rfl⟩, ?_, ?_⟩ <;> (split <;> assumption)
    · simpa using h.keys
    · simp only [incSt_cores, decSt_cores]; rw [hmap1]; exact h.ids
    · cases hst : c.2.1 <;> rw [hst] at hP hG hR lP lG lR <;> cases st <;>
        simp only [reduceCtorEq, ↓reduceIte] at hP hG hR lP lG lR <;> simp only [incSt, decSt] <;> omega
    · cases hst : c.2.1 <;> rw [hst] at hP hG hR lP lG lR <;> cases st <;>
        simp only [reduceCtorEq, ↓reduceIte] at hP hG hR lP lG lR <;> simp only [incSt, decSt] <;> omega
    · cases hst : c.2.1 <;> rw [hst] at hP hG hR lP lG lR <;> cases st <;>
        simp only [reduceCtorEq, ↓reduceIte] at hP hG hR lP lG lR <;> simp only [incSt, decSt] <;> omega
    · simp only [incSt_size, decSt_size, incSt_cores, decSt_cores]
      rw [h.size]; exact (Nat.add_right_cancel hSz).symm
    · simp only [incSt_cycles, decSt_cycles, incSt_cores, decSt_cores]
      rw [h.cycles]; exact (Nat.add_right_cancel hCy).symm

theorem EdgeOK.reach {v w : EdgeV} (h : EdgeOK v) (r : EReach v w) : EdgeOK w := by
  induction r with
  | refl => exact h
  | rm id _ ih => exact ih.rmV id
  | push t st ts _ hf ih => exact ih.pushV hf st ts
  | set id st _ ih => exact ih.setV id st


/-! ## refinement: the model's operations are sequences of abstract operations -/

@[simp] theorem subDesc_core (w : W) (e : Entry) : (subDesc w e).core = e.core := rfl
@[simp] theorem addDesc_core (w : W) (e : Entry) : (addDesc w e).core = e.core := rfl
@[simp] theorem subAnc_core (w : W) (e : Entry) : (subAnc w e).core = e.core := rfl
@[simp] theorem addAnc_core (w : W) (e : Entry) : (addAnc w e).core = e.core := rfl

theorem modEntries_cores (ids : List Nat) (f : Entry → Entry) (hf : ∀ e, (f e).core = e.core) (es : List Entry) :
    (modEntries ids f es).map Entry.core = es.map Entry.core := by
  induction es with
  | nil => rfl
  | cons e es ih =>
    simp only [modEntries, List.map_cons] at ih ⊢
    rw [ih]
    by_cases h : e.tx.id ∈ ids <;> simp [h, hf]

theorem rebuild_cores (s : Pool) (ids : List Nat) : (rebuild s ids).entries.map Entry.core = s.entries.map Entry.core := by
  simp only [rebuild, List.map_map]
  apply List.map_congr_left; intro e _; simp only [Function.comp]; split <;> rfl

theorem edge_rebuild (s : Pool) (ids : List Nat) : edge (rebuild s ids) = edge s := by
  ext <;> first | rfl | (simp only [edge]; rw [rebuild_cores])

theorem findCore_edge (s : Pool) (id : Nat) : findCore (edge s) id = (getEntry s id).map Entry.core := by
  simp only [findCore, edge, getEntry, List.find?_map]
  rfl

theorem edge_track_dec (s : Pool) (st : Status) : edge (track s (some st) none) = decSt (edge s) st := by
  cases st <;> rfl

theorem edge_track_inc (s : Pool) (st : Status) : edge (track s none (some st)) = incSt (edge s) st := by
  cases st <;> rfl

theorem edge_removeEntry (s : Pool) (id : Nat) : edge (removeEntry s id).1 = rmV (edge s) id := by
  unfold rmV
  rw [findCore_edge]
  cases hg : getEntry s id with
  | none => rw [removeEntry_none s id hg]; rfl
  | some e =>
    simp only [Option.map_some]
    have hfm : ∀ l : List Entry, (l.filter (·.tx.id ≠ id)).map Entry.core = (l.map Entry.core).filter (·.1.id ≠ id) := by
      intro l; rw [List.filter_map]; rfl
    obtain ⟨tx, st, ts, anc, desc⟩ := e
    by_cases hc : (isBetween s.links id && s.cfg.fixMid) = true
    · simp only [removeEntry, hg, hc, if_true, removeEdges]
      refine EdgeV.ext ?_ ?_ ?_ ?_ ?_ ?_ ?_
      · simp only [edge, decSt_cores, track_entries]
        rw [rebuild_cores]
        exact hfm _
      all_goals (cases st <;> rfl)
    · simp only [removeEntry, hg, hc, removeEdges]
      simp only [Bool.false_eq_true, if_false]
      refine EdgeV.ext ?_ ?_ ?_ ?_ ?_ ?_ ?_
      · simp only [edge, decSt_cores, track_entries]
        rw [modEntries_cores _ _ (by simp), modEntries_cores _ _ (by simp)]
        exact hfm _
      all_goals (cases st <;> rfl)

theorem EReach.foldRm (v : EdgeV) (ids : List Nat) : EReach v (ids.foldl rmV v) := by
  suffices ∀ w, EReach v w → EReach v (ids.foldl rmV w) from this v (.refl v)
  induction ids with
  | nil => exact fun _ h => h
  | cons a l ih => exact fun w h => ih _ (.rm a h)

/-- removals only shrink -/
def ShrinksV (w v : EdgeV) : Prop := (∀ p ∈ w.inputs, p ∈ v.inputs) ∧ (∀ c ∈ w.cores, c ∈ v.cores)

theorem ShrinksV.refl (v : EdgeV) : ShrinksV v v := ⟨fun _ h => h, fun _ h => h⟩
theorem ShrinksV.trans {a b c : EdgeV} (h1 : ShrinksV a b) (h2 : ShrinksV b c) : ShrinksV a c :=
  ⟨fun p h => h2.1 p (h1.1 p h), fun t h => h2.2 t (h1.2 t h)⟩

theorem rmV_shrinks (v : EdgeV) (id : Nat) : ShrinksV (rmV v id) v := by
  unfold rmV
  cases findCore v id with
  | none => exact ShrinksV.refl v
  | some c =>
    refine ⟨fun p hp => ?_, fun x hx => ?_⟩
    · simp only [decSt_inputs] at hp; exact (List.mem_filter.mp hp).1
    · simp only [decSt_cores] at hx; exact (List.mem_filter.mp hx).1

theorem foldRm_shrinks (ids : List Nat) (v : EdgeV) : ShrinksV (ids.foldl rmV v) v := by
  induction ids generalizing v with
  | nil => exact ShrinksV.refl v
  | cons a l ih => exact (ih _).trans (rmV_shrinks v a)

theorem FreshV.mono {v w : EdgeV} {t : Tx} (h : FreshV v t) (hs : ShrinksV w v) : FreshV w t :=
  ⟨fun c hc => h.1 c (hs.2 c hc), fun o ho p hp => h.2.1 o ho p (hs.1 p hp), h.2.2⟩

/-- after `rmV v id` (and any further removals) no entry with that id is left -/
theorem rmV_gone (v : EdgeV) (id : Nat) : ∀ c ∈ (rmV v id).cores, c.1.id ≠ id := by
  unfold rmV
  cases hf : findCore v id with
  | none => exact findCore_none hf
  | some c =>
    intro x hx
    simp only [decSt_cores] at hx
    simpa using (List.mem_filter.mp hx).2

theorem edge_links (s : Pool) (L : LinkMap) : edge { s with links := L } = edge s := rfl

theorem edge_preSub (s : Pool) (ids : List Nat) : edge (preSubDescendants s ids) = edge s := by
  unfold preSubDescendants
  induction ids generalizing s with
  | nil => rfl
  | cons a l ih =>
    simp only [List.foldl_cons]
    cases hg : getEntry s a with
    | none => exact ih s
    | some e =>
      simp only
      rw [ih]
      refine EdgeV.ext ?_ rfl rfl rfl rfl rfl rfl
      simp only [edge]
      exact modEntries_cores _ _ (by simp) _

theorem edge_foldRemove (ids : List Nat) (s : Pool) (acc : List Entry) :
    edge (ids.foldl (fun (acc : Pool × List Entry) rid =>
      match removeEntry acc.1 rid with
      | (s', some e) => (s', acc.2 ++ [e])
      | (s', none) => (s', acc.2)) (s, acc)).1 = ids.foldl rmV (edge s) := by
  induction ids generalizing s acc with
  | nil => rfl
  | cons a l ih =>
    simp only [List.foldl_cons]
    have h1 := edge_removeEntry s a
    rcases hre : removeEntry s a with ⟨s', oe⟩
    rw [hre] at h1
    cases oe with
    | none => simp only; rw [ih, h1]
    | some e => simp only; rw [ih, h1]

/-- the ids `remove_entry_and_descendants` removes -/
def rmdIds (s : Pool) (id : Nat) : List Nat := id :: (calcDesc s.links id).filter (· ≠ id)

theorem edge_removeWithDesc (s : Pool) (id : Nat) :
    edge (removeWithDesc s id).1 = (rmdIds s id).foldl rmV (edge s) := by
  unfold removeWithDesc rmdIds
  simp only
  refine (edge_foldRemove _ _ _).trans ?_
  congr 1
  split
  · exact edge_preSub s _
  · rfl

theorem foldAnc_core (s : Pool) (l : List Nat) (x : Entry) :
    (l.foldl (fun e a => match getEntry s a with
      | some x => addAnc x.tx.w e
      | none => e) x).core = x.core := by
  induction l generalizing x with
  | nil => rfl
  | cons y l ih =>
    simp only [List.foldl_cons]
    rw [ih]
    cases getEntry s y <;> rfl

theorem recordAncestors_edge {s s' : Pool} {e e' : Entry} {a p : List Nat}
    (h : recordAncestors s e a p = some (s', e')) : edge s' = edge s ∧ e'.core = e.core := by
  unfold recordAncestors at h
  split at h
  · simp only [Option.some.injEq, Prod.mk.injEq] at h
    obtain ⟨hs, he⟩ := h
    subst hs
    exact ⟨rfl, by rw [← he]; exact foldAnc_core s a e⟩
  · cases h

theorem evictLoop_edge (cands : List Nat) (s : Pool) (cnt : Nat) (parents ev : List Nat) :
    ∃ ids : List Nat, edge (evictLoop cands s cnt parents ev).1 = ids.foldl rmV (edge s) := by
  induction cands generalizing s cnt parents ev with
  | nil => exact ⟨[], rfl⟩
  | cons c l ih =>
    unfold evictLoop
    split
    · obtain ⟨ids, h⟩ := ih (removeWithDesc s c).1 (cnt - 1) (parents.filter (· ≠ c)) (ev ++ idsOf (removeWithDesc s c).2)
      refine ⟨rmdIds s c ++ ids, ?_⟩
      rw [h, edge_removeWithDesc, List.foldl_append]
    · exact ⟨[], rfl⟩

def AncGoodV (s : Pool) (e : Entry) : AncRes → Prop
  | .ok s' e' _ => (∃ ids : List Nat, edge s' = ids.foldl rmV (edge s)) ∧ e'.core = e.core
  | .panic s' => ∃ ids : List Nat, edge s' = ids.foldl rmV (edge s)
  | .rejAfter s' => ∃ ids : List Nat, edge s' = ids.foldl rmV (edge s)
  | .rej => True

theorem recordAncestors_goodV {s s0 : Pool} (hs : ∃ ids : List Nat, edge s = ids.foldl rmV (edge s0)) (e : Entry) (a p ev : List Nat) :
    AncGoodV s0 e (match recordAncestors s e a p with
      | some (s', e') => AncRes.ok s' e' ev
      | none => AncRes.panic s) := by
  cases hr : recordAncestors s e a p with
  | none => exact hs
  | some r =>
    obtain ⟨s', e'⟩ := r
    obtain ⟨x, y⟩ := recordAncestors_edge hr
    exact ⟨by rw [x]; exact hs, y⟩

theorem checkAnc_edge (s : Pool) (e : Entry) : AncGoodV s e (checkAndRecordAncestors s e) := by
  unfold checkAndRecordAncestors
  simp only
  split
  · exact recordAncestors_goodV ⟨[], rfl⟩ e _ _ _
  · split
    · have hl := evictLoop_edge
        (((byEvictKey s.entries).filter (·.tx.id ∈ (txAncestors s e.tx).2.2)).map (·.tx.id)) s
        ((txAncestors s e.tx).1.length + 1) (txAncestors s e.tx).2.1 []
      split
      · exact hl
      · split
        · exact recordAncestors_goodV hl e _ _ _
        · exact hl
    · trivial

theorem edge_recordDescendants (s : Pool) (e : Entry) : edge (recordDescendants s e) = edge s := by
  unfold recordDescendants
  simp only
  split
  · refine EdgeV.ext ?_ rfl rfl rfl rfl rfl rfl
    simp only [edge]; exact modEntries_cores _ _ (by simp) _
  · split
    · exact edge_rebuild _ _
    · refine EdgeV.ext ?_ rfl rfl rfl rfl rfl rfl
      simp only [edge]
      rw [modEntries_cores _ _ (by simp), modEntries_cores _ _ (by simp)]

theorem freshV_of_checks {s : Pool} {t : Tx} (hdup : getEntry s t.id = none) (hconf : conflictIds s t = [])
    (hn : t.inputs.Nodup) : FreshV (edge s) t := by
  refine ⟨?_, conflictIds_nil hconf, hn⟩
  intro c hc
  obtain ⟨e, he, rfl⟩ := List.mem_map.mp hc
  exact getEntry_none hdup e.tx (List.mem_map.mpr ⟨e, he, rfl⟩)

theorem edge_addEntry (s : Pool) (t : Tx) (st : Status) (ts : Nat) :
    EReach (edge s) (edge (addEntry s t st ts).1) := by
  unfold addEntry
  split
  · exact .refl _
  · rename_i hdup
    split
    · exact .refl _
    · rename_i hconf
      have hg := checkAnc_edge s (Entry.fresh t st ts)
      split
      · exact .refl _
      · rename_i s' heq; rw [heq] at hg; obtain ⟨ids, h⟩ := hg; rw [h]; exact EReach.foldRm _ _
      · rename_i s' heq; rw [heq] at hg; obtain ⟨ids, h⟩ := hg; rw [h]; exact EReach.foldRm _ _
      · rename_i s1 e ev heq
        rw [heq] at hg
        obtain ⟨⟨ids, h1⟩, hcore⟩ := hg
        simp only [Bool.not_eq_true, Option.isSome_eq_false_iff, Option.isNone_iff_eq_none] at hdup
        simp only [Bool.or_eq_true, Bool.not_eq_eq_eq_not, Bool.not_true, List.isEmpty_eq_false_iff, ne_eq,
          decide_eq_false_iff_not, not_or, Decidable.not_not] at hconf
        have hfresh : FreshV (edge s1) t := by
          rw [h1]
          exact (freshV_of_checks hdup hconf.1 hconf.2).mono (foldRm_shrinks ids _)
        have hfin : edge ({ track (recordDescendants ({ recordEdges s1 t with entries := (recordEdges s1 t).entries ++ [e] }) e) none (some st) with
            totalSize := (track (recordDescendants ({ recordEdges s1 t with entries := (recordEdges s1 t).entries ++ [e] }) e) none (some st)).totalSize + t.size,
            totalCycles := (track (recordDescendants ({ recordEdges s1 t with entries := (recordEdges s1 t).entries ++ [e] }) e) none (some st)).totalCycles + t.cycles })
            = pushV (edge s1) t st ts := by
          have hrd := edge_recordDescendants ({ recordEdges s1 t with entries := (recordEdges s1 t).entries ++ [e] }) e
          have hcore' : e.core = (t, st, ts) := hcore
          have hinc := edge_track_inc (recordDescendants ({ recordEdges s1 t with entries := (recordEdges s1 t).entries ++ [e] }) e) st
          rw [hrd] at hinc
          unfold pushV
          cases st <;>
            (refine EdgeV.ext ?_ ?_ ?_ ?_ ?_ ?_ ?_ <;>
              first
              | (have := congrArg EdgeV.cores hinc; simp only [edge, incSt_cores, recordEdges, List.map_append, List.map_cons, List.map_nil, hcore'] at this ⊢; exact this)
              | (have := congrArg EdgeV.inputs hinc; exact this)
              | (have := congrArg EdgeV.pending hinc; exact this)
              | (have := congrArg EdgeV.gap hinc; exact this)
              | (have := congrArg EdgeV.proposed hinc; exact this)
              | (have := congrArg EdgeV.totalSize hinc; simp only [edge] at this ⊢; rw [this]; rfl)
              | (have := congrArg EdgeV.totalCycles hinc; simp only [edge] at this ⊢; rw [this]; rfl))
        rw [hfin]
        exact .push t st ts (by rw [h1]; exact EReach.foldRm _ _) hfresh

theorem edge_setEntry (s : Pool) (id : Nat) (st : Status) : edge (setEntry s id st) = setV (edge s) id st := by
  unfold setEntry setV
  rw [findCore_edge]
  cases hg : getEntry s id with
  | none => rfl
  | some e =>
    simp only [Option.map_some]
    obtain ⟨tx, st0, ts, anc, desc⟩ := e
    refine EdgeV.ext ?_ ?_ ?_ ?_ ?_ ?_ ?_
    · simp only [edge, incSt_cores, decSt_cores, track_entries, List.map_map]
      apply List.map_congr_left; intro x _; simp only [Function.comp]
      show Entry.core (if x.tx.id = id then { x with status := st } else x)
        = if x.tx.id = id then (x.tx, st, x.ts) else x.core
      split <;> rfl
    all_goals (cases st0 <;> cases st <;> rfl)

theorem EReach.foldRmd (ids : List Nat) (s : Pool) (acc : List Nat) :
    EReach (edge s) (edge (ids.foldl (fun (acc : Pool × List Nat) id =>
      let r := removeWithDesc acc.1 id
      (r.1, acc.2 ++ idsOf r.2)) (s, acc)).1) := by
  induction ids generalizing s acc with
  | nil => exact .refl _
  | cons a l ih =>
    simp only [List.foldl_cons]
    refine EReach.trans ?_ (ih _ _)
    rw [edge_removeWithDesc]; exact EReach.foldRm _ _

theorem edge_resolveHeaders (s : Pool) (hs : List Nat) : EReach (edge s) (edge (resolveHeaders s hs).1) := by
  unfold resolveHeaders; exact EReach.foldRmd _ s []

theorem edge_limitLoop (f : Nat) (s : Pool) (ev : List Nat) : EReach (edge s) (edge (limitLoop f s ev).1) := by
  induction f generalizing s ev with
  | zero => exact .refl _
  | succ n ih =>
    unfold limitLoop
    split
    · split
      · refine EReach.trans ?_ (ih _ _)
        rw [edge_removeWithDesc]; exact EReach.foldRm _ _
      · exact .refl _
    · exact .refl _

theorem edge_removeExpired (order : List Nat) (s : Pool) : EReach (edge s) (edge (removeExpired s order)) := by
  unfold removeExpired
  induction order generalizing s with
  | nil => exact .refl _
  | cons a l ih =>
    simp only [List.foldl_cons]
    refine EReach.trans ?_ (ih _)
    rw [edge_removeWithDesc]; exact EReach.foldRm _ _

theorem edge_foldAdd (l : List Entry) (s : Pool) :
    EReach (edge s) (edge (l.foldl (fun s x => (addEntry s x.tx .pending x.ts).1) s)) := by
  induction l generalizing s with
  | nil => exact .refl _
  | cons a l ih => simp only [List.foldl_cons]; exact (edge_addEntry s _ _ _).trans (ih _)

theorem edge_detach (ids : List Nat) (s : Pool) : EReach (edge s) (edge (detachProposals s ids)) := by
  unfold detachProposals
  induction ids generalizing s with
  | nil => exact .refl _
  | cons a l ih =>
    simp only [List.foldl_cons]
    refine EReach.trans ?_ (ih _)
    split
    · exact .refl _
    · split
      · exact .refl _
      · refine EReach.trans ?_ (edge_foldAdd _ _)
        rw [edge_removeWithDesc]; exact EReach.foldRm _ _

theorem edge_submit (s : Pool) (t : Tx) (st : Status) (ts : Nat) : EReach (edge s) (edge (submit s t st ts).1) := by
  unfold submit
  simp only
  split
  · exact .refl _
  · rename_i conflicts _
    have h1 := EReach.foldRmd conflicts s []
    generalize (conflicts.foldl (fun (acc : Pool × List Nat) c =>
      let r := removeWithDesc acc.1 c
      (r.1, acc.2 ++ idsOf r.2)) (s, [])) = r at h1
    obtain ⟨s1, replaced⟩ := r
    simp only
    have h2 := edge_addEntry s1 t st ts
    split
    · rename_i s2 ev heq
      rw [heq] at h2
      have h3 := edge_limitLoop (s2.entries.length + 1) s2 []
      change EReach (edge s2) (edge (limitSize s2).1) at h3
      generalize limitSize s2 = q at h3
      obtain ⟨s3, lim⟩ := q
      simp only
      split <;> exact (h1.trans h2).trans h3
    · rename_i s2 r _ heq
      rw [heq] at h2
      exact h1.trans h2

/-! ## commit: `resolve_conflict` strips the input edge first -/

theorem rmV_strip_comm (v : EdgeV) (i : OutPt) (id : Nat) : rmV (stripV v i) id = stripV (rmV v id) i := by
  unfold rmV
  have : findCore (stripV v i) id = findCore v id := rfl
  rw [this]
  cases findCore v id with
  | none => rfl
  | some c =>
    simp only
    cases c.2.1 <;> simp only [decSt, stripV, List.filter_filter, Bool.and_comm]

theorem foldRm_strip_comm (ids : List Nat) (v : EdgeV) (i : OutPt) :
    ids.foldl rmV (stripV v i) = stripV (ids.foldl rmV v) i := by
  induction ids generalizing v with
  | nil => rfl
  | cons a l ih => simp only [List.foldl_cons]; rw [rmV_strip_comm, ih]

theorem strip_absent (v : EdgeV) (i : OutPt) (h : ∀ p ∈ v.inputs, p.1 ≠ i) : stripV v i = v := by
  refine EdgeV.ext rfl ?_ rfl rfl rfl rfl rfl
  simp only [stripV]
  apply List.filter_eq_self.mpr
  intro p hp; simpa using h p hp

/-- two-phase step: strip the edge `i -> id`, then remove `id` (and anything else): the result is the
    plain removal sequence, because once its owner is gone nobody holds the key `i` -/
theorem strip_then_remove {v : EdgeV} (h : EdgeOK v) {i : OutPt} {id : Nat} (hi : (i, id) ∈ v.inputs) (rest : List Nat) :
    (id :: rest).foldl rmV (stripV v i) = (id :: rest).foldl rmV v := by
  rw [foldRm_strip_comm]
  apply strip_absent
  intro p hp hpi
  have hok : EdgeOK ((id :: rest).foldl rmV v) := h.reach (EReach.foldRm _ _)
  have hsub := foldRm_shrinks (id :: rest) v
  have hpv := hsub.1 p hp
  have hp2 : p.2 = id := by
    have : (i, p.2) ∈ v.inputs := by rw [← hpi]; exact hpv
    exact nodup_keys_unique _ h.keys this hi
  obtain ⟨c, hc, hcid, _⟩ := hok.own p hp
  have hc' : c ∈ (rest.foldl rmV (rmV v id)).cores := hc
  have := rmV_gone v id c ((foldRm_shrinks rest _).2 c hc')
  exact this (hcid.trans hp2)

theorem inputUser_mem {s : Pool} {i : OutPt} {id : Nat} (h : inputUser s i = some id) : (i, id) ∈ s.inputs := by
  unfold inputUser at h
  simp only [Option.map_eq_some_iff] at h
  obtain ⟨p, hp, rfl⟩ := h
  have hm := List.mem_of_find?_eq_some hp
  have hk : p.1 = i := by simpa using List.find?_some hp
  rw [← hk]; exact hm

theorem edge_resolveConflict (t : Tx) (s : Pool) (h : EdgeOK (edge s)) :
    EReach (edge s) (edge (resolveConflict s t).1) := by
  unfold resolveConflict
  suffices ∀ (l : List OutPt) (s0 : Pool) (acc0 : List Nat), EdgeOK (edge s0) →
      EReach (edge s0) (edge (l.foldl (fun (acc : Pool × List Nat) i =>
        let s := acc.1
        let acc := match inputUser s i with
          | some id =>
            let r := removeWithDesc { s with inputs := s.inputs.filter (·.1 ≠ i) } id
            (r.1, acc.2 ++ idsOf r.2)
          | none => acc
        let users := depUsers acc.1 i
        let s := { acc.1 with deps := acc.1.deps.filter (·.1 ≠ i) }
        users.foldl (fun (acc : Pool × List Nat) id =>
          let r := removeWithDesc acc.1 id
          (r.1, acc.2 ++ idsOf r.2)) (s, acc.2)) (s0, acc0)).1) from this _ s [] h
  intro l
  induction l with
  | nil => exact fun _ _ _ => .refl _
  | cons i l ih =>
    intro s0 acc0 h0
    simp only [List.foldl_cons]
    -- first half
    have step1 : ∃ s1 a1, (match inputUser s0 i with
          | some id =>
            let r := removeWithDesc { s0 with inputs := s0.inputs.filter (·.1 ≠ i) } id
            (r.1, acc0 ++ idsOf r.2)
          | none => (s0, acc0)) = (s1, a1) ∧ EReach (edge s0) (edge s1) := by
      cases hu : inputUser s0 i with
      | none => exact ⟨s0, acc0, rfl, .refl _⟩
      | some id =>
        refine ⟨_, _, rfl, ?_⟩
        rw [edge_removeWithDesc]
        have e1 : edge { s0 with inputs := s0.inputs.filter (·.1 ≠ i) } = stripV (edge s0) i := rfl
        have e2 : rmdIds { s0 with inputs := s0.inputs.filter (·.1 ≠ i) } id = id :: (calcDesc s0.links id).filter (· ≠ id) := rfl
        rw [e1, e2, strip_then_remove h0 (inputUser_mem hu)]
        exact EReach.foldRm _ _
    obtain ⟨s1, a1, heq, hr1⟩ := step1
    simp only at heq ⊢
    rw [heq]
    simp only
    have hr2 := EReach.foldRmd (depUsers s1 i) { s1 with deps := s1.deps.filter (·.1 ≠ i) } a1
    have e3 : edge { s1 with deps := s1.deps.filter (·.1 ≠ i) } = edge s1 := rfl
    rw [e3] at hr2
    have h2 := (h0.reach hr1).reach hr2
    exact (hr1.trans hr2).trans (ih _ _ h2)

theorem edge_commitTx (s : Pool) (t : Tx) (h : EdgeOK (edge s)) : EReach (edge s) (edge (commitTx s t).1) := by
  unfold commitTx
  have h1 : EReach (edge s) (edge (removeEntry s t.id).1) := by rw [edge_removeEntry]; exact .rm _ (.refl _)
  exact h1.trans (edge_resolveConflict t _ (h.reach h1))

open CkbVerif.C11 in
/-- every operation, seen through `edge`, is a sequence of abstract operations -/
theorem edge_step (s : Pool) (op : Op) (h : EdgeOK (edge s)) : EReach (edge s) (edge (step s op)) := by
  cases op with
  | add t st ts => exact edge_addEntry s t st ts
  | rm id => show EReach _ (edge (removeEntry s id).1); rw [edge_removeEntry]; exact .rm id (.refl _)
  | rmd id => show EReach _ (edge (removeWithDesc s id).1); rw [edge_removeWithDesc]; exact EReach.foldRm _ _
  | set id st => show EReach _ (edge (setEntry s id st)); rw [edge_setEntry]; exact .set id st (.refl _)
  | commit t => exact edge_commitTx s t h
  | hdr hs => exact edge_resolveHeaders s hs
  | limit => exact edge_limitLoop _ s []
  | expire order => exact edge_removeExpired order s
  | detach ids => exact edge_detach ids s
  | submit t st ts => exact edge_submit s t st ts

open CkbVerif.C11 in
theorem edgeOK_step (s : Pool) (op : Op) (h : EdgeOK (edge s)) : EdgeOK (edge (step s op)) :=
  h.reach (edge_step s op h)

theorem edgeOK_empty (c : Cfg) (chain : List Nat) : EdgeOK (edge (C11.empty c chain)) :=
  ⟨fun _ h => (by cases h), fun _ h => (by cases h), List.nodup_nil, List.nodup_nil, rfl, rfl, rfl, rfl, rfl⟩

/-- the older formulation of the inputs clause follows -/
theorem EdgeOK.inputsOK {s : Pool} (h : EdgeOK (edge s)) : InputsOK s := by
  have hmem : ∀ t, t ∈ txs s ↔ ∃ c ∈ (edge s).cores, c.1 = t := by
    intro t
    simp only [txs, edge, List.mem_map]
    constructor
    · rintro ⟨e, he, rfl⟩; exact ⟨e.core, ⟨e, he, rfl⟩, rfl⟩
    · rintro ⟨c, ⟨e, he, rfl⟩, rfl⟩; exact ⟨e, he, rfl⟩
  constructor
  · intro t ht o ho
    obtain ⟨c, hc, rfl⟩ := (hmem t).mp ht
    exact h.recd c hc o ho
  · intro p hp
    obtain ⟨c, hc, a, b⟩ := h.own p hp
    exact ⟨c.1, (hmem _).mpr ⟨c, hc, rfl⟩, a, b⟩
  · exact h.keys
  · have : (txs s).map (·.id) = (edge s).cores.map (·.1.id) := by
      simp only [txs, edge, List.map_map]; rfl
    rw [this]; exact h.ids

end CkbVerif.Pool
