import CkbVerif.Lemmas.Selector

/-!
Helper lemmas for `selected_parents_first` (Props/C13.lean): a second loop invariant `Inv2` of the
model of `TxSelector::txs_to_commit`, preserved by every iteration next to `Inv`.

The argument, in words. Call an entry *exact on* the fetched set `F` when its (possibly modified)
`ancestors_count/size/cycles` equal the recomputation over its in-pool ancestors that are not in `F`.

* every occupant of `modified_entries` that is not in `failed_txs` is exact on `fetched_txs`
  (`update_modified_entries` subtracts every newly packaged ancestor exactly once);
* a proposed entry that is neither fetched, nor in `modified_entries`, nor in `failed_txs` has no
  fetched ancestor (otherwise `update_modified_entries` would have put it into `modified_entries`),
  so its pool aggregates are exact on `fetched_txs`;
* an entry in `failed_txs` failed admission while it was exact, i.e. its TRUE remaining package does
  not fit (or has a non-proposed ancestor); that stays true for ever (`Doomed`: whatever leaves the
  remaining package was added to the block) and is inherited by every descendant; occupants of
  `modified_entries` are never below the truth (`Covers`), so a doomed entry or a descendant of one
  is never admitted — hence every member of an admitted package is exact;
* inside a package the ancestors are sorted by an exact count, and an in-package ancestor of `x` has a
  strictly smaller exact count than `x`; the package's transaction comes last; members of earlier
  packages are never descendants of later ones because `fetched_txs` is ancestor-closed.

Core Lean only.
-/
namespace CkbVerif.Selector

/-! ### sums over duplicate-free sublists -/

theorem sumBy_erase (f : Nat → Nat) (l : List Nat) (x : Nat) (hx : x ∈ l) :
    sumBy f l = f x + sumBy f (l.erase x) := by
  induction l with
  | nil => simp at hx
  | cons a as ih =>
    by_cases h : a = x
    · subst h; simp [sumBy]
    · have hx' : x ∈ as := by
        rcases List.mem_cons.mp hx with h' | h'
        · exact absurd h'.symm h
        · exact h'
      have ih' := ih hx'
      have hbeq : (a == x) = false := by simpa using h
      simp only [sumBy, List.erase_cons, hbeq, List.map_cons, List.sum_cons] at ih' ⊢
      simp only [Bool.false_eq_true, if_false, List.map_cons, List.sum_cons]
      omega

theorem sumBy_le_of_nodup_subset (f : Nat → Nat) (l1 l2 : List Nat) (hnd : l1.Nodup)
    (hsub : ∀ a ∈ l1, a ∈ l2) : sumBy f l1 ≤ sumBy f l2 := by
  induction l1 generalizing l2 with
  | nil => simp [sumBy]
  | cons x xs ih =>
    simp only [List.nodup_cons] at hnd
    have hx : x ∈ l2 := hsub x List.mem_cons_self
    rw [sumBy_erase f l2 x hx]
    have := ih (l2.erase x) hnd.2 (fun a ha => by
      have hne : a ≠ x := fun h => hnd.1 (h ▸ ha)
      exact (List.mem_erase_of_ne hne).mpr (hsub a (List.mem_cons_of_mem _ ha)))
    simp only [sumBy, List.map_cons, List.sum_cons] at this ⊢
    omega

theorem restSum_congr (f : Nat → Nat) (X Y l : List Nat) (h : ∀ a ∈ l, a ∈ X ↔ a ∈ Y) :
    restSum f X l = restSum f Y l := by
  unfold restSum
  congr 1
  apply List.filter_congr
  intro a ha
  have := h a ha
  by_cases hx : a ∈ X
  · simp [hx, this.mp hx]
  · have hy : a ∉ Y := fun hy => hx (this.mpr hy)
    simp [hx, hy]

theorem restSum_not_mem (f : Nat → Nat) (X l : List Nat) (p : Nat) (hp : p ∉ l) :
    restSum f (p :: X) l = restSum f X l := by
  apply restSum_congr
  intro a ha
  have hne : a ≠ p := fun h => hp (h ▸ ha)
  simp [hne]

theorem restSum_subset (f : Nat → Nat) (X l1 l2 : List Nat) (hnd : l1.Nodup)
    (hsub : ∀ a ∈ l1, a ∈ l2) : restSum f X l1 ≤ restSum f X l2 := by
  unfold restSum
  apply sumBy_le_of_nodup_subset
  · exact List.Nodup.sublist List.filter_sublist hnd
  · intro a ha
    obtain ⟨h1, h2⟩ := List.mem_filter.mp ha
    exact List.mem_filter.mpr ⟨hsub a h1, h2⟩

theorem restSum_disjoint (f : Nat → Nat) (X l : List Nat) (h : ∀ a ∈ l, a ∉ X) :
    restSum f X l = sumBy f l := by
  rw [← restSum_nil f l]
  apply restSum_congr
  intro a ha
  simp [h a ha]

/-- an unfetched ancestor `y` of `x` and everything above it is part of what remains above `x` -/
theorem restSum_anc_le (f : Nat → Nat) (X lx ly : List Nat) (y : Nat) (hnd : lx.Nodup) (hndy : ly.Nodup)
    (hy : y ∈ lx) (hyX : y ∉ X) (hsub : ∀ b ∈ ly, b ∈ lx) (hirr : y ∉ ly) :
    f y + restSum f X ly ≤ restSum f X lx := by
  rw [restSum_cons_mem f X lx y hnd hy hyX, ← restSum_not_mem f X ly y hirr]
  have := restSum_subset f (y :: X) ly lx hndy hsub
  omega

theorem restSum_le_add_cons (f : Nat → Nat) (X l : List Nat) (p : Nat) (hl : l.Nodup) :
    restSum f X l ≤ f p + restSum f (p :: X) l := by
  by_cases hp : p ∈ l
  · by_cases hX : p ∈ X
    · have : restSum f (p :: X) l = restSum f X l := by
        apply restSum_congr
        intro a _
        constructor
        · intro h
          rcases List.mem_cons.mp h with rfl | h
          · exact hX
          · exact h
        · exact fun h => List.mem_cons_of_mem _ h
      omega
    · rw [restSum_cons_mem f X l p hl hp hX]; omega
  · rw [restSum_not_mem f X l p hp]; omega

theorem restSum_le_add_list (f : Nat → Nat) (K X l : List Nat) (hl : l.Nodup) :
    restSum f X l ≤ sumBy f K + restSum f (K ++ X) l := by
  induction K generalizing X with
  | nil => simp [sumBy]
  | cons p K ih =>
    have h1 := restSum_le_add_cons f X l p hl
    have h2 := ih (p :: X)
    have h3 : restSum f (K ++ p :: X) l = restSum f (p :: K ++ X) l := by
      apply restSum_congr
      intro a _
      simp only [List.cons_append, List.mem_append, List.mem_cons]
      constructor <;> rintro (h | h | h) <;> simp [h]
    simp only [sumBy, List.map_cons, List.sum_cons] at *
    rw [List.cons_append] at *
    omega

/-! ### exactness of (modified) entries -/

/-- the constant-one weight: `restSum one X l` counts the members of `l` outside `X` -/
def one : Nat → Nat := fun _ => 1

/-- the entry's `ancestors_count/size/cycles` equal the recomputation over its in-pool ancestors
    that are not in `X` -/
def ExactOn (v : View) (X : List Nat) (e : Entry) : Prop :=
  e.ancCount = 1 + restSum one X (v.anc e.id) ∧
  e.ancSize = e.size + restSum v.sizeOf X (v.anc e.id) ∧
  e.ancCycles = e.cycles + restSum v.cyclesOf X (v.anc e.id)

theorem ExactOn.congr {v : View} {X Y : List Nat} {e : Entry} (h : ExactOn v X e)
    (hXY : ∀ a ∈ v.anc e.id, a ∈ X ↔ a ∈ Y) : ExactOn v Y e := by
  obtain ⟨h1, h2, h3⟩ := h
  rw [restSum_congr one X Y _ hXY] at h1
  rw [restSum_congr v.sizeOf X Y _ hXY] at h2
  rw [restSum_congr v.cyclesOf X Y _ hXY] at h3
  exact ⟨h1, h2, h3⟩

theorem ExactOn.ext {v : View} {X : List Nat} {e : Entry} {p : Nat} (h : ExactOn v X e)
    (hp : p ∉ v.anc e.id) : ExactOn v (p :: X) e := by
  obtain ⟨h1, h2, h3⟩ := h
  refine ⟨?_, ?_, ?_⟩
  · rw [restSum_not_mem _ _ _ _ hp]; exact h1
  · rw [restSum_not_mem _ _ _ _ hp]; exact h2
  · rw [restSum_not_mem _ _ _ _ hp]; exact h3

theorem ExactOn.subAnc {v : View} {X : List Nat} {e p : Entry} (hnd : (v.anc e.id).Nodup)
    (hp : p.id ∈ v.anc e.id) (hX : p.id ∉ X) (hpg : Good v p) (hc : ExactOn v X e) :
    ExactOn v (p.id :: X) (e.subAnc p) := by
  obtain ⟨h1, h2, h3⟩ := hc
  rw [restSum_cons_mem one X _ p.id hnd hp hX] at h1
  rw [restSum_cons_mem v.sizeOf X _ p.id hnd hp hX] at h2
  rw [restSum_cons_mem v.cyclesOf X _ p.id hnd hp hX] at h3
  obtain ⟨_, hs, hcy⟩ := hpg
  show e.ancCount - 1 = 1 + restSum one (p.id :: X) (v.anc e.id) ∧
       e.ancSize - p.size = e.size + restSum v.sizeOf (p.id :: X) (v.anc e.id) ∧
       e.ancCycles - p.cycles = e.cycles + restSum v.cyclesOf (p.id :: X) (v.anc e.id)
  simp only [one] at h1 ⊢
  omega

theorem ExactOn.covers {v : View} {X : List Nat} {e : Entry} (h : ExactOn v X e) : Covers v X e := by
  obtain ⟨_, h2, h3⟩ := h
  exact ⟨by omega, by omega⟩

theorem sumBy_one (l : List Nat) : sumBy one l = l.length := by
  induction l with
  | nil => simp [sumBy]
  | cons a as ih => simp only [sumBy, one, List.map_cons, List.sum_cons, List.length_cons] at *; omega

theorem aggGe_of_exact {v : View} (hA : AggExact v) : AggGe v := by
  intro pe hpe
  obtain ⟨_, h2, h3, _⟩ := hA pe hpe
  exact ⟨by omega, by omega⟩

theorem exactOn_of_pool {v : View} (hA : AggExact v) {pe : PEntry} (hpe : pe ∈ v.ents) (X : List Nat)
    (hX : ∀ a ∈ v.anc pe.e.id, a ∉ X) : ExactOn v X pe.e := by
  obtain ⟨h1, h2, h3, _⟩ := hA pe hpe
  refine ⟨?_, ?_, ?_⟩
  · rw [restSum_disjoint _ _ _ hX, sumBy_one]; omega
  · rw [restSum_disjoint _ _ _ hX]; exact h2
  · rw [restSum_disjoint _ _ _ hX]; exact h3

/-! ### which ids `update_modified_entries` leaves in `modified_entries` -/

section ids
variable {v : View}

theorem updStep_ids (keys : List Nat) (p : Entry) (m : Mod) (d : Nat) :
    ∀ e ∈ m, ∃ e' ∈ updStep v keys p m d, e'.id = e.id := by
  intro e he
  unfold updStep
  split
  · exact ⟨e, he, rfl⟩
  · split
    · rename_i old hold
      obtain ⟨_, holdid⟩ := Mod.get_some hold
      by_cases hed : e.id = d
      · exact ⟨old.subAnc p, List.mem_cons_self, by show old.id = e.id; rw [holdid, hed]⟩
      · exact ⟨e, List.mem_cons_of_mem _ (Mod.mem_remove.mpr ⟨he, hed⟩), rfl⟩
    · split
      · exact ⟨e, List.mem_cons_of_mem _ he, rfl⟩
      · exact ⟨e, he, rfl⟩

theorem updStep_adds (keys : List Nat) (p : Entry) (m : Mod) (d : Nat)
    (hk : d ∉ keys) (hp : v.hasProposed d = true) :
    ∃ e' ∈ updStep v keys p m d, e'.id = d := by
  unfold updStep
  have hcond : ¬ ((keys.contains d || !v.hasProposed d) = true) := by simp [hk, hp]
  rw [if_neg hcond]
  split
  · rename_i old hold
    obtain ⟨_, holdid⟩ := Mod.get_some hold
    exact ⟨old.subAnc p, List.mem_cons_self, holdid⟩
  · obtain ⟨pe, hg, _⟩ := hasProposed_iff.mp hp
    rw [hg]
    exact ⟨pe.e.subAnc p, List.mem_cons_self, get_id hg⟩

theorem updFold_ids (keys : List Nat) (p : Entry) (ds : List Nat) (m : Mod) :
    ∀ e ∈ m, ∃ e' ∈ ds.foldl (updStep v keys p) m, e'.id = e.id := by
  induction ds generalizing m with
  | nil => intro e he; exact ⟨e, he, rfl⟩
  | cons d ds ih =>
    intro e he
    obtain ⟨e1, h1, hid1⟩ := updStep_ids (v := v) keys p m d e he
    obtain ⟨e2, h2, hid2⟩ := ih (updStep v keys p m d) e1 h1
    exact ⟨e2, h2, hid2.trans hid1⟩

theorem updFold_adds (keys : List Nat) (p : Entry) (ds : List Nat) (m : Mod) (d : Nat) (hd : d ∈ ds)
    (hk : d ∉ keys) (hp : v.hasProposed d = true) :
    ∃ e' ∈ ds.foldl (updStep v keys p) m, e'.id = d := by
  induction ds generalizing m with
  | nil => simp at hd
  | cons x ds ih =>
    simp only [List.foldl_cons]
    rcases List.mem_cons.mp hd with rfl | hd'
    · obtain ⟨e1, h1, hid1⟩ := updStep_adds (v := v) keys p m d hk hp
      obtain ⟨e2, h2, hid2⟩ := updFold_ids (v := v) keys p ds _ e1 h1
      exact ⟨e2, h2, hid2.trans hid1⟩
    · exact ih _ hd'

theorem updMod_ids (K : List Nat) (ps : List Entry) (m : Mod) :
    ∀ e ∈ m, ∃ e' ∈ ps.foldl (updateOne v K) m, e'.id = e.id := by
  induction ps generalizing m with
  | nil => intro e he; exact ⟨e, he, rfl⟩
  | cons p ps ih =>
    intro e he
    simp only [List.foldl_cons]
    obtain ⟨e1, h1, hid1⟩ := updFold_ids (v := v) K p (v.desc p.id) m e he
    rw [← updateOne_eq] at h1
    obtain ⟨e2, h2, hid2⟩ := ih _ e1 h1
    exact ⟨e2, h2, hid2.trans hid1⟩

theorem updMod_adds (K : List Nat) (ps : List Entry) (m : Mod) (p : Entry) (hp : p ∈ ps) (d : Nat)
    (hd : d ∈ v.desc p.id) (hk : d ∉ K) (hpr : v.hasProposed d = true) :
    ∃ e' ∈ ps.foldl (updateOne v K) m, e'.id = d := by
  induction ps generalizing m with
  | nil => simp at hp
  | cons q ps ih =>
    simp only [List.foldl_cons]
    rcases List.mem_cons.mp hp with rfl | hp'
    · obtain ⟨e1, h1, hid1⟩ := updFold_adds (v := v) K p (v.desc p.id) m d hd hk hpr
      rw [← updateOne_eq] at h1
      obtain ⟨e2, h2, hid2⟩ := updMod_ids (v := v) K ps _ e1 h1
      exact ⟨e2, h2, hid2.trans hid1⟩
    · exact ih _ hp'

end ids

/-! ### `update_modified_entries` keeps never-failed occupants exact -/

section updx
variable {v : View}

theorem updStep_fold_exact (hL : LinksOk v) (hA : AggExact v) (bad F G K : List Nat) (p : Entry)
    (hpGood : Good v p) (hpF : p.id ∉ G ++ F) (hclosed : Closed v F)
    (ds : List Nat) (hds : ds.Nodup) (hsub : ∀ d ∈ ds, d ∈ v.desc p.id) (m : Mod)
    (hfresh : ∀ d, d ∉ K → v.hasProposed d = true → d ∉ F → (∀ e ∈ m, e.id ≠ d) → d ∉ bad →
      ∀ a ∈ v.anc d, a ∉ G ++ F)
    (hm : ∀ e ∈ m, Good v e ∧ e.id ∉ K ∧ (e.id ∉ bad →
      (e.id ∈ ds → ExactOn v (G ++ F) e) ∧ (e.id ∉ ds → ExactOn v (p.id :: (G ++ F)) e))) :
    ∀ e ∈ ds.foldl (updStep v K p) m,
      Good v e ∧ e.id ∉ K ∧ (e.id ∉ bad → ExactOn v (p.id :: (G ++ F)) e) := by
  obtain ⟨_, hancnd, _, _, hdescanc, _⟩ := hL
  have hpid : p.id ∈ v.ids := hasProposed_mem_ids hpGood.1
  induction ds generalizing m with
  | nil =>
    intro e he
    obtain ⟨h1, h2, h3⟩ := hm e he
    exact ⟨h1, h2, fun hb => (h3 hb).2 (by simp)⟩
  | cons d ds ih =>
    simp only [List.nodup_cons] at hds
    simp only [List.foldl_cons]
    have hpanc : p.id ∈ v.anc d := hdescanc p.id hpid d (hsub d List.mem_cons_self)
    apply ih hds.2 (fun x hx => hsub x (List.mem_cons_of_mem _ hx))
    · -- freshness: ids only grow
      intro d' hk hpr hdF hno hb
      apply hfresh d' hk hpr hdF _ hb
      intro e he heq
      obtain ⟨e', he', hid'⟩ := updStep_ids (v := v) K p m d e he
      exact hno e' he' (hid'.trans heq)
    · -- the invariant after processing `d`
      have hkeep : ∀ e ∈ m, e.id ≠ d → Good v e ∧ e.id ∉ K ∧ (e.id ∉ bad →
          (e.id ∈ ds → ExactOn v (G ++ F) e) ∧ (e.id ∉ ds → ExactOn v (p.id :: (G ++ F)) e)) := by
        intro e he hne
        obtain ⟨h1, h2, h3⟩ := hm e he
        refine ⟨h1, h2, fun hb => ⟨fun hin => (h3 hb).1 (List.mem_cons_of_mem _ hin), fun hnin => (h3 hb).2 ?_⟩⟩
        simp only [List.mem_cons, not_or]; exact ⟨hne, hnin⟩
      unfold updStep
      split
      · rename_i hcond
        intro e he
        apply hkeep e he
        intro hed
        obtain ⟨g1, g2, _⟩ := hm e he
        have hprop : v.hasProposed d = true := hed ▸ g1.1
        have hdK : d ∉ K := hed ▸ g2
        simp [hprop, hdK] at hcond
      · rename_i hcond
        have hdK : d ∉ K := by
          intro h; apply hcond; simp [h]
        have hdprop : v.hasProposed d = true := by
          cases hh : v.hasProposed d with
          | true => rfl
          | false => exact absurd (by simp [hh]) hcond
        have hdid : d ∈ v.ids := hasProposed_mem_ids hdprop
        split
        · rename_i old hold
          obtain ⟨holdm, holdid⟩ := Mod.get_some hold
          intro e he
          rcases List.mem_cons.mp he with rfl | he
          · obtain ⟨g1, g2, g3⟩ := hm old holdm
            refine ⟨g1.subAnc, g2, fun hb => ⟨fun hin => ?_, fun _ => ?_⟩⟩
            · exact absurd (show d ∈ ds from holdid ▸ hin) hds.1
            · have hc : ExactOn v (G ++ F) old := (g3 hb).1 (by simp [holdid])
              exact ExactOn.subAnc (by rw [holdid]; exact hancnd d hdid) (by rw [holdid]; exact hpanc) hpF hpGood hc
          · obtain ⟨hem, hne⟩ := Mod.mem_remove.mp he
            exact hkeep e hem hne
        · rename_i hnone
          have hnoocc := Mod.get_none hnone
          split
          · rename_i pe hpe
            have hpeid := get_id hpe
            intro e he
            rcases List.mem_cons.mp he with rfl | he
            · have hgood : Good v pe.e := good_of_get hpe hdprop
              refine ⟨hgood.subAnc, ?_, fun hb => ⟨fun hin => ?_, fun _ => ?_⟩⟩
              · show pe.e.id ∉ K
                rw [hpeid]; exact hdK
              · exact absurd (show d ∈ ds from hpeid ▸ hin) hds.1
              · have hb' : d ∉ bad := hpeid ▸ hb
                have hdF : d ∉ F := fun hin => hpF (List.mem_append_right _ (hclosed d hin p.id hpanc))
                have hfr := hfresh d hdK hdprop hdF hnoocc hb'
                have hc : ExactOn v (G ++ F) pe.e :=
                  exactOn_of_pool hA (get_mem hpe) _ (by rw [hpeid]; exact hfr)
                exact ExactOn.subAnc (by rw [hpeid]; exact hancnd d hdid) (by rw [hpeid]; exact hpanc) hpF hpGood hc
            · exact hkeep e he (hnoocc e he)
          · intro e he
            exact hkeep e he (hnoocc e he)

theorem updateModified_exact (hL : LinksOk v) (hX : LinksExact v) (hA : AggExact v) (bad F K : List Nat)
    (ps : List Entry) (G : List Nat) (hnd : (ps.map (·.id)).Nodup)
    (hps : ∀ p ∈ ps, Good v p ∧ p.id ∉ G ∧ p.id ∉ F) (hclosed : Closed v F) (m : Mod)
    (hfresh : ∀ d, d ∉ K → v.hasProposed d = true → d ∉ F → (∀ e ∈ m, e.id ≠ d) → d ∉ bad →
      ∀ a ∈ v.anc d, a ∉ G ++ F)
    (hm : ∀ e ∈ m, Good v e ∧ e.id ∉ K ∧ (e.id ∉ bad → ExactOn v (G ++ F) e)) :
    ∀ e ∈ ps.foldl (updateOne v K) m,
      Good v e ∧ e.id ∉ K ∧ (e.id ∉ bad → ExactOn v (((ps.map (·.id)).reverse ++ G) ++ F) e) := by
  induction ps generalizing G m with
  | nil => simpa using hm
  | cons p ps ih =>
    simp only [List.map_cons, List.nodup_cons] at hnd
    obtain ⟨hg, hpG, hpF⟩ := hps p List.mem_cons_self
    have hpid : p.id ∈ v.ids := hasProposed_mem_ids hg.1
    have hstep : ∀ e ∈ updateOne v K m p,
        Good v e ∧ e.id ∉ K ∧ (e.id ∉ bad → ExactOn v ((p.id :: G) ++ F) e) := by
      rw [updateOne_eq]
      apply updStep_fold_exact hL hA bad F G K p hg (by simp [hpG, hpF]) hclosed _ (hL.2.2.2.2.2 p.id hpid)
        (fun d hd => hd) m hfresh
      intro e he
      obtain ⟨h1, h2, h3⟩ := hm e he
      refine ⟨h1, h2, fun hb => ⟨fun _ => h3 hb, fun hnin => (h3 hb).ext ?_⟩⟩
      intro hpa
      exact hnin (hX.2.2 e.id (hasProposed_mem_ids h1.1) p.id hpa)
    have hfresh' : ∀ d, d ∉ K → v.hasProposed d = true → d ∉ F → (∀ e ∈ updateOne v K m p, e.id ≠ d) → d ∉ bad →
        ∀ a ∈ v.anc d, a ∉ (p.id :: G) ++ F := by
      intro d hk hpr hdF hno hb a ha
      have hold : a ∉ G ++ F := by
        apply hfresh d hk hpr hdF _ hb a ha
        intro e he heq
        obtain ⟨e', he', hid'⟩ := updFold_ids (v := v) K p (v.desc p.id) m e he
        rw [← updateOne_eq] at he'
        exact hno e' he' (hid'.trans heq)
      simp only [List.cons_append, List.mem_cons, not_or]
      refine ⟨?_, hold⟩
      intro hap
      subst hap
      have hdesc : d ∈ v.desc p.id := hX.2.2 d (hasProposed_mem_ids hpr) p.id ha
      obtain ⟨e', he', hid'⟩ := updFold_adds (v := v) K p (v.desc p.id) m d hdesc hk hpr
      rw [← updateOne_eq] at he'
      exact hno e' he' hid'
    have := ih (p.id :: G) hnd.2 (fun q hq => by
      obtain ⟨q1, q2, q3⟩ := hps q (List.mem_cons_of_mem _ hq)
      refine ⟨q1, ?_, q3⟩
      simp only [List.mem_cons, not_or]
      refine ⟨?_, q2⟩
      intro heq
      exact hnd.1 (heq ▸ List.mem_map_of_mem hq)) (updateOne v K m p) hfresh' hstep
    simpa using this

end updx

/-! ### insertion sort by `ancestors_count` -/

theorem insertBy_count_sorted (tie : Nat → Nat) (x : Entry) (l : List Entry)
    (hl : l.Pairwise (fun a b => a.ancCount ≤ b.ancCount)) :
    (insertBy (countBefore tie) x l).Pairwise (fun a b => a.ancCount ≤ b.ancCount) := by
  induction l with
  | nil => simp [insertBy]
  | cons y ys ih =>
    unfold insertBy
    rw [List.pairwise_cons] at hl
    split
    · rename_i hb
      have hxy : x.ancCount ≤ y.ancCount := by
        simp only [countBefore, Bool.or_eq_true, decide_eq_true_eq, Bool.and_eq_true, beq_iff_eq] at hb
        omega
      rw [List.pairwise_cons]
      refine ⟨?_, List.pairwise_cons.mpr hl⟩
      intro z hz
      rcases List.mem_cons.mp hz with rfl | hz
      · exact hxy
      · exact Nat.le_trans hxy (hl.1 z hz)
    · rename_i hb
      have hyx : y.ancCount ≤ x.ancCount := by
        simp only [countBefore, Bool.or_eq_true, decide_eq_true_eq, Bool.and_eq_true, beq_iff_eq, not_or] at hb
        omega
      rw [List.pairwise_cons]
      refine ⟨?_, ih hl.2⟩
      intro z hz
      rcases (mem_insertBy _ _ _ _).mp hz with rfl | hz
      · exact hyx
      · exact hl.1 z hz

theorem sortBy_count_sorted (tie : Nat → Nat) (l : List Entry) :
    (sortBy (countBefore tie) l).Pairwise (fun a b => a.ancCount ≤ b.ancCount) := by
  induction l with
  | nil => simp [sortBy]
  | cons y ys ih =>
    have : sortBy (countBefore tie) (y :: ys) = insertBy (countBefore tie) y (sortBy (countBefore tie) ys) := rfl
    rw [this]
    exact insertBy_count_sorted tie y _ ih


/-! ### the second loop invariant -/

/-- `id`'s TRUE remaining package can never be admitted: with `S`/`C` bytes/cycles in the block and
    `F` fetched, it has a non-proposed ancestor or it does not fit -/
def Doomed (v : View) (sl cl : Nat) (S C : Nat) (F : List Nat) (id : Nat) : Prop :=
  id ∈ v.ids ∧ id ∉ F ∧
  ((∃ a ∈ v.anc id, v.hasProposed a = false) ∨
   S + v.sizeOf id + restSum v.sizeOf F (v.anc id) > sl ∨
   C + v.cyclesOf id + restSum v.cyclesOf F (v.anc id) > cl)

/-- no later element of the list is an in-pool ancestor of an earlier one -/
def ParentsFirst (v : View) (out : List Entry) : Prop :=
  out.Pairwise (fun x y => y.id ∉ v.anc x.id)

structure Inv2 (v : View) (sl cl : Nat) (s : St) : Prop where
  order : ParentsFirst v s.out
  modExact : ∀ e ∈ s.mod, e.id ∉ s.failed → ExactOn v s.fetched e
  doomed : ∀ id ∈ s.failed, Doomed v sl cl s.size s.cycles s.fetched id
  fresh : ∀ id, v.hasProposed id = true → id ∉ s.fetched → (∀ e ∈ s.mod, e.id ≠ id) → id ∉ s.failed →
    ∀ a ∈ v.anc id, a ∉ s.fetched
  iterPool : ∀ e ∈ s.iter, ∃ pe ∈ v.ents, pe.e = e

section step2
variable {v : View} {sl cl : Nat}

theorem retrieve_some' {m : Mod} {id : Nat} {e : Entry} (h : retrieve v m id = some e) :
    e.id = id ∧ ((e ∈ m) ∨ ((∀ x ∈ m, x.id ≠ id) ∧ ∃ pe, v.get id = some pe ∧ pe.proposed = true ∧ pe.e = e)) := by
  unfold retrieve at h
  split at h
  · rename_i e' he'
    simp at h; subst h
    obtain ⟨h1, h2⟩ := Mod.get_some he'
    exact ⟨h2, Or.inl h1⟩
  · rename_i hnone
    obtain ⟨pe, h1, h2, h3⟩ := getProposed_some h
    exact ⟨h3 ▸ get_id h1, Or.inr ⟨Mod.get_none hnone, pe, h1, h2, h3⟩⟩

theorem sum_size_eq (l : List Entry) (h : ∀ x ∈ l, Good v x) :
    (l.map (·.size)).sum = sumBy v.sizeOf (l.map (·.id)) ∧
    (l.map (·.cycles)).sum = sumBy v.cyclesOf (l.map (·.id)) := by
  induction l with
  | nil => simp [sumBy]
  | cons x xs ih =>
    obtain ⟨i1, i2⟩ := ih (fun y hy => h y (List.mem_cons_of_mem _ hy))
    obtain ⟨_, hs, hc⟩ := h x List.mem_cons_self
    simp only [sumBy, List.map_cons, List.sum_cons] at *
    omega

/-- a doomed entry with aggregates not below the truth fails the admission test -/
theorem doomed_blocks {S C : Nat} {F : List Nat} {e : Entry} (hd : Doomed v sl cl S C F e.id) (hg : Good v e)
    (hc : Covers v F e) :
    (C + e.ancCycles > cl ∨ S + e.ancSize > sl) ∨ ∃ a ∈ v.anc e.id, v.hasProposed a = false := by
  obtain ⟨_, _, hd | hd | hd⟩ := hd
  · exact Or.inr hd
  · obtain ⟨_, hs, _⟩ := hg
    obtain ⟨c1, _⟩ := hc
    left; right; omega
  · obtain ⟨_, _, hcy⟩ := hg
    obtain ⟨_, c2⟩ := hc
    left; left; omega

/-- a descendant of a doomed, unfetched entry is doomed -/
theorem doomed_desc (hL : LinksOk v) (hX : LinksExact v) {S C : Nat} {F : List Nat} {a t : Nat}
    (ht : t ∈ v.ids) (hat : a ∈ v.anc t) (htF : t ∉ F) (hd : Doomed v sl cl S C F a) :
    Doomed v sl cl S C F t := by
  obtain ⟨_, hancnd, hancids, htrans, _, _⟩ := hL
  obtain ⟨haid, haF, hd⟩ := hd
  have hsub : ∀ b ∈ v.anc a, b ∈ v.anc t := fun b hb => htrans t ht a hat b hb
  have hirr : a ∉ v.anc a := hX.1 a haid
  refine ⟨ht, htF, ?_⟩
  rcases hd with ⟨b, hb, hbp⟩ | hd | hd
  · exact Or.inl ⟨b, hsub b hb, hbp⟩
  · have := restSum_anc_le v.sizeOf F (v.anc t) (v.anc a) a (hancnd t ht) (hancnd a haid) hat haF hsub hirr
    right; left; omega
  · have := restSum_anc_le v.cyclesOf F (v.anc t) (v.anc a) a (hancnd t ht) (hancnd a haid) hat haF hsub hirr
    right; right; omega

/-- a doomed entry outside a newly fetched package stays doomed -/
theorem doomed_mono (hL : LinksOk v) {S C : Nat} {F : List Nat} {id : Nat} (pkg : List Entry)
    (hg : ∀ x ∈ pkg, Good v x) (hid : id ∉ pkg.map (·.id)) (hd : Doomed v sl cl S C F id) :
    Doomed v sl cl (S + (pkg.map (·.size)).sum) (C + (pkg.map (·.cycles)).sum)
      ((pkg.map (·.id)).reverse ++ F) id := by
  obtain ⟨hidv, hF, hd⟩ := hd
  have hnd := hL.2.1 id hidv
  obtain ⟨e1, e2⟩ := sum_size_eq (v := v) pkg hg
  have hcongr : ∀ f, restSum f ((pkg.map (·.id)).reverse ++ F) (v.anc id) = restSum f (pkg.map (·.id) ++ F) (v.anc id) := by
    intro f
    apply restSum_congr
    intro a _
    simp [List.mem_append, List.mem_reverse]
  refine ⟨hidv, ?_, ?_⟩
  · simp only [List.mem_append, List.mem_reverse, not_or]
    exact ⟨hid, hF⟩
  · rcases hd with hd | hd | hd
    · exact Or.inl hd
    · have := restSum_le_add_list v.sizeOf (pkg.map (·.id)) F (v.anc id) hnd
      right; left; rw [hcongr, e1]; omega
    · have := restSum_le_add_list v.cyclesOf (pkg.map (·.id)) F (v.anc id) hnd
      right; right; rw [hcongr, e2]; omega

theorem mem_foldl_remove' {pkg : List Entry} {m : Mod} {e : Entry} (he : e ∈ m)
    (hk : e.id ∉ pkg.map (·.id)) : e ∈ pkg.foldl (fun m x => Mod.remove m x.id) m := by
  induction pkg generalizing m with
  | nil => exact he
  | cons x xs ih =>
    simp only [List.map_cons, List.mem_cons, not_or] at hk
    simp only [List.foldl_cons]
    exact ih (Mod.mem_remove.mpr ⟨he, hk.1⟩) hk.2

theorem Inv2.fail {s : St} (h2 : Inv2 v sl cl s) (iter' : List Entry) (hsub : ∀ e ∈ iter', e ∈ s.iter)
    (tx : Entry) (u : Bool) (hdoom : u = true → Doomed v sl cl s.size s.cycles s.fetched tx.id) :
    Inv2 v sl cl (fail s iter' tx u).1 := by
  unfold Selector.fail
  cases u with
  | false =>
    exact { order := h2.order, modExact := h2.modExact, doomed := h2.doomed, fresh := h2.fresh,
            iterPool := fun e he => h2.iterPool e (hsub e he) }
  | true =>
    refine { order := h2.order, modExact := ?_, doomed := ?_, fresh := ?_,
             iterPool := fun e he => h2.iterPool e (hsub e he) }
    · intro e he hb
      obtain ⟨hem, _⟩ := Mod.mem_remove.mp he
      exact h2.modExact e hem (fun hin => hb (List.mem_cons_of_mem _ hin))
    · intro id hid
      rcases List.mem_cons.mp hid with rfl | hid
      · exact hdoom rfl
      · exact h2.doomed id hid
    · intro id hp hf hno hb a ha
      have hne : id ≠ tx.id := fun heq => hb (heq ▸ List.mem_cons_self)
      apply h2.fresh id hp hf _ (fun hin => hb (List.mem_cons_of_mem _ hin)) a ha
      intro e he heq
      exact hno e (Mod.mem_remove.mpr ⟨he, heq ▸ hne⟩) heq

theorem Inv2.body (hL : LinksOk v) (hX : LinksExact v) (hA : AggExact v) {s : St}
    (h : Inv v sl cl s) (h2 : Inv2 v sl cl s) (tx : Entry) (u : Bool) (iter' : List Entry)
    (hsub : ∀ e ∈ iter', e ∈ s.iter) (htxG : Good v tx) (htxF : tx.id ∉ s.fetched)
    (htxE : tx.id ∉ s.failed → ExactOn v s.fetched tx)
    (htxC : Covers v s.fetched tx) :
    Inv2 v sl cl (step.body v sl cl s tx u iter').1 := by
  have htxid : tx.id ∈ v.ids := hasProposed_mem_ids htxG.1
  -- a failed admission of an entry that is exact dooms it; an already doomed entry stays doomed
  have hdoom_of_fail : ((s.cycles + tx.ancCycles > cl ∨ s.size + tx.ancSize > sl) ∨
      ∃ a ∈ v.anc tx.id, v.hasProposed a = false) → Doomed v sl cl s.size s.cycles s.fetched tx.id := by
    intro hf
    by_cases hb : tx.id ∈ s.failed
    · exact h2.doomed _ hb
    · obtain ⟨_, e2, e3⟩ := htxE hb
      obtain ⟨_, hs, hcy⟩ := htxG
      refine ⟨htxid, htxF, ?_⟩
      rcases hf with (hf | hf) | hf
      · right; right; omega
      · right; left; omega
      · exact Or.inl hf
  unfold step.body
  split
  · rename_i hadm
    apply h2.fail iter' hsub tx u
    intro _
    apply hdoom_of_fail
    simp only [Bool.or_eq_true, decide_eq_true_eq] at hadm
    exact Or.inl hadm
  · rename_i hadm
    split
    · rename_i hallp
      apply h2.fail iter' hsub tx u
      intro _
      apply hdoom_of_fail
      right
      rw [List.any_eq_true] at hallp
      obtain ⟨a, ha, hna⟩ := hallp
      exact ⟨a, ha, by simpa using hna⟩
    · rename_i hallp
      have hall : ∀ a ∈ v.anc tx.id, v.hasProposed a = true := by
        intro a ha
        cases hh : v.hasProposed a with
        | true => rfl
        | false =>
          exfalso; apply hallp
          rw [List.any_eq_true]
          exact ⟨a, ha, by simp [hh]⟩
      have hadm' : ¬ (s.cycles + tx.ancCycles > cl ∨ s.size + tx.ancSize > sl) := by
        simpa only [Bool.or_eq_true, decide_eq_true_eq] using hadm
      have hL' := hL
      obtain ⟨hidnd, hancnd, hancids, htrans, hdescanc, hdescnd⟩ := hL
      -- the admitted transaction is not doomed
      have htx_nd : ¬ Doomed v sl cl s.size s.cycles s.fetched tx.id := by
        intro hd
        rcases doomed_blocks hd htxG htxC with hb | ⟨a, ha, hna⟩
        · exact hadm' hb
        · rw [hall a ha] at hna; exact absurd hna (by simp)
      have htx_nb : tx.id ∉ s.failed := fun hb => htx_nd (h2.doomed _ hb)
      have hnd := package_nodup (s := s) (hancnd tx.id htxid)
      -- facts about the members of the package
      have hmem : ∀ x ∈ package v s tx, Good v x ∧ x.id ∉ s.fetched ∧ (x.id = tx.id ∨ x.id ∈ v.anc tx.id) ∧
          x.id ∉ s.failed ∧ ExactOn v s.fetched x := by
        intro x hx
        rcases package_mem hx with rfl | hx
        · exact ⟨htxG, htxF, Or.inl rfl, htx_nb, htxE htx_nb⟩
        · obtain ⟨h1, hxF, h3⟩ := ancEntries_mem hx
          have hxnb : x.id ∉ s.failed := by
            intro hb
            exact htx_nd (doomed_desc hL' hX htxid h1 htxF (h2.doomed _ hb))
          obtain ⟨_, hcase⟩ := retrieve_some' h3
          rcases hcase with hm | ⟨hnom, pe, hg, hp, rfl⟩
          · exact ⟨(h.modGood x hm).1, hxF, Or.inr h1, hxnb, h2.modExact x hm hxnb⟩
          · have hfr := h2.fresh pe.e.id (hall _ h1) hxF hnom hxnb
            exact ⟨good_of_get hg (hall _ h1), hxF, Or.inr h1, hxnb,
              exactOn_of_pool hA (get_mem hg) _ hfr⟩
      have hnew : ∀ x ∈ package v s tx, x.id ∉ ({ s with iter := iter' } : St).fetched :=
        fun x hx => (hmem x hx).2.1
      simp only []
      rw [foldl_push_eq _ _ hnew hnd]
      simp only []
      -- order inside the package
      have hpkg_order : ParentsFirst v (package v s tx) := by
        unfold ParentsFirst
        rw [package_eq, List.pairwise_append]
        refine ⟨?_, by simp, ?_⟩
        · have hs := sortBy_count_sorted v.tie (ancEntries v s tx)
          have hs' := List.Pairwise.sublist (List.filter_sublist (p := fun e : Entry => e.id != tx.id)) hs
          refine List.Pairwise.imp_of_mem ?_ hs'
          intro a b ha hb hab hba
          have ha' : a ∈ ancEntries v s tx := (mem_sortBy _ _ _).mp (List.mem_filter.mp ha).1
          have hb' : b ∈ ancEntries v s tx := (mem_sortBy _ _ _).mp (List.mem_filter.mp hb).1
          have hapk : a ∈ package v s tx := by
            rw [package_eq]; exact List.mem_append_left _ ha
          have hbpk : b ∈ package v s tx := by
            rw [package_eq]; exact List.mem_append_left _ hb
          obtain ⟨hag, _, _, _, hae⟩ := hmem a hapk
          obtain ⟨hbg, hbF, _, _, hbe⟩ := hmem b hbpk
          have haid : a.id ∈ v.ids := hasProposed_mem_ids hag.1
          have hbid : b.id ∈ v.ids := hasProposed_mem_ids hbg.1
          have := restSum_anc_le one s.fetched (v.anc a.id) (v.anc b.id) b.id (hancnd _ haid) (hancnd _ hbid)
            hba hbF (fun c hc => htrans a.id haid b.id hba c hc) (hX.1 b.id hbid)
          have h1 := hae.1
          have h2' := hbe.1
          simp only [one] at this
          omega
        · intro a ha b hb
          simp only [List.mem_singleton] at hb
          have ha' : a ∈ ancEntries v s tx := (mem_sortBy _ _ _).mp (List.mem_filter.mp ha).1
          have haanc := (ancEntries_mem ha').1
          intro hin
          rw [hb] at hin
          exact hX.1 tx.id htxid (htrans tx.id htxid a.id haanc tx.id hin)
      -- the occupants after the removals
      have hMexact := updateModified_exact hL' hX hA s.failed s.fetched ((package v s tx).map (·.id))
        (package v s tx) [] hnd (fun p hp => ⟨(hmem p hp).1, by simp, (hmem p hp).2.1⟩) h.closed
        ((package v s tx).foldl (fun m x => Mod.remove m x.id) s.mod)
        (by
          intro d hk hpr hdF hno hb a ha
          simp only [List.nil_append]
          apply h2.fresh d hpr hdF _ hb a ha
          intro e he heq
          exact hno e (mem_foldl_remove' he (heq ▸ hk)) heq)
        (by
          intro e he
          obtain ⟨h1, hk⟩ := mem_foldl_remove he
          exact ⟨(h.modGood e h1).1, hk, fun hb => by simpa using h2.modExact e h1 hb⟩)
      refine
        { order := ?_
          modExact := ?_
          doomed := ?_
          fresh := ?_
          iterPool := fun e he => h2.iterPool e (hsub e he) }
      · show ParentsFirst v (s.out ++ package v s tx)
        unfold ParentsFirst
        rw [List.pairwise_append]
        refine ⟨h2.order, hpkg_order, ?_⟩
        intro x hx y hy hin
        exact (hmem y hy).2.1 (h.closed x.id (h.outFetched x hx) y.id hin)
      · intro e he hb
        have := (hMexact e he).2.2 hb
        simpa using this
      · intro id hid
        apply doomed_mono hL' (package v s tx) (fun x hx => (hmem x hx).1) _ (h2.doomed id hid)
        intro hin
        obtain ⟨x, hx, hxe⟩ := List.mem_map.mp hin
        exact (hmem x hx).2.2.2.1 (hxe ▸ hid)
      · intro id hp hf hno hb a ha hain
        simp only [List.mem_append, List.mem_reverse, not_or] at hf
        rcases List.mem_append.mp hain with hk | hF
        · have hk := List.mem_reverse.mp hk
          obtain ⟨p, hp', hpe⟩ := List.mem_map.mp hk
          have hdesc : id ∈ v.desc p.id := hX.2.2 id (hasProposed_mem_ids hp) p.id (hpe ▸ ha)
          obtain ⟨e', he', hid'⟩ := updMod_adds (v := v) ((package v s tx).map (·.id)) (package v s tx)
            ((package v s tx).foldl (fun m x => Mod.remove m x.id) s.mod) p hp' id hdesc hf.1 hp
          exact hno e' he' hid'
        · refine h2.fresh id hp hf.2 ?_ hb a ha hF
          intro e he heq
          obtain ⟨e', he', hid'⟩ := updMod_ids (v := v) ((package v s tx).map (·.id)) (package v s tx)
            ((package v s tx).foldl (fun m x => Mod.remove m x.id) s.mod) e
            (mem_foldl_remove' he (heq ▸ hf.1))
          exact hno e' he' (hid'.trans heq)

theorem Inv2.step (hL : LinksOk v) (hX : LinksExact v) (hA : AggExact v) {s : St}
    (h : Inv v sl cl s) (h2 : Inv2 v sl cl s) : Inv2 v sl cl (step v sl cl s).1 := by
  have hGe : AggGe v := aggGe_of_exact hA
  unfold Selector.step
  split
  · rename_i e rest hit
    split
    · exact { order := h2.order, modExact := h2.modExact, doomed := h2.doomed, fresh := h2.fresh,
              iterPool := fun x hx => h2.iterPool x (by rw [hit]; exact List.mem_cons_of_mem _ hx) }
    · rename_i hskip
      have hsk : ¬ (e.id ∈ s.fetched ∨ (s.mod.get e.id).isSome = true ∨ e.id ∈ s.failed) := by
        intro hh; apply hskip
        simp only [St.skip, Bool.or_eq_true, List.contains_iff_mem]
        rcases hh with hh | hh | hh
        · exact Or.inl (Or.inl (by simpa using hh))
        · exact Or.inl (Or.inr hh)
        · exact Or.inr (by simpa using hh)
      have heF : e.id ∉ s.fetched := fun hin => hsk (Or.inl hin)
      have heB : e.id ∉ s.failed := fun hin => hsk (Or.inr (Or.inr hin))
      have heM : ∀ x ∈ s.mod, x.id ≠ e.id := by
        apply Mod.get_none
        cases hg : s.mod.get e.id with
        | none => rfl
        | some x => exact absurd (Or.inr (Or.inl (by simp [hg]))) hsk
      obtain ⟨heG, _⟩ := h.iterGood e (by rw [hit]; exact List.mem_cons_self)
      obtain ⟨pe, hpe, hpee⟩ := h2.iterPool e (by rw [hit]; exact List.mem_cons_self)
      have heE : ExactOn v s.fetched e := by
        have hfr := h2.fresh e.id heG.1 heF heM heB
        subst hpee
        exact exactOn_of_pool hA hpe _ hfr
      have hsub_rest : ∀ x ∈ rest, x ∈ s.iter := fun x hx => by rw [hit]; exact List.mem_cons_of_mem _ hx
      have he_body := h2.body hL hX hA h e false rest hsub_rest heG heF (fun _ => heE) heE.covers
      cases hbm : Mod.best v.tie s.mod with
      | none =>
        simp only []
        exact he_body
      | some bm =>
        obtain ⟨g1, g2, g3⟩ := h.modGood bm (Mod.best_mem hbm)
        by_cases hgt : (Key.cmp bm.key e.key == Ordering.gt) = true
        · simp only [hgt, if_true]
          exact h2.body hL hX hA h bm true s.iter (fun x hx => hx) g1 g2
            (h2.modExact bm (Mod.best_mem hbm)) (g3 hGe)
        · simp only [hgt]
          exact he_body
  · rename_i hit
    cases hbm : Mod.best v.tie s.mod with
    | none => exact h2
    | some bm =>
      obtain ⟨g1, g2, g3⟩ := h.modGood bm (Mod.best_mem hbm)
      exact h2.body hL hX hA h bm true [] (fun x hx => by simp at hx) g1 g2
        (h2.modExact bm (Mod.best_mem hbm)) (g3 hGe)

theorem Inv2.run (hL : LinksOk v) (hX : LinksExact v) (hA : AggExact v) (fuel : Nat) {s : St}
    (h : Inv v sl cl s) (h2 : Inv2 v sl cl s) : Inv2 v sl cl (run v sl cl fuel s) := by
  induction fuel generalizing s with
  | zero => exact h2
  | succ n ih =>
    unfold Selector.run
    have hs := h.step hL
    have hs2 := h2.step hL hX hA h
    split
    · rename_i s' heq
      rw [heq] at hs hs2
      exact ih hs hs2
    · rename_i s' heq
      rw [heq] at hs2
      exact hs2

theorem Inv2.init : Inv2 v sl cl (initSt v sl cl) := by
  refine
    { order := by simp [initSt, ParentsFirst]
      modExact := by simp [initSt]
      doomed := by simp [initSt]
      fresh := by intro id _ _ _ _ a _; simp [initSt]
      iterPool := ?_ }
  intro e he
  obtain ⟨pe, hpe, _, hpee⟩ := mem_sortedProposed he
  exact ⟨pe, hpe, hpee⟩

theorem Inv2.final (hL : LinksOk v) (hX : LinksExact v) (hA : AggExact v) :
    Inv2 v sl cl (txsToCommit v sl cl) :=
  Inv2.run hL hX hA _ (Inv.init hL) Inv2.init

end step2

end CkbVerif.Selector
