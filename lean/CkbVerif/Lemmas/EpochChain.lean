import CkbVerif.Lemmas.EpochNext

/-! Whole-chain view (C07): one step of `chainStep` keeps the tip inside its epoch and yields an epoch
field that the non-contextual `EpochVerifier` accepts after the tip's. -/
namespace CkbVerif.Epoch
open CkbVerif.Arith CkbVerif.Gen.Epoch

theorem nextLength_pos_le_max {ort : URat} {T L u dur L' : Nat} {lor : URat} {b : Bool}
    (h : nextLength ort T L u dur lor = some (L', b)) (h1 : 1 ≤ L) (h2 : L ≤ MAX_EPOCH_LENGTH) :
    1 ≤ L' ∧ L' ≤ MAX_EPOCH_LENGTH := by
  have hmin : MIN_EPOCH_LENGTH = 300 := by decide
  have hmax : MAX_EPOCH_LENGTH = 1800 := by decide
  unfold nextLength at h
  split at h
  · simp only [Option.bind_eq_bind, Option.bind_eq_some_iff, chk64, chk_eq_some] at h
    obtain ⟨l2, ⟨_, hl2⟩, h⟩ := h
    injection h with h; injection h with h1' h2'
    subst hl2 h1'
    simp only [TAU]; omega
  · simp only [Option.bind_eq_bind, Option.bind_eq_some_iff] at h
    obtain ⟨q, _, raw, _, h⟩ := h
    have := boundingEpochLength_eq h
    have e1 : L * TAU = L * 2 := rfl
    have e2 : L / TAU = L / 2 := rfl
    by_cases c1 : raw % U64 > min MAX_EPOCH_LENGTH (L * TAU)
    · simp only [c1, if_true] at this; injection this with a b; subst a; omega
    · simp only [c1, if_false] at this
      by_cases c2 : raw % U64 < max MIN_EPOCH_LENGTH (L / TAU)
      · simp only [c2, if_true] at this; injection this with a b; subst a; omega
      · simp only [c2, if_false] at this; injection this with a b; subst a; omega

theorem within_ok {n i l : Nat} (hn : n < 2 ^ 24) (hl : l < 2 ^ 16) (hi : i + 1 < l) :
    epochVerify (enfPack n i l) (enfPack n (i + 1) l) = .ok := by
  obtain ⟨a1, a2, a3⟩ := enf_roundtrip (n := n) (i := i) (l := l) (by simpa [EPOCH_NUMBER_BITS] using hn)
    (by simp only [EPOCH_INDEX_BITS]; omega) (by simpa [EPOCH_LENGTH_BITS] using hl)
  obtain ⟨b1, b2, b3⟩ := enf_roundtrip (n := n) (i := i + 1) (l := l) (by simpa [EPOCH_NUMBER_BITS] using hn)
    (by simp only [EPOCH_INDEX_BITS]; omega) (by simpa [EPOCH_LENGTH_BITS] using hl)
  have hg : enfIsGenesis (enfPack n i l) = false := by
    unfold enfIsGenesis; rw [a3]; simp; omega
  rw [epochVerify_ok_iff, hg, enfIsSuccessorOf_iff]
  unfold enfIsWellFormed
  rw [a1, a2, a3, b1, b2, b3]
  have : ¬ (i + 1 = l) := by omega
  simp [this]; omega

theorem across_ok {n l l' : Nat} (hn : n + 1 < 2 ^ 24) (hl : l < 2 ^ 16) (hl1 : 1 ≤ l) (hl' : l' < 2 ^ 16) (hl1' : 1 ≤ l') :
    epochVerify (enfPack n (l - 1) l) (enfPack (n + 1) 0 l') = .ok := by
  obtain ⟨a1, a2, a3⟩ := enf_roundtrip (n := n) (i := l - 1) (l := l) (by simp only [EPOCH_NUMBER_BITS]; omega)
    (by simp only [EPOCH_INDEX_BITS]; omega) (by simpa [EPOCH_LENGTH_BITS] using hl)
  obtain ⟨b1, b2, b3⟩ := enf_roundtrip (n := n + 1) (i := 0) (l := l') (by simpa [EPOCH_NUMBER_BITS] using hn)
    (by simp only [EPOCH_INDEX_BITS]; omega) (by simpa [EPOCH_LENGTH_BITS] using hl')
  have hg : enfIsGenesis (enfPack n (l - 1) l) = false := by
    unfold enfIsGenesis; rw [a3]; simp; omega
  rw [epochVerify_ok_iff, hg, enfIsSuccessorOf_iff]
  unfold enfIsWellFormed
  rw [a1, a2, a3, b1, b2, b3]
  have : l - 1 + 1 = l := by omega
  simp [this]; omega

/-- invariant of the whole-chain view: the tip lies inside its epoch, whose length is positive and at
most the consensus maximum -/
def ChainInv (s : ChainSt) : Prop :=
  s.cur.start ≤ s.tipNumber ∧ s.tipNumber < s.cur.start + s.cur.length ∧ s.cur.length ≤ MAX_EPOCH_LENGTH

/-- the epoch field of the tip itself -/
def tipField (s : ChainSt) : Nat := enfPack s.cur.number (s.tipNumber - s.cur.start) s.cur.length

theorem chainStep_spec {s s' : ChainSt} {ts u field compact : Nat} {head : Bool}
    (h : chainStep s ts u = some (s', field, compact, head)) (inv : ChainInv s)
    (hnum : s.cur.number + 1 < 2 ^ 24) :
    ChainInv s' ∧ s'.tipNumber = s.tipNumber + 1 ∧ field = tipField s' ∧ compact = s'.cur.compact ∧
      epochVerify (tipField s) field = .ok ∧
      (head = false → s'.cur = s.cur) ∧
      (head = true → s.tipNumber + 1 = s.cur.start + s.cur.length ∧
        nextEpochExt s.P s.cur s.tipNumber s.cur.compact (s.tu - s.lastEndTU) (s.tipTs - s.lastEndTs) = some s'.cur) := by
  obtain ⟨i1, i2, i3⟩ := inv
  have hmax : MAX_EPOCH_LENGTH = 1800 := by decide
  unfold chainStep at h
  simp only [Option.bind_eq_bind, Option.bind_eq_some_iff] at h
  obtain ⟨⟨e, hd⟩, he, fld, hf, hs⟩ := h
  injection hs with hs
  injection hs with hs1 hs2
  injection hs2 with hs2 hs3
  injection hs3 with hs3 hs4
  subst hs1 hs2 hs3 hs4
  unfold epochOfNext at he
  simp only [Option.bind_eq_bind, Option.bind_eq_some_iff] at he
  obtain ⟨st, hst, he⟩ := he
  unfold getBlockEpoch at hst
  simp only [Option.bind_eq_bind, Option.bind_eq_some_iff, chk64, chk_eq_some, subChk_eq_some] at hst
  obtain ⟨stop, ⟨_, hstop⟩, tail, ⟨_, htail⟩, hst⟩ := hst
  subst hstop htail
  unfold numberWithFraction at hf
  simp only [Option.bind_eq_bind, Option.bind_eq_some_iff, subChk_eq_some] at hf
  obtain ⟨idx, ⟨hle, hidx⟩, hf⟩ := hf
  injection hf with hf
  by_cases htl : s.tipNumber = s.cur.start + s.cur.length - 1
  · -- tail block: a new epoch
    simp only [htl, ne_eq, not_true_eq_false, if_false] at hst
    simp only [Option.bind_eq_some_iff, subChk_eq_some] at hst
    obtain ⟨uu, ⟨_, huu⟩, dd, ⟨_, hdd⟩, hst⟩ := hst
    injection hst with hst; subst hst
    simp only [Option.bind_eq_some_iff] at he
    obtain ⟨o, ho, he⟩ := he
    injection he with he; injection he with he1 he2
    subst he1 he2 huu hdd
    obtain ⟨adj, lor, L', bound, den, nd, R, _, _, h3, _, _, _, _, _, _, _, hoo⟩ := nextEpochExt_some ho
    have hlen := nextLength_pos_le_max h3 (by omega) i3
    have hol : o.length = L' := by rw [hoo]
    have hon : o.number = s.cur.number + 1 := by rw [hoo]
    have hos : o.start = s.tipNumber + 1 := by rw [hoo]
    refine ⟨⟨?_, ?_, ?_⟩, rfl, ?_, rfl, ?_, ?_, ?_⟩
    · show o.start ≤ s.tipNumber + 1; omega
    · show s.tipNumber + 1 < o.start + o.length; omega
    · show o.length ≤ MAX_EPOCH_LENGTH; omega
    · show fld = enfPack o.number (s.tipNumber + 1 - o.start) o.length
      rw [← hf, hidx]
    · show epochVerify (tipField s) fld = .ok
      rw [← hf, hidx, hos, hon]
      unfold tipField
      have e1 : s.tipNumber + 1 - (s.tipNumber + 1) = 0 := by omega
      have e2 : s.tipNumber - s.cur.start = s.cur.length - 1 := by omega
      rw [e1, e2]
      exact across_ok hnum (by omega) (by omega) (by omega) (by omega)
    · intro hh; cases hh
    · intro _
      exact ⟨by omega, ho⟩
  · simp only [htl, ne_eq, not_false_eq_true, if_true] at hst
    injection hst with hst; subst hst
    injection he with he; injection he with he1 he2
    subst he1 he2
    refine ⟨⟨?_, ?_, i3⟩, rfl, ?_, rfl, ?_, ?_, ?_⟩
    · show s.cur.start ≤ s.tipNumber + 1; omega
    · show s.tipNumber + 1 < s.cur.start + s.cur.length; omega
    · show fld = enfPack s.cur.number (s.tipNumber + 1 - s.cur.start) s.cur.length
      rw [← hf, hidx]
    · show epochVerify (tipField s) fld = .ok
      rw [← hf, hidx]
      unfold tipField
      have e1 : s.tipNumber + 1 - s.cur.start = (s.tipNumber - s.cur.start) + 1 := by omega
      rw [e1]
      exact within_ok (by omega) (by omega) (by omega)
    · intro _; rfl
    · intro hh; cases hh


/-- run the whole-chain view over a list of `(timestamp, uncles)`; the epoch fields of the new blocks -/
def chainFields (s : ChainSt) : List (Nat × Nat) → Option (List Nat)
  | [] => some []
  | (ts, u) :: rest => do
    let (s', f, _, _) ← chainStep s ts u
    let fs ← chainFields s' rest
    some (f :: fs)

/-- every field is accepted by `EpochVerifier` after its predecessor -/
def allConsecutive : Nat → List Nat → Prop
  | _, [] => True
  | p, f :: fs => epochVerify p f = .ok ∧ allConsecutive f fs

theorem chainFields_consecutive (bs : List (Nat × Nat)) :
    ∀ (s : ChainSt) (fs : List Nat), ChainInv s → s.cur.number + bs.length < 2 ^ 24 →
      chainFields s bs = some fs → allConsecutive (tipField s) fs := by
  induction bs with
  | nil => intro s fs _ _ h; simp [chainFields] at h; subst h; trivial
  | cons b rest ih =>
    intro s fs inv hn h
    obtain ⟨ts, u⟩ := b
    simp only [chainFields, Option.bind_eq_bind, Option.bind_eq_some_iff] at h
    obtain ⟨⟨s', f, c, hd⟩, hstep, fs', hrest, hfs⟩ := h
    injection hfs with hfs; subst hfs
    simp only [List.length_cons] at hn
    obtain ⟨inv', _, hf, _, hok, hnh, hh⟩ := chainStep_spec hstep inv (by omega)
    refine ⟨hok, ?_⟩
    rw [hf]
    apply ih s' fs' inv' _ hrest
    cases hd with
    | false => rw [hnh rfl]; omega
    | true =>
      obtain ⟨_, hne⟩ := hh rfl
      obtain ⟨_, _, _, _, _, _, _, _, _, _, _, _, _, _, _, _, _, ho⟩ := nextEpochExt_some hne
      have : s'.cur.number = s.cur.number + 1 := by rw [ho]
      omega

end CkbVerif.Epoch
