import CkbVerif.Model.MMR
/-!
# `calculate_root` is parametric in the node algebra

Running the verifier over expression trees (`Expr`, atoms = the claimed leaves and the proof items)
and evaluating afterwards is the same as running it over the values: the control flow of
`calculate_root` looks at positions only.  This lets soundness be argued on the expression tree the
verifier builds, without any position arithmetic.
-/
namespace CkbVerif.MMR

variable {α : Type}

inductive Expr (α : Type) where
  | atom (v : α)
  | node (l r : Expr α)

def Expr.eval (merge : α → α → α) : Expr α → α
  | .atom v => v
  | .node l r => merge (l.eval merge) (r.eval merge)

def Expr.atoms : Expr α → List α
  | .atom v => [v]
  | .node l r => l.atoms ++ r.atoms

/-- leaves `(pos, value)` with the value mapped -/
def mapL {β γ : Type} (f : β → γ) (l : List (Nat × β)) : List (Nat × γ) := l.map fun p => (p.1, f p.2)

theorem mapL_cons {β γ : Type} (f : β → γ) (p : Nat × β) (l : List (Nat × β)) :
    mapL f (p :: l) = (p.1, f p.2) :: mapL f l := rfl

theorem insertLeaf_mapL {β γ : Type} (f : β → γ) (x : Nat × β) (l : List (Nat × β)) :
    insertLeaf (x.1, f x.2) (mapL f l) = mapL f (insertLeaf x l) := by
  induction l with
  | nil => rfl
  | cons y ys ih =>
    simp only [mapL_cons, insertLeaf]
    split
    · rfl
    · simp only [mapL_cons, ih]

theorem sortLeaves_mapL {β γ : Type} (f : β → γ) (l : List (Nat × β)) :
    sortLeaves (mapL f l) = mapL f (sortLeaves l) := by
  induction l with
  | nil => rfl
  | cons x xs ih =>
    simp only [sortLeaves, mapL_cons, List.foldr_cons] at ih ⊢
    rw [ih, insertLeaf_mapL]

theorem dedupLeavesFrom_mapL {β γ : Type} (f : β → γ) (k : Nat) (l : List (Nat × β)) :
    dedupLeavesFrom k (mapL f l) = mapL f (dedupLeavesFrom k l) := by
  induction l generalizing k with
  | nil => rfl
  | cons y ys ih =>
    simp only [mapL_cons, dedupLeavesFrom]
    split
    · exact ih k
    · simp only [mapL_cons, ih]

theorem dedupLeaves_mapL {β γ : Type} (f : β → γ) (l : List (Nat × β)) :
    dedupLeaves (mapL f l) = mapL f (dedupLeaves l) := by
  cases l with
  | nil => rfl
  | cons x xs => simp only [mapL_cons, dedupLeaves, dedupLeavesFrom_mapL]

/-- queue entries `(pos, item, height)` with the item mapped -/
def mapQ {β γ : Type} (f : β → γ) (q : List (Nat × β × Nat)) : List (Nat × γ × Nat) :=
  q.map fun e => (e.1, f e.2.1, e.2.2)

theorem mapQ_cons {β γ : Type} (f : β → γ) (e : Nat × β × Nat) (q : List (Nat × β × Nat)) :
    mapQ f (e :: q) = (e.1, f e.2.1, e.2.2) :: mapQ f q := rfl

theorem mapQ_append {β γ : Type} (f : β → γ) (a b : List (Nat × β × Nat)) :
    mapQ f (a ++ b) = mapQ f a ++ mapQ f b := by simp [mapQ]

section hom
variable (merge : α → α → α)

local notation "ev" => Expr.eval merge

/-- `calculate_peak_root` commutes with evaluation -/
theorem calcPeakLoop_hom (peakPos : Nat) :
    ∀ (f : Nat) (queue : List (Nat × Expr α × Nat)) (proof : List (Expr α)),
      calcPeakLoop merge peakPos f (mapQ ev queue) (proof.map ev) =
        (calcPeakLoop Expr.node peakPos f queue proof).map fun r => (ev r.1, r.2.map ev) := by
  intro f
  induction f with
  | zero => intro queue proof; simp [calcPeakLoop]
  | succ f ih =>
    intro queue proof
    cases queue with
    | nil => simp [calcPeakLoop, mapQ]
    | cons e q =>
      obtain ⟨pos, item, height⟩ := e
      simp only [mapQ_cons, calcPeakLoop]
      by_cases hp : pos = peakPos
      · simp only [hp, if_true]
        cases q <;> simp [mapQ]
      · simp only [hp, if_false]
        generalize sibParent pos height = sp
        obtain ⟨sib, parent, isRight⟩ := sp
        simp only
        -- the sibling comes from the queue front or from the proof
        cases q with
        | nil =>
          cases proof with
          | nil => simp [mapQ]
          | cons pe prest =>
            simp only [mapQ, List.map_nil, List.map_cons, List.nil_append]
            by_cases hle : parent ≤ peakPos
            · simp only [hle, if_true]
              have := ih [(parent, (if isRight then Expr.node pe item else Expr.node item pe), height + 1)] prest
              simp only [mapQ, List.map_cons, List.map_nil] at this
              rw [← this]
              cases isRight <;> simp [Expr.eval]
            · simp [hle]
        | cons e2 qrest =>
          obtain ⟨p2, it2, h2⟩ := e2
          simp only [mapQ_cons]
          by_cases hs : p2 = sib
          · simp only [hs, if_true]
            by_cases hle : parent ≤ peakPos
            · simp only [hle, if_true]
              have := ih (qrest ++ [(parent, (if isRight then Expr.node it2 item else Expr.node item it2), height + 1)]) proof
              rw [mapQ_append] at this
              simp only [mapQ, List.map_cons, List.map_nil] at this
              simp only [mapQ]
              rw [← this]
              cases isRight <;> simp [Expr.eval]
            · simp [hle]
          · simp only [hs, if_false]
            cases proof with
            | nil => simp
            | cons pe prest =>
              simp only [List.map_cons]
              by_cases hle : parent ≤ peakPos
              · simp only [hle, if_true]
                have := ih ((p2, it2, h2) :: qrest ++ [(parent, (if isRight then Expr.node pe item else Expr.node item pe), height + 1)]) prest
                rw [mapQ_append] at this
                simp only [mapQ, List.map_cons, List.map_nil] at this
                simp only [mapQ, List.cons_append]
                simp only [List.cons_append] at this
                rw [← this]
                cases isRight <;> simp [Expr.eval]
              · simp [hle]

theorem mapQ_mapL (l : List (Nat × Expr α)) :
    (mapL ev l).map (fun x => (x.1, x.2, 0)) = mapQ ev (l.map fun x => (x.1, x.2, 0)) := by
  simp [mapL, mapQ]

theorem takeWhile_mapL {β γ : Type} (f : β → γ) (k : Nat) (l : List (Nat × β)) :
    (mapL f l).takeWhile (fun x => decide (x.1 ≤ k)) = mapL f (l.takeWhile fun x => decide (x.1 ≤ k)) := by
  induction l with
  | nil => rfl
  | cons y ys ih =>
    simp only [mapL_cons, List.takeWhile_cons]
    split
    · simp only [mapL_cons, ih]
    · rfl

theorem dropWhile_mapL {β γ : Type} (f : β → γ) (k : Nat) (l : List (Nat × β)) :
    (mapL f l).dropWhile (fun x => decide (x.1 ≤ k)) = mapL f (l.dropWhile fun x => decide (x.1 ≤ k)) := by
  induction l with
  | nil => rfl
  | cons y ys ih =>
    simp only [mapL_cons, List.dropWhile_cons]
    split
    · exact ih
    · rfl

/-- the per-peak loop of `calculate_peaks_hashes` commutes with evaluation -/
theorem calcPeaksLoop_hom :
    ∀ (peaks : List Nat) (leaves : List (Nat × Expr α)) (proof acc : List (Expr α)),
      calcPeaksLoop merge peaks (mapL ev leaves) (proof.map ev) (acc.map ev) =
        (calcPeaksLoop Expr.node peaks leaves proof acc).map
          fun r => (mapL ev r.1, r.2.1.map ev, r.2.2.map ev) := by
  intro peaks
  induction peaks with
  | nil => intro leaves proof acc; simp [calcPeaksLoop]
  | cons pk peaks ih =>
    intro leaves proof acc
    simp only [calcPeaksLoop, takeWhile_mapL, dropWhile_mapL]
    generalize hm : leaves.takeWhile (fun x => decide (x.1 ≤ pk)) = mine
    generalize leaves.dropWhile (fun x => decide (x.1 ≤ pk)) = rest
    cases mine with
    | nil =>
      simp only [mapL, List.map_nil]
      cases proof with
      | nil => simp [mapL]
      | cons e prest =>
        have := ih rest prest (acc ++ [e])
        simp only [List.map_append, List.map_cons, List.map_nil] at this
        simpa [mapL] using this
    | cons m1 mrest =>
      cases mrest with
      | nil =>
        obtain ⟨p, item⟩ := m1
        simp only [mapL, List.map_cons, List.map_nil]
        by_cases hp : p = pk
        · simp only [hp, if_true]
          have := ih rest proof (acc ++ [item])
          simp only [List.map_append, List.map_cons, List.map_nil] at this
          simpa [mapL] using this
        · simp only [hp, if_false]
          have hc := calcPeakLoop_hom merge pk (peakFuel pk 1) [(p, item, 0)] proof
          simp only [mapQ, List.map_cons, List.map_nil] at hc
          rw [hc]
          cases calcPeakLoop Expr.node pk (peakFuel pk 1) [(p, item, 0)] proof with
          | none => simp
          | some r =>
            have := ih rest r.2 (acc ++ [r.1])
            simp only [List.map_append, List.map_cons, List.map_nil] at this
            simpa [mapL] using this
      | cons m2 mrest2 =>
        simp only [mapL, List.map_cons, List.length_cons, List.length_map]
        have hc := calcPeakLoop_hom merge pk (peakFuel pk (mrest2.length + 1 + 1))
          ((m1 :: m2 :: mrest2).map fun l => (l.1, l.2, 0)) proof
        simp only [mapQ, List.map_cons, List.map_map] at hc
        simp only [List.map_map]
        have e : ((fun l : Nat × α => (l.1, l.2, 0)) ∘ fun p : Nat × Expr α => (p.1, ev p.2)) =
            ((fun e : Nat × Expr α × Nat => (e.1, ev e.2.1, e.2.2)) ∘ fun l : Nat × Expr α => (l.1, l.2, 0)) := by
          funext x; rfl
        rw [e, hc]
        cases calcPeakLoop Expr.node pk (peakFuel pk (mrest2.length + 1 + 1))
            ((m1.1, m1.2, 0) :: (m2.1, m2.2, 0) :: List.map (fun l => (l.1, l.2, 0)) mrest2) proof with
        | none => simp
        | some r =>
          have := ih rest r.2 (acc ++ [r.1])
          simp only [List.map_append, List.map_cons, List.map_nil] at this
          simpa [mapL] using this

theorem mergePeaks_hom (a b : Expr α) :
    mergePeaks merge (ev a) (ev b) = ev (mergePeaks Expr.node a b) := by
  unfold mergePeaks
  split <;> rfl

theorem bagRhsPeaks_hom (l : List (Expr α)) :
    bagRhsPeaks merge (l.map ev) = (bagRhsPeaks Expr.node l).map ev := by
  unfold bagRhsPeaks
  rw [← List.map_reverse]
  cases l.reverse with
  | nil => rfl
  | cons r rest =>
    simp only [List.map_cons, Option.map_some, Option.some.injEq]
    induction rest generalizing r with
    | nil => rfl
    | cons x xs ih =>
      simp only [List.map_cons, List.foldl_cons, mergePeaks_hom]
      exact ih _

theorem calculatePeaksHashes_hom (leaves : List (Nat × Expr α)) (mmrSize : Nat) (proof : List (Expr α)) :
    calculatePeaksHashes merge (mapL ev leaves) mmrSize (proof.map ev) =
      (calculatePeaksHashes Expr.node leaves mmrSize proof).map (List.map ev) := by
  have hany : (mapL ev leaves).any (fun l => decide (posHeightInTree l.1 > 0)) =
      leaves.any (fun l => decide (posHeightInTree l.1 > 0)) := by
    simp [mapL, List.any_map, Function.comp_def]
  have hkeys : (mapL ev leaves).map (·.1) = leaves.map (·.1) := by simp [mapL, Function.comp_def]
  have hvals : (mapL ev leaves).map (·.2) = (leaves.map (·.2)).map ev := by simp [mapL, Function.comp_def]
  have hlen : (mapL ev leaves).length = leaves.length := by simp [mapL]
  unfold calculatePeaksHashes
  rw [hany, hkeys, hvals, hlen]
  by_cases h1 : (leaves.any fun l => decide (posHeightInTree l.1 > 0)) = true
  · simp only [h1, if_true, Option.map_none]
  · simp only [h1]
    by_cases h2 : mmrSize = 1 ∧ leaves.length = 1 ∧ List.map (fun x => x.1) leaves = [0]
    · simp only [h2, and_self, if_true, Bool.false_eq_true, if_false, Option.map_some]
    · simp only [h2, if_false, Bool.false_eq_true]
      simp only [sortLeaves_mapL, dedupLeaves_mapL]
      have := calcPeaksLoop_hom merge (getPeaks mmrSize) (dedupLeaves (sortLeaves leaves)) proof []
      simp only [List.map_nil] at this
      rw [this]
      cases calcPeaksLoop Expr.node (getPeaks mmrSize) (dedupLeaves (sortLeaves leaves)) proof [] with
      | none => rfl
      | some r =>
        obtain ⟨remLeaves, remProof, hashes⟩ := r
        simp only [Option.map_some]
        have hemp : (mapL ev remLeaves).isEmpty = remLeaves.isEmpty := by cases remLeaves <;> rfl
        rw [hemp]
        by_cases h3 : (!remLeaves.isEmpty) = true
        · simp only [h3, if_true, Option.map_none]
        · simp only [h3, if_false, Bool.false_eq_true]
          cases remProof with
          | nil => rfl
          | cons e rest =>
            cases rest with
            | nil => simp
            | cons _ _ => rfl

/-- **`calculate_root` commutes with evaluation.** -/
theorem calculateRoot_hom (leaves : List (Nat × Expr α)) (mmrSize : Nat) (proof : List (Expr α)) :
    calculateRoot merge (mapL ev leaves) mmrSize (proof.map ev) =
      (calculateRoot Expr.node leaves mmrSize proof).map ev := by
  unfold calculateRoot
  rw [calculatePeaksHashes_hom]
  cases calculatePeaksHashes Expr.node leaves mmrSize proof with
  | none => rfl
  | some hashes => simp only [Option.map_some, baggingPeaksHashes, bagRhsPeaks_hom]

end hom

end CkbVerif.MMR
