import CkbVerif.Lemmas.Window

/-! Lemmas for the size of the proposal table (C20): block numbers occur at most once (the
association list behaves like the `BTreeMap`), and a duplicate-free list of numbers inside an
interval of `N` numbers has at most `N` elements. -/
namespace CkbVerif.Window

def Table.keys (t : Table) : List Nat := t.map (·.1)

theorem Table.keys_filter_sublist (t : Table) (p : Nat × Ids → Bool) :
    (Table.keys (t.filter p)).Sublist (Table.keys t) :=
  List.Sublist.map _ List.filter_sublist

theorem Table.nodup_insert {t : Table} {n : Nat} {ids : Ids} (h : (Table.keys t).Nodup) :
    (Table.keys (t.insert n ids)).Nodup := by
  show (Table.keys ((n, ids) :: t.filter (fun e => e.1 != n))).Nodup
  simp only [Table.keys, List.map_cons, List.nodup_cons]
  constructor
  · simp [List.mem_map, List.mem_filter]
  · exact List.Nodup.sublist (Table.keys_filter_sublist t _) h

theorem Table.nodup_remove {t : Table} {n : Nat} (h : (Table.keys t).Nodup) :
    (Table.keys (t.remove n)).Nodup :=
  List.Nodup.sublist (Table.keys_filter_sublist t _) h

theorem Table.nodup_splitOff {t : Table} {k : Nat} (h : (Table.keys t).Nodup) :
    (Table.keys (t.splitOff k)).Nodup :=
  List.Nodup.sublist (Table.keys_filter_sublist t _) h

theorem Table.nodup_insertAll {es : List (Nat × Ids)} {t : Table} (h : (Table.keys t).Nodup) :
    (Table.keys (t.insertAll es)).Nodup := by
  induction es generalizing t with
  | nil => exact h
  | cons e es ih => exact ih (Table.nodup_insert h)

theorem Table.nodup_removeAll {ns : List Nat} {t : Table} (h : (Table.keys t).Nodup) :
    (Table.keys (t.removeAll ns)).Nodup := by
  induction ns generalizing t with
  | nil => exact h
  | cons n ns ih => exact ih (Table.nodup_remove h)

theorem nodup_finalize {w : Win} {t : Table} {o : View} {number : Nat} (h : (Table.keys t).Nodup) :
    (Table.keys (finalize w t o number).1).Nodup := by
  simp only [finalize]
  split
  · exact Table.nodup_splitOff h
  · exact h

theorem nodup_updateTable {w : Win} {t : Table} {oldTip common : Nat} {branch newChain : List Ids}
    (h : (Table.keys t).Nodup) : (Table.keys (updateTable w t oldTip common branch newChain)).Nodup := by
  unfold updateTable
  simp only []
  have h2 := Table.nodup_insertAll (es := numbered (common + 1) branch)
    (Table.nodup_removeAll (ns := List.range' (common + 1) (oldTip - common)) h)
  split
  · split
    · exact h2
    · exact Table.nodup_insertAll h2
  · exact h2

theorem nodup_switch {w : Win} {s : Node} {common : Nat} {branch : List Ids}
    (h : (Table.keys s.table).Nodup) : (Table.keys (switch w s common branch).1.table).Nodup := by
  simp only [CkbVerif.Window.switch]
  exact nodup_finalize (nodup_updateTable h)

theorem nodup_init {w : Win} {chain : List Ids} : (Table.keys (init w chain).table).Nodup := by
  simp only [CkbVerif.Window.init]
  exact nodup_finalize (Table.nodup_insertAll (t := []) List.nodup_nil)

/-! ## counting -/

theorem length_le_filter_ne_succ {l : List Nat} (a : Nat) (h : l.Nodup) :
    l.length ≤ (l.filter (fun x => x != a)).length + 1 := by
  induction l with
  | nil => simp
  | cons b l ih =>
    rw [List.nodup_cons] at h
    by_cases hb : b = a
    · subst hb
      have : l.filter (fun x => x != b) = l := by
        apply List.filter_eq_self.mpr
        intro x hx
        simp only [bne_iff_ne, ne_eq]
        intro e; subst e; exact h.1 hx
      simp [this]
    · have hk : (b != a) = true := by simp [hb]
      simp only [List.filter_cons, hk, if_true, List.length_cons]
      have := ih h.2
      omega

/-- a duplicate-free list of numbers inside `[a, a + N)` has at most `N` elements -/
theorem length_le_of_nodup_interval (N a : Nat) (l : List Nat) (h : l.Nodup)
    (hb : ∀ x ∈ l, a ≤ x ∧ x < a + N) : l.length ≤ N := by
  induction N generalizing l with
  | zero =>
    cases l with
    | nil => simp
    | cons x l => have := hb x List.mem_cons_self; omega
  | succ N ih =>
    have h1 := length_le_filter_ne_succ (a + N) h
    have h2 : (l.filter (fun x => x != a + N)).length ≤ N := by
      apply ih
      · exact List.Nodup.sublist List.filter_sublist h
      · intro x hx
        rw [List.mem_filter] at hx
        have := hb x hx.1
        have hne : x ≠ a + N := by simpa using hx.2
        omega
    omega

end CkbVerif.Window
