import CkbVerif.Lemmas.IndexerAnswers

/-! `get_transactions` (ungrouped, exact mode, LOCK-script search) on a chain store = filter over the
replayed transaction history (C18). `IndexerTxAnswersT.lean` is the generated clone for TYPE search. -/
namespace CkbVerif.Indexer
open CkbVerif.Gen.Indexer

/-- exact mode on a TxLockScript row: prefix match plus the key-length test ⇔ same script -/
theorem exact_txLock (q sc : Script) (bn tx io : Nat) (t : IoType) :
    (isPrefix (KP_TX_LOCK_SCRIPT :: scriptRaw q) (Key.txLock sc bn tx io t).bytes = true ∧
      (Key.txLock sc bn tx io t).bytes.length = (KP_TX_LOCK_SCRIPT :: scriptRaw q).length + 17) ↔ sc = q := by
  constructor
  · rintro ⟨hp, hl⟩
    simp only [Key.bytes, scriptRaw, List.cons_append, List.nil_append, isPrefix, Bool.and_eq_true,
      decide_eq_true_eq, true_and] at hp
    simp only [Key.bytes, scriptRaw, List.cons_append, List.nil_append, List.length_cons,
      List.length_append, be_length, List.length_nil] at hl
    have hargs : q.args = sc.args := by
      apply isPrefix_append_eq q.args sc.args _ _ (by omega)
      · exact be bn 8 ++ be tx 4 ++ be io 4 ++ [ioByte t]
      · simpa [List.append_assoc] using hp.2
    cases q; cases sc
    simp_all
  · rintro rfl
    refine ⟨?_, ?_⟩
    · simp only [Key.bytes, scriptRaw, List.cons_append, List.nil_append, isPrefix, decide_true,
        Bool.true_and]
      rw [List.append_assoc, List.append_assoc, List.append_assoc]
      exact isPrefix_self_append _ _
    · simp [Key.bytes, scriptRaw, be_length]

theorem key_of_txLock_prefix (k : Key) (rest : List Nat)
    (h : isPrefix (KP_TX_LOCK_SCRIPT :: rest) k.bytes = true) :
    ∃ sc bn tx io t, k = .txLock sc bn tx io t := by
  cases k <;> simp [Key.bytes, isPrefix, KP_CELL_LOCK_SCRIPT, KP_OUT_POINT, KP_CONSUMED_OUT_POINT,
    KP_CELL_TYPE_SCRIPT, KP_TX_LOCK_SCRIPT, KP_TX_TYPE_SCRIPT, KP_TX_HASH, KP_HEADER] at h
  exact ⟨_, _, _, _, _, rfl⟩

theorem ioType_of_isInput (t : IoType) : (if decide (t = IoType.input) = true then IoType.input else IoType.output) = t := by
  cases t <;> rfl

/-- the answer built from the TxLockScript row `(q, bn, i, io, t) ↦ id` -/
def txRowOfLock (q : Script) (bn i io : Nat) (t : IoType) (id : Nat) : TxRow :=
  ⟨id, bn, i, io, decide (t = .input), (Key.txLock q bn i io t).bytes⟩

/-- **`get_transactions` by lock script, exact mode, ungrouped, unlimited = filter over the replayed
history**: the answers are exactly the rows of `replayTxLock blocks` under the searched script whose
sibling row under the filter script (if any) exists in `replayTxType blocks` and whose block number
is in the block range. -/
theorem getTxsLock_exact_eq_replay (keep interval : Nat) (blocks : List Block)
    (ok : ChainOK3 keep interval [] blocks) (okT : ChainOK3T keep interval [] blocks)
    (q : Script) (fs : Option Script) (br : Option (Nat × Nat)) (r : TxRow) :
    r ∈ (scan (blocks.foldl (append keep interval) []) (txPrefix true q)).filterMap
        (txAnsOf (blocks.foldl (append keep interval) []) true q true fs br) ↔
      ∃ bn i io t id, replayTxLock blocks q bn i io t = some id ∧
        (∀ f, fs = some f → (replayTxType blocks f bn i io t).isSome = true) ∧ inRange br bn = true ∧
        r = txRowOfLock q bn i io t id := by
  have hnd := nodup_chain keep interval blocks [] trivial
  have hL := txLock_eq_replay keep interval blocks ok
  have hT := txType_eq_replay keep interval blocks okT
  generalize blocks.foldl (append keep interval) [] = S at *
  have hpass : ∀ bn i io t id, txRowPasses S true fs br (txRowOfLock q bn i io t id) = true ↔
      ((∀ f, fs = some f → (replayTxType blocks f bn i io t).isSome = true) ∧ inRange br bn = true) := by
    intro bn i io t id
    unfold txRowPasses txRowOfLock
    simp only [Bool.and_eq_true, if_true, ioType_of_isInput]
    cases fs with
    | none => simp
    | some f => simp [hT, Option.isSome_map]
  have hpre : txPrefix true q = KP_TX_LOCK_SCRIPT :: scriptRaw q := rfl
  rw [List.mem_filterMap]
  constructor
  · rintro ⟨e, he, ha⟩
    rw [mem_scan] at he
    obtain ⟨hes, hp⟩ := he
    obtain ⟨sc, bn, i, io, t, hk⟩ := key_of_txLock_prefix e.1 _ (by simpa [hpre] using hp)
    obtain ⟨k, v⟩ := e
    simp only at hk
    subst hk
    unfold txAnsOf at ha
    rw [Option.filter_eq_some_iff] at ha
    obtain ⟨hd, hps⟩ := ha
    unfold decodeTxRow at hd
    split at hd
    · cases hd
    · rename_i hex
      simp only [Key.txFields] at hd
      have hlen : (Key.txLock sc bn i io t).bytes.length = (txPrefix true q).length + 17 := by simpa using hex
      have hsc : sc = q := (exact_txLock q sc bn i io t).mp ⟨by simpa [hpre] using hp, by simpa [hpre] using hlen⟩
      subst hsc
      have hg := (mem_iff_get S hnd _ _).mp hes
      rw [hL] at hg
      cases hrep : replayTxLock blocks sc bn i io t with
      | none => simp [hrep] at hg
      | some id =>
        simp only [hrep, Option.map_some, Option.some.injEq] at hg
        subst hg
        have hr : r = txRowOfLock sc bn i io t id := by cases hd; rfl
        subst hr
        exact ⟨bn, i, io, t, id, hrep, ((hpass bn i io t id).mp hps).1, ((hpass bn i io t id).mp hps).2, rfl⟩
  · rintro ⟨bn, i, io, t, id, hrep, hfs, hbr, rfl⟩
    have hex := (exact_txLock q q bn i io t).mpr rfl
    refine ⟨(Key.txLock q bn i io t, Val.tx id), ?_, ?_⟩
    · rw [mem_scan]
      refine ⟨?_, by simpa [hpre] using hex.1⟩
      rw [mem_iff_get S hnd, hL, hrep]; rfl
    · unfold txAnsOf
      rw [Option.filter_eq_some_iff]
      refine ⟨?_, (hpass bn i io t id).mpr ⟨hfs, hbr⟩⟩
      unfold decodeTxRow
      have hlen : (Key.txLock q bn i io t).bytes.length = (txPrefix true q).length + 17 := by
        simpa [hpre] using hex.2
      simp only [hlen, ne_eq, not_true_eq_false, decide_false, Bool.and_false, Bool.false_eq_true,
        if_false, Key.txFields, valTx]
      rfl

/-- the answers, in iteration order, are STRICTLY ascending in (block number, tx index, cell index,
io type) — inputs (byte 0) before outputs (byte 1) -/
theorem getTxsLock_exact_sorted (keep interval : Nat) (blocks : List Block)
    (hb : ∀ b ∈ blocks, BlockBounded b) (q : Script) (fs : Option Script) (br : Option (Nat × Nat)) :
    ((scan (blocks.foldl (append keep interval) []) (txPrefix true q)).filterMap
        (txAnsOf (blocks.foldl (append keep interval) []) true q true fs br)).Pairwise
      (fun a b => lex4Lt (a.bn, a.txIdx, a.io, if a.isInput then 0 else 1)
        (b.bn, b.txIdx, b.io, if b.isInput then 0 else 1)) := by
  have hkb := keysBounded_chain keep interval blocks [] (by intro e he; cases he) hb
  have hstrict := scan_strict_chain keep interval blocks hb KP_TX_LOCK_SCRIPT (scriptRaw q)
    (Or.inr (Or.inr (Or.inl rfl)))
  generalize blocks.foldl (append keep interval) [] = S at *
  have hpre : txPrefix true q = KP_TX_LOCK_SCRIPT :: scriptRaw q := rfl
  rw [← hpre] at hstrict
  have hdec : ∀ e ∈ scan S (txPrefix true q), ∀ a, txAnsOf S true q true fs br e = some a →
      ∃ bn i io t, e.1 = Key.txLock q bn i io t ∧ e.1.bounded = true ∧ a.bn = bn ∧ a.txIdx = i ∧ a.io = io ∧
        (if a.isInput then 0 else 1) = ioByte t := by
    intro e he a ha
    rw [mem_scan] at he
    obtain ⟨hes, hp⟩ := he
    obtain ⟨sc, bn, i, io, t, hk⟩ := key_of_txLock_prefix e.1 _ (by simpa [hpre] using hp)
    obtain ⟨k, v⟩ := e
    simp only at hk
    subst hk
    unfold txAnsOf at ha
    rw [Option.filter_eq_some_iff] at ha
    obtain ⟨hd, _⟩ := ha
    unfold decodeTxRow at hd
    split at hd
    · cases hd
    · rename_i hex
      simp only [Key.txFields] at hd
      have hlen : (Key.txLock sc bn i io t).bytes.length = (txPrefix true q).length + 17 := by simpa using hex
      have hsc : sc = q := (exact_txLock q sc bn i io t).mp ⟨by simpa [hpre] using hp, by simpa [hpre] using hlen⟩
      subst hsc
      cases hd
      refine ⟨bn, i, io, t, rfl, hkb _ hes, rfl, rfl, rfl, ?_⟩
      cases t <;> rfl
  have h2 := hstrict.imp_of_mem (S := fun x y => rowLt x y ∧ x ∈ scan S (txPrefix true q) ∧ y ∈ scan S (txPrefix true q))
    (fun hx hy hxy => ⟨hxy, hx, hy⟩)
  apply List.Pairwise.filterMap _ _ h2
  intro x y ⟨hxy, hx, hy⟩ a ha b hb'
  obtain ⟨bn1, i1, io1, t1, hk1, hbd1, e1, e2, e3, e4⟩ := hdec x hx a ha
  obtain ⟨bn2, i2, io2, t2, hk2, hbd2, f1, f2, f3, f4⟩ := hdec y hy b hb'
  rw [e1, e2, e3, e4, f1, f2, f3, f4]
  unfold rowLt at hxy
  rw [hk1, hk2] at hxy
  rw [hk1] at hbd1
  rw [hk2] at hbd2
  exact txLockKey_lt q _ _ _ _ _ _ _ _ hbd1 hbd2 hxy

end CkbVerif.Indexer
