/-
`pass` of the combined model (`Model/FreezeSys.lean`: rows + freezer FILES, the function of the Rust
control flow) and `freeze` of the abstract model (`Model/Freeze.lean`: rows + list of frozen blocks,
the function the driver answers with) compute the same state.

The two append loops are written differently (the abstract one tests `n ≥ thr` with spare fuel, the
file one runs `thr - number` iterations and tests the stop flag / `append`'s number check) and the two
wipes read different things (the abstract one the frozen blocks' own `number`, the file one the
height in the returned map); the lemmas below show they coincide on every state satisfying the
combined invariant.
-/
import CkbVerif.Lemmas.FreezeSys
namespace CkbVerif.FreezeSys
open CkbVerif.Store CkbVerif.Freeze CkbVerif.Freezer
open CkbVerif.FreezerTop (TopInv Top noStop specRun tipHash entries)

theorem tipHash_up (k : Codec) (l : List Block) :
    tipHash (l.map (up k)) = l.getLast?.map (·.id) := by
  unfold tipHash
  rw [List.getLast?_map]
  cases l.getLast? <;> rfl

/-- **the two append loops agree**: the abstract loop (`Freeze.freezeLoop`, any fuel ≥ the distance
to the threshold) and the pure specification of the file loop (`specRun`, which
`FreezerTop.freeze_spec` shows the file loop refines) append the same blocks and fail together -/
theorem loops_agree (k : Codec) (get : Nat → Option Block) (thr : Nat) :
    ∀ (d fuel n : Nat) (frozen : List Block), thr - n = d → d ≤ fuel →
      ∃ new err, Freeze.freezeLoop get thr fuel n frozen = (frozen ++ new, err) ∧
        specRun (fun n => (get n).map (up k)) noStop d n (tipHash (frozen.map (up k)))
          = (new.map (up k), !err)
  | 0, fuel, n, frozen, hd, _ => by
    refine ⟨[], false, ?_, by simp [specRun]⟩
    cases fuel with
    | zero => simp [Freeze.freezeLoop]
    | succ f =>
      unfold Freeze.freezeLoop
      have : n ≥ thr := by omega
      simp [this]
  | d + 1, fuel, n, frozen, hd, hf => by
    obtain ⟨f, rfl⟩ : ∃ f, fuel = f + 1 := ⟨fuel - 1, by omega⟩
    have hlt : ¬ n ≥ thr := by omega
    unfold Freeze.freezeLoop specRun
    simp only [hlt, if_false, noStop, Bool.false_eq_true]
    cases hg : get n with
    | none => exact ⟨[], false, by simp, by simp⟩
    | some b =>
      simp only [Option.map_some]
      obtain ⟨new, err, h1, h2⟩ := loops_agree k get thr d f (n + 1) (frozen ++ [b]) (by omega) (by omega)
      have htip : tipHash ((frozen ++ [b]).map (up k)) = some (up k b).hash := by
        rw [List.map_append]; exact FreezerTop.tipHash_snoc _ _
      rw [htip] at h2
      rw [tipHash_up]
      cases hl : frozen.getLast? with
      | none =>
        simp only [Option.map_none, FreezerTop.mismatch, Bool.false_eq_true, if_false]
        refine ⟨b :: new, err, by rw [h1]; simp, ?_⟩
        rw [h2]; simp
      | some t =>
        by_cases hp : t.id = b.parent
        · have hm : FreezerTop.mismatch (Option.map (fun x => x.id) (some t)) (up k b) = false := by
            simp [FreezerTop.mismatch, up, hp]
          simp only [hm, Bool.false_eq_true, if_false, hp, ne_eq, not_true_eq_false]
          refine ⟨b :: new, err, by rw [h1]; simp, ?_⟩
          rw [h2]; simp
        · have hm : FreezerTop.mismatch (Option.map (fun x => x.id) (some t)) (up k b) = true := by
            simp [FreezerTop.mismatch, up, hp]
          simp only [hm, if_true, ne_eq, hp, not_false_eq_true]
          exact ⟨[], true, by simp, by simp⟩

/-! ### the two wipes agree -/

theorem abs_wipeBody (r : FS) (fr : List Block) (x : Nat) : abs (wipeBody r x) fr = wipeBody (abs r fr) x := rfl
theorem abs_wipeSide (r : FS) (fr : List Block) (x : Nat) : abs (wipeSide r x) fr = wipeSide (abs r fr) x := rfl

theorem abs_foldl_wipeSide (ids : List Nat) : ∀ (r : FS) (fr : List Block),
    abs (ids.foldl wipeSide r) fr = ids.foldl wipeSide (abs r fr) := by
  induction ids with
  | nil => intro r fr; rfl
  | cons x rest ih => intro r fr; simp only [List.foldl_cons]; rw [ih, abs_wipeSide]

theorem entries_up_cons (k : Codec) (n : Nat) (b : Block) (rest : List Block) :
    entries n ((b :: rest).map (up k)) = (b.id, n, b.txs.length) :: entries (n + 1) (rest.map (up k)) := rfl

theorem abs_foldl_wipeBody (k : Codec) (new : List Block) : ∀ (n : Nat) (r : FS) (fr : List Block),
    abs ((entries n (new.map (up k))).foldl (fun r e => wipeBody r e.1) r) fr
      = new.foldl (fun s b => wipeBody s b.id) (abs r fr) := by
  induction new with
  | nil => intro n r fr; rfl
  | cons b rest ih =>
    intro n r fr
    rw [entries_up_cons]
    simp only [List.foldl_cons]
    rw [ih, abs_wipeBody]

/-- the side scan on the returned map (heights) is the side scan on the blocks' own numbers, when
every appended block carries the height it was frozen at -/
theorem any_entries_eq (k : Codec) (r : FS) (id : Nat) (new : List Block) : ∀ (n : Nat),
    (∀ j b, new[j]? = some b → b.number = n + j) →
    (entries n (new.map (up k))).any (fun e => numberOfId r id == e.2.1 && id != e.1)
      = new.any (fun b => numberOfId r id == b.number && id != b.id) := by
  induction new with
  | nil => intro n _; rfl
  | cons b rest ih =>
    intro n hnum
    rw [entries_up_cons]
    simp only [List.any_cons]
    have h0 : b.number = n := by simpa using hnum 0 b (by simp)
    rw [ih (n + 1) (fun j b' hj => by
      have := hnum (j + 1) b' (by simpa using hj)
      omega), h0]

theorem sideOfRet_eq (k : Codec) (r : FS) (fr : List Block) (new : List Block) (n : Nat)
    (hnum : ∀ j b, new[j]? = some b → b.number = n + j) :
    sideOfRet r (entries n (new.map (up k))) = sideOf (abs r fr) new := by
  unfold sideOfRet sideOf
  show r.stored.filter _ = r.stored.filter _
  congr 1
  funext id
  exact any_entries_eq k r id new n hnum

theorem wipeRet_eq (k : Codec) (r : FS) (fr : List Block) (new : List Block) (n : Nat)
    (hnum : ∀ j b, new[j]? = some b → b.number = n + j) :
    abs (wipeRet r (entries n (new.map (up k)))) fr = wipe (abs r fr) new := by
  unfold wipeRet wipe
  rw [abs_foldl_wipeSide, abs_foldl_wipeBody, sideOfRet_eq k r fr new n hnum]

/-- **`pass` = `freeze`.**  On every combined state satisfying the invariant (files hold `chain`),
one whole pass of `Shared::freeze` on rows + FILES (no stop request) and one `freeze` of the abstract
model on rows + the list `chain` return the same result code, leave the same rows (header flags,
body flags, NUMBER_HASH rows, chain view), and the files afterwards hold exactly the abstract model's
list of frozen blocks. -/
theorem pass_eq_freeze_core {k : Codec} {s : Sys} {chain : List Block} (h : SysInv k s chain) :
    (pass k s noStop).2 = (freeze (abs s.rows chain)).2 ∧
    abs (pass k s noStop).1.rows (freeze (abs s.rows chain)).1.frozen = (freeze (abs s.rows chain)).1 ∧
    TopInv k.cfg (pass k s noStop).1.top ((freeze (abs s.rows chain)).1.frozen.map (up k)) := by
  have hn : s.top.number = chain.length + 1 := top_number h.files
  have hthr : threshold (abs s.rows chain) = thresholdAt s.rows s.top.number := by
    rw [hn]; rfl
  unfold pass freeze
  rw [hthr]
  cases hth : thresholdAt s.rows s.top.number with
  | idle => exact ⟨rfl, rfl, h.files⟩
  | panic => exact ⟨rfl, rfl, h.files⟩
  | «at» thr =>
    simp only
    obtain ⟨hout, hinv'⟩ := FreezerTop.freeze_spec h.files thr (source k s.rows) noStop
    obtain ⟨new, err, hl, hsp⟩ := loops_agree k (getUnfrozen s.rows) thr (thr - (chain.length + 1))
      (thr + 1) (chain.length + 1) chain rfl (by omega)
    have hsrc : (fun n => (getUnfrozen s.rows n).map (up k)) = source k s.rows := rfl
    rw [hsrc] at hsp
    rw [up_map_length] at hout hinv'
    rw [hsp] at hout hinv'
    have hl' : Freeze.freezeLoop (getUnfrozen (abs s.rows chain)) thr (thr + 1)
        (frozenNumber (abs s.rows chain)) (abs s.rows chain).frozen = (chain ++ new, err) := hl
    rw [hl']
    have hout' : (stepFreeze k s thr noStop).2 =
        (if (!err) = true then FreezerTop.FreezeOut.ok (entries (chain.length + 1) (new.map (up k)))
         else .err) := hout
    have hinv'' : TopInv k.cfg (stepFreeze k s thr noStop).1.top ((chain ++ new).map (up k)) := by
      rw [List.map_append]; exact hinv'
    cases err with
    | true =>
      simp only [Bool.not_true, Bool.false_eq_true, if_false] at hout'
      rw [hout']
      exact ⟨rfl, rfl, hinv''⟩
    | false =>
      simp only [Bool.not_false, if_true] at hout'
      rw [hout']
      simp only [Bool.false_eq_true, if_false]
      have hdrop : (chain ++ new).drop (abs s.rows chain).frozen.length = new := by
        show (chain ++ new).drop chain.length = new
        simp
      rw [hdrop]
      -- every appended block carries its height
      obtain ⟨new', hi1, hget, _, _, _⟩ := stepFreeze_inv h thr noStop
      have hnum : ∀ j b, new[j]? = some b → b.number = chain.length + 1 + j := by
        intro j b hj
        -- `new` is what the abstract loop read from `getUnfrozen`
        obtain ⟨nw, h1, _, h3⟩ := Freeze.freezeLoop_spec (getUnfrozen s.rows) thr (thr + 1) (chain.length + 1) chain
        rw [hl] at h1
        have : nw = new := by
          have := List.append_cancel_left h1.symm
          exact this
        subst this
        exact (getUnfrozen_of_main (abs s.rows chain) h.inv _ b (h3 j b hj)).2.2
      have hw := wipeRet_eq k s.rows (chain ++ new) new (chain.length + 1) hnum
      refine ⟨trivial, ?_, ?_⟩
      · show abs (wipeRet s.rows (entries (chain.length + 1) (new.map (up k)))) _ = _
        have hfr : ∀ (a : FS) (l : List Block), (wipe a l).frozen = a.frozen := by
          intro a l
          unfold wipe
          have hb : ∀ (l : List Block) (a : FS), (l.foldl (fun s b => wipeBody s b.id) a).frozen = a.frozen := by
            intro l
            induction l with
            | nil => intro a; rfl
            | cons b rest ih => intro a; simp only [List.foldl_cons]; rw [ih]; rfl
          have hs : ∀ (ids : List Nat) (a : FS), (ids.foldl wipeSide a).frozen = a.frozen := by
            intro ids
            induction ids with
            | nil => intro a; rfl
            | cons x rest ih => intro a; simp only [List.foldl_cons]; rw [ih]; rfl
          rw [hs, hb]
        rw [hfr]
        exact hw
      · have hfr : (wipe { abs s.rows chain with frozen := chain ++ new } new).frozen = chain ++ new := by
          have hb : ∀ (l : List Block) (a : FS), (l.foldl (fun s b => wipeBody s b.id) a).frozen = a.frozen := by
            intro l
            induction l with
            | nil => intro a; rfl
            | cons b rest ih => intro a; simp only [List.foldl_cons]; rw [ih]; rfl
          have hs : ∀ (ids : List Nat) (a : FS), (ids.foldl wipeSide a).frozen = a.frozen := by
            intro ids
            induction ids with
            | nil => intro a; rfl
            | cons x rest ih => intro a; simp only [List.foldl_cons]; rw [ih]; rfl
          unfold wipe
          rw [hs, hb]
        rw [hfr]
        exact hinv''

end CkbVerif.FreezeSys
