import CkbVerif.Lemmas.MMRComplete
/-!
# Completeness of `gen_proof` followed by `calculate_root` on an MMR built by pushes
-/
namespace CkbVerif.MMR

variable {α : Type}

theorem valsT_eq (merge : α → α → α) (mts : List (Nat × Expr α)) :
    (mts.map (gmap merge)).map (·.2) = valsT merge mts := by
  simp [valsT, gmap, Function.comp_def]

theorem valsT_append (merge : α → α → α) (a b : List (Nat × Expr α)) :
    valsT merge (a ++ b) = valsT merge a ++ valsT merge b := by
  simp [valsT]

/-- **core of `proof_complete`**: strictly increasing claimed leaf positions, each a stored height-0
position below `mmr_size` -/
theorem complete_core (merge : α → α → α) (m : MMR α) (mts : List (Nat × Expr α))
    (h2 : Inv2 merge m mts) (L : List (Nat × α)) (hLne : L ≠ []) (hL : LOK m.store 0 L)
    (hlt : ∀ l ∈ L, l.1 < m.size) :
    ∃ proof root, genProof merge m (L.map (·.1)) = some proof ∧ getRoot merge m = some root ∧
      calculateRoot merge L m.size proof = some root := by
  obtain ⟨⟨b, hd⟩, hsize, hhas⟩ := h2.inv
  rw [heights_map_gm] at hd hsize
  -- the root
  have hmne : mts ≠ [] := by
    intro e
    obtain ⟨l, hl⟩ := List.exists_mem_of_ne_nil L hLne
    have := hlt l hl
    rw [hsize, e] at this
    simp [heights, szH] at this
  obtain ⟨root, hroot⟩ := bagRhsPeaks_isSome merge (valsT merge mts) (by
    intro e; apply hmne; simpa [valsT] using e)
  have hgr : getRoot merge m = some root := by
    rw [getRoot_inv merge m _ h2.inv (by simpa using hmne), ← bag_vals, valsT_eq, hroot]
  have hany : (L.map (·.1)).any (fun p => decide (posHeightInTree p > 0)) = false := by
    rw [List.any_eq_false]
    intro p hp
    obtain ⟨l, hl, rfl⟩ := List.mem_map.1 hp
    simp [hL.h0 l hl]
  have hanyL : L.any (fun l => decide (posHeightInTree l.1 > 0)) = false := by
    rw [List.any_eq_false]
    intro l hl
    simp [hL.h0 l hl]
  have hposne : (L.map (·.1)).isEmpty = false := by
    cases L with
    | nil => exact absurd rfl hLne
    | cons _ _ => rfl
  have hpsorted : (L.map (·.1)).Pairwise (· < ·) := by
    rw [List.pairwise_map]; exact hL.sorted
  by_cases hs1 : m.size = 1
  · -- a single leaf
    have hL0 : ∀ l ∈ L, l.1 = 0 := fun l hl => by have := hlt l hl; omega
    obtain ⟨l0, v0, hLeq⟩ : ∃ l0 v0, L = [(l0, v0)] := by
      cases L with
      | nil => exact absurd rfl hLne
      | cons x xs =>
        cases xs with
        | nil => exact ⟨x.1, x.2, rfl⟩
        | cons y ys =>
          have : x.1 < y.1 := (List.pairwise_cons.1 hL.sorted).1 y (by simp)
          have := hL0 x (by simp)
          have := hL0 y (by simp)
          omega
    subst hLeq
    have hl0 : l0 = 0 := hL0 (l0, v0) (by simp)
    subst hl0
    have hst : m.store 0 = some v0 := hL.stored (0, v0) (by simp)
    have hr : getRoot merge m = some v0 := by simp [getRoot, hs1, hst]
    rw [hgr] at hr
    refine ⟨[], root, ?_, hgr, ?_⟩
    · simp [genProof, hs1]
    · have hh : posHeightInTree 0 = 0 := hL.h0 (0, v0) (by simp)
      simp [calculateRoot, calculatePeaksHashes, hs1, hh, baggingPeaksHashes, bagRhsPeaks]
      exact (Option.some.inj hr).symm
  · -- general case: split the mountains around the one holding the largest claimed position
    obtain ⟨xm, hxm, hmax⟩ := exists_max L hLne
    obtain ⟨F0, ml, E, hsplit, hlo, hhi⟩ := split_at mts 0 xm.1 (Nat.zero_le _)
      (by rw [← hsize]; simpa using hlt xm hxm)
    obtain ⟨hml, tml⟩ := ml
    simp only [Nat.zero_add] at hlo hhi
    have p0 := Nat.two_pow_pos hml
    have p1 := two_pow_succ hml
    have htrees := h2.trees
    rw [hsplit, Trees_append] at htrees
    simp only [Nat.zero_add] at htrees
    have hsuball : SubAll 0 (heights mts) := by
      have := SubAll_of_desc (heights mts) [] b (by simpa using hd)
      simpa [szH] using this
    rw [hsplit, heights_append, SubAll_append] at hsuball
    simp only [Nat.zero_add] at hsuball
    have hhi' : xm.1 < szH (heights F0) + (2 ^ (hml + 1) - 1) := by
      rw [heights_append, szH_append] at hhi
      simpa [heights, szH] using hhi
    have hgp : getPeaks m.size = peaksAt 0 (heights F0) ++
        (rp (szH (heights F0)) hml :: peaksAt (szH (heights F0) + (2 ^ (hml + 1) - 1)) (heights E)) := by
      have h1 : getPeaks m.size = peaksAt 0 (heights mts) := by
        cases hh : heights mts with
        | nil => exfalso; apply hmne; simpa [heights] using hh
        | cons K rest => rw [hsize, hh]; rw [hh] at hd; exact getPeaks_spec hd
      rw [h1, hsplit, heights_append, peaksAt_append]
      simp only [Nat.zero_add]
      rfl
    -- the claimed leaves from the last non-empty mountain on
    have hL1 := hL.drop (szH (heights F0))
    have hsub1 := (List.dropWhile_sublist (fun l : Nat × α => decide (l.1 < szH (heights F0))) (l := L)).subset
    have hall1 : ∀ l ∈ L.dropWhile (fun l => decide (l.1 < szH (heights F0))),
        (fun l : Nat × α => decide (l.1 ≤ rp (szH (heights F0)) hml)) l = true := by
      intro l hl
      have := hmax l (hsub1 hl)
      exact decide_eq_true (by simp only [rp]; omega)
    have htw := takeWhile_all _ _ hall1
    have hdw := dropWhile_all _ _ hall1
    have hne1 : (L.dropWhile (fun l => decide (l.1 < szH (heights F0)))).isEmpty = false := by
      have := mem_dropWhile_ge L (szH (heights F0)) xm hxm hlo
      cases hq : L.dropWhile (fun l => decide (l.1 < szH (heights F0))) with
      | nil => rw [hq] at this; simp at this
      | cons _ _ => rfl
    obtain ⟨X0, g0, c0, -⟩ := peaks_steps merge m.store F0 0 L htrees.1 hsuball.1 hL
    obtain ⟨X1, g1, c1, -⟩ := peak_step merge m.store hml tml (szH (heights F0)) htrees.2.1 hsuball.2.1 _ hL1
    obtain ⟨X2, g2, c2, e2⟩ := peaks_steps merge m.store E (szH (heights F0) + (2 ^ (hml + 1) - 1)) []
      htrees.2.2 hsuball.2.2 ⟨by simp, by simp, by simp, by simp⟩
    have hX2 := e2 rfl
    subst hX2
    simp only [Nat.zero_add] at g0 c0
    -- gen_proof's loop over the peaks
    have hgen : genProofPeaks m.store (getPeaks m.size) (L.map (·.1)) [] 0 =
        some ([], X0 ++ X1 ++ valsT merge E, E.length) := by
      obtain ⟨tr0, hg0, -⟩ := g0 (rp (szH (heights F0)) hml ::
        peaksAt (szH (heights F0) + (2 ^ (hml + 1) - 1)) (heights E)) [] 0
      obtain ⟨tr2, hg2, htr2⟩ := g2 [] (X0 ++ X1) 0
      rw [hgp, hg0, gen_peak_unfold m.store _ _ _ _ X1 tr0 (g1 _), htw, hdw, hne1]
      simp only [List.append_nil, List.map_nil, List.nil_append, Bool.false_eq_true, if_false] at hg2 ⊢
      rw [hg2, htr2 rfl]
      simp [genProofPeaks]
    have hcalc : ∀ pr, calcPeaksLoop merge (getPeaks m.size) L (X0 ++ (X1 ++ pr)) [] =
        calcPeaksLoop merge (peaksAt (szH (heights F0) + (2 ^ (hml + 1) - 1)) (heights E)) [] pr
          (valsT merge F0 ++ [tml.eval merge]) := by
      intro pr
      rw [hgp, c0, c1, hdw]
      simp
    have hvals : valsT merge mts = (valsT merge F0 ++ [tml.eval merge]) ++ valsT merge E := by
      rw [hsplit, valsT_append]; simp [valsT]
    have hsl : dedupLeaves (sortLeaves L) = L := by
      rw [sortLeaves_sorted L hL.sorted, dedupLeaves_strict L (strictK_of_pairwise L hL.sorted)]
    by_cases hE : E.length > 1
    · -- the trailing peaks are bagged into one proof item
      obtain ⟨bb, hbb⟩ := bagRhsPeaks_isSome merge (valsT merge E) (by
        intro e
        have : (valsT merge E).length = E.length := by simp [valsT]
        rw [e] at this; simp at this; omega)
      have hlenE : (valsT merge E).length = E.length := by simp [valsT]
      refine ⟨X0 ++ X1 ++ [bb], root, ?_, hgr, ?_⟩
      · have ht : (X0 ++ X1 ++ valsT merge E).length - E.length = (X0 ++ X1).length := by
          simp only [List.length_append, hlenE]; omega
        simp only [genProof, hposne, Bool.false_eq_true, if_false, hs1, false_and, hany,
          sortNat_sorted _ hpsorted, dedupAdj_sorted _ hpsorted, hgen, List.isEmpty_nil, Bool.not_true, hE,
          if_true, ht, List.take_left', List.drop_left', hbb]
      · obtain ⟨e1, E1, rfl⟩ : ∃ e1 E1, E = e1 :: E1 := by
          cases E with
          | nil => simp at hE
          | cons e1 E1 => exact ⟨e1, E1, rfl⟩
        obtain ⟨eb, E2, rfl⟩ : ∃ eb E2, E1 = eb :: E2 := by
          cases E1 with
          | nil => simp at hE
          | cons eb E2 => exact ⟨eb, E2, rfl⟩
        have hc := hcalc [bb]
        simp only [heights, List.map_cons, peaksAt] at hc
        simp only [calculateRoot, calculatePeaksHashes, hanyL, Bool.false_eq_true, if_false, hs1, false_and,
          hsl, List.append_assoc, hc, calcPeaksLoop, List.takeWhile_nil, List.dropWhile_nil, List.isEmpty_nil,
          Bool.not_true, baggingPeaksHashes]
        rw [← List.append_assoc, bagRhsPeaks_snoc_bag merge _ _ bb hbb, ← hvals, hroot]
    · refine ⟨X0 ++ X1 ++ valsT merge E, root, ?_, hgr, ?_⟩
      · simp only [genProof, hposne, Bool.false_eq_true, if_false, hs1, false_and, hany,
          sortNat_sorted _ hpsorted, dedupAdj_sorted _ hpsorted, hgen, List.isEmpty_nil, Bool.not_true, hE]
      · have hc := hcalc (valsT merge E)
        have hc2 := c2 [] [] (valsT merge F0 ++ [tml.eval merge])
        simp only [List.append_nil, List.dropWhile_nil] at hc2
        rw [hc2] at hc
        simp only [calculateRoot, calculatePeaksHashes, hanyL, Bool.false_eq_true, if_false, hs1, false_and,
          hsl, List.append_assoc, hc, calcPeaksLoop, List.isEmpty_nil, Bool.not_true, baggingPeaksHashes]
        rw [← List.append_assoc, ← hvals, hroot]

/-! ## where the leaves are -/

theorem Inv2_empty (merge : α → α → α) (s0 : Store α) : Inv2 merge (⟨0, s0⟩ : MMR α) [] :=
  ⟨⟨⟨0, trivial⟩, rfl, trivial⟩, trivial⟩

theorem split_getElem (l : List α) (i : Nat) (x : α) (h : l[i]? = some x) :
    ∃ a c, l = a ++ x :: c ∧ a.length = i := by
  induction l generalizing i with
  | nil => simp at h
  | cons y ys ih =>
    cases i with
    | zero =>
      simp at h; subst h
      exact ⟨[], ys, rfl, rfl⟩
    | succ i =>
      simp at h
      obtain ⟨a, c, e, hl⟩ := ih i h
      exact ⟨y :: a, c, by rw [e]; rfl, by simp [hl]⟩

theorem foldl_atoms_hom (merge : α → α → α) (a : List α) (ms : List (Nat × Expr α)) :
    List.map (gmap merge) (a.foldl (fun acc x => pushD Expr.node acc (Expr.atom x)) ms) =
      a.foldl (pushD merge) (ms.map (gmap merge)) := by
  induction a generalizing ms with
  | nil => rfl
  | cons x xs ih =>
    simp only [List.foldl_cons]
    rw [ih]
    have := pushD_hom merge ms (Expr.atom x)
    simp only [Expr.eval] at this
    rw [this]

/-- after pushing `a ++ x :: c` from scratch the leaf `x` sits at `leaf_index_to_pos |a|`, a
height-0 position below `mmr_size`, and the whole state satisfies `Inv2` -/
theorem leaf_facts (merge : α → α → α) (s0 : Store α) (a : List α) (x : α) (c : List α) :
    ∃ m mts, pushAll merge ⟨0, s0⟩ (a ++ x :: c) = some m ∧ Inv2 merge m mts ∧
      m.store (leafIndexToPos a.length) = some x ∧ posHeightInTree (leafIndexToPos a.length) = 0 ∧
      leafIndexToPos a.length < m.size := by
  obtain ⟨ma, hma, hia, -, -⟩ := pushAll_inv2 merge _ _ a (Inv2_empty merge s0)
  obtain ⟨m1, hp, hi1, hst1, hx⟩ := push_inv2 merge ma _ x hia
  obtain ⟨m1', hp', -, -, hlt1⟩ := push_inv merge ma _ x hia.inv
  rw [hp] at hp'
  simp only [Option.some.injEq, Prod.mk.injEq, and_true] at hp'
  subst hp'
  obtain ⟨m, hm, hi, hst, hle⟩ := pushAll_inv2 merge m1 _ c hi1
  -- the size before the push is `leaf_index_to_pos |a|`
  obtain ⟨⟨b, hd⟩, hsz, -⟩ := hia.inv
  have hspec : List.map (gmap merge) (a.foldl (fun acc x => pushD Expr.node acc (Expr.atom x)) []) =
      specD merge a := foldl_atoms_hom merge a []
  rw [hspec] at hd hsz
  obtain ⟨-, hlc⟩ := leafCount_specD merge a
  have hpos := leafIndexToPos_spec hd
  rw [hlc] at hpos
  have hh0 := posHeight_spec hd (j := 0) (by omega)
  refine ⟨m, _, ?_, hi, ?_, ?_, ?_⟩
  · rw [pushAll_append, hma]
    simp [pushAll, hp, hm]
  · rw [hpos, ← hsz, hst _ hlt1]; exact hx
  · rw [hpos]; simpa using hh0
  · rw [hpos, ← hsz]; omega

/-! ## `leaf_index_to_pos` is strictly increasing -/

theorem leafIndexToPos_succ_lt (n : Nat) : leafIndexToPos n < leafIndexToPos (n + 1) := by
  obtain ⟨⟨b, hd⟩, hlc⟩ := leafCount_specD (fun (_ _ : Unit) => ()) (List.replicate n ())
  simp only [List.length_replicate] at hlc
  have h1 := leafIndexToPos_spec hd
  have hd' := DescB_inc (DescB_mono hd (Nat.le_max_left b
    ((heights (specD (fun (_ _ : Unit) => ()) (List.replicate n ()))).length + 1)))
    (by omega)
  have h2 := leafIndexToPos_spec hd'
  rw [leafCount_inc hd, szH_inc hd] at h2
  rw [hlc] at h1 h2
  omega

theorem leafIndexToPos_strictMono {i j : Nat} (h : i < j) : leafIndexToPos i < leafIndexToPos j := by
  induction j with
  | zero => omega
  | succ j ih =>
    have := leafIndexToPos_succ_lt j
    by_cases e : i = j
    · subst e; exact this
    · have := ih (by omega); omega

end CkbVerif.MMR
