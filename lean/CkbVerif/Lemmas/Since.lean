import CkbVerif.Model.Since
import Mathlib.Tactic.Ring

/-!
Helper lemmas for C04 (`Model/Since.lean`): flag decoding as div/mod, `RationalU256` operations
represent exact fractions, epoch conversion.
-/
namespace CkbVerif.Since
open CkbVerif.Gen.Tx

/-! ### flag masks are bit fields -/
theorem and_shifted_mask (s k w : Nat) : s &&& ((2 ^ w - 1) * 2 ^ k) = (s / 2 ^ k % 2 ^ w) * 2 ^ k := by
  apply Nat.eq_of_testBit_eq
  intro i
  rw [Nat.testBit_and, Nat.testBit_mul_two_pow, Nat.testBit_mul_two_pow]
  by_cases h : k ≤ i
  · simp [h, Nat.testBit_mod_two_pow, Nat.testBit_div_two_pow, Nat.testBit_two_pow_sub_one]
    exact Bool.and_comm _ _
  · simp [h]

theorem mask_eq (s k w m : Nat) (hm : m = (2 ^ w - 1) * 2 ^ k) : s &&& m = (s / 2 ^ k % 2 ^ w) * 2 ^ k := by
  subst hm; exact and_shifted_mask s k w

theorem value_eq (s : Nat) : s &&& VALUE_MASK = s % 2 ^ 56 := by
  have := mask_eq s 0 56 VALUE_MASK (by decide)
  simpa using this

theorem metric_eq (s : Nat) : s &&& METRIC_TYPE_FLAG_MASK = (s / 2 ^ 61 % 4) * 2 ^ 61 :=
  mask_eq s 61 2 _ (by decide)

theorem remain_eq (s : Nat) : s &&& REMAIN_FLAGS_BITS = (s / 2 ^ 56 % 32) * 2 ^ 56 :=
  mask_eq s 56 5 _ (by decide)

theorem lock_eq (s : Nat) : s &&& LOCK_TYPE_FLAG = (s / 2 ^ 63 % 2) * 2 ^ 63 :=
  mask_eq s 63 1 _ (by decide)

theorem isAbsolute_iff (s : Nat) : isAbsolute s = true ↔ s / 2 ^ 63 % 2 = 0 := by
  unfold isAbsolute
  rw [lock_eq]
  simp only [beq_iff_eq]
  omega

theorem flagsValid_iff (s : Nat) : flagsValid s = true ↔ s / 2 ^ 56 % 32 = 0 ∧ s / 2 ^ 61 % 4 ≠ 3 := by
  unfold flagsValid
  rw [remain_eq, metric_eq]
  have : METRIC_TYPE_FLAG_MASK = 3 * 2 ^ 61 := by decide
  rw [this]
  simp
  omega

theorem extractMetric_eq (s : Nat) :
    extractMetric s =
      if s / 2 ^ 61 % 4 = 0 then some (.blockNumber (s % 2 ^ 56))
      else if s / 2 ^ 61 % 4 = 1 then some (.epoch (s % 2 ^ 56))
      else if s / 2 ^ 61 % 4 = 2 then some (.timestamp (satMul (s % 2 ^ 56) TIMESTAMP_SCALE))
      else none := by
  unfold extractMetric
  simp only [value_eq, metric_eq]
  have hm : s / 2 ^ 61 % 4 < 4 := Nat.mod_lt _ (by decide)
  generalize s / 2 ^ 61 % 4 = m at *
  have e0 : METRIC_BLOCK_NUMBER = 0 := by decide
  have e1 : METRIC_EPOCH = 1 * 2 ^ 61 := by decide
  have e2 : METRIC_TIMESTAMP = 2 * 2 ^ 61 := by decide
  rw [e0, e1, e2]
  have : m = 0 ∨ m = 1 ∨ m = 2 ∨ m = 3 := by omega
  rcases this with h | h | h | h <;> subst h <;> simp

theorem extractMetric_m0 {s : Nat} (h : s / 2 ^ 61 % 4 = 0) : extractMetric s = some (.blockNumber (s % 2 ^ 56)) := by
  rw [extractMetric_eq, h]; rfl

theorem extractMetric_m1 {s : Nat} (h : s / 2 ^ 61 % 4 = 1) : extractMetric s = some (.epoch (s % 2 ^ 56)) := by
  rw [extractMetric_eq, h]; rfl

theorem extractMetric_m2 {s : Nat} (h : s / 2 ^ 61 % 4 = 2) :
    extractMetric s = some (.timestamp (satMul (s % 2 ^ 56) TIMESTAMP_SCALE)) := by
  rw [extractMetric_eq, h]; rfl

/-! ### rationals -/
/-- `r` represents the fraction `p / q` -/
def Rat.Rep (r : Rat) (p q : Nat) : Prop := 0 < r.d ∧ 0 < q ∧ r.n * q = p * r.d

theorem gcd_split (a b : Nat) (ha : 0 < a) (hb : 0 < b): ∃ g x y, 0 < g ∧ 0 < x ∧ 0 < y ∧ Nat.gcd a b = g ∧ a = g * x ∧ b = g * y := by
  have hg : 0 < Nat.gcd a b := Nat.gcd_pos_of_pos_left _ ha
  obtain ⟨x, hx⟩ := Nat.gcd_dvd_left a b
  obtain ⟨y, hy⟩ := Nat.gcd_dvd_right a b
  refine ⟨Nat.gcd a b, x, y, hg, ?_, ?_, rfl, hx, hy⟩
  · rcases Nat.eq_zero_or_pos x with h | h
    · subst h; omega
    · exact h
  · rcases Nat.eq_zero_or_pos y with h | h
    · subst h; omega
    · exact h

theorem Rat.new_rep (n d : Nat) (hd : 0 < d) : Rat.Rep (Rat.new n d) n d := by
  unfold Rat.new Rat.Rep
  simp only
  have hg : 0 < Nat.gcd n d := Nat.gcd_pos_of_pos_right n hd
  obtain ⟨a, ha⟩ := Nat.gcd_dvd_left n d
  obtain ⟨b, hb⟩ := Nat.gcd_dvd_right n d
  have hb0 : 0 < b := by
    rcases Nat.eq_zero_or_pos b with h | h
    · subst h; omega
    · exact h
  generalize Nat.gcd n d = g at *
  subst ha hb
  rw [Nat.mul_div_cancel_left _ hg, Nat.mul_div_cancel_left _ hg]
  exact ⟨hb0, hd, by ring⟩

theorem Rat.addU_rep {r : Rat} {p q : Nat} (h : Rat.Rep r p q) (k : Nat) :
    Rat.Rep (r.addU k) (p + k * q) q := by
  obtain ⟨h1, h2, h3⟩ := h
  refine ⟨h1, h2, ?_⟩
  show (r.n + r.d * k) * q = (p + k * q) * r.d
  rw [Nat.add_mul, Nat.add_mul, h3]; ring

theorem Rat.lt_iff {a b : Rat} {p q p' q' : Nat} (ha : Rat.Rep a p q) (hb : Rat.Rep b p' q') :
    a.lt b = true ↔ p * q' < p' * q := by
  obtain ⟨ad, hq, ea⟩ := ha
  obtain ⟨bd, hq', eb⟩ := hb
  unfold Rat.lt
  simp only [decide_eq_true_eq]
  obtain ⟨g, x, y, hg, hx, hy, e, ex, ey⟩ := gcd_split a.d b.d ad bd
  rw [e, ex, ey, Nat.mul_div_cancel_left _ hg, Nat.mul_div_cancel_left _ hg]
  have hpos : 0 < g * q * q' := Nat.mul_pos (Nat.mul_pos hg hq) hq'
  have hpos2 : 0 < a.d * b.d := Nat.mul_pos ad bd
  rw [← Nat.mul_lt_mul_right (a := g * q * q') hpos]
  have k1 : a.n * y * (g * q * q') = p * q' * (a.d * b.d) := by
    have : a.n * y * (g * q * q') = (a.n * q) * (g * y) * q' := by ring
    rw [this, ea, ← ey]; ring
  have k2 : b.n * x * (g * q * q') = p' * q * (a.d * b.d) := by
    have : b.n * x * (g * q * q') = (b.n * q') * (g * x) * q := by ring
    rw [this, eb, ← ex]; ring
  rw [k1, k2]
  exact Nat.mul_lt_mul_right (a := a.d * b.d) hpos2

theorem Rat.add_rep {a b : Rat} {p q p' q' : Nat} (ha : Rat.Rep a p q) (hb : Rat.Rep b p' q') :
    Rat.Rep (a.add b) (p * q' + p' * q) (q * q') := by
  obtain ⟨ad, hq, ea⟩ := ha
  obtain ⟨bd, hq', eb⟩ := hb
  unfold Rat.add
  split
  · rename_i hEq
    have h := Rat.new_rep (a.n + b.n) a.d ad
    obtain ⟨h1, _, h3⟩ := h
    refine ⟨h1, Nat.mul_pos hq hq', ?_⟩
    -- r.n * a.d = (a.n+b.n) * r.d
    have hpos : 0 < a.d := ad
    apply Nat.eq_of_mul_eq_mul_right hpos
    have : (Rat.new (a.n + b.n) a.d).n * (q * q') * a.d = ((Rat.new (a.n + b.n) a.d).n * a.d) * (q * q') := by ring
    rw [this, h3]
    have e2 : (a.n + b.n) * (Rat.new (a.n + b.n) a.d).d * (q * q') = ((a.n * q) * q' + (b.n * q') * q) * (Rat.new (a.n + b.n) a.d).d := by ring
    rw [e2, ea, eb, ← hEq]; ring
  · simp only
    obtain ⟨g, x, y, hg, hx, hy, e, ex, ey⟩ := gcd_split a.d b.d ad bd
    rw [e]
    have e1 : b.d / g = y := by rw [ey]; exact Nat.mul_div_cancel_left _ hg
    rw [e1]
    have e3 : a.d * y / a.d = y := Nat.mul_div_cancel_left _ ad
    have e4 : a.d * y / b.d = x := by
      rw [ex, ey]
      have : g * x * y = g * y * x := by ring
      rw [this]; exact Nat.mul_div_cancel_left _ (Nat.mul_pos hg hy)
    rw [e3, e4]
    have hl : 0 < a.d * y := Nat.mul_pos ad hy
    obtain ⟨h1, _, h3⟩ := Rat.new_rep (a.n * y + b.n * x) (a.d * y) hl
    refine ⟨h1, Nat.mul_pos hq hq', ?_⟩
    apply Nat.eq_of_mul_eq_mul_right hl
    generalize Rat.new (a.n * y + b.n * x) (a.d * y) = r at *
    have : r.n * (q * q') * (a.d * y) = (r.n * (a.d * y)) * (q * q') := by ring
    rw [this, h3]
    have e2 : (a.n * y + b.n * x) * r.d * (q * q') = ((a.n * q) * q' * y + (b.n * q') * q * x) * r.d := by ring
    rw [e2, ea, eb]
    have e5 : b.d * x = a.d * y := by rw [ex, ey]; ring
    have : (p * a.d * q' * y + p' * b.d * q * x) * r.d = (p * q' * (a.d * y) + p' * q * (b.d * x)) * r.d := by ring
    rw [this, e5]; ring

/-! ### epochs -/

/-- the exact fraction `number + index/length` of a packed epoch, as (numerator, denominator);
the all-zero value (genesis) is 0 -/
def epFrac (e : Nat) : Nat × Nat :=
  if e = 0 then (0, 1) else (epNumber e * epLength e + epIndex e, epLength e)

/-- a packed epoch whose `to_rational` does not panic -/
def epValid (e : Nat) : Prop := e = 0 ∨ 0 < epLength e

theorem epToRational_rep {e : Nat} (h : epValid e) :
    ∃ r, epToRational e = some r ∧ Rat.Rep r (epFrac e).1 (epFrac e).2 := by
  unfold epToRational epFrac
  by_cases h0 : e = 0
  · simp [h0, Rat.Rep]
  · have hl : 0 < epLength e := by
      rcases h with h | h
      · exact absurd h h0
      · exact h
    have hl' : epLength e ≠ 0 := by omega
    simp only [h0, hl', if_false]
    refine ⟨_, rfl, ?_⟩
    have := Rat.addU_rep (Rat.new_rep (epIndex e) (epLength e) hl) (epNumber e)
    rw [Nat.add_comm] at this
    exact this

theorem epToRational_none {e : Nat} (h : ¬ epValid e) : epToRational e = none := by
  unfold epValid at h
  unfold epToRational
  have h0 : e ≠ 0 := fun x => h (Or.inl x)
  have hl : epLength e = 0 := by
    rcases Nat.eq_zero_or_pos (epLength e) with x | x
    · exact x
    · exact absurd (Or.inr x) h
  simp [h0, hl]

/-- the increment a since epoch value denotes: length 0 (with index 0) means `number + 0/1` -/
def incFrac (v : Nat) : Nat × Nat :=
  if epLength v = 0 then (epNumber v, 1) else (epNumber v * epLength v + epIndex v, epLength v)

theorem epPack_fields (n : Nat) (hn : n < 2 ^ EPOCH_NUMBER_BITS) :
    epNumber (epPack n 0 1) = n ∧ epIndex (epPack n 0 1) = 0 ∧ epLength (epPack n 0 1) = 1 ∧ epPack n 0 1 ≠ 0 := by
  unfold epNumber epIndex epLength epPack EPOCH_NUMBER_BITS EPOCH_INDEX_BITS EPOCH_LENGTH_BITS at *
  omega

theorem epNumber_lt (e : Nat) : epNumber e < 2 ^ EPOCH_NUMBER_BITS := by
  unfold epNumber; exact Nat.mod_lt _ (by decide)

theorem epLength_zero_of_zero : epLength 0 = 0 := by decide

theorem epNormalize_rep (v : Nat) :
    ∃ r, epToRational (epNormalize v) = some r ∧ Rat.Rep r (incFrac v).1 (incFrac v).2 := by
  unfold epNormalize incFrac
  by_cases hl : epLength v = 0
  · simp only [hl, if_true]
    obtain ⟨h1, h2, h3, h4⟩ := epPack_fields (epNumber v) (epNumber_lt v)
    obtain ⟨r, hr, hrep⟩ := epToRational_rep (e := epPack (epNumber v) 0 1) (Or.inr (by omega))
    refine ⟨r, hr, ?_⟩
    unfold epFrac at hrep
    simp only [h4, if_false, h1, h2, h3] at hrep
    simpa using hrep
  · simp only [hl, if_false]
    have hv : v ≠ 0 := by
      intro h; subst h; exact hl epLength_zero_of_zero
    obtain ⟨r, hr, hrep⟩ := epToRational_rep (e := v) (Or.inr (by omega))
    refine ⟨r, hr, ?_⟩
    unfold epFrac at hrep
    simpa [hv] using hrep

end CkbVerif.Since
