import CkbVerif.Lemmas.Reorg

/-! Helper lemmas for `Props/C12.lean`, part 2: the chain side (`newLive`) and `readd_detached_tx`
    (`Reorg.readd`). -/
namespace CkbVerif.Reorg

/-! ### the chain side -/

theorem mem_foldl_attach_of_mem (l : List CTx) (L : List Nat) {o : Nat} (ho : o ∈ L)
    (hs : ∀ y ∈ l, o ∉ y.spent) : o ∈ l.foldl attachTx L := by
  induction l generalizing L with
  | nil => exact ho
  | cons y ys ih =>
    apply ih
    · unfold attachTx
      exact List.mem_append.mpr (Or.inl (List.mem_filter.mpr ⟨ho, by simpa using hs y (List.mem_cons_self ..)⟩))
    · intro y' hy'; exact hs y' (List.mem_cons_of_mem _ hy')

theorem mem_foldl_attach_of_outs (l : List CTx) (L : List Nat) {o : Nat} {y : CTx} (hy : y ∈ l) (ho : o ∈ y.outs)
    (hs : ∀ y ∈ l, o ∉ y.spent) : o ∈ l.foldl attachTx L := by
  induction l generalizing L with
  | nil => simp at hy
  | cons x xs ih =>
    rcases List.mem_cons.mp hy with rfl | h
    · refine mem_foldl_attach_of_mem xs _ ?_ ?_
      · unfold attachTx; exact List.mem_append.mpr (Or.inr ho)
      · intro y' hy'; exact hs y' (List.mem_cons_of_mem _ hy')
    · exact ih _ h (fun y' hy' => hs y' (List.mem_cons_of_mem _ hy'))

theorem mem_foldl_detach_of_mem (l : List CTx) (L : List Nat) {o : Nat} (ho : o ∈ L)
    (hs : ∀ d ∈ l, o ∉ d.outs) : o ∈ l.foldl detachTx L := by
  induction l generalizing L with
  | nil => exact ho
  | cons y ys ih =>
    apply ih
    · unfold detachTx
      exact List.mem_append.mpr (Or.inl (List.mem_filter.mpr ⟨ho, by simpa using hs y (List.mem_cons_self ..)⟩))
    · intro y' hy'; exact hs y' (List.mem_cons_of_mem _ hy')

/-- a cell that was live stays live unless a detached transaction created it or an attached one consumed it -/
theorem live_stays {a : Args} {o : Nat} (ho : o ∈ a.live) (hd : ∀ d ∈ a.detached, o ∉ d.outs)
    (hs : ∀ y ∈ a.attached, o ∉ y.spent) : o ∈ newLive a := by
  unfold newLive
  apply mem_foldl_attach_of_mem _ _ _ hs
  apply mem_foldl_detach_of_mem _ _ ho
  intro d hd'; exact hd d (List.mem_reverse.mp hd')

/-- what an attached transaction created is live at the new tip unless an attached one consumed it -/
theorem attached_outs_live {a : Args} {o : Nat} {y : CTx} (hy : y ∈ a.attached) (ho : o ∈ y.outs)
    (hs : ∀ y ∈ a.attached, o ∉ y.spent) : o ∈ newLive a := by
  unfold newLive
  exact mem_foldl_attach_of_outs _ _ hy ho hs

/-- accounted for by the chain change: live at the new tip, created on the abandoned branch, or
    consumed on the new branch -/
def Excused (a : Args) (o : Nat) : Prop :=
  o ∈ newLive a ∨ (∃ d ∈ a.detached, o ∈ d.outs) ∨ (∃ y ∈ a.attached, o ∈ y.spent)

theorem excused_of_live {a : Args} {o : Nat} (ho : o ∈ a.live) : Excused a o := by
  by_cases hd : ∃ d ∈ a.detached, o ∈ d.outs
  · exact Or.inr (Or.inl hd)
  · by_cases hs : ∃ y ∈ a.attached, o ∈ y.spent
    · exact Or.inr (Or.inr hs)
    · exact Or.inl (live_stays ho (fun d hd' h => hd ⟨d, hd', h⟩) (fun y hy h => hs ⟨y, hy, h⟩))

theorem excused_of_attached_out {a : Args} {o : Nat} {y : CTx} (hy : y ∈ a.attached) (ho : o ∈ y.outs) : Excused a o := by
  by_cases hs : ∃ y ∈ a.attached, o ∈ y.spent
  · exact Or.inr (Or.inr hs)
  · exact Or.inl (attached_outs_live hy ho (fun y hy h => hs ⟨y, hy, h⟩))

theorem mem_retain {a : Args} {t : CTx} : t ∈ retain a ↔ t ∈ a.detached ∧ ∀ y ∈ a.attached, y.id ≠ t.id := by
  unfold retain
  simp only [List.mem_filter, Bool.not_eq_true', List.any_eq_false, beq_iff_eq]

/-! ### `readd_detached_tx` -/

/-- what `readd_detached_tx` requires of a transaction at its turn -/
def Admissible (a : Args) (live : List Nat) (q : Pool) (t : CTx) : Prop :=
  resolves q a live t = true ∧ t.ok = true ∧ hasId q t.id = false ∧
    (ancestorsOf q (linkParentsOf q t)).length + 1 ≤ a.maxAnc

instance (a : Args) (live : List Nat) (q : Pool) (t : CTx) : Decidable (Admissible a live q t) := by
  unfold Admissible; infer_instance

theorem readdOne_admit {a : Args} {live : List Nat} {q : Pool} {t : CTx} (h : Admissible a live q t) :
    readdOne a live q t = q ++ [entryOf a t] := by
  obtain ⟨h1, h2, h3, h4⟩ := h
  unfold readdOne
  simp [h1, h2, h3]
  omega

theorem readdOne_reject {a : Args} {live : List Nat} {q : Pool} {t : CTx} (h : ¬ Admissible a live q t) :
    readdOne a live q t = q := by
  unfold readdOne
  by_cases h1 : (resolves q a live t && t.ok) = true
  · by_cases h3 : hasId q t.id = true
    · simp [h1, h3]
    · by_cases h4 : (ancestorsOf q (linkParentsOf q t)).length + 1 > a.maxAnc
      · simp [h1, h3, h4]
      · exfalso; apply h
        simp only [Bool.and_eq_true] at h1
        exact ⟨h1.1, h1.2, by simpa using h3, by omega⟩
  · simp [h1]

theorem hasId_iff {q : Pool} {id : Nat} : hasId q id = true ↔ ∃ e ∈ q, e.id = id := by
  unfold hasId; simp [List.any_eq_true]

/-- one round only adds -/
theorem readdOne_keeps (a : Args) (live : List Nat) (q : Pool) (t : CTx) {e : PEnt} (h : e ∈ q) :
    e ∈ readdOne a live q t := by
  by_cases hA : Admissible a live q t
  · rw [readdOne_admit hA]; exact List.mem_append.mpr (Or.inl h)
  · rw [readdOne_reject hA]; exact h

/-- one round adds nothing but the transaction itself, and only if it was admissible -/
theorem readdOne_prov (a : Args) (live : List Nat) (q : Pool) (t : CTx) {e' : PEnt} (h : e' ∈ readdOne a live q t) :
    e' ∈ q ∨ (Admissible a live q t ∧ e' = entryOf a t) := by
  by_cases hA : Admissible a live q t
  · rw [readdOne_admit hA] at h
    rcases List.mem_append.mp h with h | h
    · exact Or.inl h
    · rw [List.mem_singleton] at h; exact Or.inr ⟨hA, h⟩
  · rw [readdOne_reject hA] at h; exact Or.inl h

theorem readd_append (a : Args) (live : List Nat) (q : Pool) (l1 l2 : List CTx) :
    readd a live q (l1 ++ l2) = readd a live (readd a live q l1) l2 := by
  unfold readd; rw [List.foldl_append]

theorem readd_cons (a : Args) (live : List Nat) (q : Pool) (t : CTx) (l : List CTx) :
    readd a live q (t :: l) = readd a live (readdOne a live q t) l := rfl

theorem readd_keeps (a : Args) (live : List Nat) (l : List CTx) (q : Pool) {e : PEnt} (h : e ∈ q) :
    e ∈ readd a live q l := by
  induction l generalizing q with
  | nil => exact h
  | cons t l ih => exact ih _ (readdOne_keeps a live q t h)

/-- everything in the pool after the loop is an old entry or a detached transaction that was admissible at its turn -/
theorem readd_prov (a : Args) (live : List Nat) (l : List CTx) (q : Pool) {e' : PEnt} (h : e' ∈ readd a live q l) :
    e' ∈ q ∨ (∃ l1 t l2, l = l1 ++ t :: l2 ∧ Admissible a live (readd a live q l1) t ∧ e' = entryOf a t) := by
  induction l generalizing q with
  | nil => exact Or.inl h
  | cons t l ih =>
    rw [readd_cons] at h
    rcases ih (readdOne a live q t) h with h1 | ⟨l1, t', l2, hl, hA, hF⟩
    · rcases readdOne_prov a live q t h1 with h0 | ⟨hA, hF⟩
      · exact Or.inl h0
      · exact Or.inr ⟨[], t, l, rfl, hA, hF⟩
    · exact Or.inr ⟨t :: l1, t', l2, by rw [hl]; rfl, hA, hF⟩

/-- a transaction that is admissible when its turn comes is pooled at the end, whatever happened to the others -/
theorem readd_admissible_in_turn (a : Args) (live : List Nat) (q : Pool) (l1 : List CTx) (t : CTx) (l2 : List CTx)
    (hA : Admissible a live (readd a live q l1) t) : entryOf a t ∈ readd a live q (l1 ++ t :: l2) := by
  rw [readd_append, readd_cons, readdOne_admit hA]
  exact readd_keeps a live l2 _ (List.mem_append.mpr (Or.inr (List.mem_singleton.mpr rfl)))

/-! ### resolution facts -/

theorem spentInPool_false {q : Pool} {o : Nat} (h : ∀ e ∈ q, o ∉ e.spent) : spentInPool q o = false := by
  unfold spentInPool
  rw [List.any_eq_false]
  intro e he; simpa using h e he

theorem madeInPool_iff {q : Pool} {o : Nat} : madeInPool q o = true ↔ ∃ x ∈ q, o ∈ x.outs := by
  unfold madeInPool; simp [List.any_eq_true]

theorem resolves_cells {q : Pool} {a : Args} {live : List Nat} {t : CTx} (h : resolves q a live t = true) :
    ∀ o ∈ t.spent ++ t.deps, cellLive q live o = true := by
  unfold resolves at h
  simp only [Bool.and_eq_true, List.all_eq_true] at h
  intro o ho
  rcases List.mem_append.mp ho with h1 | h1
  · exact h.1.1 o h1
  · exact h.1.2 o h1

theorem resolves_hdeps {q : Pool} {a : Args} {live : List Nat} {t : CTx} (h : resolves q a live t = true) :
    ∀ x ∈ t.hdeps, x ∉ a.detachedHeaders := by
  unfold resolves at h
  simp only [Bool.and_eq_true, List.all_eq_true] at h
  intro x hx
  simpa using h.2 x hx

theorem cellLive_cases {q : Pool} {live : List Nat} {o : Nat} (h : cellLive q live o = true) :
    spentInPool q o = false ∧ ((∃ x ∈ q, o ∈ x.outs) ∨ o ∈ live) := by
  unfold cellLive at h
  simp only [Bool.and_eq_true, Bool.not_eq_true', Bool.or_eq_true, List.contains_iff_mem] at h
  exact ⟨h.1, h.2.imp madeInPool_iff.mp id⟩

/-! ### "every input / cell dep is live on the chain or created by a pooled entry" is kept by the re-adds -/

theorem resolvable_readdOne {P : Nat → Prop} {a : Args} {live : List Nat} {q : Pool} (t : CTx)
    (hP : ∀ o ∈ live, P o) (hr : Resolvable P q) : Resolvable P (readdOne a live q t) := by
  by_cases hA : Admissible a live q t
  · rw [readdOne_admit hA]
    intro e' he' o ho
    rcases List.mem_append.mp he' with he | he
    · rcases hr e' he o ho with h | ⟨x, hx, hox⟩
      · exact Or.inl h
      · exact Or.inr ⟨x, List.mem_append.mpr (Or.inl hx), hox⟩
    · rw [List.mem_singleton] at he; subst he
      obtain ⟨_, h2⟩ := cellLive_cases (resolves_cells hA.1 o ho)
      rcases h2 with ⟨x, hx, hox⟩ | h2
      · exact Or.inr ⟨x, List.mem_append.mpr (Or.inl hx), hox⟩
      · exact Or.inl (hP o h2)
  · rw [readdOne_reject hA]; exact hr

theorem resolvable_readd {P : Nat → Prop} (a : Args) (live : List Nat) (l : List CTx) (q : Pool)
    (hP : ∀ o ∈ live, P o) (hr : Resolvable P q) : Resolvable P (readd a live q l) := by
  induction l generalizing q with
  | nil => exact hr
  | cons t l ih => exact ih _ (resolvable_readdOne t hP hr)

/-! ### a failure of an earlier detached transaction does not lose a later independent one -/

/-- `t` shares nothing with the entry / transaction that has these fields: another id, none of `t`'s
    inputs is spent, created or referenced by it, none of `t`'s cell deps is spent or created by it -/
def Apart (t : CTx) (id : Nat) (spent deps outs : List Nat) : Prop :=
  id ≠ t.id ∧ (∀ o ∈ t.spent, o ∉ spent ∧ o ∉ outs ∧ o ∉ deps) ∧ (∀ o ∈ t.deps, o ∉ spent ∧ o ∉ outs)

theorem apart_readd {a : Args} {live : List Nat} {q : Pool} {l1 : List CTx} {t : CTx}
    (hq : ∀ e ∈ q, Apart t e.id e.spent e.deps e.outs) (hl : ∀ d ∈ l1, Apart t d.id d.spent d.deps d.outs) :
    ∀ e ∈ readd a live q l1, Apart t e.id e.spent e.deps e.outs := by
  intro e' he'
  rcases readd_prov a live l1 q he' with he | ⟨la, d, lb, hl1, _, hF⟩
  · exact hq e' he
  · subst hF
    exact hl d (by rw [hl1]; exact List.mem_append.mpr (Or.inr (List.mem_cons_self ..)))

theorem calcRelation_nil (g : Nat → List Nat) (ns : List Nat) : Pool.calcRelation g ns [] = [] := by
  unfold Pool.calcRelation
  show Pool.saturate g (ns.length + 0 + 1) (Pool.dedup []) = []
  simp [Pool.saturate, Pool.expand, Pool.union, Pool.dedup]

theorem admissible_of_apart {a : Args} {live : List Nat} {q : Pool} {t : CTx}
    (hq : ∀ e ∈ q, Apart t e.id e.spent e.deps e.outs)
    (hlive : ∀ o ∈ t.spent ++ t.deps, o ∈ live) (hh : ∀ h ∈ t.hdeps, h ∉ a.detachedHeaders)
    (hok : t.ok = true) (hmax : 1 ≤ a.maxAnc) : Admissible a live q t := by
  have hsp : ∀ o ∈ t.spent ++ t.deps, spentInPool q o = false := by
    intro o ho
    apply spentInPool_false
    intro e he
    rcases List.mem_append.mp ho with h1 | h1
    · exact ((hq e he).2.1 o h1).1
    · exact ((hq e he).2.2 o h1).1
  have hcell : ∀ o ∈ t.spent ++ t.deps, cellLive q live o = true := by
    intro o ho
    unfold cellLive
    simp [hsp o ho, hlive o ho]
  refine ⟨?_, hok, ?_, ?_⟩
  · unfold resolves
    simp only [Bool.and_eq_true, List.all_eq_true]
    refine ⟨⟨fun o ho => hcell o (List.mem_append.mpr (Or.inl ho)), fun o ho => hcell o (List.mem_append.mpr (Or.inr ho))⟩, ?_⟩
    intro h hh'
    simpa using hh h hh'
  · cases hid : hasId q t.id with
    | false => rfl
    | true =>
      obtain ⟨e, he, hid'⟩ := hasId_iff.mp hid
      exact absurd hid' (hq e he).1
  · have hnil : linkParentsOf q t = [] := by
      unfold linkParentsOf
      have : (q.filter fun x => t.spent.any x.outs.contains || t.deps.any x.outs.contains || t.spent.any x.deps.contains) = [] := by
        rw [List.filter_eq_nil_iff]
        intro x hx
        obtain ⟨_, h1, h2⟩ := hq x hx
        simp only [Bool.or_eq_true, List.any_eq_true, List.contains_iff_mem, not_or, not_exists, not_and]
        exact ⟨⟨fun o ho => (h1 o ho).2.1, fun o ho => (h2 o ho).2⟩, fun o ho => (h1 o ho).2.2⟩
      rw [this]; rfl
    rw [hnil]
    unfold ancestorsOf
    rw [calcRelation_nil]
    simpa using hmax

/-! ### a transaction that conflicts with the new chain is not re-admitted -/

theorem not_admissible_of_dead {a : Args} {live : List Nat} {q : Pool} {t : CTx} {o : Nat} (ho : o ∈ t.spent ++ t.deps)
    (hdead : o ∉ live) (hq : ∀ e ∈ q, o ∉ e.outs) : ¬ Admissible a live q t := by
  intro hA
  obtain ⟨_, h2⟩ := cellLive_cases (resolves_cells hA.1 o ho)
  rcases h2 with ⟨x, hx, hox⟩ | h2
  · exact hq x hx hox
  · exact hdead h2

end CkbVerif.Reorg
