import CkbVerif.Lemmas.Reorg

/-! Helper lemmas for `Props/C12.lean`, part 2: `readd_detached_tx` (`Reorg.readd`). -/
namespace CkbVerif.Reorg
open CkbVerif.Pool (calcRelation dedup insertNew)

/-- same transaction at the same stage (the link parents may differ) -/
def SameCore (e e' : PEnt) : Prop :=
  e'.id = e.id ∧ e'.status = e.status ∧ e'.spent = e.spent ∧ e'.deps = e.deps ∧ e'.hdeps = e.hdeps ∧ e'.outs = e.outs

theorem SameCore.rfl' (e : PEnt) : SameCore e e := ⟨rfl, rfl, rfl, rfl, rfl, rfl⟩

theorem SameCore.trans {a b c : PEnt} (h1 : SameCore a b) (h2 : SameCore b c) : SameCore a c :=
  ⟨h2.1.trans h1.1, h2.2.1.trans h1.2.1, h2.2.2.1.trans h1.2.2.1, h2.2.2.2.1.trans h1.2.2.2.1,
    h2.2.2.2.2.1.trans h1.2.2.2.2.1, h2.2.2.2.2.2.trans h1.2.2.2.2.2⟩

/-- the entry is the detached transaction `t` at the stage of the new window -/
def FromTx (a : Args) (t : DTx) (e : PEnt) : Prop :=
  e.id = t.id ∧ e.status = windowStage a t.id ∧ e.spent = t.spent ∧ e.deps = t.deps ∧ e.hdeps = t.hdeps ∧ e.outs = t.outs

/-- what `readd_detached_tx` requires of a transaction at its turn -/
def Admissible (a : Args) (r : RArgs) (q : Pool) (t : DTx) : Prop :=
  resolves q a r t = true ∧ t.ok = true ∧ hasId q t.id = false ∧
    (ancestorsOf q (linkParentsOf q t)).length + 1 ≤ a.maxAnc

instance (a : Args) (r : RArgs) (q : Pool) (t : DTx) : Decidable (Admissible a r q t) := by
  unfold Admissible; infer_instance

theorem readdOne_admit {a : Args} {r : RArgs} {q : Pool} {t : DTx} (h : Admissible a r q t) :
    readdOne a r q t = linkChildren q t ++ [entryOf a q t] := by
  obtain ⟨h1, h2, h3, h4⟩ := h
  unfold readdOne
  simp [h1, h2, h3]
  omega

theorem readdOne_reject {a : Args} {r : RArgs} {q : Pool} {t : DTx} (h : ¬ Admissible a r q t) :
    readdOne a r q t = q := by
  unfold readdOne
  by_cases h1 : (resolves q a r t && t.ok) = true
  · by_cases h3 : hasId q t.id = true
    · simp [h1, h3]
    · by_cases h4 : (ancestorsOf q (linkParentsOf q t)).length + 1 > a.maxAnc
      · simp [h1, h3, h4]
      · exfalso; apply h
        simp only [Bool.and_eq_true] at h1
        exact ⟨h1.1, h1.2, by simpa using h3, by omega⟩
  · simp [h1]

theorem mem_linkChildren {q : Pool} {t : DTx} {e' : PEnt} (h : e' ∈ linkChildren q t) : ∃ e ∈ q, SameCore e e' := by
  unfold linkChildren at h
  obtain ⟨e, he, rfl⟩ := List.mem_map.mp h
  refine ⟨e, he, ?_⟩
  split
  · exact ⟨rfl, rfl, rfl, rfl, rfl, rfl⟩
  · exact SameCore.rfl' e

theorem linkChildren_keeps {q : Pool} (t : DTx) {e : PEnt} (h : e ∈ q) : ∃ e' ∈ linkChildren q t, SameCore e e' := by
  unfold linkChildren
  refine ⟨_, List.mem_map_of_mem (f := fun x => if x.spent.any t.outs.contains || x.deps.any t.outs.contains
    then { x with parents := insertNew x.parents t.id } else x) h, ?_⟩
  split
  · exact ⟨rfl, rfl, rfl, rfl, rfl, rfl⟩
  · exact SameCore.rfl' e

theorem fromTx_entryOf (a : Args) (q : Pool) (t : DTx) : FromTx a t (entryOf a q t) := ⟨rfl, rfl, rfl, rfl, rfl, rfl⟩

/-- one round only adds: every entry is still there (possibly with one more link parent) -/
theorem readdOne_keeps (a : Args) (r : RArgs) (q : Pool) (t : DTx) {e : PEnt} (h : e ∈ q) :
    ∃ e' ∈ readdOne a r q t, SameCore e e' := by
  by_cases hA : Admissible a r q t
  · rw [readdOne_admit hA]
    obtain ⟨e', he', hs⟩ := linkChildren_keeps t h
    exact ⟨e', List.mem_append.mpr (Or.inl he'), hs⟩
  · rw [readdOne_reject hA]; exact ⟨e, h, SameCore.rfl' e⟩

/-- one round adds nothing but the transaction itself, and only if it was admissible -/
theorem readdOne_prov (a : Args) (r : RArgs) (q : Pool) (t : DTx) {e' : PEnt} (h : e' ∈ readdOne a r q t) :
    (∃ e ∈ q, SameCore e e') ∨ (Admissible a r q t ∧ FromTx a t e') := by
  by_cases hA : Admissible a r q t
  · rw [readdOne_admit hA] at h
    rcases List.mem_append.mp h with h | h
    · exact Or.inl (mem_linkChildren h)
    · rw [List.mem_singleton] at h; subst h
      exact Or.inr ⟨hA, fromTx_entryOf a q t⟩
  · rw [readdOne_reject hA] at h; exact Or.inl ⟨e', h, SameCore.rfl' e'⟩

theorem readd_append (a : Args) (r : RArgs) (q : Pool) (l1 l2 : List DTx) :
    readd a r q (l1 ++ l2) = readd a r (readd a r q l1) l2 := by
  unfold readd; rw [List.foldl_append]

theorem readd_cons (a : Args) (r : RArgs) (q : Pool) (t : DTx) (l : List DTx) :
    readd a r q (t :: l) = readd a r (readdOne a r q t) l := rfl

theorem readd_keeps (a : Args) (r : RArgs) (l : List DTx) (q : Pool) {e : PEnt} (h : e ∈ q) :
    ∃ e' ∈ readd a r q l, SameCore e e' := by
  induction l generalizing q e with
  | nil => exact ⟨e, h, SameCore.rfl' e⟩
  | cons t l ih =>
    obtain ⟨e1, h1, s1⟩ := readdOne_keeps a r q t h
    obtain ⟨e2, h2, s2⟩ := ih (readdOne a r q t) h1
    exact ⟨e2, h2, s1.trans s2⟩

/-- everything in the pool after the loop is an old entry or a detached transaction that was admissible at its turn -/
theorem readd_prov (a : Args) (r : RArgs) (l : List DTx) (q : Pool) {e' : PEnt} (h : e' ∈ readd a r q l) :
    (∃ e ∈ q, SameCore e e') ∨
    (∃ l1 t l2, l = l1 ++ t :: l2 ∧ Admissible a r (readd a r q l1) t ∧ FromTx a t e') := by
  induction l generalizing q with
  | nil => exact Or.inl ⟨e', h, SameCore.rfl' e'⟩
  | cons t l ih =>
    rw [readd_cons] at h
    rcases ih (readdOne a r q t) h with ⟨e1, h1, s1⟩ | ⟨l1, t', l2, hl, hA, hF⟩
    · rcases readdOne_prov a r q t h1 with ⟨e0, h0, s0⟩ | ⟨hA, hF⟩
      · exact Or.inl ⟨e0, h0, s0.trans s1⟩
      · refine Or.inr ⟨[], t, l, rfl, hA, ?_⟩
        obtain ⟨f1, f2, f3, f4, f5, f6⟩ := hF
        obtain ⟨g1, g2, g3, g4, g5, g6⟩ := s1
        exact ⟨g1.trans f1, g2.trans f2, g3.trans f3, g4.trans f4, g5.trans f5, g6.trans f6⟩
    · exact Or.inr ⟨t :: l1, t', l2, by rw [hl]; rfl, hA, hF⟩

/-- a transaction that is admissible when its turn comes is pooled at the end, whatever happened to the others -/
theorem readd_admissible_in_turn (a : Args) (r : RArgs) (q : Pool) (l1 : List DTx) (t : DTx) (l2 : List DTx)
    (hA : Admissible a r (readd a r q l1) t) : ∃ e ∈ readd a r q (l1 ++ t :: l2), FromTx a t e := by
  rw [readd_append, readd_cons, readdOne_admit hA]
  have h0 : entryOf a (readd a r q l1) t ∈ linkChildren (readd a r q l1) t ++ [entryOf a (readd a r q l1) t] :=
    List.mem_append.mpr (Or.inr (List.mem_singleton.mpr rfl))
  obtain ⟨e', he', s⟩ := readd_keeps a r l2 _ h0
  obtain ⟨f1, f2, f3, f4, f5, f6⟩ := fromTx_entryOf a (readd a r q l1) t
  obtain ⟨g1, g2, g3, g4, g5, g6⟩ := s
  exact ⟨e', he', g1.trans f1, g2.trans f2, g3.trans f3, g4.trans f4, g5.trans f5, g6.trans f6⟩

/-! ### resolution facts -/

theorem spentInPool_false {q : Pool} {o : Nat} (h : ∀ e ∈ q, o ∉ e.spent) : spentInPool q o = false := by
  unfold spentInPool
  rw [List.any_eq_false]
  intro e he; simpa using h e he

theorem madeInPool_iff {q : Pool} {o : Nat} : madeInPool q o = true ↔ ∃ x ∈ q, o ∈ x.outs := by
  unfold madeInPool; simp [List.any_eq_true]

theorem resolves_cells {q : Pool} {a : Args} {r : RArgs} {t : DTx} (h : resolves q a r t = true) :
    ∀ o ∈ t.spent ++ t.deps, cellLive q r o = true := by
  unfold resolves at h
  simp only [Bool.and_eq_true, List.all_eq_true] at h
  intro o ho
  rcases List.mem_append.mp ho with h1 | h1
  · exact h.1.1 o h1
  · exact h.1.2 o h1

theorem cellLive_cases {q : Pool} {r : RArgs} {o : Nat} (h : cellLive q r o = true) :
    spentInPool q o = false ∧ ((∃ x ∈ q, o ∈ x.outs) ∨ o ∈ r.live) := by
  unfold cellLive at h
  simp only [Bool.and_eq_true, Bool.not_eq_true', Bool.or_eq_true, List.contains_iff_mem] at h
  exact ⟨h.1, h.2.imp madeInPool_iff.mp id⟩

theorem calcRelation_nil (g : Nat → List Nat) (ns : List Nat) : calcRelation g ns [] = [] := by
  unfold calcRelation
  show Pool.saturate g (ns.length + 0 + 1) (dedup []) = []
  simp [Pool.saturate, Pool.expand, Pool.union, dedup]

/-! ### "every input / cell dep is live on the chain or created by a pooled entry" is kept by the re-adds -/

theorem resolvable_readdOne {a : Args} {r : RArgs} {q : Pool} (t : DTx) (hr : Resolvable (· ∈ r.live) q) :
    Resolvable (· ∈ r.live) (readdOne a r q t) := by
  by_cases hA : Admissible a r q t
  · have hmade : ∀ o, (∃ x ∈ q, o ∈ x.outs) → ∃ x ∈ readdOne a r q t, o ∈ x.outs := by
      rintro o ⟨x, hx, hox⟩
      obtain ⟨x', hx', s⟩ := readdOne_keeps a r q t hx
      exact ⟨x', hx', by rw [s.2.2.2.2.2]; exact hox⟩
    intro e' he' o ho
    rcases readdOne_prov a r q t he' with ⟨e, he, s⟩ | ⟨_, hF⟩
    · rw [s.2.2.1, s.2.2.2.1] at ho
      exact (hr e he o ho).imp id (hmade o)
    · rw [hF.2.2.1, hF.2.2.2.1] at ho
      obtain ⟨_, h2⟩ := cellLive_cases (resolves_cells hA.1 o ho)
      rcases h2 with h2 | h2
      · exact Or.inr (hmade o h2)
      · exact Or.inl h2
  · rw [readdOne_reject hA]; exact hr

theorem resolvable_readd (a : Args) (r : RArgs) (l : List DTx) (q : Pool) (hr : Resolvable (· ∈ r.live) q) :
    Resolvable (· ∈ r.live) (readd a r q l) := by
  induction l generalizing q with
  | nil => exact hr
  | cons t l ih => exact ih _ (resolvable_readdOne t hr)

/-! ### a failure of an earlier detached transaction does not lose a later independent one -/

/-- `t` shares nothing with the entry / transaction that has these fields: another id, none of `t`'s
    inputs is spent, created or referenced by it, none of `t`'s cell deps is spent or created by it -/
def Apart (t : DTx) (id : Nat) (spent deps outs : List Nat) : Prop :=
  id ≠ t.id ∧ (∀ o ∈ t.spent, o ∉ spent ∧ o ∉ outs ∧ o ∉ deps) ∧ (∀ o ∈ t.deps, o ∉ spent ∧ o ∉ outs)

theorem apart_readd {a : Args} {r : RArgs} {q : Pool} {l1 : List DTx} {t : DTx}
    (hq : ∀ e ∈ q, Apart t e.id e.spent e.deps e.outs) (hl : ∀ d ∈ l1, Apart t d.id d.spent d.deps d.outs) :
    ∀ e ∈ readd a r q l1, Apart t e.id e.spent e.deps e.outs := by
  intro e' he'
  rcases readd_prov a r l1 q he' with ⟨e, he, s⟩ | ⟨la, d, lb, hl1, _, hF⟩
  · rw [s.1, s.2.2.1, s.2.2.2.1, s.2.2.2.2.2]; exact hq e he
  · rw [hF.1, hF.2.2.1, hF.2.2.2.1, hF.2.2.2.2.2]
    exact hl d (by rw [hl1]; exact List.mem_append.mpr (Or.inr (List.mem_cons_self ..)))

theorem admissible_of_apart {a : Args} {r : RArgs} {q : Pool} {t : DTx}
    (hq : ∀ e ∈ q, Apart t e.id e.spent e.deps e.outs)
    (hlive : ∀ o ∈ t.spent ++ t.deps, o ∈ r.live) (hh : ∀ h ∈ t.hdeps, h ∉ a.detachedHeaders)
    (hok : t.ok = true) (hmax : 1 ≤ a.maxAnc) : Admissible a r q t := by
  have hsp : ∀ o ∈ t.spent ++ t.deps, spentInPool q o = false := by
    intro o ho
    apply spentInPool_false
    intro e he
    rcases List.mem_append.mp ho with h1 | h1
    · exact ((hq e he).2.1 o h1).1
    · exact ((hq e he).2.2 o h1).1
  have hcell : ∀ o ∈ t.spent ++ t.deps, cellLive q r o = true := by
    intro o ho
    unfold cellLive
    simp [hsp o ho, hlive o ho]
  refine ⟨?_, hok, ?_, ?_⟩
  · unfold resolves
    simp only [Bool.and_eq_true, List.all_eq_true]
    refine ⟨⟨fun o ho => hcell o (List.mem_append.mpr (Or.inl ho)), fun o ho => hcell o (List.mem_append.mpr (Or.inr ho))⟩, ?_⟩
    intro h hh'
    simpa using hh h hh'
  · cases hid : hasId q t.id with
    | false => rfl
    | true =>
      obtain ⟨e, he, hid'⟩ := hasId_iff.mp hid
      exact absurd hid' (hq e he).1
  · have hnil : linkParentsOf q t = [] := by
      unfold linkParentsOf
      have : (q.filter fun x => t.spent.any x.outs.contains || t.deps.any x.outs.contains || t.spent.any x.deps.contains) = [] := by
        rw [List.filter_eq_nil_iff]
        intro x hx
        obtain ⟨_, h1, h2⟩ := hq x hx
        simp only [Bool.or_eq_true, List.any_eq_true, List.contains_iff_mem, not_or, not_exists, not_and]
        exact ⟨⟨fun o ho => (h1 o ho).2.1, fun o ho => (h2 o ho).2⟩, fun o ho => (h1 o ho).2.2⟩
      rw [this]; rfl
    rw [hnil]
    unfold ancestorsOf
    rw [calcRelation_nil]
    simpa using hmax

/-! ### a transaction that conflicts with the new chain is not re-admitted -/

theorem not_admissible_of_dead {a : Args} {r : RArgs} {q : Pool} {t : DTx} {o : Nat} (ho : o ∈ t.spent ++ t.deps)
    (hdead : o ∉ r.live) (hq : ∀ e ∈ q, o ∉ e.outs) : ¬ Admissible a r q t := by
  intro hA
  obtain ⟨_, h2⟩ := cellLive_cases (resolves_cells hA.1 o ho)
  rcases h2 with ⟨x, hx, hox⟩ | h2
  · exact hq x hx hox
  · exact hdead h2

end CkbVerif.Reorg
