import CkbVerif.Lemmas.IndexerRbS2

/-! `rollback (appendCore s b)` restores the OutPoint / Cell*Script rows, same-block spends included (C18). -/
namespace CkbVerif.Indexer

variable {s : Store} {b : Block}

theorem get_rollback_nonheader2 (wf : WFRollback2 s b) (k : Key) (hk : ∀ bn h f, k ≠ .header bn h f) :
    get (rollback (appendCore s b)) k = get (commit (appendCore s b) (Rtx s b)) k := by
  unfold rollback
  rw [rollbackOps_append2 wf, commit_append]
  show get (applyOp (commit (appendCore s b) (Rtx s b)) (.del (.header b.number b.hash (hdrFlag s b)))) k = _
  apply get_applyOp_other
  simp only [BOp.key]
  exact fun heq => hk _ _ _ heq.symm

theorem uncreate_mem_Rtx2 (wf : WFRollback2 s b) (i : Nat) (tx : Tx) (oi : Nat) (out : Output)
    (htx : b.txs[i]? = some tx) (hout : tx.outputs[oi]? = some out) (o : BOp)
    (ho : o ∈ uncreateOps b.number i tx.id oi out) : o ∈ Rtx s b :=
  (mem_Rtx2 wf o).mpr ⟨i, tx, htx, matched_of_output i tx oi out hout, Or.inl ⟨oi, out, hout, ho⟩⟩

theorem unconsume_mem_Rtx2 (wf : WFRollback2 s b) (i : Nat) (tx : Tx) (ii : Nat) (op : OutPoint) (c : Cell)
    (htx : b.txs[i]? = some tx) (hi : i ≠ 0) (hop : tx.inputs[ii]? = some op)
    (hc : Res s b op c) (o : BOp)
    (ho : o ∈ unconsumeOps b.number i ii op c) : o ∈ Rtx s b :=
  (mem_Rtx2 wf o).mpr ⟨i, tx, htx, matched_of_spent2 wf.toWFAppend2 i tx hi ii op c hop hc,
    Or.inr (Or.inl ⟨hi, ii, op, c, hop, hc, ho⟩)⟩

/-- the suffix argument: for a cell created by the block at position `j`, the entries of the
creating transaction come after those of every spender in the rollback batch -/
theorem lo_index_le (wf : WFRollback2 s b) (j : Nat) (txj : Tx) (pos : Nat) (e : Nat × Nat × Option Nat)
    (hpos : (hdrList s b)[pos]? = some e) (h3 : e.2.2.getD pos = j)
    (pos' : Nat) (e' : Nat × Nat × Option Nat) (i' : Nat) (hlt : pos' < pos + 1)
    (hpos' : (hdrList s b)[pos']? = some e') (hidx : e'.2.2.getD pos' = i') : i' ≤ j := by
  have := hdrList_mono s b pos' pos e' e hpos' hpos (by omega)
  omega

theorem rb_outPoint2 (wf : WFRollback2 s b) (op : OutPoint) :
    get (rollback (appendCore s b)) (.outPoint op) = get s (.outPoint op) := by
  rw [get_rollback_nonheader2 wf _ (by intro _ _ _ h; cases h)]
  by_cases hC : ∃ c0, Created b op c0
  · obtain ⟨c0, hc0⟩ := hC
    rw [created_fresh2 wf.toWFAppend2 op c0 hc0]
    obtain ⟨j, txj, outj, htxj, hidj, houtj, _⟩ := hc0
    have hmj : txMatched s b j txj = true := matched_of_output j txj op.idx outj houtj
    obtain ⟨pos, e, hpos, h1, h2, h3⟩ := hdrList_complete s b j txj htxj hmj
    rw [Rtx_split s b (pos + 1)]
    apply get_commit_suffix_del
    · intro o ho hk
      obtain ⟨pos', e', i', tx', hlt, hpos', hidx, htx', hm', ho⟩ := (mem_RtxLo wf (pos + 1) o).mp ho
      have hle : i' ≤ j := lo_index_le wf j txj pos e hpos h3 pos' e' i' hlt hpos' hidx
      rcases ho with ⟨oi, out, hout, ho⟩ | ⟨hi', ii', op', c', hop', hc', ho⟩ | rfl
      · rw [mem_uncreateOps] at ho
        rcases ho with rfl | rfl | ⟨t, _, rfl | rfl⟩ | rfl <;> simp [BOp.key] at hk
        simp [hk]
      · rw [mem_unconsumeOps] at ho
        rcases ho with rfl | rfl | ⟨t, _, rfl | rfl⟩ | rfl <;> simp [BOp.key] at hk
        subst hk
        have := wf.order i' tx' htx' op' (List.mem_of_getElem? hop') j txj htxj hidj
        omega
      · simp [BOp.key] at hk
    · refine ⟨.del (.outPoint op), ?_, rfl⟩
      apply (mem_RtxLo wf (pos + 1) _).mpr
      refine ⟨pos, e, j, txj, by omega, hpos, h3, htxj, hmj, Or.inl ⟨op.idx, outj, houtj, ?_⟩⟩
      rw [mem_uncreateOps]
      right; right; right
      cases op
      simp_all
  · by_cases hS : ∃ c0, Spent2 s b op c0
    · obtain ⟨c0, hs0⟩ := hS
      obtain ⟨i, tx, ii, htx, hi, hop, hc⟩ := hs0
      have hg : get s (.outPoint op) = some (.cell c0) := by
        rcases hc with hc | hc
        · exact hc
        · exact absurd ⟨c0, hc⟩ hC
      rw [hg]
      apply get_commit_all_put
      · intro o ho hk
        obtain ⟨i', tx', htx', hm', ho⟩ := (mem_Rtx2 wf o).mp ho
        rcases ho with ⟨oi, out, hout, ho⟩ | ⟨hi', ii', op', c', hop', hc', ho⟩ | rfl
        · rw [mem_uncreateOps] at ho
          rcases ho with rfl | rfl | ⟨t, _, rfl | rfl⟩ | rfl <;> simp [BOp.key] at hk
          exfalso
          apply hC
          refine ⟨⟨b.number, i', out⟩, i', tx', out, htx', ?_, ?_, rfl⟩
          · rw [← hk]
          · rw [← hk]; exact hout
        · rw [mem_unconsumeOps] at ho
          rcases ho with rfl | rfl | ⟨t, _, rfl | rfl⟩ | rfl <;> simp [BOp.key] at hk
          subst hk
          rw [res_unique wf.toWFAppend2 _ _ _ hc' hc]
        · simp [BOp.key] at hk
      · refine ⟨.put (.outPoint op) (.cell c0), ?_, rfl⟩
        apply unconsume_mem_Rtx2 wf i tx ii op c0 htx hi hop hc
        rw [mem_unconsumeOps]
        right; right; right; rfl
    · rw [← outPoint_other2 wf.toWFAppend2 op (fun c h => hC ⟨c, h⟩) (fun c h => hS ⟨c, h⟩)]
      apply get_commit_untouched
      intro o ho hk
      obtain ⟨i', tx', htx', hm', ho⟩ := (mem_Rtx2 wf o).mp ho
      rcases ho with ⟨oi, out, hout, ho⟩ | ⟨hi', ii', op', c', hop', hc', ho⟩ | rfl
      · rw [mem_uncreateOps] at ho
        rcases ho with rfl | rfl | ⟨t, _, rfl | rfl⟩ | rfl <;> simp [BOp.key] at hk
        apply hC
        refine ⟨⟨b.number, i', out⟩, i', tx', out, htx', ?_, ?_, rfl⟩
        · rw [← hk]
        · rw [← hk]; exact hout
      · rw [mem_unconsumeOps] at ho
        rcases ho with rfl | rfl | ⟨t, _, rfl | rfl⟩ | rfl <;> simp [BOp.key] at hk
        subst hk
        exact hS ⟨c', i', tx', ii', htx', hi', hop', hc'⟩
      · simp [BOp.key] at hk

theorem rb_cellLock2 (wf : WFRollback2 s b) (sc : Script) (bn txi io : Nat) :
    get (rollback (appendCore s b)) (.cellLock sc bn txi io) = get s (.cellLock sc bn txi io) := by
  rw [get_rollback_nonheader2 wf _ (by intro _ _ _ h; cases h)]
  by_cases hA : ∃ (tx : Tx) (out : Output), b.txs[txi]? = some tx ∧ tx.outputs[io]? = some out ∧
      out.lock = sc ∧ bn = b.number
  · obtain ⟨tx, out, htx, hout, hl, hb⟩ := hA
    subst hl; subst hb
    rw [wf.freshLock]
    have hmj : txMatched s b txi tx = true := matched_of_output txi tx io out hout
    obtain ⟨pos, e, hpos, h1, h2, h3⟩ := hdrList_complete s b txi tx htx hmj
    rw [Rtx_split s b (pos + 1)]
    apply get_commit_suffix_del
    · intro o ho hk
      obtain ⟨pos', e', i', tx', hlt, hpos', hidx, htx', hm', ho⟩ := (mem_RtxLo wf (pos + 1) o).mp ho
      have hle : i' ≤ txi := lo_index_le wf txi tx pos e hpos h3 pos' e' i' hlt hpos' hidx
      rcases ho with ⟨oi, out', hout', ho⟩ | ⟨hi', ii', op', c', hop', hc', ho⟩ | rfl
      · rw [mem_uncreateOps] at ho
        rcases ho with rfl | rfl | ⟨t, _, rfl | rfl⟩ | rfl <;> simp [BOp.key] at hk
        simp [hk]
      · rw [mem_unconsumeOps] at ho
        rcases ho with rfl | rfl | ⟨t, _, rfl | rfl⟩ | rfl <;> simp [BOp.key] at hk
        exfalso
        obtain ⟨hl', hb', hti', hio'⟩ := hk
        obtain ⟨j, txj, outj, htxj, hidj, houtj, hcj⟩ := res_bn wf.toWFAppend2 op' c' hc' hb'
        have hlt' := wf.order i' tx' htx' op' (List.mem_of_getElem? hop') j txj htxj hidj
        rw [hcj] at hti'
        simp only at hti'
        omega
      · simp [BOp.key] at hk
    · refine ⟨.del (.cellLock out.lock b.number txi io), ?_, rfl⟩
      apply (mem_RtxLo wf (pos + 1) _).mpr
      refine ⟨pos, e, txi, tx, by omega, hpos, h3, htx, hmj, Or.inl ⟨io, out, hout, ?_⟩⟩
      rw [mem_uncreateOps]
      left; rfl
  · by_cases hB : ∃ (op : OutPoint) (c : Cell), Spent2 s b op c ∧ c.out.lock = sc ∧ c.bn = bn ∧
        c.txIdx = txi ∧ op.idx = io
    · obtain ⟨op, c, hs, hl, hb, hti, hio⟩ := hB
      subst hl; subst hb; subst hti; subst hio
      obtain ⟨i, tx, ii, htx, hi, hop, hc⟩ := hs
      -- not a created key, so the spent cell is an old one
      have hg : get s (.outPoint op) = some (.cell c) := by
        rcases hc with hc | hc
        · exact hc
        · exfalso
          obtain ⟨j, txj, outj, htxj, hidj, houtj, hcj⟩ := hc
          apply hA
          subst hcj
          exact ⟨txj, outj, htxj, houtj, rfl, rfl⟩
      have hrow : get s (.cellLock c.out.lock c.bn c.txIdx op.idx) = some (.tx op.tx) :=
        (wf.lockInv c.out.lock c.bn c.txIdx op.idx op.tx).mpr ⟨c, by cases op; exact hg, rfl, rfl, rfl⟩
      rw [hrow]
      apply get_commit_all_put
      · intro o ho hk
        obtain ⟨i', tx', htx', hm', ho⟩ := (mem_Rtx2 wf o).mp ho
        rcases ho with ⟨oi, out', hout', ho⟩ | ⟨hi', ii', op', c', hop', hc', ho⟩ | rfl
        · rw [mem_uncreateOps] at ho
          rcases ho with rfl | rfl | ⟨t, _, rfl | rfl⟩ | rfl <;> simp [BOp.key] at hk
          exact absurd hk.2.1.symm (wf.oldBn op c hg)
        · rw [mem_unconsumeOps] at ho
          rcases ho with rfl | rfl | ⟨t, _, rfl | rfl⟩ | rfl <;> simp [BOp.key] at hk
          obtain ⟨h1, h2, h3, h4⟩ := hk
          have hg' : get s (.outPoint op') = some (.cell c') := by
            rcases hc' with hc' | hc'
            · exact hc'
            · exfalso
              obtain ⟨_, _, _, _, _, _, hcj⟩ := hc'
              have : c'.bn = b.number := by rw [hcj]
              exact wf.oldBn op c hg (by rw [← h2, this])
          have hrow' : get s (.cellLock c'.out.lock c'.bn c'.txIdx op'.idx) = some (.tx op'.tx) :=
            (wf.lockInv c'.out.lock c'.bn c'.txIdx op'.idx op'.tx).mpr ⟨c', by cases op'; exact hg', rfl, rfl, rfl⟩
          rw [h1, h2, h3, h4, hrow] at hrow'
          have : op.tx = op'.tx := by simpa using hrow'
          simp [h1, h2, h3, h4, this]
        · simp [BOp.key] at hk
      · refine ⟨.put (.cellLock c.out.lock c.bn c.txIdx op.idx) (.tx op.tx), ?_, rfl⟩
        apply unconsume_mem_Rtx2 wf i tx ii op c htx hi hop hc
        rw [mem_unconsumeOps]
        left; rfl
    · rw [← cellLock_other2 wf.toWFAppend2 sc bn txi io hA hB]
      apply get_commit_untouched
      intro o ho hk
      obtain ⟨i', tx', htx', hm', ho⟩ := (mem_Rtx2 wf o).mp ho
      rcases ho with ⟨oi, out', hout', ho⟩ | ⟨hi', ii', op', c', hop', hc', ho⟩ | rfl
      · rw [mem_uncreateOps] at ho
        rcases ho with rfl | rfl | ⟨t, _, rfl | rfl⟩ | rfl <;> simp [BOp.key] at hk
        obtain ⟨hl, hb, hi, hoi⟩ := hk
        subst hi; subst hoi
        exact hA ⟨tx', out', htx', hout', hl, hb.symm⟩
      · rw [mem_unconsumeOps] at ho
        rcases ho with rfl | rfl | ⟨t, _, rfl | rfl⟩ | rfl <;> simp [BOp.key] at hk
        exact hB ⟨op', c', ⟨i', tx', ii', htx', hi', hop', hc'⟩, hk.1, hk.2.1, hk.2.2.1, hk.2.2.2⟩
      · simp [BOp.key] at hk

end CkbVerif.Indexer
