import CkbVerif.Lemmas.Epoch
import Mathlib.Tactic.Ring

/-!
Value semantics of the `RationalU256` model (`URat`): whenever an operation returns (no overflow
panic), its result represents the exact rational result.  `Rep r p q` : `r` represents `p / q`.
-/
namespace CkbVerif.Epoch
open CkbVerif.Arith CkbVerif.Gen.Epoch

/-- `r` (with a positive denominator) represents the rational `p / q` -/
def Rep (r : URat) (p q : Nat) : Prop := 0 < r.d ∧ 0 < q ∧ r.n * q = p * r.d

theorem Rep.raw {n d : Nat} (hd : 0 < d) : Rep ⟨n, d⟩ n d := ⟨hd, hd, rfl⟩

theorem Rep.one : Rep URat.one 1 1 := ⟨by decide, by decide, rfl⟩

theorem Rep.is_zero {r : URat} {p q : Nat} (h : Rep r p q) : r.n = 0 ↔ p = 0 := by
  obtain ⟨hd, hq, he⟩ := h
  constructor
  · intro h0; rw [h0, Nat.zero_mul] at he
    rcases Nat.mul_eq_zero.mp he.symm with h | h
    · exact h
    · omega
  · intro h0; rw [h0, Nat.zero_mul] at he
    rcases Nat.mul_eq_zero.mp he with h | h
    · exact h
    · omega

/-- cross-multiplied equal fractions have equal floors -/
theorem floor_eq_of_cross {n d p q : Nat} (hd : 0 < d) (hq : 0 < q) (h : n * q = p * d) : n / d = p / q := by
  apply (Nat.div_eq_iff hd).mpr
  have h1 := Nat.div_mul_le_self p q
  have h2 := Nat.lt_div_mul_add (a := p) hq
  constructor
  · apply Nat.le_of_mul_le_mul_right _ hq
    calc p / q * d * q = (p / q * q) * d := by ring
      _ ≤ p * d := Nat.mul_le_mul_right _ h1
      _ = n * q := h.symm
  · have : n < (p / q + 1) * d := by
      apply Nat.lt_of_mul_lt_mul_right (a := q)
      calc n * q = p * d := h
        _ < (p / q * q + q) * d := Nat.mul_lt_mul_of_pos_right h2 hd
        _ = (p / q + 1) * d * q := by ring
    have h3 : (p / q + 1) * d = p / q * d + d := by ring
    omega

theorem Rep.floor {r : URat} {p q v : Nat} (h : Rep r p q) (hf : r.floor = some v) : v = p / q := by
  obtain ⟨hd, hq, he⟩ := h
  unfold URat.floor at hf
  rw [divChk_eq_some] at hf
  rw [hf.2]; exact floor_eq_of_cross hd hq he

theorem Rep.new {n d : Nat} {r : URat} (h : URat.new n d = some r) : Rep r n d := by
  unfold URat.new at h
  split at h
  · simp at h
  · rename_i hd
    injection h with h; subst h
    have hd' : 0 < d := Nat.pos_of_ne_zero hd
    have hg : 0 < Nat.gcd n d := Nat.gcd_pos_of_pos_right _ hd'
    have h1 := Nat.div_mul_cancel (Nat.gcd_dvd_left n d)
    have h2 := Nat.div_mul_cancel (Nat.gcd_dvd_right n d)
    refine ⟨Nat.div_pos (Nat.le_of_dvd hd' (Nat.gcd_dvd_right n d)) hg, hd', ?_⟩
    show n / Nat.gcd n d * d = n * (d / Nat.gcd n d)
    calc n / Nat.gcd n d * d = n / Nat.gcd n d * (d / Nat.gcd n d * Nat.gcd n d) := by rw [h2]
      _ = (n / Nat.gcd n d * Nat.gcd n d) * (d / Nat.gcd n d) := by ring
      _ = n * (d / Nat.gcd n d) := by rw [h1]

/-- a positive number divided by one of its divisors is positive -/
theorem div_gcd_pos_left {a b : Nat} (ha : 0 < a) : 0 < a / Nat.gcd a b :=
  Nat.div_pos (Nat.le_of_dvd ha (Nat.gcd_dvd_left a b)) (Nat.gcd_pos_of_pos_left _ ha)

theorem div_gcd_pos_right {a b : Nat} (hb : 0 < b) : 0 < b / Nat.gcd a b :=
  Nat.div_pos (Nat.le_of_dvd hb (Nat.gcd_dvd_right a b)) (Nat.gcd_pos_of_pos_right _ hb)

theorem Rep.mul {a b r : URat} {p q p' q' : Nat} (ha : Rep a p q) (hb : Rep b p' q')
    (h : URat.mul a b = some r) : Rep r (p * p') (q * q') := by
  obtain ⟨had, hq, hae⟩ := ha
  obtain ⟨hbd, hq', hbe⟩ := hb
  unfold URat.mul URat.umul at h
  simp only [Option.bind_eq_bind, Option.bind_eq_some_iff, chk256, chk_eq_some, divChk_eq_some] at h
  obtain ⟨x, ⟨_, hx⟩, w, ⟨_, hw⟩, n, ⟨_, hn⟩, z, ⟨_, hz⟩, y, ⟨_, hy⟩, d, ⟨_, hdd⟩, hr⟩ := h
  injection hr with hr; subst hr
  have hgad : 0 < Nat.gcd a.n b.d := Nat.gcd_pos_of_pos_right _ hbd
  have hgbc : 0 < Nat.gcd a.d b.n := Nat.gcd_pos_of_pos_left _ had
  have e1 : x * Nat.gcd a.n b.d = a.n := by rw [hx]; exact Nat.div_mul_cancel (Nat.gcd_dvd_left _ _)
  have e2 : y * Nat.gcd a.n b.d = b.d := by rw [hy]; exact Nat.div_mul_cancel (Nat.gcd_dvd_right _ _)
  have e3 : z * Nat.gcd a.d b.n = a.d := by rw [hz]; exact Nat.div_mul_cancel (Nat.gcd_dvd_left _ _)
  have e4 : w * Nat.gcd a.d b.n = b.n := by rw [hw]; exact Nat.div_mul_cancel (Nat.gcd_dvd_right _ _)
  have hzp : 0 < z := by rw [hz]; exact div_gcd_pos_left had
  have hyp : 0 < y := by rw [hy]; exact div_gcd_pos_right hbd
  refine ⟨by rw [hdd]; exact Nat.mul_pos hzp hyp, Nat.mul_pos hq hq', ?_⟩
  show n * (q * q') = p * p' * d
  rw [hn, hdd]
  apply Nat.eq_of_mul_eq_mul_left (Nat.mul_pos hgad hgbc)
  calc Nat.gcd a.n b.d * Nat.gcd a.d b.n * (x * w * (q * q'))
      = (x * Nat.gcd a.n b.d * q) * (w * Nat.gcd a.d b.n * q') := by ring
    _ = (a.n * q) * (b.n * q') := by rw [e1, e4]
    _ = (p * a.d) * (p' * b.d) := by rw [hae, hbe]
    _ = (p * (z * Nat.gcd a.d b.n)) * (p' * (y * Nat.gcd a.n b.d)) := by rw [e3, e2]
    _ = Nat.gcd a.n b.d * Nat.gcd a.d b.n * (p * p' * (z * y)) := by ring

theorem Rep.mulU {a r : URat} {p q u : Nat} (ha : Rep a p q) (h : URat.mulU a u = some r) :
    Rep r (p * u) q := by
  obtain ⟨had, hq, hae⟩ := ha
  unfold URat.mulU URat.umul at h
  simp only [Option.bind_eq_bind, Option.bind_eq_some_iff, chk256, chk_eq_some, divChk_eq_some] at h
  obtain ⟨x, ⟨_, hx⟩, n, ⟨_, hn⟩, d, ⟨_, hdd⟩, hr⟩ := h
  injection hr with hr; subst hr
  have hg : 0 < Nat.gcd a.d u := Nat.gcd_pos_of_pos_left _ had
  have e1 : x * Nat.gcd a.d u = u := by rw [hx]; exact Nat.div_mul_cancel (Nat.gcd_dvd_right _ _)
  have e2 : d * Nat.gcd a.d u = a.d := by rw [hdd]; exact Nat.div_mul_cancel (Nat.gcd_dvd_left _ _)
  refine ⟨by rw [hdd]; exact div_gcd_pos_left had, hq, ?_⟩
  show n * q = p * u * d
  rw [hn]
  apply Nat.eq_of_mul_eq_mul_left hg
  calc Nat.gcd a.d u * (a.n * x * q) = (a.n * q) * (x * Nat.gcd a.d u) := by ring
    _ = (p * a.d) * u := by rw [hae, e1]
    _ = (p * (d * Nat.gcd a.d u)) * u := by rw [e2]
    _ = Nat.gcd a.d u * (p * u * d) := by ring

theorem Rep.div {a b r : URat} {p q p' q' : Nat} (ha : Rep a p q) (hb : Rep b p' q') (hp' : 0 < p')
    (h : URat.div a b = some r) : Rep r (p * q') (q * p') := by
  obtain ⟨had, hq, hae⟩ := ha
  have hbn : 0 < b.n := by
    have := (Rep.is_zero hb).not.mpr (by omega); omega
  obtain ⟨hbd, hq', hbe⟩ := hb
  unfold URat.div URat.umul at h
  simp only [Option.bind_eq_bind, Option.bind_eq_some_iff, chk256, chk_eq_some, divChk_eq_some] at h
  obtain ⟨x, ⟨_, hx⟩, y, ⟨_, hy⟩, n, ⟨_, hn⟩, z, ⟨_, hz⟩, w, ⟨_, hw⟩, d, ⟨_, hdd⟩, hr⟩ := h
  injection hr with hr; subst hr
  -- x = a.n/gac, y = b.d/gbd, z = a.d/gbd, w = b.n/gac
  have hgac : 0 < Nat.gcd a.n b.n := Nat.gcd_pos_of_pos_right _ hbn
  have hgbd : 0 < Nat.gcd a.d b.d := Nat.gcd_pos_of_pos_left _ had
  have e1 : x * Nat.gcd a.n b.n = a.n := by rw [hx]; exact Nat.div_mul_cancel (Nat.gcd_dvd_left _ _)
  have e2 : y * Nat.gcd a.d b.d = b.d := by rw [hy]; exact Nat.div_mul_cancel (Nat.gcd_dvd_right _ _)
  have e3 : z * Nat.gcd a.d b.d = a.d := by rw [hz]; exact Nat.div_mul_cancel (Nat.gcd_dvd_left _ _)
  have e4 : w * Nat.gcd a.n b.n = b.n := by rw [hw]; exact Nat.div_mul_cancel (Nat.gcd_dvd_right _ _)
  have hzp : 0 < z := by rw [hz]; exact div_gcd_pos_left had
  have hwp : 0 < w := by rw [hw]; exact div_gcd_pos_right hbn
  refine ⟨by rw [hdd]; exact Nat.mul_pos hzp hwp, Nat.mul_pos hq hp', ?_⟩
  show n * (q * p') = p * q' * d
  rw [hn, hdd]
  apply Nat.eq_of_mul_eq_mul_left (Nat.mul_pos hgac hgbd)
  calc Nat.gcd a.n b.n * Nat.gcd a.d b.d * (x * y * (q * p'))
      = (x * Nat.gcd a.n b.n * q) * (p' * (y * Nat.gcd a.d b.d)) := by ring
    _ = (a.n * q) * (p' * b.d) := by rw [e1, e2]
    _ = (p * a.d) * (b.n * q') := by rw [hae, hbe]
    _ = (p * (z * Nat.gcd a.d b.d)) * (w * Nat.gcd a.n b.n * q') := by rw [e3, e4]
    _ = Nat.gcd a.n b.n * Nat.gcd a.d b.d * (p * q' * (z * w)) := by ring

theorem Rep.addU {a r : URat} {p q u : Nat} (ha : Rep a p q) (h : URat.addU a u = some r) :
    Rep r (p + q * u) q := by
  obtain ⟨had, hq, hae⟩ := ha
  unfold URat.addU URat.umul URat.uadd at h
  simp only [Option.bind_eq_bind, Option.bind_eq_some_iff, chk256, chk_eq_some] at h
  obtain ⟨t, ⟨_, ht⟩, n, ⟨_, hn⟩, hr⟩ := h
  injection hr with hr; subst hr
  refine ⟨had, hq, ?_⟩
  show n * q = (p + q * u) * a.d
  rw [hn, ht]
  calc (a.n + a.d * u) * q = a.n * q + a.d * u * q := by ring
    _ = p * a.d + a.d * u * q := by rw [hae]
    _ = (p + q * u) * a.d := by ring

theorem Rep.satSubU {a r : URat} {p q u : Nat} (ha : Rep a p q) (h : URat.satSubU a u = some r) :
    Rep r (p - q * u) q := by
  obtain ⟨had, hq, hae⟩ := ha
  unfold URat.satSubU URat.umul at h
  simp only [Option.bind_eq_bind, Option.bind_eq_some_iff, chk256, chk_eq_some] at h
  obtain ⟨t, ⟨_, ht⟩, hr⟩ := h
  subst ht
  split at hr
  · rename_i hlt
    injection hr with hr; subst hr
    refine ⟨by decide, hq, ?_⟩
    show 0 * q = (p - q * u) * 1
    have : p < q * u := by
      apply Nat.lt_of_mul_lt_mul_right (a := a.d)
      calc p * a.d = a.n * q := hae.symm
        _ < a.d * u * q := Nat.mul_lt_mul_of_pos_right hlt hq
        _ = q * u * a.d := by ring
    have : p - q * u = 0 := by omega
    rw [this]; simp
  · rename_i hge
    injection hr with hr; subst hr
    refine ⟨had, hq, ?_⟩
    show (a.n - a.d * u) * q = (p - q * u) * a.d
    rw [Nat.sub_mul, Nat.sub_mul, hae]
    congr 1; ring

theorem Rep.gt {a b : URat} {p q p' q' : Nat} {t : Bool} (ha : Rep a p q) (hb : Rep b p' q')
    (h : URat.gt a b = some t) : t = true ↔ p * q' > p' * q := by
  obtain ⟨had, hq, hae⟩ := ha
  obtain ⟨hbd, hq', hbe⟩ := hb
  unfold URat.gt URat.umul at h
  simp only [Option.bind_eq_bind, Option.bind_eq_some_iff, chk256, chk_eq_some, divChk_eq_some] at h
  obtain ⟨y, ⟨_, hy⟩, lhs, ⟨_, hl⟩, z, ⟨_, hz⟩, rhs, ⟨_, hrr⟩, ht⟩ := h
  injection ht with ht; subst ht
  have hg : 0 < Nat.gcd a.d b.d := Nat.gcd_pos_of_pos_left _ had
  have e1 : y * Nat.gcd a.d b.d = b.d := by rw [hy]; exact Nat.div_mul_cancel (Nat.gcd_dvd_right _ _)
  have e2 : z * Nat.gcd a.d b.d = a.d := by rw [hz]; exact Nat.div_mul_cancel (Nat.gcd_dvd_left _ _)
  simp only [decide_eq_true_eq, gt_iff_lt]
  have hpos : 0 < Nat.gcd a.d b.d * (q * q') := Nat.mul_pos hg (Nat.mul_pos hq hq')
  -- both sides scaled by g*q*q'
  have hL : Nat.gcd a.d b.d * (q * q') * lhs = (p * q') * (a.d * b.d) := by
    rw [hl]
    calc Nat.gcd a.d b.d * (q * q') * (a.n * y) = (a.n * q) * (y * Nat.gcd a.d b.d) * q' := by ring
      _ = (p * a.d) * b.d * q' := by rw [hae, e1]
      _ = (p * q') * (a.d * b.d) := by ring
  have hR : Nat.gcd a.d b.d * (q * q') * rhs = (p' * q) * (a.d * b.d) := by
    rw [hrr]
    calc Nat.gcd a.d b.d * (q * q') * (b.n * z) = (b.n * q') * (z * Nat.gcd a.d b.d) * q := by ring
      _ = (p' * b.d) * a.d * q := by rw [hbe, e2]
      _ = (p' * q) * (a.d * b.d) := by ring
  have hab : 0 < a.d * b.d := Nat.mul_pos had hbd
  constructor
  · intro hlt
    have := Nat.mul_lt_mul_of_pos_left hlt hpos
    rw [hL, hR] at this
    exact Nat.lt_of_mul_lt_mul_right this
  · intro hlt
    have := Nat.mul_lt_mul_of_pos_right hlt hab
    rw [← hL, ← hR] at this
    exact Nat.lt_of_mul_lt_mul_left this

end CkbVerif.Epoch
