import CkbVerif.Lemmas.HashProofSound
/-!
# CBMT proofs (C15): soundness of `MerkleProof::root` at the level of the public function
-/
namespace CkbVerif.Hash

section
variable {α : Type}

/-- distinct positions inside the leaf range of a tree with `n ≥ 2` leaves, sorted by `Reverse`, have the queue invariant -/
theorem positions_inv {n : Nat} {l : List Nat} (hn : 2 ≤ n) (hnd : l.Nodup)
    (hr : ∀ a ∈ l, n - 1 ≤ a ∧ a ≤ 2 * (n - 1)) : QInv (n - 1) (sortBy leRev id l) := by
  refine ⟨sortBy_leRev_strict l hnd, ?_, ?_⟩
  · intro a ha
    have := hr a ((mem_sortBy _ _).mp ha)
    omega
  · intro a ha b hb
    have h1 := hr a ((mem_sortBy _ _).mp ha)
    have h2 := hr b ((mem_sortBy _ _).mp hb)
    omega

theorem proofPre_fst (le : α → α → Bool) (p : MProof α) (claimed : List α) (hlen : claimed.length = p.indices.length) :
    (proofPre le p claimed).map (·.1) = sortBy leRev id p.indices := by
  unfold proofPre
  have h := sortBy_map leRev (id : Nat → Nat) (Prod.fst : Nat × α → Nat) (p.indices.zip (sortBy le id claimed))
  rw [List.map_fst_zip (by rw [sortBy_length]; omega)] at h
  rw [h]
  rfl

/-- **soundness of `MerkleProof::root`** for distinct indices inside the leaf range (the range is what
`retrieve_leaves` checks; distinctness is checked by nobody): if `root(claimed)` is the root of the tree over `leaves`
then every (index, claimed leaf) pair — as `root` pairs them: k-th index of the proof with the k-th smallest claimed
leaf — is a leaf of the tree at that position. -/
theorem proofRoot_sound (le : α → α → Bool) (merge : α → α → α) (hinj : Injective2 merge) (zero : α)
    (leaves : List α) (hne : leaves ≠ []) (p : MProof α) (claimed : List α)
    (hnd : p.indices.Nodup)
    (hrange : ∀ i ∈ p.indices, leaves.length - 1 ≤ i ∧ i ≤ 2 * (leaves.length - 1))
    (hroot : proofRoot le merge p claimed = some (cbmtRoot merge zero leaves)) :
    ∀ e ∈ p.indices.zip (sortBy le id claimed), leaves.getD (e.1 + 1 - leaves.length) zero = e.2 := by
  have hn : 0 < leaves.length := List.length_pos_iff.mpr hne
  unfold proofRoot at hroot
  split at hroot
  · cases hroot
  · rename_i hcond
    simp only [Bool.or_eq_true, bne_iff_ne, ne_eq, List.isEmpty_iff, not_or, Decidable.not_not] at hcond
    have hlen := hcond.1
    rw [cbmtRoot_eq_nodeAt merge zero leaves hne] at hroot
    have hfst := proofPre_fst le p claimed hlen
    have hmemZ : ∀ e, e ∈ proofPre le p claimed ↔ e ∈ p.indices.zip (sortBy le id claimed) := fun e => mem_sortBy _ _
    have hidx : ∀ e ∈ p.indices.zip (sortBy le id claimed), e.1 ∈ p.indices := fun e he => (List.of_mem_zip (a := e.1) (b := e.2) he).1
    have hbound : ∀ e ∈ proofPre le p claimed, nodeAt merge zero leaves e.1 = e.2 := by
      by_cases h2 : 2 ≤ leaves.length
      · have ht : TreeEq merge (leaves.length - 1) (nodeAt merge zero leaves) := fun q hq => nodeAt_inner merge zero leaves q hq
        apply rootLoop_sound hinj ht _ _ p.lemmas _ hroot
        rw [hfst]
        exact positions_inv h2 hnd hrange
      · -- one leaf: every index is 0
        have hall0 : ∀ e ∈ proofPre le p claimed, e.1 = 0 := by
          intro e he
          have := hrange e.1 (hidx e ((hmemZ e).mp he))
          omega
        generalize proofPre le p claimed = pre at hroot hall0
        generalize pFuel pre = f at hroot
        intro e he
        cases pre with
        | nil => cases he
        | cons e0 q =>
          obtain ⟨i, node⟩ := e0
          have hi : i = 0 := hall0 (i, node) (by simp)
          subst hi
          cases f with
          | zero => simp [rootLoop] at hroot
          | succ f =>
            simp only [rootLoop, if_true] at hroot
            split at hroot
            · rename_i hc
              simp only [Bool.and_eq_true, List.isEmpty_iff] at hc
              rw [hc.2] at he
              simp only [List.mem_singleton] at he
              subst he
              exact (Option.some.inj hroot).symm
            · cases hroot
    intro e he
    have h1 := hbound e ((hmemZ e).mpr he)
    have h2 := hrange e.1 (hidx e he)
    rw [← h1, nodeAt_leaf merge zero leaves e.1 h2.1]
    congr 1
    omega

theorem zip_mem_right {β γ : Type} : ∀ (l1 : List β) (l2 : List γ), l2.length ≤ l1.length → ∀ b ∈ l2, ∃ a, (a, b) ∈ l1.zip l2
  | _, [], _, b, hb => by cases hb
  | [], _ :: _, h, _, _ => by simp at h
  | a :: l1, c :: l2, h, b, hb => by
    rcases List.mem_cons.mp hb with rfl | hb
    · exact ⟨a, by simp⟩
    · obtain ⟨a', ha'⟩ := zip_mem_right l1 l2 (by simpa using h) b hb
      exact ⟨a', by simp [ha']⟩


/-- the loop of `build_proof` hits its assertion only when index 0 is in the queue -/
theorem buildLoop_no_panic (zero : α) (nodes : List α) : ∀ (f : Nat) (q : List Nat), (∀ a ∈ q, 0 < a) →
    buildLoop zero nodes f q ≠ none
  | 0, _, _ => by simp [buildLoop]
  | _ + 1, [], _ => by simp [buildLoop]
  | f + 1, h :: rest, hq => by
    have h0 : h ≠ 0 := by have := hq h (by simp); omega
    have hpush : ∀ r : List Nat, (∀ a ∈ r, 0 < a) → ∀ a ∈ pushParent (tParent h) r, 0 < a := by
      intro r hr a ha
      unfold pushParent at ha
      split at ha
      · exact hr a ha
      · rcases List.mem_append.mp ha with ha | ha
        · exact hr a ha
        · simp only [List.mem_singleton] at ha; omega
    have hrest : ∀ a ∈ rest, 0 < a := fun a ha => hq a (List.mem_cons_of_mem _ ha)
    simp only [buildLoop, h0, if_false]
    split
    · exact buildLoop_no_panic zero nodes f _ (hpush rest.tail (fun a ha => hrest a (List.mem_of_mem_tail ha)))
    · have := buildLoop_no_panic zero nodes f _ (hpush rest hrest)
      cases hb : buildLoop zero nodes f (pushParent (tParent h) rest) with
      | none => exact absurd hb this
      | some l => simp

/-- **`build_merkle_proof` can panic only on a one-leaf tree** (with two or more — necessarily equal — indices): for
two or more leaves the `assert!(queue.is_empty())` is unreachable for EVERY index list (duplicates, out of range, any) -/
theorem buildMerkleProof_no_panic (le : α → α → Bool) (merge : α → α → α) (zero : α) (leaves : List α) (idx : List Nat)
    (hn : 2 ≤ leaves.length) : buildMerkleProof le merge zero leaves idx ≠ .panic := by
  have hne : leaves ≠ [] := by intro h; rw [h] at hn; simp at hn
  have hlen := buildTree_length merge zero leaves hne
  unfold buildMerkleProof buildProof
  split
  · simp
  · simp only []
    split
    · simp
    · have hq : ∀ a ∈ sortBy leRev id (idx.map fun i => ((buildTree merge zero leaves).length >>> 1) + 1 + i - 1), 0 < a := by
        intro a ha
        rw [mem_sortBy, List.mem_map] at ha
        obtain ⟨i, _, rfl⟩ := ha
        rw [hlen, shr_one]
        omega
      have := buildLoop_no_panic zero (buildTree merge zero leaves)
        (qFuel (sortBy leRev id (idx.map fun i => ((buildTree merge zero leaves).length >>> 1) + 1 + i - 1))) _ hq
      split
      · rename_i hb; exact absurd hb this
      · simp

/-- what `retrieve_leaves` returns is made of leaves of the list, one per index -/
theorem retrieveLeaves_mem (zero : α) (leaves : List α) (p : MProof α) (hs : List α)
    (h : retrieveLeaves zero leaves p = some hs) :
    hs = p.indices.map (fun i => leaves.getD (i + 1 - leaves.length) zero) ∧
    (∀ i ∈ p.indices, leaves.length - 1 ≤ i ∧ i ≤ 2 * (leaves.length - 1)) ∧ ∀ x ∈ hs, x ∈ leaves := by
  unfold retrieveLeaves at h
  split at h
  · cases h
  · rename_i hc
    simp only [Bool.or_eq_true, List.isEmpty_iff, not_or] at hc
    have hn : 0 < leaves.length := List.length_pos_iff.mpr hc.1
    simp only [] at h
    split at h
    · rename_i hall
      rw [List.all_eq_true] at hall
      have hr : ∀ i ∈ p.indices, leaves.length - 1 ≤ i ∧ i ≤ 2 * (leaves.length - 1) := by
        intro i hi
        have := hall i hi
        rw [shl_one] at this
        simp only [Bool.and_eq_true, Nat.ble_eq, Nat.blt_eq] at this
        omega
      cases h
      refine ⟨rfl, hr, ?_⟩
      intro x hx
      rw [List.mem_map] at hx
      obtain ⟨i, hi, rfl⟩ := hx
      have := hr i hi
      rw [List.getD_eq_getElem?_getD, List.getElem?_eq_getElem (by omega)]
      simp
    · cases h

end

end CkbVerif.Hash
