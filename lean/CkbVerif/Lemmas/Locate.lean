import CkbVerif.Model.Locate
import CkbVerif.Lemmas.Skip

/-! Helper lemmas for `last_common_ancestor`, `update_last_common_header` and
`locate_latest_common_block` (C17). -/
namespace CkbVerif.Skip

/-- `(number, hash)` of a header -/
def nhOf (h : Hdr) : NH := (h.number, h.id)

/-- `ActiveChain::get_ancestor(&base, number).number_and_hash()` over a header store -/
def ancNH (store : Store) (scan : Nat → Hdr → Option Hdr) : Nat → Nat → Option NH := fun base number =>
  (store base).bind (fun b => (getAncestor store scan b number).map nhOf)

/-- `c` is the ancestor of `h` at `c.number`, by parent links -/
def IsAnc (store : Store) (c h : Hdr) : Prop :=
  c.number ≤ h.number ∧ walk store (h.number - c.number) h = some c

theorem ancNH_eq_walk {store : Store} (ok : StoreOk store) {scan : Nat → Hdr → Option Hdr}
    (sok : ScanOk store scan) {h : Hdr} (hs : store h.id = some h) {number : Nat}
    (hn : number ≤ h.number) :
    ancNH store scan h.id number = (walk store (h.number - number) h).map nhOf := by
  simp only [ancNH, hs, Option.bind_some]
  rw [getAncestor_eq_walk ok sok hs hn]

theorem hdr_eq_of_id {store : Store} {a b : Hdr} (ha : store a.id = some a) (hb : store b.id = some b)
    (h : a.id = b.id) : a = b := by
  rw [h] at ha
  rw [ha] at hb
  exact Option.some.inj hb

theorem nhOf_eq_iff {store : Store} {a b : Hdr} (ha : store a.id = some a) (hb : store b.id = some b) :
    nhOf a = nhOf b ↔ a = b := by
  constructor
  · intro h
    have : a.id = b.id := by
      have := congrArg Prod.snd h
      simpa [nhOf] using this
    exact hdr_eq_of_id ha hb this
  · intro h; rw [h]

theorem isAnc_refl (store : Store) (h : Hdr) : IsAnc store h h := by
  refine ⟨Nat.le_refl _, ?_⟩
  simp [walk]

theorem isAnc_trans {store : Store} {a b c : Hdr} (hab : IsAnc store a b) (hbc : IsAnc store b c) :
    IsAnc store a c := by
  refine ⟨Nat.le_trans hab.1 hbc.1, ?_⟩
  have : c.number - a.number = (c.number - b.number) + (b.number - a.number) := by
    have := hab.1; have := hbc.1; omega
  rw [this, walk_add, hbc.2]
  exact hab.2

/-- two ancestors of one header are on one path: the lower is an ancestor of the higher -/
theorem isAnc_of_le {store : Store} {a b h : Hdr} (ha : IsAnc store a h) (hb : IsAnc store b h)
    (hle : a.number ≤ b.number) : IsAnc store a b := by
  refine ⟨hle, ?_⟩
  have e : h.number - a.number = (h.number - b.number) + (b.number - a.number) := by
    have := ha.1; have := hb.1; omega
  have h2 := ha.2
  rw [e, walk_add, hb.2] at h2
  exact h2

/-- two ancestors of one header at the same number are the same header -/
theorem isAnc_unique {store : Store} {a b h : Hdr} (ha : IsAnc store a h) (hb : IsAnc store b h)
    (hn : a.number = b.number) : a = b := by
  have h1 := ha.2
  rw [hn, hb.2] at h1
  exact (Option.some.inj h1).symm

theorem isAnc_stored {store : Store} (ok : StoreOk store) {c h : Hdr} (hs : store h.id = some h)
    (hc : IsAnc store c h) : store c.id = some c := by
  obtain ⟨t, ht, _, hts⟩ := walk_ok ok (h.number - c.number) h hs (by omega)
  rw [hc.2] at ht
  cases ht
  exact hts

/-- one parent step inside a well-formed store -/
theorem walk_one {store : Store} (ok : StoreOk store) {h : Hdr} (hs : store h.id = some h)
    (hpos : 0 < h.number) :
    ∃ p, walk store 1 h = some p ∧ p.number + 1 = h.number ∧ store p.id = some p ∧
      ∀ k, walk store (k + 1) h = walk store k p := by
  obtain ⟨p, hp, hn⟩ := ok.parent_ok _ _ hs hpos
  have hpid := ok.id_ok _ _ hp
  refine ⟨p, by simp [walk, hp], hn, by rw [hpid]; exact hp, ?_⟩
  intro k
  simp [walk, hp]

/-- the loop of `last_common_ancestor` from two stored headers at the same number with a common root:
it stops at the first step `k` at which the two parent walks meet. -/
theorem lcaLoop_spec {store : Store} (ok : StoreOk store) {scan : Nat → Hdr → Option Hdr}
    (sok : ScanOk store scan) (n : Nat) : ∀ (fuel : Nat) (l r : Hdr),
    store l.id = some l → store r.id = some r → l.number = n → r.number = n → n < fuel →
    walk store n l = walk store n r →
    ∃ c k, lcaLoop (ancNH store scan) fuel (nhOf l) (nhOf r) = some (nhOf c) ∧ k ≤ n ∧
      walk store k l = some c ∧ walk store k r = some c ∧
      ∀ j, j < k → walk store j l ≠ walk store j r := by
  induction n with
  | zero =>
    intro fuel l r hl hr hln hrn hf hroot
    have hlr : l = r := by simpa [walk] using hroot
    subst hlr
    obtain ⟨f, rfl⟩ : ∃ f, fuel = f + 1 := ⟨fuel - 1, by omega⟩
    refine ⟨l, 0, ?_, Nat.le_refl _, by simp [walk], by simp [walk], ?_⟩
    · simp [lcaLoop]
    · intro j hj; omega
  | succ n ih =>
    intro fuel l r hl hr hln hrn hf hroot
    obtain ⟨f, rfl⟩ : ∃ f, fuel = f + 1 := ⟨fuel - 1, by omega⟩
    by_cases heq : nhOf l = nhOf r
    · have hlr : l = r := (nhOf_eq_iff hl hr).mp heq
      subst hlr
      refine ⟨l, 0, ?_, by omega, by simp [walk], by simp [walk], ?_⟩
      · simp [lcaLoop]
      · intro j hj; omega
    · have hne : l ≠ r := fun h => heq (by rw [h])
      obtain ⟨pl, hpl1, hpln, hpls, hplk⟩ := walk_one ok hl (by omega)
      obtain ⟨pr, hpr1, hprn, hprs, hprk⟩ := walk_one ok hr (by omega)
      have hroot' : walk store n pl = walk store n pr := by
        rw [← hplk n, ← hprk n]; exact hroot
      obtain ⟨c, k, hc, hk, hcl, hcr, hmax⟩ :=
        ih f pl pr hpls hprs (by omega) (by omega) (by omega) hroot'
      have hal : ancNH store scan l.id (l.number - 1) = some (nhOf pl) := by
        rw [ancNH_eq_walk ok sok hl (by omega)]
        have : l.number - (l.number - 1) = 1 := by omega
        rw [this, hpl1]; rfl
      have har : ancNH store scan r.id (r.number - 1) = some (nhOf pr) := by
        rw [ancNH_eq_walk ok sok hr (by omega)]
        have : r.number - (r.number - 1) = 1 := by omega
        rw [this, hpr1]; rfl
      refine ⟨c, k + 1, ?_, by omega, by rw [hplk]; exact hcl, by rw [hprk]; exact hcr, ?_⟩
      · have hl0 : ¬ ((nhOf l).1 = 0 ∨ (nhOf r).1 = 0) := by
          simp only [nhOf]; omega
        rw [lcaLoop, if_neg heq, if_neg hl0]
        simp only [nhOf] at hal har ⊢
        rw [hal, har]
        exact hc
      · intro j hj
        cases j with
        | zero => simpa [walk] using hne
        | succ j =>
          rw [hplk, hprk]
          exact hmax j (by omega)

/-- `last_common_ancestor` on two stored headers with `l.number ≤ r.number` (the order the code
establishes by its swap) and a common root -/
theorem lca_core {store : Store} (ok : StoreOk store) {scan : Nat → Hdr → Option Hdr}
    (sok : ScanOk store scan) {l r : Hdr} (hl : store l.id = some l) (hr : store r.id = some r)
    (hle : l.number ≤ r.number) (hroot : walk store l.number l = walk store r.number r) :
    ∃ c, (match ancNH store scan (nhOf r).2 (nhOf l).1 with
          | none => none
          | some r' => if nhOf l = r' then some (nhOf l)
                       else lcaLoop (ancNH store scan) ((nhOf l).1 + 1) (nhOf l) r') = some (nhOf c) ∧
      IsAnc store c l ∧ IsAnc store c r ∧
      ∀ m, c.number < m → m ≤ l.number →
        walk store (l.number - m) l ≠ walk store (r.number - m) r := by
  obtain ⟨rr, hrr, hrrn, hrrs⟩ := walk_ok ok (r.number - l.number) r hr (by omega)
  have hanc : ancNH store scan (nhOf r).2 (nhOf l).1 = some (nhOf rr) := by
    simp only [nhOf]
    rw [ancNH_eq_walk ok sok hr hle, hrr]; rfl
  rw [hanc]
  -- walking from `r` first down to `l.number`
  have hvia : ∀ j, walk store ((r.number - l.number) + j) r = walk store j rr := by
    intro j; rw [walk_add, hrr]; rfl
  by_cases heq : nhOf l = nhOf rr
  · have hlr : l = rr := (nhOf_eq_iff hl hrrs).mp heq
    refine ⟨l, by simp [heq], isAnc_refl _ _, ⟨hle, ?_⟩, ?_⟩
    · rw [hrr, hlr]
    · intro m h1 h2; omega
  · have hroot' : walk store l.number l = walk store l.number rr := by
      rw [← hvia, hroot]; congr 1; omega
    obtain ⟨c, k, hc, hk, hcl, hcr, hmax⟩ :=
      lcaLoop_spec ok sok l.number (l.number + 1) l rr hl hrrs rfl (by omega) (by omega) hroot'
    obtain ⟨t, ht, htn, _⟩ := walk_ok ok k l hl hk
    rw [hcl] at ht
    cases ht
    refine ⟨c, ?_, ⟨by omega, ?_⟩, ⟨by omega, ?_⟩, ?_⟩
    · simp only [if_neg heq]
      exact hc
    · have : l.number - c.number = k := by omega
      rw [this]; exact hcl
    · have : r.number - c.number = (r.number - l.number) + k := by omega
      rw [this, hvia]; exact hcr
    · intro m h1 h2
      have e1 : r.number - m = (r.number - l.number) + (l.number - m) := by omega
      rw [e1, hvia]
      exact hmax (l.number - m) (by omega)

/-- the first locator entry on the main chain: where `firstOnMain` stops -/
theorem firstOnMain_spec (numOnMain : Nat → Option Nat) : ∀ (l : List Nat) (i index n : Nat),
    firstOnMain numOnMain l i = some (index, n) →
    i ≤ index ∧ ∃ e, l[index - i]? = some e ∧ numOnMain e = some n ∧
      ∀ j, j < index - i → ∀ x, l[j]? = some x → numOnMain x = none := by
  intro l
  induction l with
  | nil => intro i index n h; simp [firstOnMain] at h
  | cons a t ih =>
    intro i index n h
    unfold firstOnMain at h
    cases hm : numOnMain a with
    | some v =>
      rw [hm] at h
      simp only [Option.some.injEq, Prod.mk.injEq] at h
      obtain ⟨rfl, rfl⟩ := h
      refine ⟨Nat.le_refl _, a, by simp, hm, ?_⟩
      intro j hj; omega
    | none =>
      rw [hm] at h
      obtain ⟨hi, e, he, hen, hbefore⟩ := ih (i + 1) index n h
      refine ⟨by omega, e, ?_, hen, ?_⟩
      · have : index - i = (index - (i + 1)) + 1 := by omega
        rw [this]; simpa using he
      · intro j hj x hx
        cases j with
        | zero =>
          simp only [List.getElem?_cons_zero, Option.some.injEq] at hx
          subst hx; exact hm
        | succ j =>
          simp only [List.getElem?_cons_succ] at hx
          exact hbefore j (by omega) x hx

/-- `firstOnMain` finds an entry when the list has one on the main chain -/
theorem firstOnMain_some (numOnMain : Nat → Option Nat) : ∀ (l : List Nat) (i : Nat) (e n : Nat),
    e ∈ l → numOnMain e = some n → ∃ r, firstOnMain numOnMain l i = some r := by
  intro l
  induction l with
  | nil => intro i e n h; cases h
  | cons a t ih =>
    intro i e n h hn
    unfold firstOnMain
    cases hm : numOnMain a with
    | some v => exact ⟨_, rfl⟩
    | none =>
      rcases List.mem_cons.mp h with h | h
      · subst h; rw [hm] at hn; cases hn
      · exact ih (i + 1) e n h hn

/-- every entry of the loop's result was already accumulated or is `A i` for some `i ≤ index`;
the accumulated entries stay in front -/
theorem locatorLoop_entries (A : Nat → Option Nat) (fuel : Nat) :
    ∀ (step index base : Nat) (acc l : List Nat) (f : Bool),
    locatorLoop (fun _ i => A i) fuel step index base acc = some (l, f) →
    (∃ rest, l = acc ++ rest) ∧ ∀ x ∈ l, x ∈ acc ∨ ∃ i, i ≤ index ∧ A i = some x := by
  induction fuel with
  | zero =>
    intro step index base acc l f h
    simp only [locatorLoop, Option.some.injEq, Prod.mk.injEq] at h
    obtain ⟨rfl, _⟩ := h
    exact ⟨⟨[], by simp⟩, fun x hx => Or.inl hx⟩
  | succ fuel ih =>
    intro step index base acc l f h
    simp only [locatorLoop] at h
    cases hA : A index with
    | none => rw [hA] at h; cases h
    | some hh =>
      rw [hA] at h
      simp only [] at h
      have key : ∀ (step' index' : Nat), index' ≤ index →
          locatorLoop (fun _ i => A i) fuel step' index' hh (acc ++ [hh]) = some (l, f) →
          (∃ rest, l = acc ++ rest) ∧ ∀ x ∈ l, x ∈ acc ∨ ∃ i, i ≤ index ∧ A i = some x := by
        intro step' index' hle hr
        obtain ⟨⟨rest, hrest⟩, hmem⟩ := ih step' index' hh (acc ++ [hh]) l f hr
        refine ⟨⟨hh :: rest, by rw [hrest]; simp⟩, ?_⟩
        intro x hx
        rcases hmem x hx with h1 | ⟨i, hi, hAi⟩
        · rcases List.mem_append.mp h1 with h2 | h2
          · exact Or.inl h2
          · have : x = hh := by simpa using h2
            subst this
            exact Or.inr ⟨index, Nat.le_refl _, hA⟩
        · exact Or.inr ⟨i, by omega, hAi⟩
      generalize (if (acc ++ [hh]).length ≥ 10 then step * 2 else step) = st at h
      by_cases hlt : index < st * 2
      · simp only [hlt, if_true] at h
        by_cases hb : ((acc ++ [hh]).length < 52 && decide (index > CkbVerif.Gen.Sync.ONE_DAY_BLOCK_NUMBER)) = true
        · simp only [hb, if_true] at h
          exact key _ _ (Nat.div_le_self _ _) h
        · simp only [hb, Bool.false_eq_true, if_false, Option.some.injEq, Prod.mk.injEq] at h
          obtain ⟨rfl, _⟩ := h
          refine ⟨⟨[hh], rfl⟩, ?_⟩
          intro x hx
          rcases List.mem_append.mp hx with h2 | h2
          · exact Or.inl h2
          · have : x = hh := by simpa using h2
            subst this
            exact Or.inr ⟨index, Nat.le_refl _, hA⟩
      · simp only [hlt, if_false] at h
        exact key _ _ (Nat.sub_le _ _) h

/-- with enough fuel, a result without the genesis flag ends in `A 0` -/
theorem locatorLoop_last (A : Nat → Option Nat) (fuel : Nat) :
    ∀ (step index base : Nat) (acc l : List Nat), 1 ≤ step → index < fuel →
    locatorLoop (fun _ i => A i) fuel step index base acc = some (l, false) →
    ∃ x, A 0 = some x ∧ l.getLast? = some x := by
  induction fuel with
  | zero => intro step index base acc l _ hf; omega
  | succ fuel ih =>
    intro step index base acc l hs hf h
    simp only [locatorLoop] at h
    cases hA : A index with
    | none => rw [hA] at h; cases h
    | some hh =>
      rw [hA] at h
      simp only [] at h
      have hstep : 1 ≤ (if (acc ++ [hh]).length ≥ 10 then step * 2 else step) := by split <;> omega
      generalize (if (acc ++ [hh]).length ≥ 10 then step * 2 else step) = st at h hstep
      by_cases hlt : index < st * 2
      · simp only [hlt, if_true] at h
        by_cases hb : ((acc ++ [hh]).length < 52 && decide (index > CkbVerif.Gen.Sync.ONE_DAY_BLOCK_NUMBER)) = true
        · simp only [hb, if_true] at h
          have hidx : index > CkbVerif.Gen.Sync.ONE_DAY_BLOCK_NUMBER := by
            simp only [Bool.and_eq_true, decide_eq_true_eq] at hb; exact hb.2
          have : index / 2 < index := Nat.div_lt_self (by omega) (by omega)
          exact ih _ _ _ _ _ hstep (by omega) h
        · simp only [hb, Bool.false_eq_true, if_false, Option.some.injEq, Prod.mk.injEq] at h
          obtain ⟨rfl, hz⟩ := h
          have h0 : index = 0 := by simpa using hz
          subst h0
          exact ⟨hh, hA, by simp⟩
      · simp only [hlt, if_false] at h
        exact ih _ _ _ _ _ hstep (by omega) h


/-- the first iteration pushes `A index` right behind the accumulated entries -/
theorem locatorLoop_head (A : Nat → Option Nat) (fuel : Nat) (step index base : Nat) (acc l : List Nat) (f : Bool)
    (h : locatorLoop (fun _ i => A i) (fuel + 1) step index base acc = some (l, f)) :
    ∃ hh rest, A index = some hh ∧ l = acc ++ hh :: rest := by
  simp only [locatorLoop] at h
  cases hA : A index with
  | none => rw [hA] at h; cases h
  | some hh =>
    rw [hA] at h
    simp only [] at h
    have key : ∀ (step' index' : Nat),
        locatorLoop (fun _ i => A i) fuel step' index' hh (acc ++ [hh]) = some (l, f) →
        ∃ hh' rest, some hh = some hh' ∧ l = acc ++ hh' :: rest := by
      intro step' index' hr
      obtain ⟨⟨rest, hrest⟩, _⟩ := locatorLoop_entries A fuel step' index' hh (acc ++ [hh]) l f hr
      exact ⟨hh, rest, rfl, by rw [hrest]; simp⟩
    generalize (if (acc ++ [hh]).length ≥ 10 then step * 2 else step) = st at h
    by_cases hlt : index < st * 2
    · simp only [hlt, if_true] at h
      by_cases hb : ((acc ++ [hh]).length < 52 && decide (index > CkbVerif.Gen.Sync.ONE_DAY_BLOCK_NUMBER)) = true
      · simp only [hb, if_true] at h
        exact key _ _ h
      · simp only [hb, Bool.false_eq_true, if_false, Option.some.injEq, Prod.mk.injEq] at h
        obtain ⟨rfl, _⟩ := h
        exact ⟨hh, [], rfl, rfl⟩
    · simp only [hlt, if_false] at h
      exact key _ _ h

end CkbVerif.Skip
