import CkbVerif.Lemmas.IndexerHistReplay

/-! The same for the transaction history by TYPE script (generated from IndexerHistReplay.lean). (C18) -/
namespace CkbVerif.Indexer

/-- the TxTypeScript row `(sc, b.number, i, io, t)` that block `b` contributes, if any -/
def txTypeRowOf (L : OutPoint → Option Cell) (b : Block) (sc : Script) (i io : Nat) (t : IoType) : Option Nat :=
  match b.txs[i]? with
  | none => none
  | some tx =>
    match t with
    | .output =>
      match tx.outputs[io]? with
      | some out => if out.type = some sc then some tx.id else none
      | none => none
    | .input =>
      if i = 0 then none else
      match tx.inputs[io]? with
      | some op =>
        match resolveSpec L b op with
        | some c => if c.out.type = some sc then some tx.id else none
        | none => none
      | none => none

def histStepT (st : (OutPoint → Option Cell) × HistFn) (b : Block) : (OutPoint → Option Cell) × HistFn :=
  (replayStep st.1 b,
   fun sc bn i io t => if bn = b.number then txTypeRowOf st.1 b sc i io t else st.2 sc bn i io t)

/-- **the transaction history by type script of a chain, by direct replay**: for every block, one
`output` row per output under its type script and one `input` row per input of a non-cellbase
transaction under the type script of the cell it spends (resolved in the replayed live set) -/
def replayTxType (blocks : List Block) : HistFn :=
  (blocks.foldl histStepT (fun _ => none, fun _ _ _ _ _ => none)).2

variable {s : Store} {b : Block}

/-- index rows carry transaction ids -/
def idxValOkT : BOp → Bool
  | .put (.txType ..) (.tx _) => true
  | .put (.txType ..) _ => false
  | _ => true

theorem txOps_ivT (s : Store) (b : Block) (i : Nat) (tx : Tx) : (txOps s b i tx).all idxValOkT = true := by
  unfold txOps inputsOps outputsOps
  simp only [List.all_append, Bool.and_eq_true]
  refine ⟨⟨?_, ?_⟩, ?_⟩
  · split
    · rfl
    · rw [List.all_flatMap, List.all_eq_true]
      intro p _
      split
      · unfold consumeOps; cases (‹Cell›).out.type <;> simp [idxValOkT]
      · rfl
  · rw [List.all_flatMap, List.all_eq_true]
    intro p _
    unfold createOps; cases p.1.type <;> simp [idxValOkT]
  · split <;> simp [idxValOkT]

/-- the TxTypeScript rows of the appended block's number, as a function of the replayed live set -/
theorem txType_replayStep (wf : WFAppend2 s b)
    (fresh : ∀ (sc : Script) (txi io : Nat) (t : IoType), get s (.txType sc b.number txi io t) = none)
    (L : OutPoint → Option Cell) (hL : ∀ op, get s (.outPoint op) = (L op).map Val.cell)
    (sc : Script) (i io : Nat) (t : IoType) :
    get (appendCore s b) (.txType sc b.number i io t) = (txTypeRowOf L b sc i io t).map Val.tx := by
  -- the iff of `txType_step2`, with `Res` replaced by the replay's resolution
  have hiff : ∀ id, get (appendCore s b) (.txType sc b.number i io t) = some (.tx id) ↔
      txTypeRowOf L b sc i io t = some id := by
    intro id
    rw [txType_step2 wf fresh sc i io t id]
    unfold txTypeRowOf
    constructor
    · rintro ⟨tx, htx, rfl, hcase⟩
      rw [htx]
      rcases hcase with ⟨rfl, out, hout, hl⟩ | ⟨rfl, hi, op, c, hop, hres, hl⟩
      · simp [hout, hl]
      · rw [res_iff_resolveSpec wf L hL] at hres
        simp [hi, hop, hres, hl]
    · intro h
      cases htx : b.txs[i]? with
      | none => simp [htx] at h
      | some tx =>
        simp only [htx] at h
        cases t with
        | output =>
          simp only at h
          cases hout : tx.outputs[io]? with
          | none => simp [hout] at h
          | some out =>
            simp only [hout] at h
            split at h
            · rename_i hl
              cases h
              exact ⟨tx, rfl, rfl, Or.inl ⟨rfl, out, hout, hl⟩⟩
            · cases h
        | input =>
          simp only at h
          split at h
          · cases h
          · rename_i hi
            cases hop : tx.inputs[io]? with
            | none => simp [hop] at h
            | some op =>
              simp only [hop] at h
              cases hres : resolveSpec L b op with
              | none => simp [hres] at h
              | some c =>
                simp only [hres] at h
                split at h
                · rename_i hl
                  cases h
                  exact ⟨tx, rfl, rfl, Or.inr ⟨rfl, hi, op, c, hop,
                    (res_iff_resolveSpec wf L hL op c).mpr hres, hl⟩⟩
                · cases h
  -- the row's value is always a transaction id
  have hty : ∀ v, get (appendCore s b) (.txType sc b.number i io t) = some v → ∃ id, v = .tx id := by
    intro v hv
    have hmem := mem_of_get _ _ _ hv
    unfold appendCore at hmem
    rcases mem_commit _ _ _ hmem with h1 | h1
    · exact absurd (fresh sc i io t) (mem_ne_none s _ _ h1)
    · unfold appendOps at h1
      rw [List.mem_append] at h1
      rcases h1 with h1 | h1
      · rw [List.mem_flatMap] at h1
        obtain ⟨p, _, hp⟩ := h1
        have := (List.all_eq_true.mp (txOps_ivT s b p.2 p.1)) _ hp
        cases v with
        | tx id => exact ⟨id, rfl⟩
        | cell _ => simp [idxValOkT] at this
        | inputs _ => simp [idxValOkT] at this
        | txs _ => simp [idxValOkT] at this
      · simp only [List.mem_singleton] at h1
        obtain ⟨f, l, hh⟩ := headerOp_eq s b
        rw [hh] at h1
        cases h1
  cases hg : get (appendCore s b) (.txType sc b.number i io t) with
  | none =>
    cases hr : txTypeRowOf L b sc i io t with
    | none => rfl
    | some id =>
      have := (hiff id).mpr hr
      rw [hg] at this
      cases this
  | some v =>
    obtain ⟨id, rfl⟩ := hty v hg
    rw [(hiff id).mp hg]
    rfl

theorem txType_other_bn (s : Store) (b : Block) (sc : Script) (bn i io : Nat) (t : IoType)
    (hne : bn ≠ b.number) :
    get (appendCore s b) (.txType sc bn i io t) = get s (.txType sc bn i io t) := by
  rw [get_appendCore_nonheader s b _ (by intro _ _ _ h; cases h)]
  apply get_commit_untouched
  intro o ho hk
  have := txsOps_ok s b o ho
  rw [hk] at this
  simp [appendKeyOk] at this
  exact hne this

/-- a chain whose blocks are well-formed and whose numbers are new to the history index -/
def ChainOK3T (keep interval : Nat) : Store → List Block → Prop
  | _, [] => True
  | s, b :: r => WFAppend2 s b ∧
      (∀ (sc : Script) (txi io : Nat) (t : IoType), get s (.txType sc b.number txi io t) = none) ∧
      ChainOK3T keep interval (append keep interval s b) r

/-- **the store's TxTypeScript rows are the replayed transaction history** -/
theorem txType_eq_replay_from (keep interval : Nat) (blocks : List Block) (s : Store)
    (st : (OutPoint → Option Cell) × HistFn)
    (hL : ∀ op, get s (.outPoint op) = (st.1 op).map Val.cell)
    (hH : ∀ sc bn i io t, get s (.txType sc bn i io t) = (st.2 sc bn i io t).map Val.tx)
    (ok : ChainOK3T keep interval s blocks) (sc : Script) (bn i io : Nat) (t : IoType) :
    get (blocks.foldl (append keep interval) s) (.txType sc bn i io t) =
      ((blocks.foldl histStepT st).2 sc bn i io t).map Val.tx := by
  induction blocks generalizing s st with
  | nil => exact hH sc bn i io t
  | cons b r ih =>
    obtain ⟨wf, fresh, ok'⟩ := ok
    simp only [List.foldl_cons]
    have hcore : ∀ k : Key, k.isAnswer = true →
        get (append keep interval s b) k = get (appendCore s b) k := by
      intro k hk
      unfold append
      dsimp only
      split
      · exact lockInv_append_prune.prune_answers hk
      · rfl
    apply ih _ _ _ _ ok'
    · intro op
      rw [hcore _ rfl]
      exact outPoint_replayStep wf st.1 hL op
    · intro sc' bn' i' io' t'
      rw [hcore _ rfl]
      simp only [histStepT]
      by_cases hb : bn' = b.number
      · subst hb
        simp only [if_true]
        exact txType_replayStep wf fresh st.1 hL sc' i' io' t'
      · simp only [hb, if_false]
        rw [txType_other_bn s b sc' bn' i' io' t' hb]
        exact hH sc' bn' i' io' t'

theorem txType_eq_replay (keep interval : Nat) (blocks : List Block)
    (ok : ChainOK3T keep interval [] blocks) (sc : Script) (bn i io : Nat) (t : IoType) :
    get (blocks.foldl (append keep interval) []) (.txType sc bn i io t) =
      (replayTxType blocks sc bn i io t).map Val.tx :=
  txType_eq_replay_from keep interval blocks [] (fun _ => none, fun _ _ _ _ _ => none)
    (fun _ => rfl) (fun _ _ _ _ _ => rfl) ok sc bn i io t

end CkbVerif.Indexer
