import CkbVerif.Model.Compact
/-!
Helper lemmas for the uncle-position binding (`Props/C16.lean`): the `position` counter of the
uncles loop of `reconstruct_block` against the requested index list.
-/
namespace CkbVerif.Compact

theorem zipAllEq_eq : ∀ (a b : List Nat), a.length = b.length → zipAllEq a b = true → a = b
  | [], [], _, _ => rfl
  | [], _ :: _, h, _ => by simp at h
  | _ :: _, [], h, _ => by simp at h
  | x :: xs, y :: ys, h, hz => by
    simp only [zipAllEq, Bool.and_eq_true, beq_iff_eq] at hz
    simp only [List.length_cons, Nat.add_right_cancel_iff] at h
    rw [hz.1, zipAllEq_eq xs ys h hz.2]

/-- how many requested indexes lie below `i`: the value of `position` when the loop is at `i` -/
def below (idx : List Nat) (i : Nat) : Nat := (idx.filter (fun j => decide (j < i))).length

theorem below_succ (idx : List Nat) (hn : idx.Nodup) (i : Nat) :
    below idx (i + 1) = below idx i + (if i ∈ idx then 1 else 0) := by
  induction idx with
  | nil => simp [below]
  | cons a t ih =>
    obtain ⟨hat, hnt⟩ := List.nodup_cons.mp hn
    have ih := ih hnt
    unfold below at ih ⊢
    simp only [List.filter_cons]
    by_cases h1 : a < i
    · have h2 : a < i + 1 := by omega
      have hne : i ≠ a := by omega
      simp only [h1, h2, decide_true, if_true, List.length_cons, List.mem_cons, hne, false_or]
      omega
    · by_cases h3 : a = i
      · subst h3
        have hnot : a ∉ t := hat
        simp only [Nat.lt_irrefl, decide_false, Nat.lt_succ_self, decide_true, if_true, List.length_cons,
          List.mem_cons, true_or, Bool.false_eq_true, if_false]
        simp only [hnot, if_false] at ih
        omega
      · have h2 : ¬ a < i + 1 := by omega
        have hne : i ≠ a := fun h => h3 h.symm
        simp only [h1, h2, decide_false, Bool.false_eq_true, if_false, List.mem_cons, hne, false_or]
        exact ih

theorem sorted_get_below (idx : List Nat) (hs : idx.Pairwise (· < ·)) (i : Nat) (hi : i ∈ idx) :
    idx[below idx i]? = some i := by
  induction idx with
  | nil => simp at hi
  | cons a t ih =>
    obtain ⟨hat, hst⟩ := List.pairwise_cons.mp hs
    unfold below
    simp only [List.filter_cons]
    rcases List.mem_cons.mp hi with h | h
    · subst h
      have : t.filter (fun j => decide (j < i)) = [] := by
        rw [List.filter_eq_nil_iff]
        intro b hb
        have := hat b hb
        simp only [decide_eq_true_eq]
        omega
      simp [this]
    · have hai : a < i := hat i h
      have := ih hst h
      unfold below at this
      simp only [hai, decide_true, if_true, List.length_cons, List.getElem?_cons_succ]
      exact this

theorem filterMap_get_of_all_some {α : Type} (f : Nat → Option α) :
    ∀ (idx : List Nat) (k : Nat), (∀ i ∈ idx, (f i).isSome = true) → (idx.filterMap f)[k]? = (idx[k]?).bind f := by
  intro idx
  induction idx with
  | nil => intro k _; simp
  | cons a t ih =>
    intro k h
    have ha := h a List.mem_cons_self
    obtain ⟨v, hv⟩ := Option.isSome_iff_exists.mp ha
    rw [List.filterMap_cons_some hv]
    cases k with
    | zero => simp [hv]
    | succ k =>
      simp only [List.getElem?_cons_succ]
      exact ih k (fun i hi => h i (List.mem_cons_of_mem _ hi))

/-- the loop invariant: with `position` = number of requested indexes below `i`, every pair the loop
produces binds an index to the uncle the compact block lists there -/
theorem unclesTake_binds (uncles idx : List Nat) (hs : idx.Pairwise (· < ·)) (hin : ∀ i ∈ idx, i < uncles.length) :
    ∀ (rest : List Nat) (i : Nat) (pairs : List (Nat × Nat)),
      unclesTake idx (idx.filterMap (fun i => uncles[i]?)) rest i (below idx i) = some pairs →
      ∀ p ∈ pairs, uncles[p.1]? = some p.2 := by
  have hn : idx.Nodup := hs.imp (fun h => Nat.ne_of_lt h)
  intro rest
  induction rest with
  | nil => intro i pairs h p hp; simp [unclesTake] at h; subst h; simp at hp
  | cons u rest ih =>
    intro i pairs h p hp
    unfold unclesTake at h
    by_cases hc : idx.contains i = true
    · have hi : i ∈ idx := by simpa using hc
      rw [if_pos hc] at h
      have hget : (idx.filterMap (fun i => uncles[i]?))[below idx i]? = uncles[i]? := by
        rw [filterMap_get_of_all_some _ idx _ (fun j hj => by
          have := hin j hj
          simp [this]), sorted_get_below idx hs i hi]
        rfl
      rw [hget] at h
      have hlt := hin i hi
      have hsome : uncles[i]? = some uncles[i] := List.getElem?_eq_getElem hlt
      rw [hsome] at h
      simp only at h
      have hb : below idx (i + 1) = below idx i + 1 := by rw [below_succ idx hn i, if_pos hi]
      rw [← hb] at h
      cases hrec : unclesTake idx (idx.filterMap (fun i => uncles[i]?)) rest (i + 1) (below idx (i + 1)) with
      | none => rw [hrec] at h; simp at h
      | some ps =>
        rw [hrec] at h
        simp only [Option.map_some, Option.some.injEq] at h
        subst h
        rcases List.mem_cons.mp hp with rfl | hp'
        · exact hsome
        · exact ih (i + 1) ps hrec p hp'
    · have hi : i ∉ idx := by simpa using hc
      rw [if_neg hc] at h
      have hb : below idx (i + 1) = below idx i := by rw [below_succ idx hn i, if_neg hi]; rfl
      rw [← hb] at h
      exact ih (i + 1) pairs h p hp

/-- the missing-uncle indexes `reconstruct_block` reports (and the node then requests) are strictly
increasing and in range -/
theorem unclesGo_missing_sorted (src : Nat → UncleSrc) (fromPeer : List Nat) :
    ∀ (us : List Nat) (i : Nat) (r : List Nat × List Nat), unclesGo src fromPeer us i = some r →
      r.2.Pairwise (· < ·) ∧ ∀ j ∈ r.2, i ≤ j ∧ j < i + us.length := by
  intro us
  induction us with
  | nil => intro i r h; simp [unclesGo] at h; subst h; simp
  | cons u rest ih =>
    intro i r h
    unfold unclesGo at h
    have keep : ∀ (r' : List Nat × List Nat), unclesGo src fromPeer rest (i + 1) = some r' →
        r'.2.Pairwise (· < ·) ∧ ∀ j ∈ r'.2, i ≤ j ∧ j < i + (u :: rest).length := by
      intro r' hr'
      obtain ⟨a, b⟩ := ih (i + 1) r' hr'
      refine ⟨a, fun j hj => ?_⟩
      have := b j hj
      simp only [List.length_cons]
      omega
    split at h
    · cases hrec : unclesGo src fromPeer rest (i + 1) with
      | none => rw [hrec] at h; simp at h
      | some r' =>
        rw [hrec] at h
        simp only [Option.map_some, Option.some.injEq] at h
        subst h
        exact keep r' hrec
    · split at h
      · simp at h
      · cases hrec : unclesGo src fromPeer rest (i + 1) with
        | none => rw [hrec] at h; simp at h
        | some r' =>
          rw [hrec] at h
          simp only [Option.map_some, Option.some.injEq] at h
          subst h
          exact keep r' hrec
      · cases hrec : unclesGo src fromPeer rest (i + 1) with
        | none => rw [hrec] at h; simp at h
        | some r' =>
          rw [hrec] at h
          simp only [Option.map_some, Option.some.injEq] at h
          subst h
          obtain ⟨a, b⟩ := ih (i + 1) r' hrec
          refine ⟨List.pairwise_cons.mpr ⟨fun j hj => ?_, a⟩, fun j hj => ?_⟩
          · have := b j hj; omega
          · simp only [List.length_cons]
            rcases List.mem_cons.mp hj with rfl | hj
            · omega
            · have := b j hj; omega

end CkbVerif.Compact
