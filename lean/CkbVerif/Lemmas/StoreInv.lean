/-
Well-formedness (what block verification enforces), the consistency invariant between the cell
columns and the tx-info/body columns, and the undo theorem behind `Props/C02.lean`.
-/
import CkbVerif.Lemmas.Store
namespace CkbVerif.Store

def txIds (b : Block) : List Nat := b.txs.map (·.id)

/-- every live cell is exactly what `detach_block_cell` would rebuild from the tx-info row of its
transaction and the stored body that row points to -/
def CellsConsistent (m : Main) (r : Recs) : Prop :=
  ∀ o row, m.cells o = some row →
    ∃ info blk tx out, m.txInfo o.tx = some info ∧ r.bodies info.blockId = some blk ∧
      blk.txs[info.index]? = some tx ∧ tx.outputs[o.idx]? = some out ∧
      row = mkRow info.blockId info.number info.epoch info.index out

/-- `b` may be attached on top of the view `m` (this is what verification enforces: transaction
ids are new on this chain, the block's number/hash/uncles are not indexed yet, every input of a
non-cellbase transaction is live or is an output of this very block) -/
structure Valid (m : Main) (r : Recs) (b : Block) : Prop where
  nodup : (txIds b).Nodup
  freshTx : ∀ t ∈ txIds b, m.txInfo t = none
  freshCell : ∀ o : OutPoint, o.tx ∈ txIds b → m.cells o = none
  freshIndex : m.index b.number = none
  freshRindex : m.rindex b.id = none
  freshUncles : ∀ u ∈ b.uncles, m.uncles u = none
  inputs : ∀ o ∈ deadInputs b, m.cells o ≠ none ∨ o ∈ blockOutPoints b
  body : r.bodies b.id = none ∨ r.bodies b.id = some b
  /-- the block opens an epoch exactly when its epoch starts at its number -/
  headOk : b.isHead = true ↔ b.epochRec.start = b.number
  /-- an epoch opened by the block is beyond every epoch of the chain so far -/
  freshEpochNum : b.isHead = true → m.epochNum b.epochRec.number = none
  /-- records are per hash: what is stored for this block / its epoch is what the block says -/
  bepoch : r.blockEpoch b.id = none ∨ r.blockEpoch b.id = some b.epochRec.key
  eext : r.epochExt b.epochRec.key = some b.epochRec ∨ (b.isHead = true ∧ r.epochExt b.epochRec.key = none)

inductive ValidChain : View → List Block → Prop
  | nil (v : View) : ValidChain v []
  | cons {v : View} {b : Block} {bs : List Block} :
      Valid v.m v.r b → ValidChain (attachOne v b) bs → ValidChain v (b :: bs)

/-! ### restored cells -/

theorem mem_restoredCells {m : Main} {r : Recs} {os : List OutPoint} {p : OutPoint × CellRow} :
    p ∈ restoredCells m r os ↔
      ∃ o ∈ os, ∃ tx info out, getTxWithInfo m r o.tx = some (tx, info) ∧ tx.outputs[o.idx]? = some out ∧
        p = (o, mkRow info.blockId info.number info.epoch info.index out) := by
  induction os with
  | nil => simp [restoredCells]
  | cons o os ih =>
    cases hg : getTxWithInfo m r o.tx with
    | none =>
      simp only [restoredCells, hg, ih, List.mem_cons]
      constructor
      · rintro ⟨o', ho', rest⟩; exact ⟨o', Or.inr ho', rest⟩
      · rintro ⟨o', ho' | ho', tx, info, out, h1, h2, h3⟩
        · subst ho'; rw [hg] at h1; cases h1
        · exact ⟨o', ho', tx, info, out, h1, h2, h3⟩
    | some ti =>
      obtain ⟨tx, info⟩ := ti
      cases ho : tx.outputs[o.idx]? with
      | none =>
        simp only [restoredCells, hg, ho, ih, List.mem_cons]
        constructor
        · rintro ⟨o', ho', rest⟩; exact ⟨o', Or.inr ho', rest⟩
        · rintro ⟨o', ho' | ho', tx', info', out, h1, h2, h3⟩
          · subst ho'; rw [hg] at h1; cases h1; rw [ho] at h2; cases h2
          · exact ⟨o', ho', tx', info', out, h1, h2, h3⟩
      | some out =>
        simp only [restoredCells, hg, ho, List.mem_cons, ih]
        constructor
        · rintro (h | ⟨o', ho', rest⟩)
          · exact ⟨o, Or.inl rfl, tx, info, out, hg, ho, h⟩
          · exact ⟨o', Or.inr ho', rest⟩
        · rintro ⟨o', ho' | ho', tx', info', out', h1, h2, h3⟩
          · subst ho'; rw [hg] at h1; cases h1; rw [ho] at h2; cases h2; exact Or.inl h3
          · exact Or.inr ⟨o', ho', tx', info', out', h1, h2, h3⟩

/-- the tx-info column after attach + detach of `b`, where `b`'s own ids were fresh -/
theorem txInfo_detach_attach (m : Main) (ea ed : Option EpochRec) (b : Block)
    (hfresh : ∀ t ∈ txIds b, m.txInfo t = none) :
    (detach (attachCell (attach m ea b) b) ed b).txInfo = m.txInfo := by
  funext t
  show putAll (attachCell (attach m ea b) b).txInfo none (b.txs.map (·.id)) t = m.txInfo t
  rw [putAll_apply, attachCell_txInfo]
  by_cases h : t ∈ b.txs.map (·.id)
  · simp [h, hfresh t h]
  · simp only [h, if_false]
    exact putTxInfos_not_mem b m.txInfo 0 b.txs t h

theorem nodup_index_unique {ts : List Tx} (hnd : (ts.map (·.id)).Nodup) {k k' : Nat} {t t' : Tx}
    (h : ts[k]? = some t) (h' : ts[k']? = some t') (hid : t.id = t'.id) : k = k' ∧ t = t' := by
  have h1 := List.getElem?_eq_some_iff.mp h
  have h2 := List.getElem?_eq_some_iff.mp h'
  obtain ⟨hk, e1⟩ := h1
  obtain ⟨hk', e2⟩ := h2
  have hkm : k < (ts.map (·.id)).length := by simpa using hk
  have hkm' : k' < (ts.map (·.id)).length := by simpa using hk'
  have : (ts.map (·.id))[k] = (ts.map (·.id))[k'] := by simp [e1, e2, hid]
  have hkk := (List.getElem_inj (h₀ := hkm) (h₁ := hkm') hnd).mp this
  subst hkk
  exact ⟨rfl, by rw [← e1, ← e2]⟩

/-! ### the undo theorem -/

/-- `rollback` of the block just attached restores the five view columns exactly — including
cells created and spent inside the block (their tx-info rows are already gone when
`detach_block_cell` runs, so they are not restored, and the output deletion removes them).
`r'` is any record store that still has the bodies `r` had. -/
theorem detach_attach (m : Main) (r r' : Recs) (b : Block) (ea ed : Option EpochRec)
    (hc : CellsConsistent m r) (hv : Valid m r b)
    (hext : ∀ id blk, r.bodies id = some blk → r'.bodies id = some blk)
    (hnum : detachEpochNum (attachEpochNum m.epochNum ea b) ed b = m.epochNum) :
    detachCell (detach (attachCell (attach m ea b) b) ed b) r' b = m := by
  have htx := txInfo_detach_attach m ea ed b hv.freshTx
  apply Main.ext'
  · -- cells
    funext x
    simp only [detachCell]
    rw [deleteCells_cells]
    by_cases hout : x ∈ blockOutPoints b
    · simp only [hout, if_true]
      obtain ⟨tx, htxm, h1, _⟩ := mem_blockOutPoints.mp hout
      exact (hv.freshCell x (by rw [h1]; exact List.mem_map_of_mem htxm)).symm
    · simp only [hout, if_false]
      -- abbreviations
      have hm1 : ∀ y, (attachCell (attach m ea b) b).cells y =
          if y ∈ deadInputs b then none else (insertCells (attach m ea b) (blockCells b 0 b.txs)).cells y := by
        intro y; simp only [attachCell]; rw [deleteCells_cells]
      have hx_notkey : x ∉ (blockCells b 0 b.txs).map (·.1) := fun h => hout (mem_blockCells_keys.mp h)
      by_cases hr : x ∈ (restoredCells (detach (attachCell (attach m ea b) b) ed b) r' (deadInputs b)).map (·.1)
      · -- restored: equals the old row
        obtain ⟨p, hp, hpx⟩ := List.mem_map.mp hr
        obtain ⟨o, ho, tx, info, out, hg, hout', hpe⟩ := mem_restoredCells.mp hp
        have hox : o = x := by rw [hpe] at hpx; exact hpx
        subst hox
        have hlive : m.cells o ≠ none := by
          rcases hv.inputs o ho with h | h
          · exact h
          · exact absurd h hout
        obtain ⟨row, hrow⟩ := Option.ne_none_iff_exists'.mp hlive
        obtain ⟨info0, blk0, tx0, out0, hi0, hb0, ht0, ho0, hrow0⟩ := hc o row hrow
        have key : ∀ q ∈ restoredCells (detach (attachCell (attach m ea b) b) ed b) r' (deadInputs b), q.1 = o → q.2 = row := by
          intro q hq hq1
          obtain ⟨o', _, tx', info', out', hg', hout'', hqe⟩ := mem_restoredCells.mp hq
          have : o' = o := by rw [hqe] at hq1; exact hq1
          subst this
          simp only [getTxWithInfo, htx, hi0, hext _ _ hb0, ht0] at hg'
          cases hg'
          rw [ho0] at hout''
          cases hout''
          rw [hqe, hrow0]
        rw [insertCells_cells_mem _ _ _ row key hr, hrow]
      · rw [insertCells_cells_not_mem _ _ _ hr]
        rw [detach_cells, hm1]
        by_cases hd : x ∈ deadInputs b
        · -- spent, yet not restored: impossible
          exfalso
          have hlive : m.cells x ≠ none := by
            rcases hv.inputs x hd with h | h
            · exact h
            · exact absurd h hout
          obtain ⟨row, hrow⟩ := Option.ne_none_iff_exists'.mp hlive
          obtain ⟨info0, blk0, tx0, out0, hi0, hb0, ht0, ho0, _⟩ := hc x row hrow
          apply hr
          apply List.mem_map.mpr
          refine ⟨(x, mkRow info0.blockId info0.number info0.epoch info0.index out0), ?_, rfl⟩
          apply mem_restoredCells.mpr
          refine ⟨x, hd, tx0, info0, out0, ?_, ho0, rfl⟩
          simp only [getTxWithInfo, htx, hi0, hext _ _ hb0, ht0]
        · simp only [hd, if_false]
          rw [insertCells_cells_not_mem _ _ _ hx_notkey, attach_cells]
  · rw [detachCell_txInfo]; exact htx
  · rw [detachCell_index]
    funext n
    show upd (attachCell (attach m ea b) b).index b.number none n = m.index n
    rw [attachCell_index]
    show upd (upd m.index b.number (some b.id)) b.number none n = m.index n
    by_cases h : n = b.number
    · subst h; simp [upd, hv.freshIndex]
    · simp [upd, h]
  · rw [detachCell_rindex]
    funext n
    show upd (attachCell (attach m ea b) b).rindex b.id none n = m.rindex n
    rw [attachCell_rindex]
    show upd (upd m.rindex b.id (some b.number)) b.id none n = m.rindex n
    by_cases h : n = b.id
    · subst h; simp [upd, hv.freshRindex]
    · simp [upd, h]
  · rw [detachCell_uncles]
    funext u
    show putAll (attachCell (attach m ea b) b).uncles none b.uncles u = m.uncles u
    rw [attachCell_uncles]
    show putAll (putAll m.uncles (some ()) b.uncles) none b.uncles u = m.uncles u
    rw [putAll_apply, putAll_apply]
    by_cases h : u ∈ b.uncles
    · simp [h, hv.freshUncles u h]
    · simp [h]
  · rw [detachCell_epochNum]
    show detachEpochNum (attachCell (attach m ea b) b).epochNum ed b = m.epochNum
    rw [attachCell_epochNum]
    exact hnum
  · simp
  · simp

/-! ### the invariant is preserved by attaching a valid block -/

@[simp] theorem attachOneR_bodies (r : Recs) (b : Block) :
    (attachOneR r b).bodies = upd r.bodies b.id (some b) := by
  simp only [attachOneR, putExt, insertBlockEpoch, insertBlock, insertEpochExt]
  split <;> rfl

theorem bodies_mono_attachOne (r : Recs) (b : Block) (hb : r.bodies b.id = none ∨ r.bodies b.id = some b)
    (id : Nat) (blk : Block) (h : r.bodies id = some blk) : (attachOneR r b).bodies id = some blk := by
  rw [attachOneR_bodies]
  by_cases hid : id = b.id
  · subst hid
    rcases hb with hb | hb
    · rw [hb] at h; cases h
    · rw [hb] at h; simp [upd, h]
  · simp [upd, hid, h]

theorem cellsConsistent_attachOne (m : Main) (r : Recs) (b : Block)
    (hc : CellsConsistent m r) (hv : Valid m r b) :
    CellsConsistent (attachOneM m b) (attachOneR r b) := by
  intro o row hrow
  have hcells : (attachOneM m b).cells o =
      if o ∈ deadInputs b then none else (insertCells (attach m (headEpoch b) b) (blockCells b 0 b.txs)).cells o := by
    show (attachCell (attach m (headEpoch b) b) b).cells o = _
    simp only [attachCell]; rw [deleteCells_cells]
  have htxi : (attachOneM m b).txInfo = putTxInfos b m.txInfo 0 b.txs := by
    show (attachCell (attach m (headEpoch b) b) b).txInfo = _
    rw [attachCell_txInfo]; rfl
  rw [hcells] at hrow
  by_cases hd : o ∈ deadInputs b
  · simp [hd] at hrow
  · simp only [hd, if_false] at hrow
    by_cases hk : o ∈ (blockCells b 0 b.txs).map (·.1)
    · -- a new cell of this block
      obtain ⟨tx, htxm, h1, h2⟩ := mem_blockOutPoints.mp (mem_blockCells_keys.mp hk)
      obtain ⟨k, hkk⟩ := List.getElem?_of_mem htxm
      have hout : tx.outputs[o.idx]? = some tx.outputs[o.idx] := by simp [h2]
      have key : ∀ q ∈ blockCells b 0 b.txs, q.1 = o → q.2 = mkRow b.id b.number b.epoch k tx.outputs[o.idx] := by
        intro q hq hq1
        obtain ⟨k', tx', j, out', hk', hj, hqe⟩ := mem_blockCells.mp hq
        have hoe : o = ⟨tx'.id, j⟩ := by rw [hqe] at hq1; exact hq1.symm
        have hid : tx.id = tx'.id := by rw [← h1, hoe]
        obtain ⟨e1, e2⟩ := nodup_index_unique hv.nodup hkk hk' hid
        subst e1; subst e2
        have hj' : j = o.idx := by rw [hoe]
        subst hj'
        rw [hout] at hj; cases hj
        rw [hqe]; simp
      rw [insertCells_cells_mem _ _ _ _ key hk] at hrow
      cases hrow
      refine ⟨⟨b.id, k, b.number, b.epoch⟩, b, tx, tx.outputs[o.idx], ?_, ?_, hkk, hout, rfl⟩
      · rw [htxi, h1]
        have := putTxInfos_mem b m.txInfo 0 b.txs hv.nodup k tx hkk
        simpa using this
      · rw [attachOneR_bodies]; simp [upd]
    · -- an older cell
      rw [insertCells_cells_not_mem _ _ _ hk, attach_cells] at hrow
      obtain ⟨info, blk, tx, out, hi, hb, ht, ho, hr⟩ := hc o row hrow
      have hnot : o.tx ∉ txIds b := by
        intro hmem
        rw [hv.freshCell o hmem] at hrow; cases hrow
      refine ⟨info, blk, tx, out, ?_, bodies_mono_attachOne r b hv.body _ _ hb, ht, ho, hr⟩
      rw [htxi, putTxInfos_not_mem b m.txInfo 0 b.txs o.tx hnot]
      exact hi

/-! ### records only grow -/

/-- every record of `r` is still there, unchanged, in `r'` -/
structure RecsLe (r r' : Recs) : Prop where
  bodies : ∀ id blk, r.bodies id = some blk → r'.bodies id = some blk
  blockEpoch : ∀ id k, r.blockEpoch id = some k → r'.blockEpoch id = some k
  epochExt : ∀ k e, r.epochExt k = some e → r'.epochExt k = some e

theorem RecsLe.refl (r : Recs) : RecsLe r r := ⟨fun _ _ h => h, fun _ _ h => h, fun _ _ h => h⟩

theorem RecsLe.trans {a b c : Recs} (h1 : RecsLe a b) (h2 : RecsLe b c) : RecsLe a c :=
  ⟨fun id blk h => h2.bodies id blk (h1.bodies id blk h), fun id k h => h2.blockEpoch id k (h1.blockEpoch id k h),
   fun k e h => h2.epochExt k e (h1.epochExt k e h)⟩

theorem epochOf_mono {r r' : Recs} (h : RecsLe r r') {id : Nat} {e : EpochRec} (he : epochOf r id = some e) :
    epochOf r' id = some e := by
  unfold epochOf at he ⊢
  cases hk : r.blockEpoch id with
  | none => rw [hk] at he; cases he
  | some k =>
    rw [hk] at he
    rw [h.blockEpoch id k hk]
    exact h.epochExt k e he

theorem attachOneR_blockEpoch (r : Recs) (b : Block) :
    (attachOneR r b).blockEpoch = upd r.blockEpoch b.id (some b.epochRec.key) := by
  simp only [attachOneR, putExt, insertBlockEpoch, insertBlock, insertEpochExt]
  split <;> rfl

theorem attachOneR_epochExt (r : Recs) (b : Block) :
    (attachOneR r b).epochExt = if b.isHead then upd r.epochExt b.epochRec.key (some b.epochRec) else r.epochExt := by
  simp only [attachOneR, putExt, insertBlockEpoch, insertBlock, insertEpochExt]
  split <;> rfl

theorem recsLe_attachOneR {m : Main} {r : Recs} {b : Block} (hv : Valid m r b) : RecsLe r (attachOneR r b) := by
  refine ⟨fun id blk h => bodies_mono_attachOne r b hv.body id blk h, ?_, ?_⟩
  · intro id k h
    rw [attachOneR_blockEpoch]
    by_cases hid : id = b.id
    · subst hid
      rcases hv.bepoch with hb | hb
      · rw [hb] at h; cases h
      · rw [hb] at h; simp [upd, h]
    · simp [upd, hid, h]
  · intro k e h
    rw [attachOneR_epochExt]
    by_cases hh : b.isHead = true
    · simp only [hh, if_true]
      by_cases hk : k = b.epochRec.key
      · subst hk
        rcases hv.eext with he | ⟨_, he⟩
        · rw [he] at h; simp [upd, h]
        · rw [he] at h; cases h
      · simp [upd, hk, h]
    · simp [hh, h]

/-- after the records of `b` are written, `get_block_epoch(b)` is the block's epoch -/
theorem epochOf_attachOneR {m : Main} {r : Recs} {b : Block} (hv : Valid m r b) :
    epochOf (attachOneR r b) b.id = some b.epochRec := by
  unfold epochOf
  rw [attachOneR_blockEpoch, attachOneR_epochExt]
  simp only [upd_same]
  by_cases hh : b.isHead = true
  · simp [hh, upd]
  · simp only [hh]
    rcases hv.eext with he | ⟨h1, _⟩
    · simpa using he
    · exact absurd h1 hh

/-- the number-row write of the reference store (epoch heads only) is undone by the number-row
delete of `detach_block` (which looks the epoch up through the records) -/
theorem epochNum_undo {m : Main} {r : Recs} {b : Block} (hv : Valid m r b) :
    detachEpochNum (attachEpochNum m.epochNum (headEpoch b) b) (some b.epochRec) b = m.epochNum := by
  unfold detachEpochNum attachEpochNum headEpoch
  by_cases hh : b.isHead = true
  · have hs := hv.headOk.mp hh
    simp only [hh, if_true, hs]
    funext n
    by_cases hn : n = b.epochRec.number
    · subst hn; simp [upd, hv.freshEpochNum hh]
    · simp [upd, hn]
  · have hs : ¬ b.epochRec.start = b.number := fun h => hh (hv.headOk.mpr h)
    simp [hh, hs]

theorem recsLe_attachAll {v : View} {bs : List Block} (hv : ValidChain v bs) : RecsLe v.r (attachAll v bs).r := by
  induction hv with
  | nil v => exact RecsLe.refl _
  | cons hb _ ih => exact RecsLe.trans (recsLe_attachOneR hb) ih

/-! ### rollback of a whole attached suffix -/

theorem rollback_append (v : View) (as bs : List Block) :
    rollback v (as ++ bs) = rollback (rollback v as) bs := by
  induction as generalizing v with
  | nil => rfl
  | cons a as ih => simp [rollback, ih]

@[simp] theorem rollback_r (v : View) (bs : List Block) : (rollback v bs).r = v.r := by
  induction bs generalizing v with
  | nil => rfl
  | cons b bs ih => simp [rollback, ih, rollbackOne]

/-- a view with tip / current epoch replaced -/
def Main.withTC (m : Main) (t : Option Nat) (c : Option EpochRec) : Main := { m with tip := t, curEpoch := c }

theorem insertCells_withTC (m : Main) (t c) (cs) :
    insertCells (m.withTC t c) cs = (insertCells m cs).withTC t c := by
  induction cs generalizing m with
  | nil => rfl
  | cons p cs ih =>
    obtain ⟨o, row⟩ := p
    simp only [insertCells]
    exact ih { m with cells := upd m.cells o (some row) }

theorem deleteCells_withTC (m : Main) (t c) (os) :
    deleteCells (m.withTC t c) os = (deleteCells m os).withTC t c := by
  induction os generalizing m with
  | nil => rfl
  | cons o os ih =>
    simp only [deleteCells]
    exact ih { m with cells := upd m.cells o none }

theorem restoredCells_withTC (m : Main) (t c) (r : Recs) (os) :
    restoredCells (m.withTC t c) r os = restoredCells m r os := by
  induction os with
  | nil => rfl
  | cons o os ih =>
    simp only [restoredCells, ih]
    rfl

theorem rollbackOne_withTC (m : Main) (t c) (r : Recs) (b : Block) :
    (rollbackOne ⟨m.withTC t c, r⟩ b).m = (rollbackOne ⟨m, r⟩ b).m.withTC t c := by
  simp only [rollbackOne, detachCell]
  have : detach (m.withTC t c) (epochOf r b.id) b = (detach m (epochOf r b.id) b).withTC t c := rfl
  rw [this, restoredCells_withTC, insertCells_withTC, deleteCells_withTC]

@[simp] theorem withTC_withTC (m : Main) (t c t' c') : (m.withTC t c).withTC t' c' = m.withTC t' c' := rfl

theorem attachOneM_eq (m : Main) (b : Block) :
    attachOneM m b = (attachCell (attach m (headEpoch b) b) b).withTC (some b.id) (some b.epochRec) := rfl

theorem bodies_mono_attachAll {v : View} {bs : List Block} (hv : ValidChain v bs)
    (id : Nat) (blk : Block) (h : v.r.bodies id = some blk) : (attachAll v bs).r.bodies id = some blk := by
  induction hv with
  | nil v => exact h
  | cons hb _ ih => exact ih (bodies_mono_attachOne _ _ hb.body _ _ h)

theorem cellsConsistent_attachAll {v : View} {bs : List Block} (hc : CellsConsistent v.m v.r)
    (hv : ValidChain v bs) : CellsConsistent (attachAll v bs).m (attachAll v bs).r := by
  induction hv with
  | nil v => exact hc
  | cons hb _ ih => exact ih (cellsConsistent_attachOne _ _ _ hc hb)

/-- rolling back, newest first, everything that was attached restores the view columns; tip and
current epoch are whatever they were (the caller rewrites them) -/
theorem rollback_attachAll (v : View) (bs : List Block) (hc : CellsConsistent v.m v.r)
    (hv : ValidChain v bs) (r' : Recs)
    (hext : RecsLe (attachAll v bs).r r') (t c) :
    (rollback ⟨(attachAll v bs).m.withTC t c, r'⟩ bs.reverse).m = v.m.withTC t c := by
  induction hv generalizing t c with
  | nil v => rfl
  | @cons v b bs hb hrest ih =>
    simp only [List.reverse_cons, rollback_append, attachAll]
    have hc1 := cellsConsistent_attachOne _ _ _ hc hb
    have ih' := ih hc1 hext t c
    have hr : (rollback ⟨(attachAll (attachOne v b) bs).m.withTC t c, r'⟩ bs.reverse).r = r' := by simp
    have hview : rollback ⟨(attachAll (attachOne v b) bs).m.withTC t c, r'⟩ bs.reverse
        = ⟨(attachOne v b).m.withTC t c, r'⟩ := by
      cases hh : rollback ⟨(attachAll (attachOne v b) bs).m.withTC t c, r'⟩ bs.reverse with
      | mk m2 r2 =>
        rw [hh] at ih' hr
        simp at ih' hr
        rw [ih', hr]
    rw [hview]
    simp only [rollback]
    rw [rollbackOne_withTC]
    show (rollbackOne ⟨attachOneM v.m b, r'⟩ b).m.withTC t c = v.m.withTC t c
    rw [attachOneM_eq, rollbackOne_withTC]
    have hle1 : RecsLe (attachOneR v.r b) r' := RecsLe.trans (recsLe_attachAll hrest) hext
    have hext' : ∀ id blk, v.r.bodies id = some blk → r'.bodies id = some blk :=
      (RecsLe.trans (recsLe_attachOneR hb) hle1).bodies
    have hep : epochOf r' b.id = some b.epochRec := epochOf_mono hle1 (epochOf_attachOneR hb)
    have := detach_attach v.m v.r r' b (headEpoch b) (some b.epochRec) hc hb hext' (epochNum_undo hb)
    simp only [rollbackOne]
    rw [hep, this]
    rfl

end CkbVerif.Store
