import CkbVerif.Lemmas.MoleculeSlices
/-! The dynvec / table header: builder (`encDyn`) against reader (`dynHeader`, `slices`). -/
namespace CkbVerif.Molecule

theorem flatMap_le32_length (ns : List Nat) : (ns.flatMap le32).length = 4 * ns.length := by
  induction ns with
  | nil => simp
  | cons n ns ih => simp [List.flatMap_cons, le32_length, ih]; omega

theorem offsetsFrom_le (p : Nat) (items : List Bytes) : ∀ o ∈ offsetsFrom p items, o ≤ p + items.flatten.length := by
  induction items generalizing p with
  | nil => simp [offsetsFrom]
  | cons x xs ih =>
    intro o ho
    simp only [offsetsFrom, List.mem_cons] at ho
    simp only [List.flatten_cons, List.length_append]
    cases ho with
    | inl e => omega
    | inr hm =>
      have := ih (p + x.length) o hm
      omega

theorem encDyn_length (items : List Bytes) (hne : items ≠ []) :
    (encDyn items).length = 4 * (items.length + 1) + items.flatten.length := by
  cases items with
  | nil => exact absurd rfl hne
  | cons x xs =>
    simp only [encDyn, List.length_append, le32_length, flatMap_le32_length, offsetsFrom_length]
    omega

/-- builder → reader, header part -/
theorem dynHeader_encDyn (items : List Bytes) (hne : items ≠ [])
    (hsz : 4 * (items.length + 1) + items.flatten.length < 4294967296) :
    dynHeader (encDyn items) = some (4 * (items.length + 1) :: endsFrom (4 * (items.length + 1)) items) := by
  have hlen := encDyn_length items hne
  cases items with
  | nil => exact absurd rfl hne
  | cons x xs =>
    have hn : 1 ≤ (x :: xs).length := by simp
    generalize hitems : x :: xs = items at *
    generalize hh : 4 * (items.length + 1) = hdr at *
    have henc : encDyn items = le32 (hdr + items.flatten.length) ++ ((offsetsFrom hdr items).flatMap le32 ++ items.flatten) := by
      subst hitems
      simp only [encDyn, hh]
    have htotal : num (encDyn items) = hdr + items.flatten.length := by
      rw [henc, num_le32 _ _ hsz]
    have hdrop : (encDyn items).drop 4 = (offsetsFrom hdr items).flatMap le32 ++ items.flatten := by
      rw [henc, drop4_le32]
    have hoff : offsetsFrom hdr items = hdr :: offsetsFrom (hdr + x.length) xs := by
      subst hitems; simp [offsetsFrom]
    have hfirst : num ((encDyn items).drop 4) = hdr := by
      rw [hdrop, hoff]
      simp only [List.flatMap_cons, List.append_assoc]
      exact num_le32 _ _ (by omega)
    have hread : readNums (hdr / 4 - 1) ((encDyn items).drop 4) = offsetsFrom hdr items := by
      have e : hdr / 4 - 1 = (offsetsFrom hdr items).length := by
        rw [offsetsFrom_length]; omega
      rw [e, hdrop]
      apply readNums_flatMap
      intro o ho
      have := offsetsFrom_le hdr items o ho
      omega
    unfold dynHeader
    simp only [hlen, htotal, hfirst, hread]
    rw [offsetsFrom_ends, monotone_cons, monotoneFrom_endsFrom]
    generalize items.flatten.length = F at *
    have h1 : ¬ (hdr + F < 4) := by omega
    have h2 : ¬ (hdr + F < 8) := by omega
    have h3 : ¬ (hdr % 4 ≠ 0 ∨ hdr < 8) := by omega
    have h4 : ¬ (hdr + F < hdr) := by omega
    simp [h1, h2, h3, h4]

/-- builder → reader, slicing part -/
theorem slices_encDyn (items : List Bytes) (hne : items ≠ []) :
    slices (encDyn items) (4 * (items.length + 1) :: endsFrom (4 * (items.length + 1)) items) = items := by
  rw [slices_cons]
  cases items with
  | nil => exact absurd rfl hne
  | cons x xs =>
    generalize hitems : x :: xs = items at *
    have henc : encDyn items = (le32 (4 * (items.length + 1) + items.flatten.length) ++ (offsetsFrom (4 * (items.length + 1)) items).flatMap le32) ++ (items.flatten ++ []) := by
      subst hitems
      simp [encDyn]
    have hpre : (le32 (4 * (items.length + 1) + items.flatten.length) ++ (offsetsFrom (4 * (items.length + 1)) items).flatMap le32).length = 4 * (items.length + 1) := by
      simp only [List.length_append, le32_length, flatMap_le32_length, offsetsFrom_length]; omega
    rw [henc]
    have := slicesFrom_ends (le32 (4 * (items.length + 1) + items.flatten.length) ++ (offsetsFrom (4 * (items.length + 1)) items).flatMap le32) items []
    rw [hpre] at this
    exact this

theorem isEmptyDyn_encDyn (items : List Bytes) (hne : items ≠ []) : isEmptyDyn (encDyn items) = false := by
  have := encDyn_length items hne
  have : 1 ≤ items.length := by
    cases items with
    | nil => exact absurd rfl hne
    | cons => simp
  simp [isEmptyDyn]
  omega

end CkbVerif.Molecule

namespace CkbVerif.Molecule

/-- what an accepted dynvec / table header guarantees -/
theorem dynHeader_some (bs : Bytes) (offs : List Nat) (h : dynHeader bs = some offs) :
    8 ≤ bs.length ∧ num bs = bs.length ∧ num (bs.drop 4) % 4 = 0 ∧ 8 ≤ num (bs.drop 4) ∧
    num (bs.drop 4) ≤ bs.length ∧
    offs = readNums (num (bs.drop 4) / 4 - 1) (bs.drop 4) ++ [bs.length] ∧ monotone offs = true := by
  unfold dynHeader at h
  simp only at h
  split at h
  · simp at h
  · split at h
    · simp at h
    · split at h
      · simp at h
      · split at h
        · simp at h
        · split at h
          · simp at h
          · split at h
            · rename_i h1 h2 h3 h4 h5 h6
              simp only [Option.some.injEq] at h
              have e : bs.length = num bs := by
                apply Classical.byContradiction
                intro hc
                exact h2 hc
              refine ⟨by omega, e.symm, by omega, by omega, by omega, ?_, ?_⟩
              · rw [← h, ← e]
              · rw [← h]; exact h6
            · simp at h

theorem take4_eq_le32_num (bs : Bytes) (h : 4 ≤ bs.length) : le32 (num bs) = bs.take 4 := by
  match bs, h with
  | a :: b :: c :: d :: rest, _ => rw [le32_num]; simp
  | [], h => simp at h
  | [_], h => simp at h
  | [_, _], h => simp at h
  | [_, _, _], h => simp at h

/-- reader → builder: an accepted header re-encodes to the same bytes (canonical layout) -/
theorem encDyn_slices (bs : Bytes) (offs : List Nat) (h : dynHeader bs = some offs) :
    encDyn (slices bs offs) = bs ∧ (slices bs offs).length = offs.length - 1 ∧ 2 ≤ offs.length := by
  obtain ⟨h8, hnum, hmod, hf8, hfl, hoffs, hmono⟩ := dynHeader_some bs offs h
  generalize hfirst : num (bs.drop 4) = first at *
  obtain ⟨k, hk⟩ : ∃ k, first / 4 - 1 = k + 1 := ⟨first / 4 - 2, by omega⟩
  rw [hk] at hoffs
  have hrd : readNums (k + 1) (bs.drop 4) = first :: readNums k ((bs.drop 4).drop 4) := by
    simp [readNums, hfirst]
  generalize htl : readNums k ((bs.drop 4).drop 4) = tl at *
  have htll : tl.length = k := by rw [← htl, readNums_length]
  rw [hrd] at hoffs
  have hoffs' : offs = first :: (tl ++ [bs.length]) := by simpa using hoffs
  subst hoffs'
  rw [monotone_cons] at hmono
  rw [slices_cons]
  have hlast : (first :: (tl ++ [bs.length])).getLast (by simp) = bs.length := by
    simp [List.getLast_cons]
  have hflat := slicesFrom_flatten bs first (tl ++ [bs.length]) hmono
  rw [hlast] at hflat
  have hends := endsFrom_slicesFrom bs first (tl ++ [bs.length]) hmono (by rw [hlast]; exact Nat.le_refl _)
  have hilen := slicesFrom_length bs first (tl ++ [bs.length])
  generalize hitems : slicesFrom bs first (tl ++ [bs.length]) = items at *
  have hilen' : items.length = k + 1 := by rw [hilen]; simp [htll]
  have hflat' : items.flatten = bs.drop first := by
    rw [hflat]; simp only [slice]
    apply List.take_of_length_le
    rw [List.length_drop]; omega
  have hne : items ≠ [] := by
    intro hc; rw [hc] at hilen'; simp at hilen'
  have hhdr : 4 * (items.length + 1) = first := by rw [hilen']; omega
  have hoe := offsetsFrom_ends first items
  rw [hends] at hoe
  have hflen : first + items.flatten.length = bs.length := by
    rw [hflat', List.length_drop]; omega
  rw [hflen] at hoe
  have hoff : offsetsFrom first items = first :: tl := by
    have : offsetsFrom first items ++ [bs.length] = (first :: tl) ++ [bs.length] := by simpa using hoe
    exact (List.append_inj' this rfl).1
  refine ⟨?_, by simp [hilen', htll], by simp⟩
  cases items with
  | nil => exact absurd rfl hne
  | cons x xs =>
    simp only [encDyn]
    rw [hhdr, hflen, hoff, ← hrd, hflat']
    rw [flatMap_readNums (k + 1) (bs.drop 4) (by rw [List.length_drop]; omega)]
    rw [← hnum, take4_eq_le32_num bs (by omega)]
    have e : first = 4 + 4 * (k + 1) := by omega
    rw [e, ← List.drop_drop, List.take_append_drop, List.take_append_drop]

end CkbVerif.Molecule
