/-
C11 helper lemmas, part 4: the ancestor-limit clause.  On histories in which neither bad pattern occurred
(`ghostBad = false`), every entry's maintained `ancestors_count` is at most `max_ancestors_count`.
-/
import CkbVerif.Lemmas.Pool
import CkbVerif.Lemmas.PoolLift
namespace CkbVerif.Pool

def LimitOK (s : Pool) : Prop := s.ghostBad = false → ∀ e ∈ s.entries, e.anc.count ≤ s.cfg.maxAnc

theorem mem_modEntries {ids : List Nat} {f : Entry → Entry} {es : List Entry} {x : Entry}
    (h : x ∈ modEntries ids f es) : ∃ e ∈ es, x = e ∨ x = f e := by
  unfold modEntries at h
  obtain ⟨e, he, rfl⟩ := List.mem_map.mp h
  refine ⟨e, he, ?_⟩
  split
  · exact Or.inr rfl
  · exact Or.inl rfl

theorem limitOK_rm (s : Pool) (id : Nat) (h : LimitOK s) : LimitOK (removeEntry s id).1 := by
  cases hg : getEntry s id with
  | none => rw [removeEntry_none s id hg]; exact h
  | some e =>
    intro hgb x hx
    rw [removeEntry_ghostBad s id e hg] at hgb
    simp only [Bool.or_eq_false_iff] at hgb
    rw [removeEntry_entries_plain s id e hg hgb.2] at hx
    rw [removeEntry_cfg]
    obtain ⟨y, hy, hxy⟩ := mem_modEntries hx
    obtain ⟨z, hz, hyz⟩ := mem_modEntries hy
    have hzle := h hgb.1 z (List.mem_filter.mp hz).1
    have hyle : y.anc.count ≤ s.cfg.maxAnc := by
      rcases hyz with rfl | rfl
      · exact hzle
      · exact hzle
    rcases hxy with rfl | rfl
    · exact hyle
    · show y.anc.count - _ ≤ _; omega

theorem preSub_ghostBad (s : Pool) (ids : List Nat) :
    (preSubDescendants s ids).ghostBad = s.ghostBad ∧ (preSubDescendants s ids).cfg = s.cfg ∧
    ∀ x ∈ (preSubDescendants s ids).entries, ∃ e ∈ s.entries, x.anc = e.anc := by
  unfold preSubDescendants
  induction ids generalizing s with
  | nil => exact ⟨rfl, rfl, fun x hx => ⟨x, hx, rfl⟩⟩
  | cons a l ih =>
    simp only [List.foldl_cons]
    cases hg : getEntry s a with
    | none => exact ih s
    | some e =>
      simp only
      obtain ⟨h1, h2, h3⟩ := ih { s with entries := modEntries (calcAnc s.links a) (subDesc e.tx.w) s.entries }
      refine ⟨h1, h2, fun x hx => ?_⟩
      obtain ⟨y, hy, hxy⟩ := h3 x hx
      obtain ⟨z, hz, hyz⟩ := mem_modEntries hy
      refine ⟨z, hz, ?_⟩
      rcases hyz with rfl | rfl
      · exact hxy
      · exact hxy

theorem limitOK_rmd (s : Pool) (id : Nat) (h : LimitOK s) : LimitOK (removeWithDesc s id).1 := by
  refine removeWithDesc_of (P := LimitOK) limitOK_rm ?_ ?_ s id h
  · intro s ids hs hgb x hx
    obtain ⟨h1, h2, h3⟩ := preSub_ghostBad s ids
    rw [h1] at hgb
    rw [h2]
    obtain ⟨e, he, hxe⟩ := h3 x hx
    rw [hxe]; exact hs hgb e he
  · intro s L hs; exact hs

theorem foldAnc_count (s : Pool) (l : List Nat) (x : Entry) (hall : l.all (fun a => (getEntry s a).isSome) = true) :
    (l.foldl (fun e a => match getEntry s a with
      | some x => addAnc x.tx.w e
      | none => e) x).anc.count = x.anc.count + l.length := by
  induction l generalizing x with
  | nil => rfl
  | cons y l ih =>
    simp only [List.all_cons, Bool.and_eq_true] at hall
    simp only [List.foldl_cons, List.length_cons]
    rw [ih _ hall.2]
    cases hg : getEntry s y with
    | none => rw [hg] at hall; simp at hall
    | some z => simp only [addAnc, W.add, Tx.w]; omega

theorem recordAncestors_limit {s s' : Pool} {e e' : Entry} {a p : List Nat}
    (h : recordAncestors s e a p = some (s', e')) :
    s'.entries = s.entries ∧ s'.ghostBad = s.ghostBad ∧ s'.cfg = s.cfg ∧ e'.anc.count = e.anc.count + a.length := by
  unfold recordAncestors at h
  split at h
  · rename_i hall
    simp only [Option.some.injEq, Prod.mk.injEq] at h
    obtain ⟨hs, he⟩ := h
    subst hs
    exact ⟨rfl, rfl, rfl, by rw [← he]; exact foldAnc_count s a e hall⟩
  · cases h

/-- what `check_and_record_ancestors` guarantees for the limit clause -/
def AncGoodL (e : Entry) : AncRes → Prop
  | .ok s' e' _ => LimitOK s' ∧ e'.anc.count ≤ s'.cfg.maxAnc
  | .panic s' => LimitOK s'
  | .rejAfter s' => LimitOK s'
  | .rej => True

theorem recordAncestors_goodL {s : Pool} (hs : LimitOK s) (e : Entry) (he : e.anc.count = 1) (a p ev : List Nat)
    (hlen : a.length + 1 ≤ s.cfg.maxAnc) :
    AncGoodL e (match recordAncestors s e a p with
      | some (s', e') => AncRes.ok s' e' ev
      | none => AncRes.panic s) := by
  cases hr : recordAncestors s e a p with
  | none => exact hs
  | some r =>
    obtain ⟨s', e'⟩ := r
    obtain ⟨h1, h2, h3, h4⟩ := recordAncestors_limit hr
    refine ⟨?_, by rw [h3, h4, he]; omega⟩
    intro hgb x hx
    rw [h1] at hx; rw [h2] at hgb; rw [h3]
    exact hs hgb x hx

theorem checkAnc_limit {s : Pool} (h : LimitOK s) (e : Entry) (he : e.anc.count = 1) :
    AncGoodL e (checkAndRecordAncestors s e) := by
  unfold checkAndRecordAncestors
  simp only
  split
  · rename_i hle
    exact recordAncestors_goodL h e he _ _ _ hle
  · split
    · have hl := evictLoop_of (P := LimitOK) limitOK_rmd
        (((byEvictKey s.entries).filter (·.tx.id ∈ (txAncestors s e.tx).2.2)).map (·.tx.id)) s
        ((txAncestors s e.tx).1.length + 1) (txAncestors s e.tx).2.1 [] h
      split
      · exact hl
      · split
        · rename_i hlt
          exact recordAncestors_goodL hl e he _ _ _ (Nat.succ_le_of_lt hlt)
        · exact hl
    · trivial

theorem recordDescendants_limit (s : Pool) (e : Entry) :
    (recordDescendants s e).cfg = s.cfg ∧
    ((recordDescendants s e).ghostBad = false →
      s.ghostBad = false ∧ ∀ x ∈ (recordDescendants s e).entries, ∃ y ∈ s.entries, x.anc = y.anc) := by
  unfold recordDescendants
  simp only
  split
  · refine ⟨rfl, fun hgb => ⟨hgb, fun x hx => ?_⟩⟩
    obtain ⟨y, hy, hxy⟩ := mem_modEntries hx
    refine ⟨y, hy, ?_⟩
    rcases hxy with rfl | rfl <;> rfl
  · split
    · exact ⟨rfl, fun hgb => by simp [rebuild] at hgb⟩
    · exact ⟨rfl, fun hgb => by simp at hgb⟩

theorem limitOK_add (s : Pool) (t : Tx) (st : Status) (ts : Nat) (h : LimitOK s) : LimitOK (addEntry s t st ts).1 := by
  unfold addEntry
  split
  · exact h
  · split
    · exact h
    · have hg := checkAnc_limit h (Entry.fresh t st ts) rfl
      split
      · exact h
      · rename_i s' heq; rw [heq] at hg; exact hg
      · rename_i s' heq; rw [heq] at hg; exact hg
      · rename_i s1 e ev heq
        rw [heq] at hg
        obtain ⟨h1, hle⟩ := hg
        intro hgb x hx
        simp only [track_ghostBad, track_entries, track_cfg] at hgb hx ⊢
        obtain ⟨hc, hrd⟩ := recordDescendants_limit ({ recordEdges s1 t with entries := (recordEdges s1 t).entries ++ [e] }) e
        rw [hc]
        obtain ⟨hgb1, hall⟩ := hrd hgb
        obtain ⟨y, hy, hxy⟩ := hall x hx
        rw [hxy]
        rcases List.mem_append.mp hy with hy | hy
        · exact h1 hgb1 y hy
        · have : y = e := by simpa using hy
          rw [this]; exact hle

theorem limitOK_set (s : Pool) (id : Nat) (st : Status) (h : LimitOK s) : LimitOK (setEntry s id st) := by
  unfold setEntry
  split
  · exact h
  · intro hgb x hx
    simp only [track_ghostBad, track_entries, track_cfg] at hgb hx ⊢
    obtain ⟨y, hy, rfl⟩ := List.mem_map.mp hx
    have := h hgb y hy
    split <;> exact this

theorem limitOK_closed : CoreClosed LimitOK where
  rm := limitOK_rm
  rmd := limitOK_rmd
  add := limitOK_add
  set := limitOK_set
  stripIn := fun s i id h _ => limitOK_rmd _ id (fun hgb x hx => h hgb x hx)
  stripDep := fun s i acc h => foldRmd_of (P := LimitOK) limitOK_rmd _ _ _ (fun hgb x hx => h hgb x hx)

end CkbVerif.Pool
