import CkbVerif.Lemmas.Epoch

/-! Lemmas about the compact-target conversions (C07), core Lean only. -/
namespace CkbVerif.Epoch
open CkbVerif.Arith CkbVerif.Gen.Epoch

theorem bitLen_bounds (t : Nat) : t < 2 ^ bitLen t ∧ (t ≠ 0 → 2 ^ (bitLen t - 1) ≤ t) := by
  unfold bitLen
  split
  · rename_i h; subst h; simp
  · rename_i h
    refine ⟨Nat.lt_log2_self, fun _ => ?_⟩
    simpa using Nat.log2_self_le h

/-- byte length `e = ⌈bitLen/8⌉`: `t < 256^e`, and `256^(e-1) ≤ t` for `t ≠ 0` -/
theorem byteLen_bounds (t : Nat) :
    t < 2 ^ (8 * ((bitLen t + 7) / 8)) ∧ (t ≠ 0 → 1 ≤ (bitLen t + 7) / 8 ∧ 2 ^ (8 * ((bitLen t + 7) / 8 - 1)) ≤ t) := by
  obtain ⟨h1, h2⟩ := bitLen_bounds t
  constructor
  · exact Nat.lt_of_lt_of_le h1 (Nat.pow_le_pow_right (by decide) (by omega))
  · intro h0
    have hb : 1 ≤ bitLen t := by unfold bitLen; simp [h0]
    exact ⟨by omega, Nat.le_trans (Nat.pow_le_pow_right (by decide) (by omega)) (h2 h0)⟩

theorem bitLen_le_of_lt {t n : Nat} (h : t < 2 ^ n) : bitLen t ≤ n := by
  unfold bitLen
  split
  · omega
  · rename_i h0
    have := (Nat.log2_lt h0).mpr h
    omega

theorem and_mask (c : Nat) : c &&& COMPACT_MANTISSA_MASK = c % 2 ^ 24 := by
  have : COMPACT_MANTISSA_MASK = 2 ^ 24 - 1 := by decide
  rw [this, Nat.and_two_pow_sub_one_eq_mod]

/-- decoding a compact `m + e·2^24` with a 24-bit mantissa -/
theorem compactToTarget_mk {m e : Nat} (hm : m < 2 ^ 24) :
    compactToTarget (m + e * 2 ^ 24) =
      ((if e ≤ 3 then m / 2 ^ (8 * (3 - e)) else (m * 2 ^ (8 * (e - 3))) % U256),
       decide (m ≠ 0) && decide (e > 32)) := by
  unfold compactToTarget
  simp only [and_mask, COMPACT_EXPONENT_SHIFT, MANT_BYTES, COMPACT_MAX_EXPONENT]
  have h1 : (m + e * 2 ^ 24) / 2 ^ 24 = e := by omega
  have h2 : (m + e * 2 ^ 24) % 2 ^ 24 = m := by omega
  simp only [h1, h2]

/-- encoding: the compact form is `mantissa + e·2^24` with `e` the byte length -/
theorem targetToCompact_eq {t : Nat} (ht : t < U256) :
    let e := (bitLen t + 7) / 8
    e ≤ 32 ∧
    targetToCompact t = (if e ≤ 3 then t * 2 ^ (8 * (3 - e)) else t / 2 ^ (8 * (e - 3))) + e * 2 ^ 24 ∧
    (if e ≤ 3 then t * 2 ^ (8 * (3 - e)) else t / 2 ^ (8 * (e - 3))) < 2 ^ 24 := by
  intro e
  have hB : bitLen t ≤ 256 := bitLen_le_of_lt ht
  have he : e ≤ 32 := by show (bitLen t + 7) / 8 ≤ 32; omega
  obtain ⟨hlt, _⟩ := byteLen_bounds t
  have hmant : (if e ≤ 3 then t * 2 ^ (8 * (3 - e)) else t / 2 ^ (8 * (e - 3))) < 2 ^ 24 := by
    split
    · rename_i h3
      have : t * 2 ^ (8 * (3 - e)) < 2 ^ (8 * e) * 2 ^ (8 * (3 - e)) :=
        Nat.mul_lt_mul_of_pos_right hlt (Nat.pow_pos (by decide))
      rw [← Nat.pow_add] at this
      have h24 : 8 * e + 8 * (3 - e) = 24 := by omega
      rw [h24] at this; exact this
    · rename_i h3
      apply Nat.div_lt_of_lt_mul
      rw [← Nat.pow_add]
      have h24 : 8 * (e - 3) + 24 = 8 * e := by omega
      rw [h24]; exact hlt
  refine ⟨he, ?_, hmant⟩
  unfold targetToCompact
  simp only [COMPACT_EXPONENT_SHIFT, MANT_BYTES]
  show (((if e ≤ 24 / 8 then t % U64 * 2 ^ (8 * (24 / 8 - e)) % U64 else t / 2 ^ (8 * (e - 24 / 8)) % U64) |||
      e * 2 ^ 24 % U64) % U32) = _
  have h38 : 24 / 8 = 3 := by decide
  rw [h38]
  have hU : (2:Nat) ^ 24 < U64 := by decide
  have hmant64 : (if e ≤ 3 then t % U64 * 2 ^ (8 * (3 - e)) % U64 else t / 2 ^ (8 * (e - 3)) % U64)
      = (if e ≤ 3 then t * 2 ^ (8 * (3 - e)) else t / 2 ^ (8 * (e - 3))) := by
    split
    · rename_i h3
      simp only [h3, if_true] at hmant
      have hp : 0 < 2 ^ (8 * (3 - e)) := Nat.pow_pos (by decide)
      have ht64 : t < U64 := by
        have : t ≤ t * 2 ^ (8 * (3 - e)) := Nat.le_mul_of_pos_right t hp
        omega
      rw [Nat.mod_eq_of_lt ht64, Nat.mod_eq_of_lt (by omega)]
    · rename_i h3
      simp only [h3, if_false] at hmant
      rw [Nat.mod_eq_of_lt (by omega)]
  rw [hmant64]
  have he64 : e * 2 ^ 24 % U64 = e * 2 ^ 24 := Nat.mod_eq_of_lt (by unfold U64; omega)
  rw [he64, Nat.or_comm, lor_eq_add hmant, Nat.add_comm]
  apply Nat.mod_eq_of_lt
  unfold U32; omega

/-- `compact_roundtrip`: re-decoding the canonical encoding of a target returns the target with the
bits below its top three bytes cleared, never flags overflow, and the result is a fixed point. -/
theorem compact_roundtrip_target {t : Nat} (ht : t < U256) :
    let e := (bitLen t + 7) / 8
    let k := 8 * (e - 3)
    compactToTarget (targetToCompact t) = (t / 2 ^ k * 2 ^ k, false) := by
  intro e k
  obtain ⟨he, hc, hm⟩ := targetToCompact_eq ht
  rw [hc, compactToTarget_mk hm]
  have hov : (decide ((if (bitLen t + 7) / 8 ≤ 3 then t * 2 ^ (8 * (3 - (bitLen t + 7) / 8)) else t / 2 ^ (8 * ((bitLen t + 7) / 8 - 3))) ≠ 0) && decide ((bitLen t + 7) / 8 > 32)) = false := by
    have : ¬ ((bitLen t + 7) / 8 > 32) := by omega
    simp [this]
  rw [hov]
  congr 1
  show (if e ≤ 3 then (if e ≤ 3 then t * 2 ^ (8 * (3 - e)) else t / 2 ^ (8 * (e - 3))) / 2 ^ (8 * (3 - e))
        else (if e ≤ 3 then t * 2 ^ (8 * (3 - e)) else t / 2 ^ (8 * (e - 3))) * 2 ^ (8 * (e - 3)) % U256) = t / 2 ^ k * 2 ^ k
  by_cases h3 : e ≤ 3
  · simp only [h3, if_true]
    have hk : k = 0 := by show 8 * (e - 3) = 0; omega
    rw [hk, Nat.mul_div_cancel _ (Nat.pow_pos (by decide))]; simp
  · simp only [h3, if_false]
    apply Nat.mod_eq_of_lt
    exact Nat.lt_of_le_of_lt (Nat.div_mul_le_self t _) ht

/-- the value re-decoded from the canonical compact encoding of `t` -/
def truncTarget (t : Nat) : Nat := t / 2 ^ (8 * ((bitLen t + 7) / 8 - 3)) * 2 ^ (8 * ((bitLen t + 7) / 8 - 3))

theorem truncTarget_le (t : Nat) : truncTarget t ≤ t := Nat.div_mul_le_self _ _

theorem truncTarget_pos {t : Nat} (h : t ≠ 0) : truncTarget t ≠ 0 := by
  unfold truncTarget
  obtain ⟨_, h2⟩ := byteLen_bounds t
  obtain ⟨he, hlo⟩ := h2 h
  have hk : 2 ^ (8 * ((bitLen t + 7) / 8 - 3)) ≤ t :=
    Nat.le_trans (Nat.pow_le_pow_right (by decide) (by omega)) hlo
  have hp : 0 < 2 ^ (8 * ((bitLen t + 7) / 8 - 3)) := Nat.pow_pos (by decide)
  have : 1 ≤ t / 2 ^ (8 * ((bitLen t + 7) / 8 - 3)) := (Nat.le_div_iff_mul_le hp).mpr (by omega)
  have := Nat.mul_le_mul_right (2 ^ (8 * ((bitLen t + 7) / 8 - 3))) this
  omega

/-- `target_to_difficulty` / `difficulty_to_target` on a non-zero argument -/
def recip256 (t : Nat) : Nat := if t = 1 then U256 - 1 else U256 / t % U256

theorem targetToDifficulty_eq {t : Nat} (h : t ≠ 0) : targetToDifficulty t = some (recip256 t) := by
  unfold targetToDifficulty recip256 divChk
  by_cases h1 : t = 1 <;> simp [h1, h]

theorem difficultyToTarget_eq {d : Nat} (h : d ≠ 0) : difficultyToTarget d = some (recip256 d) := by
  unfold difficultyToTarget recip256 divChk
  by_cases h1 : d = 1 <;> simp [h1, h]

theorem recip256_eq {t : Nat} (h2 : 2 ≤ t) : recip256 t = U256 / t := by
  unfold recip256
  have : t ≠ 1 := by omega
  simp only [this, if_false]
  apply Nat.mod_eq_of_lt
  have : U256 / t ≤ U256 / 2 := Nat.div_le_div_left h2 (by decide)
  have : U256 / 2 < U256 := by decide
  omega

theorem recip256_bounds {t : Nat} (h0 : t ≠ 0) (ht : t < U256) : 1 ≤ recip256 t ∧ recip256 t < U256 := by
  by_cases h1 : t = 1
  · subst h1; unfold recip256 U256; simp
  · rw [recip256_eq (by omega)]
    constructor
    · exact (Nat.le_div_iff_mul_le (by omega)).mpr (by omega)
    · have : U256 / t ≤ U256 / 2 := Nat.div_le_div_left (by omega) (by decide)
      have : U256 / 2 < U256 := by decide
      omega

/-- a larger target is a smaller (or equal) difficulty -/
theorem recip256_antitone {t1 t2 : Nat} (h0 : t1 ≠ 0) (h : t1 ≤ t2) (ht : t2 < U256) : recip256 t2 ≤ recip256 t1 := by
  by_cases h1 : t1 = 1
  · subst h1
    have := (recip256_bounds (t := t2) (by omega) ht).2
    have h11 : recip256 1 = U256 - 1 := by unfold recip256; simp
    rw [h11]; omega
  · rw [recip256_eq (t := t1) (by omega), recip256_eq (t := t2) (by omega)]
    exact Nat.div_le_div_left h (by omega)

theorem compactToDifficulty_targetToCompact {t : Nat} (h0 : t ≠ 0) (ht : t < U256) :
    compactToDifficulty (targetToCompact t) = recip256 (truncTarget t) := by
  unfold compactToDifficulty
  have := compact_roundtrip_target ht
  simp only at this
  rw [this]
  have hp := truncTarget_pos h0
  unfold truncTarget at hp
  simp only [hp, Bool.or_false, decide_false, Bool.false_eq_true, if_false]
  rw [targetToDifficulty_eq hp]; rfl

/-- difficulty → compact → difficulty never yields zero and never decreases -/
theorem difficulty_roundtrip {d : Nat} (h0 : d ≠ 0) (hd : d < U256) :
    ∃ c, difficultyToCompact d = some c ∧ 1 ≤ compactToDifficulty c ∧ d ≤ compactToDifficulty c := by
  unfold difficultyToCompact
  rw [difficultyToTarget_eq h0]
  refine ⟨_, rfl, ?_⟩
  obtain ⟨hr1, hr2⟩ := recip256_bounds h0 hd
  have hne : recip256 d ≠ 0 := by omega
  rw [compactToDifficulty_targetToCompact hne hr2]
  have htp := truncTarget_pos hne
  have htl := truncTarget_le (recip256 d)
  have hb := recip256_bounds htp (by omega : truncTarget (recip256 d) < U256)
  refine ⟨hb.1, ?_⟩
  -- d ≤ recip256 (recip256 d) ≤ recip256 (trunc (recip256 d))
  have h1 : recip256 (recip256 d) ≤ recip256 (truncTarget (recip256 d)) := recip256_antitone htp htl hr2
  have h2 : d ≤ recip256 (recip256 d) := by
    by_cases hd1 : d = 1
    · subst hd1; exact (recip256_bounds hne hr2).1
    · rw [recip256_eq (t := d) (by omega)]
      have hdle : d ≤ U256 / 2 ∨ U256 / 2 < d := by omega
      rcases hdle with hdle | hdgt
      · have h2le : 2 ≤ U256 / d := (Nat.le_div_iff_mul_le (by omega)).mpr (by
          have := Nat.mul_le_mul_left 2 hdle
          have : 2 * (U256 / 2) = U256 := by decide
          omega)
        rw [recip256_eq h2le]
        exact (Nat.le_div_iff_mul_le (by omega)).mpr (by rw [Nat.mul_comm]; exact Nat.div_mul_le_self _ _)
      · have : U256 / d = 1 := by
          apply Nat.div_eq_of_lt_le <;> omega
        rw [this]; unfold recip256; simp; omega
  omega


theorem bitLen_mono {a b : Nat} (h : a ≤ b) : bitLen a ≤ bitLen b :=
  bitLen_le_of_lt (Nat.lt_of_le_of_lt h (bitLen_bounds b).1)

theorem truncTarget_mono {t1 t2 : Nat} (h : t1 ≤ t2) : truncTarget t1 ≤ truncTarget t2 := by
  have hb := bitLen_mono h
  by_cases hk : 8 * ((bitLen t1 + 7) / 8 - 3) = 8 * ((bitLen t2 + 7) / 8 - 3)
  · unfold truncTarget
    rw [hk]
    exact Nat.mul_le_mul_right _ (Nat.div_le_div_right h)
  · -- strictly more bytes: trunc t1 ≤ t1 < 256^(e2-1) ≤ trunc t2
    have he : (bitLen t1 + 7) / 8 + 1 ≤ (bitLen t2 + 7) / 8 ∧ 3 < (bitLen t2 + 7) / 8 := by omega
    have h1 : truncTarget t1 < 2 ^ (8 * ((bitLen t2 + 7) / 8 - 1)) :=
      Nat.lt_of_le_of_lt (truncTarget_le t1)
        (Nat.lt_of_lt_of_le (byteLen_bounds t1).1 (Nat.pow_le_pow_right (by decide) (by omega)))
    have ht2 : t2 ≠ 0 := by
      intro h0; subst h0; unfold bitLen at he; simp at he
    obtain ⟨_, hlo⟩ := (byteLen_bounds t2).2 ht2
    have hsplit : 2 ^ (8 * ((bitLen t2 + 7) / 8 - 1)) = 2 ^ 16 * 2 ^ (8 * ((bitLen t2 + 7) / 8 - 3)) := by
      rw [← Nat.pow_add]; congr 1; omega
    have hp : 0 < 2 ^ (8 * ((bitLen t2 + 7) / 8 - 3)) := Nat.pow_pos (by decide)
    have hq : 2 ^ 16 ≤ t2 / 2 ^ (8 * ((bitLen t2 + 7) / 8 - 3)) :=
      (Nat.le_div_iff_mul_le hp).mpr (by rw [← hsplit]; exact hlo)
    have h2 : 2 ^ (8 * ((bitLen t2 + 7) / 8 - 1)) ≤ truncTarget t2 := by
      unfold truncTarget; rw [hsplit]; exact Nat.mul_le_mul_right _ hq
    omega

/-- precision: the canonical encoding keeps at least the top 16 bits -/
theorem truncTarget_precision (t : Nat) : (t - truncTarget t) * 2 ^ 16 ≤ t := by
  by_cases h3 : (bitLen t + 7) / 8 ≤ 3
  · unfold truncTarget
    have : 8 * ((bitLen t + 7) / 8 - 3) = 0 := by omega
    rw [this]; simp
  · have ht : t ≠ 0 := by
      intro h0; subst h0; unfold bitLen at h3; simp at h3
    obtain ⟨_, hlo⟩ := (byteLen_bounds t).2 ht
    have hsplit : 2 ^ (8 * ((bitLen t + 7) / 8 - 1)) = 2 ^ (8 * ((bitLen t + 7) / 8 - 3)) * 2 ^ 16 := by
      rw [← Nat.pow_add]; congr 1; omega
    have hp : 0 < 2 ^ (8 * ((bitLen t + 7) / 8 - 3)) := Nat.pow_pos (by decide)
    have hm : t - truncTarget t < 2 ^ (8 * ((bitLen t + 7) / 8 - 3)) := by
      unfold truncTarget
      have h1 := Nat.div_add_mod t (2 ^ (8 * ((bitLen t + 7) / 8 - 3)))
      have h2 := Nat.mod_lt t hp
      rw [Nat.mul_comm] at h1
      omega
    have := Nat.mul_le_mul_right (2 ^ 16) (Nat.le_of_lt hm)
    rw [← hsplit] at this
    omega


theorem URat.div_n_lt {a b r : URat} (h : URat.div a b = some r) : r.n < U256 := by
  unfold URat.div URat.umul at h
  simp only [Option.bind_eq_bind, Option.bind_eq_some_iff, chk256, chk_eq_some] at h
  obtain ⟨x, _, y, _, n, ⟨hn, hn2⟩, z, _, w, _, d, _, hr⟩ := h
  injection hr with hr; subst hr; subst hn2; exact hn

theorem nextDiff_lt {adj T nd : Nat} {den : URat} (h : nextDiff adj T den = some nd) : nd < U256 := by
  unfold nextDiff at h
  simp only [Option.bind_eq_bind, Option.bind_eq_some_iff] at h
  obtain ⟨x, _, num, _, t, _, h⟩ := h
  cases t with
  | true =>
    simp only [if_true, Option.bind_eq_some_iff] at h
    obtain ⟨q, hq, h⟩ := h
    have := URat.div_n_lt hq
    unfold URat.floor at h
    rw [divChk_eq_some] at h
    have := Nat.div_le_self q.n q.d
    omega
  | false =>
    simp only [Bool.false_eq_true, if_false] at h
    injection h with h; subst h; decide

end CkbVerif.Epoch
