import CkbVerif.Model.Molecule
/-! List / number lemmas for the molecule layout (no schema recursion here). -/
namespace CkbVerif.Molecule

theorem le32_length (n : Nat) : (le32 n).length = 4 := by simp [le32]

theorem num_le32 (n : Nat) (rest : Bytes) (h : n < 4294967296) : num (le32 n ++ rest) = n := by
  simp only [le32, List.cons_append, List.nil_append, num, UInt8.toNat_ofNat']
  omega

theorem le32_num (a b c d : UInt8) (rest : Bytes) : le32 (num (a :: b :: c :: d :: rest)) = [a, b, c, d] := by
  have ha := a.toNat_lt
  have hb := b.toNat_lt
  have hc := c.toNat_lt
  have hd := d.toNat_lt
  simp only [le32, num]
  have e1 : (a.toNat + 256 * b.toNat + 65536 * c.toNat + 16777216 * d.toNat) % 256 = a.toNat := by omega
  have e2 : (a.toNat + 256 * b.toNat + 65536 * c.toNat + 16777216 * d.toNat) / 256 % 256 = b.toNat := by omega
  have e3 : (a.toNat + 256 * b.toNat + 65536 * c.toNat + 16777216 * d.toNat) / 65536 % 256 = c.toNat := by omega
  have e4 : (a.toNat + 256 * b.toNat + 65536 * c.toNat + 16777216 * d.toNat) / 16777216 % 256 = d.toNat := by omega
  have key : ∀ (x : UInt8) (m : Nat), m % 256 = x.toNat → UInt8.ofNat m = x := by
    intro x m hm
    apply UInt8.toNat_inj.mp
    simp [UInt8.toNat_ofNat', hm]
  rw [key a _ e1, key b _ e2, key c _ e3, key d _ e4]

theorem num_lt (bs : Bytes) : num bs < 4294967296 := by
  unfold num
  split
  · rename_i a b c d _
    have ha := a.toNat_lt
    have hb := b.toNat_lt
    have hc := c.toNat_lt
    have hd := d.toNat_lt
    omega
  · omega

end CkbVerif.Molecule

namespace CkbVerif.Molecule

/-! ### readNums -/

theorem readNums_length (k : Nat) (bs : Bytes) : (readNums k bs).length = k := by
  induction k generalizing bs with
  | zero => simp [readNums]
  | succ k ih => simp [readNums, ih]

theorem drop4_le32 (n : Nat) (rest : Bytes) : (le32 n ++ rest).drop 4 = rest := by
  simp [le32]

theorem readNums_flatMap (ns : List Nat) (rest : Bytes) (h : ∀ n ∈ ns, n < 4294967296) :
    readNums ns.length (ns.flatMap le32 ++ rest) = ns := by
  induction ns with
  | nil => simp [readNums]
  | cons n ns ih =>
    have hn : n < 4294967296 := h n (by simp)
    have hns : ∀ m ∈ ns, m < 4294967296 := fun m hm => h m (by simp [hm])
    simp only [List.flatMap_cons, List.length_cons, readNums, List.append_assoc]
    rw [num_le32 _ _ hn, drop4_le32, ih hns]

theorem flatMap_readNums (k : Nat) (bs : Bytes) (h : 4 * k ≤ bs.length) :
    (readNums k bs).flatMap le32 = bs.take (4 * k) := by
  induction k generalizing bs with
  | zero => simp [readNums]
  | succ k ih =>
    match bs, h with
    | a :: b :: c :: d :: rest, h =>
      simp only [readNums, List.flatMap_cons]
      rw [le32_num]
      have h' : 4 * k ≤ rest.length := by simp at h; omega
      have : List.drop 4 (a :: b :: c :: d :: rest) = rest := by simp
      rw [this, ih rest h']
      have e : 4 * (k + 1) = (4 * k) + 1 + 1 + 1 + 1 := by omega
      rw [e]
      simp [List.take]
    | [], h => simp at h
    | [_], h => simp at h; omega
    | [_, _], h => simp at h; omega
    | [_, _, _], h => simp at h; omega

/-! ### chunk -/

theorem chunk_length (sz k : Nat) (bs : Bytes) : (chunk sz k bs).length = k := by
  induction k generalizing bs with
  | zero => simp [chunk]
  | succ k ih => simp [chunk, ih]

theorem chunk_flatten (sz : Nat) (xs : List Bytes) (rest : Bytes) (h : ∀ x ∈ xs, x.length = sz) :
    chunk sz xs.length (xs.flatten ++ rest) = xs := by
  induction xs with
  | nil => simp [chunk]
  | cons x xs ih =>
    have hx : x.length = sz := h x (by simp)
    have hxs : ∀ y ∈ xs, y.length = sz := fun y hy => h y (by simp [hy])
    simp only [List.flatten_cons, List.length_cons, chunk, List.append_assoc]
    rw [← hx]
    simp only [List.take_left', List.drop_left']
    rw [hx, ih hxs]

theorem flatten_chunk (sz k : Nat) (bs : Bytes) (h : bs.length = sz * k) : (chunk sz k bs).flatten = bs := by
  induction k generalizing bs with
  | zero =>
    simp at h
    simp [chunk, h]
  | succ k ih =>
    simp only [chunk, List.flatten_cons]
    have : (bs.drop sz).length = sz * k := by
      simp [List.length_drop, h, Nat.mul_succ]
    rw [ih _ this, List.take_append_drop]

theorem chunk_each_length (sz k : Nat) (bs : Bytes) (h : sz * k ≤ bs.length) :
    ∀ x ∈ chunk sz k bs, x.length = sz := by
  induction k generalizing bs with
  | zero => simp [chunk]
  | succ k ih =>
    intro x hx
    simp only [chunk, List.mem_cons] at hx
    have hk : sz * (k + 1) = sz * k + sz := by rw [Nat.mul_succ]
    cases hx with
    | inl e =>
      subst e
      simp [List.length_take]
      omega
    | inr hm =>
      apply ih (bs.drop sz) _ x hm
      simp [List.length_drop]
      omega

/-! ### mapOpt -/

theorem mapOpt_map {α β : Type} (f : α → Option β) (g : β → α) (xs : List β)
    (h : ∀ x ∈ xs, f (g x) = some x) : mapOpt f (xs.map g) = some xs := by
  induction xs with
  | nil => simp [mapOpt]
  | cons x xs ih =>
    have hx := h x (by simp)
    have hxs : ∀ y ∈ xs, f (g y) = some y := fun y hy => h y (by simp [hy])
    simp [mapOpt, hx, ih hxs]

theorem mapOpt_some_map {α β : Type} (f : α → Option β) (g : β → α) (xs : List α) (ys : List β)
    (h : ∀ x ∈ xs, ∀ y, f x = some y → g y = x) (hm : mapOpt f xs = some ys) : ys.map g = xs := by
  induction xs generalizing ys with
  | nil =>
    simp [mapOpt] at hm
    simp [← hm]
  | cons x xs ih =>
    simp only [mapOpt] at hm
    split at hm
    · simp at hm
    · rename_i y hy
      split at hm
      · simp at hm
      · rename_i ys' hys
        simp at hm
        subst hm
        simp [h x (by simp) y hy, ih ys' (fun z hz => h z (by simp [hz])) hys]

theorem mapOpt_length {α β : Type} (f : α → Option β) (xs : List α) (ys : List β)
    (hm : mapOpt f xs = some ys) : ys.length = xs.length := by
  induction xs generalizing ys with
  | nil =>
    simp [mapOpt] at hm
    simp [← hm]
  | cons x xs ih =>
    simp only [mapOpt] at hm
    split at hm
    · simp at hm
    · split at hm
      · simp at hm
      · rename_i ys' hys
        simp at hm
        subst hm
        simp [ih ys' hys]

theorem mapOpt_mono {α β : Type} (f f' : α → Option β) (xs : List α) (ys : List β)
    (h : ∀ x ∈ xs, ∀ y, f x = some y → f' x = some y) (hm : mapOpt f xs = some ys) :
    mapOpt f' xs = some ys := by
  induction xs generalizing ys with
  | nil => simpa [mapOpt] using hm
  | cons x xs ih =>
    simp only [mapOpt] at hm
    split at hm
    · simp at hm
    · rename_i y hy
      split at hm
      · simp at hm
      · rename_i ys' hys
        simp at hm
        subst hm
        simp [mapOpt, h x (by simp) y hy, ih ys' (fun z hz => h z (by simp [hz])) hys]

theorem mapOpt_isSome {α β : Type} (f : α → Option β) (xs : List α) :
    (mapOpt f xs).isSome = xs.all (fun x => (f x).isSome) := by
  induction xs with
  | nil => simp [mapOpt]
  | cons x xs ih =>
    simp only [mapOpt, List.all_cons]
    cases hx : f x with
    | none => simp
    | some y =>
      cases hxs : mapOpt f xs with
      | none => simp [hxs] at ih; simpa using ih
      | some ys => simp [hxs] at ih; simpa using ih

end CkbVerif.Molecule
