import CkbVerif.Model.Molecule
/-! List / number lemmas for the molecule layout (no schema recursion here). -/
namespace CkbVerif.Molecule

theorem le32_length (n : Nat) : (le32 n).length = 4 := by simp [le32]

theorem num_le32 (n : Nat) (rest : Bytes) (h : n < 4294967296) : num (le32 n ++ rest) = n := by
  simp only [le32, List.cons_append, List.nil_append, num, UInt8.toNat_ofNat']
  omega

theorem le32_num (a b c d : UInt8) (rest : Bytes) : le32 (num (a :: b :: c :: d :: rest)) = [a, b, c, d] := by
  have ha := a.toNat_lt
  have hb := b.toNat_lt
  have hc := c.toNat_lt
  have hd := d.toNat_lt
  simp only [le32, num]
  have e1 : (a.toNat + 256 * b.toNat + 65536 * c.toNat + 16777216 * d.toNat) % 256 = a.toNat := by omega
  have e2 : (a.toNat + 256 * b.toNat + 65536 * c.toNat + 16777216 * d.toNat) / 256 % 256 = b.toNat := by omega
  have e3 : (a.toNat + 256 * b.toNat + 65536 * c.toNat + 16777216 * d.toNat) / 65536 % 256 = c.toNat := by omega
  have e4 : (a.toNat + 256 * b.toNat + 65536 * c.toNat + 16777216 * d.toNat) / 16777216 % 256 = d.toNat := by omega
  have key : ∀ (x : UInt8) (m : Nat), m % 256 = x.toNat → UInt8.ofNat m = x := by
    intro x m hm
    apply UInt8.toNat_inj.mp
    simp [UInt8.toNat_ofNat', hm]
  rw [key a _ e1, key b _ e2, key c _ e3, key d _ e4]

theorem num_lt (bs : Bytes) : num bs < 4294967296 := by
  unfold num
  split
  · rename_i a b c d _
    have ha := a.toNat_lt
    have hb := b.toNat_lt
    have hc := c.toNat_lt
    have hd := d.toNat_lt
    omega
  · omega

end CkbVerif.Molecule
