import CkbVerif.Lemmas.Indexer

/-! Tip lemmas for the indexer model (C18). -/
namespace CkbVerif.Indexer

abbrev HRow := Nat × Nat × Bool × List (Nat × Nat × Option Nat)

def tipStep (acc : Option HRow) (r : HRow) : Option HRow :=
  match acc with
  | none => some r
  | some a => if hdrLt a r then some r else some a

theorem tipRow_eq (s : Store) : tipRow s = (headerRows s).foldl tipStep none := rfl

theorem fold_keep (r0 : HRow) (rest : List HRow) (h : ∀ r ∈ rest, hdrLt r0 r = false) :
    rest.foldl tipStep (some r0) = some r0 := by
  induction rest with
  | nil => rfl
  | cons r t ih =>
    have h1 : hdrLt r0 r = false := h r (by simp)
    have h2 : ∀ r ∈ t, hdrLt r0 r = false := fun r hr => h r (by simp [hr])
    simp [List.foldl_cons, tipStep, h1, ih h2]

theorem hdrLt_false_of_lt (a b : HRow) (h : b.1 < a.1) : hdrLt a b = false := by
  simp [hdrLt]
  omega

theorem mem_headerRows (s : Store) (r : HRow) (h : r ∈ headerRows s) :
    (Key.header r.1 r.2.1 r.2.2.1, Val.txs r.2.2.2) ∈ s := by
  unfold headerRows at h
  rw [List.mem_filterMap] at h
  obtain ⟨e, he, hr⟩ := h
  obtain ⟨k, v⟩ := e
  cases k <;> cases v <;> simp at hr
  subst hr
  exact he

theorem headerRows_cons_header (bn h : Nat) (f : Bool) (l) (rest : Store) :
    headerRows ((Key.header bn h f, Val.txs l) :: rest) = (bn, h, f, l) :: headerRows rest := by
  simp [headerRows, List.filterMap_cons]

/-- every Header row of `s` has a number below `n` -/
def HdrBelow (s : Store) (n : Nat) : Prop :=
  ∀ e ∈ s, ∀ bn h f, e.1 = Key.header bn h f → bn < n

/-- a store whose first row is the header `(bn,h)` and whose other headers are lower has tip `(bn,h)` -/
theorem tip_cons_header (bn h : Nat) (f : Bool) (l) (rest : Store) (hb : HdrBelow rest bn) :
    tip ((Key.header bn h f, Val.txs l) :: rest) = some (bn, h) := by
  unfold tip
  rw [tipRow_eq, headerRows_cons_header]
  simp only [List.foldl_cons, tipStep]
  rw [fold_keep]
  · rfl
  · intro r hr
    apply hdrLt_false_of_lt
    exact hb _ (mem_headerRows rest r hr) _ _ _ rfl

end CkbVerif.Indexer
