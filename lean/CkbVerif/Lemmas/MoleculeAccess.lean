import CkbVerif.Lemmas.MoleculeVerify
/-! C16 (a): after `verify`, the offsets the generated accessors read and slice with stay inside the buffer. -/
namespace CkbVerif.Molecule

theorem readNums_get (k : Nat) (bs : Bytes) (i : Nat) (h : i < k) :
    (readNums k bs).getD i 0 = num (bs.drop (4 * i)) := by
  induction k generalizing bs i with
  | zero => omega
  | succ k ih =>
    cases i with
    | zero => simp [readNums]
    | succ i =>
      simp only [readNums, List.getD_cons_succ]
      rw [ih (bs.drop 4) i (by omega), List.drop_drop]
      congr 2
      omega

theorem slices_get (bs : Bytes) (offs : List Nat) (i : Nat) (h : i + 1 < offs.length) :
    (slices bs offs)[i]? = some (slice bs (offs.getD i 0) (offs.getD (i + 1) 0)) := by
  induction offs generalizing i with
  | nil => simp at h
  | cons a rest ih =>
    cases rest with
    | nil => simp at h
    | cons b rest =>
      cases i with
      | zero => simp [slices]
      | succ i =>
        simp only [slices, List.getElem?_cons_succ, List.getD_cons_succ]
        exact ih i (by simpa using h)

theorem monotone_step (offs : List Nat) (i : Nat) (hm : monotone offs = true) (h : i + 1 < offs.length) :
    offs.getD i 0 ≤ offs.getD (i + 1) 0 := by
  induction offs generalizing i with
  | nil => simp at h
  | cons a rest ih =>
    cases rest with
    | nil => simp at h
    | cons b rest =>
      simp only [monotone, Bool.and_eq_true, decide_eq_true_eq] at hm
      cases i with
      | zero => simpa using hm.1
      | succ i =>
        simp only [List.getD_cons_succ]
        exact ih i hm.2 (by simpa using h)

theorem monotone_le_last (offs : List Nat) (last : Nat) (j : Nat) (hm : monotone (offs ++ [last]) = true)
    (h : j ≤ offs.length) : (offs ++ [last]).getD j 0 ≤ last := by
  induction offs generalizing j with
  | nil =>
    have : j = 0 := by simpa using h
    subst this; simp
  | cons a rest ih =>
    cases j with
    | zero =>
      have h0 := ih 0 (by
        cases rest with
        | nil => simp [monotone]
        | cons b r =>
          simp only [List.cons_append, monotone, Bool.and_eq_true] at hm
          exact hm.2) (by omega)
      cases rest with
      | nil =>
        simp only [List.cons_append, List.nil_append, monotone, Bool.and_eq_true, decide_eq_true_eq] at hm
        simpa using hm.1
      | cons b r =>
        simp only [List.cons_append, monotone, Bool.and_eq_true, decide_eq_true_eq] at hm
        simp only [List.cons_append, List.getD_cons_zero] at h0 ⊢
        omega
    | succ j =>
      simp only [List.cons_append, List.getD_cons_succ]
      apply ih j _ (by simpa using h)
      cases rest with
      | nil => simp [monotone]
      | cons b r =>
        simp only [List.cons_append, monotone, Bool.and_eq_true] at hm
        exact hm.2

theorem verifyL_get (c : Bool) : ∀ (fs : List Schema) (sl : List Bytes) (i : Nat), verifyL c fs sl = true → i < fs.length →
    ∃ b, sl[i]? = some b ∧ verify c (fs.getD i .byte) b = true
  | [], _, _, _, hi => by simp at hi
  | _ :: _, [], _, h, _ => by simp [verifyL] at h
  | f :: fs, b :: sl, i, h, hi => by
      simp only [verifyL, Bool.and_eq_true] at h
      cases i with
      | zero => exact ⟨b, by simp, by simpa using h.1⟩
      | succ i =>
        obtain ⟨x, hx, hv⟩ := verifyL_get c fs sl i h.2 (by simpa using hi)
        exact ⟨x, by simpa using hx, by simpa using hv⟩

theorem getD_append_lt (l : List Nat) (x : Nat) (i : Nat) (h : i < l.length) : (l ++ [x]).getD i 0 = l.getD i 0 := by
  induction l generalizing i with
  | nil => simp at h
  | cons a l ih =>
    cases i with
    | zero => simp
    | succ i => simpa using ih i (by simpa using h)

theorem getD_append_len (l : List Nat) (x : Nat) : (l ++ [x]).getD l.length 0 = x := by
  induction l with
  | nil => simp
  | cons a l ih => simpa using ih

/-- everything an accepted header tells about the offsets the accessors will read -/
theorem dynHeader_offsets (bs : Bytes) (offs : List Nat) (h : dynHeader bs = some offs) :
    ∃ k, 1 ≤ k ∧ offs.length = k + 1 ∧ 4 * (k + 1) ≤ bs.length ∧ 8 ≤ bs.length ∧ num bs = bs.length ∧
      fieldCount bs = k ∧ offs.getD k 0 = bs.length ∧
      (∀ i, i < k → offs.getD i 0 = num (bs.drop (4 * (i + 1)))) ∧
      (∀ i, i < k → offs.getD i 0 ≤ offs.getD (i + 1) 0) ∧
      (∀ j, j ≤ k → offs.getD j 0 ≤ bs.length) := by
  obtain ⟨h8, hnum, hmod, hf8, hfl, hoffs, hmono⟩ := dynHeader_some bs offs h
  refine ⟨num (bs.drop 4) / 4 - 1, by omega, ?_, by omega, h8, hnum, ?_, ?_, ?_, ?_, ?_⟩
  · rw [hoffs]; simp [readNums_length]
  · simp only [fieldCount]
    rw [if_neg (by omega)]
  · rw [hoffs]
    have := getD_append_len (readNums (num (bs.drop 4) / 4 - 1) (bs.drop 4)) bs.length
    rwa [readNums_length] at this
  · intro i hi
    rw [hoffs, getD_append_lt _ _ _ (by rw [readNums_length]; exact hi), readNums_get _ _ _ hi, List.drop_drop]
    congr 2
    omega
  · intro i hi
    apply monotone_step offs i hmono
    rw [hoffs]; simp [readNums_length]; omega
  · intro j hj
    rw [hoffs] at hmono ⊢
    exact monotone_le_last _ _ j hmono (by rw [readNums_length]; exact hj)

end CkbVerif.Molecule
