import CkbVerif.Model.RichIndexer
import CkbVerif.Lemmas.RichIndexer

/-! Histories of appends and rollbacks against the relational model (C18): the database follows the
surviving chain (helper definitions and lemmas of `rich_follows_chain_any_reorg`,
`rich_rollback_any_depth`). -/
namespace CkbVerif.Rich
open CkbVerif.Indexer (Block)

/-- one step of the sync loop against the rich-indexer -/
inductive ROp
  | app (b : Block)
  | rb

/-- the database after a history that starts in `d` -/
def runOps (d : DB) : List ROp → DB
  | [] => d
  | .app b :: r => runOps (appendBlock d b) r
  | .rb :: r => runOps (Rich.rollback d) r

/-- the chain that survives a history (starting from the chain `c`): `app` pushes, `rb` pops -/
def chainOf (c : List Block) : List ROp → List Block
  | [] => c
  | .app b :: r => chainOf (c ++ [b]) r
  | .rb :: r => chainOf c.dropLast r

/-- the history is one the sync loop produces: every appended block passes the decidable layer check
(`layerCheckB`, bit `l` of the driver's `wf` op) against the database it is appended to, and a
rollback is never applied when no appended block is left -/
def histOKB (d : DB) (c : List Block) : List ROp → Bool
  | [] => true
  | .app b :: r => layerCheckB d (appendBlock d b) && histOKB (appendBlock d b) (c ++ [b]) r
  | .rb :: r => !c.isEmpty && histOKB (Rich.rollback d) c.dropLast r

def layersOK : DB → List Block → Prop
  | _, [] => True
  | db, b :: r => layerCheckB db (appendBlock db b) = true ∧ layersOK (appendBlock db b) r

theorem layersOK_snoc (db : DB) (c : List Block) (b : Block) (h : layersOK db c)
    (hb : layerCheckB (c.foldl appendBlock db) (appendBlock (c.foldl appendBlock db) b) = true) :
    layersOK db (c ++ [b]) := by
  induction c generalizing db with
  | nil => exact ⟨hb, trivial⟩
  | cons x r ih => exact ⟨h.1, ih _ h.2 hb⟩

theorem layersOK_dropLast (db : DB) (c : List Block) (b : Block) (h : layersOK db (c ++ [b])) :
    layersOK db c ∧ layerCheckB (c.foldl appendBlock db) (appendBlock (c.foldl appendBlock db) b) = true := by
  induction c generalizing db with
  | nil => exact ⟨trivial, h.1⟩
  | cons x r ih =>
    obtain ⟨h1, h2⟩ := ih _ h.2
    exact ⟨⟨h.1, h1⟩, h2⟩

theorem follows_aux (db0 : DB) (ops : List ROp) : ∀ (d : DB) (c : List Block),
    d = c.foldl appendBlock db0 → layersOK db0 c → histOKB d c ops = true →
    runOps d ops = (chainOf c ops).foldl appendBlock db0 ∧ layersOK db0 (chainOf c ops) := by
  induction ops with
  | nil => intro d c hd hl _; exact ⟨hd, hl⟩
  | cons o r ih =>
    intro d c hd hl hok
    cases o with
    | app b =>
      simp only [histOKB, Bool.and_eq_true] at hok
      have hb := hok.1
      rw [hd] at hb
      refine ih (appendBlock d b) (c ++ [b]) (by rw [List.foldl_append, hd]; rfl)
        (layersOK_snoc db0 c b hl hb) hok.2
    | rb =>
      simp only [histOKB, Bool.and_eq_true, Bool.not_eq_true', List.isEmpty_eq_false_iff] at hok
      have hne := hok.1
      obtain ⟨c', b, hc⟩ : ∃ c' b, c = c' ++ [b] :=
        ⟨c.dropLast, c.getLast hne, (List.dropLast_concat_getLast hne).symm⟩
      subst hc
      obtain ⟨h1, h2⟩ := layersOK_dropLast db0 c' b hl
      have hd' : Rich.rollback d = c'.foldl appendBlock db0 := by
        rw [hd, List.foldl_append]
        exact rollback_of_layerCheck h2
      have hdl : (c' ++ [b]).dropLast = c' := List.dropLast_concat
      have := ih (Rich.rollback d) c' hd' h1 (by rw [← hdl]; exact hok.2)
      show runOps (Rich.rollback d) r = (chainOf (c' ++ [b]).dropLast r).foldl appendBlock db0 ∧
        layersOK db0 (chainOf (c' ++ [b]).dropLast r)
      rw [hdl]
      exact this

def rollbackN : Nat → DB → DB
  | 0, d => d
  | n + 1, d => rollbackN n (Rich.rollback d)

theorem rollbackN_succ' (n : Nat) (d : DB) : rollbackN (n + 1) d = Rich.rollback (rollbackN n d) := by
  induction n generalizing d with
  | zero => rfl
  | succ n ih => exact ih (Rich.rollback d)

end CkbVerif.Rich
