import CkbVerif.Model.Assembler
import CkbVerif.Lemmas.Selector
import CkbVerif.Lemmas.Template
import CkbVerif.Lemmas.Rules

/-! Helper lemmas for the assembler part of `Props/C13.lean`: what `prepare_uncles` and
`package_proposals` guarantee, the projection of the content model to the size model, and the
invariant of the content model under all five update paths. -/
namespace CkbVerif.Assembler
open CkbVerif.Rules (Uncle Blk Cfg Cx hasDup)
open CkbVerif.Template (P calcTotal)
open CkbVerif.Selector (View Entry LinksOk AggGe)

/-! ### `prepare_uncles` -/

/-- what the loop has checked about `u` when it pushes it behind the already chosen `pre` -/
def Good1 (snap : Snap) (epochNumber target : Nat) (cands pre : List Uncle) (u : Uncle) : Prop :=
  u ∈ cands ∧ u.target = target ∧ u.epochNumber = epochNumber ∧ u.number < snap.tipNumber + 1 ∧
  snap.isMain u.id = false ∧ snap.isUncle u.id = false ∧
  ((∃ x ∈ pre, x.id = u.parent) ∨ snap.isMain u.parent = true ∨ snap.isUncle u.parent = true) ∧
  (∀ x ∈ pre, x.id ≠ u.id)

/-- every element of `us` was checked against the elements before it (behind `pre`) -/
def pickedFrom (snap : Snap) (epochNumber target : Nat) (cands : List Uncle) : List Uncle → List Uncle → Prop
  | _, [] => True
  | pre, u :: us => Good1 snap epochNumber target cands pre u ∧ pickedFrom snap epochNumber target cands (pre ++ [u]) us

theorem pickedFrom_snoc (snap : Snap) (en tg : Nat) (cands pre l : List Uncle) (u : Uncle) :
    pickedFrom snap en tg cands pre (l ++ [u]) ↔
      pickedFrom snap en tg cands pre l ∧ Good1 snap en tg cands (pre ++ l) u := by
  induction l generalizing pre with
  | nil => simp [pickedFrom]
  | cons x xs ih =>
    simp only [List.cons_append, pickedFrom, ih, List.append_assoc, List.singleton_append]
    constructor
    · rintro ⟨a, b, c⟩; exact ⟨⟨a, b⟩, c⟩
    · rintro ⟨⟨a, b⟩, c⟩; exact ⟨a, b, c⟩

theorem pickedFrom_mem {snap : Snap} {en tg : Nat} {cands pre us : List Uncle}
    (h : pickedFrom snap en tg cands pre us) : ∀ u ∈ us, ∃ pre', Good1 snap en tg cands pre' u := by
  induction us generalizing pre with
  | nil => intro u hu; simp at hu
  | cons x xs ih =>
    intro u hu
    obtain ⟨h1, h2⟩ := h
    rcases List.mem_cons.mp hu with rfl | hu
    · exact ⟨pre, h1⟩
    · exact ih h2 u hu

theorem pickedFrom_nodup {snap : Snap} {en tg : Nat} {cands pre us : List Uncle}
    (h : pickedFrom snap en tg cands pre us) :
    (us.map (·.id)).Nodup ∧ ∀ u ∈ us, ∀ x ∈ pre, x.id ≠ u.id := by
  induction us generalizing pre with
  | nil => simp
  | cons u us ih =>
    obtain ⟨h1, h2⟩ := h
    obtain ⟨i1, i2⟩ := ih h2
    have hd := h1.2.2.2.2.2.2.2
    refine ⟨?_, ?_⟩
    · simp only [List.map_cons, List.nodup_cons]
      refine ⟨?_, i1⟩
      intro hin
      obtain ⟨y, hy, hye⟩ := List.mem_map.mp hin
      exact i2 y hy u (by simp) hye.symm
    · intro y hy x hx
      rcases List.mem_cons.mp hy with rfl | hy
      · exact hd x hx
      · exact i2 y hy x (List.mem_append_left _ hx)

theorem prepareLoop_spec (maxU : Nat) (snap : Snap) (en tg : Nat) (cands : List Uncle)
    (rest uncles removed : List Uncle)
    (hnd : (rest.map (·.id)).Nodup) (hsub : ∀ r ∈ rest, r ∈ cands)
    (hdis : ∀ x ∈ uncles, ∀ r ∈ rest, x.id ≠ r.id)
    (hlen : uncles.length ≤ maxU) (hp : pickedFrom snap en tg cands [] uncles) :
    (prepareLoop maxU snap en tg rest uncles removed).1.length ≤ maxU ∧
    pickedFrom snap en tg cands [] (prepareLoop maxU snap en tg rest uncles removed).1 := by
  induction rest generalizing uncles removed with
  | nil => exact ⟨hlen, hp⟩
  | cons u rest ih =>
    simp only [List.map_cons, List.nodup_cons] at hnd
    have hsub' : ∀ r ∈ rest, r ∈ cands := fun r hr => hsub r (List.mem_cons_of_mem _ hr)
    have hdis' : ∀ x ∈ uncles, ∀ r ∈ rest, x.id ≠ r.id := fun x hx r hr => hdis x hx r (List.mem_cons_of_mem _ hr)
    unfold prepareLoop
    split
    · exact ⟨hlen, hp⟩
    · rename_i hfull
      have hlt : uncles.length < maxU := by
        have : uncles.length ≠ maxU := by simpa using hfull
        omega
      split
      · exact ih uncles _ hnd.2 hsub' hdis' hlen hp
      · rename_i hep
        split
        · rename_i hc
          simp only [Bool.or_eq_true, bne_iff_ne, ne_eq, not_or, Decidable.not_not] at hep
          simp only [Bool.and_eq_true, Bool.not_eq_true', decide_eq_true_eq, Bool.or_eq_true,
            List.any_eq_true, beq_iff_eq] at hc
          obtain ⟨⟨⟨hm, hu⟩, hn⟩, hpar⟩ := hc
          apply ih (uncles ++ [u]) _ hnd.2 hsub'
          · intro x hx r hr
            rcases List.mem_append.mp hx with hx | hx
            · exact hdis' x hx r hr
            · simp only [List.mem_singleton] at hx
              subst hx
              intro heq
              exact hnd.1 (heq ▸ List.mem_map_of_mem hr)
          · simp only [List.length_append, List.length_singleton]; omega
          · rw [pickedFrom_snoc]
            refine ⟨hp, hsub u List.mem_cons_self, hep.1, hep.2, hn, hm, hu, ?_, ?_⟩
            · simp only [List.nil_append]
              rcases hpar with (⟨x, hx, hxe⟩ | h) | h
              · exact Or.inl ⟨x, hx, hxe⟩
              · exact Or.inr (Or.inl h)
              · exact Or.inr (Or.inr h)
            · simp only [List.nil_append]
              intro x hx
              exact hdis x hx u List.mem_cons_self
        · exact ih uncles _ hnd.2 hsub' hdis' hlen hp

/-- consistency of the assembler's snapshot with the verifier's view of the same chain, and the
    cellbase features the configuration decides -/
structure SnapOk (snap : Snap) (cx : Cx) : Prop where
  tip : snap.tipNumber = cx.parentNumber
  main : ∀ h, snap.isMain h = (cx.mainNum h).isSome
  uncle : ∀ h, snap.isUncle h = (cx.uncleNum h).isSome

/-- candidates are blocks the node processed before (`HeaderVerifier` + non-contextual
    `BlockVerifier` passed; `receive_candidate_uncle` is fed from the chain service): valid PoW,
    proposals within the limit / hash matches / no duplicates, number = parent's number + 1 wherever
    the parent is known; distinct hashes (the container is a set per height) -/
structure CandsOk (cfg : Cfg) (cx : Cx) (cands : List Uncle) : Prop where
  nodup : (cands.map (·.id)).Nodup
  body : ∀ u ∈ cands, u.powOk = true ∧ u.proposalsHashOk = true ∧ u.proposals.length ≤ cfg.maxProposals ∧
    hasDup u.proposals = false
  numMain : ∀ u ∈ cands, ∀ n, cx.mainNum u.parent = some n → n + 1 = u.number
  numUncle : ∀ u ∈ cands, ∀ n, cx.uncleNum u.parent = some n → n + 1 = u.number
  numCand : ∀ u ∈ cands, ∀ u' ∈ cands, u'.id = u.parent → u'.number + 1 = u.number

theorem unclesLoop_of_picked (cfg : Cfg) (cx : Cx) (b : Blk) (snap : Snap) (en tg : Nat) (cands : List Uncle)
    (hs : SnapOk snap cx) (hc : CandsOk cfg cx cands)
    (hbn : b.number = snap.tipNumber + 1) (hbe : b.expEpoch.number = en) (hbt : b.expTarget = tg)
    (pre us : List Uncle) (hpre : ∀ x ∈ pre, x ∈ cands)
    (hp : pickedFrom snap en tg cands pre us) :
    Rules.unclesLoop cfg cx b ((pre.map fun v => (v.id, v.number)).reverse) us = none := by
  induction us generalizing pre with
  | nil => simp [Rules.unclesLoop]
  | cons u us ih =>
    obtain ⟨⟨hu, htg, hen, hnum, hm, hun, hpar, hdist⟩, hrest⟩ := hp
    obtain ⟨hb1, hb2, hb3, hb4⟩ := hc.body u hu
    have hcheck : Rules.uncleCheck cfg cx b ((pre.map fun v => (v.id, v.number)).reverse) u = none := by
      have hdesc : (Rules.embeddedDescendant ((pre.map fun v => (v.id, v.number)).reverse) u || cx.descendant u) = true := by
        by_cases hx : ∃ x ∈ pre, x.id = u.parent
        · -- some chosen uncle is the parent: the first match has the right number
          have hemb : Rules.embeddedDescendant ((pre.map fun v => (v.id, v.number)).reverse) u = true := by
            unfold Rules.embeddedDescendant
            split
            · rename_i e hf
              have hmem := List.mem_of_find?_eq_some hf
              have hpred := List.find?_some hf
              simp only [List.mem_reverse, List.mem_map] at hmem
              obtain ⟨x, hxp, rfl⟩ := hmem
              have : x.id = u.parent := by simpa using hpred
              have := hc.numCand u hu x (hpre x hxp) this
              simp [this]
            · rename_i hf
              obtain ⟨x, hxp, hxe⟩ := hx
              have := List.find?_eq_none.mp hf (x.id, x.number)
                (by simp only [List.mem_reverse, List.mem_map]; exact ⟨x, hxp, rfl⟩)
              simp [hxe] at this
          simp [hemb]
        · have hmu : snap.isMain u.parent = true ∨ snap.isUncle u.parent = true := by
            rcases hpar with h | h | h
            · exact absurd h hx
            · exact Or.inl h
            · exact Or.inr h
          have hd : cx.descendant u = true := by
            unfold Cx.descendant
            cases hmn : cx.mainNum u.parent with
            | some n => simp [hc.numMain u hu n hmn]
            | none =>
              cases hunn : cx.uncleNum u.parent with
              | some n => simp [hc.numUncle u hu n hunn]
              | none =>
                rw [hs.main, hs.uncle, hmn, hunn] at hmu
                simp at hmu
          simp [hd]
      have hnodup : (((pre.map fun v => (v.id, v.number)).reverse).any fun e => e.1 == u.id) = false := by
        rw [Bool.eq_false_iff]
        intro hany
        simp only [List.any_eq_true, List.mem_reverse, List.mem_map] at hany
        obtain ⟨e, ⟨x, hxp, rfl⟩, hxe⟩ := hany
        exact hdist x hxp (by simpa using hxe)
      have hdi : cx.doubleInclusion u.id = false := by
        unfold Cx.doubleInclusion
        rw [← hs.main, ← hs.uncle, hm, hun]; rfl
      unfold Rules.uncleCheck
      simp only [hbt, htg, hbe, hen, hdesc, hnodup, hdi, hb1, hb2, hb4, bne_self_eq_false, Bool.false_eq_true,
        if_false, Bool.not_true, Bool.not_false]
      have h1 : ¬ (u.number ≥ b.number) := by omega
      have h2 : ¬ (u.proposals.length > cfg.maxProposals) := by omega
      simp [h1, h2]
    simp only [Rules.unclesLoop, hcheck]
    have := ih (pre ++ [u]) (by
      intro x hx
      rcases List.mem_append.mp hx with hx | hx
      · exact hpre x hx
      · simp only [List.mem_singleton] at hx; exact hx ▸ hu) hrest
    simpa using this

/-! ### `package_proposals` -/

theorem packageProposals_length (limit : Nat) (pending : List Nat) (uncles : List Uncle) :
    (packageProposals limit pending uncles).length ≤ limit := by
  unfold packageProposals
  simp only [List.length_take]
  omega

theorem packageProposals_nodup (limit : Nat) (pending : List Nat) (uncles : List Uncle) (h : pending.Nodup) :
    (packageProposals limit pending uncles).Nodup := by
  unfold packageProposals
  exact List.Nodup.sublist ((List.take_sublist _ _).trans List.filter_sublist) h

theorem packageProposals_mem {limit : Nat} {pending : List Nat} {uncles : List Uncle} {id : Nat}
    (h : id ∈ packageProposals limit pending uncles) :
    id ∈ pending ∧ ∀ u ∈ uncles, id ∉ u.proposals := by
  unfold packageProposals at h
  have h1 := List.mem_of_mem_take h
  obtain ⟨h2, h3⟩ := List.mem_filter.mp h1
  refine ⟨h2, fun u hu hin => ?_⟩
  have : id ∈ uncles.flatMap (·.proposals) := List.mem_flatMap.mpr ⟨u, hu, hin⟩
  simp [this] at h3

theorem hasDup_eq_false_iff (l : List Nat) : hasDup l = false ↔ l.Nodup := by
  induction l with
  | nil => simp [hasDup]
  | cons x xs ih =>
    simp only [hasDup, Bool.or_eq_false_iff, ih, List.nodup_cons]
    constructor
    · rintro ⟨h1, h2⟩
      exact ⟨by simpa using h1, h2⟩
    · rintro ⟨h1, h2⟩
      exact ⟨by simpa using h1, h2⟩

/-! ### `package_txs` + `calc_dao`'s filter -/

theorem packageTxs_facts (cfg : Cfg) (v : View) (keep : Entry → Bool) (l : Nat) (hL : LinksOk v) :
    ((packageTxs cfg v keep l).map (·.id)).Nodup ∧
    (∀ e ∈ packageTxs cfg v keep l, e.id ∈ v.ids) ∧
    (AggGe v → txBytes (packageTxs cfg v keep l) ≤ l ∧ txCycles (packageTxs cfg v keep l) ≤ cfg.maxCycles) := by
  have h := Selector.Inv.final (sl := l) (cl := cfg.maxCycles) hL
  unfold packageTxs txBytes txCycles
  refine ⟨?_, ?_, ?_⟩
  · exact List.Nodup.sublist (List.Sublist.map _ List.filter_sublist) h.nodup
  · intro e he
    exact Selector.hasProposed_mem_ids (h.outGood e (List.mem_filter.mp he).1).1
  · intro hA
    obtain ⟨l1, l2⟩ := h.limits hA
    rw [h.sizeEq] at l1
    rw [h.cyclesEq] at l2
    have s1 := Selector.sum_map_filter_le keep (·.size) (Selector.txsToCommit v l cfg.maxCycles).out
    have s2 := Selector.sum_map_filter_le keep (·.cycles) (Selector.txsToCommit v l cfg.maxCycles).out
    exact ⟨by omega, by omega⟩

/-! ### the content model refines the size model -/

theorem toTSt_ite (cfg : Cfg) (U : Nat) (c : Prop) [Decidable c] (a b : ASt) :
    (if c then a else b).toTSt cfg U = if c then a.toTSt cfg U else b.toTSt cfg U := by
  split <;> rfl

theorem toTSt_astep (cfg : Cfg) (U : Nat) (s : ASt) (op : AOp) :
    (astep cfg U s op).toTSt cfg U = Template.step (s.toTSt cfg U) (op.toOp cfg s) := by
  cases op with
  | blank tip cands => simp [astep, AOp.toOp, Template.step, ASt.toTSt, txBytes]
  | full pending v keep =>
    simp only [astep, AOp.toOp, Template.step, toTSt_ite]
    rfl
  | uncles cands =>
    simp only [astep, AOp.toOp, Template.step, toTSt_ite]
    rfl
  | proposals pending =>
    simp only [astep, AOp.toOp, Template.step, toTSt_ite]
    rfl
  | txs v keep =>
    simp only [astep, AOp.toOp, Template.step, toTSt_ite]
    rfl

/-! ### hypotheses and invariant -/

/-- per-tip hypotheses -/
structure TipOk (cfg : Cfg) (U : Nat) (tip : Tip) (cx : Cx) : Prop where
  snap : SnapOk tip.snap cx
  /-- a blank template with the maximal number of uncles fits -/
  blankFits : tip.base + U * cfg.maxUncles ≤ cfg.maxBytes
  cbOutputs : tip.cbOutputs ≤ 1
  cbWitness : tip.cbWitnessOk = true
  cbLock : tip.cbLockOk = true

/-- hypotheses on one update, in the state it is applied to; `cxOf` = the verifier's view of the
    chain ending in a tip -/
def AOp.Ok (cfg : Cfg) (U : Nat) (cxOf : Tip → Cx) (s : ASt) : AOp → Prop
  | .blank tip cands => TipOk cfg U tip (cxOf tip) ∧ CandsOk cfg (cxOf tip) cands
  | .full pending v _ => pending.Nodup ∧ LinksOk v ∧ AggGe v ∧ s.tip.cbId ∉ v.ids
  | .uncles cands => CandsOk cfg (cxOf s.tip) cands
  | .proposals pending => pending.Nodup
  | .txs v _ => LinksOk v ∧ AggGe v ∧ s.tip.cbId ∉ v.ids

/-- every update of the sequence satisfies its hypotheses in the state it is applied to -/
def OkRun (cfg : Cfg) (U : Nat) (cxOf : Tip → Cx) : ASt → List AOp → Prop
  | _, [] => True
  | s, op :: ops => op.Ok cfg U cxOf s ∧ OkRun cfg U cxOf (astep cfg U s op) ops

structure AInv (cfg : Cfg) (U : Nat) (cxOf : Tip → Cx) (s : ASt) : Prop where
  size : Template.Inv (s.toTSt cfg U)
  tipOk : TipOk cfg U s.tip (cxOf s.tip)
  propsNodup : s.t.proposals.Nodup
  propsLen : s.t.proposals.length ≤ cfg.maxProposals
  unclesLen : s.t.uncles.length ≤ cfg.maxUncles
  uncles : ∃ cands, CandsOk cfg (cxOf s.tip) cands ∧
    pickedFrom s.tip.snap s.tip.epochNumber s.tip.target cands [] s.t.uncles
  txsNodup : (s.t.txs.map (·.id)).Nodup
  txsNoCb : s.tip.cbId ∉ s.t.txs.map (·.id)
  txsCycles : txCycles s.t.txs ≤ cfg.maxCycles

theorem toOp_selOk (cfg : Cfg) (U : Nat) (cxOf : Tip → Cx) (s : ASt) (op : AOp) (h : op.Ok cfg U cxOf s) :
    (op.toOp cfg s).selOk := by
  cases op with
  | blank tip cands => trivial
  | full pending v keep =>
    intro l
    exact ((packageTxs_facts cfg v keep l h.2.1).2.2 h.2.2.1).1
  | uncles cands => trivial
  | proposals pending => trivial
  | txs v keep =>
    intro l
    exact ((packageTxs_facts cfg v keep l h.1).2.2 h.2.1).1

theorem prepareUncles_spec (cfg : Cfg) (cx : Cx) (snap : Snap) (en tg : Nat) (cands : List Uncle)
    (hc : CandsOk cfg cx cands) :
    (prepareUncles cfg.maxUncles snap en tg cands).length ≤ cfg.maxUncles ∧
    pickedFrom snap en tg cands [] (prepareUncles cfg.maxUncles snap en tg cands) := by
  unfold prepareUncles
  exact prepareLoop_spec cfg.maxUncles snap en tg cands cands [] [] hc.nodup (fun r hr => hr)
    (by intro x hx; simp at hx) (by simp) trivial

theorem toOp_blankOk (cfg : Cfg) (U : Nat) (cxOf : Tip → Cx) (s : ASt) (op : AOp) (h : op.Ok cfg U cxOf s) :
    (op.toOp cfg s).blankOk cfg.maxBytes U := by
  cases op with
  | blank tip cands =>
    have hlen := (prepareUncles_spec cfg (cxOf tip) tip.snap tip.epochNumber tip.target cands h.2).1
    have hfit := h.1.blankFits
    show tip.base + U * _ ≤ cfg.maxBytes
    have : U * (prepareUncles cfg.maxUncles tip.snap tip.epochNumber tip.target cands).length ≤ U * cfg.maxUncles :=
      Nat.mul_le_mul_left U hlen
    omega
  | full pending v keep => trivial
  | uncles cands => trivial
  | proposals pending => trivial
  | txs v keep => trivial

theorem AInv.step {cfg : Cfg} {U : Nat} {cxOf : Tip → Cx} {s : ASt} (h : AInv cfg U cxOf s) (op : AOp)
    (hok : op.Ok cfg U cxOf s) : AInv cfg U cxOf (astep cfg U s op) := by
  have hsize : Template.Inv ((astep cfg U s op).toTSt cfg U) := by
    rw [toTSt_astep]
    exact h.size.step _ (toOp_selOk cfg U cxOf s op hok) (toOp_blankOk cfg U cxOf s op hok)
  cases op with
  | blank tip cands =>
    obtain ⟨hl, hp⟩ := prepareUncles_spec cfg (cxOf tip) tip.snap tip.epochNumber tip.target cands hok.2
    exact { size := hsize, tipOk := hok.1, propsNodup := by simp [astep], propsLen := by simp [astep],
            unclesLen := hl, uncles := ⟨cands, hok.2, hp⟩, txsNodup := by simp [astep],
            txsNoCb := by simp [astep], txsCycles := by simp [astep, txCycles] }
  | full pending v keep =>
    obtain ⟨hpn, hL, hA, hcb⟩ := hok
    have hsz := hsize
    simp only [astep] at hsz ⊢
    split
    · exact h
    · obtain ⟨f1, f2, f3⟩ := packageTxs_facts cfg v keep
        (cfg.maxBytes - (s.tip.base + U * s.t.uncles.length + P * (packageProposals cfg.maxProposals pending s.t.uncles).length)) hL
      rename_i hb
      rw [if_neg hb] at hsz
      exact { size := hsz, tipOk := h.tipOk,
              propsNodup := packageProposals_nodup _ _ _ hpn,
              propsLen := packageProposals_length _ _ _,
              unclesLen := h.unclesLen, uncles := h.uncles, txsNodup := f1,
              txsNoCb := by
                intro hin
                obtain ⟨e, he, hee⟩ := List.mem_map.mp hin
                exact hcb (hee ▸ f2 e he),
              txsCycles := (f3 hA).2 }
  | uncles cands =>
    have hsz := hsize
    simp only [astep] at hsz ⊢
    split
    · split
      · split
        · rename_i h1 h2 h3
          rw [if_pos h1, if_pos h2, if_pos h3] at hsz
          obtain ⟨hl, hp⟩ := prepareUncles_spec cfg (cxOf s.tip) s.tip.snap s.tip.epochNumber s.tip.target cands hok
          exact { size := hsz, tipOk := h.tipOk, propsNodup := h.propsNodup, propsLen := h.propsLen,
                  unclesLen := hl, uncles := ⟨cands, hok, hp⟩, txsNodup := h.txsNodup,
                  txsNoCb := h.txsNoCb, txsCycles := h.txsCycles }
        · exact h
      · exact h
    · exact h
  | proposals pending =>
    have hsz := hsize
    simp only [astep] at hsz ⊢
    split
    · rename_i h1
      rw [if_pos h1] at hsz
      exact { size := hsz, tipOk := h.tipOk,
              propsNodup := packageProposals_nodup _ _ _ hok,
              propsLen := packageProposals_length _ _ _,
              unclesLen := h.unclesLen, uncles := h.uncles, txsNodup := h.txsNodup,
              txsNoCb := h.txsNoCb, txsCycles := h.txsCycles }
    · exact h
  | txs v keep =>
    obtain ⟨hL, hA, hcb⟩ := hok
    have hsz := hsize
    simp only [astep] at hsz ⊢
    split
    · exact h
    · rename_i hb
      rw [if_neg hb] at hsz
      obtain ⟨f1, f2, f3⟩ := packageTxs_facts cfg v keep
        (cfg.maxBytes - (s.tip.base + U * s.t.uncles.length + P * s.t.proposals.length)) hL
      exact { size := hsz, tipOk := h.tipOk, propsNodup := h.propsNodup, propsLen := h.propsLen,
              unclesLen := h.unclesLen, uncles := h.uncles, txsNodup := f1,
              txsNoCb := by
                intro hin
                obtain ⟨e, he, hee⟩ := List.mem_map.mp hin
                exact hcb (hee ▸ f2 e he),
              txsCycles := (f3 hA).2 }

theorem AInv.run {cfg : Cfg} {U : Nat} {cxOf : Tip → Cx} (ops : List AOp) {s : ASt} (h : AInv cfg U cxOf s)
    (hok : OkRun cfg U cxOf s ops) : AInv cfg U cxOf (arun cfg U s ops) := by
  induction ops generalizing s with
  | nil => exact h
  | cons op ops ih =>
    obtain ⟨h1, h2⟩ := hok
    exact ih (h.step op h1) h2

/-- the state after `update_blank` satisfies the invariant whatever was there before -/
theorem AInv.blank {cfg : Cfg} {U : Nat} {cxOf : Tip → Cx} (s : ASt) (tip : Tip) (cands : List Uncle)
    (hok : (AOp.blank tip cands).Ok cfg U cxOf s) : AInv cfg U cxOf (astep cfg U s (.blank tip cands)) := by
  obtain ⟨hl, hp⟩ := prepareUncles_spec cfg (cxOf tip) tip.snap tip.epochNumber tip.target cands hok.2
  have hfit := hok.1.blankFits
  have hmul : U * (prepareUncles cfg.maxUncles tip.snap tip.epochNumber tip.target cands).length ≤ U * cfg.maxUncles :=
    Nat.mul_le_mul_left U hl
  refine { size := ?_, tipOk := hok.1, propsNodup := by simp [astep], propsLen := by simp [astep],
           unclesLen := hl, uncles := ⟨cands, hok.2, hp⟩, txsNodup := by simp [astep],
           txsNoCb := by simp [astep], txsCycles := by simp [astep, txCycles] }
  refine ⟨?_, rfl, ?_, rfl, ?_⟩ <;>
    simp [astep, ASt.toTSt, Template.TSt.actual, Template.basic, txBytes] <;> omega

/-- what the invariant gives for the sealed template -/
theorem AInv.sealed {cfg : Cfg} {U : Nat} {cxOf : Tip → Cx} {s : ASt} (h : AInv cfg U cxOf s) :
    Rules.nonContextualCheck cfg (sealBlock U s) = none ∧
    Rules.unclesCheck cfg (cxOf s.tip) (sealBlock U s) = none ∧
    (sealBlock U s).cycles ≤ cfg.maxCycles := by
  refine ⟨?_, ?_, h.txsCycles⟩
  · rw [Rules.nonContextualCheck_eq, Rules.firstFail_none_iff]
    have hbytes : s.tip.base + U * s.t.uncles.length + P * s.t.proposals.length + txBytes s.t.txs ≤ cfg.maxBytes := by
      have := h.size.le
      simpa [ASt.toTSt, Template.TSt.actual, Template.basic] using this
    have htx : hasDup (s.tip.cbId :: s.t.txs.map (·.id)) = false := by
      rw [hasDup_eq_false_iff, List.nodup_cons]
      exact ⟨h.txsNoCb, h.txsNodup⟩
    have hpr : hasDup s.t.proposals = false := (hasDup_eq_false_iff _).mpr h.propsNodup
    have hcb := h.tipOk.cbOutputs
    intro r hr
    simp only [Rules.nonContextualRules, Rules.cellbaseRules, sealBlock, List.cons_append, List.nil_append,
      List.mem_cons, List.not_mem_nil, or_false] at hr
    rcases hr with rfl | rfl | rfl | rfl | rfl | rfl | rfl | rfl | rfl | rfl | rfl | rfl | rfl | rfl | rfl
    all_goals simp [h.propsLen, hbytes, hcb, h.tipOk.cbWitness, h.tipOk.cbLock, htx, hpr]
  · obtain ⟨cands, hc, hp⟩ := h.uncles
    unfold Rules.unclesCheck
    split
    · rfl
    · have hn : ¬ ((sealBlock U s).number == 0) = true := by simp [sealBlock]
      have hl : ¬ ((sealBlock U s).uncles.length > cfg.maxUncles) := by
        simp only [sealBlock]; have := h.unclesLen; omega
      rw [if_neg hn, if_neg hl]
      have := unclesLoop_of_picked cfg (cxOf s.tip) (sealBlock U s) s.tip.snap s.tip.epochNumber s.tip.target cands
        h.tipOk.snap hc rfl rfl rfl [] s.t.uncles (by simp) hp
      simpa [sealBlock] using this

end CkbVerif.Assembler
