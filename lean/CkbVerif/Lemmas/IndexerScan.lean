import CkbVerif.Lemmas.Indexer

/-! The prefix scan behind every indexer query (C18). -/
namespace CkbVerif.Indexer
open CkbVerif.Gen.Indexer

theorem mem_insertRow (r x : Key × Val) (l : List (Key × Val)) :
    x ∈ insertRow r l ↔ x = r ∨ x ∈ l := by
  induction l with
  | nil => simp [insertRow]
  | cons y t ih =>
    unfold insertRow
    split
    · simp
    · simp only [List.mem_cons, ih]
      constructor
      · rintro (h | h | h)
        · exact Or.inr (Or.inl h)
        · exact Or.inl h
        · exact Or.inr (Or.inr h)
      · rintro (h | h | h)
        · exact Or.inr (Or.inl h)
        · exact Or.inl h
        · exact Or.inr (Or.inr h)

theorem mem_sortRows (l : List (Key × Val)) (x : Key × Val) : x ∈ sortRows l ↔ x ∈ l := by
  induction l with
  | nil => simp [sortRows]
  | cons y t ih =>
    show x ∈ insertRow y (sortRows t) ↔ _
    rw [mem_insertRow, ih]
    simp

/-- the iteration `iter(prefix).take_while(starts_with(prefix))` yields exactly the rows whose key
starts with the prefix -/
theorem mem_scan (s : Store) (pre : List Nat) (e : Key × Val) :
    e ∈ scan s pre ↔ e ∈ s ∧ isPrefix pre e.1.bytes = true := by
  unfold scan
  rw [mem_sortRows, List.mem_filter]

theorem isPrefix_append_eq (p l t : List Nat) (h : isPrefix p (l ++ t) = true)
    (hl : p.length = l.length) : p = l := by
  induction p generalizing l with
  | nil =>
    cases l with
    | nil => rfl
    | cons a r => simp at hl
  | cons a p ih =>
    cases l with
    | nil => simp at hl
    | cons b r =>
      simp only [List.cons_append, isPrefix, Bool.and_eq_true, decide_eq_true_eq] at h
      simp only [List.length_cons, Nat.add_right_cancel_iff] at hl
      rw [h.1, ih r h.2 hl]

theorem isPrefix_self_append (l t : List Nat) : isPrefix l (l ++ t) = true := by
  induction l with
  | nil => cases t <;> rfl
  | cons a r ih => simp [isPrefix, ih]

theorem be_length (n w : Nat) : (be n w).length = w := by
  simp [be]

/-- exact mode on a CellLockScript row: prefix match plus the key-length test ⇔ same script -/
theorem exact_cellLock (q sc : Script) (bn tx io : Nat) :
    (isPrefix (KP_CELL_LOCK_SCRIPT :: scriptRaw q) (Key.cellLock sc bn tx io).bytes = true ∧
      (Key.cellLock sc bn tx io).bytes.length = (KP_CELL_LOCK_SCRIPT :: scriptRaw q).length + 16) ↔ sc = q := by
  constructor
  · rintro ⟨hp, hl⟩
    simp only [Key.bytes, scriptRaw, List.cons_append, List.nil_append, isPrefix, Bool.and_eq_true,
      decide_eq_true_eq, true_and] at hp
    simp only [Key.bytes, scriptRaw, List.cons_append, List.nil_append, List.length_cons,
      List.length_append, be_length] at hl
    have hargs : q.args = sc.args := by
      apply isPrefix_append_eq q.args sc.args _ _ (by omega)
      · exact be bn 8 ++ be tx 4 ++ be io 4
      · simpa [List.append_assoc] using hp.2
    cases q; cases sc
    simp_all
  · rintro rfl
    refine ⟨?_, ?_⟩
    · simp only [Key.bytes, scriptRaw, List.cons_append, List.nil_append, isPrefix, decide_true,
        Bool.true_and]
      rw [List.append_assoc, List.append_assoc]
      exact isPrefix_self_append _ _
    · simp [Key.bytes, scriptRaw, be_length]

end CkbVerif.Indexer
