import CkbVerif.Model.LightServer
/-!
# Lemmas about the light-client server's sampling (`FindBlocksViaDifficulties`)

`f` is the total difficulty as a function of the main-chain block number, strictly increasing
(every block adds a positive difficulty); the snapshot answers `td n = some (f n)` up to the tip.
-/
namespace CkbVerif.LightServer

def SMono (f : Nat → Nat) : Prop := ∀ i j, i < j → f i < f j

/-- the snapshot's view: defined exactly up to `tip`, with values `f` -/
def View (td : TD) (f : Nat → Nat) (tip : Nat) : Prop := ∀ n, n ≤ tip → td n = some (f n)

theorem SMono.le {f : Nat → Nat} (h : SMono f) {i j : Nat} (hij : i ≤ j) : f i ≤ f j := by
  rcases Nat.lt_or_eq_of_le hij with h1 | h1
  · exact Nat.le_of_lt (h i j h1)
  · subst h1; exact Nat.le_refl _

theorem SMono.lt_of_lt {f : Nat → Nat} (h : SMono f) {i j : Nat} (hij : f i < f j) : i < j := by
  rcases Nat.lt_or_ge i j with h1 | h1
  · exact h1
  · have := h.le h1; omega

/-- the binary search: invariant `f less < min ≤ f greater = endTd`, gap ≤ fuel -/
theorem firstLoop_spec {td : TD} {f : Nat → Nat} {tip : Nat} (hv : View td f tip) (hm : SMono f) (minD : Nat) :
    ∀ fuel lessN greaterN, greaterN ≤ tip → lessN < greaterN → greaterN - lessN ≤ fuel →
      f lessN < minD → minD ≤ f greaterN →
      ∃ n, firstLoop td minD fuel lessN greaterN (f greaterN) = some (n, f n) ∧ lessN < n ∧ n ≤ greaterN ∧
        minD ≤ f n ∧ ∀ k, k < n → f k < minD := by
  intro fuel
  induction fuel with
  | zero => intro l g _ h1 h2; omega
  | succ fu ih =>
    intro l g hg hlg hgap hl hgm
    unfold firstLoop
    by_cases h1 : g = l + 1
    · simp only [h1, if_true]
      refine ⟨l + 1, rfl, by omega, by omega, by rw [← h1]; exact hgm, ?_⟩
      intro k hk
      have := hm.le (show k ≤ l by omega)
      omega
    · simp only [h1, if_false]
      have hnext : (l + g) / 2 ≤ tip := by omega
      rw [hv _ hnext]
      simp only
      by_cases h2 : f ((l + g) / 2) = minD
      · simp only [h2, if_true]
        refine ⟨(l + g) / 2, by rw [h2], by omega, by omega, by omega, ?_⟩
        intro k hk
        have := hm k _ hk
        omega
      · simp only [h2, if_false]
        by_cases h3 : f ((l + g) / 2) < minD
        · simp only [h3, if_true]
          obtain ⟨n, e, a, b, c, d⟩ := ih ((l + g) / 2) g hg (by omega) (by omega) h3 hgm
          exact ⟨n, e, by omega, b, c, d⟩
        · simp only [h3, if_false]
          obtain ⟨n, e, a, b, c, d⟩ := ih l ((l + g) / 2) hnext (by omega) (by omega) hl (by omega)
          exact ⟨n, e, a, by omega, c, d⟩

/-- `get_first_block_total_difficulty_is_not_less_than` returns the FIRST block of `[start, end)`
whose total difficulty is `≥ min` -/
theorem firstNotLess_spec {td : TD} {f : Nat → Nat} {tip : Nat} (hv : View td f tip) (hm : SMono f)
    (start end_ minD : Nat) (hs : start ≤ tip) (he : end_ - 1 ≤ tip) (n d : Nat)
    (h : firstNotLess td start end_ minD = some (n, d)) :
    d = f n ∧ start ≤ n ∧ n ≤ max start (end_ - 1) ∧ minD ≤ f n ∧ ∀ k, start ≤ k → k < n → f k < minD := by
  unfold firstNotLess at h
  rw [hv _ hs] at h
  simp only at h
  by_cases h1 : f start ≥ minD
  · simp only [h1, if_true, Option.some.injEq, Prod.mk.injEq] at h
    obtain ⟨rfl, rfl⟩ := h
    exact ⟨rfl, Nat.le_refl _, by omega, h1, fun k a b => by omega⟩
  · simp only [h1, if_false] at h
    rw [hv _ he] at h
    simp only at h
    by_cases h2 : f (end_ - 1) < minD
    · simp [h2] at h
    · simp only [h2, if_false] at h
      have hlt : start < end_ - 1 := hm.lt_of_lt (by omega)
      obtain ⟨n', e, a, b, c, d'⟩ := firstLoop_spec hv hm minD (end_ - start) start (end_ - 1) he hlt (by omega)
        (by omega) (by omega)
      rw [e] at h
      simp only [Option.some.injEq, Prod.mk.injEq] at h
      obtain ⟨rfl, rfl⟩ := h
      exact ⟨rfl, by omega, by omega, c, fun k _ hk => d' k hk⟩

/-- … and it finds one whenever the last block of the range reaches `min` -/
theorem firstNotLess_total {td : TD} {f : Nat → Nat} {tip : Nat} (hv : View td f tip) (hm : SMono f)
    (start end_ minD : Nat) (hs : start ≤ tip) (he : end_ - 1 ≤ tip)
    (hmin : minD ≤ f (end_ - 1)) :
    ∃ n, firstNotLess td start end_ minD = some (n, f n) := by
  unfold firstNotLess
  rw [hv _ hs]
  simp only
  by_cases h1 : f start ≥ minD
  · simp only [h1, if_true]; exact ⟨start, rfl⟩
  · simp only [h1, if_false]
    rw [hv _ he]
    simp only
    have h2 : ¬ f (end_ - 1) < minD := by omega
    simp only [h2, if_false]
    have hlt : start < end_ - 1 := hm.lt_of_lt (by omega)
    obtain ⟨n', e, -⟩ := firstLoop_spec hv hm minD (end_ - start) start (end_ - 1) he hlt (by omega)
      (by omega) (by omega)
    exact ⟨n', e⟩

/-- `get_block_numbers_via_difficulties`: the sampled numbers are strictly increasing, lie in
`[start, end)`, and each has a total difficulty above the running `current_difficulty` -/
theorem viaDifficulties_spec {td : TD} {f : Nat → Nat} {tip : Nat} (hv : View td f tip) (hm : SMono f)
    (end_ : Nat) (he : end_ - 1 ≤ tip) :
    ∀ ds start cur l, start ≤ tip → viaDifficulties td end_ start cur ds = some l →
      (∀ n ∈ l, cur < f n ∧ start ≤ n ∧ n ≤ max start (end_ - 1)) ∧ l.Pairwise (· < ·) := by
  intro ds
  induction ds with
  | nil =>
    intro start cur l _ h
    simp only [viaDifficulties, Option.some.injEq] at h
    subst h
    exact ⟨fun n hn => by simp at hn, List.Pairwise.nil⟩
  | cons d ds ih =>
    intro start cur l hs h
    unfold viaDifficulties at h
    by_cases h1 : cur ≥ d
    · simp only [h1, if_true] at h
      exact ih start cur l hs h
    · simp only [h1, if_false] at h
      cases hf : firstNotLess td start end_ d with
      | none => simp [hf] at h
      | some nd =>
        obtain ⟨num, diff⟩ := nd
        simp only [hf] at h
        obtain ⟨rfl, a, b, c, -⟩ := firstNotLess_spec hv hm start end_ d hs he num diff hf
        cases hr : viaDifficulties td end_ (if num > start then num - 1 else start) (f num) ds with
        | none => simp [hr] at h
        | some rest =>
          simp only [hr, Option.some.injEq] at h
          subst h
          have hs' : (if num > start then num - 1 else start) ≤ tip := by split <;> omega
          obtain ⟨i1, i2⟩ := ih _ _ _ hs' hr
          refine ⟨?_, ?_⟩
          · intro n hn
            rcases List.mem_cons.1 hn with rfl | hn
            · exact ⟨by omega, a, b⟩
            · obtain ⟨x, y, z⟩ := i1 n hn
              have : num < n := hm.lt_of_lt x
              refine ⟨by omega, by omega, ?_⟩
              split at y <;> split at z <;> omega
          · refine List.Pairwise.cons ?_ i2
            intro n hn
            exact hm.lt_of_lt (i1 n hn).1

theorem mem_rangeFrom (a b x : Nat) : x ∈ rangeFrom a b ↔ a ≤ x ∧ x < b := by
  simp only [rangeFrom, List.mem_map, List.mem_range]
  constructor
  · rintro ⟨k, hk, rfl⟩; omega
  · intro h; exact ⟨x - a, by omega, by omega⟩

theorem pairwise_rangeFrom (a b : Nat) : (rangeFrom a b).Pairwise (· < ·) := by
  simp only [rangeFrom, List.pairwise_map]
  have : (List.range (b - a)).Pairwise (· < ·) := List.pairwise_lt_range
  exact this.imp (by intro x y h; omega)

/-- after "Check the request data" no difficulty is `≤` the total difficulty before the start block -/
theorem takeWhile_nil_of_check (td : TD) (r : LspReq) (t : Nat) (hc : lspCheck td r = none) (hs : r.start > 0)
    (ht : td (r.start - 1) = some t) : r.difficulties.takeWhile (fun x => decide (x ≤ t)) = [] := by
  unfold lspCheck at hc
  cases hd : r.difficulties with
  | nil => rfl
  | cons d0 rest =>
    rw [hd] at hc
    simp only [List.head?_cons, hs, if_true, ht] at hc
    by_cases hle : d0 ≤ t
    · exfalso
      by_cases hn : notIncreasing (d0 :: rest) = true
      · simp [hn] at hc
      · simp [hn, hle] at hc
    · simp [hle]

/-- the two lists of `lspSample`: sampled numbers strictly increasing inside `[start, bn)`, followed
by the contiguous window `[bn, last)` with `bn ≤ max start (last - lastN)` -/
theorem lspSample_spec {td : TD} {f : Nat → Nat} {tip : Nat} (hv : View td f tip) (hm : SMono f)
    (r : LspReq) (hl : r.last ≤ tip) (hsl : r.start ≤ r.last) (hc : lspCheck td r = none) (sampled lastNs : List Nat)
    (h : lspSample td r = .reply (sampled, lastNs)) :
    ∃ bn, lastNs = rangeFrom bn r.last ∧ r.start ≤ bn ∧ bn ≤ r.last ∧ bn ≤ max r.start (r.last - r.lastN) ∧
      sampled.Pairwise (· < ·) ∧ ∀ n ∈ sampled, r.start ≤ n ∧ n < bn := by
  unfold lspSample at h
  by_cases h1 : r.last - r.start ≤ r.lastN
  · simp only [h1, if_true, Outcome.reply.injEq, Prod.mk.injEq] at h
    obtain ⟨rfl, rfl⟩ := h
    exact ⟨r.start, rfl, Nat.le_refl _, hsl, by omega, List.Pairwise.nil, fun n hn => by simp at hn⟩
  · simp only [h1, if_false] at h
    cases hf : firstNotLess td r.start r.last r.boundary with
    | none => simp [hf] at h
    | some nd =>
      obtain ⟨bn0, d0⟩ := nd
      simp only [hf] at h
      obtain ⟨-, a, b, -, -⟩ := firstNotLess_spec hv hm r.start r.last r.boundary (by omega) (by omega) bn0 d0 hf
      generalize hbn : (if r.last - bn0 < r.lastN then r.last - r.lastN else bn0) = bn at h
      have hb1 : r.start ≤ bn := by rw [← hbn]; split <;> omega
      have hb2 : bn ≤ r.last := by rw [← hbn]; split <;> omega
      have hb3 : bn ≤ max r.start (r.last - r.lastN) := by rw [← hbn]; split <;> omega
      by_cases h2 : bn > 0
      · simp only [h2, if_true] at h
        cases ht : td (bn - 1) with
        | none => simp [ht] at h
        | some t =>
          simp only [ht] at h
          by_cases hsb : r.start ≤ bn - 1
          · cases hs : viaDifficulties td bn r.start 0 (List.takeWhile (fun x => decide (x ≤ t)) r.difficulties) with
            | none => simp [hs] at h
            | some s =>
              simp only [hs, Outcome.reply.injEq, Prod.mk.injEq] at h
              obtain ⟨rfl, rfl⟩ := h
              obtain ⟨i1, i2⟩ := viaDifficulties_spec hv hm bn (by omega) _ r.start 0 s (by omega) hs
              refine ⟨bn, rfl, hb1, hb2, hb3, i2, ?_⟩
              intro n hn
              obtain ⟨-, y, z⟩ := i1 n hn
              exact ⟨y, by omega⟩
          · -- `start = bn`: every difficulty is above `td (start - 1)`, nothing is sampled
            have hsb' : bn = r.start := by omega
            rw [hsb'] at ht
            rw [takeWhile_nil_of_check td r t hc (by omega) ht] at h
            simp only [viaDifficulties, Outcome.reply.injEq, Prod.mk.injEq] at h
            obtain ⟨rfl, rfl⟩ := h
            exact ⟨bn, rfl, hb1, hb2, hb3, List.Pairwise.nil, fun n hn => by simp at hn⟩
      · simp only [h2, if_false, Outcome.reply.injEq, Prod.mk.injEq] at h
        obtain ⟨rfl, rfl⟩ := h
        exact ⟨bn, rfl, hb1, hb2, hb3, List.Pairwise.nil, fun n hn => by simp at hn⟩

/-! ## `GetTransactionsProof`: the per-block grouping -/

theorem mem_groupInsert (blk : Nat) (e : Nat × Nat) (acc : List (Nat × List (Nat × Nat))) (b : Nat) (es : List (Nat × Nat))
    (h : (b, es) ∈ groupInsert blk e acc) :
    (b, es) ∈ acc ∨ (b = blk ∧ ∀ x ∈ es, x = e ∨ ∃ es0, (b, es0) ∈ acc ∧ x ∈ es0) := by
  induction acc with
  | nil =>
    simp only [groupInsert, List.mem_singleton, Prod.mk.injEq] at h
    obtain ⟨rfl, rfl⟩ := h
    exact Or.inr ⟨rfl, fun x hx => Or.inl (by simpa using hx)⟩
  | cons g rest ih =>
    obtain ⟨gb, ges⟩ := g
    simp only [groupInsert] at h
    split at h
    · rename_i hgb
      rcases List.mem_cons.1 h with h | h
      · simp only [Prod.mk.injEq] at h
        obtain ⟨rfl, rfl⟩ := h
        refine Or.inr ⟨hgb, fun x hx => ?_⟩
        rcases List.mem_append.1 hx with hx | hx
        · exact Or.inr ⟨ges, List.mem_cons_self .., hx⟩
        · exact Or.inl (by simpa using hx)
      · exact Or.inl (List.mem_cons_of_mem _ h)
    · rcases List.mem_cons.1 h with h | h
      · exact Or.inl (by rw [h]; exact List.mem_cons_self ..)
      · rcases ih h with h | ⟨h1, h2⟩
        · exact Or.inl (List.mem_cons_of_mem _ h)
        · refine Or.inr ⟨h1, fun x hx => ?_⟩
          rcases h2 x hx with h | ⟨es0, h3, h4⟩
          · exact Or.inl h
          · exact Or.inr ⟨es0, List.mem_cons_of_mem _ h3, h4⟩

/-- every entry of every group built by the fold comes from `txInfo` of a listed transaction -/
theorem group_fold_sound (txInfo : Nat → Option (Nat × Nat)) (l : List Nat) :
    ∀ acc : List (Nat × List (Nat × Nat)),
      (∀ b es, (b, es) ∈ acc → ∀ x ∈ es, txInfo x.1 = some (b, x.2)) →
      ∀ b es, (b, es) ∈ l.foldl (fun acc t => match txInfo t with
        | some (b, i) => groupInsert b (t, i) acc
        | none => acc) acc → ∀ x ∈ es, txInfo x.1 = some (b, x.2) := by
  induction l with
  | nil => intro acc h; simpa using h
  | cons t ts ih =>
    intro acc h
    simp only [List.foldl_cons]
    apply ih
    intro b es hm x hx
    cases hti : txInfo t with
    | none => simp only [hti] at hm; exact h b es hm x hx
    | some bi =>
      obtain ⟨b0, i0⟩ := bi
      simp only [hti] at hm
      rcases mem_groupInsert b0 (t, i0) acc b es hm with hm | ⟨rfl, h2⟩
      · exact h b es hm x hx
      · rcases h2 x hx with rfl | ⟨es0, h3, h4⟩
        · exact hti
        · exact h b es0 h3 x h4

end CkbVerif.LightServer
