import CkbVerif.Lemmas.Inflight

/-! Helper lemmas for the internal fields of the in-flight table (C17): slow-block marks
(`trace_number`), scheduler counters (`task_count`, `timeout_count`), the time analyzer window,
the policy fields (`adjustment`, `protect_num`), `restart_number`. -/
namespace CkbVerif.Inflight
open CkbVerif.Gen.Sync

/-- the block carries a slow mark -/
def Marked (s : Inflight) (b : Blk) : Prop := ∃ ts, (b, ts) ∈ s.trace

/-- the block is in flight -/
def InFlight (s : Inflight) (b : Blk) : Prop := ∃ st, (b, st) ∈ s.states

/-- a slow mark whose request is gone -/
def Stale (s : Inflight) (b : Blk) : Prop := Marked s b ∧ ¬ InFlight s b

/-- the requesting peer of an in-flight block has no scheduler (it was evicted by `prune`) -/
def Untracked (s : Inflight) (b : Blk) : Prop :=
  ∃ st, (b, st) ∈ s.states ∧ ∀ sc, (st.peer, sc) ∉ s.scheds

/-! ## effect of each operation on `states` and `trace` -/

theorem insert_states (s : Inflight) (now peer : Nat) (b : Blk) :
    (insert s now peer b).1.states =
      if hasState s b then s.states else (b, { peer := peer, ts := now }) :: s.states := by
  unfold insert
  cases hasState s b with
  | true => rfl
  | false =>
    simp only [Bool.false_eq_true, if_false]
    cases s.scheds.find? (fun e => e.1 == peer) with
    | none => rfl
    | some e => rfl

theorem insert_trace (s : Inflight) (now peer : Nat) (b : Blk) :
    (insert s now peer b).1.trace =
      if hasState s b then s.trace
      else if s.restartNumber ≥ b.number then (b, now) :: s.trace.filter (fun t => t.1 != b)
      else s.trace := by
  unfold insert
  cases hasState s b with
  | true => rfl
  | false =>
    simp only [Bool.false_eq_true, if_false]
    cases s.scheds.find? (fun e => e.1 == peer) with
    | none => rfl
    | some e => rfl

theorem insert_frame (s : Inflight) (now peer : Nat) (b : Blk) :
    (insert s now peer b).1.restartNumber = s.restartNumber ∧
    (insert s now peer b).1.analyzer = s.analyzer ∧
    (insert s now peer b).1.adjustment = s.adjustment ∧
    (insert s now peer b).1.protectNum = s.protectNum := by
  unfold insert
  cases hasState s b with
  | true => exact ⟨rfl, rfl, rfl, rfl⟩
  | false =>
    simp only [Bool.false_eq_true, if_false]
    cases s.scheds.find? (fun e => e.1 == peer) with
    | none => exact ⟨rfl, rfl, rfl, rfl⟩
    | some e => exact ⟨rfl, rfl, rfl, rfl⟩

theorem stale_insert {s : Inflight} (now peer : Nat) (b : Blk) {x : Blk}
    (h : Stale (insert s now peer b).1 x) : Stale s x := by
  obtain ⟨⟨ts, hm⟩, hn⟩ := h
  rw [insert_trace] at hm
  unfold InFlight at hn
  rw [insert_states] at hn
  cases hs : hasState s b with
  | true =>
    simp only [hs, if_true] at hm hn
    exact ⟨⟨ts, hm⟩, hn⟩
  | false =>
    simp only [hs, Bool.false_eq_true, if_false] at hm hn
    have hxb : x ≠ b := by
      intro e; subst e
      exact hn ⟨_, List.mem_cons_self⟩
    refine ⟨?_, fun ⟨st, hst⟩ => hn ⟨st, List.mem_cons_of_mem _ hst⟩⟩
    split at hm
    · rcases List.mem_cons.mp hm with e | e
      · exact (hxb (Prod.mk.inj e).1).elim
      · exact ⟨ts, (List.mem_filter.mp e).1⟩
    · exact ⟨ts, hm⟩

theorem stale_removeByPeer {s : Inflight} (peer : Nat) {x : Blk}
    (h : Stale (removeByPeer s peer).1 x) : Stale s x := by
  unfold removeByPeer at h
  cases hf : s.scheds.find? (fun e => e.1 == peer) with
  | none => simpa only [hf] using h
  | some e =>
    obtain ⟨q, sc⟩ := e
    simp only [hf] at h
    obtain ⟨⟨ts, hm⟩, hn⟩ := h
    have hm' := List.mem_filter.mp hm
    refine ⟨⟨ts, hm'.1⟩, ?_⟩
    rintro ⟨st, hst⟩
    exact hn ⟨st, List.mem_filter.mpr ⟨hst, hm'.2⟩⟩

theorem stale_removeByBlock {s : Inflight} (now : Nat) (b : Blk) {x : Blk}
    (h : Stale (removeByBlock s now b).1 x) : Stale s x := by
  unfold removeByBlock at h
  cases hf : s.states.find? (fun e => e.1 == b) with
  | none => simpa only [hf] using h
  | some e =>
    have he := find_state hf
    obtain ⟨b', st⟩ := e
    have hb' : b' = b := (Prod.mk.inj he).1
    subst hb'
    simp only [hf] at h
    -- in both branches: states and trace lose exactly the key `b'`
    have key : ∀ (s' : Inflight), s'.states = s.states.filter (fun e => e.1 != b') →
        s'.trace = s.trace.filter (fun t => t.1 != b') → Stale s' x → Stale s x := by
      intro s' e1 e2 hs
      obtain ⟨⟨ts, hm⟩, hn⟩ := hs
      rw [e2] at hm
      have hm' := List.mem_filter.mp hm
      have hx : x ≠ b' := by simpa using hm'.2
      refine ⟨⟨ts, hm'.1⟩, ?_⟩
      rintro ⟨st', hst'⟩
      apply hn
      refine ⟨st', ?_⟩
      rw [e1]
      exact List.mem_filter.mpr ⟨hst', by simpa using hx⟩
    cases hsf : s.scheds.find? (fun e => e.1 == st.peer) with
    | none =>
      simp only [hsf] at h
      exact key _ rfl rfl h
    | some sce =>
      simp only [hsf] at h
      exact key _ rfl rfl h

/-- the pre-4f3b7cd function: a stale mark appears only for `b` itself, arriving from an evicted peer -/
theorem stale_removeByBlockPreF23 {s : Inflight} (now : Nat) (b : Blk) {x : Blk}
    (h : Stale (removeByBlockPreF23 s now b).1 x) : Stale s x ∨ (x = b ∧ Untracked s b) := by
  unfold removeByBlockPreF23 at h
  cases hf : s.states.find? (fun e => e.1 == b) with
  | none => left; simpa only [hf] using h
  | some e =>
    have he := find_state hf
    obtain ⟨b', st⟩ := e
    have hb' : b' = b := (Prod.mk.inj he).1
    subst hb'
    have hmem := (find_mem hf).1
    simp only [hf] at h
    cases hsf : s.scheds.find? (fun e => e.1 == st.peer) with
    | none =>
      simp only [hsf] at h
      obtain ⟨hm, hn⟩ := h
      by_cases hx : x = b'
      · right
        refine ⟨hx, st, hmem, ?_⟩
        intro sc hsc
        have := find_none hsf _ hsc
        simp at this
      · left
        refine ⟨hm, ?_⟩
        rintro ⟨st', hst'⟩
        exact hn ⟨st', List.mem_filter.mpr ⟨hst', by simpa using hx⟩⟩
    | some sce =>
      simp only [hsf] at h
      obtain ⟨⟨ts, hm⟩, hn⟩ := h
      have hm' := List.mem_filter.mp hm
      have hx : x ≠ b' := by simpa using hm'.2
      left
      refine ⟨⟨ts, hm'.1⟩, ?_⟩
      rintro ⟨st', hst'⟩
      exact hn ⟨st', List.mem_filter.mpr ⟨hst', by simpa using hx⟩⟩

theorem stale_markSlow {s : Inflight} (now tip : Nat) {x : Blk}
    (h : Stale (markSlow s now tip) x) : Stale s x := by
  obtain ⟨⟨ts, hm⟩, hn⟩ := h
  refine ⟨?_, hn⟩
  simp only [markSlow] at hm
  rcases List.mem_append.mp hm with hm | hm
  · exact ⟨ts, hm⟩
  · obtain ⟨e, he, hee⟩ := List.mem_map.mp hm
    have h1 := (List.mem_filter.mp (List.mem_filter.mp he).1).1
    have : e.1 = x := (Prod.mk.inj hee).1
    exact (hn ⟨e.2, by rw [← this]; exact h1⟩).elim

/-- `prune`: the table's marks afterwards -/
theorem prune_trace (s : Inflight) (now tip : Nat) (t : Blk × Nat) :
    t ∈ (prune s now tip).1.trace ↔
      t ∈ s.trace ∧ (¬ ∃ e, e ∈ s.states ∧ timedOut now tip e = true ∧ e.1 = t.1) ∧
        ¬ now > s.analyzer.low + t.2 := by
  simp only [prune, List.mem_filter, Bool.not_eq_true', List.any_eq_false, beq_iff_eq,
    decide_eq_false_iff_not, not_exists, not_and, and_imp, decide_eq_true_eq]
  constructor
  · rintro ⟨⟨h1, h2⟩, h3⟩
    exact ⟨h1, fun e he hto => h2 e he hto, h3⟩
  · rintro ⟨h1, h2, h3⟩
    exact ⟨⟨h1, fun e he hto => h2 e he hto⟩, h3⟩

theorem stale_prune {s : Inflight} (hn : (s.trace.map (·.1)).Nodup) (now tip : Nat) {x : Blk}
    (h : Stale (prune s now tip).1 x) : Stale s x := by
  obtain ⟨⟨ts, hm⟩, hnf⟩ := h
  obtain ⟨h1, h2, h3⟩ := (prune_trace s now tip (x, ts)).mp hm
  refine ⟨⟨ts, h1⟩, ?_⟩
  rintro ⟨st, hst⟩
  apply hnf
  refine ⟨st, ?_⟩
  simp only [prune, List.mem_filter, Bool.not_eq_true', List.any_eq_false, beq_iff_eq,
    decide_eq_true_eq, and_imp]
  refine ⟨⟨hst, ?_⟩, ?_⟩
  · cases hto : timedOut now tip (x, st) with
    | false => rfl
    | true => exact (h2 ⟨(x, st), hst, hto, rfl⟩).elim
  · intro t ht _ hexp hte
    -- the only mark of `x` is `(x, ts)`, which has not expired
    have : t = (x, ts) := by
      have ht' : (t.1, t.2) ∈ s.trace := ht
      rw [hte] at ht'
      exact Prod.ext hte (assoc_unique hn ht' h1)
    rw [this] at hexp
    exact h3 hexp

/-! ## counters, window and marks: the second invariant -/

structure Inv2 (s : Inflight) : Prop where
  traceNodup : (s.trace.map (·.1)).Nodup
  taskLe : ∀ p sc, (p, sc) ∈ s.scheds → sc.taskCount ≤ MAX_BLOCKS_IN_TRANSIT_PER_PEER
  timeoutLe : ∀ p sc, (p, sc) ∈ s.scheds → sc.timeoutCount ≤ 2
  windowLen : s.analyzer.trace.length = TIME_TRACE_SIZE
  windowIdx : s.analyzer.index ≤ TIME_TRACE_SIZE

theorem Inv2.empty : Inv2 {} := by
  refine ⟨List.nodup_nil, ?_, ?_, ?_, ?_⟩
  · intro p sc h; cases h
  · intro p sc h; cases h
  · simp [Analyzer.trace]
  · exact Nat.zero_le _

theorem increase_le {sc : Sched} (h : sc.taskCount ≤ MAX_BLOCKS_IN_TRANSIT_PER_PEER) (n : Nat) :
    (sc.increase n).taskCount ≤ MAX_BLOCKS_IN_TRANSIT_PER_PEER ∧
      (sc.increase n).timeoutCount = sc.timeoutCount := by
  unfold Sched.increase
  split
  · exact ⟨Nat.min_le_right _ _, rfl⟩
  · exact ⟨h, rfl⟩

theorem decrease_le {sc : Sched} (h : sc.taskCount ≤ MAX_BLOCKS_IN_TRANSIT_PER_PEER) (n : Nat) :
    (sc.decrease n).taskCount ≤ MAX_BLOCKS_IN_TRANSIT_PER_PEER ∧ (sc.decrease n).timeoutCount ≤ 2 := by
  unfold Sched.decrease
  simp only []
  split
  · exact ⟨Nat.le_trans (Nat.sub_le _ _) h, Nat.zero_le _⟩
  · rename_i hgt
    exact ⟨h, by simp only []; omega⟩

theorem pushTime_window (a : Analyzer) (time : Nat) (hl : a.trace.length = TIME_TRACE_SIZE)
    (hi : a.index ≤ TIME_TRACE_SIZE) :
    (a.pushTime time).1.trace.length = TIME_TRACE_SIZE ∧ (a.pushTime time).1.index ≤ TIME_TRACE_SIZE ∧
      1 ≤ (a.pushTime time).1.index := by
  unfold Analyzer.pushTime
  simp only []
  split
  · rename_i hlt
    simp only [List.length_set]
    exact ⟨hl, hlt, Nat.succ_le_succ (Nat.zero_le _)⟩
  · simp only [List.length_set, List.length_mergeSort]
    refine ⟨hl, ?_, Nat.le_refl _⟩
    decide

theorem Inv2.setPolicy {s : Inflight} (h : Inv2 s) (a : Bool) (n : Nat) : Inv2 (setPolicy s a n) :=
  ⟨h.traceNodup, h.taskLe, h.timeoutLe, h.windowLen, h.windowIdx⟩

theorem Inv.setPolicy {s : Inflight} (h : Inv s) (a : Bool) (n : Nat) : Inv (setPolicy s a n) :=
  ⟨h.statesNodup, h.schedsNodup, h.listed⟩

theorem insert_scheds_counts {s : Inflight} (now peer : Nat) (b : Blk) {p : Nat} {sc' : Sched}
    (hm : (p, sc') ∈ (insert s now peer b).1.scheds) :
    (∃ sc, (p, sc) ∈ s.scheds ∧ sc'.taskCount = sc.taskCount ∧ sc'.timeoutCount = sc.timeoutCount) ∨
      (sc'.taskCount = INIT_BLOCKS_IN_TRANSIT_PER_PEER ∧ sc'.timeoutCount = 0) := by
  unfold insert at hm
  cases hs : hasState s b with
  | true =>
    simp only [hs, if_true] at hm
    exact Or.inl ⟨sc', hm, rfl, rfl⟩
  | false =>
    simp only [hs, Bool.false_eq_true, if_false] at hm
    cases hf : s.scheds.find? (fun e => e.1 == peer) with
    | none =>
      simp only [hf] at hm
      rcases List.mem_append.mp hm with hm | hm
      · exact Or.inl ⟨sc', hm, rfl, rfl⟩
      · have : (p, sc') = (peer, { hashes := [b] }) := by simpa using hm
        have := (Prod.mk.inj this).2
        subst this
        exact Or.inr ⟨rfl, rfl⟩
    | some e =>
      obtain ⟨q0, sc0⟩ := e
      simp only [hf] at hm
      obtain ⟨sc, hm1, hsc⟩ := mem_updSched hm
      refine Or.inl ⟨sc, hm1, ?_⟩
      split at hsc
      · split at hsc
        · subst hsc; exact ⟨rfl, rfl⟩
        · subst hsc; exact ⟨rfl, rfl⟩
      · subst hsc; exact ⟨rfl, rfl⟩

theorem Inv2.insert {s : Inflight} (h : Inv2 s) (now peer : Nat) (b : Blk) :
    Inv2 (CkbVerif.Inflight.insert s now peer b).1 := by
  obtain ⟨f1, f2, _, _⟩ := insert_frame s now peer b
  refine ⟨?_, ?_, ?_, ?_, ?_⟩
  · rw [insert_trace]
    split
    · exact h.traceNodup
    · split
      · simp only [List.map_cons, List.nodup_cons]
        refine ⟨?_, nodup_keys_filter h.traceNodup _⟩
        intro hm
        obtain ⟨e, he, hee⟩ := List.mem_map.mp hm
        have := (List.mem_filter.mp he).2
        simp [hee] at this
      · exact h.traceNodup
  · intro p sc' hm
    rcases insert_scheds_counts now peer b hm with ⟨sc, hsc, e1, _⟩ | ⟨e1, _⟩
    · rw [e1]; exact h.taskLe p sc hsc
    · rw [e1]; decide
  · intro p sc' hm
    rcases insert_scheds_counts now peer b hm with ⟨sc, hsc, _, e2⟩ | ⟨_, e2⟩
    · rw [e2]; exact h.timeoutLe p sc hsc
    · rw [e2]; exact Nat.zero_le _
  · rw [f2]; exact h.windowLen
  · rw [f2]; exact h.windowIdx

theorem Inv2.removeByPeer {s : Inflight} (h : Inv2 s) (peer : Nat) :
    Inv2 (CkbVerif.Inflight.removeByPeer s peer).1 := by
  unfold CkbVerif.Inflight.removeByPeer
  cases hf : s.scheds.find? (fun e => e.1 == peer) with
  | none => exact h
  | some e =>
    obtain ⟨q0, sc0⟩ := e
    simp only []
    refine ⟨nodup_keys_filter h.traceNodup _, ?_, ?_, h.windowLen, h.windowIdx⟩
    · intro p sc hm; exact h.taskLe p sc (List.mem_filter.mp hm).1
    · intro p sc hm; exact h.timeoutLe p sc (List.mem_filter.mp hm).1

theorem Inv2.removeByBlock {s : Inflight} (h : Inv2 s) (now : Nat) (b : Blk) :
    Inv2 (CkbVerif.Inflight.removeByBlock s now b).1 := by
  unfold CkbVerif.Inflight.removeByBlock
  cases hf : s.states.find? (fun e => e.1 == b) with
  | none => exact h
  | some e =>
    obtain ⟨b', st⟩ := e
    simp only []
    cases hsf : s.scheds.find? (fun e => e.1 == st.peer) with
    | none => exact ⟨nodup_keys_filter h.traceNodup _, h.taskLe, h.timeoutLe, h.windowLen, h.windowIdx⟩
    | some sce =>
      simp only []
      have counts : ∀ p sc', (p, sc') ∈ updSched s.scheds st.peer
          (fun sc =>
            (if s.adjustment then
              match (if s.adjustment then s.analyzer.pushTime (now - st.ts)
                     else (s.analyzer, Quantile.fastToNormal)).2 with
              | .minToFast => (sc.removeHash b).increase 2
              | .fastToNormal => (sc.removeHash b).increase 1
              | .normalToUpper =>
                if decide (s.scheds.length > s.protectNum) then (sc.removeHash b).decrease 1
                else sc.removeHash b
              | .upperToMax =>
                if decide (s.scheds.length > s.protectNum) then (sc.removeHash b).decrease 2
                else sc.removeHash b
            else sc.removeHash b)) →
          sc'.taskCount ≤ MAX_BLOCKS_IN_TRANSIT_PER_PEER ∧ sc'.timeoutCount ≤ 2 := by
        intro p sc' hm
        obtain ⟨sc, hm1, hsc⟩ := mem_updSched hm
        have t1 := h.taskLe p sc hm1
        have t2 := h.timeoutLe p sc hm1
        have r1 : (sc.removeHash b).taskCount ≤ MAX_BLOCKS_IN_TRANSIT_PER_PEER := t1
        have r2 : (sc.removeHash b).timeoutCount ≤ 2 := t2
        split at hsc
        · subst hsc
          split
          · split
            · have := increase_le r1 2; exact ⟨this.1, by rw [this.2]; exact r2⟩
            · have := increase_le r1 1; exact ⟨this.1, by rw [this.2]; exact r2⟩
            · split
              · exact decrease_le r1 1
              · exact ⟨r1, r2⟩
            · split
              · exact decrease_le r1 2
              · exact ⟨r1, r2⟩
          · exact ⟨r1, r2⟩
        · subst hsc; exact ⟨t1, t2⟩
      refine ⟨nodup_keys_filter h.traceNodup _, fun p sc' hm => (counts p sc' hm).1,
        fun p sc' hm => (counts p sc' hm).2, ?_, ?_⟩
      · split
        · exact (pushTime_window _ _ h.windowLen h.windowIdx).1
        · exact h.windowLen
      · split
        · exact (pushTime_window _ _ h.windowLen h.windowIdx).2.1
        · exact h.windowIdx

theorem mem_dropFromScheds_counts {l : List (Nat × Sched)} {gone : List (Blk × Req)} {pu : Bool}
    {k : Nat} {q : Nat} {sc' : Sched} (h : (q, sc') ∈ dropFromScheds l gone pu k) :
    ∃ sc, (q, sc) ∈ l ∧ sc'.timeoutCount = sc.timeoutCount ∧
      sc'.taskCount = if pu then sc.taskCount >>> (k * (gone.filter (fun g => g.2.peer == q)).length)
                      else sc.taskCount := by
  simp only [dropFromScheds, List.mem_map] at h
  obtain ⟨⟨q0, sc0⟩, hm, he⟩ := h
  obtain ⟨h1, h2⟩ := Prod.mk.inj he
  subst h1
  exact ⟨sc0, hm, by rw [← h2], by rw [← h2]⟩

theorem Inv2.prune {s : Inflight} (h : Inv2 s) (now tip : Nat) :
    Inv2 (CkbVerif.Inflight.prune s now tip).1 := by
  refine ⟨?_, ?_, ?_, h.windowLen, h.windowIdx⟩
  · simp only [CkbVerif.Inflight.prune]
    exact nodup_keys_filter (nodup_keys_filter h.traceNodup _) _
  · intro p sc3 hm
    simp only [CkbVerif.Inflight.prune] at hm
    obtain ⟨sc2, hm2, _, c3⟩ := mem_dropFromScheds_counts hm
    obtain ⟨sc, hm0, _, c1⟩ := mem_dropFromScheds_counts (List.mem_filter.mp hm2).1
    have t := h.taskLe p sc hm0
    have l2 : sc2.taskCount ≤ sc.taskCount := by
      rw [c1]; split
      · exact Nat.shiftRight_le _ _
      · exact Nat.le_refl _
    have l3 : sc3.taskCount ≤ sc2.taskCount := by
      rw [c3]; split
      · exact Nat.shiftRight_le _ _
      · exact Nat.le_refl _
    exact Nat.le_trans l3 (Nat.le_trans l2 t)
  · intro p sc3 hm
    simp only [CkbVerif.Inflight.prune] at hm
    obtain ⟨sc2, hm2, e3, _⟩ := mem_dropFromScheds_counts hm
    obtain ⟨sc, hm0, e1, _⟩ := mem_dropFromScheds_counts (List.mem_filter.mp hm2).1
    rw [e3, e1]; exact h.timeoutLe p sc hm0

theorem Inv2.markSlow {s : Inflight} (h : Inv2 s) (hs : (s.states.map (·.1)).Nodup) (now tip : Nat) :
    Inv2 (CkbVerif.Inflight.markSlow s now tip) := by
  refine ⟨?_, h.taskLe, h.timeoutLe, h.windowLen, h.windowIdx⟩
  simp only [CkbVerif.Inflight.markSlow, List.map_append, List.map_map]
  rw [List.nodup_append]
  refine ⟨h.traceNodup, ?_, ?_⟩
  · have : ((fun e : Blk × Req => (e.1, now)) : Blk × Req → Blk × Nat) = fun e => (e.1, now) := rfl
    have hk : (List.map ((fun x : Blk × Nat => x.1) ∘ fun e : Blk × Req => (e.1, now))
        (List.filter (fun e => !s.trace.any fun t => t.1 == e.1)
          (List.filter (fun e => decide (e.1.number ≤ tip + 1)) s.states))) =
        List.map (·.1) (List.filter (fun e => !s.trace.any fun t => t.1 == e.1)
          (List.filter (fun e => decide (e.1.number ≤ tip + 1)) s.states)) := by
      apply List.map_congr_left
      intro e _; rfl
    rw [hk]
    exact nodup_keys_filter (nodup_keys_filter hs _) _
  · intro a ha c hc heq
    subst heq
    obtain ⟨e, he, hee⟩ := List.mem_map.mp hc
    have hnot := (List.mem_filter.mp he).2
    simp only [Function.comp] at hee
    obtain ⟨t, ht, hta⟩ := List.mem_map.mp ha
    have : (s.trace.any fun t => t.1 == e.1) = true :=
      List.any_eq_true.mpr ⟨t, ht, by simp [hta, hee]⟩
    simp [this] at hnot

/-! ## `prune`: who is disconnected, which counters move -/

theorem prune_disconnect_disjoint {s : Inflight} (hn : (s.scheds.map (·.1)).Nodup) (now tip : Nat)
    {p : Nat} (hp : p ∈ (prune s now tip).2) : ∀ sc, (p, sc) ∉ (prune s now tip).1.scheds := by
  intro sc3 hm
  simp only [prune] at hp hm
  obtain ⟨e, he, hep⟩ := List.mem_map.mp hp
  obtain ⟨he1, hz⟩ := List.mem_filter.mp he
  obtain ⟨sc2, hm2, _⟩ := mem_dropFromScheds hm
  obtain ⟨hm1, hnz⟩ := List.mem_filter.mp hm2
  have hk : ((dropFromScheds s.scheds (s.states.filter (timedOut now tip))
      (decide (s.scheds.length > s.protectNum) && s.adjustment) 2).map (·.1)).Nodup := by
    rw [keys_dropFromScheds]; exact hn
  have he' : (p, e.2) ∈ dropFromScheds s.scheds (s.states.filter (timedOut now tip))
      (decide (s.scheds.length > s.protectNum) && s.adjustment) 2 := by
    rw [← hep]; exact he1
  have := assoc_unique hk he' hm1
  rw [this] at hz
  simp only [beq_iff_eq] at hz
  simp [hz] at hnz

theorem prune_disconnect_or_kept {s : Inflight} (now tip : Nat) {p : Nat} {sc : Sched}
    (hm : (p, sc) ∈ s.scheds) :
    p ∈ (prune s now tip).2 ∨ ∃ sc', (p, sc') ∈ (prune s now tip).1.scheds := by
  simp only [prune]
  -- the peer's scheduler after the first loop
  have h1 : ∃ sc1, (p, sc1) ∈ dropFromScheds s.scheds (s.states.filter (timedOut now tip))
      (decide (s.scheds.length > s.protectNum) && s.adjustment) 2 := by
    simp only [dropFromScheds, List.mem_map]
    exact ⟨_, ⟨(p, sc), hm, rfl⟩⟩
  obtain ⟨sc1, hsc1⟩ := h1
  by_cases hz : sc1.taskCount = 0
  · left
    exact List.mem_map.mpr ⟨(p, sc1), List.mem_filter.mpr ⟨hsc1, by simp [hz]⟩, rfl⟩
  · right
    have h2 : (p, sc1) ∈ (dropFromScheds s.scheds (s.states.filter (timedOut now tip))
        (decide (s.scheds.length > s.protectNum) && s.adjustment) 2).filter
          (fun e => e.2.taskCount != 0) :=
      List.mem_filter.mpr ⟨hsc1, by simp [hz]⟩
    simp only [dropFromScheds, List.mem_map]
    exact ⟨_, ⟨(p, sc1), h2, rfl⟩⟩

/-- no punishment (few peers, or adjustment switched off): `prune` moves no counter -/
theorem prune_counters_unpunished {s : Inflight} (now tip : Nat)
    (hno : (decide (s.scheds.length > s.protectNum) && s.adjustment) = false) {p : Nat} {sc' : Sched}
    (hm : (p, sc') ∈ (prune s now tip).1.scheds) :
    ∃ sc, (p, sc) ∈ s.scheds ∧ sc'.taskCount = sc.taskCount ∧ sc'.timeoutCount = sc.timeoutCount := by
  simp only [prune, hno] at hm
  obtain ⟨sc2, hm2, e3, c3⟩ := mem_dropFromScheds_counts hm
  obtain ⟨sc, hm0, e1, c1⟩ := mem_dropFromScheds_counts (List.mem_filter.mp hm2).1
  refine ⟨sc, hm0, ?_, by rw [e3, e1]⟩
  simp only [Bool.false_eq_true, if_false] at c3 c1
  rw [c3, c1]

/-- punishment: a quarter per timed-out request, a half per expired slow mark -/
theorem prune_counters_punished {s : Inflight} (now tip : Nat)
    (hyes : (decide (s.scheds.length > s.protectNum) && s.adjustment) = true) {p : Nat} {sc' : Sched}
    (hm : (p, sc') ∈ (prune s now tip).1.scheds) :
    ∃ sc k1 k2, (p, sc) ∈ s.scheds ∧ sc'.timeoutCount = sc.timeoutCount ∧
      sc'.taskCount = sc.taskCount >>> (2 * k1 + k2) ∧
      k1 = ((s.states.filter (timedOut now tip)).filter (fun g => g.2.peer == p)).length := by
  simp only [prune, hyes] at hm
  obtain ⟨sc2, hm2, e3, c3⟩ := mem_dropFromScheds_counts hm
  obtain ⟨sc, hm0, e1, c1⟩ := mem_dropFromScheds_counts (List.mem_filter.mp hm2).1
  simp only [if_true] at c3 c1
  obtain ⟨k2, hk2⟩ : ∃ k2, sc'.taskCount = sc2.taskCount >>> (1 * k2) := ⟨_, c3⟩
  refine ⟨sc, _, k2, hm0, by rw [e3, e1], ?_, rfl⟩
  rw [hk2, c1, ← Nat.shiftRight_add, Nat.one_mul]

/-! ## `restart_number` -/

theorem foldl_max_ge (l : List (Blk × Nat)) (r : Nat) :
    r ≤ l.foldl (fun r t => if t.1.number > r then t.1.number else r) r ∧
    (∀ t, t ∈ l → t.1.number ≤ l.foldl (fun r t => if t.1.number > r then t.1.number else r) r) ∧
    (l.foldl (fun r t => if t.1.number > r then t.1.number else r) r = r ∨
      ∃ t, t ∈ l ∧ l.foldl (fun r t => if t.1.number > r then t.1.number else r) r = t.1.number) := by
  induction l generalizing r with
  | nil => exact ⟨Nat.le_refl _, ⟨fun t h => (List.not_mem_nil h).elim, Or.inl rfl⟩⟩
  | cons x l ih =>
    simp only [List.foldl_cons]
    obtain ⟨a1, a2, a3⟩ := ih (if x.1.number > r then x.1.number else r)
    have hr : r ≤ (if x.1.number > r then x.1.number else r) := by split <;> omega
    have hx : x.1.number ≤ (if x.1.number > r then x.1.number else r) := by split <;> omega
    refine ⟨Nat.le_trans hr a1, ?_, ?_⟩
    · intro t ht
      rcases List.mem_cons.mp ht with e | e
      · rw [e]; exact Nat.le_trans hx a1
      · exact a2 t e
    · rcases a3 with e | ⟨t, ht, e⟩
      · by_cases hg : x.1.number > r
        · right
          refine ⟨x, List.mem_cons_self, ?_⟩
          rw [e]; simp [hg]
        · left
          rw [e]; simp [hg]
      · exact Or.inr ⟨t, List.mem_cons_of_mem _ ht, e⟩

/-! ## the analyzer's thresholds -/

theorem sorted_getD_le {l : List Nat} (i j : Nat) (hij : i ≤ j) (hj : j < l.length) :
    (l.mergeSort (fun x y => decide (x ≤ y))).getD i 0 ≤ (l.mergeSort (fun x y => decide (x ≤ y))).getD j 0 := by
  have hp := List.pairwise_mergeSort (le := fun (x y : Nat) => decide (x ≤ y))
    (by intro a b c h1 h2; simp only [decide_eq_true_eq] at *; omega)
    (by intro a b; simp only [Bool.or_eq_true, decide_eq_true_eq]; omega) l
  have hl : (l.mergeSort (fun x y => decide (x ≤ y))).length = l.length := List.length_mergeSort l
  have hj' : j < (l.mergeSort (fun x y => decide (x ≤ y))).length := by rw [hl]; exact hj
  have hi' : i < (l.mergeSort (fun x y => decide (x ≤ y))).length := by omega
  rw [List.getD_eq_getElem?_getD, List.getD_eq_getElem?_getD, List.getElem?_eq_getElem hi',
    List.getElem?_eq_getElem hj']
  simp only [Option.getD_some]
  rcases Nat.lt_or_eq_of_le hij with h | h
  · have := (List.pairwise_iff_getElem.mp hp) i j hi' hj' h
    simpa using this
  · subst h; exact Nat.le_refl _

/-- the analyzer's thresholds stay ordered through the sort-and-average update -/
theorem pushTime_ordered (a : Analyzer) (time : Nat) (hl : a.trace.length = TIME_TRACE_SIZE)
    (h : a.fast ≤ a.normal ∧ a.normal ≤ a.low) :
    (a.pushTime time).1.fast ≤ (a.pushTime time).1.normal ∧
      (a.pushTime time).1.normal ≤ (a.pushTime time).1.low := by
  unfold Analyzer.pushTime
  simp only []
  split
  · exact h
  · have h1 := sorted_getD_le (l := a.trace) FAST_INDEX NORMAL_INDEX (by decide) (by rw [hl]; decide)
    have h2 := sorted_getD_le (l := a.trace) NORMAL_INDEX LOW_INDEX (by decide) (by rw [hl]; decide)
    simp only []
    constructor
    · unfold satAdd64 U64_MAX; omega
    · unfold satAdd64 U64_MAX; omega


/-- only `remove_by_block` touches the analyzer, and only through `push_time` -/
theorem removeByBlock_analyzer (s : Inflight) (now : Nat) (b : Blk) :
    (removeByBlock s now b).1.analyzer = s.analyzer ∨
      ∃ t, (removeByBlock s now b).1.analyzer = (s.analyzer.pushTime t).1 := by
  unfold removeByBlock
  cases s.states.find? (fun e => e.1 == b) with
  | none => exact Or.inl rfl
  | some e =>
    simp only []
    cases s.scheds.find? (fun e' => e'.1 == e.2.peer) with
    | none => exact Or.inl rfl
    | some sce =>
      simp only []
      cases s.adjustment with
      | true => exact Or.inr ⟨_, rfl⟩
      | false => exact Or.inl rfl

theorem removeByPeer_analyzer (s : Inflight) (peer : Nat) :
    (removeByPeer s peer).1.analyzer = s.analyzer := by
  unfold removeByPeer
  cases s.scheds.find? (fun e => e.1 == peer) with
  | none => rfl
  | some e => rfl

end CkbVerif.Inflight
