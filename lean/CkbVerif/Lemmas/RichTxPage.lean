import CkbVerif.Model.RichIndexer

/-! Rich-indexer (relational model): the ungrouped `get_transactions` walk with the repaired cursor
(706cf75) returns every row of the unlimited answer exactly once, in order, and terminates (C18). -/
namespace CkbVerif.Rich
open CkbVerif.Indexer

/-- `a` is not after `b` in the direction of the query -/
def dirLe (desc : Bool) (a b : Nat) : Prop := if desc then b ≤ a else a ≤ b

theorem dirLe_refl (desc : Bool) (a : Nat) : dirLe desc a a := by
  unfold dirLe; split <;> exact Nat.le_refl a

theorem dirLe_trans {desc : Bool} {a b c : Nat} (h1 : dirLe desc a b) (h2 : dirLe desc b c) : dirLe desc a c := by
  unfold dirLe at *; split at h1 <;> simp_all <;> omega

theorem dirLe_antisymm {desc : Bool} {a b : Nat} (h1 : dirLe desc a b) (h2 : dirLe desc b a) : a = b := by
  unfold dirLe at *; split at h1 <;> simp_all <;> omega

theorem dirLe_total (desc : Bool) (a b : Nat) : dirLe desc a b ∨ dirLe desc b a := by
  unfold dirLe; split <;> omega

def SortedTx (desc : Bool) (R : List RTxRow) : Prop := R.Pairwise fun a b => dirLe desc a.txId b.txId

/-! ## `ORDER BY tx_id` -/

instance (desc : Bool) (a b : Nat) : Decidable (dirLe desc a b) := by unfold dirLe; infer_instance

theorem insertByTx_pos {desc : Bool} {r x : RTxRow} {xs : List RTxRow} (h : dirLe desc r.txId x.txId) :
    insertByTx desc r (x :: xs) = r :: x :: xs := by
  unfold dirLe at h
  simp [insertByTx, h]

theorem insertByTx_neg {desc : Bool} {r x : RTxRow} {xs : List RTxRow} (h : ¬ dirLe desc r.txId x.txId) :
    insertByTx desc r (x :: xs) = x :: insertByTx desc r xs := by
  unfold dirLe at h
  simp [insertByTx, h]

theorem mem_insertByTx (desc : Bool) (r x : RTxRow) (l : List RTxRow) :
    x ∈ insertByTx desc r l ↔ x = r ∨ x ∈ l := by
  induction l with
  | nil => simp [insertByTx]
  | cons y ys ih =>
    by_cases hc : dirLe desc r.txId y.txId
    · rw [insertByTx_pos hc]; simp
    · rw [insertByTx_neg hc]
      simp only [List.mem_cons, ih]
      constructor
      · rintro (h | h | h)
        · exact Or.inr (Or.inl h)
        · exact Or.inl h
        · exact Or.inr (Or.inr h)
      · rintro (h | h | h)
        · exact Or.inr (Or.inl h)
        · exact Or.inl h
        · exact Or.inr (Or.inr h)

theorem sorted_insertByTx (desc : Bool) (r : RTxRow) (l : List RTxRow) (h : SortedTx desc l) :
    SortedTx desc (insertByTx desc r l) := by
  induction l with
  | nil => simp [insertByTx, SortedTx]
  | cons y ys ih =>
    have h' : (∀ z ∈ ys, dirLe desc y.txId z.txId) ∧ SortedTx desc ys := List.pairwise_cons.mp h
    by_cases hc : dirLe desc r.txId y.txId
    · rw [insertByTx_pos hc]
      apply List.pairwise_cons.mpr
      refine ⟨?_, h⟩
      intro z hz
      rcases List.mem_cons.mp hz with rfl | hz
      · exact hc
      · exact dirLe_trans hc (h'.1 z hz)
    · rw [insertByTx_neg hc]
      have hyr : dirLe desc y.txId r.txId := (dirLe_total desc y.txId r.txId).resolve_right hc
      apply List.pairwise_cons.mpr
      refine ⟨?_, ih h'.2⟩
      intro z hz
      rcases (mem_insertByTx desc r z ys).mp hz with rfl | hz
      · exact hyr
      · exact h'.1 z hz

theorem sorted_sortByTx (desc : Bool) (l : List RTxRow) : SortedTx desc (sortByTx desc l) := by
  unfold sortByTx
  induction l with
  | nil => simp [SortedTx]
  | cons x xs ih => exact sorted_insertByTx desc x _ ih

theorem perm_insertByTx (desc : Bool) (r : RTxRow) (l : List RTxRow) : (insertByTx desc r l).Perm (r :: l) := by
  induction l with
  | nil => exact List.Perm.refl _
  | cons y ys ih =>
    by_cases hc : dirLe desc r.txId y.txId
    · rw [insertByTx_pos hc]
    · rw [insertByTx_neg hc]
      exact (List.Perm.cons y ih).trans (List.Perm.swap r y ys)

/-- the ordered answer holds every matching row exactly once -/
theorem perm_sortByTx (desc : Bool) (l : List RTxRow) : (sortByTx desc l).Perm l := by
  unfold sortByTx
  induction l with
  | nil => exact List.Perm.refl _
  | cons x xs ih => exact (perm_insertByTx desc x _).trans (List.Perm.cons x ih)

/-! ## the cursor after a sorted run of rows -/

theorem foldl_cursor (desc : Bool) : ∀ (S : List RTxRow) (t c : Nat), SortedTx desc S →
    (c = 0 ∨ ∀ r ∈ S, dirLe desc t r.txId) →
    S.foldl cursorStep (t, c) =
      match S.getLast? with
      | none => (t, c)
      | some x => (x.txId, (if x.txId = t then c else 0) + S.countP fun r => r.txId = x.txId)
  | [], t, c, _, _ => by simp
  | y :: S', t, c, hs, hc => by
    unfold SortedTx at hs
    rw [List.pairwise_cons] at hs
    rw [List.foldl_cons]
    have hstep : cursorStep (t, c) y = (y.txId, if y.txId = t then c + 1 else 1) := by
      unfold cursorStep
      by_cases h : y.txId = t <;> simp [h]
    rw [hstep, foldl_cursor desc S' _ _ hs.2 (Or.inr hs.1)]
    cases hl : S'.getLast? with
    | none =>
      have : S' = [] := List.getLast?_eq_none_iff.mp hl
      subst this
      simp only [List.getLast?_singleton, List.countP_cons, List.countP_nil]
      by_cases h : y.txId = t <;> simp [h] <;> omega
    | some x =>
      have hxm : x ∈ S' := List.mem_of_getLast? hl
      have hlast : (y :: S').getLast? = some x := by
        rw [List.getLast?_cons, hl]; rfl
      rw [hlast]
      simp only [List.countP_cons]
      have hyx : dirLe desc y.txId x.txId := hs.1 x hxm
      by_cases hxy : x.txId = y.txId
      · by_cases h : y.txId = t
        · have hxt : x.txId = t := hxy.trans h
          simp [hxy, h, hxt]; omega
        · have hxt : ¬ x.txId = t := fun e => h (hxy.symm.trans e)
          simp [hxy, h]; omega
      · have hyx' : ¬ y.txId = x.txId := fun e => hxy e.symm
        have hzero : (if x.txId = t then c else 0) = 0 := by
          rcases hc with hc | hc
          · simp [hc]
          · have hty : dirLe desc t y.txId := hc y (List.mem_cons_self)
            by_cases hxt : x.txId = t
            · exfalso
              apply hxy
              have : dirLe desc y.txId t := hxt ▸ hyx
              exact hxt.trans (dirLe_antisymm hty this)
            · simp [hxt]
        simp [hxy, hyx', hzero]

/-! ## resuming after the rows already returned -/

theorem sorted_le_last {desc : Bool} {L : List RTxRow} {x : RTxRow} (hs : SortedTx desc L)
    (hl : L.getLast? = some x) : ∀ a ∈ L, dirLe desc a.txId x.txId := by
  obtain ⟨ys, rfl⟩ := List.getLast?_eq_some_iff.mp hl
  intro a ha
  rcases List.mem_append.mp ha with ha | ha
  · exact (List.pairwise_append.mp hs).2.2 a ha x (by simp)
  · simp only [List.mem_singleton] at ha
    subst ha
    exact dirLe_refl desc _

/-- **the repaired cursor resumes exactly after the rows already returned**: `A` = the rows of the
previous pages (non-empty), `B` = the rest of the ordered answer -/
theorem txsAfter_resume (desc : Bool) (A B : List RTxRow) (hs : SortedTx desc (A ++ B)) (hA : A ≠ []) :
    txsAfter (A ++ B) desc (some (A.foldl cursorStep (0, 0))) = B := by
  obtain ⟨hsA, _, hAB⟩ := List.pairwise_append.mp hs
  cases hl : A.getLast? with
  | none => exact absurd (List.getLast?_eq_none_iff.mp hl) hA
  | some x =>
    have hxA : x ∈ A := List.mem_of_getLast? hl
    have hcur := foldl_cursor desc A 0 0 hsA (Or.inl rfl)
    rw [hl] at hcur
    simp only [ite_self, Nat.zero_add] at hcur
    rw [hcur]
    unfold txsAfter
    simp only
    have hf : ((A ++ B).filter fun (r : RTxRow) => if desc then r.txId ≤ x.txId else x.txId ≤ r.txId) =
        (A.filter fun r => r.txId = x.txId) ++ B := by
      rw [List.filter_append]
      congr 1
      · apply List.filter_congr
        intro a ha
        have h1 : dirLe desc a.txId x.txId := sorted_le_last hsA hl a ha
        unfold dirLe at h1
        cases desc <;> simp at h1 ⊢ <;> omega
      · rw [List.filter_eq_self]
        intro b hb
        have : dirLe desc x.txId b.txId := hAB x hxA b hb
        unfold dirLe at this
        simpa using this
    rw [hf]
    apply List.drop_left'
    rw [List.countP_eq_length_filter]

/-- the pages of a walk over the ordered answer `R`, from the point where `A` has been returned -/
theorem walk_pages (db : DB) (ls : Bool) (m : Mode) (q : Script) (f : Filter) (desc : Bool) (limit : Nat)
    (hl : 1 ≤ limit) :
    ∀ (fuel : Nat) (A B : List RTxRow), sortByTx desc (txRows db ls m q f) = A ++ B → B.length < fuel →
      let pages := getTxsPages db ls m q f desc limit fuel (if A = [] then none else some (A.foldl cursorStep (0, 0)))
      pages.flatten = B ∧ pages.getLast? = some [] ∧ ∀ p ∈ pages, p.length ≤ limit
  | 0, _, _, _, h => by omega
  | fuel + 1, A, B, hR, hfuel => by
    have hs : SortedTx desc (A ++ B) := hR ▸ sorted_sortByTx desc _
    have hafter : txsAfter (sortByTx desc (txRows db ls m q f)) desc
        (if A = [] then none else some (A.foldl cursorStep (0, 0))) = B := by
      rw [hR]
      by_cases hA : A = []
      · subst hA; simp [txsAfter]
      · rw [if_neg hA]; exact txsAfter_resume desc A B hs hA
    have hget : getTxs db ls m q f desc limit (if A = [] then none else some (A.foldl cursorStep (0, 0))) =
        (B.take limit, (B.take limit).foldl cursorStep ((if A = [] then none else some (A.foldl cursorStep (0, 0))).getD (0, 0))) := by
      simp only [getTxs, hafter]
    simp only [getTxsPages, hget]
    cases hB : B with
    | nil => simp
    | cons b B' =>
      have hne : ((b :: B').take limit).isEmpty = false := by
        cases limit with
        | zero => omega
        | succ n => simp
      rw [hne]
      simp only [Bool.false_eq_true, if_false]
      -- the next state: A ++ page returned, the rest remains
      have hcur : ((b :: B').take limit).foldl cursorStep ((if A = [] then none else some (A.foldl cursorStep (0, 0))).getD (0, 0)) =
          (A ++ (b :: B').take limit).foldl cursorStep (0, 0) := by
        rw [List.foldl_append]
        by_cases hA : A = []
        · subst hA; simp
        · simp [hA]
      rw [hcur]
      have hne2 : A ++ (b :: B').take limit ≠ [] := by
        cases limit with
        | zero => omega
        | succ n => simp
      have hR' : sortByTx desc (txRows db ls m q f) = (A ++ (b :: B').take limit) ++ (b :: B').drop limit := by
        rw [hR, hB, List.append_assoc, List.take_append_drop]
      have hlen : ((b :: B').drop limit).length < fuel := by
        rw [List.length_drop]
        rw [hB] at hfuel
        simp only [List.length_cons] at hfuel ⊢
        omega
      have ih := walk_pages db ls m q f desc limit hl fuel _ _ hR' hlen
      rw [if_neg hne2] at ih
      obtain ⟨ih1, ih2, ih3⟩ := ih
      refine ⟨?_, ?_, ?_⟩
      · rw [List.flatten_cons, ih1, List.take_append_drop]
      · rw [List.getLast?_cons, ih2]; rfl
      · intro p hp
        rcases List.mem_cons.mp hp with rfl | hp
        · exact List.length_take_le _ _
        · exact ih3 p hp

end CkbVerif.Rich
