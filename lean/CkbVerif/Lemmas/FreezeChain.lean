/-
Chain-side operations between (and inside) freezer passes: the freezer invariant `Inv` of
`Lemmas/Freeze.lean` is preserved when the chain service stores a block — a side block at a frozen or
a not-yet-frozen height, an extension of the main chain, a reorg whose fork point is at or above the
last frozen block — so it holds in every state reachable by interleaving chain operations with the
micro-steps of freezer passes (`Reach`, `inv_reach`).

The one interleaving that is excluded is a reorg whose fork point lies BELOW the last frozen block
(`ChainOk.keepFrozen` fails): nothing in /repo prevents it (there is no reorg-depth limit; the freezer
is never truncated by the chain service), and the model shows what it does — see
`Props/C10.lean`, `reorg_below_frozen_height_breaks_transactions_witness`.
-/
import CkbVerif.Lemmas.FreezeStart
import CkbVerif.Lemmas.ForkProcess
namespace CkbVerif.Freeze
open CkbVerif.Store

/-- the chain service stores block `b` (`insert_block`: header + body rows + NUMBER_HASH row) and
commits the view `v'` (`verify_block`); the freezer is not touched -/
def chainStore (s : FS) (b : Block) (v' : View) : FS :=
  insertBlock { s with v := v' } b.id

/-- every row of the number index names a stored block (`StoreOk.numOk` of the start state; the
chain service keeps it: it attaches stored blocks only) -/
def IdxStored (s : FS) : Prop := ∀ n id, s.v.m.index n = some id → ∃ blk, s.v.r.bodies id = some blk

/-- what is needed of a chain-service step for the freezer invariant to survive it -/
structure ChainOk (s : FS) (b : Block) (v' : View) : Prop where
  /-- records are insert-only and per hash: `b` is stored under its id, nothing else changes -/
  bodies : v'.r.bodies = upd s.v.r.bodies b.id (some b)
  /-- a hash names one block: what was stored under `b`'s id is `b` -/
  sameHash : ∀ blk, s.v.r.bodies b.id = some blk → blk = b
  /-- THE EXCLUSION: the main chain below `freezer.number()` is not reorganised -/
  keepFrozen : ∀ n, 0 < n → n < frozenNumber s → v'.m.index n = s.v.m.index n
  /-- the number index names stored blocks of that number -/
  numOk : ∀ n id blk, v'.m.index n = some id → v'.r.bodies id = some blk → blk.number = n
  /-- a block that is on the main chain afterwards is the new block, or was on it before, or is a
  stored side-branch block that still has all its rows (`find_fork` / `reconcile_main_chain` read
  them with `get_block(hash).expect(..)`: they are a precondition of the real reorg as well) -/
  rows : ∀ id blk, v'.r.bodies id = some blk → v'.m.index blk.number = some id →
    id = b.id ∨ s.v.m.index blk.number = some id ∨ (s.hdr id = true ∧ s.body id = true)
  /-- the index names stored blocks only -/
  idxStored : ∀ n id, v'.m.index n = some id → ∃ blk, v'.r.bodies id = some blk

theorem frozenNumber_chainStore (s : FS) (b : Block) (v' : View) :
    frozenNumber (chainStore s b v') = frozenNumber s := rfl

/-- a chain-service step keeps the freezer invariant -/
theorem inv_chainStore (s : FS) (h : Inv s) (b : Block) (v' : View) (ok : ChainOk s b v') :
    Inv (chainStore s b v') := by
  have hbod : ∀ id blk, s.v.r.bodies id = some blk → v'.r.bodies id = some blk := by
    intro id blk hb
    rw [ok.bodies]
    by_cases hid : id = b.id
    · subst hid
      have := ok.sameHash blk hb
      subst this
      simp [upd]
    · simp [upd, hid, hb]
  have hidOk : ∀ id blk, v'.r.bodies id = some blk → blk.id = id := by
    intro id blk hb
    rw [ok.bodies] at hb
    by_cases hid : id = b.id
    · subst hid; simp [upd] at hb; subst hb; rfl
    · simp [upd, hid] at hb; exact h.idOk id blk hb
  constructor
  · intro k fb hk
    have hk' : s.frozen[k]? = some fb := hk
    obtain ⟨h1, h2, h3⟩ := h.frozenOk k fb hk'
    have hklt : k < s.frozen.length := (List.getElem?_eq_some_iff.mp hk').1
    refine ⟨h1, hbod _ _ h2, ?_⟩
    show v'.m.index (k + 1) = some fb.id
    rw [ok.keepFrozen (k + 1) (by omega) (by unfold frozenNumber; omega)]
    exact h3
  · intro id blk hm hcond
    obtain ⟨hb, hi⟩ := hm
    have hb' : v'.r.bodies id = some blk := hb
    have hi' : v'.m.index blk.number = some id := hi
    show (if id = b.id then true else s.body id) = true
    by_cases hid : id = b.id
    · simp [hid]
    · simp only [hid, if_false]
      rcases ok.rows id blk hb' hi' with h1 | h1 | h1
      · exact absurd h1 hid
      · have hbs : s.v.r.bodies id = some blk := by
          rw [ok.bodies] at hb'; simpa [upd, hid] using hb'
        exact h.bodyOk id blk ⟨hbs, h1⟩ hcond
      · exact h1.2
  · intro id blk hm
    obtain ⟨hb, hi⟩ := hm
    have hb' : v'.r.bodies id = some blk := hb
    have hi' : v'.m.index blk.number = some id := hi
    show (if id = b.id then true else s.hdr id) = true
    by_cases hid : id = b.id
    · simp [hid]
    · simp only [hid, if_false]
      rcases ok.rows id blk hb' hi' with h1 | h1 | h1
      · exact absurd h1 hid
      · have hbs : s.v.r.bodies id = some blk := by
          rw [ok.bodies] at hb'; simpa [upd, hid] using hb'
        exact h.hdrOk id blk ⟨hbs, h1⟩
      · exact h1.1
  · exact hidOk
  · exact ok.numOk

/-! ### the model's chain-service step `Store.process` -/

theorem reconcile_bodies (v : View) (bs : List Block) : (reconcile v bs).r.bodies = v.r.bodies := by
  induction bs generalizing v with
  | nil => rfl
  | cons b bs ih =>
    simp only [reconcile]
    rw [ih]
    simp only [reconcileOne]
    cases v.r.ext b.id with
    | none => rfl
    | some e =>
      simp only
      split <;> rfl

/-- whatever `process` decides (side block, extension, reorg), the records gain exactly `b` -/
theorem process_bodies (v : View) (b : Block) :
    (process v b).r.bodies = upd v.r.bodies b.id (some b) := by
  simp only [process]
  split
  · simp only [commitBest, reconcile_bodies, rollback_r]
    by_cases h : b.isHead = true <;> simp [h, putExt, insertEpochExt, insertBlockEpoch, Store.insertBlock]
  · by_cases h : b.isHead = true <;> simp [h, putExt, insertEpochExt, insertBlockEpoch, Store.insertBlock]

/-- **a side block** (not a new best block), stored at ANY height — frozen, about to be frozen, or
above — is a legal chain step: the main-chain view does not change at all -/
theorem sideBlock_chainOk (s : FS) (h : Inv s) (hidx : IdxStored s) (b : Block)
    (hsame : ∀ blk, s.v.r.bodies b.id = some blk → blk = b)
    (hside : ¬ (freshExt (Store.insertBlock s.v.r b) b).td > tdOf (Store.insertBlock s.v.r b) (s.v.m.tip.getD 0)) :
    ChainOk s b (process s.v b) := by
  have hm : (process s.v b).m = s.v.m := by
    simp only [process]
    simp [hside]
  refine ⟨process_bodies s.v b, hsame, fun n _ _ => by rw [hm], ?_, ?_, ?_⟩
  · intro n id blk hi hb
    rw [hm] at hi
    rw [process_bodies] at hb
    by_cases hid : id = b.id
    · subst hid
      simp [upd] at hb
      subst hb
      -- the index names `b.id` at `n`: then `b` was stored before (numOk of the old state)
      cases hbo : s.v.r.bodies b.id with
      | none =>
        -- an index row always names a stored block: no row can name a block unknown so far
        obtain ⟨old, ho⟩ := hidx n b.id hi
        rw [hbo] at ho; cases ho
      | some old =>
        have := hsame old hbo
        subst this
        exact h.numOk n _ _ hi hbo
    · simp [upd, hid] at hb
      exact h.numOk n id blk hi hb
  · intro id blk hb hi
    rw [hm] at hi
    exact Or.inr (Or.inl hi)
  · intro n id hi
    rw [hm] at hi
    obtain ⟨blk, hb⟩ := hidx n id hi
    rw [process_bodies]
    by_cases hid : id = b.id
    · exact ⟨b, by simp [upd, hid]⟩
    · exact ⟨blk, by simp [upd, hid, hb]⟩

/-! ### steps that change the main chain: extension, reorg above the frozen height

The C02 theorems (`C02.attach_replay`, `C02.process_reorg_eq_replay`) say that after ANY committed
new best block the main-chain view is the replay of the new chain `g :: rest'` (the parent path of
the new tip).  On that representation: -/

/-- the number index of a replayed chain numbered from 0 is the chain -/
theorem replay_index_get (g : Block) (rest : List Block)
    (hnum : ∀ n (h : n < (g :: rest).length), ((g :: rest)[n]).number = n) (n : Nat) :
    (replay (g :: rest)).m.index n = ((g :: rest)[n]?).map (·.id) := by
  rw [C02.replay_index (fun _ => default) g rest (fun _ => false) hnum]
  simp only [Fork.mainIndex, C02.forkStore]
  by_cases hn : n ≤ rest.length
  · have hlt : n < (g :: rest).length := by simp; omega
    simp [hn, List.getD, List.getElem?_eq_getElem hlt]
  · have hge : (g :: rest).length ≤ n := by simp; omega
    simp [hn, List.getElem?_eq_none hge]

/-- **extension or reorg at/above the last frozen block.**  The old main chain is `g :: rest`, the
new one `g :: rest'` (both numbered from 0, the new one stored); they agree below
`freezer.number()` (`hfork`: the fork point is the last frozen block or later — THE exclusion);
blocks that join the main chain from a side branch still have their rows (`hrows`). -/
theorem mainChange_chainOk (s : FS) (b : Block) (v' : View) (g : Block) (rest rest' : List Block)
    (hold : s.v.m.index = (replay (g :: rest)).m.index)
    (hnew : v'.m.index = (replay (g :: rest')).m.index)
    (hnum : ∀ n (h : n < (g :: rest).length), ((g :: rest)[n]).number = n)
    (hnum' : ∀ n (h : n < (g :: rest').length), ((g :: rest')[n]).number = n)
    (hbod : v'.r.bodies = upd s.v.r.bodies b.id (some b))
    (hsame : ∀ blk, s.v.r.bodies b.id = some blk → blk = b)
    (hstored' : ∀ blk ∈ g :: rest', v'.r.bodies blk.id = some blk)
    (hfork : ∀ n, n < frozenNumber s → (g :: rest')[n]? = (g :: rest)[n]?)
    (hrows : ∀ blk ∈ g :: rest', blk ∈ g :: rest ∨ blk.id = b.id ∨ (s.hdr blk.id = true ∧ s.body blk.id = true)) :
    ChainOk s b v' := by
  -- an index row of the new view names the chain element at that position
  have hrow : ∀ n id, v'.m.index n = some id →
      ∃ blk, (g :: rest')[n]? = some blk ∧ blk.id = id ∧ blk ∈ g :: rest' ∧ blk.number = n := by
    intro n id hi
    rw [hnew, replay_index_get g rest' hnum' n] at hi
    cases hg : (g :: rest')[n]? with
    | none => rw [hg] at hi; cases hi
    | some blk =>
      rw [hg] at hi
      obtain ⟨hlt, hget⟩ := List.getElem?_eq_some_iff.mp hg
      refine ⟨blk, rfl, by simpa using hi, hget ▸ List.getElem_mem hlt, ?_⟩
      rw [← hget]; exact hnum' n hlt
  refine ⟨hbod, hsame, ?_, ?_, ?_, ?_⟩
  · intro n _ hn
    rw [hnew, hold, replay_index_get g rest' hnum' n, replay_index_get g rest hnum n, hfork n hn]
  · intro n id blk hi hb
    obtain ⟨blk0, _, hid, hmem, hnum0⟩ := hrow n id hi
    have := hstored' blk0 hmem
    rw [hid, hb] at this
    cases this; exact hnum0
  · intro id blk hb hi
    obtain ⟨blk0, _, hid, hmem, _⟩ := hrow blk.number id hi
    have hst := hstored' blk0 hmem
    rw [hid, hb] at hst
    cases hst
    rcases hrows blk hmem with h1 | h1 | h1
    · right; left
      obtain ⟨k, hk, hget⟩ := List.getElem_of_mem h1
      have hkn : blk.number = k := by rw [← hget]; exact hnum k hk
      rw [hold, replay_index_get g rest hnum, hkn, List.getElem?_eq_getElem hk, hget]
      simp [hid]
    · left; rw [← hid]; exact h1
    · right; right; rw [← hid]; exact h1
  · intro n id hi
    obtain ⟨blk0, _, hid, hmem, _⟩ := hrow n id hi
    exact ⟨blk0, hid ▸ hstored' blk0 hmem⟩

theorem idxStored_chainStore (s : FS) (b : Block) (v' : View) (ok : ChainOk s b v') :
    IdxStored (chainStore s b v') := ok.idxStored

theorem idxStored_step {s t : FS} (h : IdxStored s) (st : Step s t) : IdxStored t := by
  cases st <;> exact h

end CkbVerif.Freeze
