import CkbVerif.Lemmas.IndexerChain

/-! `rollback ∘ append` for blocks without same-block spends (C18). -/
namespace CkbVerif.Indexer

/-- what `rollback (appendCore s b)` needs beyond `WFAppend` -/
structure WFRollback (s : Store) (b : Block) : Prop extends WFAppend s b where
  freshLock : ∀ (sc : Script) (txi io : Nat), get s (.cellLock sc b.number txi io) = none
  freshTxLock : ∀ (sc : Script) (txi io : Nat) (t : IoType), get s (.txLock sc b.number txi io t) = none
  freshConsumed : ∀ (op : OutPoint), get s (.consumed b.number op) = none
  freshTx : ∀ tx ∈ b.txs, get s (.txHash tx.id) = none
  hdrBelow : HdrBelow s b.number
  lockInv : LockInv s

variable {s : Store} {b : Block}

/-- ConsumedOutPoint rows of this block after append: exactly the spent cells -/
theorem consumed_spent (wf : WFRollback s b) (op : OutPoint) (c : Cell) (hs : SpentIn s b op c) :
    get (appendCore s b) (.consumed b.number op) = some (.cell c) := by
  rw [get_appendCore_nonheader s b _ (by intro _ _ _ h; cases h)]
  obtain ⟨i, tx, ii, htx, hi, hop, hc⟩ := hs
  apply get_commit_all_put
  · intro o ho hk
    rcases txsOps_shape s b wf.toWFAppend o ho with ⟨i', tx', ii', op', c', htx', hi', hop', hc', ho'⟩ |
      ⟨i', tx', out', oi', htx', hout', ho'⟩ | ⟨i', tx', htx', rfl⟩
    · rw [mem_consumeOps] at ho'
      rcases ho' with rfl | rfl | ⟨t, _, rfl | rfl⟩ | rfl | rfl <;> simp [BOp.key] at hk
      subst hk
      rw [hc] at hc'
      cases hc'
      rfl
    · rw [mem_createOps] at ho'
      rcases ho' with rfl | rfl | ⟨t, _, rfl | rfl⟩ | rfl <;> simp [BOp.key] at hk
    · simp [BOp.key] at hk
  · refine ⟨.put (.consumed b.number op) (.cell c), ?_, rfl⟩
    apply consume_mem_txsOps s b wf.toWFAppend i tx ii op c htx hi hop hc
    rw [mem_consumeOps]
    right; right; right; right; rfl

theorem consumed_not_spent (wf : WFRollback s b) (op : OutPoint) (hns : ∀ c, ¬ SpentIn s b op c) :
    get (appendCore s b) (.consumed b.number op) = none := by
  rw [get_appendCore_nonheader s b _ (by intro _ _ _ h; cases h), ← wf.freshConsumed op]
  apply get_commit_untouched
  intro o ho hk
  rcases txsOps_shape s b wf.toWFAppend o ho with ⟨i', tx', ii', op', c', htx', hi', hop', hc', ho'⟩ |
    ⟨i', tx', out', oi', htx', hout', ho'⟩ | ⟨i', tx', htx', rfl⟩
  · rw [mem_consumeOps] at ho'
    rcases ho' with rfl | rfl | ⟨t, _, rfl | rfl⟩ | rfl | rfl <;> simp [BOp.key] at hk
    subst hk
    exact hns c' ⟨i', tx', ii', htx', hi', hop', hc'⟩
  · rw [mem_createOps] at ho'
    rcases ho' with rfl | rfl | ⟨t, _, rfl | rfl⟩ | rfl <;> simp [BOp.key] at hk
  · simp [BOp.key] at hk

/-- TxHash row of a matched transaction after append -/
theorem txHash_matched (wf : WFRollback s b) (i : Nat) (tx : Tx) (htx : b.txs[i]? = some tx)
    (hm : txMatched s b i tx = true) :
    get (appendCore s b) (.txHash tx.id) = some (.inputs tx.inputs) := by
  rw [get_appendCore_nonheader s b _ (by intro _ _ _ h; cases h)]
  apply get_commit_all_put
  · intro o ho hk
    rcases txsOps_shape s b wf.toWFAppend o ho with ⟨i', tx', ii', op', c', htx', hi', hop', hc', ho'⟩ |
      ⟨i', tx', out', oi', htx', hout', ho'⟩ | ⟨i', tx', htx', rfl⟩
    · rw [mem_consumeOps] at ho'
      rcases ho' with rfl | rfl | ⟨t, _, rfl | rfl⟩ | rfl | rfl <;> simp [BOp.key] at hk
    · rw [mem_createOps] at ho'
      rcases ho' with rfl | rfl | ⟨t, _, rfl | rfl⟩ | rfl <;> simp [BOp.key] at hk
    · simp only [BOp.key, Key.txHash.injEq] at hk
      have := wf.idInj i' i tx' tx htx' htx hk
      subst this
      rw [htx] at htx'
      cases htx'
      rfl
  · refine ⟨.put (.txHash tx.id) (.inputs tx.inputs), ?_, rfl⟩
    rw [mem_txsOps]
    exact ⟨tx, i, htx, Or.inr (Or.inr ⟨hm, rfl⟩)⟩

/-- a transaction with an output or a resolved input is matched -/
theorem matched_of_output (i : Nat) (tx : Tx) (oi : Nat) (out : Output) (hout : tx.outputs[oi]? = some out) :
    txMatched s b i tx = true := by
  unfold txMatched
  have : tx.outputs ≠ [] := by
    intro h; rw [h] at hout; cases hout
  cases h : tx.outputs with
  | nil => exact absurd h this
  | cons a r => simp

theorem matched_of_spent (wf : WFAppend s b) (i : Nat) (tx : Tx) (htx : b.txs[i]? = some tx) (hi : i ≠ 0)
    (ii : Nat) (op : OutPoint) (c : Cell) (hop : tx.inputs[ii]? = some op)
    (hc : get s (.outPoint op) = some (.cell c)) : txMatched s b i tx = true := by
  unfold txMatched inputsMatched
  have hmem : op ∈ tx.inputs := List.mem_of_getElem? hop
  have hl : lookupInput s b op = some c :=
    (lookupInput_noSame s b op (wf.noSame i tx htx op hmem) (wf.cellVal op) c).mpr hc
  simp only [Bool.or_eq_true, Bool.and_eq_true, bne_iff_ne, ne_eq, decide_eq_true_eq, List.any_eq_true]
  left
  exact ⟨by simpa using hi, op, hmem, by simp [hl]⟩

end CkbVerif.Indexer

namespace CkbVerif.Indexer

variable {s : Store} {b : Block}

theorem tipRow_cons_header (bn h : Nat) (f : Bool) (l) (rest : Store) (hb : HdrBelow rest bn) :
    tipRow ((Key.header bn h f, Val.txs l) :: rest) = some (bn, h, f, l) := by
  rw [tipRow_eq, headerRows_cons_header]
  simp only [List.foldl_cons, tipStep]
  rw [fold_keep]
  intro r hr
  apply hdrLt_false_of_lt
  exact hb _ (mem_headerRows rest r hr) _ _ _ rfl

theorem filterMap_ite_full {α β : Type} (L : List α) (p : α → Bool) (h : α → β)
    (hlen : (L.filterMap fun x => if p x then some (h x) else none).length = L.length) :
    (∀ x ∈ L, p x = true) ∧ (L.filterMap fun x => if p x then some (h x) else none) = L.map h := by
  induction L with
  | nil => simp
  | cons a r ih =>
    by_cases hp : p a = true
    · simp only [List.filterMap_cons, hp, if_true, List.length_cons, Nat.add_right_cancel_iff] at hlen
      obtain ⟨h1, h2⟩ := ih hlen
      refine ⟨?_, ?_⟩
      · intro x hx
        rcases List.mem_cons.mp hx with rfl | hx
        · exact hp
        · exact h1 x hx
      · simp [List.filterMap_cons, hp, h2]
    · have hle := List.length_filterMap_le (fun x => if p x then some (h x) else none) r
      simp only [List.filterMap_cons, hp, Bool.false_eq_true, if_false, List.length_cons] at hlen
      omega

theorem matchedTxs_eq (s : Store) (b : Block) :
    matchedTxs s b = b.txs.zipIdx.filterMap (fun x =>
      if txMatched s b x.2 x.1 then some (x.1.id, x.1.outputs.length, some x.2) else none) := by
  unfold matchedTxs
  congr 1

/-- the transaction list stored in the Header row -/
def hdrList (s : Store) (b : Block) : List (Nat × Nat × Option Nat) :=
  if (matchedTxs s b).length = b.txs.length then
    (matchedTxs s b).map fun (h, n, _) => (h, n, none)
  else matchedTxs s b

def hdrFlag (s : Store) (b : Block) : Bool :=
  if (matchedTxs s b).length = b.txs.length then false else true

theorem headerOp_eq' (s : Store) (b : Block) :
    headerOp s b = .put (.header b.number b.hash (hdrFlag s b)) (.txs (hdrList s b)) := by
  unfold headerOp hdrFlag hdrList
  dsimp only
  split <;> rfl

/-- every entry of the stored list is a matched transaction of the block, with its index -/
theorem hdrList_sound (s : Store) (b : Block) (pos : Nat) (e : Nat × Nat × Option Nat)
    (he : (hdrList s b)[pos]? = some e) :
    ∃ (i : Nat) (tx : Tx), b.txs[i]? = some tx ∧ txMatched s b i tx = true ∧ e.1 = tx.id ∧
      e.2.1 = tx.outputs.length ∧ e.2.2.getD pos = i := by
  unfold hdrList at he
  split at he
  · rename_i hlen
    rw [matchedTxs_eq] at hlen he
    have hlen' : (b.txs.zipIdx.filterMap (fun x =>
        if txMatched s b x.2 x.1 then some (x.1.id, x.1.outputs.length, some x.2) else none)).length =
        b.txs.zipIdx.length := by rw [hlen, List.length_zipIdx]
    obtain ⟨hall, heq⟩ := filterMap_ite_full _ _ _ hlen'
    rw [heq] at he
    simp only [List.map_map, List.getElem?_map, List.getElem?_zipIdx, Option.map_map] at he
    cases htx : b.txs[pos]? with
    | none => simp [htx] at he
    | some tx =>
      simp only [htx, Option.map_some, Option.some.injEq] at he
      subst he
      refine ⟨pos, tx, htx, ?_, rfl, rfl, by simp⟩
      have : (tx, pos) ∈ b.txs.zipIdx := by rw [List.mem_zipIdx_iff_getElem?]; exact htx
      exact hall _ this
  · rw [matchedTxs_eq] at he
    have hmem := List.mem_of_getElem? he
    rw [List.mem_filterMap] at hmem
    obtain ⟨x, hx, hxe⟩ := hmem
    rw [List.mem_zipIdx_iff_getElem?] at hx
    split at hxe
    · rename_i hm
      cases hxe
      exact ⟨x.2, x.1, hx, hm, rfl, rfl, rfl⟩
    · cases hxe

/-- every matched transaction of the block has an entry -/
theorem hdrList_complete (s : Store) (b : Block) (i : Nat) (tx : Tx) (htx : b.txs[i]? = some tx)
    (hm : txMatched s b i tx = true) :
    ∃ (pos : Nat) (e : Nat × Nat × Option Nat), (hdrList s b)[pos]? = some e ∧ e.1 = tx.id ∧
      e.2.1 = tx.outputs.length ∧ e.2.2.getD pos = i := by
  unfold hdrList
  split
  · rename_i hlen
    rw [matchedTxs_eq] at hlen ⊢
    have hlen' : (b.txs.zipIdx.filterMap (fun x =>
        if txMatched s b x.2 x.1 then some (x.1.id, x.1.outputs.length, some x.2) else none)).length =
        b.txs.zipIdx.length := by rw [hlen, List.length_zipIdx]
    obtain ⟨_, heq⟩ := filterMap_ite_full _ _ _ hlen'
    rw [heq]
    refine ⟨i, (tx.id, tx.outputs.length, none), ?_, rfl, rfl, by simp⟩
    simp [List.getElem?_zipIdx, htx]
  · rw [matchedTxs_eq]
    have hmem : (tx.id, tx.outputs.length, some i) ∈ b.txs.zipIdx.filterMap (fun x =>
        if txMatched s b x.2 x.1 then some (x.1.id, x.1.outputs.length, some x.2) else none) := by
      rw [List.mem_filterMap]
      refine ⟨(tx, i), by rw [List.mem_zipIdx_iff_getElem?]; exact htx, ?_⟩
      simp [hm]
    obtain ⟨pos, hpos⟩ := List.mem_iff_getElem?.mp hmem
    exact ⟨pos, _, hpos, rfl, rfl, rfl⟩

end CkbVerif.Indexer

namespace CkbVerif.Indexer

variable {s : Store} {b : Block}

def uncreateOps (bn txi id oi : Nat) (o : Output) : List BOp :=
  [.del (.cellLock o.lock bn txi oi), .del (.txLock o.lock bn txi oi .output)] ++
  (match o.type with
   | some t => [.del (.cellType t bn txi oi), .del (.txType t bn txi oi .output)]
   | none => []) ++
  [.del (.outPoint ⟨id, oi⟩)]

def unconsumeOps (bn txi ii : Nat) (op : OutPoint) (c : Cell) : List BOp :=
  [.put (.cellLock c.out.lock c.bn c.txIdx op.idx) (.tx op.tx),
   .del (.txLock c.out.lock bn txi ii .input)] ++
  (match c.out.type with
   | some t => [.put (.cellType t c.bn c.txIdx op.idx) (.tx op.tx), .del (.txType t bn txi ii .input)]
   | none => []) ++
  [.put (.outPoint op) (.cell c)]

theorem mem_uncreateOps (bn txi id oi : Nat) (out : Output) (o : BOp) :
    o ∈ uncreateOps bn txi id oi out ↔
      (o = .del (.cellLock out.lock bn txi oi) ∨ o = .del (.txLock out.lock bn txi oi .output) ∨
       (∃ t, out.type = some t ∧ (o = .del (.cellType t bn txi oi) ∨ o = .del (.txType t bn txi oi .output))) ∨
       o = .del (.outPoint ⟨id, oi⟩)) := by
  unfold uncreateOps
  cases h : out.type <;> simp <;> grind

theorem mem_unconsumeOps (bn txi ii : Nat) (op : OutPoint) (c : Cell) (o : BOp) :
    o ∈ unconsumeOps bn txi ii op c ↔
      (o = .put (.cellLock c.out.lock c.bn c.txIdx op.idx) (.tx op.tx) ∨
       o = .del (.txLock c.out.lock bn txi ii .input) ∨
       (∃ t, c.out.type = some t ∧ (o = .put (.cellType t c.bn c.txIdx op.idx) (.tx op.tx) ∨
          o = .del (.txType t bn txi ii .input))) ∨
       o = .put (.outPoint op) (.cell c)) := by
  unfold unconsumeOps
  cases h : c.out.type <;> simp <;> grind

theorem rbOutputOps_live (σ : Store) (bn txi id oi : Nat) (c : Cell)
    (h : get σ (.outPoint ⟨id, oi⟩) = some (.cell c)) :
    rbOutputOps σ bn txi id oi = uncreateOps bn txi id oi c.out := by
  unfold rbOutputOps uncreateOps
  simp only [h]
  rfl

theorem rbInputOps_consumed (σ : Store) (bn txi ii : Nat) (op : OutPoint) (c : Cell)
    (h : get σ (.consumed bn op) = some (.cell c)) :
    rbInputOps σ bn txi ii op = unconsumeOps bn txi ii op c := by
  unfold rbInputOps unconsumeOps
  simp only [h]
  rfl

theorem rbInputOps_none (σ : Store) (bn txi ii : Nat) (op : OutPoint)
    (h : get σ (.consumed bn op) = none) : rbInputOps σ bn txi ii op = [] := by
  unfold rbInputOps
  simp only [h]

/-- the per-transaction part of the rollback batch, with the entry's fields spelled out -/
def rbTxOpsCore (σ : Store) (bn txId txIndex n : Nat) : List BOp :=
  ((List.range n).flatMap fun oi => rbOutputOps σ bn txIndex txId oi) ++
  (if txIndex = 0 then [] else
    match get σ (.txHash txId) with
    | some (.inputs l) => l.zipIdx.flatMap fun (op, ii) => rbInputOps σ bn txIndex ii op
    | _ => []) ++
  [.del (.txHash txId)]

theorem rbTxOps_eq (σ : Store) (bn pos : Nat) (e : Nat × Nat × Option Nat) :
    rbTxOps σ bn pos e = rbTxOpsCore σ bn e.1 (e.2.2.getD pos) e.2.1 := rfl

theorem mem_rbTxOpsCore (wf : WFRollback s b) (i : Nat) (tx : Tx) (htx : b.txs[i]? = some tx)
    (hm : txMatched s b i tx = true) (o : BOp) :
    o ∈ rbTxOpsCore (appendCore s b) b.number tx.id i tx.outputs.length ↔
      ((∃ (oi : Nat) (out : Output), tx.outputs[oi]? = some out ∧ o ∈ uncreateOps b.number i tx.id oi out) ∨
       (i ≠ 0 ∧ ∃ (ii : Nat) (op : OutPoint) (c : Cell), tx.inputs[ii]? = some op ∧
          get s (.outPoint op) = some (.cell c) ∧ o ∈ unconsumeOps b.number i ii op c) ∨
       o = .del (.txHash tx.id)) := by
  unfold rbTxOpsCore
  rw [txHash_matched wf i tx htx hm]
  simp only [List.mem_append, List.mem_flatMap, List.mem_range, List.mem_singleton]
  have hout : ∀ oi, (∃ out, tx.outputs[oi]? = some out) ↔ oi < tx.outputs.length := by
    intro oi
    constructor
    · rintro ⟨out, h⟩; exact (List.getElem?_eq_some_iff.mp h).1
    · intro h; exact ⟨tx.outputs[oi], List.getElem?_eq_some_iff.mpr ⟨h, rfl⟩⟩
  have hlive : ∀ oi out, tx.outputs[oi]? = some out →
      rbOutputOps (appendCore s b) b.number i tx.id oi = uncreateOps b.number i tx.id oi out := by
    intro oi out h
    exact rbOutputOps_live _ _ _ _ _ ⟨b.number, i, out⟩
      (outPoint_created s b wf.toWFAppend ⟨tx.id, oi⟩ _ ⟨i, tx, out, htx, rfl, h, rfl⟩)
  have hin : ∀ ii op, tx.inputs[ii]? = some op → i ≠ 0 → ∀ o,
      (o ∈ rbInputOps (appendCore s b) b.number i ii op ↔
        ∃ c, get s (.outPoint op) = some (.cell c) ∧ o ∈ unconsumeOps b.number i ii op c) := by
    intro ii op hop hi o
    by_cases hsp : ∃ c, get s (.outPoint op) = some (.cell c)
    · obtain ⟨c, hc⟩ := hsp
      rw [rbInputOps_consumed _ _ _ _ _ c (consumed_spent wf op c ⟨i, tx, ii, htx, hi, hop, hc⟩)]
      constructor
      · intro h; exact ⟨c, hc, h⟩
      · rintro ⟨c', hc', h⟩
        rw [hc] at hc'; cases hc'; exact h
    · rw [rbInputOps_none _ _ _ _ _ (consumed_not_spent wf op (by
        rintro c ⟨_, _, _, _, _, _, hc⟩; exact hsp ⟨c, hc⟩))]
      constructor
      · intro h; cases h
      · rintro ⟨c, hc, _⟩; exact absurd ⟨c, hc⟩ hsp
  constructor
  · rintro ((⟨oi, hlt, ho⟩ | ho) | ho)
    · obtain ⟨out, hout'⟩ := (hout oi).mpr hlt
      rw [hlive oi out hout'] at ho
      exact Or.inl ⟨oi, out, hout', ho⟩
    · by_cases hi : i = 0
      · simp [hi] at ho
      · simp only [hi, if_false, List.mem_flatMap] at ho
        obtain ⟨⟨op, ii⟩, hmem, ho⟩ := ho
        rw [List.mem_zipIdx_iff_getElem?] at hmem
        obtain ⟨c, hc, ho⟩ := (hin ii op hmem hi o).mp ho
        exact Or.inr (Or.inl ⟨hi, ii, op, c, hmem, hc, ho⟩)
    · exact Or.inr (Or.inr ho)
  · rintro (⟨oi, out, hout', ho⟩ | ⟨hi, ii, op, c, hop, hc, ho⟩ | ho)
    · left; left
      refine ⟨oi, (hout oi).mp ⟨out, hout'⟩, ?_⟩
      rw [hlive oi out hout']
      exact ho
    · left; right
      simp only [hi, if_false, List.mem_flatMap]
      refine ⟨(op, ii), by rw [List.mem_zipIdx_iff_getElem?]; exact hop, ?_⟩
      exact (hin ii op hop hi o).mpr ⟨c, hc, ho⟩
    · right; exact ho

end CkbVerif.Indexer

namespace CkbVerif.Indexer

variable {s : Store} {b : Block}

/-- the per-transaction part of the rollback batch of `appendCore s b` -/
def Rtx (s : Store) (b : Block) : List BOp :=
  (hdrList s b).zipIdx.reverse.flatMap fun (e, pos) => rbTxOps (appendCore s b) b.number pos e

theorem appendCore_eq' (s : Store) (b : Block) :
    appendCore s b = (Key.header b.number b.hash (hdrFlag s b), Val.txs (hdrList s b)) ::
      del (commit s (txsOps s b)) (Key.header b.number b.hash (hdrFlag s b)) := by
  unfold appendCore
  rw [appendOps_eq, commit_append, headerOp_eq']
  rfl

theorem hdrBelow_rest (wf : WFRollback s b) (k : Key) :
    HdrBelow (del (commit s (txsOps s b)) k) b.number := by
  intro e he bn h f hk
  have he1 := (List.mem_filter.mp he).1
  rcases mem_commit _ _ _ he1 with h1 | h1
  · exact wf.hdrBelow e h1 bn h f hk
  · have := txsOps_ok s b _ h1
    simp [BOp.key, hk, appendKeyOk] at this

theorem rollbackOps_append (wf : WFRollback s b) :
    rollbackOps (appendCore s b) = Rtx s b ++ [.del (.header b.number b.hash (hdrFlag s b))] := by
  unfold rollbackOps
  have : tipRow (appendCore s b) = some (b.number, b.hash, hdrFlag s b, hdrList s b) := by
    rw [appendCore_eq']
    exact tipRow_cons_header _ _ _ _ _ (hdrBelow_rest wf _)
  rw [this]
  rfl

/-- the shapes of the entries of the rollback batch -/
theorem mem_Rtx (wf : WFRollback s b) (o : BOp) :
    o ∈ Rtx s b ↔ ∃ (i : Nat) (tx : Tx), b.txs[i]? = some tx ∧ txMatched s b i tx = true ∧
      ((∃ (oi : Nat) (out : Output), tx.outputs[oi]? = some out ∧ o ∈ uncreateOps b.number i tx.id oi out) ∨
       (i ≠ 0 ∧ ∃ (ii : Nat) (op : OutPoint) (c : Cell), tx.inputs[ii]? = some op ∧
          get s (.outPoint op) = some (.cell c) ∧ o ∈ unconsumeOps b.number i ii op c) ∨
       o = .del (.txHash tx.id)) := by
  unfold Rtx
  simp only [List.mem_flatMap]
  constructor
  · rintro ⟨⟨e, pos⟩, hmem, ho⟩
    rw [List.mem_reverse, List.mem_zipIdx_iff_getElem?] at hmem
    obtain ⟨i, tx, htx, hm, h1, h2, h3⟩ := hdrList_sound s b pos e hmem
    simp only at ho
    rw [rbTxOps_eq, h1, h2, h3] at ho
    exact ⟨i, tx, htx, hm, (mem_rbTxOpsCore wf i tx htx hm o).mp ho⟩
  · rintro ⟨i, tx, htx, hm, ho⟩
    obtain ⟨pos, e, hpos, h1, h2, h3⟩ := hdrList_complete s b i tx htx hm
    refine ⟨(e, pos), by rw [List.mem_reverse, List.mem_zipIdx_iff_getElem?]; exact hpos, ?_⟩
    simp only
    rw [rbTxOps_eq, h1, h2, h3]
    exact (mem_rbTxOpsCore wf i tx htx hm o).mpr ho

theorem uncreate_mem_Rtx (wf : WFRollback s b) (i : Nat) (tx : Tx) (oi : Nat) (out : Output)
    (htx : b.txs[i]? = some tx) (hout : tx.outputs[oi]? = some out) (o : BOp)
    (ho : o ∈ uncreateOps b.number i tx.id oi out) : o ∈ Rtx s b :=
  (mem_Rtx wf o).mpr ⟨i, tx, htx, matched_of_output i tx oi out hout, Or.inl ⟨oi, out, hout, ho⟩⟩

theorem unconsume_mem_Rtx (wf : WFRollback s b) (i : Nat) (tx : Tx) (ii : Nat) (op : OutPoint) (c : Cell)
    (htx : b.txs[i]? = some tx) (hi : i ≠ 0) (hop : tx.inputs[ii]? = some op)
    (hc : get s (.outPoint op) = some (.cell c)) (o : BOp)
    (ho : o ∈ unconsumeOps b.number i ii op c) : o ∈ Rtx s b :=
  (mem_Rtx wf o).mpr ⟨i, tx, htx, matched_of_spent wf.toWFAppend i tx htx hi ii op c hop hc,
    Or.inr (Or.inl ⟨hi, ii, op, c, hop, hc, ho⟩)⟩

/-- a non-Header key after `rollback (appendCore s b)` is decided by `Rtx` over the appended store -/
theorem get_rollback_nonheader (wf : WFRollback s b) (k : Key) (hk : ∀ bn h f, k ≠ .header bn h f) :
    get (rollback (appendCore s b)) k = get (commit (appendCore s b) (Rtx s b)) k := by
  unfold rollback
  rw [rollbackOps_append wf, commit_append]
  show get (applyOp (commit (appendCore s b) (Rtx s b)) (.del (.header b.number b.hash (hdrFlag s b)))) k = _
  apply get_applyOp_other
  simp only [BOp.key]
  exact fun heq => hk _ _ _ heq.symm

end CkbVerif.Indexer
