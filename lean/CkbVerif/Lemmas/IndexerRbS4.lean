import CkbVerif.Lemmas.IndexerRbS3

/-! `rollback (appendCore s b)` restores the Tx*Script / TxHash / Header rows, same-block spends
included (these families are order-free: append only puts, rollback only deletes). Generated from the
proofs in IndexerRollback2/3.lean. (C18) -/
namespace CkbVerif.Indexer

variable {s : Store} {b : Block}

/-- TxLockScript rows (transaction history by lock script) are restored -/
theorem rb_txLock2 (wf : WFRollback2 s b) (sc : Script) (bn txi io : Nat) (t : IoType) :
    get (rollback (appendCore s b)) (.txLock sc bn txi io t) = get s (.txLock sc bn txi io t) := by
  rw [get_rollback_nonheader2 wf _ (by intro _ _ _ h; cases h)]
  have hdels : ∀ o ∈ Rtx s b, o.key = .txLock sc bn txi io t → o = .del (.txLock sc bn txi io t) ∧ bn = b.number := by
    intro o ho hk
    obtain ⟨i', tx', htx', hm', ho⟩ := (mem_Rtx2 wf o).mp ho
    rcases ho with ⟨oi, out', hout', ho⟩ | ⟨hi', ii', op', c', hop', hc', ho⟩ | rfl
    · rw [mem_uncreateOps] at ho
      rcases ho with rfl | rfl | ⟨t', _, rfl | rfl⟩ | rfl <;> simp [BOp.key] at hk
      simp [hk]
    · rw [mem_unconsumeOps] at ho
      rcases ho with rfl | rfl | ⟨t', _, rfl | rfl⟩ | rfl <;> simp [BOp.key] at hk
      simp [hk]
    · simp [BOp.key] at hk
  rw [get_commit_dels _ _ _ (fun o ho hk => (hdels o ho hk).1)]
  split
  · rename_i htouched
    obtain ⟨o, ho, hk⟩ := htouched
    have hb := (hdels o ho hk).2
    subst hb
    rw [wf.freshTxLock]
  · rename_i hnot
    rw [get_appendCore_from0 _ (by intro _ _ _ h; cases h)]
    apply get_commit_untouched
    intro o ho hk
    apply hnot
    rcases txsOpsFrom_shape wf.toWFAppend2 0 o ho with ⟨i', tx', ii', op', c', _, htx', hi', hop', hc', ho'⟩ |
      ⟨i', tx', out', oi', _, htx', hout', ho'⟩ | ⟨i', tx', _, htx', rfl⟩
    · rw [mem_consumeOps] at ho'
      rcases ho' with rfl | rfl | ⟨t', _, rfl | rfl⟩ | rfl | rfl <;> simp [BOp.key] at hk
      refine ⟨.del (.txLock c'.out.lock b.number i' ii' .input), ?_, by simp [BOp.key, hk]⟩
      apply unconsume_mem_Rtx2 wf i' tx' ii' op' c' htx' hi' hop' hc'
      rw [mem_unconsumeOps]
      right; left; rfl
    · rw [mem_createOps] at ho'
      rcases ho' with rfl | rfl | ⟨t', _, rfl | rfl⟩ | rfl <;> simp [BOp.key] at hk
      refine ⟨.del (.txLock out'.lock b.number i' oi' .output), ?_, by simp [BOp.key, hk]⟩
      apply uncreate_mem_Rtx2 wf i' tx' oi' out' htx' hout'
      rw [mem_uncreateOps]
      right; left; rfl
    · simp [BOp.key] at hk

/-- TxHash rows are restored -/
theorem rb_txHash2 (wf : WFRollback2 s b) (id : Nat) :
    get (rollback (appendCore s b)) (.txHash id) = get s (.txHash id) := by
  rw [get_rollback_nonheader2 wf _ (by intro _ _ _ h; cases h)]
  have hdels : ∀ o ∈ Rtx s b, o.key = .txHash id → o = .del (.txHash id) ∧ ∃ tx ∈ b.txs, tx.id = id := by
    intro o ho hk
    obtain ⟨i', tx', htx', hm', ho⟩ := (mem_Rtx2 wf o).mp ho
    rcases ho with ⟨oi, out', hout', ho⟩ | ⟨hi', ii', op', c', hop', hc', ho⟩ | rfl
    · rw [mem_uncreateOps] at ho
      rcases ho with rfl | rfl | ⟨t', _, rfl | rfl⟩ | rfl <;> simp [BOp.key] at hk
    · rw [mem_unconsumeOps] at ho
      rcases ho with rfl | rfl | ⟨t', _, rfl | rfl⟩ | rfl <;> simp [BOp.key] at hk
    · simp only [BOp.key, Key.txHash.injEq] at hk
      subst hk
      exact ⟨rfl, tx', List.mem_of_getElem? htx', rfl⟩
  rw [get_commit_dels _ _ _ (fun o ho hk => (hdels o ho hk).1)]
  split
  · rename_i htouched
    obtain ⟨o, ho, hk⟩ := htouched
    obtain ⟨_, tx, htx, hid⟩ := hdels o ho hk
    subst hid
    rw [wf.freshTx tx htx]
  · rename_i hnot
    rw [get_appendCore_nonheader s b _ (by intro _ _ _ h; cases h)]
    apply get_commit_untouched
    intro o ho hk
    apply hnot
    rw [mem_txsOps] at ho
    obtain ⟨tx, i, htx, ho⟩ := ho
    rcases ho with ho | ho | ⟨hm, rfl⟩
    · rw [mem_inputsOps] at ho
      obtain ⟨_, op, ii, c, _, _, ho⟩ := ho
      rw [mem_consumeOps] at ho
      rcases ho with rfl | rfl | ⟨t', _, rfl | rfl⟩ | rfl | rfl <;> simp [BOp.key] at hk
    · rw [mem_outputsOps] at ho
      obtain ⟨out, oi, _, ho⟩ := ho
      rw [mem_createOps] at ho
      rcases ho with rfl | rfl | ⟨t', _, rfl | rfl⟩ | rfl <;> simp [BOp.key] at hk
    · simp only [BOp.key, Key.txHash.injEq] at hk
      refine ⟨.del (.txHash tx.id), ?_, by simp [BOp.key, hk]⟩
      exact (mem_Rtx2 wf _).mpr ⟨i, tx, htx, hm, Or.inr (Or.inr rfl)⟩

/-- Header rows are restored: the appended block's row disappears, all others are untouched -/
theorem rb_header2 (wf : WFRollback2 s b) (bn h : Nat) (f : Bool) :
    get (rollback (appendCore s b)) (.header bn h f) = get s (.header bn h f) := by
  have hRtx : ∀ o ∈ Rtx s b, o.key ≠ .header bn h f := by
    intro o ho hk
    obtain ⟨i', tx', htx', hm', ho⟩ := (mem_Rtx2 wf o).mp ho
    rcases ho with ⟨oi, out', hout', ho⟩ | ⟨hi', ii', op', c', hop', hc', ho⟩ | rfl
    · rw [mem_uncreateOps] at ho
      rcases ho with rfl | rfl | ⟨t', _, rfl | rfl⟩ | rfl <;> simp [BOp.key] at hk
    · rw [mem_unconsumeOps] at ho
      rcases ho with rfl | rfl | ⟨t', _, rfl | rfl⟩ | rfl <;> simp [BOp.key] at hk
    · simp [BOp.key] at hk
  have hs_none : ∀ f', get s (.header b.number b.hash f') = none := by
    intro f'
    apply get_none_of
    intro e he heq
    have := wf.hdrBelow e he _ _ _ heq
    omega
  have hA : ∀ k', (∃ bn' h' f', k' = Key.header bn' h' f') → get (commit s (txsOps s b)) k' = get s k' := by
    rintro k' ⟨bn', h', f', rfl⟩
    apply get_commit_untouched
    intro o ho hk
    have := txsOps_ok s b o ho
    rw [hk] at this
    simp [appendKeyOk] at this
  unfold rollback
  rw [rollbackOps_append2 wf, commit_append]
  by_cases hk : Key.header b.number b.hash (hdrFlag s b) = Key.header bn h f
  · rw [← hk]
    show get (applyOp _ (.del _)) _ = _
    rw [get_applyOp_del, hs_none]
  · show get (applyOp (commit (appendCore s b) (Rtx s b)) (.del (.header b.number b.hash (hdrFlag s b)))) _ = _
    rw [get_applyOp_other _ _ _ (by simpa [BOp.key] using hk), get_commit_untouched _ _ _ hRtx,
      appendCore_eq', get_cons]
    simp only [hk, if_false]
    rw [get_del_other _ _ _ hk]
    exact hA _ ⟨_, _, _, rfl⟩

/-- TxTypeScript rows (transaction history by type script) are restored -/
theorem rb_txType2 (wf : WFRollback2 s b) (sc : Script) (bn txi io : Nat) (t : IoType) :
    get (rollback (appendCore s b)) (.txType sc bn txi io t) = get s (.txType sc bn txi io t) := by
  have wf' := wf
  rw [get_rollback_nonheader2 wf' _ (by intro _ _ _ h; cases h)]
  have hdels : ∀ o ∈ Rtx s b, o.key = .txType sc bn txi io t → o = .del (.txType sc bn txi io t) ∧ bn = b.number := by
    intro o ho hk
    obtain ⟨i', tx', htx', hm', ho⟩ := (mem_Rtx2 wf' o).mp ho
    rcases ho with ⟨oi, out', hout', ho⟩ | ⟨hi', ii', op', c', hop', hc', ho⟩ | rfl
    · rw [mem_uncreateOps] at ho
      rcases ho with rfl | rfl | ⟨t', _, rfl | rfl⟩ | rfl <;> simp [BOp.key] at hk
      simp [hk]
    · rw [mem_unconsumeOps] at ho
      rcases ho with rfl | rfl | ⟨t', _, rfl | rfl⟩ | rfl <;> simp [BOp.key] at hk
      simp [hk]
    · simp [BOp.key] at hk
  rw [get_commit_dels _ _ _ (fun o ho hk => (hdels o ho hk).1)]
  split
  · rename_i htouched
    obtain ⟨o, ho, hk⟩ := htouched
    have hb := (hdels o ho hk).2
    subst hb
    rw [wf.freshTxType]
  · rename_i hnot
    rw [get_appendCore_from0 _ (by intro _ _ _ h; cases h)]
    apply get_commit_untouched
    intro o ho hk
    apply hnot
    rcases txsOpsFrom_shape wf.toWFAppend2 0 o ho with ⟨i', tx', ii', op', c', _, htx', hi', hop', hc', ho'⟩ |
      ⟨i', tx', out', oi', _, htx', hout', ho'⟩ | ⟨i', tx', _, htx', rfl⟩
    · rw [mem_consumeOps] at ho'
      rcases ho' with rfl | rfl | ⟨t', ht', rfl | rfl⟩ | rfl | rfl <;> simp [BOp.key] at hk
      refine ⟨.del (.txType t' b.number i' ii' .input), ?_, by simp [BOp.key, hk]⟩
      apply unconsume_mem_Rtx2 wf' i' tx' ii' op' c' htx' hi' hop' hc'
      rw [mem_unconsumeOps]
      right; right; left
      exact ⟨t', ht', Or.inr rfl⟩
    · rw [mem_createOps] at ho'
      rcases ho' with rfl | rfl | ⟨t', ht', rfl | rfl⟩ | rfl <;> simp [BOp.key] at hk
      refine ⟨.del (.txType t' b.number i' oi' .output), ?_, by simp [BOp.key, hk]⟩
      apply uncreate_mem_Rtx2 wf' i' tx' oi' out' htx' hout'
      rw [mem_uncreateOps]
      right; right; left
      exact ⟨t', ht', Or.inr rfl⟩
    · simp [BOp.key] at hk

end CkbVerif.Indexer
