import CkbVerif.Lemmas.HashProofSort
import CkbVerif.Lemmas.HashCbmtArray
/-!
# CBMT proofs (C15): `build_merkle_tree` is the array tree; `build_proof` and `root` run in lock step

* `buildTree_getD`: the fold of `build_merkle_tree` fills `nodes[i] = nodeAt i` (the array-form tree of
  `Lemmas/HashCbmtArray.lean`, whose node 0 is `build_merkle_root`).
* `QInv`: the queue invariant of both loops (strictly descending, inside the array, `max ≤ 2·min`: the parent of
  the front is smaller than everything else in the queue).
* `loops_agree`: on a queue with the invariant the lemma list `build_proof` pushes is consumed by `root` to exactly
  `nodes[0]`, with no lemma left, the queue empty at the root, no entry dropped.
-/
namespace CkbVerif.Hash

section tree
variable {α : Type} (merge : α → α → α) (zero : α) (leaves : List α)

/-- the partial fold of `build_merkle_tree`: inner nodes `k .. m-1` are filled -/
def fillFrom (m : Nat) (init : List α) (k : Nat) : List α :=
  ((List.range (m - k)).map (· + k)).foldr
    (fun i nodes => nodes.set i (merge (nodes.getD (2 * i + 1) zero) (nodes.getD (2 * i + 2) zero))) init

theorem fillFrom_zero (m : Nat) (init : List α) :
    fillFrom merge zero m init 0 =
      (List.range m).foldr (fun i nodes => nodes.set i (merge (nodes.getD (2 * i + 1) zero) (nodes.getD (2 * i + 2) zero))) init := by
  unfold fillFrom
  simp

theorem fillFrom_step (m : Nat) (init : List α) (k : Nat) (hk : k < m) :
    fillFrom merge zero m init k =
      (fillFrom merge zero m init (k + 1)).set k
        (merge ((fillFrom merge zero m init (k + 1)).getD (2 * k + 1) zero) ((fillFrom merge zero m init (k + 1)).getD (2 * k + 2) zero)) := by
  unfold fillFrom
  have e : m - k = (m - (k + 1)) + 1 := by omega
  rw [e, List.range_succ_eq_map, List.map_cons, List.map_map, List.foldr_cons]
  have e2 : (List.map ((fun x => x + k) ∘ Nat.succ) (List.range (m - (k + 1)))) = List.map (fun x => x + (k + 1)) (List.range (m - (k + 1))) := by
    apply List.map_congr_left
    intro a _
    simp only [Function.comp]
    omega
  rw [e2]
  simp

theorem fillFrom_length (m : Nat) (init : List α) : ∀ (d k : Nat), m - k = d → (fillFrom merge zero m init k).length = init.length
  | 0, k, h => by
    unfold fillFrom
    rw [h]; simp
  | d + 1, k, h => by
    rw [fillFrom_step merge zero m init k (by omega), List.length_set]
    exact fillFrom_length m init d (k + 1) (by omega)

/-- after filling down to `k` every node `i ≥ k` is the array-tree node -/
theorem fillFrom_getD (hne : leaves ≠ []) :
    ∀ (d k : Nat), (leaves.length - 1) - k = d → k ≤ leaves.length - 1 → ∀ i, k ≤ i → i < 2 * leaves.length - 1 →
      (fillFrom merge zero (leaves.length - 1) (List.replicate (leaves.length - 1) zero ++ leaves) k).getD i zero
        = nodeAt merge zero leaves i
  | 0, k, h, hk, i, hki, hi => by
    have hkm : k = leaves.length - 1 := by omega
    unfold fillFrom
    rw [hkm]
    simp only [Nat.sub_self, List.range_zero, List.map_nil, List.foldr_nil]
    rw [nodeAt_leaf merge zero leaves i (by omega)]
    rw [List.getD_eq_getElem?_getD, List.getD_eq_getElem?_getD, List.getElem?_append_right (by simp; omega)]
    simp
  | d + 1, k, h, hk, i, hki, hi => by
    have hlen : (fillFrom merge zero (leaves.length - 1) (List.replicate (leaves.length - 1) zero ++ leaves) (k + 1)).length
        = 2 * leaves.length - 1 := by
      rw [fillFrom_length merge zero _ _ _ (k + 1) rfl]
      have : 0 < leaves.length := List.length_pos_iff.mpr hne
      simp; omega
    rw [fillFrom_step merge zero _ _ k (by omega)]
    by_cases hik : i = k
    · subst hik
      rw [List.getD_eq_getElem?_getD, List.getElem?_set_self (by omega)]
      simp only [Option.getD_some]
      rw [nodeAt_inner merge zero leaves i (by omega)]
      rw [fillFrom_getD hne d (i + 1) (by omega) (by omega) (2 * i + 1) (by omega) (by omega)]
      rw [fillFrom_getD hne d (i + 1) (by omega) (by omega) (2 * i + 2) (by omega) (by omega)]
    · rw [List.getD_eq_getElem?_getD, List.getElem?_set_ne (by omega), ← List.getD_eq_getElem?_getD]
      exact fillFrom_getD hne d (k + 1) (by omega) (by omega) i (by omega) hi

theorem buildTree_eq_fill (hne : leaves ≠ []) :
    buildTree merge zero leaves = fillFrom merge zero (leaves.length - 1) (List.replicate (leaves.length - 1) zero ++ leaves) 0 := by
  unfold buildTree
  have : leaves.isEmpty = false := by cases leaves <;> simp_all
  rw [this, fillFrom_zero]
  rfl

theorem buildTree_length (hne : leaves ≠ []) : (buildTree merge zero leaves).length = 2 * leaves.length - 1 := by
  rw [buildTree_eq_fill merge zero leaves hne, fillFrom_length merge zero _ _ _ 0 rfl]
  have : 0 < leaves.length := List.length_pos_iff.mpr hne
  simp; omega

/-- `build_merkle_tree(leaves).nodes()[i]` is node `i` of the array-form complete binary merkle tree -/
theorem buildTree_getD (hne : leaves ≠ []) (i : Nat) (hi : i < 2 * leaves.length - 1) :
    (buildTree merge zero leaves).getD i zero = nodeAt merge zero leaves i := by
  rw [buildTree_eq_fill merge zero leaves hne]
  exact fillFrom_getD merge zero leaves hne _ 0 rfl (by omega) i (by omega) hi

end tree

/-! ## the queue invariant -/

/-- strictly descending, positive, inside the node array of a tree with `m` inner nodes (`m+1` leaves), and the front
is at most twice any other entry -/
def QInv (m : Nat) (q : List Nat) : Prop :=
  q.Pairwise (· > ·) ∧ (∀ a ∈ q, 0 < a ∧ a ≤ 2 * m) ∧ (∀ a ∈ q, ∀ b ∈ q, a ≤ 2 * b)

theorem QInv.tail {m h : Nat} {rest : List Nat} (hq : QInv m (h :: rest)) : QInv m rest := by
  obtain ⟨h1, h2, h3⟩ := hq
  exact ⟨(List.pairwise_cons.mp h1).2, fun a ha => h2 a (List.mem_cons_of_mem _ ha),
    fun a ha b hb => h3 a (List.mem_cons_of_mem _ ha) b (List.mem_cons_of_mem _ hb)⟩

/-- the queue after one iteration on front `h`: the sibling leaves when it is next, the parent enters at the back -/
theorem QInv.step {m h : Nat} {rest : List Nat} (hq : QInv m (h :: rest)) (hp : tParent h ≠ 0) :
    (rest.head? = some (tSibling h) → QInv m (rest.tail ++ [tParent h])) ∧
    (rest.head? ≠ some (tSibling h) → QInv m (rest ++ [tParent h])) := by
  obtain ⟨h1, h2, h3⟩ := hq
  have hh := h2 h (by simp)
  have hsib := tSibling_eq h (by omega)
  have hpar := tParent_eq h
  rw [List.pairwise_cons] at h1
  have key : ∀ (r : List Nat), (∀ a ∈ r, a ∈ rest) → r.Pairwise (· > ·) → (∀ a ∈ r, a ≤ 2 * tParent h) →
      QInv m (r ++ [tParent h]) := by
    intro r hr hrp hr2
    refine ⟨?_, ?_, ?_⟩
    · rw [List.pairwise_append]
      refine ⟨hrp, by simp, ?_⟩
      intro a ha b hb
      simp only [List.mem_singleton] at hb
      subst hb
      have := h3 h (by simp) a (List.mem_cons_of_mem _ (hr a ha))
      omega
    · intro a ha
      rcases List.mem_append.mp ha with ha | ha
      · exact h2 a (List.mem_cons_of_mem _ (hr a ha))
      · simp only [List.mem_singleton] at ha
        subst ha
        omega
    · intro a ha b hb
      rcases List.mem_append.mp ha with ha | ha <;> rcases List.mem_append.mp hb with hb | hb
      · exact h3 a (List.mem_cons_of_mem _ (hr a ha)) b (List.mem_cons_of_mem _ (hr b hb))
      · simp only [List.mem_singleton] at hb
        subst hb
        exact hr2 a ha
      · simp only [List.mem_singleton] at ha
        subst ha
        have := h3 h (by simp) b (List.mem_cons_of_mem _ (hr b hb))
        omega
      · simp only [List.mem_singleton] at ha hb
        subst ha hb
        omega
  constructor
  · intro hhead
    cases rest with
    | nil => simp at hhead
    | cons s rest' =>
      simp only [List.head?_cons, Option.some.injEq] at hhead
      simp only [List.tail_cons]
      have hs := h1.1 s (by simp)
      rw [List.pairwise_cons] at h1
      apply key rest' (fun a ha => List.mem_cons_of_mem _ ha) h1.2.2
      intro a ha
      have h4 := h1.2.1 a ha
      split at hsib <;> omega
  · intro hhead
    apply key rest (fun a ha => ha) h1.2
    intro a ha
    have hlt := h1.1 a ha
    by_cases hodd : h % 2 = 1
    · omega
    · -- `h` even: the sibling `h-1` is not in `rest` (it would be its head)
      rw [if_neg hodd] at hsib
      cases rest with
      | nil => simp at ha
      | cons s rest' =>
        simp only [List.head?_cons, ne_eq, Option.some.injEq] at hhead
        have hs := h1.1 s (by simp)
        have hsa : a ≤ s := by
          rcases List.mem_cons.mp ha with rfl | ha'
          · exact Nat.le_refl _
          · have := (List.pairwise_cons.mp h1.2).1 a ha'
            omega
        omega

/-- when the parent of the front is the root, nothing but (possibly) the sibling is left -/
theorem QInv.last {m h : Nat} {rest : List Nat} (hq : QInv m (h :: rest)) (hp : tParent h = 0) :
    (rest.head? = some (tSibling h) → rest.tail = []) ∧ (rest.head? ≠ some (tSibling h) → rest = []) := by
  obtain ⟨h1, h2, h3⟩ := hq
  have hh := h2 h (by simp)
  have hsib := tSibling_eq h (by omega)
  rw [tParent_eq] at hp
  rw [List.pairwise_cons] at h1
  have h12 : h = 1 ∨ h = 2 := by omega
  constructor
  · intro hhead
    cases rest with
    | nil => rfl
    | cons s rest' =>
      simp only [List.tail_cons]
      cases rest' with
      | nil => rfl
      | cons t _ =>
        have hs := h1.1 s (by simp)
        have ht := h1.1 t (by simp)
        have hst := (List.pairwise_cons.mp h1.2).1 t (by simp)
        have := (h2 t (by simp)).1
        omega
  · intro hhead
    cases rest with
    | nil => rfl
    | cons s rest' =>
      exfalso
      simp only [List.head?_cons, ne_eq, Option.some.injEq] at hhead
      have hs := h1.1 s (by simp)
      have := (h2 s (by simp)).1
      rcases h12 with rfl | rfl
      · omega
      · simp at hsib; omega

/-! ## the two loops in lock step -/

section loops
variable {α : Type} (merge : α → α → α) (zero : α)

/-- `nd` is the node function of a tree with `m` inner nodes -/
def TreeEq (m : Nat) (nd : Nat → α) : Prop := ∀ p, p < m → nd p = merge (nd (2 * p + 1)) (nd (2 * p + 2))

theorem mergeAt_tree {m : Nat} {nd : Nat → α} (ht : TreeEq merge m nd) (h : Nat) (h0 : 0 < h) (hm : h ≤ 2 * m) :
    mergeAt merge h (nd h) (nd (tSibling h)) = nd (tParent h) := by
  unfold mergeAt
  rw [tIsLeft_eq, tSibling_eq h (by omega), tParent_eq]
  have hp := ht ((h - 1) / 2) (by omega)
  by_cases hodd : h % 2 = 1
  · simp only [hodd, decide_true, if_true]
    rw [hp]
    have e1 : 2 * ((h - 1) / 2) + 1 = h := by omega
    have e2 : 2 * ((h - 1) / 2) + 2 = h + 1 := by omega
    rw [e1, e2]
  · simp only [hodd, decide_false, if_false]
    rw [hp]
    have e1 : 2 * ((h - 1) / 2) + 1 = h - 1 := by omega
    have e2 : 2 * ((h - 1) / 2) + 2 = h := by omega
    rw [e1, e2]
    simp

def qSum (q : List Nat) : Nat := (q.map (· + 1)).sum

theorem qSum_cons (h : Nat) (q : List Nat) : qSum (h :: q) = h + 1 + qSum q := by simp [qSum]
theorem qSum_append (a b : List Nat) : qSum (a ++ b) = qSum a + qSum b := by simp [qSum]
theorem qSum_single (p : Nat) : qSum [p] = p + 1 := by simp [qSum]

/-- On a queue with the invariant: `build_proof`'s loop does not hit its assertion, and `root`'s loop, started on the
same queue with the tree's node values and given exactly the lemmas `build_proof` pushed, returns `nodes[0]`. -/
theorem loops_agree {m : Nat} {nd : Nat → α} (ht : TreeEq merge m nd) (nodes : List α)
    (hnodes : ∀ i, i ≤ 2 * m → nodes.getD i zero = nd i) :
    ∀ (f1 f2 : Nat) (q : List Nat), QInv m q → q ≠ [] → qSum q < f1 → qSum q < f2 →
      ∃ lem, buildLoop zero nodes f1 q = some lem ∧
        rootLoop merge f2 (q.map fun i => (i, nd i)) lem = some (nd 0)
  | 0, _, q, _, _, h1, _ => by omega
  | _, 0, q, _, _, _, h2 => by omega
  | f1 + 1, f2 + 1, [], _, hne, _, _ => absurd rfl hne
  | f1 + 1, f2 + 1, h :: rest, hq, _, hf1, hf2 => by
    have hh := hq.2.1 h (by simp)
    have h0 : h ≠ 0 := by omega
    rw [qSum_cons] at hf1 hf2
    have hpl : tParent h < h := by rw [tParent_eq]; omega
    have hmerge := mergeAt_tree merge ht h hh.1 hh.2
    have hsibm : tSibling h ≤ 2 * m := by
      rw [tSibling_eq h h0]; split <;> omega
    -- what the root loop does once the parent value is pushed
    have finish : ∀ (r : List Nat), (tParent h = 0 → r = []) → (tParent h ≠ 0 → QInv m (r ++ [tParent h])) →
        qSum r ≤ qSum rest → ∀ lem', buildLoop zero nodes f1 (pushParent (tParent h) r) = some lem' →
        (∀ f2', qSum (pushParent (tParent h) r) < f2' → pushParent (tParent h) r ≠ [] →
          rootLoop merge f2' ((pushParent (tParent h) r).map fun i => (i, nd i)) lem' = some (nd 0)) →
        rootLoop merge f2 ((r.map fun i => (i, nd i)) ++ [(tParent h, nd (tParent h))]) lem' = some (nd 0) := by
      intro r hr0 _ hrs lem' hb hroot
      by_cases hp : tParent h = 0
      · have hr := hr0 hp
        subst hr
        rw [hp] at hb ⊢
        simp only [pushParent, if_true] at hb
        have : lem' = [] := by
          cases f1 <;> simp [buildLoop] at hb <;> first | exact hb | exact hb.symm
        subst this
        cases f2 with
        | zero => omega
        | succ f2 => simp [rootLoop]
      · have e : pushParent (tParent h) r = r ++ [tParent h] := by simp [pushParent, hp]
        have := hroot f2 (by rw [e, qSum_append, qSum_single]; omega) (by rw [e]; simp)
        rw [e] at this
        simpa using this
    by_cases hhead : rest.head? = some (tSibling h)
    · -- the sibling is next in both queues
      obtain ⟨s, rest', rfl⟩ : ∃ s rest', rest = s :: rest' := by
        cases rest with
        | nil => simp at hhead
        | cons s r => exact ⟨s, r, rfl⟩
      have hs : s = tSibling h := by simpa using hhead
      have hrs : qSum rest' ≤ qSum (s :: rest') := by rw [qSum_cons]; omega
      -- build side
      have hbuild : buildLoop zero nodes (f1 + 1) (h :: s :: rest') = buildLoop zero nodes f1 (pushParent (tParent h) rest') := by
        simp [buildLoop, h0, hs]
      rw [hbuild]
      -- recursive call
      have hrec : ∃ lem', buildLoop zero nodes f1 (pushParent (tParent h) rest') = some lem' ∧
          (∀ f2', qSum (pushParent (tParent h) rest') < f2' → pushParent (tParent h) rest' ≠ [] →
            rootLoop merge f2' ((pushParent (tParent h) rest').map fun i => (i, nd i)) lem' = some (nd 0)) := by
        by_cases hp : tParent h = 0
        · have := (hq.last hp).1 hhead
          simp only [List.tail_cons] at this
          subst this
          refine ⟨[], ?_, ?_⟩
          · cases f1 <;> simp [pushParent, hp, buildLoop]
          · intro f2' _ hne; simp [pushParent, hp] at hne
        · have hinv := (hq.step hp).1 hhead
          simp only [List.tail_cons] at hinv
          have e : pushParent (tParent h) rest' = rest' ++ [tParent h] := by simp [pushParent, hp]
          rw [e]
          have hsum : qSum (rest' ++ [tParent h]) < f1 := by
            rw [qSum_append, qSum_single]; rw [qSum_cons] at hf1; omega
          obtain ⟨lem', hb, _⟩ := loops_agree ht nodes hnodes f1 (qSum (rest' ++ [tParent h]) + 1) _ hinv (by simp) hsum (by omega)
          refine ⟨lem', hb, ?_⟩
          intro f2' hf2' hne
          obtain ⟨lem'', hb', hr'⟩ := loops_agree ht nodes hnodes f1 f2' _ hinv hne hsum hf2'
          rw [hb] at hb'
          cases hb'
          exact hr'
      obtain ⟨lem', hb, hroot⟩ := hrec
      refine ⟨lem', hb, ?_⟩
      -- root side
      have : rootLoop merge (f2 + 1) ((h :: s :: rest').map fun i => (i, nd i)) lem'
          = rootLoop merge f2 ((rest'.map fun i => (i, nd i)) ++ [(tParent h, nd (tParent h))]) lem' := by
        simp only [List.map_cons, rootLoop, h0, if_false, takeSibling, hs, if_true]
        rw [hmerge]
      rw [this]
      apply finish rest' (fun hp => by have := (hq.last hp).1 hhead; simpa using this)
        (fun hp => by have := (hq.step hp).1 hhead; simpa using this) hrs lem' hb hroot
    · -- the sibling comes from the lemmas
      have hbuild : buildLoop zero nodes (f1 + 1) (h :: rest) =
          (buildLoop zero nodes f1 (pushParent (tParent h) rest)).map (nodes.getD (tSibling h) zero :: ·) := by
        simp [buildLoop, h0, hhead]
      rw [hbuild]
      have hrec : ∃ lem', buildLoop zero nodes f1 (pushParent (tParent h) rest) = some lem' ∧
          (∀ f2', qSum (pushParent (tParent h) rest) < f2' → pushParent (tParent h) rest ≠ [] →
            rootLoop merge f2' ((pushParent (tParent h) rest).map fun i => (i, nd i)) lem' = some (nd 0)) := by
        by_cases hp : tParent h = 0
        · have := (hq.last hp).2 hhead
          subst this
          refine ⟨[], ?_, ?_⟩
          · cases f1 <;> simp [pushParent, hp, buildLoop]
          · intro f2' _ hne; simp [pushParent, hp] at hne
        · have hinv := (hq.step hp).2 hhead
          have e : pushParent (tParent h) rest = rest ++ [tParent h] := by simp [pushParent, hp]
          rw [e]
          have hsum : qSum (rest ++ [tParent h]) < f1 := by
            rw [qSum_append, qSum_single]; omega
          obtain ⟨lem', hb, _⟩ := loops_agree ht nodes hnodes f1 (qSum (rest ++ [tParent h]) + 1) _ hinv (by simp) hsum (by omega)
          refine ⟨lem', hb, ?_⟩
          intro f2' hf2' hne
          obtain ⟨lem'', hb', hr'⟩ := loops_agree ht nodes hnodes f1 f2' _ hinv hne hsum hf2'
          rw [hb] at hb'
          cases hb'
          exact hr'
      obtain ⟨lem', hb, hroot⟩ := hrec
      refine ⟨nodes.getD (tSibling h) zero :: lem', by rw [hb]; rfl, ?_⟩
      have hts : takeSibling h (rest.map fun i => (i, nd i)) (nodes.getD (tSibling h) zero :: lem')
          = some (nd (tSibling h), rest.map (fun i => (i, nd i)), lem') := by
        rw [hnodes _ hsibm]
        cases rest with
        | nil => simp [takeSibling]
        | cons s r =>
          have : s ≠ tSibling h := by simpa using hhead
          simp [takeSibling, this]
      have : rootLoop merge (f2 + 1) ((h :: rest).map fun i => (i, nd i)) (nodes.getD (tSibling h) zero :: lem')
          = rootLoop merge f2 ((rest.map fun i => (i, nd i)) ++ [(tParent h, nd (tParent h))]) lem' := by
        simp only [List.map_cons, rootLoop, h0, if_false, hts]
        rw [hmerge]
      rw [this]
      apply finish rest (fun hp => (hq.last hp).2 hhead) (fun hp => (hq.step hp).2 hhead) (Nat.le_refl _) lem' hb hroot
termination_by f1 _ _ => f1

end loops

end CkbVerif.Hash
