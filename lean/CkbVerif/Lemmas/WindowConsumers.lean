import CkbVerif.Lemmas.Window
import CkbVerif.Model.WindowConsumers

/-! Lemmas for the consumers of the proposal view (C20): `get_tx_status`, the pool's stage moves,
and the chain algebra of switch-back reorganisations. -/
namespace CkbVerif.Window

theorem txStatus_proposed_iff {v : View} {x : Nat} : txStatus v x = .proposed ↔ x ∈ v.set := by
  unfold txStatus; split <;> (try split) <;> simp_all

theorem txStatus_gap_iff {v : View} {x : Nat} : txStatus v x = .gap ↔ x ∈ v.gap ∧ x ∉ v.set := by
  unfold txStatus; split <;> (try split) <;> simp_all

theorem txStatus_fresh_iff {v : View} {x : Nat} : txStatus v x = .fresh ↔ x ∉ v.set ∧ x ∉ v.gap := by
  unfold txStatus; split <;> (try split) <;> simp_all

/-- the stage after `_update_tx_pool_for_reorg` is Proposed iff the id is in the new `set`, provided
the entry's stage before was consistent with the old `set` and `removed` is `old set ∖ new set` -/
theorem stageAfter_proposed_iff {removed : Ids} {old v : View} {st : Stage} {x : Nat}
    (hrem : x ∈ removed ↔ x ∈ old.set ∧ x ∉ v.set) (hst : st = .proposed → x ∈ old.set) :
    stageAfter removed v st x = .proposed ↔ x ∈ v.set := by
  unfold stageAfter
  by_cases hs : x ∈ v.set <;> by_cases hr : x ∈ removed <;> by_cases hg : x ∈ v.gap <;>
    cases st <;> simp_all

/-- chain algebra of a switch-back: leaving `chain` at `common` for any branch and re-attaching the
old blocks above `common` followed by `ext` gives `chain ++ ext` -/
theorem switch_back_chain {chain : List Ids} {common : Nat} (hcommon : common < chain.length)
    (b ext : List Ids) :
    (chain.take (common + 1) ++ b).take (common + 1) ++ (chain.drop (common + 1) ++ ext) = chain ++ ext := by
  have hl : (chain.take (common + 1)).length = common + 1 := by
    simp [List.length_take]; omega
  have : (chain.take (common + 1) ++ b).take (common + 1) = chain.take (common + 1) := by
    rw [List.take_append_of_le_length (by omega)]
    rw [List.take_take]
    simp
  rw [this, ← List.append_assoc, List.take_append_drop]

theorem switch_chain {w : Win} {s : Node} {common : Nat} {branch : List Ids} :
    (switch w s common branch).1.chain = s.chain.take (common + 1) ++ branch := rfl

end CkbVerif.Window
