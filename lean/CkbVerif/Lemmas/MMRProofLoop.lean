import CkbVerif.Lemmas.MMRTree
/-!
# The per-peak queue loops of `gen_proof` and `calculate_root` on a stored perfect tree

`gen_proof_for_peak` and `calculate_peak_root` walk the same queue of `(pos, height)` entries,
bottom-up and level by level.  On a perfect tree that is completely stored (`Lay`) the first one
never fails and emits exactly the sibling values the second one consumes, and the second one ends
with the value of the tree's root.  The queue invariant `QI` (two adjacent levels, each sorted by
position, every queued parent before the parents still to come) is what excludes a second copy of a
node — in particular of the peak, which would make `calculate_peak_root` fail.
-/
namespace CkbVerif.MMR

variable {α : Type}

/-- queue entry of `calculate_peak_root`: `(pos, item, height)` -/
abbrev QE (α : Type) := Nat × α × Nat

def QE.par (e : QE α) : Nat := (sibParent e.1 e.2.2).2.1

/-- the entry `gen_proof_for_peak` holds for the same node -/
def QE.g (e : QE α) : Nat × Nat := (e.1, e.2.2)

def PosLt (x y : QE α) : Prop := x.1 < y.1

/-- a valid node of the tree below the peak -/
def EOK (merge : α → α → α) (t : Expr α) (H off : Nat) (e : QE α) : Prop :=
  IsNode merge t H off e.1 e.2.2 e.2.1 ∧ e.1 ≠ rp off H

structure QI (merge : α → α → α) (t : Expr α) (H off h : Nat) (A B : List (QE α)) : Prop where
  okA : ∀ e ∈ A, EOK merge t H off e ∧ e.2.2 = h
  okB : ∀ e ∈ B, EOK merge t H off e ∧ e.2.2 = h + 1
  sA : A.Pairwise PosLt
  sB : B.Pairwise PosLt
  lt : ∀ a ∈ A, ∀ b ∈ B, b.1 < a.par

/-- upper bound on the number of iterations still to come -/
def phi (H : Nat) (q : List (QE α)) : Nat := (q.map fun e => H + 1 - e.2.2).sum

theorem phi_append (H : Nat) (a b : List (QE α)) : phi H (a ++ b) = phi H a + phi H b := by
  simp [phi, List.sum_append]

theorem phi_cons (H : Nat) (e : QE α) (q : List (QE α)) : phi H (e :: q) = (H + 1 - e.2.2) + phi H q := by
  simp [phi]

/-! ## one iteration of each loop -/

section steps
variable (merge : α → α → α) (st : Store α) (pk : Nat)

theorem gen_step_sib (f pos h sib parent : Nat) (ir : Bool) (h1 : Nat) (gq : List (Nat × Nat)) (acc : List α)
    (hne : pos ≠ pk) (hsp : sibParent pos h = (sib, parent, ir)) :
    genPeakLoop st pk (f + 1) ((pos, h) :: (sib, h1) :: gq) acc =
      genPeakLoop st pk f (if parent < pk then gq ++ [(parent, h + 1)] else gq) acc := by
  simp [genPeakLoop, hne, hsp]

theorem gen_step_store (f pos h sib parent : Nat) (ir : Bool) (gq : List (Nat × Nat)) (acc : List α) (sv : α)
    (hne : pos ≠ pk) (hsp : sibParent pos h = (sib, parent, ir)) (hst : st sib = some sv)
    (hhd : ∀ x ∈ gq.head?, x.1 ≠ sib) :
    genPeakLoop st pk (f + 1) ((pos, h) :: gq) acc =
      genPeakLoop st pk f (if parent < pk then gq ++ [(parent, h + 1)] else gq) (acc ++ [sv]) := by
  cases gq with
  | nil => simp [genPeakLoop, hne, hsp, hst]
  | cons x r =>
    obtain ⟨p, hx⟩ := x
    have : p ≠ sib := hhd (p, hx) (by simp)
    simp [genPeakLoop, hne, hsp, hst, this]

theorem calc_step_sib (f pos h sib parent : Nat) (ir : Bool) (v sv : α) (h1 : Nat) (cq : List (QE α))
    (proof : List α) (hne : pos ≠ pk) (hsp : sibParent pos h = (sib, parent, ir)) (hle : parent ≤ pk) :
    calcPeakLoop merge pk (f + 1) ((pos, v, h) :: (sib, sv, h1) :: cq) proof =
      calcPeakLoop merge pk f (cq ++ [(parent, (if ir then merge sv v else merge v sv), h + 1)]) proof := by
  simp [calcPeakLoop, hne, hsp, hle]

theorem calc_step_proof (f pos h sib parent : Nat) (ir : Bool) (v sv : α) (cq : List (QE α))
    (proof : List α) (hne : pos ≠ pk) (hsp : sibParent pos h = (sib, parent, ir)) (hle : parent ≤ pk)
    (hhd : ∀ x ∈ cq.head?, x.1 ≠ sib) :
    calcPeakLoop merge pk (f + 1) ((pos, v, h) :: cq) (sv :: proof) =
      calcPeakLoop merge pk f (cq ++ [(parent, (if ir then merge sv v else merge v sv), h + 1)]) proof := by
  cases cq with
  | nil => simp [calcPeakLoop, hne, hsp, hle]
  | cons x r =>
    obtain ⟨p, it, hx⟩ := x
    have : p ≠ sib := hhd (p, it, hx) (by simp)
    simp [calcPeakLoop, hne, hsp, hle, this]

end steps

/-! ## the queue invariant is kept -/

section trans
variable {merge : α → α → α} {st : Store α} {t : Expr α} {H off : Nat}

theorem IsNode.val_unique {p h h' : Nat} {v v' : α} (hl : Lay merge st off H t)
    (h1 : IsNode merge t H off p h v) (h2 : IsNode merge t H off p h' v') : v = v' := by
  have a := h1.stored hl
  have b := h2.stored hl
  rw [a] at b
  exact Option.some.inj b

/-- the parent entry `calculate_peak_root` appends -/
def pent (merge : α → α → α) (e0 : QE α) (sv : α) : QE α :=
  ((sibParent e0.1 e0.2.2).2.1,
    (if (sibParent e0.1 e0.2.2).2.2 then merge sv e0.2.1 else merge e0.2.1 sv), e0.2.2 + 1)

theorem QI.trans (hl : Lay merge st off H t) (hs : Sub off H) {h : Nat} {e0 : QE α} {A' B : List (QE α)}
    (hq : QI merge t H off h (e0 :: A') B) :
    ∃ sv, st (sibParent e0.1 e0.2.2).1 = some sv ∧ (sibParent e0.1 e0.2.2).2.1 ≤ rp off H ∧ h + 1 ≤ H ∧
      e0.2.2 = h ∧ e0.1 ≠ rp off H ∧
      (∀ e1 A2, A' = e1 :: A2 → e1.1 = (sibParent e0.1 e0.2.2).1 → e1.2.1 = sv) ∧
      (A' = [] → ∀ b ∈ B, b.1 ≠ (sibParent e0.1 e0.2.2).1) ∧
      (∀ A'', ((A'' = A' ∧ ∀ e1 ∈ A'.head?, e1.1 ≠ (sibParent e0.1 e0.2.2).1) ∨
              (∃ e1, A' = e1 :: A'' ∧ e1.1 = (sibParent e0.1 e0.2.2).1)) →
        ((sibParent e0.1 e0.2.2).2.1 = rp off H →
          A'' = [] ∧ B = [] ∧ (pent merge e0 sv).2.1 = t.eval merge) ∧
        ((sibParent e0.1 e0.2.2).2.1 ≠ rp off H →
          (A'' ≠ [] → QI merge t H off h A'' (B ++ [pent merge e0 sv])) ∧
          (A'' = [] → QI merge t H off (h + 1) (B ++ [pent merge e0 sv]) []))) := by
  obtain ⟨⟨hn0, hne0⟩, hh0⟩ := hq.okA e0 (by simp)
  obtain ⟨sv, s1, s2, s3, s4, s5⟩ := hn0.sibPar hs hne0
  have hsA := List.pairwise_cons.1 hq.sA
  have hparle := s2.basic.2.1
  have hlev := s2.basic.2.2.1
  refine ⟨sv, s1.stored hl, hparle, by omega, hh0, hne0, ?_, ?_, ?_⟩
  · intro e1 A2 hA he1
    obtain ⟨⟨hn1, -⟩, -⟩ := hq.okA e1 (by simp [hA])
    rw [he1] at hn1
    exact IsNode.val_unique hl hn1 s1
  · intro _ b hb hbs
    obtain ⟨⟨hnb, -⟩, hhb⟩ := hq.okB b hb
    have h1 := hnb.height hs
    have h2 := s1.height hs
    rw [hbs, h2] at h1
    omega
  · intro A'' hA''
    -- every remaining entry of the front level lies after `e0`, is not its sibling, and was queued
    have hK : ∀ x ∈ A'', x ∈ A' ∧ e0.par < x.par := by
      intro x hx
      have hxA' : x ∈ A' := by
        rcases hA'' with ⟨e, -⟩ | ⟨e1, e, -⟩
        · rw [← e]; exact hx
        · rw [e]; exact List.mem_cons_of_mem _ hx
      obtain ⟨⟨hnx, -⟩, hhx⟩ := hq.okA x (List.mem_cons_of_mem _ hxA')
      have hlt : e0.1 < x.1 := hsA.1 x hxA'
      have hxs : x.1 ≠ (sibParent e0.1 e0.2.2).1 := by
        rcases hA'' with ⟨e, hhd⟩ | ⟨e1, e, he1⟩
        · subst e
          cases A'' with
          | nil => simp at hx
          | cons e1 A2 =>
            have hne1 : e1.1 ≠ (sibParent e0.1 e0.2.2).1 := hhd e1 (by simp)
            simp only [List.mem_cons] at hx
            rcases hx with hx | hx
            · subst hx; exact hne1
            · have h12 : e1.1 < x.1 := (List.pairwise_cons.1 hsA.2).1 x hx
              obtain ⟨⟨hn1, -⟩, hh1⟩ := hq.okA e1 (by simp)
              have hlt1 : e0.1 < e1.1 := hsA.1 e1 (by simp)
              rw [hh1, ← hh0] at hn1
              rcases IsNode.order _ _ _ _ _ _ _ _ hn0 hn1 hs hlt1 with h' | ⟨-, h'⟩
              · exact absurd h' hne1
              · omega
        · subst e
          have h12 : e1.1 < x.1 := (List.pairwise_cons.1 hsA.2).1 x hx
          omega
      rw [hhx, ← hh0] at hnx
      rcases IsNode.order _ _ _ _ _ _ _ _ hn0 hnx hs hlt with h' | ⟨h', -⟩
      · exact absurd h' hxs
      · refine ⟨hxA', ?_⟩
        simp only [QE.par]
        rw [hhx, ← hh0]; exact h'
    have hsA'' : A''.Pairwise PosLt := by
      rcases hA'' with ⟨e, -⟩ | ⟨e1, e, -⟩
      · rw [e]; exact hsA.2
      · rw [e] at hsA; exact (List.pairwise_cons.1 hsA.2).2
    have hpe : (pent merge e0 sv).1 = e0.par := rfl
    have hpeh : (pent merge e0 sv).2.2 = h + 1 := by simp [pent, hh0]
    constructor
    · intro hpk
      rw [hpk] at s2
      obtain ⟨hH, hv⟩ := s2.basic.2.2.2.1 rfl
      refine ⟨?_, ?_, ?_⟩
      · apply List.eq_nil_iff_forall_not_mem.2
        intro x hx
        obtain ⟨hxA', hpar⟩ := hK x hx
        obtain ⟨⟨hnx, hnex⟩, hhx⟩ := hq.okA x (List.mem_cons_of_mem _ hxA')
        obtain ⟨_, -, t2, -, -, -⟩ := hnx.sibPar hs hnex
        have := t2.basic.2.1
        simp only [QE.par] at hpar
        omega
      · apply List.eq_nil_iff_forall_not_mem.2
        intro b hb
        obtain ⟨⟨hnb, hneb⟩, hhb⟩ := hq.okB b hb
        exact hneb (hnb.basic.2.2.2.2 (by omega))
      · exact hv
    · intro hnpk
      have hokpe : EOK merge t H off (pent merge e0 sv) ∧ (pent merge e0 sv).2.2 = h + 1 := by
        refine ⟨⟨?_, hnpk⟩, hpeh⟩
        simp only [pent]
        exact s2
      have hsB' : (B ++ [pent merge e0 sv]).Pairwise PosLt := by
        rw [List.pairwise_append]
        refine ⟨hq.sB, by simp, ?_⟩
        intro b hb x hx
        simp only [List.mem_singleton] at hx
        subst hx
        exact hq.lt e0 (by simp) b hb
      constructor
      · intro _
        refine ⟨fun x hx => hq.okA x (List.mem_cons_of_mem _ (hK x hx).1), ?_, hsA'', hsB', ?_⟩
        · intro x hx
          simp only [List.mem_append, List.mem_singleton] at hx
          rcases hx with hx | hx
          · exact hq.okB x hx
          · subst hx; exact hokpe
        · intro a ha b hb
          simp only [List.mem_append, List.mem_singleton] at hb
          rcases hb with hb | hb
          · exact hq.lt a (List.mem_cons_of_mem _ (hK a ha).1) b hb
          · subst hb; rw [hpe]; exact (hK a ha).2
      · intro _
        refine ⟨?_, by simp, hsB', by simp, by simp⟩
        intro x hx
        simp only [List.mem_append, List.mem_singleton] at hx
        rcases hx with hx | hx
        · exact hq.okB x hx
        · subst hx; exact hokpe

end trans

/-! ## both loops run to the end -/

section loops
variable {merge : α → α → α} {st : Store α} {t : Expr α} {H off : Nat}

theorem map_g_append_pent (merge : α → α → α) (q : List (QE α)) (e0 : QE α) (sv : α) :
    (q ++ [pent merge e0 sv]).map QE.g = q.map QE.g ++ [((sibParent e0.1 e0.2.2).2.1, e0.2.2 + 1)] := by
  simp [QE.g, pent]

/-- **The per-peak loops on a stored perfect tree.** From any queue satisfying the invariant,
`gen_proof_for_peak`'s loop succeeds, appending some items `ext` to the proof, and
`calculate_peak_root`'s loop, fed `ext` (followed by anything), returns the value of the tree's
root and leaves exactly the rest of the proof. -/
theorem peak_loops (hl : Lay merge st off H t) (hs : Sub off H) :
    ∀ (f h : Nat) (A B : List (QE α)), A ≠ [] → QI merge t H off h A B → phi H (A ++ B) ≤ f →
      ∃ ext, (∀ acc, genPeakLoop st (rp off H) f ((A ++ B).map QE.g) acc = some (acc ++ ext)) ∧
        (∀ rest, calcPeakLoop merge (rp off H) f (A ++ B) (ext ++ rest) = some (t.eval merge, rest)) := by
  intro f
  induction f with
  | zero =>
    intro h A B hA hq hphi
    cases A with
    | nil => exact absurd rfl hA
    | cons e0 A' =>
      obtain ⟨⟨hn0, -⟩, hh0⟩ := hq.okA e0 (by simp)
      have := hn0.basic.2.2.1
      simp only [List.cons_append, phi_cons] at hphi
      omega
  | succ f ih =>
    intro h A B hA hq hphi
    cases A with
    | nil => exact absurd rfl hA
    | cons e0 A' =>
      obtain ⟨sv, hst, hle, hlev, hh0, hne0, hval, hB, hmain⟩ := hq.trans hl hs
      obtain ⟨p0, v0, h0⟩ := e0
      simp only at hst hle hh0 hne0 hval hB hmain
      subst hh0
      have hsp : sibParent p0 h0 = ((sibParent p0 h0).1, (sibParent p0 h0).2.1, (sibParent p0 h0).2.2) := rfl
      -- what remains to be shown once the first iteration of both loops is rewritten
      have cont : ∀ (A'' : List (QE α)) (e : List α),
          ((A'' = A' ∧ ∀ e1 ∈ A'.head?, e1.1 ≠ (sibParent p0 h0).1) ∨
              (∃ e1, A' = e1 :: A'' ∧ e1.1 = (sibParent p0 h0).1)) →
          phi H A'' ≤ phi H A' →
          (∀ acc, genPeakLoop st (rp off H) (f + 1) ((((p0, v0, h0) : QE α) :: A' ++ B).map QE.g) acc =
            genPeakLoop st (rp off H) f
              (if (sibParent p0 h0).2.1 < rp off H then (A'' ++ B).map QE.g ++ [((sibParent p0 h0).2.1, h0 + 1)]
                else (A'' ++ B).map QE.g) (acc ++ e)) →
          (∀ pr, calcPeakLoop merge (rp off H) (f + 1) (((p0, v0, h0) : QE α) :: A' ++ B) (e ++ pr) =
            calcPeakLoop merge (rp off H) f ((A'' ++ B) ++ [pent merge (p0, v0, h0) sv]) pr) →
          ∃ ext, (∀ acc, genPeakLoop st (rp off H) (f + 1) ((((p0, v0, h0) : QE α) :: A' ++ B).map QE.g) acc
              = some (acc ++ ext)) ∧
            (∀ rest, calcPeakLoop merge (rp off H) (f + 1) (((p0, v0, h0) : QE α) :: A' ++ B) (ext ++ rest)
              = some (t.eval merge, rest)) := by
        intro A'' e hcond hphi'' hgen hcalc
        obtain ⟨hpkc, hnpkc⟩ := hmain A'' hcond
        simp only [List.cons_append, phi_cons, phi_append] at hphi
        by_cases hp : (sibParent p0 h0).2.1 = rp off H
        · obtain ⟨hA'', hBn, hv⟩ := hpkc hp
          subst hA''; subst hBn
          obtain ⟨f', rfl⟩ : ∃ f', f = f' + 1 := ⟨f - 1, by omega⟩
          refine ⟨e, ?_, ?_⟩
          · intro acc
            rw [hgen acc]
            simp [hp, genPeakLoop]
          · intro rest
            rw [hcalc rest]
            have h1 : (pent merge ((p0, v0, h0) : QE α) sv).1 = rp off H := hp
            rw [← hv]
            generalize pent merge ((p0, v0, h0) : QE α) sv = pe at h1
            obtain ⟨pp, pv, ph⟩ := pe
            simp only at h1
            subst h1
            simp [calcPeakLoop]
        · have hlt : (sibParent p0 h0).2.1 < rp off H := by omega
          obtain ⟨hne'', hnil''⟩ := hnpkc hp
          have hphipe : phi H [pent merge ((p0, v0, h0) : QE α) sv] + 1 = H + 1 - h0 := by
            simp [phi, pent]; omega
          by_cases hA'' : A'' = []
          · subst hA''
            have hq' := hnil'' rfl
            obtain ⟨ext, g1, c1⟩ := ih (h0 + 1) (B ++ [pent merge (p0, v0, h0) sv]) [] (by simp) hq'
              (by simp only [List.append_nil, phi_append]; simp only [phi, List.map_nil, List.sum_nil] at hphi''; omega)
            refine ⟨e ++ ext, ?_, ?_⟩
            · intro acc
              rw [hgen acc, if_pos hlt]
              have := g1 (acc ++ e)
              simp only [List.append_nil, List.nil_append, map_g_append_pent] at this ⊢
              rw [this, List.append_assoc]
            · intro rest
              rw [List.append_assoc, hcalc (ext ++ rest)]
              have := c1 rest
              simpa using this
          · have hq' := hne'' hA''
            obtain ⟨ext, g1, c1⟩ := ih h0 A'' (B ++ [pent merge (p0, v0, h0) sv]) hA'' hq'
              (by simp only [phi_append]; omega)
            refine ⟨e ++ ext, ?_, ?_⟩
            · intro acc
              rw [hgen acc, if_pos hlt]
              have := g1 (acc ++ e)
              rw [← List.append_assoc, map_g_append_pent] at this
              rw [this, List.append_assoc]
            · intro rest
              rw [List.append_assoc, hcalc (ext ++ rest)]
              have := c1 rest
              rw [← List.append_assoc] at this
              exact this
      -- first iteration: is the sibling the next queue entry?
      cases A' with
      | nil =>
        refine cont [] [sv] (Or.inl ⟨rfl, by simp⟩) (Nat.le_refl _) ?_ ?_
        · intro acc
          simp only [List.cons_append, List.nil_append, List.map_cons]
          refine gen_step_store st (rp off H) f p0 h0 _ _ _ _ acc sv hne0 hsp hst ?_
          intro x hx
          cases B with
          | nil => simp at hx
          | cons b B2 =>
            simp at hx; subst hx
            exact hB rfl b (by simp)
        · intro pr
          simp only [List.cons_append, List.nil_append]
          have := calc_step_proof merge (rp off H) f p0 h0 _ _ _ v0 sv B pr hne0 hsp hle ?_
          · exact this
          · intro x hx
            cases B with
            | nil => simp at hx
            | cons b B2 =>
              simp at hx; subst hx
              exact hB rfl b (by simp)
      | cons e1 A2 =>
        obtain ⟨p1, v1, h1⟩ := e1
        by_cases hs1 : p1 = (sibParent p0 h0).1
        · have hv1 : v1 = sv := hval (p1, v1, h1) A2 rfl hs1
          subst hv1
          refine cont A2 [] (Or.inr ⟨(p1, v1, h1), rfl, hs1⟩) (by simp [phi_cons]) ?_ ?_
          · intro acc
            simp only [List.cons_append, List.map_cons, List.append_nil]
            have := gen_step_sib st (rp off H) f p0 h0 _ _ _ h1 ((A2 ++ B).map QE.g) acc hne0 hsp
            rw [← hs1] at this
            exact this
          · intro pr
            simp only [List.cons_append, List.nil_append]
            have := calc_step_sib merge (rp off H) f p0 h0 _ _ _ v0 v1 h1 (A2 ++ B) pr hne0 hsp hle
            rw [← hs1] at this
            exact this
        · refine cont ((p1, v1, h1) :: A2) [sv] (Or.inl ⟨rfl, by simpa using hs1⟩) (Nat.le_refl _) ?_ ?_
          · intro acc
            simp only [List.cons_append, List.map_cons]
            exact gen_step_store st (rp off H) f p0 h0 _ _ _ _ acc sv hne0 hsp hst (by simpa [QE.g] using hs1)
          · intro pr
            simp only [List.cons_append]
            exact calc_step_proof merge (rp off H) f p0 h0 _ _ _ v0 sv _ pr hne0 hsp hle (by simpa using hs1)

end loops

end CkbVerif.MMR
