import CkbVerif.Model.Compact
/-! List lemmas for the compact-block model. -/
namespace CkbVerif.Compact

theorem allSome_map_some {α : Type} (l : List (Option α)) (xs : List α) (h : allSome l = some xs) :
    xs.map some = l := by
  induction l generalizing xs with
  | nil => simp [allSome] at h; simp [← h]
  | cons a l ih =>
    cases a with
    | none => simp [allSome] at h
    | some x =>
      simp only [allSome] at h
      cases hr : allSome l with
      | none => simp [hr] at h
      | some ys =>
        simp [hr] at h
        subst h
        simp [ih ys hr]

theorem mem_noneIndexes {α : Type} (l : List (Option α)) (j i : Nat) :
    i ∈ noneIndexes l j ↔ j ≤ i ∧ l[i - j]? = some none := by
  induction l generalizing j with
  | nil => simp [noneIndexes]
  | cons a l ih =>
    cases a with
    | none =>
      simp only [noneIndexes, List.mem_cons, ih]
      constructor
      · rintro (e | ⟨hle, hg⟩)
        · subst e; simp
        · refine ⟨by omega, ?_⟩
          have : i - j = (i - (j + 1)) + 1 := by omega
          rw [this]; simpa using hg
      · rintro ⟨hle, hg⟩
        by_cases e : i = j
        · left; exact e
        · right
          refine ⟨by omega, ?_⟩
          have : i - j = (i - (j + 1)) + 1 := by omega
          rw [this] at hg; simpa using hg
    | some x =>
      simp only [noneIndexes, ih]
      constructor
      · rintro ⟨hle, hg⟩
        refine ⟨by omega, ?_⟩
        have : i - j = (i - (j + 1)) + 1 := by omega
        rw [this]; simpa using hg
      · rintro ⟨hle, hg⟩
        by_cases e : i = j
        · subst e; simp at hg
        · refine ⟨by omega, ?_⟩
          have : i - j = (i - (j + 1)) + 1 := by omega
          rw [this] at hg; simpa using hg

theorem txsMap_sid (cb : CB) (received : List Tx) (pool : Nat → Option Tx)
    (hpool : ∀ sid t, pool sid = some t → t.sid = sid) (sid : Nat) (t : Tx)
    (h : txsMap cb received pool sid = some t) : t.sid = sid := by
  unfold txsMap at h
  split at h
  · split at h
    · rename_i t' hf
      simp only [Option.some.injEq] at h
      subst h
      have := List.find?_some hf
      simpa using this
    · exact hpool sid t h
  · simp at h

theorem layoutGo_length (ps : List (Nat × Tx)) (sids : List Nat) (len : Nat) :
    (layoutGo ps sids len).length = ps.length + sids.length := by
  induction ps generalizing sids len with
  | nil => simp [layoutGo]
  | cons p ps ih =>
    obtain ⟨idx, t⟩ := p
    simp only [layoutGo, List.length_append, List.length_map, List.length_cons, ih, List.length_take, List.length_drop]
    omega

end CkbVerif.Compact

namespace CkbVerif.Compact

/-- the prefilled indexes can be honoured: each is at or after the current length and there are
enough short ids left to fill the gap before it -/
def fits : List (Nat × Tx) → Nat → Nat → Prop
  | [], _, _ => True
  | (i, _) :: ps, n, len => len ≤ i ∧ i - len ≤ n ∧ fits ps (n - (i - len)) (i + 1)

theorem layoutGo_pre_at (ps : List (Nat × Tx)) (sids : List Nat) (len : Nat) (hf : fits ps sids.length len)
    (idx : Nat) (t : Tx) (hm : (idx, t) ∈ ps) : len ≤ idx ∧ (layoutGo ps sids len)[idx - len]? = some (.pre t) := by
  induction ps generalizing sids len with
  | nil => simp at hm
  | cons p ps ih =>
    obtain ⟨i, t0⟩ := p
    simp only [fits] at hf
    obtain ⟨hle, hgap, hrest⟩ := hf
    have htake : (sids.take (i - len)).length = i - len := by
      rw [List.length_take]; omega
    simp only [layoutGo]
    simp only [List.mem_cons, Prod.mk.injEq] at hm
    cases hm with
    | inl e =>
      obtain ⟨e1, e2⟩ := e
      subst e1; subst e2
      refine ⟨hle, ?_⟩
      have hml : ((sids.take (idx - len)).map Slot.short).length = idx - len := by rw [List.length_map, htake]
      rw [List.getElem?_append_right (by rw [hml]; exact Nat.le_refl _), hml]
      simp
    | inr hm =>
      have hlen' : len + (sids.take (i - len)).length + 1 = i + 1 := by rw [htake]; omega
      rw [hlen']
      have hdrop : (sids.drop (i - len)).length = sids.length - (i - len) := by simp
      obtain ⟨hle2, hget⟩ := ih (sids.drop (i - len)) (i + 1) (by rw [hdrop]; exact hrest) hm
      refine ⟨by omega, ?_⟩
      have hml : ((sids.take (i - len)).map Slot.short).length = i - len := by rw [List.length_map, htake]
      rw [List.getElem?_append_right (by rw [hml]; omega), hml]
      have : idx - len - (i - len) = (idx - (i + 1)) + 1 := by omega
      rw [this, List.getElem?_cons_succ]
      exact hget

/-! ### `PrefilledVerifier` establishes `fits` -/

theorem increasing_tail (a : Nat) (l : List Nat) (h : increasing (a :: l) = true) : increasing l = true := by
  cases l with
  | nil => rfl
  | cons b l => simp only [increasing, Bool.and_eq_true] at h; exact h.2

theorem increasing_last (a : Nat) (l : List Nat) (h : increasing (a :: l) = true) :
    ∃ z, (a :: l).getLast? = some z ∧ a + l.length ≤ z := by
  induction l generalizing a with
  | nil => exact ⟨a, rfl, by simp⟩
  | cons b l ih =>
    simp only [increasing, Bool.and_eq_true, decide_eq_true_eq] at h
    obtain ⟨z, hz, hle⟩ := ih b h.2
    refine ⟨z, ?_, ?_⟩
    · rw [List.getLast?_cons_cons]; exact hz
    · simp only [List.length_cons]; omega

/-- strictly increasing indexes, the first at or after the current length, the last below the
total number of transactions: every gap is non-negative and can be filled -/
theorem fits_of_increasing (ps : List (Nat × Tx)) (n len : Nat)
    (hinc : increasing (ps.map (·.1)) = true)
    (hfirst : ∀ p, ps.head? = some p → len ≤ p.1)
    (hlast : ∀ z, (ps.map (·.1)).getLast? = some z → z < len + ps.length + n) : fits ps n len := by
  induction ps generalizing n len with
  | nil => trivial
  | cons p ps ih =>
    obtain ⟨i, t⟩ := p
    simp only [List.map_cons] at hinc hlast
    obtain ⟨z, hz, hzle⟩ := increasing_last i _ hinc
    have hzlt := hlast z hz
    have hlen : len ≤ i := hfirst (i, t) rfl
    simp only [List.length_map, List.length_cons] at hzle hzlt
    refine ⟨hlen, by omega, ?_⟩
    apply ih
    · exact increasing_tail i _ hinc
    · intro p hp
      cases ps with
      | nil => simp at hp
      | cons q ps =>
        simp only [List.head?_cons, Option.some.injEq] at hp
        subst hp
        simp only [List.map_cons, increasing, Bool.and_eq_true, decide_eq_true_eq] at hinc
        omega
    · intro z' hz'
      cases ps with
      | nil => simp at hz'
      | cons q ps =>
        simp only [List.map_cons] at hz hz'
        rw [List.getLast?_cons_cons] at hz
        rw [hz'] at hz
        simp only [Option.some.injEq] at hz
        subst hz
        simp only [List.length_cons] at hzlt ⊢
        omega

/-- what `CompactBlockVerifier` accepts can be laid out: `PrefilledVerifier` (first index 0, last
index below `txs_len`, strictly increasing) implies `fits` -/
theorem cbVerify_fits (cb : CB) (h : cbVerify cb = none) : fits cb.prefilled cb.shortIds.length 0 := by
  unfold cbVerify at h
  split at h
  · simp at h
  · rename_i i0 t0 rest hp
    split at h
    · simp at h
    · rename_i h0
      split at h
      · simp at h
      · rename_i hlast
        split at h
        · simp at h
        · rename_i hinc
          apply fits_of_increasing
          · simpa using hinc
          · intro p _; exact Nat.zero_le _
          · intro z hz
            rw [List.getLast?_map] at hz
            simp only [hz, Option.getD_some, txsLen, ge_iff_le, Nat.not_le] at hlast
            omega

/-! ### the gap subtraction -/

/-- where the indexes can be honoured no gap subtraction underflows -/
theorem gapsChecked_of_fits (ps : List (Nat × Tx)) (sids : List Nat) (len : Nat) (hf : fits ps sids.length len) :
    (gapsChecked ps sids len).isSome = true := by
  induction ps generalizing sids len with
  | nil => rfl
  | cons p ps ih =>
    obtain ⟨i, t⟩ := p
    simp only [fits] at hf
    obtain ⟨hle, hgap, hrest⟩ := hf
    have htake : (sids.take (i - len)).length = i - len := by rw [List.length_take]; omega
    have hlen' : len + (sids.take (i - len)).length + 1 = i + 1 := by rw [htake]; omega
    have hnot : ¬ i < len := by omega
    simp only [gapsChecked, hnot, if_false, hlen', Option.isSome_map]
    apply ih
    simpa using hrest

/-- … and where no subtraction underflows each gap is the true difference: the pushed length
reaches the declared index exactly when the prefilled transaction is pushed, provided enough
short ids are left (`take` may return fewer) -/
theorem gapsChecked_some_le (ps : List (Nat × Tx)) (sids : List Nat) (len : Nat) (gs : List Nat)
    (h : gapsChecked ps sids len = some gs) : ∀ p, ps.head? = some p → len ≤ p.1 := by
  intro p hp
  cases ps with
  | nil => simp at hp
  | cons q ps =>
    obtain ⟨i, t⟩ := q
    simp only [List.head?_cons, Option.some.injEq] at hp
    subst hp
    simp only [gapsChecked] at h
    split at h
    · simp at h
    · simp only; omega

/-- `cbVerify` with the order loop weakened to `nondecreasing` (the `idx0 > idx1` variant): NOT the
code, only the object of `C16.loose_order_check_underflows` -/
def cbVerifyLoose (cb : CB) : Option CbErr :=
  match cb.prefilled with
  | [] => some .noCellbase
  | (i0, _) :: _ =>
    if i0 ≠ 0 then some .noCellbase
    else if (cb.prefilled.getLast?.map (·.1)).getD 0 ≥ txsLen cb then some .outOfIndex
    else if ¬ nondecreasing (cb.prefilled.map (·.1)) then some .outOfOrder
    else if ¬ cb.shortIds.Nodup then some .dupShortIds
    else if (cb.prefilled.drop 1).any (fun p => cb.shortIds.contains p.2.sid) then some .dupPrefilled
    else none

/-- the short id of a slot -/
def Slot.sid? : Slot → Option Nat
  | .pre _ => none
  | .short s => some s

def Slot.pre? : Slot → Option Tx
  | .pre t => some t
  | .short _ => none

theorem filterMap_sid_short (l : List Nat) : (l.map Slot.short).filterMap Slot.sid? = l := by
  induction l with
  | nil => rfl
  | cons a l ih => simp only [List.map_cons, List.filterMap_cons, Slot.sid?, ih]

theorem filterMap_pre_short (l : List Nat) : (l.map Slot.short).filterMap Slot.pre? = [] := by
  induction l with
  | nil => rfl
  | cons a l ih => simp only [List.map_cons, List.filterMap_cons, Slot.pre?, ih]

theorem layoutGo_shorts (ps : List (Nat × Tx)) (sids : List Nat) (len : Nat) :
    (layoutGo ps sids len).filterMap Slot.sid? = sids := by
  induction ps generalizing sids len with
  | nil => exact filterMap_sid_short sids
  | cons p ps ih =>
    obtain ⟨i, t⟩ := p
    rw [layoutGo, List.filterMap_append, filterMap_sid_short, List.filterMap_cons]
    simp only [Slot.sid?, ih]
    exact List.take_append_drop _ _

theorem layoutGo_pres (ps : List (Nat × Tx)) (sids : List Nat) (len : Nat) :
    (layoutGo ps sids len).filterMap Slot.pre? = ps.map (·.2) := by
  induction ps generalizing sids len with
  | nil => exact filterMap_pre_short sids
  | cons p ps ih =>
    obtain ⟨i, t⟩ := p
    rw [layoutGo, List.filterMap_append, filterMap_pre_short, List.filterMap_cons]
    simp only [Slot.pre?, ih, List.nil_append, List.map_cons]

end CkbVerif.Compact
