import CkbVerif.Model.Compact
/-! List lemmas for the compact-block model. -/
namespace CkbVerif.Compact

theorem allSome_map_some {α : Type} (l : List (Option α)) (xs : List α) (h : allSome l = some xs) :
    xs.map some = l := by
  induction l generalizing xs with
  | nil => simp [allSome] at h; simp [← h]
  | cons a l ih =>
    cases a with
    | none => simp [allSome] at h
    | some x =>
      simp only [allSome] at h
      cases hr : allSome l with
      | none => simp [hr] at h
      | some ys =>
        simp [hr] at h
        subst h
        simp [ih ys hr]

theorem mem_noneIndexes {α : Type} (l : List (Option α)) (j i : Nat) :
    i ∈ noneIndexes l j ↔ j ≤ i ∧ l[i - j]? = some none := by
  induction l generalizing j with
  | nil => simp [noneIndexes]
  | cons a l ih =>
    cases a with
    | none =>
      simp only [noneIndexes, List.mem_cons, ih]
      constructor
      · rintro (e | ⟨hle, hg⟩)
        · subst e; simp
        · refine ⟨by omega, ?_⟩
          have : i - j = (i - (j + 1)) + 1 := by omega
          rw [this]; simpa using hg
      · rintro ⟨hle, hg⟩
        by_cases e : i = j
        · left; exact e
        · right
          refine ⟨by omega, ?_⟩
          have : i - j = (i - (j + 1)) + 1 := by omega
          rw [this] at hg; simpa using hg
    | some x =>
      simp only [noneIndexes, ih]
      constructor
      · rintro ⟨hle, hg⟩
        refine ⟨by omega, ?_⟩
        have : i - j = (i - (j + 1)) + 1 := by omega
        rw [this]; simpa using hg
      · rintro ⟨hle, hg⟩
        by_cases e : i = j
        · subst e; simp at hg
        · refine ⟨by omega, ?_⟩
          have : i - j = (i - (j + 1)) + 1 := by omega
          rw [this] at hg; simpa using hg

theorem txsMap_sid (cb : CB) (received : List Tx) (pool : Nat → Option Tx)
    (hpool : ∀ sid t, pool sid = some t → t.sid = sid) (sid : Nat) (t : Tx)
    (h : txsMap cb received pool sid = some t) : t.sid = sid := by
  unfold txsMap at h
  split at h
  · split at h
    · rename_i t' hf
      simp only [Option.some.injEq] at h
      subst h
      have := List.find?_some hf
      simpa using this
    · exact hpool sid t h
  · simp at h

theorem layoutGo_length (ps : List (Nat × Tx)) (sids : List Nat) (len : Nat) :
    (layoutGo ps sids len).length = ps.length + sids.length := by
  induction ps generalizing sids len with
  | nil => simp [layoutGo]
  | cons p ps ih =>
    obtain ⟨idx, t⟩ := p
    simp only [layoutGo, List.length_append, List.length_map, List.length_cons, ih, List.length_take, List.length_drop]
    omega

end CkbVerif.Compact
