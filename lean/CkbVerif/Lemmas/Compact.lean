import CkbVerif.Model.Compact
/-! List lemmas for the compact-block model. -/
namespace CkbVerif.Compact

theorem allSome_map_some {α : Type} (l : List (Option α)) (xs : List α) (h : allSome l = some xs) :
    xs.map some = l := by
  induction l generalizing xs with
  | nil => simp [allSome] at h; simp [← h]
  | cons a l ih =>
    cases a with
    | none => simp [allSome] at h
    | some x =>
      simp only [allSome] at h
      cases hr : allSome l with
      | none => simp [hr] at h
      | some ys =>
        simp [hr] at h
        subst h
        simp [ih ys hr]

theorem mem_noneIndexes {α : Type} (l : List (Option α)) (j i : Nat) :
    i ∈ noneIndexes l j ↔ j ≤ i ∧ l[i - j]? = some none := by
  induction l generalizing j with
  | nil => simp [noneIndexes]
  | cons a l ih =>
    cases a with
    | none =>
      simp only [noneIndexes, List.mem_cons, ih]
      constructor
      · rintro (e | ⟨hle, hg⟩)
        · subst e; simp
        · refine ⟨by omega, ?_⟩
          have : i - j = (i - (j + 1)) + 1 := by omega
          rw [this]; simpa using hg
      · rintro ⟨hle, hg⟩
        by_cases e : i = j
        · left; exact e
        · right
          refine ⟨by omega, ?_⟩
          have : i - j = (i - (j + 1)) + 1 := by omega
          rw [this] at hg; simpa using hg
    | some x =>
      simp only [noneIndexes, ih]
      constructor
      · rintro ⟨hle, hg⟩
        refine ⟨by omega, ?_⟩
        have : i - j = (i - (j + 1)) + 1 := by omega
        rw [this]; simpa using hg
      · rintro ⟨hle, hg⟩
        by_cases e : i = j
        · subst e; simp at hg
        · refine ⟨by omega, ?_⟩
          have : i - j = (i - (j + 1)) + 1 := by omega
          rw [this] at hg; simpa using hg

theorem txsMap_sid (cb : CB) (received : List Tx) (pool : Nat → Option Tx)
    (hpool : ∀ sid t, pool sid = some t → t.sid = sid) (sid : Nat) (t : Tx)
    (h : txsMap cb received pool sid = some t) : t.sid = sid := by
  unfold txsMap at h
  split at h
  · split at h
    · rename_i t' hf
      simp only [Option.some.injEq] at h
      subst h
      have := List.find?_some hf
      simpa using this
    · exact hpool sid t h
  · simp at h

theorem layoutGo_length (ps : List (Nat × Tx)) (sids : List Nat) (len : Nat) :
    (layoutGo ps sids len).length = ps.length + sids.length := by
  induction ps generalizing sids len with
  | nil => simp [layoutGo]
  | cons p ps ih =>
    obtain ⟨idx, t⟩ := p
    simp only [layoutGo, List.length_append, List.length_map, List.length_cons, ih, List.length_take, List.length_drop]
    omega

end CkbVerif.Compact

namespace CkbVerif.Compact

/-- the prefilled indexes can be honoured: each is at or after the current length and there are
enough short ids left to fill the gap before it -/
def fits : List (Nat × Tx) → Nat → Nat → Prop
  | [], _, _ => True
  | (i, _) :: ps, n, len => len ≤ i ∧ i - len ≤ n ∧ fits ps (n - (i - len)) (i + 1)

theorem layoutGo_pre_at (ps : List (Nat × Tx)) (sids : List Nat) (len : Nat) (hf : fits ps sids.length len)
    (idx : Nat) (t : Tx) (hm : (idx, t) ∈ ps) : len ≤ idx ∧ (layoutGo ps sids len)[idx - len]? = some (.pre t) := by
  induction ps generalizing sids len with
  | nil => simp at hm
  | cons p ps ih =>
    obtain ⟨i, t0⟩ := p
    simp only [fits] at hf
    obtain ⟨hle, hgap, hrest⟩ := hf
    have htake : (sids.take (i - len)).length = i - len := by
      rw [List.length_take]; omega
    simp only [layoutGo]
    simp only [List.mem_cons, Prod.mk.injEq] at hm
    cases hm with
    | inl e =>
      obtain ⟨e1, e2⟩ := e
      subst e1; subst e2
      refine ⟨hle, ?_⟩
      have hml : ((sids.take (idx - len)).map Slot.short).length = idx - len := by rw [List.length_map, htake]
      rw [List.getElem?_append_right (by rw [hml]; exact Nat.le_refl _), hml]
      simp
    | inr hm =>
      have hlen' : len + (sids.take (i - len)).length + 1 = i + 1 := by rw [htake]; omega
      rw [hlen']
      have hdrop : (sids.drop (i - len)).length = sids.length - (i - len) := by simp
      obtain ⟨hle2, hget⟩ := ih (sids.drop (i - len)) (i + 1) (by rw [hdrop]; exact hrest) hm
      refine ⟨by omega, ?_⟩
      have hml : ((sids.take (i - len)).map Slot.short).length = i - len := by rw [List.length_map, htake]
      rw [List.getElem?_append_right (by rw [hml]; omega), hml]
      have : idx - len - (i - len) = (idx - (i + 1)) + 1 := by omega
      rw [this, List.getElem?_cons_succ]
      exact hget

end CkbVerif.Compact
