import CkbVerif.Lemmas.ChainLive

/-! Ghost bookkeeping: everything with an ext, queued or pooled was delivered (`seen`). Needed to
state order independence (the tip itself is a chain formable from the delivered set). -/
namespace CkbVerif.Chain

structure SeenOk (s : State) : Prop where
  ext : ∀ b, (s.td b).isSome = true → b ≠ 0 → s.seen b = true
  queue : ∀ b ∈ s.queue, s.seen b = true
  pool : ∀ b ∈ s.pool, s.seen b = true

theorem search_mem {T : Tree} (P : Nat → Prop) (hint : List Nat) (s : State)
    (hq : ∀ b ∈ s.queue, P b) (hp : ∀ b ∈ s.pool, P b) :
    (∀ b ∈ (search T hint s).1.queue, P b) ∧ (∀ b ∈ (search T hint s).1.pool, P b) ∧
      (search T hint s).1.seen = s.seen := by
  unfold search
  refine foldl_preserves (stepPool T s.pool)
    (fun acc => (∀ b ∈ acc.1.queue, P b) ∧ (∀ b ∈ acc.1.pool, P b) ∧ acc.1.seen = s.seen) ?_ _ _ ⟨hq, hp, rfl⟩
  intro acc c ⟨h2, h3, h4⟩
  have hact := stepPool_act T s.pool acc c
  generalize stepPool T s.pool acc c = r at hact ⊢
  cases hact with
  | skip _ => exact ⟨h2, h3, h4⟩
  | accept hc _ =>
    refine ⟨?_, ?_, h4⟩
    · intro b hb
      simp [enqueue, unpool] at hb
      rcases hb with hb | hb
      · exact h2 b hb
      · subst hb; exact h3 b hc
    · intro b hb
      simp [enqueue, unpool] at hb
      exact h3 b hb.1
  | reject hc _ =>
    refine ⟨?_, ?_, h4⟩
    · intro b hb; simp [rejectBlk, unpool] at hb; exact h2 b hb
    · intro b hb; simp [rejectBlk, unpool] at hb; exact h3 b hb.1

theorem seenOk_init (T : Tree) : SeenOk (init T) := by
  refine ⟨?_, by simp [init], by simp [init]⟩
  intro b hb hb0; simp [init, hb0] at hb

theorem seenOk_deliver {T : Tree} {s : State} (h : SeenOk s) (hint : List Nat) (b : Nat) :
    SeenOk (deliver T hint s b).1 := by
  have hmono : ∀ x, s.seen x = true → upd s.seen b true x = true := by
    intro x hx
    by_cases hxb : x = b
    · subst hxb; simp
    · rw [upd_other _ _ hxb]; exact hx
  have htd := (deliver_sameChain T hint s b).1
  unfold deliver at htd ⊢
  by_cases hb : b = 0
  · simp [hb]; exact h
  · simp only [hb, if_false] at htd ⊢
    by_cases hnc : T.nc b = true
    · simp only [hnc, Bool.not_true, Bool.false_eq_true, if_false] at htd ⊢
      -- route
      have hr : (∀ x ∈ (route T { s with seen := upd s.seen b true, stored := upd s.stored b true, commits := s.commits + 1 } b).1.queue,
            upd s.seen b true x = true) ∧
          (∀ x ∈ (route T { s with seen := upd s.seen b true, stored := upd s.stored b true, commits := s.commits + 1 } b).1.pool,
            upd s.seen b true x = true) ∧
          (route T { s with seen := upd s.seen b true, stored := upd s.stored b true, commits := s.commits + 1 } b).1.seen = upd s.seen b true := by
        have hact := route_act T { s with seen := upd s.seen b true, stored := upd s.stored b true, commits := s.commits + 1 } b
        generalize route T { s with seen := upd s.seen b true, stored := upd s.stored b true, commits := s.commits + 1 } b = r at hact ⊢
        cases hact with
        | accept _ =>
          refine ⟨?_, fun x hx => hmono x (h.pool x hx), rfl⟩
          intro x hx
          simp [enqueue] at hx
          rcases hx with hx | hx
          · exact hmono x (h.queue x hx)
          · subst hx; simp
        | reject _ _ => exact ⟨fun x hx => hmono x (h.queue x hx), fun x hx => hmono x (h.pool x hx), rfl⟩
        | dup _ _ _ => exact ⟨fun x hx => hmono x (h.queue x hx), fun x hx => hmono x (h.pool x hx), rfl⟩
        | hold _ _ _ =>
          refine ⟨fun x hx => hmono x (h.queue x hx), ?_, rfl⟩
          intro x hx
          simp at hx
          rcases hx with hx | hx
          · subst hx; simp
          · exact hmono x (h.pool x hx)
      obtain ⟨r1, r2, r3⟩ := hr
      obtain ⟨m1, m2, m3⟩ := search_mem (T := T) (fun x => upd s.seen b true x = true) hint _ r1 r2
      refine ⟨?_, ?_, ?_⟩
      · intro x hx hx0
        rw [m3, r3]; rw [htd] at hx; exact hmono x (h.ext x hx hx0)
      · intro x hx; rw [m3, r3]; exact m1 x hx
      · intro x hx; rw [m3, r3]; exact m2 x hx
    · have : T.nc b = false := by simpa using hnc
      simp only [this, Bool.not_false, if_true]
      exact ⟨fun x hx hx0 => hmono x (h.ext x hx hx0), fun x hx => hmono x (h.queue x hx),
        fun x hx => hmono x (h.pool x hx)⟩

theorem seenOk_verify {T : Tree} {s : State} (h : SeenOk s) : SeenOk (verifyHead T s).1 := by
  have hact := verifyHead_act T s
  generalize verifyHead T s = r at hact ⊢
  cases hact with
  | empty _ => exact h
  | fail b q hq _ =>
    exact ⟨h.ext, fun x hx => h.queue x (by rw [hq]; exact List.mem_cons_of_mem _ hx), h.pool⟩
  | known b q ptd hq _ _ _ _ =>
    exact ⟨h.ext, fun x hx => h.queue x (by rw [hq]; exact List.mem_cons_of_mem _ hx), h.pool⟩
  | side b q ptd hq _ _ _ =>
    refine ⟨?_, fun x hx => h.queue x (by rw [hq]; exact List.mem_cons_of_mem _ hx), h.pool⟩
    intro x hx hx0
    change (upd s.td b _ x).isSome = true at hx
    by_cases hxb : x = b
    · subst hxb; exact h.queue x (by rw [hq]; exact List.mem_cons_self)
    · rw [upd_other _ _ hxb] at hx; exact h.ext x hx hx0
  | best b q ptd hq _ _ _ _ =>
    refine ⟨?_, fun x hx => h.queue x (by rw [hq]; exact List.mem_cons_of_mem _ hx), h.pool⟩
    intro x hx hx0
    change (upd s.td b _ x).isSome = true at hx
    by_cases hxb : x = b
    · subst hxb; exact h.queue x (by rw [hq]; exact List.mem_cons_self)
    · rw [upd_other _ _ hxb] at hx; exact h.ext x hx hx0

theorem expire_seen (T : Tree) (s : State) : (expire T s).seen = s.seen := by
  unfold expire
  refine foldl_preserves (stepExpire T s.pool (T.epoch s.tip)) (fun acc => acc.1.seen = s.seen) ?_ _ _ rfl
  intro acc c h
  unfold stepExpire
  by_cases hc : c ∈ acc.1.pool
  · simp only [hc, if_true]
    by_cases hg : expGone T s.pool (T.epoch s.tip) acc.2 c = true
    · simp only [hg, if_true]; exact h
    · simp only [hg]; exact h
  · simp only [hc, if_false]; exact h

theorem seenOk_step {T : Tree} {s : State} (h : SeenOk s) (op : Op) : SeenOk (step T s op).1 := by
  cases op with
  | deliver b hint => exact seenOk_deliver h hint b
  | verify => exact seenOk_verify h
  | expire =>
    obtain ⟨⟨c1, _, _, _⟩, q, p⟩ := expire_frame T s
    show SeenOk (expire T s)
    refine ⟨?_, ?_, ?_⟩
    · rw [c1, expire_seen]; exact h.ext
    · rw [q, expire_seen]; exact h.queue
    · intro x hx; rw [expire_seen]; exact h.pool x (p x hx)
  | crash =>
    refine ⟨fun b hb _ => hb, by simp [step, crash], by simp [step, crash]⟩

theorem seenOk_run {T : Tree} : ∀ (ops : List Op) (s : State), SeenOk s → SeenOk (run T s ops) := by
  intro ops
  induction ops with
  | nil => intro s h; exact h
  | cons op ops ih => intro s h; exact ih _ (seenOk_step h op)

/-- a verified block is a chain formable from the delivered set -/
theorem chainIn_of_ver {T : Tree} {s : State} (hs : Safe T s) (hk : SeenOk s) :
    ∀ b, s.ver b = true → ChainIn T (fun x => s.seen x = true) b := by
  intro b
  induction b using Nat.strongRecOn with
  | _ b ih =>
    intro hv
    by_cases hb : b = 0
    · subst hb; exact .genesis
    · obtain ⟨h1, h2, h3⟩ := hs.verClosed b hv hb
      exact .step hb (hk.ext b (hs.verExt b hv) hb) h1 h2 (ih _ (T.par_lt hb) h3)

end CkbVerif.Chain
