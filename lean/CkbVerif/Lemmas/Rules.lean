import CkbVerif.Model.Rules
import CkbVerif.Lemmas.Window

/-! Helper definitions and lemmas for C03 (`Props/C03.lean`): the declarative rule lists, the
"first failing rule" reading of each staged checker, sorting/median facts, the uncle loop. -/
namespace CkbVerif.Rules
open CkbVerif.Window (Win Ids)

/-- the error of the first rule of the list that does not hold -/
def firstFail : List (Err × Bool) → Option Err
  | [] => none
  | (e, ok) :: rest => if ok then firstFail rest else some e

theorem firstFail_none_iff {l : List (Err × Bool)} : firstFail l = none ↔ ∀ r ∈ l, r.2 = true := by
  induction l with
  | nil => simp [firstFail]
  | cons r rest ih =>
    obtain ⟨e, ok⟩ := r
    cases ok <;> simp [firstFail, ih]

theorem firstFail_some_iff {l : List (Err × Bool)} {e : Err} :
    firstFail l = some e ↔ ∃ pre post, l = pre ++ (e, false) :: post ∧ ∀ r ∈ pre, r.2 = true := by
  induction l with
  | nil => simp [firstFail]
  | cons r rest ih =>
    obtain ⟨e', ok⟩ := r
    cases ok
    · simp only [firstFail, Bool.false_eq_true, if_false, Option.some.injEq]
      constructor
      · rintro rfl; exact ⟨[], rest, rfl, by simp⟩
      · rintro ⟨pre, post, h, hp⟩
        cases pre with
        | nil => simp at h; exact h.1.symm ▸ rfl
        | cons p pre' =>
          simp at h
          have := hp p (by simp)
          rw [← h.1] at this; simp at this
    · simp only [firstFail, if_true, ih]
      constructor
      · rintro ⟨pre, post, h, hp⟩
        exact ⟨(e', true) :: pre, post, by simp [h], by
          intro r hr
          rcases List.mem_cons.mp hr with rfl | hr
          · rfl
          · exact hp r hr⟩
      · rintro ⟨pre, post, h, hp⟩
        cases pre with
        | nil => simp at h
        | cons p pre' =>
          simp at h
          exact ⟨pre', post, h.2, fun r hr => hp r (by simp [hr])⟩

theorem firstFail_append {l₁ l₂ : List (Err × Bool)} :
    firstFail (l₁ ++ l₂) = match firstFail l₁ with | some e => some e | none => firstFail l₂ := by
  induction l₁ with
  | nil => simp [firstFail]
  | cons r rest ih =>
    obtain ⟨e, ok⟩ := r
    cases ok <;> simp [firstFail, ih]

/-! ## the rule lists, in the code's order -/

def headerRules (cfg : Cfg) (cx : HeaderCx) (b : Blk) : List (Err × Bool) :=
  (.powInvalid, b.powOk) ::
  match cx.parent with
  | none => [(.unknownParent, false)]
  | some (pn, pe) =>
    [ (.number, b.number == pn + 1),
      (.epochMalformed, b.epoch.wellFormed),
      (.epochNonContinuous, pe.isGenesis || b.epoch.isSuccessorOf pe),
      (.timeTooOld, b.number == 0 || decide (median cx.pastTs < b.ts)),
      (.timeTooNew, b.number == 0 || decide (b.ts ≤ cx.now + cfg.future)) ]

def cellbaseRules (b : Blk) : List (Err × Bool) :=
  [ (.cbQuantity, b.number == 0 || b.nCellbase == 1),
    (.cbPosition, b.number == 0 || b.firstIsCellbase),
    (.cbOutputQuantity, b.number == 0 || (decide (b.cbOutputs ≤ 1) && decide (b.cbOutputsData ≤ 1) && b.cbOutputs == b.cbOutputsData)),
    (.cbOutputData, b.number == 0 || b.cbDataEmpty),
    (.cbWitness, b.number == 0 || b.cbWitnessOk),
    (.cbTypeScript, b.number == 0 || b.cbNoType),
    (.cbOutputLock, b.number == 0 || b.cbLockOk),
    (.cbInput, b.number == 0 || b.cbSince == b.number) ]

def nonContextualRules (cfg : Cfg) (b : Blk) : List (Err × Bool) :=
  [ (.proposalsLimit, decide (b.proposals.length ≤ cfg.maxProposals)),
    (.blockBytes, b.number == 0 || decide (b.bytes ≤ cfg.maxBytes)) ] ++
  cellbaseRules b ++
  [ (.txDuplicate, !hasDup b.txIds),
    (.proposalDuplicate, !hasDup b.proposals),
    (.txRoot, b.txRootOk),
    (.proposalsHash, b.proposalsHashOk),
    (.txsNonContextual, b.txsNonCtxOk) ]

def uncleRules (cfg : Cfg) (cx : Cx) (b : Blk) (included : List (Nat × Nat)) (u : Uncle) : List (Err × Bool) :=
  [ (.uncleTarget, u.target == b.expTarget),
    (.uncleEpoch, b.expEpoch.number == u.epochNumber),
    (.uncleNumber, decide (u.number < b.number)),
    (.uncleDescendant, embeddedDescendant included u || cx.descendant u),
    (.uncleDuplicate, !included.any (fun e => e.1 == u.id)),
    (.uncleDoubleInclusion, !cx.doubleInclusion u.id),
    (.uncleProposalsLimit, decide (u.proposals.length ≤ cfg.maxProposals)),
    (.uncleProposalsHash, u.proposalsHashOk),
    (.uncleProposalDuplicate, !hasDup u.proposals),
    (.unclePow, u.powOk) ]

/-- the loop's rules: uncle `i` is checked against the uncles before it -/
def unclesLoopRules (cfg : Cfg) (cx : Cx) (b : Blk) : List (Nat × Nat) → List Uncle → List (Err × Bool)
  | _, [] => []
  | inc, u :: us => uncleRules cfg cx b inc u ++ unclesLoopRules cfg cx b ((u.id, u.number) :: inc) us

def unclesRules (cfg : Cfg) (cx : Cx) (b : Blk) : List (Err × Bool) :=
  if b.uncles.length == 0 then [] else
  (.unclesOverCount, b.number != 0 && decide (b.uncles.length ≤ cfg.maxUncles)) ::
  unclesLoopRules cfg cx b [] b.uncles

def commitRules (cfg : Cfg) (cx : Cx) (b : Blk) : List (Err × Bool) :=
  [ (.commitAncestorNotFound, b.number == 0 || decide (b.number - cfg.win.close < cx.chain.length)),
    (.commitInvalid, b.number == 0 || CkbVerif.Window.commitOk cfg.win cx.chain b.number b.committed) ]

def rewardRules (cfg : Cfg) (cx : Cx) (b : Blk) : List (Err × Bool) :=
  if decide (cx.parentNumber + 1 ≤ cfg.finDelay) || b.rewardInsufficient then
    [ (.rewardTarget, b.cbOutputs == 0) ]
  else
    [ (.rewardAmount, b.cbCapacity == b.expReward), (.rewardTarget, b.cbLockEq) ]

def extensionRules (cfg : Cfg) (b : Blk) : List (Err × Bool) :=
  match b.extraFields with
  | 0 => [ (.noExtension, !cfg.mmrActive), (.invalidExtraHash, b.extraHashOk) ]
  | 1 =>
    match b.extLen with
    | none => [ (.unknownFields, false) ]
    | some len =>
      [ (.emptyExtension, len != 0),
        (.extensionTooLong, decide (len ≤ cfg.extMax)),
        (.invalidExtension, !cfg.mmrActive || decide (cfg.extMinRoot ≤ len)),
        (.invalidChainRoot, !cfg.mmrActive || b.rootOk),
        (.invalidExtraHash, b.extraHashOk) ]
  | _ => [ (.unknownFields, false) ]

def contextualRules (cfg : Cfg) (cx : Cx) (b : Blk) : List (Err × Bool) :=
  [ (.resolve, b.resolveOk),
    (.epochNumberMismatch, b.epoch == b.expEpoch),
    (.targetMismatch, b.expTarget == b.target) ] ++
  unclesRules cfg cx b ++ commitRules cfg cx b ++
  [ (.daoCalc, b.daoCalcOk), (.invalidDao, b.daoEq) ] ++
  rewardRules cfg cx b ++ extensionRules (cfg.forParentEpoch cx.parentEpochNumber) b ++
  [ (.txs, b.txsOk),
    (.daoLockSizeMismatch, !cfg.rfc0044Active cx.parentEpochNumber || daoLockSizeOk cfg b),
    (.exceededCycles, decide (b.cycles ≤ cfg.maxCycles)) ]

def allRules (cfg : Cfg) (hcx : HeaderCx) (cx : Cx) (b : Blk) : List (Err × Bool) :=
  headerRules cfg hcx b ++ nonContextualRules cfg b ++ contextualRules cfg cx b

/-! ## each staged checker reports the first failing rule of its list -/

theorem headerCheck_eq (cfg : Cfg) (cx : HeaderCx) (b : Blk) :
    headerCheck cfg cx b = firstFail (headerRules cfg cx b) := by
  unfold headerCheck headerRules
  cases cx.parent with
  | none => simp only [firstFail]; grind
  | some p => simp only [firstFail]; grind

theorem cellbaseCheck_eq (b : Blk) : cellbaseCheck b = firstFail (cellbaseRules b) := by
  unfold cellbaseCheck cellbaseRules
  simp only [firstFail]
  grind

theorem nonContextualCheck_eq (cfg : Cfg) (b : Blk) :
    nonContextualCheck cfg b = firstFail (nonContextualRules cfg b) := by
  unfold nonContextualCheck nonContextualRules
  rw [List.append_assoc, firstFail_append, firstFail_append, ← cellbaseCheck_eq]
  simp only [firstFail]
  cases cellbaseCheck b <;> grind

theorem uncleCheck_eq (cfg : Cfg) (cx : Cx) (b : Blk) (inc : List (Nat × Nat)) (u : Uncle) :
    uncleCheck cfg cx b inc u = firstFail (uncleRules cfg cx b inc u) := by
  unfold uncleCheck uncleRules
  simp only [firstFail]
  grind

theorem unclesLoop_eq (cfg : Cfg) (cx : Cx) (b : Blk) (inc : List (Nat × Nat)) (us : List Uncle) :
    unclesLoop cfg cx b inc us = firstFail (unclesLoopRules cfg cx b inc us) := by
  induction us generalizing inc with
  | nil => simp [unclesLoop, unclesLoopRules, firstFail]
  | cons u us ih =>
    rw [unclesLoop, unclesLoopRules, firstFail_append, ← uncleCheck_eq]
    cases uncleCheck cfg cx b inc u <;> simp [ih]

theorem unclesCheck_eq (cfg : Cfg) (cx : Cx) (b : Blk) :
    unclesCheck cfg cx b = firstFail (unclesRules cfg cx b) := by
  unfold unclesCheck unclesRules
  by_cases h0 : b.uncles.length = 0
  · simp [h0, firstFail]
  · simp only [beq_iff_eq, h0, if_false, firstFail, ← unclesLoop_eq]
    grind

theorem commitCheck_eq (cfg : Cfg) (cx : Cx) (b : Blk) :
    commitCheck cfg cx b = firstFail (commitRules cfg cx b) := by
  unfold commitCheck commitRules
  simp only [firstFail]
  grind

theorem rewardCheck_eq (cfg : Cfg) (cx : Cx) (b : Blk) :
    rewardCheck cfg cx b = firstFail (rewardRules cfg cx b) := by
  unfold rewardCheck rewardRules
  split <;> simp only [firstFail] <;> grind

theorem extensionCheck_eq (cfg : Cfg) (b : Blk) :
    extensionCheck cfg b = firstFail (extensionRules cfg b) := by
  unfold extensionCheck extensionRules
  rcases h : b.extraFields with _ | _ | n
  · simp only [firstFail]; grind
  · cases b.extLen with
    | none => simp [firstFail]
    | some len => simp only [firstFail]; grind
  · simp [firstFail]

theorem contextualCheck_eq (cfg : Cfg) (cx : Cx) (b : Blk) :
    contextualCheck cfg cx b = firstFail (contextualRules cfg cx b) := by
  unfold contextualCheck contextualRules
  simp only [List.append_assoc, firstFail_append, ← unclesCheck_eq, ← commitCheck_eq, ← rewardCheck_eq,
    ← extensionCheck_eq, firstFail]
  cases unclesCheck cfg cx b <;> cases commitCheck cfg cx b <;> cases rewardCheck cfg cx b <;>
    cases extensionCheck (cfg.forParentEpoch cx.parentEpochNumber) b <;> grind

theorem accept_eq (cfg : Cfg) (hcx : HeaderCx) (cx : Cx) (b : Blk) :
    accept cfg hcx cx b = firstFail (allRules cfg hcx cx b) := by
  unfold accept allRules
  simp only [List.append_assoc, firstFail_append, ← headerCheck_eq, ← nonContextualCheck_eq, ← contextualCheck_eq]
  cases headerCheck cfg hcx b <;> simp
  cases nonContextualCheck cfg b <;> simp

/-! ## sorting and the median -/

theorem mem_insertSorted {x y : Nat} {l : List Nat} : y ∈ insertSorted x l ↔ y = x ∨ y ∈ l := by
  induction l with
  | nil => simp [insertSorted]
  | cons z zs ih =>
    simp only [insertSorted]
    split
    · simp
    · simp [ih]; constructor
      · rintro (h | h | h) <;> simp [h]
      · rintro (h | h | h) <;> simp [h]

theorem mem_sortAsc {y : Nat} {l : List Nat} : y ∈ sortAsc l ↔ y ∈ l := by
  induction l with
  | nil => simp [sortAsc]
  | cons x xs ih => simp [sortAsc, mem_insertSorted, ih]

theorem length_insertSorted (x : Nat) (l : List Nat) : (insertSorted x l).length = l.length + 1 := by
  induction l with
  | nil => simp [insertSorted]
  | cons z zs ih =>
    simp only [insertSorted]; split <;> simp [ih]

theorem length_sortAsc (l : List Nat) : (sortAsc l).length = l.length := by
  induction l with
  | nil => simp [sortAsc]
  | cons x xs ih => simp [sortAsc, length_insertSorted, ih]

/-- the median of a non-empty list is one of its elements -/
theorem median_mem {l : List Nat} (h : l ≠ []) : median l ∈ l := by
  have hl : 0 < l.length := List.length_pos_iff.mpr h
  have hi : l.length / 2 < (sortAsc l).length := by
    rw [length_sortAsc]; exact Nat.div_lt_self hl (by decide)
  unfold median
  rw [List.getD_eq_getElem?_getD, List.getElem?_eq_getElem hi]
  simp only [Option.getD_some]
  exact mem_sortAsc.mp (List.getElem_mem hi)

/-! ## the uncle loop -/

/-- every uncle, checked against the uncles before it (in reverse order, as the `included` map) -/
theorem unclesLoop_none_iff (cfg : Cfg) (cx : Cx) (b : Blk) (inc : List (Nat × Nat)) (us : List Uncle) :
    unclesLoop cfg cx b inc us = none ↔
      ∀ pre u post, us = pre ++ u :: post →
        uncleCheck cfg cx b ((pre.map fun v => (v.id, v.number)).reverse ++ inc) u = none := by
  induction us generalizing inc with
  | nil => simp [unclesLoop]
  | cons u us ih =>
    simp only [unclesLoop]
    constructor
    · intro h pre u' post hsplit
      cases hc : uncleCheck cfg cx b inc u with
      | some e => simp [hc] at h
      | none =>
        simp only [hc] at h
        cases pre with
        | nil =>
          simp at hsplit
          rw [← hsplit.1]; simpa using hc
        | cons p pre' =>
          simp at hsplit
          have := (ih _).mp h pre' u' post hsplit.2
          rw [← hsplit.1]
          simpa [List.append_assoc] using this
    · intro h
      have h0 := h [] u us rfl
      simp at h0
      simp only [h0]
      apply (ih _).mpr
      intro pre u' post hsplit
      have := h (u :: pre) u' post (by simp [hsplit])
      simpa [List.append_assoc] using this

end CkbVerif.Rules
