import CkbVerif.Lemmas.IndexerTip

/-! Which keys `append` / `prune` / `rollback` write (C18). -/
namespace CkbVerif.Indexer

/-- the keys the transaction part of `append` of block number `n` may write or delete -/
def appendKeyOk (n : Nat) : Key → Bool
  | .header .. => false
  | .txLock _ bn _ _ _ | .txType _ bn _ _ _ => bn == n
  | .consumed bn _ => bn == n
  | _ => true

theorem consumeOps_ok (n txi ii id : Nat) (op : OutPoint) (c : Cell) :
    (consumeOps n txi ii id op c).all (fun o => appendKeyOk n o.key) = true := by
  unfold consumeOps
  cases c.out.type <;> simp [BOp.key, appendKeyOk]

theorem createOps_ok (n txi id oi : Nat) (o : Output) :
    (createOps n txi id oi o).all (fun o => appendKeyOk n o.key) = true := by
  unfold createOps
  cases o.type <;> simp [BOp.key, appendKeyOk]

theorem txOps_ok (s : Store) (b : Block) (i : Nat) (tx : Tx) :
    (txOps s b i tx).all (fun o => appendKeyOk b.number o.key) = true := by
  unfold txOps inputsOps outputsOps
  simp only [List.all_append, Bool.and_eq_true]
  refine ⟨⟨?_, ?_⟩, ?_⟩
  · split
    · rfl
    · rw [List.all_flatMap, List.all_eq_true]
      intro p _
      split
      · exact consumeOps_ok ..
      · rfl
  · rw [List.all_flatMap, List.all_eq_true]
    intro p _
    exact createOps_ok ..
  · split <;> simp [BOp.key, appendKeyOk]

theorem txsOps_ok (s : Store) (b : Block) :
    ∀ o ∈ (b.txs.zipIdx.flatMap fun (tx, i) => txOps s b i tx), appendKeyOk b.number o.key = true := by
  intro o ho
  rw [List.mem_flatMap] at ho
  obtain ⟨p, _, hp⟩ := ho
  exact (List.all_eq_true.mp (txOps_ok s b p.2 p.1)) o hp

theorem headerOp_eq (s : Store) (b : Block) :
    ∃ f l, headerOp s b = .put (.header b.number b.hash f) (.txs l) := by
  unfold headerOp
  dsimp only
  split
  · exact ⟨false, _, rfl⟩
  · exact ⟨true, _, rfl⟩

/-- the keys `prune` deletes -/
theorem pruneOps_dels (s : Store) (keep : Nat) :
    ∀ o ∈ pruneOps s keep, ∃ k, o = .del k ∧ k.isAnswer = false ∧
      (∀ bn h f, k = .header bn h f → ∃ n hh, tip s = some (n, hh) ∧ bn + (keep + 1) ≤ n ∧ keep + 1 < n) := by
  intro o ho
  unfold pruneOps at ho
  split at ho
  · simp at ho
  · rename_i tipNumber th htip
    dsimp only at ho
    split at ho
    · rename_i hgt
      have hcons : ∀ o ∈ (s.filterMap fun e =>
          match e.1 with
          | .consumed bn op => if bn < tipNumber - (keep + 1) then some (BOp.del (.consumed bn op)) else none
          | _ => none), ∃ k, o = .del k ∧ k.isAnswer = false ∧
            (∀ bn h f, k = .header bn h f → ∃ n hh, tip s = some (n, hh) ∧ bn + (keep + 1) ≤ n ∧ keep + 1 < n) := by
        intro o ho
        rw [List.mem_filterMap] at ho
        obtain ⟨e, _, he⟩ := ho
        split at he
        · split at he
          · simp at he; subst he
            exact ⟨_, rfl, rfl, by intro bn h f hk; cases hk⟩
          · cases he
        · cases he
      split at ho
      · exact hcons o ho
      · rename_i minBn _
        rw [List.mem_append] at ho
        rcases ho with ho | ho
        · exact hcons o ho
        · rw [List.mem_flatMap] at ho
          obtain ⟨r, _, hr⟩ := ho
          obtain ⟨bn, h, f, l⟩ := r
          simp only at hr
          split at hr
          · rename_i hrange
            rw [List.mem_append] at hr
            rcases hr with hr | hr
            · rw [List.mem_map] at hr
              obtain ⟨t, _, ht⟩ := hr
              subst ht
              exact ⟨_, rfl, rfl, by intro bn h f hk; cases hk⟩
            · simp at hr; subst hr
              refine ⟨_, rfl, rfl, ?_⟩
              intro bn' h' f' hk
              cases hk
              exact ⟨tipNumber, th, htip, by omega, by omega⟩
          · simp at hr
    · simp at ho

end CkbVerif.Indexer
