import CkbVerif.Lemmas.MMRProofLoop
import CkbVerif.Lemmas.MMRSound
/-!
# After any pushes the store holds every mountain completely

`Inv` (Lemmas/MMR.lean) only records the peak values.  Proof generation reads the inner nodes, so
here the invariant is strengthened: `Inv2 m mts` — `mts` lists the mountains as trees
(`Expr α`, evaluated with `merge`), and the store holds each of them in post-order (`Lay`).
-/
namespace CkbVerif.MMR

variable {α : Type}

/-- the mountains, as trees, are stored one after the other from `off` -/
def Trees (merge : α → α → α) (st : Store α) : Nat → List (Nat × Expr α) → Prop
  | _, [] => True
  | off, (h, t) :: r => Lay merge st off h t ∧ Trees merge st (off + (2 ^ (h + 1) - 1)) r

structure Inv2 (merge : α → α → α) (m : MMR α) (mts : List (Nat × Expr α)) : Prop where
  inv : Inv m (mts.map (gmap merge))
  trees : Trees merge m.store 0 mts

section
variable (merge : α → α → α)

theorem Lay_congr {st st' : Store α} : ∀ (t : Expr α) (H off : Nat),
    (∀ q, q ≤ rp off H → st' q = st q) → Lay merge st off H t → Lay merge st' off H t := by
  intro t
  induction t with
  | atom v =>
    intro H off hag hl
    cases H with
    | zero =>
      simp only [Lay] at hl ⊢
      rw [hag off (by simp [rp])]; exact hl
    | succ H => simp [Lay] at hl
  | node l r ihl ihr =>
    intro H off hag hl
    cases H with
    | zero => simp [Lay] at hl
    | succ H =>
      have p0 := Nat.two_pow_pos H
      have p1 := two_pow_succ H
      have p2 := two_pow_succ (H + 1)
      refine ⟨ihl H off (fun q hq => hag q (by simp only [rp] at *; omega)) hl.1,
        ihr H _ (fun q hq => hag q (by simp only [rp] at *; omega)) hl.2.1, ?_⟩
      rw [hag _ (by simp only [rp]; omega)]; exact hl.2.2

theorem Trees_congr {st st' : Store α} : ∀ (mts : List (Nat × Expr α)) (off : Nat),
    (∀ q, q < off + szH (heights mts) → st' q = st q) → Trees merge st off mts → Trees merge st' off mts := by
  intro mts
  induction mts with
  | nil => intro _ _ _; trivial
  | cons m r ih =>
    obtain ⟨h, t⟩ := m
    intro off hag ht
    have p0 := Nat.two_pow_pos h
    have p1 := two_pow_succ h
    have e : szH (heights ((h, t) :: r)) = 2 ^ (h + 1) - 1 + szH (heights r) := rfl
    refine ⟨Lay_congr merge t h off (fun q hq => hag q (by simp only [rp] at hq; omega)) ht.1,
      ih _ (fun q hq => hag q (by omega)) ht.2⟩

/-- the tree built by the merges of one push, over a full run of mountains `r = [h-1, …, 0]` -/
theorem Lay_topR (st : Store α) (x : α) (size : Nat) :
    ∀ (r : List (Nat × Expr α)) (h off : Nat) (tail : List α), DescB h (heights r) → r.length = h →
      size = off + szH (heights r) → Trees merge st off r →
      Lay merge (st.append size (elemsR merge (r.map (gmap merge)) x ++ tail)) off h
        (topR Expr.node r (Expr.atom x)) := by
  intro r
  induction r with
  | nil =>
    intro h off tail _ hl hs _
    simp at hl; subst hl
    simp only [heights, List.map_nil, szH, Nat.add_zero] at hs
    subst hs
    simp only [topR, Lay, List.map_nil, elemsR]
    have := Store.append_ge st size ([x] ++ tail) 0
    simpa using this
  | cons m r ih =>
    obtain ⟨h', v⟩ := m
    intro h off tail hd hl hs ht
    have hd2 : DescB h' (heights r) := hd.2
    have hrl := DescB_len hd2
    have hlt : h' < h := hd.1
    simp [heights] at hrl
    simp at hl
    have hf : h' = r.length := by omega
    have hh : h = h' + 1 := by omega
    subst hh
    have p0 := Nat.two_pow_pos h'
    have p1 := two_pow_succ h'
    have p2 := two_pow_succ (h' + 1)
    have hlr : (heights r).length = h' := by simp [heights]; omega
    have hfull := szH_full hd2 hlr
    have hs' : size = off + (2 ^ (h' + 1) - 1) + szH (heights r) := by
      simp only [heights, List.map, szH] at hs; simp only [heights]; omega
    have htop : topR Expr.node ((h', v) :: r) (Expr.atom x) = Expr.node v (topR Expr.node r (Expr.atom x)) := by
      simp [topR, hf]
    have hel : elemsR merge (((h', v) :: r).map (gmap merge)) x =
        elemsR merge (r.map (gmap merge)) x ++ [merge (v.eval merge) (topR merge (r.map (gmap merge)) x)] := by
      simp [elemsR, gmap, hf]
    rw [htop, hel, List.append_assoc]
    refine ⟨?_, ih h' _ _ hd2 hf.symm hs' ht.2, ?_⟩
    · refine Lay_congr merge v h' off (fun q hq => Store.append_lt _ _ _ _ (by simp only [rp] at hq; omega)) ht.1
    · have hd2' : DescB h' (heights (r.map (gmap merge))) := by rw [heights_map_gm]; exact hd2
      have hlen := length_elemsR merge (r.map (gmap merge)) hd2' x
      have hr : run (heights (r.map (gmap merge))) = h' := by
        rw [heights_map_gm]; exact run_full hd2 hlr
      rw [hr] at hlen
      have hpos : off + 2 ^ (h' + 1 + 1) - 2 = size + (h' + 1) := by omega
      rw [hpos, Store.append_ge]
      have hget : (elemsR merge (r.map (gmap merge)) x ++
          ([merge (v.eval merge) (topR merge (r.map (gmap merge)) x)] ++ tail))[h' + 1]? =
          some (merge (v.eval merge) (topR merge (r.map (gmap merge)) x)) := by
        rw [List.getElem?_append_right (by omega)]
        simp [hlen.1]
      rw [hget]
      have := topR_hom merge r (Expr.atom x)
      simp only [Expr.eval] at this
      rw [this]

theorem Trees_pushD (st : Store α) (x : α) (size : Nat) :
    ∀ (mts : List (Nat × Expr α)) (b off : Nat), DescB b (heights mts) → size = off + szH (heights mts) →
      Trees merge st off mts →
      Trees merge (st.append size (elemsR merge (mts.map (gmap merge)) x)) off
        (pushD Expr.node mts (Expr.atom x)) := by
  intro mts
  induction mts with
  | nil =>
    intro b off _ hs _
    have := Lay_topR merge st x size [] 0 off [] trivial rfl hs trivial
    simp only [List.append_nil] at this
    exact ⟨this, trivial⟩
  | cons m r ih =>
    obtain ⟨h, v⟩ := m
    intro b off hd hs ht
    have hd2 : DescB h (heights r) := hd.2
    have p0 := Nat.two_pow_pos h
    have p1 := two_pow_succ h
    by_cases hf : h = r.length
    · have hrl := DescB_len hd2
      have := Lay_topR merge st x size ((h, v) :: r) (h + 1) off []
        (show DescB (h + 1) (h :: heights r) from ⟨Nat.lt_succ_self h, hd2⟩) (by simp; omega) hs ht
      simp only [List.append_nil] at this
      have hp : pushD Expr.node ((h, v) :: r) (Expr.atom x) =
          [(h + 1, topR Expr.node ((h, v) :: r) (Expr.atom x))] := by
        simp [pushD, topR, hf]
      rw [hp]
      exact ⟨this, trivial⟩
    · have hs' : size = off + (2 ^ (h + 1) - 1) + szH (heights r) := by
        simp only [heights, List.map, szH] at hs; simp only [heights]; omega
      have hp : pushD Expr.node ((h, v) :: r) (Expr.atom x) = (h, v) :: pushD Expr.node r (Expr.atom x) := by
        simp [pushD, hf]
      have hel : elemsR merge (((h, v) :: r).map (gmap merge)) x = elemsR merge (r.map (gmap merge)) x := by
        simp [elemsR, gmap, hf]
      rw [hp, hel]
      exact ⟨Lay_congr merge v h off (fun q hq => Store.append_lt _ _ _ _ (by simp only [rp] at hq; omega)) ht.1,
        ih h _ hd2 hs' ht.2⟩

/-- `push` on a state satisfying `Inv`, with the new store made explicit -/
theorem push_eq (m : MMR α) (ms : List (Nat × α)) (x : α) (hinv : Inv m ms) :
    push merge m x = some ((⟨m.size + run (heights ms) + 1,
      m.store.append m.size (elemsR merge ms x)⟩ : MMR α), m.size) := by
  obtain ⟨⟨b, hd⟩, hsize, hhas⟩ := hinv
  have hrl := run_le_length (heights ms)
  have hls := length_le_szH (heights ms)
  have hcond : ∀ j, j < run (heights ms) → posHeightInTree (m.size + j + 1) > j := by
    intro j hj
    have := posHeight_spec hd (j := j + 1) (by omega)
    rw [hsize]
    have e : szH (heights ms) + j + 1 = szH (heights ms) + (j + 1) := by omega
    rw [e, this]; omega
  have hd' : DescB (max b ((heights ms).length + 1)) (inc (heights ms)) :=
    DescB_inc (DescB_mono hd (by omega)) (by omega)
  have hstop : ¬ (posHeightInTree (m.size + run (heights ms) + 1) > run (heights ms)) := by
    have := posHeight_spec hd' (j := 0) (by omega)
    rw [szH_inc hd] at this
    rw [hsize]
    simp at this
    omega
  have hloop := pushLoop_run merge m.size m.store x ms b 0 hd (by omega) hhas hcond
    (m.size + 2 - run (heights ms))
  have hfu : m.size + 2 - run (heights ms) + run (heights ms) = m.size + 2 := by omega
  rw [hfu] at hloop
  obtain ⟨f', hf'⟩ : ∃ f', m.size + 2 - run (heights ms) = f' + 1 := ⟨m.size + 1 - run (heights ms), by omega⟩
  rw [hf'] at hloop
  have hfin : pushLoop merge m.size m.store (m.size + 2) m.size 0 [x] =
      some (m.size + run (heights ms), elemsR merge ms x) := by
    rw [hloop]; simp only [pushLoop, hstop, if_false]
  simp [push, hfin]

/-- the first element produced by a push is the leaf itself -/
theorem elemsR_zero (ms : List (Nat × α)) (x : α) : (elemsR merge ms x)[0]? = some x := by
  induction ms with
  | nil => simp [elemsR]
  | cons a r ih =>
    obtain ⟨h, v⟩ := a
    simp only [elemsR]
    split
    · rw [List.getElem?_append_left]
      · exact ih
      · cases hh : elemsR merge r x with
        | nil => rw [hh] at ih; simp at ih
        | cons _ _ => simp
    · exact ih

theorem push_inv2 (m : MMR α) (mts : List (Nat × Expr α)) (x : α) (h2 : Inv2 merge m mts) :
    ∃ m', push merge m x = some (m', m.size) ∧ Inv2 merge m' (pushD Expr.node mts (Expr.atom x)) ∧
      (∀ q, q < m.size → m'.store q = m.store q) ∧ m'.store m.size = some x := by
  obtain ⟨m', hp, hi, hst, -⟩ := push_inv merge m _ x h2.inv
  have he := push_eq merge m _ x h2.inv
  rw [hp] at he
  simp only [Option.some.injEq, Prod.mk.injEq, and_true] at he
  obtain ⟨b, hd⟩ := h2.inv.desc
  rw [heights_map_gm] at hd
  have hsz := h2.inv.size
  rw [heights_map_gm] at hsz
  refine ⟨m', hp, ⟨?_, ?_⟩, hst, ?_⟩
  · have := pushD_hom merge mts (Expr.atom x)
    simp only [Expr.eval] at this
    rw [← this]; exact hi
  · rw [he]
    exact Trees_pushD merge m.store x m.size mts b 0 hd (by omega) h2.trees
  · rw [he]
    show (m.store.append m.size (elemsR merge (mts.map (gmap merge)) x)) m.size = some x
    have := Store.append_ge m.store m.size (elemsR merge (mts.map (gmap merge)) x) 0
    simp only [Nat.add_zero] at this
    rw [this, elemsR_zero]

theorem pushAll_inv2 (m : MMR α) (mts : List (Nat × Expr α)) (xs : List α) (h2 : Inv2 merge m mts) :
    ∃ m', pushAll merge m xs = some m' ∧
      Inv2 merge m' (xs.foldl (fun acc x => pushD Expr.node acc (Expr.atom x)) mts) ∧
      (∀ q, q < m.size → m'.store q = m.store q) ∧ m.size ≤ m'.size := by
  induction xs generalizing m mts with
  | nil => exact ⟨m, rfl, h2, fun _ _ => rfl, Nat.le_refl _⟩
  | cons x xs ih =>
    obtain ⟨m1, hp, hi, hst, -⟩ := push_inv2 merge m mts x h2
    obtain ⟨m', hm', hi', hst', hle⟩ := ih m1 _ hi
    have hlt' : m.size < m1.size := by
      obtain ⟨m1', hp', -, -, hl⟩ := push_inv merge m _ x h2.inv
      rw [hp] at hp'
      simp only [Option.some.injEq, Prod.mk.injEq, and_true] at hp'
      rw [hp']; exact hl
    refine ⟨m', by simp [pushAll, hp, hm'], hi', fun q hq => ?_, by omega⟩
    rw [hst' q (by omega), hst q hq]

end

end CkbVerif.MMR
