import CkbVerif.Lemmas.IndexerWF

/-! Appends and ROLLBACKS: the answer rows of the store that followed the chain through reorgs (each
rollback undoing the block appended last) equal those of the plain replay of the main chain (C18). -/
namespace CkbVerif.Indexer

/-- same answer rows (OutPoint, Cell*Script, Tx*Script) -/
def AnsEq (s s' : Store) : Prop := ∀ k : Key, k.isAnswer = true → get s k = get s' k

theorem AnsEq.symm {s s' : Store} (h : AnsEq s s') : AnsEq s' s := fun k hk => (h k hk).symm
theorem AnsEq.trans {a b c : Store} (h1 : AnsEq a b) (h2 : AnsEq b c) : AnsEq a c :=
  fun k hk => (h1 k hk).trans (h2 k hk)

theorem lookupInput_congr {s s' : Store} (h : AnsEq s s') (b : Block) : lookupInput s b = lookupInput s' b := by
  funext op
  unfold lookupInput
  rw [h (.outPoint op) rfl]

/-- the batch of `append` only depends on the answer rows (in fact only on the OutPoint rows) -/
theorem appendOps_congr {s s' : Store} (h : AnsEq s s') (b : Block) : appendOps s b = appendOps s' b := by
  have hl := lookupInput_congr h b
  unfold appendOps headerOp matchedTxs txOps txMatched inputsMatched inputsOps
  simp only [hl]

theorem prune_answers' (s : Store) (keep : Nat) (k : Key) (hk : k.isAnswer = true) :
    get (prune s keep) k = get s k := by
  unfold prune
  apply get_commit_untouched
  intro o ho heq
  obtain ⟨k', hk', ha, _⟩ := pruneOps_dels s keep o ho
  subst hk'
  simp only [BOp.key] at heq
  rw [heq, hk] at ha
  cases ha

theorem append_core_answers (keep interval : Nat) (s : Store) (b : Block) (k : Key) (hk : k.isAnswer = true) :
    get (append keep interval s b) k = get (appendCore s b) k := by
  unfold append
  dsimp only
  split
  · exact prune_answers' _ _ _ hk
  · rfl

/-- `append` maps stores with the same answer rows to stores with the same answer rows -/
theorem append_ansEq (keep interval : Nat) {s s' : Store} (h : AnsEq s s') (b : Block) :
    AnsEq (append keep interval s b) (append keep interval s' b) := by
  intro k hk
  rw [append_core_answers _ _ _ _ _ hk, append_core_answers _ _ _ _ _ hk]
  unfold appendCore
  rw [appendOps_congr h b]
  exact get_commit_congr _ _ _ k (h k hk)

theorem wfAppend2_ansEq {s s' : Store} (h : AnsEq s s') (b : Block) (wf : WFAppend2 s b) : WFAppend2 s' b :=
  { idInj := wf.idInj
    freshOut := fun tx htx oi => by rw [← h _ rfl]; exact wf.freshOut tx htx oi
    cellVal := fun op v hv => wf.cellVal op v (by rw [h _ rfl]; exact hv)
    oldBn := fun op c hc => wf.oldBn op c (by rw [h _ rfl]; exact hc)
    order := wf.order }

theorem lockInv_ansEq {s s' : Store} (h : AnsEq s s') (li : LockInv s) : LockInv s' := by
  intro sc bn txi io t
  rw [← h _ rfl, ← h (.outPoint ⟨t, io⟩) rfl]
  exact li sc bn txi io t

theorem typeInv_ansEq {s s' : Store} (h : AnsEq s s') (ti : TypeInv s) : TypeInv s' := by
  intro sc bn txi io t
  rw [← h _ rfl, ← h (.outPoint ⟨t, io⟩) rfl]
  exact ti sc bn txi io t

theorem chainOK2_snoc (keep interval : Nat) (bl : List Block) (b : Block) (s : Store)
    (h : ChainOK2 keep interval s bl) (wf : WFAppend2 (bl.foldl (append keep interval) s) b) :
    ChainOK2 keep interval s (bl ++ [b]) := by
  induction bl generalizing s with
  | nil => exact ⟨wf, trivial⟩
  | cons a r ih => exact ⟨h.1, ih _ h.2 wf⟩

theorem chainOK3_snoc (keep interval : Nat) (bl : List Block) (b : Block) (s : Store)
    (h : ChainOK3 keep interval s bl) (wf : WFAppend2 (bl.foldl (append keep interval) s) b)
    (fr : ∀ (sc : Script) (txi io : Nat) (t : IoType),
      get (bl.foldl (append keep interval) s) (.txLock sc b.number txi io t) = none) :
    ChainOK3 keep interval s (bl ++ [b]) := by
  induction bl generalizing s with
  | nil => exact ⟨wf, fr, trivial⟩
  | cons a r ih => exact ⟨h.1, h.2.1, ih _ h.2.2 wf fr⟩

theorem chainOK3T_snoc (keep interval : Nat) (bl : List Block) (b : Block) (s : Store)
    (h : ChainOK3T keep interval s bl) (wf : WFAppend2 (bl.foldl (append keep interval) s) b)
    (fr : ∀ (sc : Script) (txi io : Nat) (t : IoType),
      get (bl.foldl (append keep interval) s) (.txType sc b.number txi io t) = none) :
    ChainOK3T keep interval s (bl ++ [b]) := by
  induction bl generalizing s with
  | nil => exact ⟨wf, fr, trivial⟩
  | cons a r ih => exact ⟨h.1, h.2.1, ih _ h.2.2 wf fr⟩

/-- the stores reached by following a chain through reorganisations: `app` appends a block that
passes the driver's per-append checks ON THE ACTUAL STORE (residue included); `reorg` appends such a
block and rolls it back again (the block was on a branch that is abandoned) -/
inductive Followed (keep interval : Nat) : Store → List Block → Prop
  | nil : Followed keep interval [] []
  | app {s : Store} {bl : List Block} (b : Block) : Followed keep interval s bl →
      wfAppend2B s b = true → freshB2 s b = true →
      Followed keep interval (append keep interval s b) (bl ++ [b])
  | reorg {s : Store} {bl : List Block} (b : Block) : Followed keep interval s bl →
      wfAppend2B s b = true → freshB2 s b = true → hdrDisjointB s b = true →
      Followed keep interval (rollback (append keep interval s b)) bl

theorem nodup_rollback (s : Store) (h : NodupKeys s) : NodupKeys (rollback s) := nodup_commit _ _ h

/-- **the answer rows after appends and rollbacks are those of the plain replay of the main chain**,
and the main chain satisfies the chain hypotheses of all the answer theorems -/
theorem followed_spec (keep interval : Nat) (S : Store) (bl : List Block) (h : Followed keep interval S bl) :
    AnsEq S (bl.foldl (append keep interval) []) ∧ NodupKeys S ∧
      ChainOK2 keep interval [] bl ∧ ChainOK3 keep interval [] bl ∧ ChainOK3T keep interval [] bl := by
  induction h with
  | nil => exact ⟨fun _ _ => rfl, trivial, trivial, trivial, trivial⟩
  | @app s bl b _ ha hk ih =>
    obtain ⟨heq, hnd, c2, c3, c3t⟩ := ih
    have wf := wfAppend2_ansEq heq b (wfAppend2_of_B s b ha)
    obtain ⟨f1, f2⟩ := freshTx_of_B2 s b hk
    refine ⟨?_, nodup_append keep interval s b hnd, chainOK2_snoc keep interval bl b [] c2 wf,
      chainOK3_snoc keep interval bl b [] c3 wf (fun sc txi io t => by rw [← heq _ rfl]; exact f1 sc txi io t),
      chainOK3T_snoc keep interval bl b [] c3t wf (fun sc txi io t => by rw [← heq _ rfl]; exact f2 sc txi io t)⟩
    rw [List.foldl_append]
    exact append_ansEq keep interval heq b
  | @reorg s bl b _ ha hk hd ih =>
    obtain ⟨heq, hnd, c2, c3, c3t⟩ := ih
    have li : LockInv s := lockInv_ansEq heq.symm (lockInv_chain2 keep interval bl [] lockInv_empty c2)
    have ti : TypeInv s := typeInv_ansEq heq.symm (typeInv_chain2 keep interval bl [] typeInv_empty c2)
    have wf := wfRollback2_of_B2 s b ha hk li ti
    have hdj := hdrDisjoint_of_B s b hd
    refine ⟨?_, nodup_rollback _ (nodup_append keep interval s b hnd), c2, c3, c3t⟩
    exact AnsEq.trans (fun k hk' => rollback_append_full_answers wf hdj keep interval k hk') heq

end CkbVerif.Indexer
