import CkbVerif.Model.AssemblerSvc
import CkbVerif.Lemmas.Assembler

/-! Helper lemmas for the service layer of the block assembler (`Model/AssemblerSvc.lean`): the
well-formedness invariant of the candidate-uncle container under `insert` / `remove_by_number` /
`prepare_uncles`, and the invariant of the content model (`Assembler.AInv`) under the service's
messages with their staleness guards. -/
namespace CkbVerif.AssemblerSvc
open CkbVerif.Rules (Uncle Cfg Cx)
open CkbVerif.Assembler
open CkbVerif.Selector (View Entry LinksOk AggGe)

/-! ### the container -/

/-- number of stored uncles -/
def tot (m : List (Nat × List Uncle)) : Nat := (m.map (·.2.length)).sum

@[simp] theorem tot_nil : tot [] = 0 := rfl
@[simp] theorem tot_cons (p : Nat × List Uncle) (m : List (Nat × List Uncle)) : tot (p :: m) = p.2.length + tot m := by
  simp [tot]

/-- well-formedness of the `BTreeMap<BlockNumber, HashSet<UncleBlockView>>` as a list -/
structure MapOk (mp : Nat) (m : List (Nat × List Uncle)) : Prop where
  keys : (m.map (·.1)).Pairwise (· < ·)
  nonempty : ∀ p ∈ m, p.2 ≠ []
  number : ∀ p ∈ m, ∀ u ∈ p.2, u.number = p.1
  per : ∀ p ∈ m, p.2.length ≤ mp
  nodup : ∀ p ∈ m, (p.2.map (·.id)).Nodup

theorem MapOk.nil (mp : Nat) : MapOk mp [] :=
  ⟨by simp, by simp, by simp, by simp, by simp⟩

theorem MapOk.tail {mp : Nat} {p : Nat × List Uncle} {m : List (Nat × List Uncle)} (h : MapOk mp (p :: m)) :
    MapOk mp m :=
  ⟨by have hk := h.keys; simp only [List.map_cons, List.pairwise_cons] at hk; exact hk.2,
   fun q hq => h.nonempty q (List.mem_cons_of_mem _ hq),
   fun q hq => h.number q (List.mem_cons_of_mem _ hq),
   fun q hq => h.per q (List.mem_cons_of_mem _ hq),
   fun q hq => h.nodup q (List.mem_cons_of_mem _ hq)⟩

theorem MapOk.cons {mp : Nat} {p : Nat × List Uncle} {m : List (Nat × List Uncle)} (hm : MapOk mp m)
    (hk : ∀ q ∈ m, p.1 < q.1) (hne : p.2 ≠ []) (hnum : ∀ u ∈ p.2, u.number = p.1) (hper : p.2.length ≤ mp)
    (hnd : (p.2.map (·.id)).Nodup) : MapOk mp (p :: m) := by
  refine ⟨?_, ?_, ?_, ?_, ?_⟩
  · simp only [List.map_cons, List.pairwise_cons]
    refine ⟨?_, hm.keys⟩
    intro a ha
    obtain ⟨q, hq, rfl⟩ := List.mem_map.mp ha
    exact hk q hq
  · intro q hq; rcases List.mem_cons.mp hq with rfl | hq
    · exact hne
    · exact hm.nonempty q hq
  · intro q hq; rcases List.mem_cons.mp hq with rfl | hq
    · exact hnum
    · exact hm.number q hq
  · intro q hq; rcases List.mem_cons.mp hq with rfl | hq
    · exact hper
    · exact hm.per q hq
  · intro q hq; rcases List.mem_cons.mp hq with rfl | hq
    · exact hnd
    · exact hm.nodup q hq

theorem MapOk.head_lt {mp : Nat} {p : Nat × List Uncle} {m : List (Nat × List Uncle)} (h : MapOk mp (p :: m)) :
    ∀ q ∈ m, p.1 < q.1 := by
  have hk := h.keys
  simp only [List.map_cons, List.pairwise_cons] at hk
  intro q hq
  exact hk.1 q.1 (List.mem_map.mpr ⟨q, hq, rfl⟩)

theorem hasUncle_false_iff (set : List Uncle) (u : Uncle) : hasUncle set u = false ↔ u.id ∉ set.map (·.id) := by
  simp [hasUncle]

/-- everything `insertAt` does, in one statement -/
theorem insertAt_spec (mp : Nat) (hmp : 0 < mp) (u : Uncle) (m : List (Nat × List Uncle)) (h : MapOk mp m) :
    MapOk mp (insertAt mp u m).1 ∧
    tot (insertAt mp u m).1 = tot m + (if (insertAt mp u m).2 then 1 else 0) ∧
    (∀ q ∈ (insertAt mp u m).1, q.1 = u.number ∨ ∃ q' ∈ m, q'.1 = q.1) ∧
    (∀ x, x ∈ (insertAt mp u m).1.flatMap (·.2) ↔
      (x ∈ m.flatMap (·.2) ∨ ((insertAt mp u m).2 = true ∧ x = u))) := by
  induction m with
  | nil =>
    have e : insertAt mp u [] = ([(u.number, [u])], true) := by simp [insertAt, hmp]
    rw [e]
    exact ⟨MapOk.cons (MapOk.nil mp) (by simp) (by simp) (by simp) hmp (by simp), by simp, by simp, by simp⟩
  | cons p rest ih =>
    obtain ⟨k, set⟩ := p
    have hrest := h.tail
    have hlt : ∀ q ∈ rest, k < q.1 := h.head_lt
    by_cases h1 : u.number < k
    · have e : insertAt mp u ((k, set) :: rest) = ((u.number, [u]) :: (k, set) :: rest, true) := by
        simp [insertAt, h1, hmp]
      rw [e]
      refine ⟨MapOk.cons h (fun q hq => ?_) (by simp) (by simp) hmp (by simp), by simp; omega, ?_, ?_⟩
      · rcases List.mem_cons.mp hq with rfl | hq
        · exact h1
        · exact Nat.lt_trans h1 (hlt q hq)
      · intro q hq
        rcases List.mem_cons.mp hq with rfl | hq
        · left; rfl
        · right; exact ⟨q, hq, rfl⟩
      · intro x
        simp only [List.flatMap_cons, List.mem_append, List.mem_singleton, true_and]
        constructor
        · rintro (hx | hx)
          · exact Or.inr hx
          · exact Or.inl hx
        · rintro (hx | hx)
          · exact Or.inr hx
          · exact Or.inl hx
    · by_cases h2 : u.number = k
      · subst h2
        by_cases h3 : set.length < mp
        · by_cases h4 : hasUncle set u = true
          · have e : insertAt mp u ((u.number, set) :: rest) = ((u.number, set) :: rest, false) := by
              simp [insertAt, h3, h4]
            rw [e]
            exact ⟨h, by simp, fun q hq => Or.inr ⟨q, hq, rfl⟩, by simp⟩
          · have h4' : hasUncle set u = false := by simpa using h4
            have e : insertAt mp u ((u.number, set) :: rest) = ((u.number, set ++ [u]) :: rest, true) := by
              simp [insertAt, h3, h4']
            rw [e]
            refine ⟨MapOk.cons hrest hlt (by simp) ?_ (by simp; omega) ?_, by simp; omega, ?_, ?_⟩
            · intro x hx
              rcases List.mem_append.mp hx with hx | hx
              · exact h.number (u.number, set) (List.mem_cons_self ..) x hx
              · simp at hx; subst hx; rfl
            · have hnd := h.nodup (u.number, set) (List.mem_cons_self ..)
              have hni := (hasUncle_false_iff set u).mp h4'
              simp only [List.map_append, List.map_cons, List.map_nil]
              rw [List.nodup_append]
              refine ⟨hnd, by simp, ?_⟩
              intro a ha b hb hab
              simp at hb; subst hb; subst hab; exact hni ha
            · intro q hq
              rcases List.mem_cons.mp hq with rfl | hq
              · left; rfl
              · right; exact ⟨q, List.mem_cons_of_mem _ hq, rfl⟩
            · intro x
              simp only [List.flatMap_cons, List.mem_append, List.mem_singleton, true_and]
              constructor
              · rintro ((hx | hx) | hx)
                · exact Or.inl (Or.inl hx)
                · exact Or.inr hx
                · exact Or.inl (Or.inr hx)
              · rintro ((hx | hx) | hx)
                · exact Or.inl (Or.inl hx)
                · exact Or.inr hx
                · exact Or.inl (Or.inr hx)
        · have e : insertAt mp u ((u.number, set) :: rest) = ((u.number, set) :: rest, false) := by
            simp [insertAt, h3]
          rw [e]
          exact ⟨h, by simp, fun q hq => Or.inr ⟨q, hq, rfl⟩, by simp⟩
      · have e : insertAt mp u ((k, set) :: rest) = ((k, set) :: (insertAt mp u rest).1, (insertAt mp u rest).2) := by
          simp [insertAt, h1, h2]
        rw [e]
        obtain ⟨i1, i2, i3, i4⟩ := ih hrest
        refine ⟨MapOk.cons i1 ?_ (h.nonempty _ (List.mem_cons_self ..)) (h.number _ (List.mem_cons_self ..))
          (h.per _ (List.mem_cons_self ..)) (h.nodup _ (List.mem_cons_self ..)), ?_, ?_, ?_⟩
        · intro q hq
          rcases i3 q hq with he | ⟨q', hq', he⟩
          · show k < q.1
            omega
          · show k < q.1
            rw [← he]; exact hlt q' hq'
        · simp only [tot_cons]; rw [i2]; omega
        · intro q hq
          rcases List.mem_cons.mp hq with rfl | hq
          · right; exact ⟨_, List.mem_cons_self .., rfl⟩
          · rcases i3 q hq with he | ⟨q', hq', he⟩
            · left; exact he
            · right; exact ⟨q', List.mem_cons_of_mem _ hq', he⟩
        · intro x
          simp only [List.flatMap_cons, List.mem_append]
          rw [i4 x]
          constructor
          · rintro (hx | hx | hx)
            · exact Or.inl (Or.inl hx)
            · exact Or.inl (Or.inr hx)
            · exact Or.inr hx
          · rintro ((hx | hx) | hx)
            · exact Or.inl hx
            · exact Or.inr (Or.inl hx)
            · exact Or.inr (Or.inr hx)

/-- the container invariant: `count` is exact and within the global limit, the map is well formed -/
structure CU.Inv (mc mp : Nat) (c : CU) : Prop where
  map : MapOk mp c.map
  count : c.count = tot c.map
  le : c.count ≤ mc

theorem CU.Inv.empty (mc mp : Nat) : CU.Inv mc mp {} := ⟨MapOk.nil mp, rfl, Nat.zero_le _⟩

theorem tot_pos_of_ne_nil {mp : Nat} {m : List (Nat × List Uncle)} (h : MapOk mp m) (hne : m ≠ []) : 0 < tot m := by
  cases m with
  | nil => exact absurd rfl hne
  | cons p rest =>
    have := h.nonempty p (List.mem_cons_self ..)
    have : 0 < p.2.length := List.length_pos_iff.mpr this
    simp only [tot_cons]; omega

theorem CU.put_inv {mc mp : Nat} (hmp : 0 < mp) {c : CU} (u : Uncle) (hm : MapOk mp c.map) (hc : c.count = tot c.map)
    (hlt : c.count < mc) : CU.Inv mc mp (CU.put mp c u).1 := by
  obtain ⟨i1, i2, _, _⟩ := insertAt_spec mp hmp u c.map hm
  refine ⟨i1, ?_, ?_⟩
  · simp only [CU.put]; rw [i2, hc]; split <;> rfl
  · simp only [CU.put]; split <;> omega

theorem CU.insert_inv {mc mp : Nat} (_hmc : 0 < mc) (hmp : 0 < mp) {c : CU} (h : CU.Inv mc mp c) (u : Uncle) :
    CU.Inv mc mp (c.insert mc mp u).1 := by
  unfold CU.insert
  by_cases hfull : c.count ≥ mc
  · simp only [hfull, if_true]
    cases hmap : c.map with
    | nil => simpa [hmap] using h
    | cons p rest =>
      obtain ⟨first, set⟩ := p
      simp only
      by_cases hgt : u.number > first
      · simp only [hgt, if_true]
        have hm : MapOk mp c.map := h.map
        rw [hmap] at hm
        have hcount : c.count = set.length + tot rest := by rw [h.count, hmap]; simp
        have hpos : 0 < set.length := List.length_pos_iff.mpr (hm.nonempty (first, set) (List.mem_cons_self ..))
        apply CU.put_inv hmp u
        · exact hm.tail
        · simp; omega
        · have := h.le; simp; omega
      · simp only [hgt, if_false]; exact h
  · simp only [hfull, if_false]
    exact CU.put_inv hmp u h.map h.count (by omega)

theorem CU.insert_never_panics {mc mp : Nat} (hmc : 0 < mc) {c : CU} (h : CU.Inv mc mp c) : ¬ c.insertPanics mc := by
  rintro ⟨hge, hnil⟩
  have := h.count
  rw [hnil] at this
  simp at this
  omega

/-! `remove_by_number` -/

theorem removeAt_spec (mp : Nat) (u : Uncle) (m : List (Nat × List Uncle)) (h : MapOk mp m) :
    MapOk mp (removeAt u m).1 ∧
    tot (removeAt u m).1 + (if (removeAt u m).2 then 1 else 0) = tot m ∧
    (∀ q ∈ (removeAt u m).1, ∃ q' ∈ m, q'.1 = q.1) ∧
    (∀ x, x ∈ (removeAt u m).1.flatMap (·.2) ↔ (x ∈ m.flatMap (·.2) ∧ ¬ (x.number = u.number ∧ x.id = u.id))) := by
  induction m with
  | nil => simp [removeAt, MapOk.nil]
  | cons p rest ih =>
    obtain ⟨k, set⟩ := p
    have hrest := h.tail
    have hlt := h.head_lt
    have hnum := h.number (k, set) (List.mem_cons_self ..)
    have hrestnum : ∀ x ∈ rest.flatMap (·.2), x.number ≠ k := by
      intro x hx
      obtain ⟨q, hq, hxq⟩ := List.mem_flatMap.mp hx
      have := hrest.number q hq x hxq
      have := hlt q hq
      simp at this; omega
    unfold removeAt
    by_cases h1 : k = u.number
    · subst h1
      simp only [beq_self_eq_true, if_true]
      by_cases h2 : hasUncle set u = true
      · simp only [h2, if_true]
        have hnd := h.nodup (u.number, set) (List.mem_cons_self ..)
        -- exactly one element of `set` has `u`'s id
        have hlen : (set.filter (fun x => x.id != u.id)).length + 1 = set.length := by
          clear hnum h hlt ih hrestnum
          induction set with
          | nil => simp [hasUncle] at h2
          | cons a s ihs =>
            simp only [List.map_cons, List.nodup_cons] at hnd
            by_cases ha : a.id = u.id
            · have : s.filter (fun x => x.id != u.id) = s := by
                apply List.filter_eq_self.mpr
                intro x hx
                have : x.id ≠ u.id := fun he => hnd.1 (List.mem_map.mpr ⟨x, hx, by rw [he, ha]⟩)
                simpa using this
              simp [List.filter_cons, ha, this]
            · have hs : hasUncle s u = true := by
                simp only [hasUncle, List.any_cons, Bool.or_eq_true] at h2
                rcases h2 with h2 | h2
                · exact absurd (by simpa using h2) ha
                · exact h2
              have := ihs hs hnd.2
              simp [List.filter_cons, ha]; omega
        have hmem : ∀ x, x ∈ set.filter (fun x => x.id != u.id) ↔ (x ∈ set ∧ x.id ≠ u.id) := by
          intro x; simp
        refine ⟨?_, ?_, ?_, ?_⟩
        · split
          · exact hrest
          · rename_i hne
            refine MapOk.cons hrest hlt (by simpa using hne) ?_ ?_ ?_
            · intro x hx; exact hnum x ((hmem x).mp hx).1
            · have := h.per (u.number, set) (List.mem_cons_self ..); simp at this ⊢; omega
            · exact (List.Sublist.map _ List.filter_sublist).nodup hnd
        · split
          · rename_i he
            have : (set.filter (fun x => x.id != u.id)).length = 0 := by
              simpa [List.isEmpty_iff] using he
            simp; omega
          · simp; omega
        · intro q hq
          split at hq
          · exact ⟨q, List.mem_cons_of_mem _ hq, rfl⟩
          · rcases List.mem_cons.mp hq with rfl | hq
            · exact ⟨_, List.mem_cons_self .., rfl⟩
            · exact ⟨q, List.mem_cons_of_mem _ hq, rfl⟩
        · intro x
          have key : x ∈ (set.filter (fun x => x.id != u.id)) ++ rest.flatMap (·.2) ↔
              (x ∈ set ++ rest.flatMap (·.2) ∧ ¬ (x.number = u.number ∧ x.id = u.id)) := by
            simp only [List.mem_append, hmem]
            constructor
            · rintro (⟨hx, hne⟩ | hx)
              · exact ⟨Or.inl hx, fun hh => hne hh.2⟩
              · exact ⟨Or.inr hx, fun hh => hrestnum x hx hh.1⟩
            · rintro ⟨hx | hx, hne⟩
              · exact Or.inl ⟨hx, fun hh => hne ⟨hnum x hx, hh⟩⟩
              · exact Or.inr hx
          split
          · rename_i he
            have hnil : set.filter (fun x => x.id != u.id) = [] := by simpa [List.isEmpty_iff] using he
            rw [hnil] at key
            simpa using key
          · simpa using key
      · have h2' : hasUncle set u = false := by simpa using h2
        simp only [h2', Bool.false_eq_true, if_false]
        refine ⟨h, by simp, fun q hq => ⟨q, hq, rfl⟩, ?_⟩
        intro x
        have hni := (hasUncle_false_iff set u).mp h2'
        simp only [List.flatMap_cons, List.mem_append]
        constructor
        · rintro (hx | hx)
          · exact ⟨Or.inl hx, fun hh => hni (List.mem_map.mpr ⟨x, hx, hh.2⟩)⟩
          · exact ⟨Or.inr hx, fun hh => hrestnum x hx hh.1⟩
        · exact fun hh => hh.1
    · have h1' : (k == u.number) = false := by simpa using h1
      simp only [h1', Bool.false_eq_true, if_false]
      obtain ⟨i1, i2, i3, i4⟩ := ih hrest
      refine ⟨MapOk.cons i1 ?_ (h.nonempty _ (List.mem_cons_self ..)) hnum
          (h.per _ (List.mem_cons_self ..)) (h.nodup _ (List.mem_cons_self ..)), ?_, ?_, ?_⟩
      · intro q hq
        obtain ⟨q', hq', he⟩ := i3 q hq
        show k < q.1; rw [← he]; exact hlt q' hq'
      · simp only [tot_cons]; omega
      · intro q hq
        rcases List.mem_cons.mp hq with rfl | hq
        · exact ⟨_, List.mem_cons_self .., rfl⟩
        · obtain ⟨q', hq', he⟩ := i3 q hq
          exact ⟨q', List.mem_cons_of_mem _ hq', he⟩
      · intro x
        simp only [List.flatMap_cons, List.mem_append]
        rw [i4 x]
        constructor
        · rintro (hx | hx)
          · exact ⟨Or.inl hx, fun hh => h1 ((hnum x hx).symm.trans hh.1)⟩
          · exact ⟨Or.inr hx.1, hx.2⟩
        · rintro ⟨hx | hx, hne⟩
          · exact Or.inl hx
          · exact Or.inr ⟨hx, hne⟩

theorem CU.remove_inv {mc mp : Nat} {c : CU} (h : CU.Inv mc mp c) (u : Uncle) :
    CU.Inv mc mp (c.removeByNumber u).1 := by
  obtain ⟨i1, i2, _, _⟩ := removeAt_spec mp u c.map h.map
  refine ⟨i1, ?_, ?_⟩
  · simp only [CU.removeByNumber]
    have := h.count
    split <;> rename_i hb <;> simp [hb] at i2 <;> omega
  · simp only [CU.removeByNumber]
    have := h.le
    split <;> omega

theorem CU.fold_remove_inv {mc mp : Nat} (rs : List Uncle) {c : CU} (h : CU.Inv mc mp c) :
    CU.Inv mc mp (rs.foldl (fun c x => (c.removeByNumber x).1) c) := by
  induction rs generalizing c with
  | nil => exact h
  | cons r rs ih => exact ih (CU.remove_inv h r)

theorem CU.fold_insert_inv {mc mp : Nat} (hmc : 0 < mc) (hmp : 0 < mp) (us : List Uncle) {c : CU} (h : CU.Inv mc mp c) :
    CU.Inv mc mp (us.foldl (fun c u => (c.insert mc mp u).1) c) := by
  induction us generalizing c with
  | nil => exact h
  | cons u us ih => exact ih (CU.insert_inv hmc hmp h u)

/-- membership after a run of removals -/
theorem CU.fold_remove_mem {mc mp : Nat} (rs : List Uncle) {c : CU} (h : CU.Inv mc mp c) (x : Uncle) :
    x ∈ (rs.foldl (fun c x => (c.removeByNumber x).1) c).values ↔
      (x ∈ c.values ∧ ∀ r ∈ rs, ¬ (x.number = r.number ∧ x.id = r.id)) := by
  induction rs generalizing c with
  | nil => simp
  | cons r rs ih =>
    simp only [List.foldl_cons]
    rw [ih (CU.remove_inv h r)]
    have := (removeAt_spec mp r c.map h.map).2.2.2 x
    simp only [CU.values, CU.removeByNumber] at this ⊢
    rw [this]
    simp only [List.mem_cons, forall_eq_or_imp]
    constructor
    · rintro ⟨⟨h1, h2⟩, h3⟩; exact ⟨h1, h2, h3⟩
    · rintro ⟨h1, h2, h3⟩; exact ⟨⟨h1, h2⟩, h3⟩

/-- `values()` is in ascending height order -/
theorem values_sorted {mp : Nat} (m : List (Nat × List Uncle)) (h : MapOk mp m) :
    ((m.flatMap (·.2)).map (·.number)).Pairwise (· ≤ ·) := by
  induction m with
  | nil => simp
  | cons p rest ih =>
    simp only [List.flatMap_cons, List.map_append, List.pairwise_append]
    refine ⟨?_, ih h.tail, ?_⟩
    · rw [List.pairwise_map]
      apply List.Pairwise.imp_of_mem (R := fun _ _ => True)
      · intro a b ha hb _
        rw [h.number p (List.mem_cons_self ..) a ha, h.number p (List.mem_cons_self ..) b hb]
        exact Nat.le_refl _
      · exact List.pairwise_of_forall (fun _ _ => trivial)
    · intro a ha b hb
      obtain ⟨x, hx, rfl⟩ := List.mem_map.mp ha
      obtain ⟨y, hy, rfl⟩ := List.mem_map.mp hb
      obtain ⟨q, hq, hyq⟩ := List.mem_flatMap.mp hy
      rw [h.number p (List.mem_cons_self ..) x hx, h.tail.number q hq y hyq]
      exact Nat.le_of_lt (h.head_lt q hq)

/-! ### the service's messages keep the content invariant -/

/-- hypotheses on one message, in the state it meets (`cxOf` = the verifier's view of the chain ending
    in a tip). The container's content is what the chain service fed (`CandsOk`). -/
def GOp.Ok (cfg : Cfg) (U mc mp : Nat) (cxOf : Tip → Cx) (g : GSt) : GOp → Prop
  | .recvUncle _ => True
  | .reorgBlank detached tip _ =>
    TipOk cfg U tip (cxOf tip) ∧
      CandsOk cfg (cxOf tip) (detached.foldl (fun c u => (c.insert mc mp u).1) g.cu).values
  | .reset tip _ => TipOk cfg U tip (cxOf tip) ∧ CandsOk cfg (cxOf tip) g.cu.values
  | .full _ pending v _ => pending.Nodup ∧ LinksOk v ∧ AggGe v ∧ g.a.tip.cbId ∉ v.ids
  | .uncles => CandsOk cfg (cxOf g.a.tip) g.cu.values
  | .proposals _ pending => pending.Nodup
  | .txs _ v _ => LinksOk v ∧ AggGe v ∧ g.a.tip.cbId ∉ v.ids

def GOkRun (cfg : Cfg) (U mc mp : Nat) (cxOf : Tip → Cx) : GSt → List GOp → Prop
  | _, [] => True
  | g, op :: ops => op.Ok cfg U mc mp cxOf g ∧ GOkRun cfg U mc mp cxOf (gstep cfg U mc mp g op) ops

/-- is the message one that installs a blank template (whatever was there before)? -/
def GOp.isBlank : GOp → Bool
  | .reorgBlank .. => true
  | .reset .. => true
  | _ => false

theorem gstep_blank_inv (cfg : Cfg) (U mc mp : Nat) (cxOf : Tip → Cx) (g : GSt) (op : GOp)
    (hb : op.isBlank = true) (hok : op.Ok cfg U mc mp cxOf g) : AInv cfg U cxOf (gstep cfg U mc mp g op).a := by
  cases op with
  | reorgBlank detached tip tipId => exact AInv.blank g.a tip _ hok
  | reset tip tipId => exact AInv.blank g.a tip _ hok
  | _ => simp [GOp.isBlank] at hb

theorem gstep_inv (cfg : Cfg) (U mc mp : Nat) (cxOf : Tip → Cx) (g : GSt) (op : GOp)
    (h : AInv cfg U cxOf g.a) (hok : op.Ok cfg U mc mp cxOf g) : AInv cfg U cxOf (gstep cfg U mc mp g op).a := by
  cases op with
  | recvUncle u => exact h
  | reorgBlank detached tip tipId => exact AInv.blank g.a tip _ hok
  | reset tip tipId => exact AInv.blank g.a tip _ hok
  | full poolTip pending v keep =>
    simp only [gstep]; split
    · exact h
    · exact h.step (.full pending v keep) hok
  | uncles =>
    simp only [gstep]; split
    · split
      · exact h.step (.uncles g.cu.values) hok
      · exact h
    · exact h
  | proposals poolTip pending =>
    simp only [gstep]; split
    · exact h
    · exact h.step (.proposals pending) hok
  | txs poolTip v keep =>
    simp only [gstep]; split
    · exact h
    · exact h.step (.txs v keep) hok

theorem grun_inv (cfg : Cfg) (U mc mp : Nat) (cxOf : Tip → Cx) (ops : List GOp) (g : GSt)
    (h : AInv cfg U cxOf g.a) (hok : GOkRun cfg U mc mp cxOf g ops) :
    AInv cfg U cxOf (grun cfg U mc mp g ops).a := by
  induction ops generalizing g with
  | nil => exact h
  | cons op ops ih => exact ih _ (gstep_inv cfg U mc mp cxOf g op h hok.1) hok.2

/-- the container invariant under every message -/
theorem gstep_cu_inv (cfg : Cfg) (U mc mp : Nat) (hmc : 0 < mc) (hmp : 0 < mp) (g : GSt) (op : GOp)
    (h : CU.Inv mc mp g.cu) : CU.Inv mc mp (gstep cfg U mc mp g op).cu := by
  cases op with
  | recvUncle u => exact CU.insert_inv hmc hmp h u
  | reorgBlank detached tip tipId =>
    exact CU.fold_remove_inv _ (CU.fold_insert_inv hmc hmp detached h)
  | reset tip tipId => exact CU.fold_remove_inv _ h
  | full poolTip pending v keep => simp only [gstep]; split <;> exact h
  | uncles =>
    simp only [gstep]; split
    · split
      · exact CU.fold_remove_inv _ h
      · exact h
    · exact h
  | proposals poolTip pending => simp only [gstep]; split <;> exact h
  | txs poolTip v keep => simp only [gstep]; split <;> exact h

/-! ### the commit phase (`TwoPhaseCommitVerifier`) -/

/-- the pool's `Proposed` status agrees with the verifier's proposal window for a block on `tip`
    (the tx-pool's stage invariant: C12 / C20) -/
def ProposedInWindow (cfg : Cfg) (cx : Cx) (tip : Tip) (v : View) : Prop :=
  ∀ id, v.hasProposed id = true →
    (Window.verifierIds cfg.win cx.chain (tip.snap.tipNumber + 1)).contains id = true

def aopCommitOk (cfg : Cfg) (cxOf : Tip → Cx) (s : ASt) : AOp → Prop
  | .full _ v _ => LinksOk v ∧ ProposedInWindow cfg (cxOf s.tip) s.tip v
  | .txs v _ => LinksOk v ∧ ProposedInWindow cfg (cxOf s.tip) s.tip v
  | _ => True

def CommitOkRun (cfg : Cfg) (U : Nat) (cxOf : Tip → Cx) : ASt → List AOp → Prop
  | _, [] => True
  | s, op :: ops => aopCommitOk cfg cxOf s op ∧ CommitOkRun cfg U cxOf (astep cfg U s op) ops

/-- every transaction of the template is inside the verifier's window of the template's own tip -/
def CInv (cfg : Cfg) (cxOf : Tip → Cx) (s : ASt) : Prop :=
  ∀ e ∈ s.t.txs, (Window.verifierIds cfg.win (cxOf s.tip).chain (s.tip.snap.tipNumber + 1)).contains e.id = true

theorem packageTxs_proposed (cfg : Cfg) (v : View) (keep : Entry → Bool) (l : Nat) (hL : LinksOk v) :
    ∀ e ∈ packageTxs cfg v keep l, v.hasProposed e.id = true := by
  intro e he
  have h := Selector.Inv.final (sl := l) (cl := cfg.maxCycles) hL
  exact (h.outGood e (List.mem_filter.mp he).1).1

theorem CInv.step {cfg : Cfg} {U : Nat} {cxOf : Tip → Cx} {s : ASt} (h : CInv cfg cxOf s) (op : AOp)
    (hok : aopCommitOk cfg cxOf s op) : CInv cfg cxOf (astep cfg U s op) := by
  cases op with
  | blank tip cands => intro e he; simp [astep] at he
  | full pending v keep =>
    simp only [astep]; split
    · exact h
    · intro e he
      exact hok.2 e.id (packageTxs_proposed cfg v keep _ hok.1 e he)
  | uncles cands =>
    simp only [astep]; split
    · split
      · split
        · exact h
        · exact h
      · exact h
    · exact h
  | proposals pending =>
    simp only [astep]; split
    · exact h
    · exact h
  | txs v keep =>
    simp only [astep]; split
    · exact h
    · intro e he
      exact hok.2 e.id (packageTxs_proposed cfg v keep _ hok.1 e he)

theorem CInv.run {cfg : Cfg} {U : Nat} {cxOf : Tip → Cx} (ops : List AOp) {s : ASt} (h : CInv cfg cxOf s)
    (hok : CommitOkRun cfg U cxOf s ops) : CInv cfg cxOf (arun cfg U s ops) := by
  induction ops generalizing s with
  | nil => exact h
  | cons op ops ih => exact ih (h.step op hok.1) hok.2

theorem CInv.sealed {cfg : Cfg} {U : Nat} {cxOf : Tip → Cx} {s : ASt} (h : CInv cfg cxOf s)
    (hlen : s.tip.snap.tipNumber + 1 - cfg.win.close < (cxOf s.tip).chain.length) :
    Rules.commitCheck cfg (cxOf s.tip) (sealBlock U s) = none := by
  have hn : ((sealBlock U s).number == 0) = false := by simp [sealBlock]
  have hl : ¬ (cxOf s.tip).chain.length ≤ (sealBlock U s).number - cfg.win.close := by
    simp only [sealBlock]; omega
  have hc : Window.commitOk cfg.win (cxOf s.tip).chain (sealBlock U s).number (sealBlock U s).committed = true := by
    simp only [Window.commitOk, sealBlock, List.all_eq_true, List.mem_map]
    rintro x ⟨e, he, rfl⟩
    exact h e he
  simp [Rules.commitCheck, hn, hl, hc]

/-- the same under the service's messages -/
def GOp.CommitOk (cfg : Cfg) (cxOf : Tip → Cx) (g : GSt) : GOp → Prop
  | .full _ _ v _ => LinksOk v ∧ ProposedInWindow cfg (cxOf g.a.tip) g.a.tip v
  | .txs _ v _ => LinksOk v ∧ ProposedInWindow cfg (cxOf g.a.tip) g.a.tip v
  | _ => True

def GCommitOkRun (cfg : Cfg) (U mc mp : Nat) (cxOf : Tip → Cx) : GSt → List GOp → Prop
  | _, [] => True
  | g, op :: ops => op.CommitOk cfg cxOf g ∧ GCommitOkRun cfg U mc mp cxOf (gstep cfg U mc mp g op) ops

theorem gstep_cinv (cfg : Cfg) (U mc mp : Nat) (cxOf : Tip → Cx) (g : GSt) (op : GOp)
    (h : CInv cfg cxOf g.a) (hok : op.CommitOk cfg cxOf g) : CInv cfg cxOf (gstep cfg U mc mp g op).a := by
  cases op with
  | recvUncle u => exact h
  | reorgBlank detached tip tipId => exact CInv.step (U := U) (s := g.a) h (.blank tip _) trivial
  | reset tip tipId => exact CInv.step (U := U) h (.blank tip _) trivial
  | full poolTip pending v keep =>
    simp only [gstep]; split
    · exact h
    · exact CInv.step (U := U) h (.full pending v keep) hok
  | uncles =>
    simp only [gstep]; split
    · split
      · exact CInv.step (U := U) h (.uncles g.cu.values) trivial
      · exact h
    · exact h
  | proposals poolTip pending =>
    simp only [gstep]; split
    · exact h
    · exact CInv.step (U := U) h (.proposals pending) trivial
  | txs poolTip v keep =>
    simp only [gstep]; split
    · exact h
    · exact CInv.step (U := U) h (.txs v keep) hok

theorem grun_cinv (cfg : Cfg) (U mc mp : Nat) (cxOf : Tip → Cx) (ops : List GOp) (g : GSt)
    (h : CInv cfg cxOf g.a) (hok : GCommitOkRun cfg U mc mp cxOf g ops) :
    CInv cfg cxOf (grun cfg U mc mp g ops).a := by
  induction ops generalizing g with
  | nil => exact h
  | cons op ops ih => exact ih _ (gstep_cinv cfg U mc mp cxOf g op h hok.1) hok.2

/-! ### what `prepare_uncles` removes from the container -/

theorem prepareLoop_removed (maxU : Nat) (snap : Snap) (en tg : Nat) (cands uncles removed : List Uncle) :
    ∀ r ∈ (prepareLoop maxU snap en tg cands uncles removed).2,
      r ∈ removed ∨ (r ∈ cands ∧ (r.target != tg || r.epochNumber != en) = true) := by
  induction cands generalizing uncles removed with
  | nil => intro r hr; exact Or.inl hr
  | cons u rest ih =>
    intro r hr
    unfold prepareLoop at hr
    split at hr
    · exact Or.inl hr
    · split at hr
      · rename_i hc
        rcases ih _ _ r hr with h | h
        · rcases List.mem_append.mp h with h | h
          · exact Or.inl h
          · simp at h; subst h; exact Or.inr ⟨List.mem_cons_self .., hc⟩
        · exact Or.inr ⟨List.mem_cons_of_mem _ h.1, h.2⟩
      · split at hr
        · rcases ih _ _ r hr with h | h
          · exact Or.inl h
          · exact Or.inr ⟨List.mem_cons_of_mem _ h.1, h.2⟩
        · rcases ih _ _ r hr with h | h
          · exact Or.inl h
          · exact Or.inr ⟨List.mem_cons_of_mem _ h.1, h.2⟩

theorem eq_of_nodup_ids (l : List Uncle) (h : (l.map (·.id)).Nodup) (x r : Uncle) (hx : x ∈ l) (hr : r ∈ l)
    (hi : x.id = r.id) : x = r := by
  induction l with
  | nil => simp at hx
  | cons a l ih =>
    simp only [List.map_cons, List.nodup_cons] at h
    rcases List.mem_cons.mp hx with hxa | hxl <;> rcases List.mem_cons.mp hr with hra | hrl
    · rw [hxa, hra]
    · subst hxa
      exact absurd (show x.id ∈ l.map (·.id) from List.mem_map.mpr ⟨r, hrl, hi.symm⟩) h.1
    · subst hra
      exact absurd (show r.id ∈ l.map (·.id) from List.mem_map.mpr ⟨x, hxl, hi⟩) h.1
    · exact ih h.2 hxl hrl

/-- (number, hash) identifies a stored candidate -/
theorem mem_values_unique {mp : Nat} (m : List (Nat × List Uncle)) (h : MapOk mp m) (x r : Uncle)
    (hx : x ∈ m.flatMap (·.2)) (hr : r ∈ m.flatMap (·.2)) (hn : x.number = r.number) (hi : x.id = r.id) : x = r := by
  induction m with
  | nil => simp at hx
  | cons p rest ih =>
    have hrestnum : ∀ y ∈ rest.flatMap (·.2), p.1 < y.number := by
      intro y hy
      obtain ⟨q, hq, hyq⟩ := List.mem_flatMap.mp hy
      rw [h.tail.number q hq y hyq]
      exact h.head_lt q hq
    simp only [List.flatMap_cons, List.mem_append] at hx hr
    rcases hx with hx | hx <;> rcases hr with hr | hr
    · exact eq_of_nodup_ids p.2 (h.nodup p (List.mem_cons_self ..)) x r hx hr hi
    · have := h.number p (List.mem_cons_self ..) x hx
      have := hrestnum r hr
      omega
    · have := h.number p (List.mem_cons_self ..) r hr
      have := hrestnum x hx
      omega
    · exact ih h.tail hx hr

/-- `prepare_uncles` only removes, and never a candidate of the epoch and target it prepares for -/
theorem CU.prepare_values {mc mp : Nat} {c : CU} (h : CU.Inv mc mp c) (mu : Nat) (snap : Snap) (en tg : Nat) :
    (∀ x ∈ (c.prepare mu snap en tg).2.values, x ∈ c.values) ∧
    (∀ x ∈ c.values, x.target = tg → x.epochNumber = en → x ∈ (c.prepare mu snap en tg).2.values) := by
  refine ⟨?_, ?_⟩
  · intro x hx
    exact ((CU.fold_remove_mem _ h x).mp hx).1
  · intro x hx ht he
    apply (CU.fold_remove_mem _ h x).mpr
    refine ⟨hx, ?_⟩
    intro r hr hsame
    rcases prepareLoop_removed mu snap en tg c.values [] [] r hr with h0 | ⟨hrc, hother⟩
    · simp at h0
    · have : x = r := mem_values_unique c.map h.map x r hx hrc hsame.1 hsame.2
      subst this
      simp [ht, he] at hother

end CkbVerif.AssemblerSvc
